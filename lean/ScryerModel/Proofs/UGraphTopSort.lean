import ScryerModel.Proofs.UGraph
import Mathlib.Data.List.Perm.Subperm
import Mathlib.Data.Finset.Card
/-! Topological sorting (`top_sort/2`) for the `library(ugraphs)` model: the counting passes equal
their specification, loop invariant, soundness, completeness on acyclic graphs. -/
set_option linter.unnecessarySeqFocus false
set_option linter.unusedSimpArgs false
namespace Scryer.UGraph
open Relation

/-! ## top_sort: the counting passes -/

theorem zeros_eq (g : Graph) : zeros g = (vertices g).map (fun _ => (0 : Int)) := by
  induction g with
  | nil => rfl
  | cons p g ih => obtain ⟨v, ns⟩ := p; simp [zeros, ih]

theorem incrList_spec {ns vs : List Nat} (hns : Sorted ns) (hvs : Sorted vs) (hsub : ∀ x ∈ ns, x ∈ vs)
    (f : Nat → Int) :
    incrList ns vs (vs.map f) = some (vs.map (fun v => if v ∈ ns then f v + 1 else f v)) := by
  induction vs generalizing ns with
  | nil =>
    cases ns with
    | nil => simp [incrList]
    | cons a ns => have := hsub a (by simp); simp at this
  | cons v2 vs ih =>
    cases ns with
    | nil => simp [incrList]
    | cons v1 ns =>
      rw [sorted_cons] at hns hvs
      by_cases h : v1 = v2
      · subst h
        have hsub' : ∀ x ∈ ns, x ∈ vs := by
          intro x hx
          have h1 := hsub x (by simp [hx]); have := hns.1 x hx
          simp at h1; rcases h1 with h1 | h1
          · omega
          · exact h1
        simp only [List.map_cons, incrList, if_true, ih hns.2 hvs.2 hsub']
        simp
        intro a ha
        have := hvs.1 a ha
        have : a ≠ v1 := by omega
        simp [this]
      · have h1 := hsub v1 (by simp)
        simp [h] at h1
        have hlt := hvs.1 v1 h1
        have hsub' : ∀ x ∈ v1 :: ns, x ∈ vs := by
          intro x hx
          have h2 := hsub x hx
          simp at hx h2
          rcases hx with rfl | hx
          · exact h1
          · have := hns.1 x hx
            rcases h2 with h2 | h2
            · omega
            · exact h2
        simp only [List.map_cons, incrList, h, if_false, ih (sorted_cons.2 hns) hvs.2 hsub']
        simp
        rintro (h3 | h3)
        · omega
        · have := hns.1 _ h3; omega

theorem countEdges_spec {g' : Graph} {vs : List Nat} (hvs : Sorted vs)
    (hn : ∀ p ∈ g', Sorted p.2 ∧ ∀ y ∈ p.2, y ∈ vs) (f : Nat → Int) :
    countEdges g' vs (vs.map f) =
      some (vs.map (fun v => f v + ((g'.countP (fun p => decide (v ∈ p.2)) : Nat) : Int))) := by
  induction g' generalizing f with
  | nil => simp [countEdges]
  | cons p g' ih =>
    obtain ⟨x, ns⟩ := p
    have h1 := hn (x, ns) (by simp)
    simp only [countEdges, incrList_spec h1.1 hvs h1.2 f]
    rw [ih (fun p hp => hn p (by simp [hp]))]
    simp
    intro a _
    by_cases h : a ∈ ns <;> simp [h, List.countP_cons] <;> omega

theorem selectZeros_spec (vs : List Nat) (f : Nat → Int) :
    selectZeros (vs.map f) vs = some (vs.filter (fun v => decide (f v = 0))) := by
  induction vs with
  | nil => simp [selectZeros]
  | cons v vs ih =>
    by_cases h : f v = 0 <;> simp [selectZeros, h, ih]

theorem decrList_spec {ns vs : List Nat} (hns : Sorted ns) (hvs : Sorted vs) (hsub : ∀ x ∈ ns, x ∈ vs)
    (f : Nat → Int) (zi : List Nat) :
    decrList ns vs (vs.map f) zi =
      some (vs.map (fun v => if v ∈ ns then f v - 1 else f v),
            (vs.filter (fun v => decide (v ∈ ns ∧ f v = 1))).reverse ++ zi) := by
  induction vs generalizing ns zi with
  | nil =>
    cases ns with
    | nil => simp [decrList]
    | cons a ns => have := hsub a (by simp); simp at this
  | cons v2 vs ih =>
    cases ns with
    | nil => simp [decrList]
    | cons v1 ns =>
      rw [sorted_cons] at hns hvs
      by_cases h : v1 = v2
      · subst h
        have hsub' : ∀ x ∈ ns, x ∈ vs := by
          intro x hx
          have h1 := hsub x (by simp [hx]); have := hns.1 x hx
          simp at h1; rcases h1 with h1 | h1
          · omega
          · exact h1
        have hne : ∀ a ∈ vs, a ≠ v1 := fun a ha => by have := hvs.1 a ha; omega
        have hf : vs.filter (fun v => decide (v ∈ v1 :: ns ∧ f v = 1)) = vs.filter (fun v => decide (v ∈ ns ∧ f v = 1)) := by
          apply List.filter_congr
          intro a ha; simp [hne a ha]
        have hm : vs.map (fun v => if v ∈ v1 :: ns then f v - 1 else f v) = vs.map (fun v => if v ∈ ns then f v - 1 else f v) := by
          apply List.map_congr_left
          intro a ha; simp [hne a ha]
        by_cases h1 : f v1 = 1
        · simp only [List.map_cons, decrList, if_true, h1, ih hns.2 hvs.2 hsub', Option.map_some, List.filter_cons]
          rw [hm, hf]; simp [h1]
        · simp only [List.map_cons, decrList, if_true, h1, if_false, ih hns.2 hvs.2 hsub', Option.map_some, List.filter_cons]
          rw [hm, hf]; simp [h1]
      · have h1 := hsub v1 (by simp)
        simp [h] at h1
        have hlt := hvs.1 v1 h1
        have hsub' : ∀ x ∈ v1 :: ns, x ∈ vs := by
          intro x hx
          have h2 := hsub x hx
          simp at hx h2
          rcases hx with rfl | hx
          · exact h1
          · have := hns.1 x hx
            rcases h2 with h2 | h2
            · omega
            · exact h2
        have hv2 : v2 ∉ v1 :: ns := by
          simp; constructor
          · omega
          · intro h3; have := hns.1 _ h3; omega
        simp only [List.map_cons, decrList, h, if_false, ih (sorted_cons.2 hns) hvs.2 hsub']
        simp only [List.filter_cons, hv2, if_false]
        simp


/-! ## top_sort: predecessor counts as a specification -/

/-- the predecessors of `v` (sources of the edges into `v`), in key order. -/
def preds (g : Graph) (v : Nat) : List Nat := (g.filter (fun p => decide (v ∈ p.2))).map Prod.fst

/-- number of predecessors of `v` that are not in `S`. -/
def cntF (g : Graph) (S : List Nat) (v : Nat) : Nat := (preds g v).countP (fun u => decide (u ∉ S))

theorem mem_preds {g : Graph} {u v : Nat} : u ∈ preds g v ↔ Edge g u v := by
  simp [preds, Edge]

theorem nodup_preds {g : Graph} (hk : Sorted (vertices g)) (v : Nat) : (preds g v).Nodup := by
  apply List.Nodup.sublist _ hk.nodup
  rw [vertices_eq_map]
  exact List.Sublist.map _ List.filter_sublist

theorem cntF_nil (g : Graph) (v : Nat) : cntF g [] v = g.countP (fun p => decide (v ∈ p.2)) := by
  simp [cntF, preds, List.countP_eq_length_filter]

theorem cntF_eq_zero {g : Graph} {S : List Nat} {v : Nat} : cntF g S v = 0 ↔ ∀ u, Edge g u v → u ∈ S := by
  simp [cntF, List.countP_eq_zero, mem_preds]

theorem countP_notMem_cons {l S : List Nat} {z : Nat} (hl : l.Nodup) (hz : z ∉ S) :
    l.countP (fun u => decide (u ∉ z :: S)) + (if z ∈ l then 1 else 0) = l.countP (fun u => decide (u ∉ S)) := by
  induction l with
  | nil => simp
  | cons a l ih =>
    rw [List.nodup_cons] at hl
    have ih := ih hl.2
    by_cases haz : a = z
    · subst haz
      simp [List.countP_cons, hz, hl.1] at ih ⊢
      omega
    · have hza : z ≠ a := fun h => haz h.symm
      by_cases haS : a ∈ S <;> simp [List.countP_cons, haz, hza, haS] at ih ⊢ <;> omega

theorem cntF_cons {g : Graph} (hk : Sorted (vertices g)) {S : List Nat} {z : Nat} (hz : z ∉ S) (v : Nat) :
    cntF g (z :: S) v + (if z ∈ preds g v then 1 else 0) = cntF g S v :=
  countP_notMem_cons (nodup_preds hk v) hz

/-- invariant of the `top_sort/5` loop: `S` emitted so far, `Z` the stack of ready vertices,
    `f` the current counts. -/
structure TInv (g : Graph) (S Z : List Nat) (f : Nat → Int) : Prop where
  nodup : (S ++ Z).Nodup
  sub : ∀ x ∈ S ++ Z, x ∈ vertices g
  cnt : ∀ v ∈ vertices g, f v = (cntF g S v : Int)
  zero : ∀ v ∈ vertices g, (v ∈ S ∨ v ∈ Z) ↔ f v = 0

theorem tinv_step {g : Graph} (hg : WF g) {S Z : List Nat} {z : Nat} {f : Nat → Int}
    (h : TInv g S (z :: Z) f) :
    ∃ ns f' Z', neighbours z g = some ns ∧
      decrList ns (vertices g) ((vertices g).map f) Z = some ((vertices g).map f', Z') ∧
      TInv g (z :: S) Z' f' ∧ (∀ u, Edge g u z → u ∈ S) := by
  have hzV : z ∈ vertices g := h.sub z (by simp)
  have hzS : z ∉ S := by
    have := h.nodup
    rw [List.nodup_append] at this
    intro hz; exact this.2.2 z hz z (by simp) rfl
  have hzZ : z ∉ Z := by
    have := h.nodup
    rw [List.nodup_append, List.nodup_cons] at this
    exact this.2.1.1
  obtain ⟨ns, hns⟩ := neighbours_isSome hzV
  have hmem := neighbours_some_mem hns
  have hsn : Sorted ns := hg.nbrs _ hmem
  have hnsV : ∀ y ∈ ns, y ∈ vertices g := hg.closed _ hmem
  have hE : ∀ v, v ∈ ns ↔ Edge g z v := by
    intro v; rw [edge_iff_neighbours hg.keys]; simp [hns]
  have hfz : f z = 0 := (h.zero z hzV).1 (Or.inr (by simp))
  have hpred : ∀ u, Edge g u z → u ∈ S := by
    apply cntF_eq_zero.1
    have := h.cnt z hzV
    rw [hfz] at this
    exact_mod_cast this.symm
  refine ⟨ns, fun v => if v ∈ ns then f v - 1 else f v,
    ((vertices g).filter (fun v => decide (v ∈ ns ∧ f v = 1))).reverse ++ Z, hns,
    decrList_spec hsn hg.keys hnsV f Z, ?_, hpred⟩
  -- counts of neighbours of z are positive
  have hpos : ∀ v ∈ vertices g, v ∈ ns → 1 ≤ f v := by
    intro v hv hvn
    have h1 := h.cnt v hv
    have h2 := cntF_cons hg.keys hzS v (g := g)
    have hzp : z ∈ preds g v := mem_preds.2 ((hE v).1 hvn)
    simp only [hzp, if_true] at h2
    omega
  have hcnt' : ∀ v ∈ vertices g, (if v ∈ ns then f v - 1 else f v) = (cntF g (z :: S) v : Int) := by
    intro v hv
    have h1 := h.cnt v hv
    have h2 := cntF_cons hg.keys hzS v (g := g)
    by_cases hvn : v ∈ ns
    · have hzp : z ∈ preds g v := mem_preds.2 ((hE v).1 hvn)
      simp only [hzp, if_true] at h2
      simp only [hvn, if_true]; omega
    · have hzp : z ∉ preds g v := fun e => hvn ((hE v).2 (mem_preds.1 e))
      simp only [hzp, if_false] at h2
      simp only [hvn, if_false]; omega
  have hzero' : ∀ v ∈ vertices g, (v ∈ z :: S ∨ v ∈ ((vertices g).filter (fun v => decide (v ∈ ns ∧ f v = 1))).reverse ++ Z) ↔
      (if v ∈ ns then f v - 1 else f v) = 0 := by
    intro v hv
    have h0 := h.zero v hv
    simp only [List.mem_cons] at h0
    simp only [List.mem_cons, List.mem_append, List.mem_reverse, List.mem_filter, decide_eq_true_eq]
    by_cases hvn : v ∈ ns
    · have := hpos v hv hvn
      simp only [hvn, if_true]
      constructor
      · rintro ((h1 | h1) | (h1 | h1))
        · have := h0.1 (Or.inr (Or.inl h1)); omega
        · have := h0.1 (Or.inl h1); omega
        · omega
        · have := h0.1 (Or.inr (Or.inr h1)); omega
      · intro h1
        exact Or.inr (Or.inl ⟨hv, trivial, by omega⟩)
    · simp only [hvn, if_false]
      constructor
      · rintro ((h1 | h1) | (h1 | h1))
        · exact h0.1 (Or.inr (Or.inl h1))
        · exact h0.1 (Or.inl h1)
        · exact absurd h1.2.1 (by simp)
        · exact h0.1 (Or.inr (Or.inr h1))
      · intro h1
        rcases h0.2 h1 with h2 | h2 | h2
        · exact Or.inl (Or.inr h2)
        · exact Or.inl (Or.inl h2)
        · exact Or.inr (Or.inr h2)
  refine ⟨?_, ?_, hcnt', hzero'⟩
  · -- nodup
    have hnd := h.nodup
    rw [List.nodup_append] at hnd
    obtain ⟨hS, hZ, hdis⟩ := hnd
    rw [List.nodup_cons] at hZ
    have hfilt : ((vertices g).filter (fun v => decide (v ∈ ns ∧ f v = 1))).Nodup := hg.keys.nodup.filter _
    have hnew : ∀ x, x ∈ (vertices g).filter (fun v => decide (v ∈ ns ∧ f v = 1)) → x ≠ z ∧ x ∉ S ∧ x ∉ Z := by
      intro x hx
      simp at hx
      obtain ⟨hxV, _, hx1⟩ := hx
      have h0 := h.zero x hxV
      refine ⟨?_, ?_, ?_⟩
      · rintro rfl; omega
      · intro hxS; have := h0.1 (Or.inl hxS); omega
      · intro hxZ; have := h0.1 (Or.inr (by simp [hxZ])); omega
    rw [List.nodup_append]
    refine ⟨List.nodup_cons.2 ⟨hzS, hS⟩, ?_, ?_⟩
    · rw [List.nodup_append]
      refine ⟨List.nodup_reverse.2 hfilt, hZ.2, ?_⟩
      intro a ha b hb hab
      subst hab
      exact (hnew a (List.mem_reverse.1 ha)).2.2 hb
    · intro a ha b hb hab
      subst hab
      simp only [List.mem_cons] at ha
      simp only [List.mem_append, List.mem_reverse] at hb
      rcases hb with hb | hb
      · have := hnew a hb
        rcases ha with ha | ha
        · exact this.1 ha
        · exact this.2.1 ha
      · rcases ha with ha | ha
        · subst ha; exact hzZ hb
        · exact hdis a ha a (by simp [hb]) rfl
  · intro x hx
    simp only [List.mem_cons, List.mem_append, List.mem_reverse, List.mem_filter] at hx
    rcases hx with (rfl | hx) | (hx | hx)
    · exact hzV
    · exact h.sub x (by simp [hx])
    · exact hx.1
    · exact h.sub x (by simp [hx])


/-! ## top_sort: soundness and completeness of the loop -/

/-- every vertex of `L` has all its predecessors in `S` or earlier in `L`. -/
def Resp (g : Graph) (S L : List Nat) : Prop :=
  ∀ pre v post, L = pre ++ v :: post → ∀ u, Edge g u v → u ∈ S ∨ u ∈ pre

theorem topSortLoop_sound {g : Graph} (hg : WF g) :
    ∀ (fuel : Nat) (Z : List Nat) (f : Nat → Int) (S L : List Nat), TInv g S Z f →
      topSortLoop fuel Z g (vertices g) ((vertices g).map f) = some L →
      (S ++ L).Perm (vertices g) ∧ Resp g S L := by
  intro fuel
  induction fuel with
  | zero =>
    intro Z f S L h hL
    cases Z with
    | cons z Z => simp [topSortLoop] at hL
    | nil =>
      simp only [topSortLoop, zeros_eq] at hL
      split at hL
      · rename_i heq
        simp at hL; subst hL
        have hz : ∀ v ∈ vertices g, f v = 0 := by
          intro v hv
          have := List.map_inj_left.1 heq v hv
          simpa using this
        have hnd : S.Nodup := by simpa using h.nodup
        refine ⟨?_, ?_⟩
        · simp only [List.append_nil]
          rw [List.perm_ext_iff_of_nodup hnd hg.keys.nodup]
          intro a
          constructor
          · intro ha; exact h.sub a (by simp [ha])
          · intro ha
            have := (h.zero a ha).2 (hz a ha)
            simpa using this
        · intro pre v post hp; simp at hp
      · simp at hL
  | succ fuel ih =>
    intro Z f S L h hL
    cases Z with
    | nil =>
      simp only [topSortLoop, zeros_eq] at hL
      split at hL
      · rename_i heq
        simp at hL; subst hL
        have hz : ∀ v ∈ vertices g, f v = 0 := by
          intro v hv
          have := List.map_inj_left.1 heq v hv
          simpa using this
        have hnd : S.Nodup := by simpa using h.nodup
        refine ⟨?_, ?_⟩
        · simp only [List.append_nil]
          rw [List.perm_ext_iff_of_nodup hnd hg.keys.nodup]
          intro a
          constructor
          · intro ha; exact h.sub a (by simp [ha])
          · intro ha
            have := (h.zero a ha).2 (hz a ha)
            simpa using this
        · intro pre v post hp; simp at hp
      · simp at hL
    | cons z Z =>
      obtain ⟨ns, f', Z', h1, h2, h3, h4⟩ := tinv_step hg h
      simp only [topSortLoop, h1, h2] at hL
      cases hrec : topSortLoop fuel Z' g (vertices g) ((vertices g).map f') with
      | none => simp [hrec] at hL
      | some L' =>
        simp [hrec] at hL; subst hL
        obtain ⟨ih1, ih2⟩ := ih Z' f' (z :: S) L' h3 hrec
        refine ⟨?_, ?_⟩
        · exact (List.perm_middle).trans ih1
        · intro pre v post hp u e
          cases pre with
          | nil =>
            simp at hp
            obtain ⟨rfl, _⟩ := hp
            exact Or.inl (h4 u e)
          | cons a pre =>
            simp at hp
            obtain ⟨rfl, hp⟩ := hp
            rcases ih2 pre v post hp u e with h5 | h5
            · simp at h5
              rcases h5 with rfl | h5
              · exact Or.inr (by simp)
              · exact Or.inl h5
            · exact Or.inr (by simp [h5])

theorem topSortLoop_complete {g : Graph} (hg : WF g) (rank : Nat → Nat)
    (hrank : ∀ u v, Edge g u v → rank u < rank v) :
    ∀ (fuel : Nat) (Z : List Nat) (f : Nat → Int) (S : List Nat), TInv g S Z f →
      (vertices g).length ≤ fuel + S.length →
      ∃ L, topSortLoop fuel Z g (vertices g) ((vertices g).map f) = some L := by
  have hnil : ∀ (fuel : Nat) (f : Nat → Int) (S : List Nat), TInv g S [] f →
      ∃ L, topSortLoop fuel [] g (vertices g) ((vertices g).map f) = some L := by
    intro fuel f S h
    have hz : ∀ n, ∀ v ∈ vertices g, rank v = n → f v = 0 := by
      intro n
      induction n using Nat.strong_induction_on with
      | _ n ihn =>
        intro v hv hr
        by_contra hne
        have hc : cntF g S v ≠ 0 := by
          intro h0
          have := h.cnt v hv
          rw [h0] at this
          exact hne (by simpa using this)
        rw [Ne, cntF_eq_zero] at hc
        push Not at hc
        obtain ⟨u, e, huS⟩ := hc
        have hu0 := ihn (rank u) (by rw [← hr]; exact hrank u v e) u e.src rfl
        have := (h.zero u e.src).2 hu0
        simp at this
        exact huS this
    have heq : (vertices g).map f = zeros g := by
      rw [zeros_eq]
      apply List.map_congr_left
      intro v hv; exact hz _ v hv rfl
    refine ⟨[], ?_⟩
    cases fuel <;> simp [topSortLoop, heq]
  intro fuel
  induction fuel with
  | zero =>
    intro Z f S h hlen
    cases Z with
    | nil => exact hnil 0 f S h
    | cons z Z =>
      have := (List.Nodup.subperm h.nodup (fun x hx => h.sub x hx)).length_le
      simp at this hlen
      omega
  | succ fuel ih =>
    intro Z f S h hlen
    cases Z with
    | nil => exact hnil _ f S h
    | cons z Z =>
      obtain ⟨ns, f', Z', h1, h2, h3, _⟩ := tinv_step hg h
      obtain ⟨L', hL'⟩ := ih Z' f' (z :: S) h3 (by simp; omega)
      exact ⟨z :: L', by simp [topSortLoop, h1, h2, hL']⟩

/-- the state in which `top_sort/2` enters its loop. -/
theorem topSort_eq {g : Graph} (hg : WF g) :
    ∃ f : Nat → Int, TInv g [] ((vertices g).filter (fun v => decide (f v = 0))) f ∧
      topSort g = topSortLoop g.length ((vertices g).filter (fun v => decide (f v = 0))) g (vertices g)
        ((vertices g).map f) := by
  refine ⟨fun v => (0 : Int) + ((g.countP (fun p => decide (v ∈ p.2)) : Nat) : Int), ?_, ?_⟩
  · refine ⟨?_, ?_, ?_, ?_⟩
    · simp; exact hg.keys.nodup.filter _
    · intro x hx; simp at hx; exact hx.1
    · intro v _; simp [cntF_nil]
    · intro v hv; simp [hv]
  · simp only [topSort, zeros_eq]
    rw [countEdges_spec hg.keys (fun p hp => ⟨hg.nbrs p hp, hg.closed p hp⟩) (fun _ => (0 : Int))]
    simp only [selectZeros_spec]

/-- Soundness: whatever `top_sort/2` returns is a permutation of the vertices in which every
    edge goes forward. -/
theorem topSort_sound {g : Graph} (hg : WF g) {L : List Nat} (h : topSort g = some L) :
    L.Perm (vertices g) ∧ ∀ pre v post, L = pre ++ v :: post → ∀ u, Edge g u v → u ∈ pre := by
  obtain ⟨f, hinv, heq⟩ := topSort_eq hg
  rw [heq] at h
  obtain ⟨h1, h2⟩ := topSortLoop_sound hg _ _ f [] L hinv h
  refine ⟨by simpa using h1, ?_⟩
  intro pre v post hp u e
  simpa using h2 pre v post hp u e

theorem topSort_complete_of_rank {g : Graph} (hg : WF g) (rank : Nat → Nat)
    (hrank : ∀ u v, Edge g u v → rank u < rank v) : ∃ L, topSort g = some L := by
  obtain ⟨f, hinv, heq⟩ := topSort_eq hg
  rw [heq]
  apply topSortLoop_complete hg rank hrank _ _ f [] hinv
  simp [vertices_eq_map]

/-- a finite graph without cycles has a rank function (number of ancestors). -/
theorem exists_rank_of_acyclic {g : Graph} (hac : ∀ v, ¬ TransGen (Edge g) v v) :
    ∃ rank : Nat → Nat, ∀ u v, Edge g u v → rank u < rank v := by
  classical
  refine ⟨fun v => ((vertices g).toFinset.filter (fun u => TransGen (Edge g) u v)).card, ?_⟩
  intro u v e
  apply Finset.card_lt_card
  rw [Finset.ssubset_iff_of_subset]
  · refine ⟨u, ?_, ?_⟩
    · simp; exact ⟨e.src, .single e⟩
    · simp; intro _; exact hac u
  · intro w hw
    simp at hw ⊢
    exact ⟨hw.1, hw.2.tail e⟩

theorem topSort_complete {g : Graph} (hg : WF g) (hac : ∀ v, ¬ TransGen (Edge g) v v) :
    ∃ L, topSort g = some L := by
  obtain ⟨rank, hrank⟩ := exists_rank_of_acyclic hac
  exact topSort_complete_of_rank hg rank hrank


/-- conversely, when `top_sort/2` succeeds the graph has no cycle. -/
theorem acyclic_of_topSort {g : Graph} (hg : WF g) {L : List Nat} (h : topSort g = some L) :
    ∀ v, ¬ TransGen (Edge g) v v := by
  obtain ⟨hperm, hresp⟩ := topSort_sound hg h
  have hlt : ∀ u v, Edge g u v → L.idxOf u < L.idxOf v := by
    intro u v e
    have hv : v ∈ L := hperm.mem_iff.2 (hg.dst e)
    obtain ⟨pre, post, rfl, hnp⟩ := List.eq_append_cons_of_mem hv
    have hu := hresp pre v post rfl u e
    rw [List.idxOf_append_of_mem hu, List.idxOf_append_of_notMem hnp]
    simp
    exact List.idxOf_lt_length_of_mem hu
  have hlt' : ∀ u v, TransGen (Edge g) u v → L.idxOf u < L.idxOf v := by
    intro u v t
    induction t with
    | single e => exact hlt _ _ e
    | tail _ e ih => exact lt_trans ih (hlt _ _ e)
  intro v t
  exact lt_irrefl _ (hlt' v v t)
end Scryer.UGraph
