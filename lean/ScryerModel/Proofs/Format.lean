import ScryerModel.Model.Format
namespace Scryer.Format
end Scryer.Format
