import ScryerModel.Model.Format
import Mathlib.Tactic.Ring
import Mathlib.Tactic.Linarith
/-! Lemmas for C36 (format_//2): digit strings, the decimal point, groups of three, glue. -/
namespace Scryer.Format
open Scryer

/-! ## reading digit strings back (specification side) -/

/-- value of a digit character (`0-9`, `a-z`, `A-Z`). -/
def digitVal (c : Char) : Nat :=
  if '0' ≤ c ∧ c ≤ '9' then c.toNat - 48
  else if 'a' ≤ c ∧ c ≤ 'z' then c.toNat - 87
  else if 'A' ≤ c ∧ c ≤ 'Z' then c.toNat - 55
  else 0

/-- positional value of a digit string, most significant digit first (Horner). -/
def horner (r : Nat) (cs : List Char) : Nat := cs.foldl (fun acc c => acc * r + digitVal c) 0

/-- value of a little-endian digit list. -/
def ofLE (r : Nat) : List Nat → Nat
  | [] => 0
  | d :: ds => d + r * ofLE r ds

theorem horner_snoc (r : Nat) (cs : List Char) (c : Char) :
    horner r (cs ++ [c]) = horner r cs * r + digitVal c := by
  simp [horner, List.foldl_append]

theorem horner_nil (r : Nat) : horner r [] = 0 := rfl

theorem foldl_horner_start (r : Nat) (cs : List Char) (a : Nat) :
    cs.foldl (fun acc c => acc * r + digitVal c) a = a * r ^ cs.length + horner r cs := by
  induction cs generalizing a with
  | nil => simp [horner]
  | cons c cs ih =>
    simp only [List.foldl_cons, List.length_cons, horner]
    rw [ih, ih (0 * r + digitVal c)]
    ring

theorem horner_append (r : Nat) (as bs : List Char) :
    horner r (as ++ bs) = horner r as * r ^ bs.length + horner r bs := by
  unfold horner
  rw [List.foldl_append, foldl_horner_start]
  rfl

theorem horner_replicate_zero (r k : Nat) : horner r (List.replicate k '0') = 0 := by
  induction k with
  | zero => rfl
  | succ k ih =>
    rw [List.replicate_succ', horner_snoc, ih]
    have : digitVal '0' = 0 := by decide
    simp [this]

theorem digitVal_digitChar (up : Bool) : ∀ d, d < 36 → digitVal (digitChar up d) = d := by
  cases up <;> decide

theorem digitChar_ne_minus (up : Bool) : ∀ d, d < 36 → digitChar up d ≠ '-' := by
  cases up <;> decide

theorem digitChar_ne_dot (up : Bool) : ∀ d, d < 36 → digitChar up d ≠ '.' := by
  cases up <;> decide

theorem digitChar_upper : ∀ d, d < 36 → digitChar true d = (digitChar false d).toUpper := by
  decide

theorem digitChar_zero_iff (up : Bool) : ∀ d, d < 36 → (digitChar up d = '0' ↔ d = 0) := by
  cases up <;> decide

/-! ## `digitsLE` -/

theorem digitsLE_zero (r : Nat) : digitsLE r 0 = [] := by
  rw [digitsLE]; simp

theorem digitsLE_pos {r n : Nat} (hr : 2 ≤ r) (hn : n ≠ 0) :
    digitsLE r n = n % r :: digitsLE r (n / r) := by
  rw [digitsLE]
  have : ¬ (n = 0 ∨ r < 2) := by omega
  simp [this]

theorem digitsLE_ne_nil {r n : Nat} (hr : 2 ≤ r) (hn : n ≠ 0) : digitsLE r n ≠ [] := by
  rw [digitsLE_pos hr hn]; simp

theorem ofLE_digitsLE {r : Nat} (hr : 2 ≤ r) (n : Nat) : ofLE r (digitsLE r n) = n := by
  induction n using Nat.strong_induction_on with
  | _ n ih =>
    by_cases hn : n = 0
    · subst hn; simp [digitsLE_zero, ofLE]
    · rw [digitsLE_pos hr hn, ofLE, ih (n / r) (Nat.div_lt_self (by omega) (by omega))]
      exact Nat.mod_add_div n r

theorem digitsLE_lt {r : Nat} (hr : 2 ≤ r) (n : Nat) : ∀ d ∈ digitsLE r n, d < r := by
  induction n using Nat.strong_induction_on with
  | _ n ih =>
    by_cases hn : n = 0
    · subst hn; simp [digitsLE_zero]
    · rw [digitsLE_pos hr hn]
      intro d hd
      rcases List.mem_cons.mp hd with h | h
      · subst h; exact Nat.mod_lt _ (by omega)
      · exact ih (n / r) (Nat.div_lt_self (by omega) (by omega)) d h

/-- the most significant digit is not zero. -/
theorem digitsLE_getLast_ne_zero {r : Nat} (hr : 2 ≤ r) (n : Nat) :
    ∀ d, (digitsLE r n).getLast? = some d → d ≠ 0 := by
  induction n using Nat.strong_induction_on with
  | _ n ih =>
    by_cases hn : n = 0
    · subst hn; simp [digitsLE_zero]
    · rw [digitsLE_pos hr hn]
      intro d hd
      by_cases hq : n / r = 0
      · rw [hq, digitsLE_zero] at hd
        simp at hd
        have : n < r := by
          rcases Nat.div_eq_zero_iff.mp hq with h | h <;> omega
        rw [Nat.mod_eq_of_lt this] at hd
        omega
      · have hne := digitsLE_ne_nil hr hq
        rw [List.getLast?_cons_of_ne_nil hne] at hd
        exact ih (n / r) (Nat.div_lt_self (by omega) (by omega)) d hd

theorem drop_digitsLE {r : Nat} (hr : 2 ≤ r) (k : Nat) :
    ∀ m, (digitsLE r m).drop k = digitsLE r (m / r ^ k) := by
  induction k with
  | zero => intro m; simp
  | succ k ih =>
    intro m
    by_cases hm : m = 0
    · subst hm; simp [digitsLE_zero]
    · rw [digitsLE_pos hr hm, List.drop_succ_cons, ih, Nat.div_div_eq_div_mul, pow_succ, Nat.mul_comm]

theorem ofLE_take_digitsLE {r : Nat} (hr : 2 ≤ r) (k : Nat) :
    ∀ m, ofLE r ((digitsLE r m).take k) = m % r ^ k := by
  induction k with
  | zero => intro m; simp [ofLE, Nat.mod_one]
  | succ k ih =>
    intro m
    by_cases hm : m = 0
    · subst hm; simp [digitsLE_zero, ofLE]
    · rw [digitsLE_pos hr hm, List.take_succ_cons, ofLE, ih, pow_succ, Nat.mul_comm (r ^ k) r,
        Nat.mod_mul]

/-- big-endian characters of a little-endian digit list. -/
def beChars (up : Bool) (ds : List Nat) : List Char := (ds.map (digitChar up)).reverse

theorem horner_beChars (up : Bool) {r : Nat} (hr : r ≤ 36) :
    ∀ ds : List Nat, (∀ d ∈ ds, d < r) → horner r (beChars up ds) = ofLE r ds := by
  intro ds
  induction ds with
  | nil => intro _; rfl
  | cons d ds ih =>
    intro h
    have hd : d < 36 := by have := h d (by simp); omega
    simp only [beChars, List.map_cons, List.reverse_cons] at *
    rw [horner_snoc, ih (fun x hx => h x (by simp [hx])), digitVal_digitChar up d hd, ofLE]
    ring

theorem beChars_length (up : Bool) (ds : List Nat) : (beChars up ds).length = ds.length := by
  simp [beChars]

/-! ## `natChars` / `intChars` -/

theorem natChars_pos {n : Nat} (hn : n ≠ 0) : natChars n = beChars false (digitsLE 10 n) := by
  simp [natChars, hn, beChars]

theorem horner_natChars (n : Nat) : horner 10 (natChars n) = n := by
  by_cases hn : n = 0
  · subst hn; decide
  · rw [natChars_pos hn, horner_beChars false (by omega) _ (digitsLE_lt (by omega) n),
      ofLE_digitsLE (by omega)]

theorem natChars_ne_nil (n : Nat) : natChars n ≠ [] := by
  by_cases hn : n = 0
  · subst hn; decide
  · rw [natChars_pos hn, beChars]
    simp [digitsLE_ne_nil (r := 10) (by omega) hn]

theorem mem_beChars_digitsLE {up : Bool} {r n : Nat} (hr : 2 ≤ r) (hr' : r ≤ 36) {c : Char}
    (h : c ∈ beChars up (digitsLE r n)) : ∃ d, d < r ∧ d < 36 ∧ c = digitChar up d := by
  simp only [beChars, List.mem_reverse, List.mem_map] at h
  obtain ⟨d, hd, rfl⟩ := h
  have := digitsLE_lt hr n d hd
  exact ⟨d, this, by omega, rfl⟩

theorem digitChar_isDigit : ∀ d, d < 10 → isDigit (digitChar false d) = true := by decide

theorem isDigit_ne {c : Char} (h : isDigit c = true) :
    c ≠ '-' ∧ c ≠ '.' ∧ c ≠ ',' ∧ c ≠ '_' := by
  refine ⟨?_, ?_, ?_, ?_⟩ <;> (intro e; subst e; revert h; decide)

/-- the characters of `number_chars` of a natural number are decimal digits. -/
theorem natChars_digits (n : Nat) :
    ∀ c ∈ natChars n, c ≠ '-' ∧ c ≠ '.' ∧ digitVal c < 10 ∧ isDigit c = true := by
  intro c hc
  by_cases hn : n = 0
  · subst hn
    have : c = '0' := by simpa [natChars] using hc
    subst this; decide
  · rw [natChars_pos hn] at hc
    obtain ⟨d, hd, hd36, rfl⟩ := mem_beChars_digitsLE (by omega) (by omega) hc
    exact ⟨digitChar_ne_minus _ d hd36, digitChar_ne_dot _ d hd36,
      by rw [digitVal_digitChar _ d hd36]; exact hd, digitChar_isDigit d hd⟩

/-! ## the decimal point -/

theorem natChars_take_drop {m k : Nat} (hk : k < (natChars m).length) :
    (natChars m).take ((natChars m).length - k) = natChars (m / 10 ^ k) ∧
    ((natChars m).drop ((natChars m).length - k)).length = k ∧
    horner 10 ((natChars m).drop ((natChars m).length - k)) = m % 10 ^ k := by
  by_cases hk0 : k = 0
  · subst hk0; simp [horner_nil, Nat.mod_one]
  have hm : m ≠ 0 := by
    intro h; subst h
    have : (natChars 0).length = 1 := by decide
    omega
  have hlen : (natChars m).length = (digitsLE 10 m).length := by
    rw [natChars_pos hm, beChars_length]
  have hk' : k < (digitsLE 10 m).length := by omega
  have hdrop : (digitsLE 10 m).drop k = digitsLE 10 (m / 10 ^ k) := drop_digitsLE (by omega) k m
  have hq : m / 10 ^ k ≠ 0 := by
    intro h
    rw [h, digitsLE_zero] at hdrop
    have := congrArg List.length hdrop
    simp at this
    omega
  refine ⟨?_, ?_, ?_⟩
  · rw [natChars_pos hq, ← hdrop, hlen, natChars_pos hm, beChars, beChars, ← List.map_reverse,
      ← List.map_reverse, ← List.map_take, List.reverse_drop]
  · rw [List.length_drop]; omega
  · rw [hlen, natChars_pos hm, beChars, ← List.map_reverse, ← List.map_drop, ← List.reverse_take,
      List.map_reverse]
    have := horner_beChars false (r := 10) (by omega) ((digitsLE 10 m).take k)
      (fun d hd => digitsLE_lt (by omega) m d (List.mem_of_mem_take hd))
    rw [beChars] at this
    rw [this, ofLE_take_digitsLE (by omega)]

/-! ## groups of three -/

theorem filter_ne_self {sep : Char} {l : List Char} (hs : sep ∉ l) : l.filter (· != sep) = l := by
  rw [List.filter_eq_self]
  intro a ha
  simp only [bne_iff_ne, ne_eq]
  intro h; subst h; exact hs ha

theorem groups3_filter (sep : Char) (l : List Char) (hs : sep ∉ l) :
    (groups3 sep l).filter (· != sep) = l := by
  fun_induction groups3 sep l with
  | case1 a b c d t ih =>
    simp only [List.mem_cons, not_or] at hs
    obtain ⟨ha, hb, hc, hd, ht⟩ := hs
    have hrec := ih (by simp only [List.mem_cons, not_or]; exact ⟨hd, ht⟩)
    have e : ∀ x : Char, sep ≠ x → (x != sep) = true := by
      intro x hx; simp only [bne_iff_ne, ne_eq]; exact fun h => hx h.symm
    simp only [List.filter_cons, e a ha, e b hb, e c hc, ↓reduceIte, bne_self_eq_false, Bool.false_eq_true]
    rw [hrec]
  | case2 ls h => exact filter_ne_self hs

/-! ## glue -/

theorem glueSizes_length (k : Nat) (space : Int) : (glueSizes k space).length = k := by
  unfold glueSizes
  by_cases hk : k = 0
  · simp [hk]
  · simp only [hk, ↓reduceIte]
    split
    · simp
    · split
      · simp
      · simp; omega

theorem sum_replicate (k d : Nat) : (List.replicate k d).sum = k * d := by
  induction k with
  | zero => simp
  | succ k ih => simp [List.replicate_succ, ih]; ring

theorem glueSizes_sum {k : Nat} (hk : k ≠ 0) (space : Int) :
    (glueSizes k space).sum = space.toNat := by
  unfold glueSizes
  simp only [hk, ↓reduceIte]
  by_cases h : space ≤ 0
  · simp only [h, ↓reduceIte, sum_replicate]; omega
  · simp only [h, ↓reduceIte]
    have hle : space.toNat / k * k ≤ space.toNat := Nat.div_mul_le_self _ _
    generalize space.toNat = s at *
    generalize s / k = q at *
    have e : (k - 1) * q + q = q * k := by
      obtain ⟨j, rfl⟩ := Nat.exists_eq_succ_of_ne_zero hk
      simp only [Nat.succ_eq_add_one, Nat.add_sub_cancel]
      ring
    by_cases h0 : s - q * k = 0
    · simp only [h0, ↓reduceIte, sum_replicate]
      rw [Nat.mul_comm]; omega
    · simp only [h0, ↓reduceIte, List.sum_append, sum_replicate, List.sum_cons, List.sum_nil,
        Nat.add_zero]
      omega

theorem fill_length : ∀ (segs : List Seg) (ns : List Nat), ns.length = countPads segs →
    (fill segs ns).length = textWidth segs + ns.sum := by
  intro segs
  induction segs with
  | nil => intro ns h; simp [countPads] at h; subst h; simp [fill, textWidth]
  | cons s segs ih =>
    intro ns h
    cases s with
    | txt cs =>
      simp only [fill, textWidth, List.length_append]
      rw [ih ns (by simpa [countPads] using h)]
      omega
    | pad c =>
      cases ns with
      | nil => simp [countPads] at h
      | cons n ns =>
        simp only [fill, textWidth, List.length_append, List.length_replicate, List.sum_cons]
        rw [ih ns (by simpa [countPads] using h)]
        omega

/-- all the text of a cell, in order. -/
def allText : List Seg → List Char
  | [] => []
  | .txt cs :: r => cs ++ allText r
  | .pad _ :: r => allText r

theorem allText_length (segs : List Seg) : (allText segs).length = textWidth segs := by
  induction segs with
  | nil => rfl
  | cons s segs ih => cases s <;> simp [allText, textWidth, ih]

theorem fill_sublist : ∀ (segs : List Seg) (ns : List Nat), (allText segs).Sublist (fill segs ns) := by
  intro segs
  induction segs with
  | nil => intro ns; simp [allText, fill]
  | cons s segs ih =>
    intro ns
    cases s with
    | txt cs => simp only [allText, fill]; exact List.Sublist.append (List.Sublist.refl _) (ih ns)
    | pad c =>
      cases ns with
      | nil => simp only [allText, fill]; exact ih []
      | cons n ns =>
        simp only [allText, fill]
        exact (ih ns).trans (List.sublist_append_right _ _)

theorem fill_no_pads : ∀ (segs : List Seg) (ns : List Nat), countPads segs = 0 →
    fill segs ns = allText segs := by
  intro segs
  induction segs with
  | nil => intro ns _; rfl
  | cons s segs ih =>
    intro ns h
    cases s with
    | txt cs => simp only [fill, allText]; rw [ih ns (by simpa [countPads] using h)]
    | pad c => simp [countPads] at h

end Scryer.Format
