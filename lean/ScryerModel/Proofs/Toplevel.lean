import ScryerModel.Model.Toplevel
/-! Helper lemmas for C29 (protocol part). -/
namespace Scryer
namespace Toplevel

variable {α ε : Type}

@[simp] theorem readInput_nil (a : α) (st : St) :
    readInput (ε := ε) a st [] = ([.sep], (if st.all then st else if st.nMore > 1 then { st with nMore := st.nMore - 1 } else st), [], true) := by
  unfold readInput
  by_cases h : st.all <;> simp [h]
  by_cases h2 : 1 < st.nMore <;> simp [h2, readKeys]

theorem answersOf_run_nil (t : Trace α ε) : ∀ st : St, answersOf (run t st []) = t.sols := by
  induction t with
  | sol a cp rest ih =>
    intro st
    cases cp
    · by_cases h : st.count = 0 <;> simp [run, first, h, answersOf, Trace.sols]
    · by_cases h : st.count = 0 <;> simp [run, first, h, answersOf, Trace.sols, ih]
  | fail => intro st; by_cases h : st.count = 0 <;> simp [run, first, h, answersOf, Trace.sols]
  | exc e => intro st; by_cases h : st.count = 0 <;> simp [run, first, h, answersOf, Trace.sols]

end Toplevel
end Scryer
