import ScryerModel.Model.Toplevel
/-! Helper lemmas for C29 (protocol part). -/
namespace Scryer
namespace Toplevel

variable {α ε : Type}

/-- `write(false)` occurs in the transcript. -/
def hasNo : List (Tok α ε) → Bool
  | [] => false
  | .no :: _ => true
  | _ :: ts => hasNo ts

@[simp] theorem readInput_nil (a : α) (st : St) :
    readInput (ε := ε) a st [] = ([.sep], (if st.all then st else if st.nMore > 1 then { st with nMore := st.nMore - 1 } else st), [], true) := by
  unfold readInput
  by_cases h : st.all <;> simp [h]
  by_cases h2 : 1 < st.nMore <;> simp [h2, readKeys]

theorem readInput_all (a : α) (st : St) (ks : List Key) (h : st.all = true) :
    readInput (ε := ε) a st ks = ([.sep], st, ks, true) := by
  unfold readInput; simp [h]

theorem answersOf_run_nil (t : Trace α ε) : ∀ st : St, answersOf (run t st []) = t.sols := by
  induction t with
  | sol a cp rest ih =>
    intro st
    cases cp
    · by_cases h : st.count = 0 <;> simp [run, first, h, answersOf, Trace.sols]
    · by_cases h : st.count = 0 <;> simp [run, first, h, answersOf, Trace.sols, ih]
  | fail => intro st; by_cases h : st.count = 0 <;> simp [run, first, h, answersOf, Trace.sols]
  | exc e => intro st; by_cases h : st.count = 0 <;> simp [run, first, h, answersOf, Trace.sols]

theorem answersOf_run_all (t : Trace α ε) : ∀ (st : St) (ks : List Key), st.all = true →
    answersOf (run t st ks) = t.sols := by
  induction t with
  | sol a cp rest ih =>
    intro st ks hall
    cases cp
    · by_cases h : st.count = 0 <;> simp [run, first, h, answersOf, Trace.sols]
    · have hr := readInput_all (ε := ε) a { st with count := st.count + 1 } ks hall
      have hi := ih { st with count := st.count + 1 } ks hall
      simp only [run]
      rw [hr]
      simp only [first]
      split <;> simp [answersOf, Trace.sols, hi]
  | fail => intro st ks _; by_cases h : st.count = 0 <;> simp [run, first, h, answersOf, Trace.sols]
  | exc e => intro st ks _; by_cases h : st.count = 0 <;> simp [run, first, h, answersOf, Trace.sols]

theorem hasNo_run_nil (t : Trace α ε) : ∀ st : St, hasNo (run t st []) = t.endsFail := by
  induction t with
  | sol a cp rest ih =>
    intro st
    cases cp
    · by_cases h : st.count = 0 <;> simp [run, first, h, hasNo, Trace.endsFail]
    · by_cases h : st.count = 0 <;> simp [run, first, h, hasNo, Trace.endsFail, ih]
  | fail => intro st; by_cases h : st.count = 0 <;> simp [run, first, h, hasNo, Trace.endsFail]
  | exc e => intro st; by_cases h : st.count = 0 <;> simp [run, first, h, hasNo, Trace.endsFail]

/-- after the first answer no indentation is written. -/
theorem parse_run_nil_pos (t : Trace α ε) : ∀ st : St, st.count ≠ 0 → parse (run t st []) = some t.canon := by
  induction t with
  | sol a cp rest ih =>
    intro st h
    cases cp
    · simp [run, first, h, parse, Trace.canon]
    · simp [run, first, h, parse, Trace.canon]
      split
      · exact ih _ (by simp)
      · split
        · exact ih _ (by simp)
        · exact ih _ (by simp)
  | fail => intro st h; simp [run, first, h, parse, Trace.canon]
  | exc e => intro st h; simp [run, first, h, parse, Trace.canon]

theorem parse_transcript_nil (t : Trace α ε) : parse (transcript t []) = some t.canon := by
  cases t with
  | sol a cp rest =>
    cases cp
    · simp [transcript, run, first, parse, Trace.canon]
    · simp only [transcript, run, first, readInput_nil]
      simp [parse, Trace.canon]
      exact parse_run_nil_pos rest _ (by simp)
  | fail => simp [transcript, run, first, parse, Trace.canon]
  | exc e => simp [transcript, run, first, parse, Trace.canon]

theorem lastCp_of_endsFail (t : Trace α ε) : t.endsFail = true → t.sols ≠ [] → t.lastCp = some true := by
  induction t with
  | sol a cp rest ih =>
    cases cp
    · simp [Trace.endsFail]
    · intro h _
      simp only [Trace.endsFail] at h
      simp only [Trace.lastCp]
      cases hr : rest.sols with
      | nil =>
        cases rest with
        | sol b cp2 r2 => cases cp2 <;> simp [Trace.sols] at hr
        | fail => simp [Trace.lastCp]
        | exc e => simp [Trace.lastCp]
      | cons b bs =>
        have := ih h (by simp [hr])
        simp [this]
  | fail => intro _ h; simp [Trace.sols] at h
  | exc e => intro h; simp [Trace.endsFail] at h

end Toplevel
end Scryer
