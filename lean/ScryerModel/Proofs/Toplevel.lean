import ScryerModel.Model.Toplevel
/-! Helper lemmas for C29 (protocol part). -/
namespace Scryer
namespace Toplevel

variable {α ε : Type}

/-- `write(false)` occurs in the transcript. -/
def hasNo : List (Tok α ε) → Bool
  | [] => false
  | .no :: _ => true
  | _ :: ts => hasNo ts

@[simp] theorem readInput_nil (a : α) (st : St) :
    readInput (ε := ε) a st [] = ([.sep], (if st.all then st else if st.nMore > 1 then { st with nMore := st.nMore - 1 } else st), [], true) := by
  unfold readInput
  by_cases h : st.all <;> simp [h]
  by_cases h2 : 1 < st.nMore <;> simp [h2, readKeys]

theorem readInput_all (a : α) (st : St) (ks : List Key) (h : st.all = true) :
    readInput (ε := ε) a st ks = ([.sep], st, ks, true) := by
  unfold readInput; simp [h]

theorem answersOf_run_nil (t : Trace α ε) : ∀ st : St, answersOf (run t st []) = t.sols := by
  induction t with
  | sol a cp rest ih =>
    intro st
    cases cp
    · by_cases h : st.count = 0 <;> simp [run, first, h, answersOf, Trace.sols]
    · by_cases h : st.count = 0 <;> simp [run, first, h, answersOf, Trace.sols, ih]
  | fail => intro st; by_cases h : st.count = 0 <;> simp [run, first, h, answersOf, Trace.sols]
  | exc e => intro st; by_cases h : st.count = 0 <;> simp [run, first, h, answersOf, Trace.sols]

theorem answersOf_run_all (t : Trace α ε) : ∀ (st : St) (ks : List Key), st.all = true →
    answersOf (run t st ks) = t.sols := by
  induction t with
  | sol a cp rest ih =>
    intro st ks hall
    cases cp
    · by_cases h : st.count = 0 <;> simp [run, first, h, answersOf, Trace.sols]
    · have hr := readInput_all (ε := ε) a { st with count := st.count + 1 } ks hall
      have hi := ih { st with count := st.count + 1 } ks hall
      simp only [run]
      rw [hr]
      simp only [first]
      split <;> simp [answersOf, Trace.sols, hi]
  | fail => intro st ks _; by_cases h : st.count = 0 <;> simp [run, first, h, answersOf, Trace.sols]
  | exc e => intro st ks _; by_cases h : st.count = 0 <;> simp [run, first, h, answersOf, Trace.sols]

theorem hasNo_run_nil (t : Trace α ε) : ∀ st : St, hasNo (run t st []) = t.endsFail := by
  induction t with
  | sol a cp rest ih =>
    intro st
    cases cp
    · by_cases h : st.count = 0 <;> simp [run, first, h, hasNo, Trace.endsFail]
    · by_cases h : st.count = 0 <;> simp [run, first, h, hasNo, Trace.endsFail, ih]
  | fail => intro st; by_cases h : st.count = 0 <;> simp [run, first, h, hasNo, Trace.endsFail]
  | exc e => intro st; by_cases h : st.count = 0 <;> simp [run, first, h, hasNo, Trace.endsFail]

/-- after the first answer no indentation is written. -/
theorem parse_run_nil_pos (t : Trace α ε) : ∀ st : St, st.count ≠ 0 → parse (run t st []) = some t.canon := by
  induction t with
  | sol a cp rest ih =>
    intro st h
    cases cp
    · simp [run, first, h, parse, Trace.canon]
    · simp [run, first, h, parse, Trace.canon]
      split
      · exact ih _ (by simp)
      · split
        · exact ih _ (by simp)
        · exact ih _ (by simp)
  | fail => intro st h; simp [run, first, h, parse, Trace.canon]
  | exc e => intro st h; simp [run, first, h, parse, Trace.canon]

theorem parse_transcript_nil (t : Trace α ε) : parse (transcript t []) = some t.canon := by
  cases t with
  | sol a cp rest =>
    cases cp
    · simp [transcript, run, first, parse, Trace.canon]
    · simp only [transcript, run, first, readInput_nil]
      simp [parse, Trace.canon]
      exact parse_run_nil_pos rest _ (by simp)
  | fail => simp [transcript, run, first, parse, Trace.canon]
  | exc e => simp [transcript, run, first, parse, Trace.canon]

theorem lastCp_of_endsFail (t : Trace α ε) : t.endsFail = true → t.sols ≠ [] → t.lastCp = some true := by
  induction t with
  | sol a cp rest ih =>
    cases cp
    · simp [Trace.endsFail]
    · intro h _
      simp only [Trace.endsFail] at h
      simp only [Trace.lastCp]
      cases hr : rest.sols with
      | nil =>
        cases rest with
        | sol b cp2 r2 => cases cp2 <;> simp [Trace.sols] at hr
        | fail => simp [Trace.lastCp]
        | exc e => simp [Trace.lastCp]
      | cons b bs =>
        have := ih h (by simp [hr])
        simp [this]
  | fail => intro _ h; simp [Trace.sols] at h
  | exc e => intro h; simp [Trace.endsFail] at h

end Toplevel
end Scryer

/-! ## answer construction -/
namespace Scryer
namespace Toplevel

theorem containsName_eq_false_iff (vl : VarList) (m : String) :
    containsName vl m = false ↔ ∀ p ∈ vl, p.1 ≠ m := by
  induction vl with
  | nil => simp [containsName]
  | cons p vl ih =>
    obtain ⟨n, t⟩ := p
    simp [containsName, ih]

theorem length_le_sumLen {vl : VarList} {p : String × Term} (h : p ∈ vl) : p.1.length ≤ sumLen vl := by
  induction vl with
  | nil => cases h
  | cons q vl ih =>
    obtain ⟨n, t⟩ := q
    cases h with
    | head => simp [sumLen]
    | tail _ h' => have := ih h'; simp [sumLen]; omega

theorem longName_fresh (vl : VarList) : containsName vl (longName vl) = false := by
  rw [containsName_eq_false_iff]
  intro p hp heq
  have h1 := length_le_sumLen hp
  have h2 : (longName vl).length = sumLen vl + 1 := by simp [longName]
  rw [heq] at h1
  omega

theorem makeNewVarName_fresh (fuel n : Nat) (vl : VarList) :
    containsName vl (makeNewVarName fuel n vl).1 = false := by
  induction fuel generalizing n with
  | zero => simp [makeNewVarName, longName_fresh]
  | succ f ih =>
    simp only [makeNewVarName]
    split
    · exact ih _
    · simp_all

/-- a fabricated entry never carries the name of an entry of the original list. -/
theorem extendVarList__fresh (vars : List String) (n : Nat) (vl : VarList) :
    ∀ p ∈ extendVarList_ vars n vl, containsName vl p.1 = false := by
  induction vars generalizing n with
  | nil => simp [extendVarList_]
  | cons v vs ih =>
    simp only [extendVarList_]
    split
    · exact ih n
    · intro p hp
      cases hp with
      | head => exact makeNewVarName_fresh _ _ _
      | tail _ h => exact ih _ p h

/-- a fabricated entry stands for a variable that has no name in the original list. -/
theorem extendVarList__new (vars : List String) (n : Nat) (vl : VarList) :
    ∀ p ∈ extendVarList_ vars n vl, ∃ v, p.2 = .var v ∧ containsVar vl v = false ∧ v ∈ vars := by
  induction vars generalizing n with
  | nil => simp [extendVarList_]
  | cons v vs ih =>
    simp only [extendVarList_]
    split
    · intro p hp
      obtain ⟨w, h1, h2, h3⟩ := ih n p hp
      exact ⟨w, h1, h2, List.mem_cons_of_mem _ h3⟩
    · intro p hp
      cases hp with
      | head => exact ⟨v, rfl, by simp_all, List.mem_cons_self⟩
      | tail _ h =>
        obtain ⟨w, h1, h2, h3⟩ := ih _ p h
        exact ⟨w, h1, h2, List.mem_cons_of_mem _ h3⟩

theorem selectAll_fst_sub (ps : VarList) (v : String) : ∀ p ∈ (selectAll ps v).1, p ∈ ps ∧ p.2 = .var v := by
  induction ps with
  | nil => simp [selectAll]
  | cons q ps ih =>
    obtain ⟨n, t⟩ := q
    intro p hp
    simp only [selectAll] at hp
    split at hp
    · split at hp
      · cases hp with
        | head => simp_all
        | tail _ h => exact ⟨List.mem_cons_of_mem _ (ih p h).1, (ih p h).2⟩
      · exact ⟨List.mem_cons_of_mem _ (ih p hp).1, (ih p hp).2⟩
    · exact ⟨List.mem_cons_of_mem _ (ih p hp).1, (ih p hp).2⟩

theorem selectAll_snd_sub (ps : VarList) (v : String) : ∀ p ∈ (selectAll ps v).2, p ∈ ps := by
  induction ps with
  | nil => simp [selectAll]
  | cons q ps ih =>
    obtain ⟨n, t⟩ := q
    intro p hp
    simp only [selectAll] at hp
    split at hp
    · split at hp
      · exact List.mem_cons_of_mem _ (ih p hp)
      · cases hp with
        | head => exact List.mem_cons_self
        | tail _ h => exact List.mem_cons_of_mem _ (ih p h)
    · cases hp with
      | head => exact List.mem_cons_self
      | tail _ h => exact List.mem_cons_of_mem _ (ih p h)

theorem selectAll_snd_length (ps : VarList) (v : String) : (selectAll ps v).2.length ≤ ps.length := by
  induction ps with
  | nil => simp [selectAll]
  | cons q ps ih =>
    obtain ⟨n, t⟩ := q
    simp only [selectAll]
    split
    · split <;> simp <;> omega
    · simp; omega

/-- a pair with a non-variable value is never selected away. -/
theorem selectAll_snd_keeps (ps : VarList) (v : String) (p : String × Term)
    (hp : p ∈ ps) (hnv : ∀ w, p.2 ≠ .var w) : p ∈ (selectAll ps v).2 := by
  induction ps with
  | nil => cases hp
  | cons q ps ih =>
    obtain ⟨n, t⟩ := q
    simp only [selectAll]
    cases hp with
    | head =>
      split
      · exact absurd rfl (hnv _)
      · exact List.mem_cons_self
    | tail _ h =>
      have := ih h
      split
      · split
        · exact this
        · exact List.mem_cons_of_mem _ this
      · exact List.mem_cons_of_mem _ this

/-- every equation of `gather_equations/3` is an entry of the list it was given. -/
theorem gatherEquations_sub (fuel : Nat) : ∀ (ps : VarList) (orig : List String),
    ∀ p ∈ gatherEquations fuel ps orig, p ∈ ps := by
  induction fuel with
  | zero => intro ps orig p hp; simp [gatherEquations] at hp
  | succ f ih =>
    intro ps orig p hp
    cases ps with
    | nil => simp [gatherEquations] at hp
    | cons q ps =>
      obtain ⟨n, t⟩ := q
      simp only [gatherEquations] at hp
      split at hp
      · split at hp
        · split at hp
          · rename_i same rest heq
            cases hp with
            | head => exact List.mem_cons_self
            | tail _ h =>
              rcases List.mem_append.mp h with h1 | h2
              · have hs := selectAll_fst_sub ps _ p (by rw [heq]; exact List.mem_cons_of_mem _ h1)
                exact List.mem_cons_of_mem _ hs.1
              · have := ih _ _ p h2
                exact List.mem_cons_of_mem _ (selectAll_snd_sub ps _ p (by rw [heq]; exact this))
          · exact List.mem_cons_of_mem _ (ih _ _ p hp)
        · exact List.mem_cons_of_mem _ (ih _ _ p hp)
      · cases hp with
        | head => exact List.mem_cons_self
        | tail _ h => exact List.mem_cons_of_mem _ (ih _ _ p h)

/-- every entry with a non-variable value becomes an equation. -/
theorem gatherEquations_keeps (fuel : Nat) : ∀ (ps : VarList) (orig : List String), ps.length ≤ fuel →
    ∀ p ∈ ps, (∀ w, p.2 ≠ .var w) → p ∈ gatherEquations fuel ps orig := by
  induction fuel with
  | zero =>
    intro ps orig hl p hp
    have : ps = [] := List.eq_nil_of_length_eq_zero (by omega)
    subst this; cases hp
  | succ f ih =>
    intro ps orig hl p hp hnv
    cases ps with
    | nil => cases hp
    | cons q ps =>
      obtain ⟨n, t⟩ := q
      have hl' : ps.length ≤ f := by simp at hl; omega
      simp only [gatherEquations]
      cases hp with
      | head =>
        split
        · exact absurd rfl (hnv _)
        · exact List.mem_cons_self
      | tail _ h =>
        split
        · split
          · split
            · rename_i w hc x hd same rest heq
              refine List.mem_cons_of_mem _ (List.mem_append.mpr (Or.inr ?_))
              have hk := selectAll_snd_keeps ps w p h hnv
              have hlen := selectAll_snd_length ps w
              rw [heq] at hk hlen
              exact ih _ _ (by simp at hlen; omega) p hk hnv
            · exact ih _ _ hl' p h hnv
          · exact ih _ _ hl' p h hnv
        · exact List.mem_cons_of_mem _ (ih _ _ hl' p h hnv)

/-- an equation between variables is only ever written for an original query variable. -/
theorem gatherEquations_var_orig (fuel : Nat) : ∀ (ps : VarList) (orig : List String),
    ∀ p ∈ gatherEquations fuel ps orig, ∀ v, p.2 = .var v → orig.contains v = true := by
  induction fuel with
  | zero => intro ps orig p hp; simp [gatherEquations] at hp
  | succ f ih =>
    intro ps orig p hp v hv
    cases ps with
    | nil => simp [gatherEquations] at hp
    | cons q ps =>
      obtain ⟨n, t⟩ := q
      simp only [gatherEquations] at hp
      split at hp
      · split at hp
        · split at hp
          · rename_i w hc x hd same rest heq
            cases hp with
            | head => simp at hv; subst hv; exact hc
            | tail _ h =>
              rcases List.mem_append.mp h with h1 | h2
              · have hs := selectAll_fst_sub ps w p (by rw [heq]; exact List.mem_cons_of_mem _ h1)
                rw [hs.2] at hv; simp at hv; subst hv; exact hc
              · exact ih _ _ p h2 v hv
          · exact ih _ _ p hp v hv
        · exact ih _ _ p hp v hv
      · rename_i hnv
        cases hp with
        | head => exact absurd hv (by simpa using hnv v)
        | tail _ h => exact ih _ _ p h v hv

theorem containsVar_of_mem_gatherQueryVars (vl : VarList) (v : String) :
    v ∈ gatherQueryVars vl → containsVar vl v = true := by
  induction vl with
  | nil => simp [gatherQueryVars]
  | cons q vl ih =>
    obtain ⟨n, t⟩ := q
    cases t <;> simp [gatherQueryVars, containsVar] <;> intro h
    · rcases h with h | h
      · exact Or.inl h.symm
      · exact Or.inr (ih h)
    all_goals exact ih h

end Toplevel
end Scryer
