import ScryerModel.Model.OrdSet
import ScryerModel.Proofs.Sort
/-
C14 — the transcribed library(ordsets) predicates compute the finite-set operations on strictly
ascending lists (for a total order `cmp`, `IsLinear`): membership characterisation + the result is
again strictly ascending; by `strict_unique_linear` that determines the result list.
-/
namespace Scryer.OrdSet
open Scryer.Sort

variable {α : Type} {cmp : α → α → Ordering}

/-- strict lower bound of a list. -/
def LB (cmp : α → α → Ordering) (x : α) (l : List α) : Prop := ∀ z ∈ l, cmp x z = .lt

theorem strict_cons {x : α} {l : List α} :
    StrictSorted cmp (x :: l) ↔ LB cmp x l ∧ StrictSorted cmp l := List.pairwise_cons

theorem LB.trans (h : IsPreorder cmp) {x y : α} {l : List α} (hxy : cmp x y = .lt)
    (hl : LB cmp y l) : LB cmp x l := fun z hz => h.lt_trans hxy (hl z hz)

theorem LB.cons (h : IsPreorder cmp) {x y : α} {l : List α} (hxy : cmp x y = .lt)
    (s : StrictSorted cmp (y :: l)) : LB cmp x (y :: l) := by
  intro z hz
  rcases List.mem_cons.1 hz with rfl | hz
  · exact hxy
  · exact h.lt_trans hxy ((strict_cons.1 s).1 z hz)

theorem LB.not_mem (h : IsPreorder cmp) {x : α} {l : List α} (hl : LB cmp x l) : x ∉ l := by
  intro hx
  have := hl x hx
  rw [h.refl] at this
  cases this

theorem LB.ne (h : IsPreorder cmp) {x : α} {l : List α} (hl : LB cmp x l) : ∀ z ∈ l, z ≠ x := by
  intro z hz e
  exact hl.not_mem h (e ▸ hz)

theorem isOrdset3_iff (h : IsPreorder cmp) (l : List α) (x : α) :
    isOrdset3 cmp l x = true ↔ StrictSorted cmp (x :: l) := by
  induction l generalizing x with
  | nil => simp [isOrdset3, StrictSorted]
  | cons y t ih =>
    simp only [isOrdset3, Bool.and_eq_true, beq_iff_eq, ih]
    rw [h.gt_iff]
    constructor
    · rintro ⟨e, s⟩
      exact strict_cons.2 ⟨LB.cons h e s, s⟩
    · intro s
      have s' := strict_cons.1 s
      exact ⟨s'.1 y List.mem_cons_self, s'.2⟩

/-- `is_ordset/1` on a proper list: strictly ascending. -/
theorem isOrdset_iff (h : IsPreorder cmp) (l : List α) :
    isOrdset cmp l = true ↔ StrictSorted cmp l := by
  cases l with
  | nil => simp [isOrdset, StrictSorted]
  | cons x t => exact isOrdset3_iff h t x

/-! ### union -/

theorem mem_union2 (h : IsLinear cmp) (l2 : List α) (h1 : α) (t1 : List α) (x : α) :
    x ∈ union2 cmp l2 h1 t1 ↔ x = h1 ∨ x ∈ t1 ∨ x ∈ l2 := by
  fun_induction union2 cmp l2 h1 t1 with
  | case1 h1 t1 => simp
  | case2 h2 t2 h1 t1 hc ih => simp only [List.mem_cons, ih]; grind
  | case3 h2 t2 h1 t1 hc ih =>
    have := h.eq_imp _ _ hc
    cases t1 with
    | nil => simp; grind
    | cons a t => simp only [List.mem_cons, ih]; grind
  | case4 h2 t2 h1 t1 hc ih => simp only [List.mem_cons, ih]; grind

theorem union2_strict (h : IsLinear cmp) (l2 : List α) (h1 : α) (t1 : List α)
    (s1 : StrictSorted cmp (h1 :: t1)) (s2 : StrictSorted cmp l2) :
    StrictSorted cmp (union2 cmp l2 h1 t1) := by
  fun_induction union2 cmp l2 h1 t1 with
  | case1 h1 t1 => exact s1
  | case2 h2 t2 h1 t1 hc ih =>
    rw [strict_cons] at s1 s2 ⊢
    refine ⟨?_, ih (strict_cons.2 s2) s1.2⟩
    intro z hz
    rw [mem_union2 h] at hz
    rcases hz with rfl | hz | hz
    · exact hc
    · exact h.lt_trans hc (s2.1 z hz)
    · exact s1.1 z hz
  | case3 h2 t2 h1 t1 hc ih =>
    have := h.eq_imp _ _ hc
    subst this
    rw [strict_cons] at s1 s2 ⊢
    cases t1 with
    | nil => exact s2
    | cons a t =>
      refine ⟨?_, ih s1.2 s2.2⟩
      intro z hz
      rw [mem_union2 h] at hz
      rcases hz with rfl | hz | hz
      · exact s1.1 z (by simp)
      · exact s1.1 z (by simp [hz])
      · exact s2.1 z hz
  | case4 h2 t2 h1 t1 hc ih =>
    have hc' := (h.gt_iff _ _).1 hc
    rw [strict_cons] at s2 ⊢
    refine ⟨?_, ih s1 s2.2⟩
    intro z hz
    rw [mem_union2 h] at hz
    rcases hz with rfl | hz | hz
    · exact hc'
    · exact h.lt_trans hc' ((strict_cons.1 s1).1 z hz)
    · exact s2.1 z hz

theorem mem_ordUnion (h : IsLinear cmp) (a b : List α) (x : α) :
    x ∈ ordUnion cmp a b ↔ x ∈ a ∨ x ∈ b := by
  cases a with
  | nil => simp [ordUnion]
  | cons h1 t1 => simp only [ordUnion, mem_union2 h, List.mem_cons]; grind

theorem ordUnion_strict (h : IsLinear cmp) (a b : List α) (sa : StrictSorted cmp a)
    (sb : StrictSorted cmp b) : StrictSorted cmp (ordUnion cmp a b) := by
  cases a with
  | nil => exact sb
  | cons h1 t1 => exact union2_strict h b h1 t1 sa sb

/-! ### intersection -/

theorem mem_isect2 (h : IsLinear cmp) (l2 : List α) (h1 : α) (t1 : List α)
    (s1 : StrictSorted cmp (h1 :: t1)) (s2 : StrictSorted cmp l2) (x : α) :
    x ∈ isect2 cmp l2 h1 t1 ↔ (x = h1 ∨ x ∈ t1) ∧ x ∈ l2 := by
  fun_induction isect2 cmp l2 h1 t1 with
  | case1 h1 t1 => simp
  | case2 h2 t2 h1 t1 hc ih =>
    have n := (LB.cons h.toIsPreorder hc s2).ne h.toIsPreorder
    rw [ih s2 (strict_cons.1 s1).2]
    simp only [List.mem_cons] at n ⊢
    grind
  | case3 h2 t2 h1 t1 hc ih =>
    have := h.eq_imp _ _ hc
    subst this
    cases t1 with
    | nil => simp; grind
    | cons a t =>
      simp only [List.mem_cons]
      rw [ih (strict_cons.1 s1).2 (strict_cons.1 s2).2]
      grind
  | case4 h2 t2 h1 t1 hc ih =>
    have hc' := (h.gt_iff _ _).1 hc
    have n := (LB.cons h.toIsPreorder hc' s1).ne h.toIsPreorder
    rw [ih s1 (strict_cons.1 s2).2]
    simp only [List.mem_cons] at n ⊢
    grind

theorem mem_ordInt (h : IsLinear cmp) (a b : List α) (sa : StrictSorted cmp a)
    (sb : StrictSorted cmp b) (x : α) : x ∈ ordInt cmp a b ↔ x ∈ a ∧ x ∈ b := by
  cases a with
  | nil => simp [ordInt]
  | cons h1 t1 => simp only [ordInt, mem_isect2 h b h1 t1 sa sb, List.mem_cons]

theorem isect2_strict (h : IsLinear cmp) (l2 : List α) (h1 : α) (t1 : List α)
    (s1 : StrictSorted cmp (h1 :: t1)) (s2 : StrictSorted cmp l2) :
    StrictSorted cmp (isect2 cmp l2 h1 t1) := by
  fun_induction isect2 cmp l2 h1 t1 with
  | case1 h1 t1 => exact List.Pairwise.nil
  | case2 h2 t2 h1 t1 hc ih => exact ih s2 (strict_cons.1 s1).2
  | case3 h2 t2 h1 t1 hc ih =>
    cases t1 with
    | nil => exact List.pairwise_singleton _ _
    | cons a t =>
      have s1' := strict_cons.1 s1
      have s2' := strict_cons.1 s2
      refine strict_cons.2 ⟨?_, ih s1'.2 s2'.2⟩
      intro z hz
      rw [mem_isect2 h _ _ _ s1'.2 s2'.2] at hz
      exact s1'.1 z (by simp only [List.mem_cons]; exact hz.1)
  | case4 h2 t2 h1 t1 hc ih => exact ih s1 (strict_cons.1 s2).2

theorem ordInt_strict (h : IsLinear cmp) (a b : List α) (sa : StrictSorted cmp a)
    (sb : StrictSorted cmp b) : StrictSorted cmp (ordInt cmp a b) := by
  cases a with
  | nil => exact List.Pairwise.nil
  | cons h1 t1 => exact isect2_strict h b h1 t1 sa sb

/-! ### difference -/

theorem mem_diffAux (h : IsLinear cmp) (flip : Bool) (l : List α) (e : α) (t : List α)
    (sl : StrictSorted cmp l) (st : StrictSorted cmp (e :: t)) (x : α) :
    x ∈ diffAux cmp flip l e t ↔
      if flip then x ∈ l ∧ x ∉ e :: t else x ∈ e :: t ∧ x ∉ l := by
  fun_induction diffAux cmp flip l e t with
  | case1 h1 t1 => simp
  | case2 h2 t2 h1 t1 hc ih =>
    have n := (LB.cons h.toIsPreorder hc sl).ne h.toIsPreorder
    have := ih (strict_cons.1 st).2 sl
    simp only [List.mem_cons, this, if_true, Bool.false_eq_true, if_false] at n ⊢
    grind
  | case3 h2 t2 h1 hc =>
    have := h.eq_imp _ _ hc
    simp [this]; grind
  | case4 h2 t2 h1 hc a t ih =>
    have := h.eq_imp _ _ hc
    subst this
    have n1 := ((strict_cons.1 st).1).ne h.toIsPreorder
    have := ih (strict_cons.1 sl).2 (strict_cons.1 st).2
    simp only [List.mem_cons, Bool.false_eq_true, if_false] at n1 this ⊢
    rw [this]
    grind
  | case5 h2 t2 h1 t1 hc ih =>
    have hc' := (h.gt_iff _ _).1 hc
    have n := (LB.cons h.toIsPreorder hc' st).ne h.toIsPreorder
    have := ih (strict_cons.1 sl).2 st
    simp only [List.mem_cons, this, Bool.false_eq_true, if_false] at n ⊢
    grind
  | case6 h2 t2 => simp
  | case7 h1 t1 h2 t2 hc ih =>
    have n := (LB.cons h.toIsPreorder hc st).ne h.toIsPreorder
    have := ih (strict_cons.1 sl).2 st
    simp only [List.mem_cons, this, if_true] at n ⊢
    grind
  | case8 h1 h2 t2 hc =>
    have := h.eq_imp _ _ hc
    simp [this]; grind
  | case9 h1 h2 t2 hc a t ih =>
    have := h.eq_imp _ _ hc
    subst this
    have n1 := ((strict_cons.1 sl).1).ne h.toIsPreorder
    have := ih (strict_cons.1 st).2 (strict_cons.1 sl).2
    simp only [List.mem_cons, Bool.false_eq_true, if_false, if_true] at n1 this ⊢
    rw [this]
    grind
  | case10 h1 t1 h2 t2 hc ih =>
    have hc' := (h.gt_iff _ _).1 hc
    have n := (LB.cons h.toIsPreorder hc' sl).ne h.toIsPreorder
    have := ih (strict_cons.1 st).2 sl
    simp only [List.mem_cons, this, Bool.false_eq_true, if_false, if_true] at n ⊢
    grind

theorem diffAux_strict (h : IsLinear cmp) (flip : Bool) (l : List α) (e : α) (t : List α)
    (sl : StrictSorted cmp l) (st : StrictSorted cmp (e :: t)) :
    StrictSorted cmp (diffAux cmp flip l e t) := by
  fun_induction diffAux cmp flip l e t with
  | case1 h1 t1 => exact st
  | case2 h2 t2 h1 t1 hc ih =>
    have st' := strict_cons.1 st
    refine strict_cons.2 ⟨?_, ih st'.2 sl⟩
    intro z hz
    rw [mem_diffAux h _ _ _ _ st'.2 sl] at hz
    exact st'.1 z hz.1
  | case3 h2 t2 h1 hc => exact List.Pairwise.nil
  | case4 h2 t2 h1 hc a t ih => exact ih (strict_cons.1 sl).2 (strict_cons.1 st).2
  | case5 h2 t2 h1 t1 hc ih => exact ih (strict_cons.1 sl).2 st
  | case6 h2 t2 => exact List.Pairwise.nil
  | case7 h1 t1 h2 t2 hc ih =>
    have sl' := strict_cons.1 sl
    refine strict_cons.2 ⟨?_, ih sl'.2 st⟩
    intro z hz
    rw [mem_diffAux h _ _ _ _ sl'.2 st] at hz
    exact sl'.1 z hz.1
  | case8 h1 h2 t2 hc => exact List.Pairwise.nil
  | case9 h1 h2 t2 hc a t ih => exact ih (strict_cons.1 st).2 (strict_cons.1 sl).2
  | case10 h1 t1 h2 t2 hc ih => exact ih (strict_cons.1 st).2 sl

theorem mem_ordSubtract (h : IsLinear cmp) (a b : List α) (sa : StrictSorted cmp a)
    (sb : StrictSorted cmp b) (x : α) : x ∈ ordSubtract cmp a b ↔ x ∈ a ∧ x ∉ b := by
  cases a with
  | nil => simp [ordSubtract]
  | cons h1 t1 => simp only [ordSubtract, mem_diffAux h false b h1 t1 sb sa]; simp

theorem ordSubtract_strict (h : IsLinear cmp) (a b : List α) (sa : StrictSorted cmp a)
    (sb : StrictSorted cmp b) : StrictSorted cmp (ordSubtract cmp a b) := by
  cases a with
  | nil => exact List.Pairwise.nil
  | cons h1 t1 => exact diffAux_strict h false b h1 t1 sb sa

/-! ### symmetric difference -/

theorem mem_symdiffAux (h : IsLinear cmp) (l2 : List α) (h1 : α) (t1 : List α)
    (s1 : StrictSorted cmp (h1 :: t1)) (s2 : StrictSorted cmp l2) (x : α) :
    x ∈ symdiffAux cmp l2 h1 t1 ↔ (x ∈ h1 :: t1 ∧ x ∉ l2) ∨ (x ∉ h1 :: t1 ∧ x ∈ l2) := by
  fun_induction symdiffAux cmp l2 h1 t1 with
  | case1 h1 t1 => simp
  | case2 h2 t2 h1 t1 hc ih =>
    have n := (LB.cons h.toIsPreorder hc s2).ne h.toIsPreorder
    have := ih s2 (strict_cons.1 s1).2
    simp only [List.mem_cons, this] at n ⊢
    grind
  | case3 h2 t2 h1 hc =>
    have := h.eq_imp _ _ hc
    subst this
    have n2 := ((strict_cons.1 s2).1).ne h.toIsPreorder
    simp; grind
  | case4 h2 t2 h1 hc a t ih =>
    have := h.eq_imp _ _ hc
    subst this
    have n1 := ((strict_cons.1 s1).1).ne h.toIsPreorder
    have n2 := ((strict_cons.1 s2).1).ne h.toIsPreorder
    have := ih (strict_cons.1 s1).2 (strict_cons.1 s2).2
    simp only [List.mem_cons] at n1 n2 this ⊢
    rw [this]
    grind
  | case5 h2 t2 h1 t1 hc ih =>
    have hc' := (h.gt_iff _ _).1 hc
    have n := (LB.cons h.toIsPreorder hc' s1).ne h.toIsPreorder
    have := ih s1 (strict_cons.1 s2).2
    simp only [List.mem_cons, this] at n ⊢
    grind

theorem symdiffAux_strict (h : IsLinear cmp) (l2 : List α) (h1 : α) (t1 : List α)
    (s1 : StrictSorted cmp (h1 :: t1)) (s2 : StrictSorted cmp l2) :
    StrictSorted cmp (symdiffAux cmp l2 h1 t1) := by
  fun_induction symdiffAux cmp l2 h1 t1 with
  | case1 h1 t1 => exact s1
  | case2 h2 t2 h1 t1 hc ih =>
    have s1' := strict_cons.1 s1
    refine strict_cons.2 ⟨?_, ih s2 s1'.2⟩
    intro z hz
    rw [mem_symdiffAux h _ _ _ s2 s1'.2] at hz
    rcases hz with ⟨hz, _⟩ | ⟨_, hz⟩
    · exact LB.cons h.toIsPreorder hc s2 z hz
    · exact s1'.1 z hz
  | case3 h2 t2 h1 hc => exact (strict_cons.1 s2).2
  | case4 h2 t2 h1 hc a t ih => exact ih (strict_cons.1 s1).2 (strict_cons.1 s2).2
  | case5 h2 t2 h1 t1 hc ih =>
    have hc' := (h.gt_iff _ _).1 hc
    have s2' := strict_cons.1 s2
    refine strict_cons.2 ⟨?_, ih s1 s2'.2⟩
    intro z hz
    rw [mem_symdiffAux h _ _ _ s1 s2'.2] at hz
    rcases hz with ⟨hz, _⟩ | ⟨_, hz⟩
    · exact LB.cons h.toIsPreorder hc' s1 z hz
    · exact s2'.1 z hz

theorem mem_ordSymdiff (h : IsLinear cmp) (a b : List α) (sa : StrictSorted cmp a)
    (sb : StrictSorted cmp b) (x : α) :
    x ∈ ordSymdiff cmp a b ↔ (x ∈ a ∧ x ∉ b) ∨ (x ∉ a ∧ x ∈ b) := by
  cases a with
  | nil => simp [ordSymdiff]
  | cons h1 t1 => exact mem_symdiffAux h b h1 t1 sa sb x

theorem ordSymdiff_strict (h : IsLinear cmp) (a b : List α) (sa : StrictSorted cmp a)
    (sb : StrictSorted cmp b) : StrictSorted cmp (ordSymdiff cmp a b) := by
  cases a with
  | nil => exact sb
  | cons h1 t1 => exact symdiffAux_strict h b h1 t1 sa sb

/-! ### add / delete one element -/

theorem mem_addel (h : IsLinear cmp) (s : List α) (e x : α) :
    x ∈ addel cmp s e ↔ x = e ∨ x ∈ s := by
  induction s with
  | nil => simp [addel]
  | cons y t ih =>
    simp only [addel]
    split
    · simp only [List.mem_cons, ih]; grind
    · rename_i hc; have := h.eq_imp _ _ hc; simp only [List.mem_cons]; grind
    · simp only [List.mem_cons]

theorem addel_strict (h : IsLinear cmp) (s : List α) (e : α) (ss : StrictSorted cmp s) :
    StrictSorted cmp (addel cmp s e) := by
  induction s with
  | nil => exact List.pairwise_singleton _ _
  | cons y t ih =>
    have ss' := strict_cons.1 ss
    simp only [addel]
    split
    · rename_i hc
      refine strict_cons.2 ⟨?_, ih ss'.2⟩
      intro z hz
      rcases (mem_addel h t e z).1 hz with rfl | hz
      · exact hc
      · exact ss'.1 z hz
    · exact ss
    · rename_i hc
      exact strict_cons.2 ⟨LB.cons h.toIsPreorder ((h.gt_iff _ _).1 hc) ss, ss⟩

theorem mem_delel (h : IsLinear cmp) (s : List α) (e x : α) (ss : StrictSorted cmp s) :
    x ∈ delel cmp s e ↔ x ∈ s ∧ x ≠ e := by
  induction s with
  | nil => simp [delel]
  | cons y t ih =>
    have ss' := strict_cons.1 ss
    simp only [delel]
    split
    · rename_i hc
      simp only [List.mem_cons, ih ss'.2]
      have : y ≠ e := fun e' => by rw [e', h.refl] at hc; cases hc
      grind
    · rename_i hc
      have := h.eq_imp _ _ hc
      subst this
      have n := ss'.1.ne h.toIsPreorder
      simp only [List.mem_cons]; grind
    · rename_i hc
      have n := (LB.cons h.toIsPreorder ((h.gt_iff _ _).1 hc) ss).ne h.toIsPreorder
      simp only [List.mem_cons] at n ⊢
      grind

theorem delel_strict (h : IsLinear cmp) (s : List α) (e : α) (ss : StrictSorted cmp s) :
    StrictSorted cmp (delel cmp s e) := by
  induction s with
  | nil => exact List.Pairwise.nil
  | cons y t ih =>
    have ss' := strict_cons.1 ss
    simp only [delel]
    split
    · refine strict_cons.2 ⟨?_, ih ss'.2⟩
      intro z hz
      exact ss'.1 z ((mem_delel h t e z ss'.2).1 hz).1
    · exact ss'.2
    · exact ss

/-! ### tests: memberchk, subset, intersect -/

theorem mem_iff_of_gt_last (h : IsLinear cmp) {item x : α} (pre xs : List α)
    (s : StrictSorted cmp (pre ++ x :: xs)) (hc : cmp item x = .gt) :
    item ∈ pre ++ x :: xs ↔ item ∈ xs := by
  have hx : cmp x item = .lt := (h.gt_iff _ _).1 hc
  have hp : ∀ z ∈ pre, cmp z x = .lt := by
    intro z hz
    exact (List.pairwise_append.1 s).2.2 z hz x List.mem_cons_self
  constructor
  · intro hm
    rcases List.mem_append.1 hm with hm | hm
    · have := h.lt_trans (hp item hm) hx
      rw [h.refl] at this; cases this
    · rcases List.mem_cons.1 hm with rfl | hm
      · rw [h.refl] at hx; cases hx
      · exact hm
  · intro hm; simp [hm]

theorem ordMemberchk_iff (h : IsLinear cmp) (item : α) (s : List α) (ss : StrictSorted cmp s) :
    ordMemberchk cmp item s = true ↔ item ∈ s := by
  have eqi : ∀ y, (cmp item y == .eq) = true ↔ item = y := fun y => by
    simp only [beq_iff_eq]
    exact ⟨h.eq_imp _ _, fun e => e ▸ h.refl _⟩
  have ltn : ∀ y (l : List α), cmp item y = .lt → StrictSorted cmp (y :: l) → item ∉ y :: l :=
    fun y l hc s => (LB.cons h.toIsPreorder hc s).not_mem h.toIsPreorder
  fun_induction ordMemberchk cmp item s with
  | case1 x1 x2 x3 x4 xs hc ih =>
    have key := mem_iff_of_gt_last h [x1, x2, x3] xs ss hc
    have sxs : StrictSorted cmp xs :=
      (strict_cons.1 (strict_cons.1 (strict_cons.1 (strict_cons.1 ss).2).2).2).2
    exact (ih sxs).trans key.symm
  | case2 x1 x2 x3 x4 xs hc hc2 =>
    have s1 := strict_cons.1 ss
    have s2 := strict_cons.1 s1.2
    have s3 := strict_cons.1 s2.2
    have n4 := ltn x4 xs hc s3.2
    have key := mem_iff_of_gt_last h [x1] (x3 :: x4 :: xs) ss hc2
    simp only [List.cons_append, List.nil_append] at key
    rw [eqi, key]
    simp only [List.mem_cons] at n4 ⊢
    grind
  | case3 x1 x2 x3 x4 xs hc hc2 =>
    have n2 := ltn x2 _ hc2 (strict_cons.1 ss).2
    rw [eqi]
    simp only [List.mem_cons] at n2 ⊢
    grind
  | case4 x1 x2 x3 x4 xs hc hc2 =>
    have := h.eq_imp _ _ hc2; simp [this]
  | case5 x1 x2 x3 x4 xs hc =>
    have := h.eq_imp _ _ hc; simp [this]
  | case6 x1 x2 x3 hc ih =>
    have key := mem_iff_of_gt_last h [x1] [x3] ss hc
    exact (ih (List.pairwise_singleton _ _)).trans key.symm
  | case7 x1 x2 x3 hc =>
    have n2 := ltn x2 _ hc (strict_cons.1 ss).2
    rw [eqi]
    simp only [List.mem_cons] at n2 ⊢
    grind
  | case8 x1 x2 x3 hc =>
    have := h.eq_imp _ _ hc; simp [this]
  | case9 x1 x2 hc =>
    have key := mem_iff_of_gt_last h [x1] [] ss hc
    simp at key ⊢
    exact key
  | case10 x1 x2 hc =>
    have n2 := ltn x2 _ hc (strict_cons.1 ss).2
    rw [eqi]
    simp only [List.mem_cons] at n2 ⊢
    grind
  | case11 x1 x2 hc =>
    have := h.eq_imp _ _ hc; simp [this]
  | case12 x1 => rw [eqi]; simp
  | case13 => simp

theorem ordSubsetAux_iff (h : IsLinear cmp) (h1 : α) (t1 l2 : List α)
    (s1 : StrictSorted cmp (h1 :: t1)) (s2 : StrictSorted cmp l2) :
    ordSubsetAux cmp h1 t1 l2 = true ↔ ∀ x ∈ h1 :: t1, x ∈ l2 := by
  fun_induction ordSubsetAux cmp h1 t1 l2 with
  | case1 h1 t1 =>
    simp only [Bool.false_eq_true, false_iff]
    intro hall
    exact absurd (hall h1 List.mem_cons_self) List.not_mem_nil
  | case2 h1 t1 h2 t2 hc ih =>
    have hc' := (h.gt_iff _ _).1 hc
    have n := (LB.cons h.toIsPreorder hc' s1).ne h.toIsPreorder
    rw [ih s1 (strict_cons.1 s2).2]
    simp only [List.mem_cons] at n ⊢
    grind
  | case3 h1 h2 t2 hc =>
    have := h.eq_imp _ _ hc
    simp [this]
  | case4 h1 h2 t2 hc a t ih =>
    have := h.eq_imp _ _ hc
    subst this
    have n1 := ((strict_cons.1 s1).1).ne h.toIsPreorder
    have := ih (strict_cons.1 s1).2 (strict_cons.1 s2).2
    simp only [this]
    simp only [List.mem_cons] at n1 ⊢
    grind
  | case5 h1 t1 h2 t2 hc =>
    have n := (LB.cons h.toIsPreorder hc s2).not_mem h.toIsPreorder
    simp only [Bool.false_eq_true, false_iff]
    intro hall
    exact n (hall h1 List.mem_cons_self)

/-- `ord_subset/2`. -/
theorem ordSubset_iff (h : IsLinear cmp) (a b : List α) (sa : StrictSorted cmp a)
    (sb : StrictSorted cmp b) : ordSubset cmp a b = true ↔ ∀ x ∈ a, x ∈ b := by
  cases a with
  | nil => simp [ordSubset]
  | cons h1 t1 => exact ordSubsetAux_iff h h1 t1 b sa sb

theorem ordIntersectAux_iff (h : IsLinear cmp) (l2 : List α) (h1 : α) (t1 : List α)
    (s1 : StrictSorted cmp (h1 :: t1)) (s2 : StrictSorted cmp l2) :
    ordIntersectAux cmp l2 h1 t1 = true ↔ ∃ x, x ∈ h1 :: t1 ∧ x ∈ l2 := by
  fun_induction ordIntersectAux cmp l2 h1 t1 with
  | case1 h1 t1 => simp
  | case2 h2 t2 h1 t1 hc ih =>
    have n := (LB.cons h.toIsPreorder hc s2).ne h.toIsPreorder
    rw [ih s2 (strict_cons.1 s1).2]
    simp only [List.mem_cons] at n ⊢
    grind
  | case3 h2 t2 h1 t1 hc =>
    have := h.eq_imp _ _ hc
    simp only [true_iff]
    exact ⟨h1, List.mem_cons_self, this ▸ List.mem_cons_self⟩
  | case4 h2 t2 h1 t1 hc ih =>
    have hc' := (h.gt_iff _ _).1 hc
    have n := (LB.cons h.toIsPreorder hc' s1).ne h.toIsPreorder
    rw [ih s1 (strict_cons.1 s2).2]
    simp only [List.mem_cons] at n ⊢
    grind

/-- `ord_intersect/2`: the sets have a common element; `ord_disjoint/2` is its negation. -/
theorem ordIntersect_iff (h : IsLinear cmp) (a b : List α) (sa : StrictSorted cmp a)
    (sb : StrictSorted cmp b) : ordIntersect cmp a b = true ↔ ∃ x, x ∈ a ∧ x ∈ b := by
  cases a with
  | nil => simp [ordIntersect]
  | cons h1 t1 => exact ordIntersectAux_iff h b h1 t1 sa sb

end Scryer.OrdSet
