import ScryerModel.Model.IntRel
/-! Helper lemmas for the integer relation builtins (C49). -/
namespace Scryer.IntRel

theorem rangeTake_zero (l u : Int) : rangeTake 0 l u = [] := by
  simp [rangeTake]

theorem betweenTake_eq (n : Nat) (l u : Int) : betweenTake n l u = rangeTake n l u := by
  induction n generalizing l with
  | zero => simp [betweenTake, rangeTake]
  | succ n ih =>
    unfold betweenTake
    split
    · rename_i h
      rw [ih]
      unfold rangeTake
      have e : min (n + 1) (u + 1 - l).toNat = min n (u + 1 - (l + 1)).toNat + 1 := by omega
      rw [e, List.range_succ_eq_map]
      simp only [List.map_cons, List.map_map]
      congr 1
      · simp
      · apply List.map_congr_left
        intro i _
        simp only [Function.comp]
        omega
    · split
      · rename_i h1 h2
        subst h2
        unfold rangeTake
        have e : min (n + 1) (l + 1 - l).toNat = 1 := by omega
        rw [e]; simp [List.range_succ_eq_map]
      · rename_i h1 h2
        unfold rangeTake
        have e : min (n + 1) (u + 1 - l).toNat = 0 := by omega
        rw [e]; simp

theorem betweenAll_eq_take (l u : Int) : betweenAll l u = betweenTake (u + 1 - l).toNat l u := by
  fun_induction betweenAll l u with
  | case1 l h ih =>
    have e : (u + 1 - l).toNat = (u + 1 - (l + 1)).toNat + 1 := by omega
    rw [e]; simp [betweenTake, h, ih]
  | case2 h1 =>
    have e : (u + 1 - u).toNat = 0 + 1 := by omega
    rw [e]; simp [betweenTake]
  | case3 l h1 h2 =>
    have e : (u + 1 - l).toNat = 0 := by omega
    rw [e]; simp [betweenTake]

theorem betweenAll_eq (l u : Int) : betweenAll l u = rangeIncl l u := by
  rw [betweenAll_eq_take, betweenTake_eq]; simp [rangeTake, rangeIncl]

theorem rangeTake_eq_take (n : Nat) (l u : Int) : rangeTake n l u = (rangeIncl l u).take n := by
  simp [rangeTake, rangeIncl, ← List.map_take, List.take_range]

theorem mem_rangeIncl (l u x : Int) : x ∈ rangeIncl l u ↔ l ≤ x ∧ x ≤ u := by
  simp only [rangeIncl, List.mem_map, List.mem_range]
  constructor
  · rintro ⟨i, hi, rfl⟩; omega
  · intro h; exact ⟨(x - l).toNat, by omega, by omega⟩

theorem length_rangeIncl (l u : Int) : (rangeIncl l u).length = (u + 1 - l).toNat := by
  simp [rangeIncl]

theorem rangeIncl_sorted (l u : Int) : (rangeIncl l u).Pairwise (· < ·) := by
  unfold rangeIncl
  rw [List.pairwise_map]
  exact List.Pairwise.imp (fun h => by omega) List.pairwise_lt_range

theorem rangeIncl_nodup (l u : Int) : (rangeIncl l u).Nodup :=
  List.Pairwise.imp (fun h => by omega) (rangeIncl_sorted l u)


/-! ### between/3 and succ/2 against their specifications -/

theorem rangeTake_empty (n : Nat) (l u : Int) (h : u < l) : rangeTake n l u = [] := by
  have e : min n (u + 1 - l).toNat = 0 := by omega
  simp [rangeTake, e]

theorem between_eq_spec (n : Nat) (L U X : Arg) : between n L U X = specBetween n L U X := by
  cases L <;> cases U <;> cases X <;>
    simp [between, specBetween, mustBeInt, canBeInt, betweenTake_eq]
  · intro h; exact rangeTake_empty n _ _ h
  · rename_i l u x
    by_cases h1 : l ≤ x <;> by_cases h2 : x ≤ u <;> simp [h1, h2]

theorem succ_eq_spec (n : Nat) (I S : Arg) : succ n I S = specSucc n I S := by
  cases I <;> cases S <;> simp [succ, specSucc, canBeNlz, specNlzErr]
  · rename_i v s
    by_cases h : 0 ≤ s
    · have h' : ¬ s < 0 := by omega
      by_cases h2 : 0 < s
      · have h3 : 1 ≤ s := by omega
        simp [h, h', h2, h3]
      · have h3 : ¬ 1 ≤ s := by omega
        simp [h, h', h2, h3]
    · have h' : s < 0 := by omega
      simp [h, h']
  · rename_i i v
    by_cases h : 0 ≤ i
    · have h' : ¬ i < 0 := by omega
      simp [h, h']
    · have h' : i < 0 := by omega
      simp [h, h']
  · rename_i i s
    by_cases h : 0 ≤ i
    · have h' : ¬ i < 0 := by omega
      by_cases g : 0 ≤ s
      · have g' : ¬ s < 0 := by omega
        by_cases e : s = i + 1
        · subst e
          have e2 : 0 < i + 1 := by omega
          simp [h, h', g, g', e2]
        · have e1 : ¬ i = s - 1 := by omega
          simp [h, h', g, g', e, e1]
      · have g' : s < 0 := by omega
        simp [h, h', g, g']
    · have h' : i < 0 := by omega
      simp [h, h']
  · rename_i i k
    by_cases h : 0 ≤ i
    · have h' : ¬ i < 0 := by omega
      simp [h, h']
    · have h' : i < 0 := by omega
      simp [h, h']


/-! ### length/2 -/

theorem freshVars_zero (f : Nat) : freshVars f 0 = [] := by simp [freshVars]

theorem freshVars_succ (f k : Nat) : freshVars f (k + 1) = f :: freshVars (f + 1) k := by
  simp only [freshVars, List.range_succ_eq_map, List.map_cons, List.map_map]
  congr 1
  apply List.map_congr_left
  intro i _
  simp only [Function.comp]; omega

theorem length_freshVars (f k : Nat) : (freshVars f k).length = k := by simp [freshVars]

theorem mem_freshVars (f k v : Nat) : v ∈ freshVars f k ↔ f ≤ v ∧ v < f + k := by
  simp only [freshVars, List.mem_map, List.mem_range]
  constructor
  · rintro ⟨i, hi, rfl⟩; omega
  · intro h; exact ⟨v - f, by omega, by omega⟩

theorem freshVars_nodup (f k : Nat) : (freshVars f k).Nodup := by
  unfold freshVars
  have : ((List.range k).map (f + ·)).Pairwise (· < ·) := by
    rw [List.pairwise_map]
    exact List.Pairwise.imp (fun h => by omega) List.pairwise_lt_range
  exact List.Pairwise.imp (fun h => by omega) this

theorem lengthAddendum_eq (n fresh : Nat) (acc : List Nat) (m : Int) :
    lengthAddendum n fresh acc m
      = (List.range n).map fun (j : Nat) => (⟨m + (j : Int), acc ++ freshVars fresh j⟩ : LenAns) := by
  induction n generalizing fresh acc m with
  | zero => simp [lengthAddendum]
  | succ n ih =>
    rw [lengthAddendum, ih, List.range_succ_eq_map]
    simp only [List.map_cons, List.map_map]
    congr 1
    · simp [freshVars_zero]
    · apply List.map_congr_left
      intro j _
      simp only [Function.comp, freshVars_succ, LenAns.mk.injEq]
      constructor
      · omega
      · simp


theorem fitsI64_iff (i : Int) : fitsI64 i = true ↔ (-(2 ^ 63) ≤ i ∧ i < 2 ^ 63) := by
  simp [fitsI64]

theorem skip_var (p : Bool) (v : Nat) (xs : PList) :
    skipMaxList p (.var v) xs = some (xs.k, ⟨0, xs.tail⟩) := rfl

theorem skip_bad (p : Bool) (k : Nat) (xs : PList) : skipMaxList p (.bad k) xs = none := rfl

theorem skip_int_small (p : Bool) (i : Int) (xs : PList) (h0 : 0 ≤ i) (h1 : i < 2 ^ 63) :
    skipMaxList p (.int i) xs
      = some (min i.toNat xs.k, ⟨xs.k - min i.toNat xs.k, xs.tail⟩) := by
  have f : fitsI64 i = true := (fitsI64_iff i).2 ⟨by omega, h1⟩
  simp [skipMaxList, f, h0]

theorem skip_int_big (p : Bool) (i : Int) (xs : PList) (h1 : 2 ^ 63 ≤ i) :
    skipMaxList p (.int i) xs = some (xs.k, ⟨0, xs.tail⟩) := by
  have f : ¬ fitsI64 i = true := by rw [fitsI64_iff]; omega
  have h0 : 0 ≤ i := by omega
  simp [skipMaxList, f, h0]

theorem skip_int_neg (p : Bool) (i : Int) (xs : PList) (h0 : i < 0) (hp : p = true → -(2 ^ 63) ≤ i) :
    skipMaxList p (.int i) xs = none := by
  have h0' : ¬ 0 ≤ i := by omega
  by_cases f : fitsI64 i = true
  · simp [skipMaxList, f, h0']
  · cases p with
    | true => exact absurd ((fitsI64_iff i).2 ⟨hp rfl, by omega⟩) f
    | false => simp [skipMaxList, f, h0']

/-- the pinned code: a negative bignum is taken for "no limit" -/
theorem skip_int_neg_pinned (i : Int) (xs : PList) (h : i < -(2 ^ 63)) :
    skipMaxList true (.int i) xs = some (xs.k, ⟨0, xs.tail⟩) := by
  have f : ¬ fitsI64 i = true := by rw [fitsI64_iff]; omega
  simp [skipMaxList, f]

theorem length_eq_spec (pinned : Bool) (cap n fresh : Nat) (xs : PList) (N : Arg)
    (hk : (xs.k : Int) < 2 ^ 63)
    (hN : ∀ i, N = .int i →
      (pinned = true → -(2 ^ 63) ≤ i) ∧ (∀ t, xs.tail = .var t → i - xs.k ≤ cap)) :
    length pinned cap n fresh xs N = specLength n fresh xs N := by
  obtain ⟨k, tail⟩ := xs
  simp only at hk hN
  cases N with
  | var v =>
    simp only [length, skip_var, specLength]
    cases tail with
    | nil => simp
    | var t =>
      simp only [PList.mk.injEq, reduceCtorEq, and_false, ↓reduceIte]
      split
      · rfl
      · rw [lengthAddendum_eq]; simp
    | nonlist => simp
  | bad b => simp [length, skip_bad, specLength]
  | int i =>
    obtain ⟨hp, hc⟩ := hN i rfl
    by_cases h0 : i < 0
    · simp [length, skip_int_neg pinned i ⟨k, tail⟩ h0 hp, specLength, h0]
    · by_cases h1 : i < 2 ^ 63
      · rw [length, skip_int_small pinned i ⟨k, tail⟩ (by omega) h1]
        simp only [specLength, h0, ↓reduceIte]
        by_cases hik : i < k
        · have e : min i.toNat k = i.toNat := by omega
          have e2 : k - i.toNat = (k - i.toNat - 1) + 1 := by omega
          simp only [e]
          rw [e2]
          cases tail <;> simp <;> (intro h; omega)
        · have e : min i.toNat k = k := by omega
          simp only [e, Nat.sub_self]
          cases tail with
          | nil =>
            simp only [↓reduceIte]
          | nonlist => simp
          | var t =>
            simp only [PList.mk.injEq, reduceCtorEq, and_false, ↓reduceIte, hik, lengthRundown]
            by_cases hr : i - (k : Int) = 0
            · simp [hr, freshVars_zero]
            · have hr2 : ¬ i - (k : Int) < 0 := by omega
              have hr3 : (i - (k : Int)).toNat ≤ cap := by have := hc t rfl; omega
              simp [hr, hr2]
              intro h; omega
      · rw [length, skip_int_big pinned i ⟨k, tail⟩ (by omega)]
        simp only [specLength, h0, ↓reduceIte]
        have hik : ¬ i < k := by omega
        cases tail with
        | nil =>
          simp only [↓reduceIte]
        | nonlist => simp
        | var t =>
          simp only [PList.mk.injEq, reduceCtorEq, and_false, ↓reduceIte, hik, lengthRundown]
          have hr : ¬ i - (k : Int) = 0 := by omega
          have hr2 : ¬ i - (k : Int) < 0 := by omega
          have hr3 : (i - (k : Int)).toNat ≤ cap := by have := hc t rfl; omega
          simp [hr, hr2]
          intro h; omega


/-! ### numlist/3 -/

theorem numlistBody_eq (l u : Int) (Xs : LArg) :
    numlistBody l u Xs
      = if l ≤ u ∧ unifyInts (rangeIncl l u) Xs = true then [(l, u, rangeIncl l u)] else [] := by
  unfold numlistBody
  rw [betweenAll_eq]
  by_cases h : l ≤ u <;> by_cases g : unifyInts (rangeIncl l u) Xs = true <;> simp [h, g]

theorem mem_numlistBody (l u : Int) (Xs : LArg) (t : Tuple) :
    t ∈ numlistBody l u Xs ↔ t = (l, u, rangeIncl l u) ∧ l ≤ u ∧ unifyInts (rangeIncl l u) Xs = true := by
  rw [numlistBody_eq]
  split <;> simp_all

theorem mem_enumerateInts (d : Nat) (i0 x : Int) (h : 0 ≤ i0) :
    x ∈ enumerateInts d i0 ↔ (i0 ≤ x.natAbs ∧ (x.natAbs : Int) < i0 + d) := by
  induction d generalizing i0 with
  | zero => simp [enumerateInts]
  | succ d ih =>
    simp only [enumerateInts, List.mem_cons, List.mem_append]
    rw [ih (i0 + 1) (by omega)]
    by_cases hp : i0 > 0
    · simp [hp]; omega
    · simp [hp]; omega

theorem enumerateInts_nodup (d : Nat) (i0 : Int) (h : 0 ≤ i0) : (enumerateInts d i0).Nodup := by
  induction d generalizing i0 with
  | zero => simp [enumerateInts]
  | succ d ih =>
    simp only [enumerateInts]
    by_cases hp : i0 > 0
    · simp only [hp, ↓reduceIte, List.cons_append, List.nil_append, List.nodup_cons, List.mem_cons]
      refine ⟨?_, ?_, ih _ (by omega)⟩
      · rw [mem_enumerateInts _ _ _ (by omega)]; omega
      · rw [mem_enumerateInts _ _ _ (by omega)]; omega
    · simp only [hp, ↓reduceIte, List.nil_append, List.nodup_cons]
      refine ⟨?_, ih _ (by omega)⟩
      rw [mem_enumerateInts _ _ _ (by omega)]; omega

theorem length_enumerateInts_ge (d : Nat) (i0 : Int) : d ≤ (enumerateInts d i0).length := by
  induction d generalizing i0 with
  | zero => simp
  | succ d ih =>
    simp only [enumerateInts, List.length_cons, List.length_append]
    have := ih (i0 + 1); omega

/-- order in which `diag_nats/4` visits its states: by anti-diagonal, then by first component -/
def diagLt (a b : Nat × Nat) : Prop :=
  a.1 + a.2 < b.1 + b.2 ∨ (a.1 + a.2 = b.1 + b.2 ∧ a.1 < b.1)

theorem diagLt_next (s : Nat × Nat) : diagLt s (diagNatsNext s) := by
  obtain ⟨m, n⟩ := s
  cases n with
  | zero => simp [diagNatsNext, diagLt]
  | succ n => simp [diagNatsNext, diagLt]; omega

theorem diagLt_trans {a b c : Nat × Nat} (h1 : diagLt a b) (h2 : diagLt b c) : diagLt a c := by
  unfold diagLt at *; omega

theorem diagLt_irrefl (a : Nat × Nat) : ¬ diagLt a a := by
  unfold diagLt; omega

theorem mem_diagNats4_ge (d : Nat) (s x : Nat × Nat) (h : x ∈ diagNats4 d s) : x = s ∨ diagLt s x := by
  induction d generalizing s with
  | zero => simp [diagNats4] at h
  | succ d ih =>
    simp only [diagNats4, List.mem_cons] at h
    rcases h with h | h
    · exact Or.inl h
    · rcases ih _ h with e | e
      · exact Or.inr (e ▸ diagLt_next s)
      · exact Or.inr (diagLt_trans (diagLt_next s) e)

theorem diagNats4_nodup (d : Nat) (s : Nat × Nat) : (diagNats4 d s).Nodup := by
  induction d generalizing s with
  | zero => simp [diagNats4]
  | succ d ih =>
    simp only [diagNats4, List.nodup_cons]
    refine ⟨fun h => ?_, ih _⟩
    rcases mem_diagNats4_ge _ _ _ h with e | e
    · exact diagLt_irrefl s (by have := diagLt_next s; rwa [← e] at this)
    · exact diagLt_irrefl s (diagLt_trans (diagLt_next s) e)

theorem diagNats2_nodup (d : Nat) : (diagNats2 d).Nodup := by
  simp only [diagNats2, List.nodup_cons]
  refine ⟨fun h => ?_, diagNats4_nodup _ _⟩
  rcases mem_diagNats4_ge _ _ _ h with e | e
  · simp at e
  · simp [diagLt] at e

/-- reachability along `diag_nats/4` -/
theorem diagNats4_mono (d e : Nat) (s x : Nat × Nat) (h : x ∈ diagNats4 d s) : x ∈ diagNats4 (d + e) s := by
  induction d generalizing s with
  | zero => simp [diagNats4] at h
  | succ d ih =>
    have e1 : d + 1 + e = (d + e) + 1 := by omega
    rw [e1]
    simp only [diagNats4, List.mem_cons] at h ⊢
    rcases h with h | h
    · exact Or.inl h
    · exact Or.inr (ih _ h)

theorem diagNats4_trans (d1 d2 : Nat) (s x y : Nat × Nat) (h1 : x ∈ diagNats4 d1 s)
    (h2 : y ∈ diagNats4 d2 x) : y ∈ diagNats4 (d1 + d2) s := by
  induction d1 generalizing s with
  | zero => simp [diagNats4] at h1
  | succ d ih =>
    have e1 : d + 1 + d2 = (d + d2) + 1 := by omega
    simp only [diagNats4, List.mem_cons] at h1
    rcases h1 with h | h
    · subst h
      have := diagNats4_mono d2 (d + 1) x y h2
      have e2 : d2 + (d + 1) = d + 1 + d2 := by omega
      rwa [e2] at this
    · rw [e1]
      simp only [diagNats4, List.mem_cons]
      exact Or.inr (ih _ h)

def Reach (s y : Nat × Nat) : Prop := ∃ d, y ∈ diagNats4 d s

theorem Reach.refl (s : Nat × Nat) : Reach s s := ⟨1, by simp [diagNats4]⟩
theorem Reach.step (s : Nat × Nat) : Reach s (diagNatsNext s) := ⟨2, by simp [diagNats4]⟩
theorem Reach.trans {a b c : Nat × Nat} (h1 : Reach a b) (h2 : Reach b c) : Reach a c := by
  obtain ⟨d1, h1⟩ := h1; obtain ⟨d2, h2⟩ := h2
  exact ⟨d1 + d2, diagNats4_trans _ _ _ _ _ h1 h2⟩

theorem reach_along (s m : Nat) (h : m ≤ s) : Reach (0, s) (m, s - m) := by
  induction m with
  | zero => exact Reach.refl _
  | succ m ih =>
    have h1 := ih (by omega)
    have e : s - m = (s - (m + 1)) + 1 := by omega
    have h2 : Reach (m, s - m) (m + 1, s - (m + 1)) := by
      rw [e]
      have := Reach.step (m, (s - (m + 1)) + 1)
      simpa [diagNatsNext] using this
    exact h1.trans h2

theorem reach_diag (s : Nat) : Reach (0, 1) (0, s + 1) := by
  induction s with
  | zero => exact Reach.refl _
  | succ s ih =>
    have h1 := reach_along (s + 1) (s + 1) (by omega)
    have h2 : Reach (s + 1, 0) (0, s + 2) := by
      have := Reach.step (s + 1, 0)
      simpa [diagNatsNext] using this
    simp only [Nat.sub_self] at h1
    exact ih.trans (h1.trans h2)

theorem mem_diagNats2 (p : Nat × Nat) : ∃ d, p ∈ diagNats2 d := by
  obtain ⟨m, n⟩ := p
  by_cases h : m + n = 0
  · have : m = 0 ∧ n = 0 := by omega
    exact ⟨0, by simp [diagNats2, this.1, this.2]⟩
  · have h1 := reach_diag (m + n - 1)
    have h2 := reach_along (m + n) m (by omega)
    have e1 : m + n - 1 + 1 = m + n := by omega
    have e2 : m + n - m = n := by omega
    rw [e1] at h1; rw [e2] at h2
    obtain ⟨d, hd⟩ := h1.trans h2
    exact ⟨d, by simp [diagNats2, hd]⟩


theorem mem_diagNatsSigns (p : Nat × Nat) (q : Int × Int) :
    q ∈ diagNatsSigns p ↔ (q.1.natAbs = p.1 ∧ q.2.natAbs = p.2) := by
  obtain ⟨m, n⟩ := p; obtain ⟨a, b⟩ := q
  cases m <;> cases n <;> simp [diagNatsSigns] <;> omega

theorem diagNatsSigns_nodup (p : Nat × Nat) : (diagNatsSigns p).Nodup := by
  obtain ⟨m, n⟩ := p
  cases m <;> cases n <;> simp [diagNatsSigns] <;> omega

theorem diagInts_nodup (d : Nat) : (diagInts d).Nodup := by
  unfold diagInts List.Nodup
  rw [List.pairwise_flatMap]
  refine ⟨fun a _ => diagNatsSigns_nodup a, ?_⟩
  refine List.Pairwise.imp ?_ (diagNats2_nodup d)
  intro a b hab x hx y hy hxy
  rw [mem_diagNatsSigns] at hx hy
  apply hab
  subst hxy
  exact Prod.ext (by omega) (by omega)

theorem mem_diagInts (q : Int × Int) : ∃ d, q ∈ diagInts d := by
  obtain ⟨d, hd⟩ := mem_diagNats2 (q.1.natAbs, q.2.natAbs)
  exact ⟨d, List.mem_flatMap.2 ⟨_, hd, (mem_diagNatsSigns _ _).2 ⟨rfl, rfl⟩⟩⟩

theorem diagNats2_mono (d e : Nat) (x : Nat × Nat) (h : x ∈ diagNats2 d) : x ∈ diagNats2 (d + e) := by
  simp only [diagNats2, List.mem_cons] at h ⊢
  rcases h with h | h
  · exact Or.inl h
  · exact Or.inr (diagNats4_mono _ _ _ _ h)

theorem diagInts_mono (d e : Nat) (q : Int × Int) (h : q ∈ diagInts d) : q ∈ diagInts (d + e) := by
  obtain ⟨a, ha, hq⟩ := List.mem_flatMap.1 h
  exact List.mem_flatMap.2 ⟨a, diagNats2_mono _ _ _ ha, hq⟩

/-- at most one candidate of a duplicate-free candidate list yields an answer, and it yields at most one -/
theorem flatMap_unique_length {α β : Type} (l : List α) (f : α → List β) (a0 : α) (hn : l.Nodup)
    (h1 : ∀ a ∈ l, a ≠ a0 → f a = []) (h2 : (f a0).length ≤ 1) : (l.flatMap f).length ≤ 1 := by
  induction l with
  | nil => simp
  | cons a l ih =>
    rw [List.nodup_cons] at hn
    simp only [List.flatMap_cons, List.length_append]
    by_cases e : a = a0
    · subst e
      have : l.flatMap f = [] := by
        rw [List.flatMap_eq_nil_iff]
        intro b hb
        exact h1 b (List.mem_cons_of_mem _ hb) (fun h => hn.1 (h ▸ hb))
      simp [this, h2]
    · have : f a = [] := h1 a (List.mem_cons_self ..) e
      have := ih hn.2 (fun b hb => h1 b (List.mem_cons_of_mem _ hb))
      simp_all

theorem rangeIncl_cons (l u : Int) (h : l ≤ u) : rangeIncl l u = l :: rangeIncl (l + 1) u := by
  rw [← betweenAll_eq, ← betweenAll_eq, betweenAll]
  by_cases h1 : l < u
  · simp [h1]
  · have : l = u := by omega
    subst this
    have h2 : ¬ l + 1 < l := by omega
    have h3 : ¬ l + 1 = l := by omega
    rw [betweenAll]; simp [h2, h3]

theorem numlistBody_length_le (l u : Int) (Xs : LArg) : (numlistBody l u Xs).length ≤ 1 := by
  rw [numlistBody_eq]; split <;> simp

theorem numlistBody_ints_ne_nil (l u : Int) (xs : List Int) (h : numlistBody l u (.ints xs) ≠ []) :
    l ≤ u ∧ xs = rangeIncl l u := by
  rw [numlistBody_eq] at h
  split at h
  · rename_i g; exact ⟨g.1, by simpa [unifyInts] using g.2⟩
  · exact absurd rfl h

theorem numlistFound_bound_list_le_one (fuel : Nat) (L U : Arg) (xs : List Int) :
    (numlistFound fuel L U (.ints xs)).length ≤ 1 := by
  have key1 : ∀ l : Int, ((enumerateInts fuel 0).flatMap fun u => numlistBody l u (.ints xs)).length ≤ 1 := by
    intro l
    apply flatMap_unique_length _ _ (l + xs.length - 1) (enumerateInts_nodup _ _ (by omega))
    · intro u _ hu
      apply Classical.byContradiction
      intro hne
      obtain ⟨h1, h2⟩ := numlistBody_ints_ne_nil _ _ _ hne
      have := congrArg List.length h2
      rw [length_rangeIncl] at this
      omega
    · exact numlistBody_length_le _ _ _
  have key2 : ∀ u : Int, ((enumerateInts fuel 0).flatMap fun l => numlistBody l u (.ints xs)).length ≤ 1 := by
    intro u
    apply flatMap_unique_length _ _ (u + 1 - xs.length) (enumerateInts_nodup _ _ (by omega))
    · intro l _ hl
      apply Classical.byContradiction
      intro hne
      obtain ⟨h1, h2⟩ := numlistBody_ints_ne_nil _ _ _ hne
      have := congrArg List.length h2
      rw [length_rangeIncl] at this
      omega
    · exact numlistBody_length_le _ _ _
  have key3 : ((diagInts fuel).flatMap fun p => numlistBody p.1 p.2 (.ints xs)).length ≤ 1 := by
    apply flatMap_unique_length _ _ (xs.head?.getD 0, xs.head?.getD 0 + xs.length - 1) (diagInts_nodup _)
    · intro p _ hp
      apply Classical.byContradiction
      intro hne
      obtain ⟨h1, h2⟩ := numlistBody_ints_ne_nil _ _ _ hne
      have hl := congrArg List.length h2
      rw [length_rangeIncl] at hl
      have hh : xs.head?.getD 0 = p.1 := by rw [h2, rangeIncl_cons _ _ h1]; rfl
      apply hp
      exact Prod.ext (by simp [hh]) (by simp [hh]; omega)
    · exact numlistBody_length_le _ _ _
  unfold numlistFound
  split
  · exact numlistBody_length_le _ _ _
  · exact key1 _
  · exact key2 _
  · exact key3

theorem numlist3_bound_list_hangs (fuel : Nat) (L U : Arg) (xs : List Int)
    (hL : canBeInt L = none) (hU : canBeInt U = none) (hm : ¬ ∃ l u, L = .int l ∧ U = .int u) :
    numlist3 2 fuel L U (.ints xs) = .hang (numlistFound fuel L U (.ints xs)) := by
  have hlen := numlistFound_bound_list_le_one fuel L U xs
  unfold numlist3
  simp only [hL, hU]
  split
  · rename_i l u; exact absurd ⟨l, u, rfl, rfl⟩ hm
  · have : ¬ (numlistFound fuel L U (.ints xs)).length ≥ 2 := by omega
    simp [search, this]


theorem numlistFound_sound (fuel : Nat) (L U : Arg) (Xs : LArg) (t : Tuple)
    (h : t ∈ numlistFound fuel L U Xs) :
    t.1 ≤ t.2.1 ∧ t.2.2 = rangeIncl t.1 t.2.1 ∧ unifyInts t.2.2 Xs = true ∧
      (∀ l, L = .int l → t.1 = l) ∧ (∀ u, U = .int u → t.2.1 = u) := by
  unfold numlistFound at h
  split at h
  · rw [mem_numlistBody] at h
    obtain ⟨rfl, h1, h2⟩ := h
    exact ⟨h1, rfl, h2, fun l e => by cases e; rfl, fun u e => by cases e; rfl⟩
  · rename_i l hU
    obtain ⟨u, _, hu⟩ := List.mem_flatMap.1 h
    rw [mem_numlistBody] at hu
    obtain ⟨rfl, h1, h2⟩ := hu
    exact ⟨h1, rfl, h2, fun l e => by cases e; rfl, fun u' e => (hU u' e).elim⟩
  · rename_i u hL
    obtain ⟨l, _, hl⟩ := List.mem_flatMap.1 h
    rw [mem_numlistBody] at hl
    obtain ⟨rfl, h1, h2⟩ := hl
    exact ⟨h1, rfl, h2, fun l' e => (hL l' e).elim, fun u e => by cases e; rfl⟩
  · rename_i h1 h2 h3
    obtain ⟨p, _, hp⟩ := List.mem_flatMap.1 h
    rw [mem_numlistBody] at hp
    obtain ⟨rfl, g1, g2⟩ := hp
    refine ⟨g1, rfl, g2, fun l e => ?_, fun u e => ?_⟩
    · exact (h1 l e).elim
    · exact (h2 u e).elim


theorem mem_enumerateInts_zero (fuel : Nat) (x : Int) : x ∈ enumerateInts fuel 0 ↔ x.natAbs < fuel := by
  rw [mem_enumerateInts _ _ _ (by omega)]; omega

/-- every tuple of the relation that is compatible with the arguments is found once enough levels of
the candidate generators have been scanned, and stays found (fairness of the enumeration). -/
theorem numlistFound_complete (L U : Arg) (Xs : LArg) (hL : canBeInt L = none) (hU : canBeInt U = none)
    (l u : Int) (hlu : l ≤ u) (hx : unifyInts (rangeIncl l u) Xs = true)
    (hl : ∀ l', L = .int l' → l = l') (hu : ∀ u', U = .int u' → u = u') :
    ∃ fuel0, ∀ fuel, fuel0 ≤ fuel → (l, u, rangeIncl l u) ∈ numlistFound fuel L U Xs := by
  have hb : (l, u, rangeIncl l u) ∈ numlistBody l u Xs := (mem_numlistBody _ _ _ _).2 ⟨rfl, hlu, hx⟩
  cases L with
  | bad k => simp [canBeInt] at hL
  | int l' =>
    have el := hl l' rfl
    subst el
    cases U with
    | bad k => simp [canBeInt] at hU
    | int u' =>
      have eu := hu u' rfl
      subst eu
      exact ⟨0, fun fuel _ => by simpa [numlistFound] using hb⟩
    | var w =>
      refine ⟨u.natAbs + 1, fun fuel hf => ?_⟩
      simp only [numlistFound]
      exact List.mem_flatMap.2 ⟨u, (mem_enumerateInts_zero _ _).2 (by omega), hb⟩
  | var v =>
    cases U with
    | bad k => simp [canBeInt] at hU
    | int u' =>
      have eu := hu u' rfl
      subst eu
      refine ⟨l.natAbs + 1, fun fuel hf => ?_⟩
      simp only [numlistFound]
      exact List.mem_flatMap.2 ⟨l, (mem_enumerateInts_zero _ _).2 (by omega), hb⟩
    | var w =>
      obtain ⟨d, hd⟩ := mem_diagInts (l, u)
      refine ⟨d, fun fuel hf => ?_⟩
      simp only [numlistFound]
      have : (l, u) ∈ diagInts fuel := by
        have := diagInts_mono d (fuel - d) _ hd
        have e : d + (fuel - d) = fuel := by omega
        rwa [e] at this
      exact List.mem_flatMap.2 ⟨(l, u), this, hb⟩

theorem numlistBody_nodup (l u : Int) (Xs : LArg) : (numlistBody l u Xs).Nodup := by
  rw [numlistBody_eq]; split <;> simp

theorem numlistFound_nodup (fuel : Nat) (L U : Arg) (Xs : LArg) : (numlistFound fuel L U Xs).Nodup := by
  unfold numlistFound
  split
  · exact numlistBody_nodup _ _ _
  · unfold List.Nodup
    rw [List.pairwise_flatMap]
    refine ⟨fun a _ => numlistBody_nodup _ a _, List.Pairwise.imp ?_ (enumerateInts_nodup fuel 0 (by omega))⟩
    intro a b hab x hx y hy hxy
    rw [mem_numlistBody] at hx hy
    apply hab
    have := hx.1.symm.trans (hxy.trans hy.1)
    simpa using congrArg (fun t : Tuple => t.2.1) this
  · unfold List.Nodup
    rw [List.pairwise_flatMap]
    refine ⟨fun a _ => numlistBody_nodup a _ _, List.Pairwise.imp ?_ (enumerateInts_nodup fuel 0 (by omega))⟩
    intro a b hab x hx y hy hxy
    rw [mem_numlistBody] at hx hy
    apply hab
    have := hx.1.symm.trans (hxy.trans hy.1)
    simpa using congrArg (fun t : Tuple => t.1) this
  · unfold List.Nodup
    rw [List.pairwise_flatMap]
    refine ⟨fun a _ => numlistBody_nodup _ _ _, List.Pairwise.imp ?_ (diagInts_nodup fuel)⟩
    intro a b hab x hx y hy hxy
    rw [mem_numlistBody] at hx hy
    apply hab
    have := hx.1.symm.trans (hxy.trans hy.1)
    exact Prod.ext (by simpa using congrArg (fun t : Tuple => t.1) this)
      (by simpa using congrArg (fun t : Tuple => t.2.1) this)


theorem boundsOf_iff (xs : List Int) (l u : Int) :
    boundsOf xs = some (l, u) ↔ (l ≤ u ∧ xs = rangeIncl l u) := by
  cases xs with
  | nil =>
    simp only [boundsOf, reduceCtorEq, false_iff, not_and]
    intro h e
    have := congrArg List.length e
    rw [length_rangeIncl] at this
    simp at this; omega
  | cons x t =>
    simp only [boundsOf]
    constructor
    · intro h
      split at h
      · rename_i g
        simp only [Option.some.injEq, Prod.mk.injEq] at h
        obtain ⟨rfl, rfl⟩ := h
        exact ⟨by simp only [List.length_cons]; omega, g⟩
      · exact absurd h (by simp)
    · rintro ⟨h1, h2⟩
      have hl := congrArg List.length h2
      rw [length_rangeIncl] at hl
      have hh : x = l := by
        have := h2
        rw [rangeIncl_cons _ _ h1] at this
        exact (List.cons.inj this).1
      subst hh
      have hu : x + ((x :: t).length : Int) - 1 = u := by omega
      rw [hu, if_pos h2]

/-- at most `n` answers of a determinate goal -/
theorem take_singleton_sound {α : Type} (n : Nat) (a : α) (P : α → Prop) (hP : P a) (as : List α)
    (h : List.take n [a] = as) : as.length ≤ 1 ∧ ∀ p ∈ as, P p := by
  subst h
  refine ⟨by simp; omega, fun p hp => ?_⟩
  have := List.mem_of_mem_take hp
  simp only [List.mem_singleton] at this
  exact this ▸ hP

end Scryer.IntRel
