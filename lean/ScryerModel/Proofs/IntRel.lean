import ScryerModel.Model.IntRel
/-! Helper lemmas for the integer relation builtins (C49). -/
namespace Scryer.IntRel

end Scryer.IntRel
