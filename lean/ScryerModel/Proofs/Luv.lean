import ScryerModel.Model.Luv
/-! Lemmas for property C09 (logical update view). -/
namespace Scryer.Luv

variable {α : Type}

/-! ## visibility -/

@[simp] theorem kill_id (e : Entry α) (c : Nat) : (e.kill c).id = e.id := rfl
@[simp] theorem kill_cl (e : Entry α) (c : Nat) : (e.kill c).cl = e.cl := rfl
@[simp] theorem kill_birth (e : Entry α) (c : Nat) : (e.kill c).birth = e.birth := rfl
@[simp] theorem kill_death (e : Entry α) (c : Nat) : (e.kill c).death = some c := rfl

/-- stamping a live clause dead at `clock` does not change what generations `cc ≤ clock` see -/
theorem vis_kill (e : Entry α) (cc clock : Nat) (hl : e.live = true) (hc : cc ≤ clock) :
    (e.kill clock).vis cc = e.vis cc := by
  cases e with
  | mk id b d cl =>
    cases d with
    | none => by_cases hb : b < cc <;> simp [Entry.vis, Entry.kill, hc, hb]
    | some d => simp [Entry.live] at hl

theorem vis_new (id clock cc : Nat) (c : α) (hc : cc ≤ clock) :
    (⟨id, clock, none, c⟩ : Entry α).vis cc = false := by
  simp [Entry.vis]; omega

theorem vis_of_birth_ge (e : Entry α) (cc : Nat) (h : cc ≤ e.birth) : e.vis cc = false := by
  simp [Entry.vis]; intro h'; omega

/-! ## view -/

@[simp] theorem view_nil (cc : Nat) : view cc ([] : List (Entry α)) = [] := rfl

theorem view_cons (cc : Nat) (e : Entry α) (l : List (Entry α)) :
    view cc (e :: l) = if e.vis cc then (e.id, e.cl) :: view cc l else view cc l := by
  unfold view
  by_cases h : e.vis cc = true <;> simp [h]

theorem view_append (cc : Nat) (l₁ l₂ : List (Entry α)) :
    view cc (l₁ ++ l₂) = view cc l₁ ++ view cc l₂ := by
  simp [view, List.filter_append]

/-- a map that keeps address, payload and visibility keeps the view -/
theorem view_map (cc : Nat) (g : Entry α → Entry α) (l : List (Entry α))
    (hid : ∀ e, (g e).id = e.id) (hcl : ∀ e, (g e).cl = e.cl)
    (hv : ∀ e ∈ l, (g e).vis cc = e.vis cc) : view cc (l.map g) = view cc l := by
  induction l with
  | nil => rfl
  | cons e l ih =>
    have h1 := hv e (List.mem_cons_self ..)
    have h2 := ih (fun x hx => hv x (List.mem_cons_of_mem _ hx))
    simp only [List.map_cons, view_cons, h1, h2, hid, hcl]

theorem view_all_new (cc : Nat) (l : List (Entry α)) (h : ∀ e ∈ l, cc ≤ e.birth) :
    view cc l = [] := by
  induction l with
  | nil => rfl
  | cons e l ih =>
    rw [view_cons, vis_of_birth_ge e cc (h e (List.mem_cons_self ..))]
    simpa using ih (fun x hx => h x (List.mem_cons_of_mem _ hx))

/-! ## findLiving -/

theorem findLiving_none (cc : Nat) (l : List (Entry α)) :
    findLiving cc l = none ↔ view cc l = [] := by
  induction l with
  | nil => simp [findLiving]
  | cons e l ih =>
    by_cases h : e.vis cc = true
    · simp [findLiving, view_cons, h]
    · simp [findLiving, view_cons, h, ih]

/-- the scan returns the first visible clause and the chain behind it -/
theorem findLiving_some (cc : Nat) (l : List (Entry α)) (e : Entry α) (rest : List (Entry α))
    (h : findLiving cc l = some (e, rest)) :
    view cc l = (e.id, e.cl) :: view cc rest ∧ ∃ pre, l = pre ++ e :: rest := by
  induction l with
  | nil => simp [findLiving] at h
  | cons x l ih =>
    by_cases hx : x.vis cc = true
    · simp [findLiving, hx] at h
      obtain ⟨rfl, rfl⟩ := h
      exact ⟨by simp [view_cons, hx], [], rfl⟩
    · simp [findLiving, hx] at h
      obtain ⟨h1, pre, h2⟩ := ih h
      exact ⟨by simp [view_cons, hx, h1], x :: pre, by simp [h2]⟩

/-! ## the effect of one update on the chain, as seen from a choice point -/

/-- the entries the update leaves in place are changed by `g`, which keeps address, payload, birth
and everything an older generation can see -/
structure Quiet (clock : Nat) (g : Entry α → Entry α) : Prop where
  id : ∀ e, (g e).id = e.id
  cl : ∀ e, (g e).cl = e.cl
  birth : ∀ e, (g e).birth = e.birth
  vis : ∀ e cc, cc ≤ clock → (g e).vis cc = e.vis cc

theorem quiet_id (clock : Nat) : Quiet (α := α) clock (fun e => e) :=
  ⟨fun _ => rfl, fun _ => rfl, fun _ => rfl, fun _ _ _ => rfl⟩

theorem quiet_kill (clock : Nat) (p : Entry α → Bool) (hp : ∀ e, p e = true → e.live = true) :
    Quiet clock (fun e => if p e then e.kill clock else e) := by
  refine ⟨?_, ?_, ?_, ?_⟩
  · intro e; by_cases h : p e = true <;> simp [h]
  · intro e; by_cases h : p e = true <;> simp [h]
  · intro e; by_cases h : p e = true <;> simp [h]
  · intro e cc hc
    by_cases h : p e = true
    · simp [h, vis_kill e cc clock (hp e h) hc]
    · simp [h]

/-- every update is: change the entries in place quietly, and add new-born entries at the front
and at the back -/
theorem apply_shape (db : DB α) (u : Upd α) :
    ∃ g front back, Quiet db.clock g ∧ (db.apply u).chain = front ++ db.chain.map g ++ back ∧
      (∀ e ∈ front, e.birth = db.clock ∧ e.id = db.next) ∧
      (∀ e ∈ back, e.birth = db.clock ∧ e.id = db.next) := by
  cases u with
  | assertz c =>
    exact ⟨fun e => e, [], [⟨db.next, db.clock, none, c⟩], quiet_id _, by simp [DB.apply],
      by simp, by simp⟩
  | asserta c =>
    exact ⟨fun e => e, [⟨db.next, db.clock, none, c⟩], [], quiet_id _, by simp [DB.apply],
      by simp, by simp⟩
  | retractId id =>
    by_cases h : db.chain.any (targets id) = true
    · refine ⟨_, [], [], quiet_kill db.clock (targets id) ?_, by simp [DB.apply, h], by simp, by simp⟩
      intro e he; simp [targets] at he; exact he.2
    · exact ⟨fun e => e, [], [], quiet_id _, by simp [DB.apply, h], by simp, by simp⟩
  | abolish =>
    exact ⟨_, [], [], quiet_kill db.clock Entry.live (fun _ h => h), by simp [DB.apply], by simp,
      by simp⟩
  | tick => exact ⟨fun e => e, [], [], quiet_id _, by simp [DB.apply], by simp, by simp⟩

theorem clock_le_apply (db : DB α) (u : Upd α) : db.clock ≤ (db.apply u).clock := by
  cases u <;> simp [DB.apply] <;> try split <;> simp

theorem next_le_apply (db : DB α) (u : Upd α) : db.next ≤ (db.apply u).next := by
  cases u <;> simp [DB.apply] <;> try split <;> simp

theorem clock_le_applyAll (db : DB α) (us : List (Upd α)) : db.clock ≤ (db.applyAll us).clock := by
  induction us generalizing db with
  | nil => exact Nat.le_refl _
  | cons u us ih => exact Nat.le_trans (clock_le_apply db u) (ih (db.apply u))

theorem next_le_applyAll (db : DB α) (us : List (Upd α)) : db.next ≤ (db.applyAll us).next := by
  induction us generalizing db with
  | nil => exact Nat.le_refl _
  | cons u us ih => exact Nat.le_trans (next_le_apply db u) (ih (db.apply u))

/-! ## suffixFrom -/

theorem suffixFrom_map (id : Nat) (g : Entry α → Entry α) (hid : ∀ e, (g e).id = e.id)
    (l : List (Entry α)) : suffixFrom id (l.map g) = (suffixFrom id l).map g := by
  induction l with
  | nil => rfl
  | cons e l ih =>
    unfold suffixFrom at *
    by_cases h : e.id = id <;> simp [hid, h, ih]

theorem suffixFrom_skip (id : Nat) (front l : List (Entry α)) (h : ∀ e ∈ front, e.id ≠ id) :
    suffixFrom id (front ++ l) = suffixFrom id l := by
  induction front with
  | nil => rfl
  | cons e f ih =>
    have he : e.id ≠ id := h e (List.mem_cons_self ..)
    have := ih (fun x hx => h x (List.mem_cons_of_mem _ hx))
    unfold suffixFrom at *
    simp [he, this]

theorem suffixFrom_append (id : Nat) (l back : List (Entry α)) :
    suffixFrom id (l ++ back) =
      if suffixFrom id l = [] then suffixFrom id back else suffixFrom id l ++ back := by
  induction l with
  | nil => simp [suffixFrom]
  | cons e l ih =>
    unfold suffixFrom at *
    by_cases h : e.id = id <;> simp [h, ih]

theorem suffixFrom_suffix (id : Nat) (l : List (Entry α)) : ∃ pre, l = pre ++ suffixFrom id l := by
  refine ⟨l.takeWhile (fun e => e.id != id), ?_⟩
  unfold suffixFrom
  exact (List.takeWhile_append_dropWhile).symm

/-- with unique addresses, the chain from the address of `nx` on is the chain from `nx` on -/
theorem suffixFrom_of_nodup (pre : List (Entry α)) (nx : Entry α) (tl : List (Entry α))
    (h : ((pre ++ nx :: tl).map Entry.id).Nodup) : suffixFrom nx.id (pre ++ nx :: tl) = nx :: tl := by
  rw [suffixFrom_skip]
  · simp [suffixFrom]
  · intro e he heq
    rw [List.map_append, List.map_cons] at h
    have := (List.nodup_append.mp h).2.2 e.id (List.mem_map_of_mem he) nx.id (List.mem_cons_self ..)
    exact this heq

/-- **one update, seen from a choice point of generation `cc`**: the clauses still to be delivered
from address `id` on are the same before and after -/
theorem view_suffix_apply (db : DB α) (u : Upd α) (cc id : Nat) (hc : cc ≤ db.clock)
    (hid : id < db.next) :
    view cc (suffixFrom id (db.apply u).chain) = view cc (suffixFrom id db.chain) := by
  obtain ⟨g, front, back, hq, hch, hf, hb⟩ := apply_shape db u
  rw [hch, List.append_assoc, suffixFrom_skip _ _ _ (fun e he h => by
    have := (hf e he).2; omega)]
  rw [suffixFrom_append, suffixFrom_map _ _ hq.id]
  have hback : ∀ l : List (Entry α), (∀ e ∈ l, e ∈ back) → view cc l = [] := fun l hl =>
    view_all_new cc l (fun e he => by have := (hb e (hl e he)).1; omega)
  have hsb : view cc (suffixFrom id back) = [] := by
    obtain ⟨pre, hpre⟩ := suffixFrom_suffix id back
    apply hback
    intro e he; rw [hpre]; exact List.mem_append_right _ he
  have hm : view cc ((suffixFrom id db.chain).map g) = view cc (suffixFrom id db.chain) :=
    view_map cc g _ hq.id hq.cl (fun e _ => hq.vis e cc hc)
  split
  · next h =>
    rw [hsb]
    have : suffixFrom id db.chain = [] := by simpa using h
    simp [this]
  · rw [view_append, hm, hback back (fun _ h => h)]; simp

theorem view_suffix_applyAll (db : DB α) (us : List (Upd α)) (cc id : Nat) (hc : cc ≤ db.clock)
    (hid : id < db.next) :
    view cc (suffixFrom id (db.applyAll us).chain) = view cc (suffixFrom id db.chain) := by
  induction us generalizing db with
  | nil => rfl
  | cons u us ih =>
    have h1 := ih (db.apply u) (Nat.le_trans hc (clock_le_apply db u))
      (Nat.lt_of_lt_of_le hid (next_le_apply db u))
    simp only [DB.applyAll, List.foldl_cons] at h1 ⊢
    rw [h1, view_suffix_apply db u cc id hc hid]


/-! ## the stamps invariant -/

/-- births lie before deaths, all stamps before the clock, addresses are unique and below the
allocation counter -/
structure WF (db : DB α) : Prop where
  birth_lt : ∀ e ∈ db.chain, e.birth < db.clock
  death_ok : ∀ e ∈ db.chain, ∀ d, e.death = some d → e.birth < d ∧ d < db.clock
  id_lt : ∀ e ∈ db.chain, e.id < db.next
  nodup : (db.chain.map Entry.id).Nodup

theorem WF.empty : WF (DB.empty : DB α) :=
  ⟨by simp [DB.empty], by simp [DB.empty], by simp [DB.empty], by simp [DB.empty]⟩

theorem WF.kill (db : DB α) (h : WF db) (p : Entry α → Bool) :
    WF ⟨db.chain.map (fun e => if p e then e.kill db.clock else e), db.clock + 1, db.next⟩ := by
  refine ⟨?_, ?_, ?_, ?_⟩
  · intro e he
    simp only [List.mem_map] at he
    obtain ⟨x, hx, rfl⟩ := he
    have := h.birth_lt x hx
    by_cases hp : p x = true <;> simp [hp] <;> omega
  · intro e he d hd
    simp only [List.mem_map] at he
    obtain ⟨x, hx, rfl⟩ := he
    have hb := h.birth_lt x hx
    by_cases hp : p x = true
    · simp [hp] at hd ⊢
      subst hd
      exact ⟨hb, Nat.lt_succ_self _⟩
    · simp [hp] at hd ⊢
      have := h.death_ok x hx d hd
      omega
  · intro e he
    simp only [List.mem_map] at he
    obtain ⟨x, hx, rfl⟩ := he
    have := h.id_lt x hx
    by_cases hp : p x = true <;> simp [hp] <;> omega
  · have : (db.chain.map (fun e => if p e then e.kill db.clock else e)).map Entry.id
        = db.chain.map Entry.id := by
      rw [List.map_map]
      apply List.map_congr_left
      intro e _
      by_cases hp : p e = true <;> simp [hp]
    simpa [this] using h.nodup

/-- **the stamps invariant is preserved by every operation** -/
theorem WF.apply {db : DB α} (h : WF db) (u : Upd α) : WF (db.apply u) := by
  cases u with
  | assertz c =>
    refine ⟨?_, ?_, ?_, ?_⟩
    · intro e he
      simp only [DB.apply, List.mem_append, List.mem_singleton] at he ⊢
      rcases he with he | rfl
      · have := h.birth_lt e he; omega
      · simp
    · intro e he d hd
      simp only [DB.apply, List.mem_append, List.mem_singleton] at he ⊢
      rcases he with he | rfl
      · have := h.death_ok e he d hd; omega
      · simp at hd
    · intro e he
      simp only [DB.apply, List.mem_append, List.mem_singleton] at he ⊢
      rcases he with he | rfl
      · have := h.id_lt e he; omega
      · simp
    · simp only [DB.apply, List.map_append, List.map_cons, List.map_nil]
      rw [List.nodup_append]
      refine ⟨h.nodup, by simp, ?_⟩
      intro a ha b hb
      simp only [List.mem_map] at ha
      obtain ⟨x, hx, rfl⟩ := ha
      simp only [List.mem_singleton] at hb
      have := h.id_lt x hx; omega
  | asserta c =>
    refine ⟨?_, ?_, ?_, ?_⟩
    · intro e he
      simp only [DB.apply, List.mem_cons] at he ⊢
      rcases he with rfl | he
      · simp
      · have := h.birth_lt e he; omega
    · intro e he d hd
      simp only [DB.apply, List.mem_cons] at he ⊢
      rcases he with rfl | he
      · simp at hd
      · have := h.death_ok e he d hd; omega
    · intro e he
      simp only [DB.apply, List.mem_cons] at he ⊢
      rcases he with rfl | he
      · simp
      · have := h.id_lt e he; omega
    · simp only [DB.apply, List.map_cons]
      rw [List.nodup_cons]
      refine ⟨?_, h.nodup⟩
      intro ha
      simp only [List.mem_map] at ha
      obtain ⟨x, hx, hxe⟩ := ha
      have := h.id_lt x hx; omega
  | retractId id =>
    by_cases ha : db.chain.any (targets id) = true
    · simp only [DB.apply, ha, if_true]
      exact WF.kill db h (targets id)
    · simp only [DB.apply, ha]
      exact h
  | abolish => exact WF.kill db h Entry.live
  | tick =>
    refine ⟨?_, ?_, h.id_lt, h.nodup⟩
    · intro e he; have := h.birth_lt e he; simp [DB.apply]; omega
    · intro e he d hd; have := h.death_ok e he d hd; simp [DB.apply]; omega

theorem WF.applyAll {db : DB α} (h : WF db) (us : List (Upd α)) : WF (db.applyAll us) := by
  induction us generalizing db with
  | nil => exact h
  | cons u us ih => exact ih (h.apply u)


def keyOf (e : Entry α) : Nat × α := (e.id, e.cl)

/-- one retry of the repaired chain walk: the first clause visible to the call's own generation is
delivered; the choice point survives exactly when a later one is visible, and then points at the
instruction following the delivered clause -/
theorem chainNext_fixed (v : Variant) (hv : v.cc = true) (reg : Nat) (f : Frame)
    (l : List (Entry α)) (hne : view f.cc l ≠ []) :
    ∃ e rest, (∃ pre, l = pre ++ e :: rest) ∧ view f.cc l = keyOf e :: view f.cc rest ∧
      (chainNext v reg f l).out = some e ∧ (chainNext v reg f l).stuck = false ∧
      (chainNext v reg f l).cc = f.cc ∧
      ((view f.cc rest = [] ∧ (chainNext v reg f l).frame = none) ∨
       (view f.cc rest ≠ [] ∧ ∃ nx tl, rest = nx :: tl ∧
          (chainNext v reg f l).frame = some ⟨f.cc, nx.id⟩)) := by
  cases hfl : findLiving f.cc l with
  | none => exact absurd ((findLiving_none _ _).mp hfl) hne
  | some p =>
    obtain ⟨e, rest⟩ := p
    obtain ⟨h1, h2⟩ := findLiving_some _ _ _ _ hfl
    refine ⟨e, rest, h2, h1, ?_⟩
    cases rest with
    | nil => simp [chainNext, hv, hfl]
    | cons nx tl =>
      cases hfr : findLiving f.cc (nx :: tl) with
      | none =>
        have := (findLiving_none _ _).mp hfr
        simp [chainNext, hv, hfl, hfr, this]
      | some q =>
        have : view f.cc (nx :: tl) ≠ [] := fun h => by
          rw [(findLiving_none _ _).mpr h] at hfr; cases hfr
        simp [chainNext, hv, hfl, hfr, this]

theorem chainFirst_spec (clock : Nat) (l : List (Entry α)) :
    (view clock l = [] ∧ (chainFirst clock l).out = none) ∨
    ∃ e rest, (∃ pre, l = pre ++ e :: rest) ∧ view clock l = keyOf e :: view clock rest ∧
      (chainFirst clock l).out = some e ∧
      ((view clock rest = [] ∧ (chainFirst clock l).frame = none) ∨
       (view clock rest ≠ [] ∧ ∃ nx tl, rest = nx :: tl ∧
          (chainFirst clock l).frame = some ⟨clock, nx.id⟩)) := by
  cases hfl : findLiving clock l with
  | none => exact Or.inl ⟨(findLiving_none _ _).mp hfl, by simp [chainFirst, hfl]⟩
  | some p =>
    obtain ⟨e, rest⟩ := p
    obtain ⟨h1, h2⟩ := findLiving_some _ _ _ _ hfl
    refine Or.inr ⟨e, rest, h2, h1, ?_⟩
    cases rest with
    | nil => simp [chainFirst, hfl]
    | cons nx tl =>
      cases hfr : findLiving clock (nx :: tl) with
      | none =>
        have := (findLiving_none _ _).mp hfr
        simp [chainFirst, hfl, hfr, this]
      | some q =>
        have : view clock (nx :: tl) ≠ [] := fun h => by
          rw [(findLiving_none _ _).mpr h] at hfr; cases hfr
        simp [chainFirst, hfl, hfr, this]

theorem runChain_none (v : Variant) (db : DB α) (ils : List (Interlude α)) :
    runChain v db none ils = ([], false) := by
  cases ils <;> rfl

theorem runChain_cons (v : Variant) (db : DB α) (f : Frame) (il : Interlude α)
    (ils : List (Interlude α)) :
    runChain v db (some f) (il :: ils) =
      (let db' := db.applyAll il.upds
       let s := chainNext v il.reg f (suffixFrom f.bp db'.chain)
       if s.stuck then ([], true) else
       match s.out with
       | none => ([], false)
       | some e => (e :: (runChain v db' s.frame ils).1, (runChain v db' s.frame ils).2)) := rfl

/-- the repaired chain walk, retried after arbitrary interludes, delivers the clauses that were
visible to the call's generation when the choice point was made -/
theorem runChain_fixed (v : Variant) (hv : v.cc = true) :
    ∀ (ils : List (Interlude α)) (db : DB α) (f : Frame), WF db → f.cc ≤ db.clock →
      f.bp < db.next → view f.cc (suffixFrom f.bp db.chain) ≠ [] →
      (runChain v db (some f) ils).1.map keyOf
          = (view f.cc (suffixFrom f.bp db.chain)).take ils.length ∧
      (runChain v db (some f) ils).2 = false := by
  intro ils
  induction ils with
  | nil => intro db f _ _ _ _; simp [runChain]
  | cons il ils ih =>
    intro db f hwf hcc hbp hne
    have hwf' : WF (db.applyAll il.upds) := hwf.applyAll _
    have hcc' : f.cc ≤ (db.applyAll il.upds).clock := Nat.le_trans hcc (clock_le_applyAll _ _)
    have hview := view_suffix_applyAll db il.upds f.cc f.bp hcc hbp
    rw [← hview] at hne ⊢
    obtain ⟨e, rest, ⟨pre, hpre⟩, hv1, hout, hst, _, hfr⟩ :=
      chainNext_fixed v hv il.reg f _ hne
    rw [runChain_cons]
    simp only [hst, hout]
    rcases hfr with ⟨hr, hf⟩ | ⟨hr, nx, tl, hrest, hf⟩
    · simp [hf, runChain_none, hv1, hr]
    · obtain ⟨pre0, hpre0⟩ := suffixFrom_suffix f.bp (db.applyAll il.upds).chain
      have hchain : (db.applyAll il.upds).chain = (pre0 ++ pre ++ [e]) ++ nx :: tl := by
        rw [hpre0, hpre, hrest]; simp
      have hsuf : suffixFrom nx.id (db.applyAll il.upds).chain = nx :: tl := by
        rw [hchain]; apply suffixFrom_of_nodup; rw [← hchain]; exact hwf'.nodup
      have hnx : nx.id < (db.applyAll il.upds).next := by
        apply hwf'.id_lt; rw [hchain]; simp
      have := ih (db.applyAll il.upds) ⟨f.cc, nx.id⟩ hwf' hcc' hnx (by simpa [hsuf, ← hrest] using hr)
      simp only [hsuf] at this
      rw [hf]
      simp [this.1, this.2, hv1, hrest]

/-- **frozen view, chain walk.** A call through the chain of `DynamicElse` instructions, backtracked
into after arbitrary interludes, delivers the clauses of its own snapshot, in order. -/
theorem callChain_fixed (v : Variant) (hv : v.cc = true) (db : DB α) (hwf : WF db)
    (ils : List (Interlude α)) :
    (callChain v db ils).1.map keyOf = db.snapshot.take (ils.length + 1) ∧
    (callChain v db ils).2 = false := by
  unfold callChain DB.snapshot
  rcases chainFirst_spec db.clock db.chain with ⟨h0, hout⟩ | ⟨e, rest, ⟨pre, hpre⟩, hv1, hout, hfr⟩
  · simp [hout, h0]
  · simp only [hout]
    rcases hfr with ⟨hr, hf⟩ | ⟨hr, nx, tl, hrest, hf⟩
    · simp [hf, runChain_none, hv1, hr]
    · have hchain : db.chain = (pre ++ [e]) ++ nx :: tl := by rw [hpre, hrest]; simp
      have hsuf : suffixFrom nx.id db.chain = nx :: tl := by
        rw [hchain]; apply suffixFrom_of_nodup; rw [← hchain]; exact hwf.nodup
      have hnx : nx.id < db.next := by apply hwf.id_lt; rw [hchain]; simp
      have := runChain_fixed v hv ils db ⟨db.clock, nx.id⟩ hwf (Nat.le_refl _) hnx
        (by simpa [hsuf, ← hrest] using hr)
      simp only [hsuf] at this
      rw [hf]
      simp [this.1, this.2, hv1, hrest]

/-! ## walking a DynamicIndexedChoice line -/

/-- the line without the clauses `asserta` pushed onto its front after generation `cc` -/
def core (cc : Nat) (l : List (Entry α)) : List (Entry α) :=
  l.dropWhile (fun e => decide (cc ≤ e.birth))

theorem drop_lead (cc n : Nat) (l : List (Entry α)) :
    l.drop (n + lead cc l) = (core cc l).drop n := by
  induction l with
  | nil => simp [lead, core]
  | cons e es ih =>
    by_cases h : cc ≤ e.birth
    · simp only [lead, h, if_true, core, List.dropWhile_cons, decide_true]
      rw [← Nat.add_assoc, List.drop_succ_cons]
      exact ih
    · simp [lead, h, core, List.dropWhile_cons]

theorem view_core (cc : Nat) (l : List (Entry α)) : view cc (core cc l) = view cc l := by
  induction l with
  | nil => rfl
  | cons e es ih =>
    by_cases h : cc ≤ e.birth
    · simp only [core, List.dropWhile_cons, h, decide_true, if_true, view_cons,
        vis_of_birth_ge e cc h]
      simpa [core] using ih
    · simp [core, List.dropWhile_cons, h]

theorem core_all_new (cc : Nat) (l : List (Entry α)) (h : ∀ e ∈ l, cc ≤ e.birth) :
    core cc l = [] := by
  induction l with
  | nil => rfl
  | cons e es ih =>
    have he := h e (List.mem_cons_self ..)
    simp only [core, List.dropWhile_cons, he, decide_true, if_true]
    exact ih (fun x hx => h x (List.mem_cons_of_mem _ hx))

theorem core_front (cc : Nat) (front l : List (Entry α)) (h : ∀ e ∈ front, cc ≤ e.birth) :
    core cc (front ++ l) = core cc l := by
  induction front with
  | nil => rfl
  | cons e f ih =>
    have he := h e (List.mem_cons_self ..)
    simp only [core, List.cons_append, List.dropWhile_cons, he, decide_true, if_true]
    exact ih (fun x hx => h x (List.mem_cons_of_mem _ hx))

theorem view_sublist_new (cc : Nat) (back : List (Entry α)) (h : ∀ e ∈ back, cc ≤ e.birth)
    (n : Nat) : view cc (back.drop n) = [] :=
  view_all_new cc _ (fun e he => h e (List.mem_of_mem_drop he))

theorem core_back_nil (cc : Nat) (l back : List (Entry α)) (h : ∀ e ∈ back, cc ≤ e.birth)
    (hl : core cc l = []) : core cc (l ++ back) = [] := by
  induction l with
  | nil => simpa using core_all_new cc back h
  | cons e es ih =>
    by_cases he : cc ≤ e.birth
    · simp only [core, List.dropWhile_cons, he, decide_true, if_true, List.cons_append] at hl ⊢
      exact ih hl
    · simp [core, he] at hl

theorem core_back_ne (cc : Nat) (l back : List (Entry α)) (hl : core cc l ≠ []) :
    core cc (l ++ back) = core cc l ++ back := by
  induction l with
  | nil => simp [core] at hl
  | cons e es ih =>
    by_cases he : cc ≤ e.birth
    · simp only [core, List.dropWhile_cons, he, decide_true, if_true, List.cons_append] at hl ⊢
      exact ih hl
    · simp [core, he]

theorem view_drop_append_new (cc : Nat) (a back : List (Entry α)) (h : ∀ e ∈ back, cc ≤ e.birth)
    (n : Nat) : view cc ((a ++ back).drop n) = view cc (a.drop n) := by
  induction a generalizing n with
  | nil => simpa using view_sublist_new cc back h n
  | cons x a ih =>
    cases n with
    | zero =>
      have := view_append cc (x :: a) back
      simp only [List.cons_append] at this
      simp [this, view_all_new cc back h]
    | succ n => simpa using ih n

theorem core_map (cc : Nat) (g : Entry α → Entry α) (hb : ∀ e, (g e).birth = e.birth)
    (l : List (Entry α)) : core cc (l.map g) = (core cc l).map g := by
  induction l with
  | nil => rfl
  | cons e es ih =>
    by_cases he : cc ≤ e.birth
    · simpa [core, List.dropWhile_cons, he, hb] using ih
    · simp [core, List.dropWhile_cons, he, hb]

/-- one update, seen from a choice point of generation `cc` walking the line of the clauses selected
by `sel`: the clauses still to be delivered behind relative position `n` are the same -/
theorem view_line_apply (db : DB α) (u : Upd α) (sel : α → Bool) (cc n : Nat) (hc : cc ≤ db.clock) :
    view cc ((core cc ((db.apply u).chain.filter (fun e => sel e.cl))).drop n)
      = view cc ((core cc (db.chain.filter (fun e => sel e.cl))).drop n) := by
  obtain ⟨g, front, back, hq, hch, hf, hb⟩ := apply_shape db u
  have hfm : (db.chain.map g).filter (fun e => sel e.cl)
      = (db.chain.filter (fun e => sel e.cl)).map g := by
    rw [List.filter_map]
    congr 1
    apply List.filter_congr
    intro e _
    simp [Function.comp, hq.cl]
  rw [hch, List.filter_append, List.filter_append, hfm, List.append_assoc,
    core_front _ _ _ (fun e he => by have := (hf e (List.mem_filter.mp he).1).1; omega)]
  have hbn : ∀ e ∈ back.filter (fun e => sel e.cl), cc ≤ e.birth :=
    fun e he => by have := (hb e (List.mem_filter.mp he).1).1; omega
  by_cases h : core cc (db.chain.filter (fun e => sel e.cl)) = []
  · have h' : core cc ((db.chain.filter (fun e => sel e.cl)).map g) = [] := by
      rw [core_map _ _ hq.birth, h]; rfl
    rw [core_back_nil _ _ _ hbn h', h]
  · have h' : core cc ((db.chain.filter (fun e => sel e.cl)).map g) ≠ [] := by
      rw [core_map _ _ hq.birth]; simpa using h
    rw [core_back_ne _ _ _ h', view_drop_append_new _ _ _ hbn, core_map _ _ hq.birth,
      ← List.map_drop]
    exact view_map cc g _ hq.id hq.cl (fun e _ => hq.vis e cc hc)

theorem view_line_applyAll (db : DB α) (us : List (Upd α)) (sel : α → Bool) (cc n : Nat)
    (hc : cc ≤ db.clock) :
    view cc ((core cc ((db.applyAll us).chain.filter (fun e => sel e.cl))).drop n)
      = view cc ((core cc (db.chain.filter (fun e => sel e.cl))).drop n) := by
  induction us generalizing db with
  | nil => rfl
  | cons u us ih =>
    have h1 := ih (db.apply u) (Nat.le_trans hc (clock_le_apply db u))
    simp only [DB.applyAll, List.foldl_cons] at h1 ⊢
    rw [h1, view_line_apply db u sel cc n hc]

theorem findLivingIdx_none (cc : Nat) (l : List (Entry α)) (ii : Nat) :
    findLivingIdx cc l ii = none ↔ view cc l = [] := by
  induction l generalizing ii with
  | nil => simp [findLivingIdx]
  | cons e l ih =>
    by_cases h : e.vis cc = true
    · simp [findLivingIdx, view_cons, h]
    · simp [findLivingIdx, view_cons, h, ih]

theorem findLivingIdx_some (cc : Nat) (l : List (Entry α)) (ii : Nat) (e : Entry α) (jj : Nat)
    (h : findLivingIdx cc l ii = some (e, jj)) :
    ii ≤ jj ∧ view cc l = keyOf e :: view cc (l.drop (jj - ii + 1)) := by
  induction l generalizing ii with
  | nil => simp [findLivingIdx] at h
  | cons x l ih =>
    by_cases hx : x.vis cc = true
    · simp [findLivingIdx, hx] at h
      obtain ⟨rfl, rfl⟩ := h
      simp [view_cons, hx, keyOf]
    · simp [findLivingIdx, hx] at h
      obtain ⟨h1, h2⟩ := ih (ii + 1) h
      refine ⟨by omega, ?_⟩
      have : jj - ii + 1 = (jj - (ii + 1) + 1) + 1 := by omega
      rw [this, List.drop_succ_cons]
      simp [view_cons, hx, h2]

theorem findLivingAt_none (cc : Nat) (line : List (Entry α)) (ii : Nat) :
    findLivingAt cc line ii = none ↔ view cc (line.drop ii) = [] :=
  findLivingIdx_none cc _ ii

theorem findLivingAt_some (cc : Nat) (line : List (Entry α)) (ii : Nat) (e : Entry α) (jj : Nat)
    (h : findLivingAt cc line ii = some (e, jj)) :
    ii ≤ jj ∧ view cc (line.drop ii) = keyOf e :: view cc (line.drop (jj + 1)) := by
  obtain ⟨h1, h2⟩ := findLivingIdx_some cc _ ii e jj h
  refine ⟨h1, ?_⟩
  have e1 : ii + (jj - ii + 1) = jj + 1 := by omega
  rw [h2, List.drop_drop]
  simp [e1]

/-- one retry of the repaired line walk -/
theorem lineNext_fixed (v : Variant) (hv : v.cc = true) (hi : v.idx = true) (reg : Nat) (f : BFrame)
    (line : List (Entry α)) (hne : view f.cc ((core f.cc line).drop f.biip) ≠ []) :
    ∃ e m, view f.cc ((core f.cc line).drop f.biip) = keyOf e :: view f.cc ((core f.cc line).drop m) ∧
      (lineNext v reg f line).out = some e ∧ (lineNext v reg f line).stuck = false ∧
      ((view f.cc ((core f.cc line).drop m) = [] ∧ (lineNext v reg f line).frame = none) ∨
       (view f.cc ((core f.cc line).drop m) ≠ [] ∧
          (lineNext v reg f line).frame = some ⟨f.cc, m⟩)) := by
  rw [← drop_lead] at hne
  cases hfl : findLivingAt f.cc line (f.biip + lead f.cc line) with
  | none => exact absurd ((findLivingAt_none _ _ _).mp hfl) hne
  | some p =>
    obtain ⟨e, jj⟩ := p
    obtain ⟨h1, h2⟩ := findLivingAt_some _ _ _ _ _ hfl
    have hm : jj + 1 = (jj + 1 - lead f.cc line) + lead f.cc line := by omega
    refine ⟨e, jj + 1 - lead f.cc line, ?_, ?_⟩
    · rw [← drop_lead, ← drop_lead, ← hm]; exact h2
    · rw [← drop_lead, ← hm]
      cases hfr : findLivingAt f.cc line (jj + 1) with
      | none =>
        have := (findLivingAt_none _ _ _).mp hfr
        simp [lineNext, hv, hi, hfl, hfr, this]
      | some q =>
        have : view f.cc (line.drop (jj + 1)) ≠ [] := fun h => by
          rw [(findLivingAt_none _ _ _).mpr h] at hfr; cases hfr
        simp [lineNext, hv, hi, hfl, hfr, this]

theorem lineFirst_spec (v : Variant) (hi : v.idx = true) (clock : Nat) (line : List (Entry α)) :
    (view clock line = [] ∧ (lineFirst v clock line).out = none) ∨
    ∃ e m, view clock line = keyOf e :: view clock ((core clock line).drop m) ∧
      (lineFirst v clock line).out = some e ∧
      ((view clock ((core clock line).drop m) = [] ∧ (lineFirst v clock line).frame = none) ∨
       (view clock ((core clock line).drop m) ≠ [] ∧
          (lineFirst v clock line).frame = some ⟨clock, m⟩)) := by
  have hv0 : view clock (line.drop (lead clock line)) = view clock line := by
    have := drop_lead clock 0 line
    simp only [Nat.zero_add, List.drop_zero] at this
    rw [this, view_core]
  cases hfl : findLivingAt clock line (lead clock line) with
  | none =>
    refine Or.inl ⟨?_, by simp [lineFirst, hi, hfl]⟩
    rw [← hv0]; exact (findLivingAt_none _ _ _).mp hfl
  | some p =>
    obtain ⟨e, jj⟩ := p
    obtain ⟨h1, h2⟩ := findLivingAt_some _ _ _ _ _ hfl
    have hm : jj + 1 = (jj + 1 - lead clock line) + lead clock line := by omega
    refine Or.inr ⟨e, jj + 1 - lead clock line, ?_, ?_⟩
    · rw [← drop_lead, ← hm, ← hv0]; exact h2
    · rw [← drop_lead, ← hm]
      cases hfr : findLivingAt clock line (jj + 1) with
      | none =>
        have := (findLivingAt_none _ _ _).mp hfr
        simp [lineFirst, hi, hfl, hfr, this]
      | some q =>
        have : view clock (line.drop (jj + 1)) ≠ [] := fun h => by
          rw [(findLivingAt_none _ _ _).mpr h] at hfr; cases hfr
        simp [lineFirst, hi, hfl, hfr, this]

theorem runLine_none (v : Variant) (sel : α → Bool) (db : DB α) (ils : List (Interlude α)) :
    runLine v sel db none ils = ([], false) := by
  cases ils <;> rfl

theorem runLine_cons (v : Variant) (sel : α → Bool) (db : DB α) (f : BFrame) (il : Interlude α)
    (ils : List (Interlude α)) :
    runLine v sel db (some f) (il :: ils) =
      (let db' := db.applyAll il.upds
       let s := lineNext v il.reg f (db'.chain.filter (fun e => sel e.cl))
       if s.stuck then ([], true) else
       match s.out with
       | none => ([], false)
       | some e => (e :: (runLine v sel db' s.frame ils).1, (runLine v sel db' s.frame ils).2)) := rfl

theorem runLine_fixed (v : Variant) (hv : v.cc = true) (hi : v.idx = true) (sel : α → Bool) :
    ∀ (ils : List (Interlude α)) (db : DB α) (f : BFrame), f.cc ≤ db.clock →
      view f.cc ((core f.cc (db.chain.filter (fun e => sel e.cl))).drop f.biip) ≠ [] →
      (runLine v sel db (some f) ils).1.map keyOf
          = (view f.cc ((core f.cc (db.chain.filter (fun e => sel e.cl))).drop f.biip)).take
              ils.length ∧
      (runLine v sel db (some f) ils).2 = false := by
  intro ils
  induction ils with
  | nil => intro db f _ _; simp [runLine]
  | cons il ils ih =>
    intro db f hcc hne
    have hcc' : f.cc ≤ (db.applyAll il.upds).clock := Nat.le_trans hcc (clock_le_applyAll _ _)
    have hview := view_line_applyAll db il.upds sel f.cc f.biip hcc
    rw [← hview] at hne ⊢
    obtain ⟨e, m, hv1, hout, hst, hfr⟩ := lineNext_fixed v hv hi il.reg f _ hne
    rw [runLine_cons]
    simp only [hst, hout]
    rcases hfr with ⟨hr, hf⟩ | ⟨hr, hf⟩
    · simp [hf, runLine_none, hv1, hr]
    · have := ih (db.applyAll il.upds) ⟨f.cc, m⟩ hcc' hr
      rw [hf]
      simp [this.1, this.2, hv1]

theorem view_filter (cc : Nat) (sel : α → Bool) (l : List (Entry α)) :
    view cc (l.filter (fun e => sel e.cl)) = (view cc l).filter (fun p => sel p.2) := by
  induction l with
  | nil => rfl
  | cons e l ih =>
    by_cases hs : sel e.cl = true <;> by_cases hv : e.vis cc = true <;>
      simp [List.filter_cons, view_cons, hs, hv, ih]

/-- **frozen view, index line walk.** -/
theorem callLine_fixed (v : Variant) (hv : v.cc = true) (hi : v.idx = true) (sel : α → Bool)
    (db : DB α) (ils : List (Interlude α)) :
    (callLine v sel db ils).1.map keyOf
        = (db.snapshot.filter (fun p => sel p.2)).take (ils.length + 1) ∧
    (callLine v sel db ils).2 = false := by
  unfold callLine DB.snapshot
  rw [← view_filter]
  rcases lineFirst_spec v hi db.clock (db.chain.filter (fun e => sel e.cl)) with
    ⟨h0, hout⟩ | ⟨e, m, hv1, hout, hfr⟩
  · simp [hout, h0]
  · simp only [hout]
    rcases hfr with ⟨hr, hf⟩ | ⟨hr, hf⟩
    · simp [hf, runLine_none, hv1, hr]
    · have := runLine_fixed v hv hi sel ils db ⟨db.clock, m⟩ (Nat.le_refl _) hr
      rw [hf]
      simp [this.1, this.2, hv1]


/-! ## refinement to the stamp-free list -/

theorem vis_clock_eq_live {db : DB α} (h : WF db) (e : Entry α) (he : e ∈ db.chain) :
    e.vis db.clock = e.live := by
  have hb := h.birth_lt e he
  have hd := h.death_ok e he
  cases e with
  | mk id b d cl =>
    cases d with
    | none => simp [Entry.vis, Entry.live] at hb ⊢; exact hb
    | some d =>
      have := (hd d rfl).2
      simp [Entry.vis, Entry.live] at this ⊢
      intro _; omega

/-- under the stamps invariant a call starting now sees exactly the clauses not yet retracted -/
theorem snapshot_eq_liveList {db : DB α} (h : WF db) : db.snapshot = db.liveList := by
  unfold DB.snapshot DB.liveList view
  congr 1
  apply List.filter_congr
  intro e he
  exact vis_clock_eq_live h e he

theorem live_kill_filter (id clock : Nat) (l : List (Entry α)) :
    ((l.map (fun e => if targets id e then e.kill clock else e)).filter Entry.live).map
        (fun e => (e.id, e.cl))
      = (((l.filter Entry.live).map (fun e => (e.id, e.cl))).filter (fun p => p.1 != id)) := by
  induction l with
  | nil => rfl
  | cons e l ih =>
    by_cases ht : targets id e = true
    · have hl : e.live = true := by simp [targets] at ht; exact ht.2
      have hi : e.id = id := by simp [targets] at ht; exact ht.1
      have hk : (e.kill clock).live = false := rfl
      simp [ht, hk, hl, hi, ih]
    · by_cases hl : e.live = true
      · have hi : e.id ≠ id := fun h => ht (by simp [targets, h, hl])
        simp [ht, hl, hi, ih]
      · simp [ht, hl, ih]

theorem live_no_target (id : Nat) (l : List (Entry α)) (h : l.any (targets id) = false) :
    (((l.filter Entry.live).map (fun e => (e.id, e.cl))).filter (fun p => p.1 != id))
      = (l.filter Entry.live).map (fun e => (e.id, e.cl)) := by
  induction l with
  | nil => rfl
  | cons e l ih =>
    simp only [List.any_cons, Bool.or_eq_false_iff] at h
    by_cases hl : e.live = true
    · have : e.id ≠ id := by
        intro hi; have := h.1; simp [targets, hi, hl] at this
      simp [List.filter_cons, hl, this, ih h.2]
    · simp [List.filter_cons, hl, ih h.2]

theorem live_abolish (clock : Nat) (l : List (Entry α)) :
    (l.map (fun e => if e.live then e.kill clock else e)).filter Entry.live = [] := by
  induction l with
  | nil => rfl
  | cons e l ih =>
    by_cases hl : e.live = true
    · have hk : (e.kill clock).live = false := rfl
      simp [hl, hk, ih]
    · simp [hl, ih]

/-- the clause store after an update is the plain-list update of the clause store before -/
theorem liveList_apply (db : DB α) (u : Upd α) :
    (db.apply u).liveList = ((⟨db.liveList, db.next⟩ : Spec α).apply u).cls ∧
    (db.apply u).next = ((⟨db.liveList, db.next⟩ : Spec α).apply u).next := by
  cases u with
  | assertz c =>
    have hn : (⟨db.next, db.clock, none, c⟩ : Entry α).live = true := rfl
    refine ⟨?_, rfl⟩
    simp [DB.apply, DB.liveList, Spec.apply, List.filter_append, List.filter_cons, hn]
  | asserta c =>
    have hn : (⟨db.next, db.clock, none, c⟩ : Entry α).live = true := rfl
    refine ⟨?_, rfl⟩
    simp [DB.apply, DB.liveList, Spec.apply, List.filter_cons, hn]
  | retractId id =>
    by_cases ha : db.chain.any (targets id) = true
    · refine ⟨?_, ?_⟩
      · simp only [DB.apply, ha, if_true, DB.liveList, Spec.apply]
        exact live_kill_filter id db.clock db.chain
      · simp [DB.apply, ha, Spec.apply]
    · have hf : db.chain.any (targets id) = false := by simpa using ha
      refine ⟨?_, ?_⟩
      · simp only [DB.apply, ha, DB.liveList, Spec.apply]
        exact (live_no_target id db.chain hf).symm
      · simp [DB.apply, ha, Spec.apply]
  | abolish =>
    refine ⟨?_, rfl⟩
    simp [DB.apply, DB.liveList, Spec.apply, live_abolish]
  | tick => exact ⟨rfl, rfl⟩

theorem spec_apply {db : DB α} (h : WF db) (u : Upd α) : (db.apply u).spec = db.spec.apply u := by
  have h1 := liveList_apply db u
  have h2 := snapshot_eq_liveList (h.apply u)
  have h3 := snapshot_eq_liveList h
  unfold DB.spec
  rw [h2, h3]
  cases hs : (⟨db.liveList, db.next⟩ : Spec α).apply u with
  | mk cls next =>
    rw [hs] at h1
    simp [h1.1, h1.2]

theorem spec_applyAll {db : DB α} (h : WF db) (us : List (Upd α)) :
    (db.applyAll us).spec = db.spec.applyAll us := by
  induction us generalizing db with
  | nil => rfl
  | cons u us ih =>
    simp only [DB.applyAll, Spec.applyAll, List.foldl_cons]
    have := ih (h.apply u)
    simp only [DB.applyAll, Spec.applyAll] at this
    rw [this, spec_apply h u]

/-! ## retract -/

theorem retractRun_one (db : DB α) (p : Nat × α) (ils : List (Interlude α)) :
    retractRun db [p] ils = ([p], db.apply (.retractId p.1)) := by
  cases ils <;> rfl

theorem retractRun_last (db : DB α) (p q : Nat × α) (qs : List (Nat × α)) :
    retractRun db (p :: q :: qs) [] = ([p], db.apply (.retractId p.1)) := rfl

theorem retractRun_more (db : DB α) (p q : Nat × α) (qs : List (Nat × α)) (il : Interlude α)
    (ils : List (Interlude α)) :
    retractRun db (p :: q :: qs) (il :: ils) =
      (p :: (retractRun ((db.apply (.retractId p.1)).applyAll il.upds) (q :: qs) ils).1,
       (retractRun ((db.apply (.retractId p.1)).applyAll il.upds) (q :: qs) ils).2) := rfl

theorem retractRun_solutions (ps : List (Nat × α)) :
    ∀ (db : DB α) (ils : List (Interlude α)),
      (retractRun db ps ils).1 = ps.take (ils.length + 1) := by
  induction ps with
  | nil => intro db ils; simp [retractRun]
  | cons p ps ih =>
    intro db ils
    cases ps with
    | nil => simp [retractRun_one]
    | cons q qs =>
      cases ils with
      | nil => simp [retractRun_last]
      | cons il ils =>
        rw [retractRun_more]
        simp only [List.length_cons, List.take_succ_cons]
        rw [ih]
        simp

theorem snapshot_ids_nodup {db : DB α} (h : WF db) : (db.snapshot.map Prod.fst).Nodup := by
  have : db.snapshot.map Prod.fst = (db.chain.filter (Entry.vis db.clock)).map Entry.id := by
    simp [DB.snapshot, view, List.map_map, Function.comp]
  rw [this]
  exact List.Nodup.sublist ((List.filter_sublist).map _) h.nodup

theorem filter_ne_of_nodup (pre post : List (Nat × α)) (p : Nat × α)
    (h : ((pre ++ p :: post).map Prod.fst).Nodup) :
    (pre ++ p :: post).filter (fun q => q.1 != p.1) = pre ++ post := by
  rw [List.map_append, List.map_cons, List.nodup_append] at h
  obtain ⟨_, h2, h3⟩ := h
  rw [List.nodup_cons] at h2
  rw [List.filter_append, List.filter_cons]
  simp only [bne_self_eq_false, Bool.false_eq_true, if_false]
  congr 1
  · apply List.filter_eq_self.mpr
    intro q hq
    have := h3 q.1 (List.mem_map_of_mem hq) p.1 (List.mem_cons_self ..)
    simpa using this
  · apply List.filter_eq_self.mpr
    intro q hq
    have : q.1 ≠ p.1 := fun he => h2.1 (he ▸ List.mem_map_of_mem hq)
    simpa using this

/-- one update does not change what an older generation sees of the whole chain -/
theorem view_apply (db : DB α) (u : Upd α) (cc : Nat) (hc : cc ≤ db.clock) :
    view cc (db.apply u).chain = view cc db.chain := by
  obtain ⟨g, front, back, hq, hch, hf, hb⟩ := apply_shape db u
  rw [hch, view_append, view_append,
    view_all_new cc front (fun e he => by have := (hf e he).1; omega),
    view_all_new cc back (fun e he => by have := (hb e he).1; omega),
    view_map cc g _ hq.id hq.cl (fun e _ => hq.vis e cc hc)]
  simp

theorem view_applyAll (db : DB α) (us : List (Upd α)) (cc : Nat) (hc : cc ≤ db.clock) :
    view cc (db.applyAll us).chain = view cc db.chain := by
  induction us generalizing db with
  | nil => rfl
  | cons u us ih =>
    have h1 := ih (db.apply u) (Nat.le_trans hc (clock_le_apply db u))
    simp only [DB.applyAll, List.foldl_cons] at h1 ⊢
    rw [h1, view_apply db u cc hc]

end Scryer.Luv
