import ScryerModel.Model.Luv
/-! Lemmas for property C09 (logical update view). -/
namespace Scryer.Luv

variable {α : Type}

/-! ## visibility -/

@[simp] theorem kill_id (e : Entry α) (c : Nat) : (e.kill c).id = e.id := rfl
@[simp] theorem kill_cl (e : Entry α) (c : Nat) : (e.kill c).cl = e.cl := rfl
@[simp] theorem kill_birth (e : Entry α) (c : Nat) : (e.kill c).birth = e.birth := rfl
@[simp] theorem kill_death (e : Entry α) (c : Nat) : (e.kill c).death = some c := rfl

/-- stamping a live clause dead at `clock` does not change what generations `cc ≤ clock` see -/
theorem vis_kill (e : Entry α) (cc clock : Nat) (hl : e.live = true) (hc : cc ≤ clock) :
    (e.kill clock).vis cc = e.vis cc := by
  cases e with
  | mk id b d cl =>
    cases d with
    | none => by_cases hb : b < cc <;> simp [Entry.vis, Entry.kill, hc, hb]
    | some d => simp [Entry.live] at hl

theorem vis_new (id clock cc : Nat) (c : α) (hc : cc ≤ clock) :
    (⟨id, clock, none, c⟩ : Entry α).vis cc = false := by
  simp [Entry.vis]; omega

theorem vis_of_birth_ge (e : Entry α) (cc : Nat) (h : cc ≤ e.birth) : e.vis cc = false := by
  simp [Entry.vis]; intro h'; omega

/-! ## view -/

@[simp] theorem view_nil (cc : Nat) : view cc ([] : List (Entry α)) = [] := rfl

theorem view_cons (cc : Nat) (e : Entry α) (l : List (Entry α)) :
    view cc (e :: l) = if e.vis cc then (e.id, e.cl) :: view cc l else view cc l := by
  unfold view
  by_cases h : e.vis cc = true <;> simp [h]

theorem view_append (cc : Nat) (l₁ l₂ : List (Entry α)) :
    view cc (l₁ ++ l₂) = view cc l₁ ++ view cc l₂ := by
  simp [view, List.filter_append]

/-- a map that keeps address, payload and visibility keeps the view -/
theorem view_map (cc : Nat) (g : Entry α → Entry α) (l : List (Entry α))
    (hid : ∀ e, (g e).id = e.id) (hcl : ∀ e, (g e).cl = e.cl)
    (hv : ∀ e ∈ l, (g e).vis cc = e.vis cc) : view cc (l.map g) = view cc l := by
  induction l with
  | nil => rfl
  | cons e l ih =>
    have h1 := hv e (List.mem_cons_self ..)
    have h2 := ih (fun x hx => hv x (List.mem_cons_of_mem _ hx))
    simp only [List.map_cons, view_cons, h1, h2, hid, hcl]

theorem view_all_new (cc : Nat) (l : List (Entry α)) (h : ∀ e ∈ l, cc ≤ e.birth) :
    view cc l = [] := by
  induction l with
  | nil => rfl
  | cons e l ih =>
    rw [view_cons, vis_of_birth_ge e cc (h e (List.mem_cons_self ..))]
    simpa using ih (fun x hx => h x (List.mem_cons_of_mem _ hx))

/-! ## findLiving -/

theorem findLiving_none (cc : Nat) (l : List (Entry α)) :
    findLiving cc l = none ↔ view cc l = [] := by
  induction l with
  | nil => simp [findLiving]
  | cons e l ih =>
    by_cases h : e.vis cc = true
    · simp [findLiving, view_cons, h]
    · simp [findLiving, view_cons, h, ih]

/-- the scan returns the first visible clause and the chain behind it -/
theorem findLiving_some (cc : Nat) (l : List (Entry α)) (e : Entry α) (rest : List (Entry α))
    (h : findLiving cc l = some (e, rest)) :
    view cc l = (e.id, e.cl) :: view cc rest ∧ ∃ pre, l = pre ++ e :: rest := by
  induction l with
  | nil => simp [findLiving] at h
  | cons x l ih =>
    by_cases hx : x.vis cc = true
    · simp [findLiving, hx] at h
      obtain ⟨rfl, rfl⟩ := h
      exact ⟨by simp [view_cons, hx], [], rfl⟩
    · simp [findLiving, hx] at h
      obtain ⟨h1, pre, h2⟩ := ih h
      exact ⟨by simp [view_cons, hx, h1], x :: pre, by simp [h2]⟩

/-! ## the effect of one update on the chain, as seen from a choice point -/

/-- the entries the update leaves in place are changed by `g`, which keeps address, payload, birth
and everything an older generation can see -/
structure Quiet (clock : Nat) (g : Entry α → Entry α) : Prop where
  id : ∀ e, (g e).id = e.id
  cl : ∀ e, (g e).cl = e.cl
  birth : ∀ e, (g e).birth = e.birth
  vis : ∀ e cc, cc ≤ clock → (g e).vis cc = e.vis cc

theorem quiet_id (clock : Nat) : Quiet (α := α) clock (fun e => e) :=
  ⟨fun _ => rfl, fun _ => rfl, fun _ => rfl, fun _ _ _ => rfl⟩

theorem quiet_kill (clock : Nat) (p : Entry α → Bool) (hp : ∀ e, p e = true → e.live = true) :
    Quiet clock (fun e => if p e then e.kill clock else e) := by
  refine ⟨?_, ?_, ?_, ?_⟩
  · intro e; by_cases h : p e = true <;> simp [h]
  · intro e; by_cases h : p e = true <;> simp [h]
  · intro e; by_cases h : p e = true <;> simp [h]
  · intro e cc hc
    by_cases h : p e = true
    · simp [h, vis_kill e cc clock (hp e h) hc]
    · simp [h]

/-- every update is: change the entries in place quietly, and add new-born entries at the front
and at the back -/
theorem apply_shape (db : DB α) (u : Upd α) :
    ∃ g front back, Quiet db.clock g ∧ (db.apply u).chain = front ++ db.chain.map g ++ back ∧
      (∀ e ∈ front, e.birth = db.clock ∧ e.id = db.next) ∧
      (∀ e ∈ back, e.birth = db.clock ∧ e.id = db.next) := by
  cases u with
  | assertz c =>
    exact ⟨fun e => e, [], [⟨db.next, db.clock, none, c⟩], quiet_id _, by simp [DB.apply],
      by simp, by simp⟩
  | asserta c =>
    exact ⟨fun e => e, [⟨db.next, db.clock, none, c⟩], [], quiet_id _, by simp [DB.apply],
      by simp, by simp⟩
  | retractId id =>
    by_cases h : db.chain.any (targets id) = true
    · refine ⟨_, [], [], quiet_kill db.clock (targets id) ?_, by simp [DB.apply, h], by simp, by simp⟩
      intro e he; simp [targets] at he; exact he.2
    · exact ⟨fun e => e, [], [], quiet_id _, by simp [DB.apply, h], by simp, by simp⟩
  | abolish =>
    exact ⟨_, [], [], quiet_kill db.clock Entry.live (fun _ h => h), by simp [DB.apply], by simp,
      by simp⟩
  | tick => exact ⟨fun e => e, [], [], quiet_id _, by simp [DB.apply], by simp, by simp⟩

theorem clock_le_apply (db : DB α) (u : Upd α) : db.clock ≤ (db.apply u).clock := by
  cases u <;> simp [DB.apply] <;> try split <;> simp

theorem next_le_apply (db : DB α) (u : Upd α) : db.next ≤ (db.apply u).next := by
  cases u <;> simp [DB.apply] <;> try split <;> simp

theorem clock_le_applyAll (db : DB α) (us : List (Upd α)) : db.clock ≤ (db.applyAll us).clock := by
  induction us generalizing db with
  | nil => exact Nat.le_refl _
  | cons u us ih => exact Nat.le_trans (clock_le_apply db u) (ih (db.apply u))

theorem next_le_applyAll (db : DB α) (us : List (Upd α)) : db.next ≤ (db.applyAll us).next := by
  induction us generalizing db with
  | nil => exact Nat.le_refl _
  | cons u us ih => exact Nat.le_trans (next_le_apply db u) (ih (db.apply u))

/-! ## suffixFrom -/

theorem suffixFrom_map (id : Nat) (g : Entry α → Entry α) (hid : ∀ e, (g e).id = e.id)
    (l : List (Entry α)) : suffixFrom id (l.map g) = (suffixFrom id l).map g := by
  induction l with
  | nil => rfl
  | cons e l ih =>
    unfold suffixFrom at *
    by_cases h : e.id = id <;> simp [hid, h, ih]

theorem suffixFrom_skip (id : Nat) (front l : List (Entry α)) (h : ∀ e ∈ front, e.id ≠ id) :
    suffixFrom id (front ++ l) = suffixFrom id l := by
  induction front with
  | nil => rfl
  | cons e f ih =>
    have he : e.id ≠ id := h e (List.mem_cons_self ..)
    have := ih (fun x hx => h x (List.mem_cons_of_mem _ hx))
    unfold suffixFrom at *
    simp [he, this]

theorem suffixFrom_append (id : Nat) (l back : List (Entry α)) :
    suffixFrom id (l ++ back) =
      if suffixFrom id l = [] then suffixFrom id back else suffixFrom id l ++ back := by
  induction l with
  | nil => simp [suffixFrom]
  | cons e l ih =>
    unfold suffixFrom at *
    by_cases h : e.id = id <;> simp [h, ih]

theorem suffixFrom_suffix (id : Nat) (l : List (Entry α)) : ∃ pre, l = pre ++ suffixFrom id l := by
  refine ⟨l.takeWhile (fun e => e.id != id), ?_⟩
  unfold suffixFrom
  exact (List.takeWhile_append_dropWhile).symm

/-- with unique addresses, the chain from the address of `nx` on is the chain from `nx` on -/
theorem suffixFrom_of_nodup (pre : List (Entry α)) (nx : Entry α) (tl : List (Entry α))
    (h : ((pre ++ nx :: tl).map Entry.id).Nodup) : suffixFrom nx.id (pre ++ nx :: tl) = nx :: tl := by
  rw [suffixFrom_skip]
  · simp [suffixFrom]
  · intro e he heq
    rw [List.map_append, List.map_cons] at h
    have := (List.nodup_append.mp h).2.2 e.id (List.mem_map_of_mem he) nx.id (List.mem_cons_self ..)
    exact this heq

/-- **one update, seen from a choice point of generation `cc`**: the clauses still to be delivered
from address `id` on are the same before and after -/
theorem view_suffix_apply (db : DB α) (u : Upd α) (cc id : Nat) (hc : cc ≤ db.clock)
    (hid : id < db.next) :
    view cc (suffixFrom id (db.apply u).chain) = view cc (suffixFrom id db.chain) := by
  obtain ⟨g, front, back, hq, hch, hf, hb⟩ := apply_shape db u
  rw [hch, List.append_assoc, suffixFrom_skip _ _ _ (fun e he h => by
    have := (hf e he).2; omega)]
  rw [suffixFrom_append, suffixFrom_map _ _ hq.id]
  have hback : ∀ l : List (Entry α), (∀ e ∈ l, e ∈ back) → view cc l = [] := fun l hl =>
    view_all_new cc l (fun e he => by have := (hb e (hl e he)).1; omega)
  have hsb : view cc (suffixFrom id back) = [] := by
    obtain ⟨pre, hpre⟩ := suffixFrom_suffix id back
    apply hback
    intro e he; rw [hpre]; exact List.mem_append_right _ he
  have hm : view cc ((suffixFrom id db.chain).map g) = view cc (suffixFrom id db.chain) :=
    view_map cc g _ hq.id hq.cl (fun e _ => hq.vis e cc hc)
  split
  · next h =>
    rw [hsb]
    have : suffixFrom id db.chain = [] := by simpa using h
    simp [this]
  · rw [view_append, hm, hback back (fun _ h => h)]; simp

theorem view_suffix_applyAll (db : DB α) (us : List (Upd α)) (cc id : Nat) (hc : cc ≤ db.clock)
    (hid : id < db.next) :
    view cc (suffixFrom id (db.applyAll us).chain) = view cc (suffixFrom id db.chain) := by
  induction us generalizing db with
  | nil => rfl
  | cons u us ih =>
    have h1 := ih (db.apply u) (Nat.le_trans hc (clock_le_apply db u))
      (Nat.lt_of_lt_of_le hid (next_le_apply db u))
    simp only [DB.applyAll, List.foldl_cons] at h1 ⊢
    rw [h1, view_suffix_apply db u cc id hc hid]

end Scryer.Luv
