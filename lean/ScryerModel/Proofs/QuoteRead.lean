import ScryerModel.Proofs.Quote
/-! C55: the token reader on printed atoms (soundness of unquoted output, round trip of quoted output). -/
namespace Scryer.Quote
open Scryer.CharClass

variable {u : UC}

theorem nextTok_small (hu : UCWF u) {c : Char} {r : List Char} (h : small_letter_char u c = true)
    (hr : ∀ d ∈ r, alpha_numeric_char u d = true) : nextTok u (c :: r) = .tok (.name (c :: r)) [] := by
  obtain ⟨f1, f2, f3, f4, _⟩ := small_facts hu h
  have hs := scanLayout_id (u := u) (r := r) false f2 f3 (fun e => absurd e f4)
  simp [nextTok, hs, nextTokAt_name (small_not_capital h) f1 (small_not_digit hu h), nameToken, h, spanP_all hr]

theorem nextTok_graphic (hu : UCWF u) {c : Char} {r : List Char} (h : graphic_token_char u c = true)
    (hr : ∀ d ∈ r, graphic_token_char u d = true) (h1 : ¬ (c = '/' ∧ ∃ r', r = '*' :: r'))
    (h2 : ¬ (c = '.' ∧ r = [])) : nextTok u (c :: r) = .tok (.name (c :: r)) [] := by
  have hm := (gt_mem u c).1 h
  obtain ⟨_, _, _, g4, g5, g6, _⟩ := gt_facts c hm
  obtain ⟨k1, k2⟩ := gt_facts2 c hm
  have hs := scanLayout_id (u := u) (r := r) false (by simpa [layout_char] using g6) k1
    (fun e r' hr' => h1 ⟨e, r', hr'⟩)
  have hn : nameToken u c r = .tok (.name (c :: r)) [] := by
    simp [nameToken, gt_not_small hu h, h, spanP_all hr]
  by_cases hd : c = '.'
  · subst hd
    cases r with
    | nil => exact absurd ⟨rfl, rfl⟩ h2
    | cons d r' =>
      have hdm := (gt_mem u d).1 (hr d (by simp))
      obtain ⟨_, _, _, _, _, d6, _⟩ := gt_facts d hdm
      have hdl : layout_char u d = false := by simpa [layout_char] using d6
      simp [nextTok, hs, nextTokAt_dot hu hdl (gt_facts2 d hdm).1, hn]
  · simp [nextTok, hs, nextTokAt_name (gt_not_capital hu h) (k2 hd) g4, hn]

theorem scan_concrete (c : Char) (r : List Char) (ins : Bool) (h1 : layout_char asciiUC c = false)
    (h2 : c ≠ '%') (h3 : c ≠ '/') : scanLayout u .top ins (c :: r) = some (ins, c :: r) :=
  scanLayout_id ins (by simpa [layout_char] using h1) h2 (fun e => absurd e h3)

theorem cap_false (hu : UCWF u) (x : Char) (hx : x.toNat < 128) (hl : x.isUpper = false) :
    capital_letter_char u x = false := by rw [cap_ascii hu hx, hl]

theorem nextTok_solo_name (hu : UCWF u) (c : Char) (hc : c = ';' ∨ c = '!') :
    nextTok u [c] = .tok (.name [c]) [] := by
  rcases hc with rfl | rfl
  · have hsm : small_letter_char u ';' = false := by rw [small_ascii hu (by decide)]; decide
    rw [nextTok, scan_concrete _ _ _ (by decide) (by decide) (by decide)]
    simp only []
    rw [nextTokAt_name (cap_false hu _ (by decide) (by decide)) (by decide) (by decide)]
    simp [nameToken, hsm, graphic_token_char, graphic_char, backslash_char, cut_char, semicolon_char]
  · have hsm : small_letter_char u '!' = false := by rw [small_ascii hu (by decide)]; decide
    rw [nextTok, scan_concrete _ _ _ (by decide) (by decide) (by decide)]
    simp only []
    rw [nextTokAt_name (cap_false hu _ (by decide) (by decide)) (by decide) (by decide)]
    simp [nameToken, hsm, graphic_token_char, graphic_char, backslash_char, cut_char, semicolon_char]

/-- the punctuation characters that are tokens by themselves (not `(`, whose token depends on layout) -/
def punctList : List Char := [',', ')', ']', '[', '|', '{', '}']

theorem nextTokAt_punct (hu : UCWF u) (c : Char) (hc : c ∈ punctList) (lay : Bool) (r : List Char) :
    nextTokAt u lay (c :: r) = .tok (.punct c) r := by
  have hcap : capital_letter_char u c = false := by
    have : ∀ x ∈ punctList, x.toNat < 128 ∧ x.isUpper = false := by decide
    exact cap_false hu c (this c hc).1 (this c hc).2
  simp only [punctList, List.mem_cons, List.not_mem_nil, or_false] at hc
  rcases hc with rfl | rfl | rfl | rfl | rfl | rfl | rfl <;>
    simp [nextTokAt, hcap, variable_indicator_char, decimal_digit_char]

theorem nextTok_punct (hu : UCWF u) (c : Char) (hc : c ∈ punctList) (r : List Char) :
    nextTok u (c :: r) = .tok (.punct c) r := by
  have h : layout_char asciiUC c = false ∧ c ≠ '%' ∧ c ≠ '/' := by
    have : ∀ x ∈ punctList, layout_char asciiUC x = false ∧ x ≠ '%' ∧ x ≠ '/' := by decide
    exact this c hc
  rw [nextTok, scan_concrete _ _ _ h.1 h.2.1 h.2.2]
  simp only []
  exact nextTokAt_punct hu c hc false r

theorem readAtom_of_nonQuoted (hu : UCWF u) {s : List Char} (h : nonQuotedToken u s = true) :
    readAtom u s = some s := by
  cases s with
  | nil => simp [nonQuotedToken] at h
  | cons c r =>
    by_cases hs : small_letter_char u c = true
    · rw [nonQuoted_small r hs] at h
      have := nextTok_small hu hs (all_eq_true_iff.1 h)
      simp [readAtom, tokens_one (by simp) this, atomOfTokens]
    · by_cases hg : graphic_token_char u c = true
      · rw [nonQuoted_graphic hu r hg, nonQuotedGraphic_iff] at h
        have := nextTok_graphic hu hg h.1 h.2.1 h.2.2
        simp [readAtom, tokens_one (by simp) this, atomOfTokens]
      · rcases (nonQuoted_other r (by simpa using hs) (by simpa using hg)).1 h with
          ⟨rfl, rfl⟩ | ⟨rfl, rfl⟩ | ⟨rfl, rfl⟩ | ⟨rfl, rfl⟩
        · simp [readAtom, tokens_one (by simp) (nextTok_solo_name hu ';' (Or.inl rfl)), atomOfTokens]
        · simp [readAtom, tokens_one (by simp) (nextTok_solo_name hu '!' (Or.inr rfl)), atomOfTokens]
        · simp [readAtom, tokens_two (by simp) (by simp) (nextTok_punct hu '[' (by decide) [']'])
            (nextTok_punct hu ']' (by decide) []), atomOfTokens]
        · simp [readAtom, tokens_two (by simp) (by simp) (nextTok_punct hu '{' (by decide) ['}'])
            (nextTok_punct hu '}' (by decide) []), atomOfTokens]

end Scryer.Quote
