import ScryerModel.Proofs.Solve
/-
Algebraic laws of the result combinators of `Scryer.Solve` (cut scoping, units, negation/once as
if-then-else, facts in clause order, invariance under the presentation of the program).
-/
namespace Scryer.Solve
open Scryer

/-! ### cut never escapes an opaque construct -/

@[simp] theorem oofR_cut : Res.oofR.cut = false := rfl
@[simp] theorem none_cut : Res.none.cut = false := rfl
@[simp] theorem one_cut (s : St) : (Res.one s).cut = false := rfl
@[simp] theorem throw_cut (e : Term × Nat) : (Res.throw e).cut = false := rfl

theorem raise_cut (n : Nat) (s : St) (b : Term) : (raise n s b).cut = false := by
  unfold raise; split <;> rfl

theorem callBody_cut (rec : Term → St → Res) (n : Nat) (s : St) (g : Term) (extra : List Term) :
    (callBody rec n s g extra).cut = false := by
  unfold callBody
  repeat' (first | rfl | exact raise_cut _ _ _ | split | dsimp only)

theorem callResolved_cut (rec : Term → St → Res) (n : Nat) (s : St) (g : Term) (extra : List Term) :
    (callResolved rec n s g extra).cut = false := by
  unfold callResolved
  repeat' (first | rfl | exact raise_cut _ _ _ | exact callBody_cut _ _ _ _ _ | split | dsimp only)

theorem callGoal_cut (rec : Term → St → Res) (n : Nat) (s : St) (g : Term) (extra : List Term) :
    (callGoal rec n s g extra).cut = false := by
  unfold callGoal
  repeat' (first | rfl | exact callResolved_cut _ _ _ _ _ | split | dsimp only)

theorem clauseLoop_cut (rec : Term → St → Res) (n : Nat) (goal : Term) (s : St) :
    ∀ cls : List Clause, (clauseLoop rec n goal s cls).cut = false := by
  intro cls
  induction cls with
  | nil => rfl
  | cons cl rest ih =>
    simp only [clauseLoop]
    repeat' (first | rfl | exact ih | split | dsimp only)

theorem userCall_cut (prog : Prog) (rec : Term → St → Res) (n : Nat) (s : St) (name : String)
    (args : List Term) : (userCall prog rec n s name args).cut = false := by
  unfold userCall
  repeat' (first | rfl | exact raise_cut _ _ _ | exact clauseLoop_cut _ _ _ _ _ | split | dsimp only)

theorem nafRes_cut (r : Res) (s : St) : (nafRes r s).cut = false := by
  unfold nafRes
  repeat' (first | rfl | split | dsimp only)

theorem catchRes_cut (rec : Term → St → Res) (n : Nat) (s : St) (g c r : Term) :
    (catchRes rec n s g c r).cut = false := by
  unfold catchRes
  repeat' (first | rfl | exact callGoal_cut _ _ _ _ _ | split | dsimp only)

theorem throwRes_cut (n : Nat) (s : St) (b : Term) : (throwRes n s b).cut = false := by
  unfold throwRes throwResolved
  repeat' (first | rfl | exact raise_cut _ _ _ | split | dsimp only)

theorem findallRes_cut (rec : Term → St → Res) (n : Nat) (s : St) (t g l : Term) :
    (findallRes rec n s t g l).cut = false := by
  unfold findallRes
  repeat' (first | rfl | exact raise_cut _ _ _ | split | dsimp only)

/-! ### the cut flag of a condition is ignored -/

theorem iteRes_cut_irrelevant (sols : List St) (c c' : Bool) (exc : Option (Term × Nat)) (oof : Bool)
    (runT : St → Res) (runE : Unit → Res) :
    iteRes ⟨sols, c, exc, oof⟩ runT runE = iteRes ⟨sols, c', exc, oof⟩ runT runE := rfl

theorem nafRes_cut_irrelevant (sols : List St) (c c' : Bool) (exc : Option (Term × Nat)) (oof : Bool)
    (s : St) : nafRes ⟨sols, c, exc, oof⟩ s = nafRes ⟨sols, c', exc, oof⟩ s := rfl

/-! ### negation and once are if-then-else over call/1 -/

theorem nafRes_eq_iteRes (r : Res) (s : St) :
    nafRes r s = iteRes r (fun _ => Res.none) (fun _ => Res.one s) := by
  unfold nafRes iteRes
  repeat' (first | rfl | split)

theorem classify_call1 (g : Term) : classify (.str "call" [g]) = .call g [] := by
  simp [classify]

theorem solve_true (n : Nat) (prog : Prog) (s : St) : solve (n + 1) prog (.atom "true") s = Res.one s := by
  simp [solve, step, classify]

theorem solve_fail (n : Nat) (prog : Prog) (s : St) : solve (n + 1) prog (.atom "fail") s = Res.none := by
  simp [solve, step, classify]

/-! ### a goal without answers: the continuation is irrelevant -/

theorem conjRes_nosols (rA : Res) (run : St → Res) (h : rA.sols = []) (ho : rA.oof = false) :
    conjRes rA run = ⟨[], rA.cut, rA.exc, false⟩ := by
  unfold conjRes
  simp [h, ho, seqLoop, Res.none]

/-! ### facts: the answers are the unifying facts, in textual order, each once -/

/-- the specification: for each fact whose (renamed) head unifies with the goal, in order, the
    extended state. `none` if some unification is outside the model (fuel / cyclic). -/
def factAnswers (n : Nat) (goal : Term) (s : St) : List Clause → Option (List St)
  | [] => some []
  | cl :: rest =>
      match unify n s.σ goal (rename (sfx s.ctr) cl.head) with
      | .none => .none
      | some .none => factAnswers n goal s rest
      | some (some σ') =>
        match factAnswers n goal s rest with
        | .none => .none
        | some l => some (⟨σ', s.ctr + 1⟩ :: l)

theorem rename_true (x : String) : rename x (.atom "true") = .atom "true" := by
  simp [rename]

theorem clauseLoop_facts (prog : Prog) (k n : Nat) (goal : Term) (s : St) :
    ∀ (cls : List Clause) (l : List St), (∀ cl ∈ cls, cl.body = .atom "true") →
      factAnswers n goal s cls = some l →
      clauseLoop (solve (k + 1) prog) n goal s cls = ⟨l, false, .none, false⟩ := by
  intro cls
  induction cls with
  | nil =>
    intro l _ h
    simp [factAnswers] at h
    subst h
    rfl
  | cons cl rest ih =>
    intro l hb h
    have hcl : cl.body = .atom "true" := hb cl (by simp)
    have hrest : ∀ c ∈ rest, c.body = .atom "true" := fun c hc => hb c (by simp [hc])
    simp only [factAnswers] at h
    simp only [clauseLoop]
    cases hu : unify n s.σ goal (rename (sfx s.ctr) cl.head) with
    | none => rw [hu] at h; simp at h
    | some o =>
      rw [hu] at h
      cases o with
      | none => simp only at h ⊢; exact ih l hrest h
      | some σ' =>
        simp only at h ⊢
        cases hf : factAnswers n goal s rest with
        | none => rw [hf] at h; simp at h
        | some l' =>
          rw [hf] at h
          simp only [Option.some.injEq] at h
          subst h
          rw [hcl, rename_true, solve_true, ih l' hrest hf]
          simp [Res.one]

/-! ### only the per-predicate clause sequences matter -/

/-- two programs present the same predicates: for every name/arity the clauses are the same, in
    the same order (clauses of different predicates may be interleaved differently, e.g. a
    predicate consulted in discontiguous pieces). -/
def SamePreds (p q : Prog) : Prop :=
  ∀ name arity, p.filter (clauseMatches name arity) = q.filter (clauseMatches name arity)

theorem userCall_samePreds {p q : Prog} (h : SamePreds p q) (rec : Term → St → Res) (n : Nat) (s : St)
    (name : String) (args : List Term) : userCall p rec n s name args = userCall q rec n s name args := by
  unfold userCall
  rw [h name args.length]

theorem step_samePreds {p q : Prog} (h : SamePreds p q) (rec : Term → St → Res) (n : Nat) (g : Term)
    (s : St) : step p rec n g s = step q rec n g s := by
  unfold step
  split <;> try rfl
  rw [userCall_samePreds h]

theorem solve_samePreds {p q : Prog} (h : SamePreds p q) : ∀ (n : Nat) (g : Term) (s : St),
    solve n p g s = solve n q g s := by
  intro n
  induction n with
  | zero => intro g s; rfl
  | succ n ih =>
    intro g s
    simp only [solve]
    have : solve n p = solve n q := by funext g s; exact ih g s
    rw [this]
    exact step_samePreds h _ n g s

theorem filter_clauseMatches_append (a b : Prog) (name : String) (arity : Nat) :
    (a ++ b).filter (clauseMatches name arity) =
      a.filter (clauseMatches name arity) ++ b.filter (clauseMatches name arity) :=
  List.filter_append ..

end Scryer.Solve
