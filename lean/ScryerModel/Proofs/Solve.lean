import ScryerModel.Model.Solve
/-
Lemmas about `Scryer.Solve`: fuel monotonicity of every fuelled function, the congruence lemmas
of the result combinators, and the algebra of the combinators used by the control laws.
-/
namespace Scryer.Solve
open Scryer

/-! ### fuel monotonicity of the term-level helpers -/

theorem walk_mono (k : Nat) : ∀ (n : Nat) (σ : Subst) (t r : Term),
    walk n σ t = some r → walk (n + k) σ t = some r := by
  intro n
  induction n with
  | zero => intro σ t r h; simp [walk] at h
  | succ n ih =>
    intro σ t r h
    rw [Nat.succ_add]
    cases t with
    | var v =>
      simp only [walk] at h ⊢
      cases hl : lookup σ v with
      | none => simpa [hl] using h
      | some t' => rw [hl] at h; simpa using ih σ t' r h
    | int v => simpa [walk] using h
    | rat a b => simpa [walk] using h
    | flt b => simpa [walk] using h
    | atom a => simpa [walk] using h
    | str f args => simpa [walk] using h

theorem resolve_mono_aux (k : Nat) : ∀ (n : Nat),
    (∀ (σ : Subst) (t r : Term), resolve n σ t = some r → resolve (n + k) σ t = some r) ∧
    (∀ (σ : Subst) (ts rs : List Term), resolveList n σ ts = some rs →
        resolveList (n + k) σ ts = some rs) := by
  intro n
  induction n with
  | zero => constructor <;> intro σ t r h <;> simp [resolve, resolveList] at h
  | succ n ih =>
    obtain ⟨ih1, ih2⟩ := ih
    constructor
    · intro σ t r h
      rw [Nat.succ_add]
      cases t with
      | var v =>
        simp only [resolve] at h ⊢
        cases hl : lookup σ v with
        | none => simpa [hl] using h
        | some t' => rw [hl] at h; simpa using ih1 σ t' r h
      | int v => simpa [resolve] using h
      | rat a b => simpa [resolve] using h
      | flt b => simpa [resolve] using h
      | atom a => simpa [resolve] using h
      | str f args =>
        simp only [resolve] at h ⊢
        cases hr : resolveList n σ args with
        | none => simp [hr] at h
        | some as => rw [hr] at h; rw [ih2 σ args as hr]; exact h
    · intro σ ts rs h
      rw [Nat.succ_add]
      cases ts with
      | nil => simpa [resolveList] using h
      | cons t ts =>
        simp only [resolveList] at h ⊢
        cases h1 : resolve n σ t with
        | none => simp [h1] at h
        | some t' =>
          rw [h1] at h
          cases h2 : resolveList n σ ts with
          | none => simp [h2] at h
          | some ts' => rw [h2] at h; rw [ih1 σ t t' h1, ih2 σ ts ts' h2]; exact h

theorem resolve_mono (k n : Nat) (σ : Subst) (t r : Term) :
    resolve n σ t = some r → resolve (n + k) σ t = some r := (resolve_mono_aux k n).1 σ t r

theorem occurs_mono_aux (k : Nat) : ∀ (n : Nat),
    (∀ (σ : Subst) (v : String) (t : Term) (r : Bool), occurs n σ v t = some r →
        occurs (n + k) σ v t = some r) ∧
    (∀ (σ : Subst) (v : String) (ts : List Term) (r : Bool), occursList n σ v ts = some r →
        occursList (n + k) σ v ts = some r) := by
  intro n
  induction n with
  | zero => constructor <;> intro σ v t r h <;> simp [occurs, occursList] at h
  | succ n ih =>
    obtain ⟨ih1, ih2⟩ := ih
    constructor
    · intro σ v t r h
      rw [Nat.succ_add]
      cases t with
      | var w =>
        simp only [occurs] at h ⊢
        cases hl : lookup σ w with
        | none => simpa [hl] using h
        | some t' => rw [hl] at h; simpa using ih1 σ v t' r h
      | int v => simpa [occurs] using h
      | rat a b => simpa [occurs] using h
      | flt b => simpa [occurs] using h
      | atom a => simpa [occurs] using h
      | str f args => simp only [occurs] at h ⊢; exact ih2 σ v args r h
    · intro σ v ts r h
      rw [Nat.succ_add]
      cases ts with
      | nil => simpa [occursList] using h
      | cons t ts =>
        simp only [occursList] at h ⊢
        cases h1 : occurs n σ v t with
        | none => simp [h1] at h
        | some b =>
          rw [h1] at h; rw [ih1 σ v t b h1]
          cases b with
          | true => simpa using h
          | false => simpa using ih2 σ v ts r (by simpa using h)

theorem occurs_mono (k n : Nat) (σ : Subst) (v : String) (t : Term) (r : Bool) :
    occurs n σ v t = some r → occurs (n + k) σ v t = some r := (occurs_mono_aux k n).1 σ v t r

theorem bindVar_mono (k n : Nat) (σ : Subst) (v : String) (t : Term) (r : Option Subst) :
    bindVar n σ v t = some r → bindVar (n + k) σ v t = some r := by
  intro h
  unfold bindVar at h ⊢
  cases ho : occurs n σ v t with
  | none => simp [ho] at h
  | some b => rw [ho] at h; rw [occurs_mono k n σ v t b ho]; exact h


theorem unify_mono_aux (k : Nat) : ∀ (n : Nat),
    (∀ (σ : Subst) (a b : Term) (r : Option Subst), unify n σ a b = some r →
        unify (n + k) σ a b = some r) ∧
    (∀ (σ : Subst) (as bs : List Term) (r : Option Subst), unifyList n σ as bs = some r →
        unifyList (n + k) σ as bs = some r) := by
  intro n
  induction n with
  | zero => constructor <;> intro σ a b r h <;> simp [unify, unifyList] at h
  | succ n ih =>
    obtain ⟨ih1, ih2⟩ := ih
    constructor
    · intro σ a b r h
      rw [Nat.succ_add]
      simp only [unify] at h ⊢
      cases ha : walk n σ a with
      | none => simp [ha] at h
      | some a' =>
        rw [ha] at h; rw [walk_mono k n σ a a' ha]
        cases hb : walk n σ b with
        | none => simp [hb] at h
        | some b' =>
          rw [hb] at h; rw [walk_mono k n σ b b' hb]
          simp only at h ⊢
          split at h
          · exact h
          · exact bindVar_mono k n σ _ _ r h
          · exact bindVar_mono k n σ _ _ r h
          · split at h
            · rename_i hc; simp only [hc, if_true]; exact ih2 σ _ _ r h
            · rename_i hc; simp only [hc]; exact h
          · exact h
    · intro σ as bs r h
      rw [Nat.succ_add]
      cases as with
      | nil =>
        cases bs with
        | nil => simpa [unifyList] using h
        | cons b bs => simpa [unifyList] using h
      | cons a as =>
        cases bs with
        | nil => simpa [unifyList] using h
        | cons b bs =>
          simp only [unifyList] at h ⊢
          cases h1 : unify n σ a b with
          | none => simp [h1] at h
          | some o =>
            rw [h1] at h; rw [ih1 σ a b o h1]
            cases o with
            | none => simpa using h
            | some σ' => simp only at h ⊢; exact ih2 σ' as bs r h


theorem unify_mono (k n : Nat) (σ : Subst) (a b : Term) (r : Option Subst) :
    unify n σ a b = some r → unify (n + k) σ a b = some r := (unify_mono_aux k n).1 σ a b r

theorem evalArith_mono (k : Nat) : ∀ (n : Nat) (σ : Subst) (t : Term),
    evalArith n σ t ≠ .oof → evalArith (n + k) σ t = evalArith n σ t := by
  intro n
  induction n with
  | zero => intro σ t h; simp [evalArith] at h
  | succ n ih =>
    intro σ t h
    rw [Nat.succ_add]
    simp only [evalArith] at h ⊢
    cases ha : walk n σ t with
    | none => simp [ha] at h
    | some a' =>
      rw [ha] at h; rw [walk_mono k n σ t a' ha]
      cases a' with
      | var v => rfl
      | int v => rfl
      | rat a b => rfl
      | flt b => rfl
      | atom a => rfl
      | str f args =>
        match args with
        | [] => rfl
        | [x] =>
          simp only at h ⊢
          cases hop : unOp? f with
          | none => rfl
          | some op =>
            simp only [hop] at h ⊢
            have hx : evalArith n σ x ≠ .oof := by
              intro hx; rw [hx] at h; exact h rfl
            rw [ih σ x hx]
        | [x, y] =>
          simp only at h ⊢
          cases hop : binOp? f with
          | none => rfl
          | some op =>
            simp only [hop] at h ⊢
            have hx : evalArith n σ x ≠ .oof := by
              intro hx; rw [hx] at h; exact h rfl
            rw [ih σ x hx]
            cases hxv : evalArith n σ x with
            | oof => exact absurd hxv hx
            | err f => rfl
            | ok a =>
              rw [hxv] at h
              simp only at h ⊢
              have hy : evalArith n σ y ≠ .oof := by
                intro hy; rw [hy] at h; exact h rfl
              rw [ih σ y hy]
        | _ :: _ :: _ :: _ => rfl

theorem isList_mono (k : Nat) : ∀ (n : Nat) (σ : Subst) (t : Term) (r : Bool),
    isList n σ t = some r → isList (n + k) σ t = some r := by
  intro n
  induction n with
  | zero => intro σ t r h; simp [isList] at h
  | succ n ih =>
    intro σ t r h
    rw [Nat.succ_add]
    simp only [isList] at h ⊢
    cases ha : walk n σ t with
    | none => simp [ha] at h
    | some a' =>
      rw [ha] at h; rw [walk_mono k n σ t a' ha]

      split at h
      all_goals first | exact h | exact ih σ _ r h

theorem isPartialList_mono (k : Nat) : ∀ (n : Nat) (σ : Subst) (t : Term) (r : Bool),
    isPartialList n σ t = some r → isPartialList (n + k) σ t = some r := by
  intro n
  induction n with
  | zero => intro σ t r h; simp [isPartialList] at h
  | succ n ih =>
    intro σ t r h
    rw [Nat.succ_add]
    simp only [isPartialList] at h ⊢
    cases ha : walk n σ t with
    | none => simp [ha] at h
    | some a' =>
      rw [ha] at h; rw [walk_mono k n σ t a' ha]

      split at h
      all_goals first | exact h | exact ih σ _ r h

theorem bodyOk_mono (k : Nat) : ∀ (n : Nat) (t : Term) (r : Bool),
    bodyOk n t = some r → bodyOk (n + k) t = some r := by
  intro n
  induction n with
  | zero => intro t r h; simp [bodyOk] at h
  | succ n ih =>
    intro t r h
    rw [Nat.succ_add]
    cases t with
    | var v => simpa [bodyOk] using h
    | int v => simpa [bodyOk] using h
    | rat a b => simpa [bodyOk] using h
    | flt b => simpa [bodyOk] using h
    | atom a => simpa [bodyOk] using h
    | str f args =>
      match args with
      | [] => simpa [bodyOk] using h
      | [x] => simpa [bodyOk] using h
      | _ :: _ :: _ :: _ => simpa [bodyOk] using h
      | [a, b] =>
        simp only [bodyOk] at h ⊢
        split at h
        · rename_i hc
          rw [if_pos hc]
          cases h1 : bodyOk n a with
          | none => simp [h1] at h
          | some x =>
            rw [h1] at h
            cases h2 : bodyOk n b with
            | none => simp [h2] at h
            | some y => rw [h2] at h; rw [ih _ x h1, ih _ y h2]; exact h
        · rename_i hc; rw [if_neg hc]; exact h


theorem ofUnify_ne_oof {r : Option (Option Subst)} (h : ofUnify r ≠ .oof) : ∃ x, r = some x := by
  cases r with
  | none => exact absurd rfl h
  | some x => exact ⟨x, rfl⟩

theorem ofUnify_unify_mono (k n : Nat) (σ : Subst) (a b : Term)
    (h : ofUnify (unify n σ a b) ≠ .oof) : unify (n + k) σ a b = unify n σ a b := by
  obtain ⟨x, hx⟩ := ofUnify_ne_oof h
  rw [hx]; exact unify_mono k n σ a b x hx

theorem builtinFunctor_mono (k n : Nat) (σ : Subst) (c : Nat) (t nm ar : Term)
    (h : builtinFunctor n σ c t nm ar ≠ .oof) :
    builtinFunctor (n + k) σ c t nm ar = builtinFunctor n σ c t nm ar := by
  unfold builtinFunctor at h ⊢
  cases ht : walk n σ t with
  | none => rw [ht] at h; exact absurd rfl h
  | some t' =>
    rw [ht] at h; rw [walk_mono k n σ t t' ht]
    cases t' with
    | var v =>
      simp only at h ⊢
      cases hn : walk n σ nm with
      | none => rw [hn] at h; exact absurd rfl h
      | some nm' =>
        cases ha : walk n σ ar with
        | none => rw [hn, ha] at h; exact absurd rfl h
        | some ar' => rw [walk_mono k n σ nm nm' hn, walk_mono k n σ ar ar' ha]
    | str f args =>
      simp only at h ⊢
      cases hu : unify n σ nm (.atom f) with
      | none => rw [hu] at h; exact absurd rfl h
      | some o =>
        rw [unify_mono k n σ _ _ o hu]
        cases o with
        | none => rfl
        | some σ' =>
          rw [hu] at h; simp only at h ⊢
          rw [ofUnify_unify_mono k n σ' _ _ h]
    | int v =>
      simp only at h ⊢
      cases hu : unify n σ nm (.int v) with
      | none => rw [hu] at h; exact absurd rfl h
      | some o =>
        rw [unify_mono k n σ _ _ o hu]
        cases o with
        | none => rfl
        | some σ' =>
          rw [hu] at h; simp only at h ⊢
          rw [ofUnify_unify_mono k n σ' _ _ h]
    | rat a b =>
      simp only at h ⊢
      cases hu : unify n σ nm (.rat a b) with
      | none => rw [hu] at h; exact absurd rfl h
      | some o =>
        rw [unify_mono k n σ _ _ o hu]
        cases o with
        | none => rfl
        | some σ' =>
          rw [hu] at h; simp only at h ⊢
          rw [ofUnify_unify_mono k n σ' _ _ h]
    | flt b =>
      simp only at h ⊢
      cases hu : unify n σ nm (.flt b) with
      | none => rw [hu] at h; exact absurd rfl h
      | some o =>
        rw [unify_mono k n σ _ _ o hu]
        cases o with
        | none => rfl
        | some σ' =>
          rw [hu] at h; simp only at h ⊢
          rw [ofUnify_unify_mono k n σ' _ _ h]
    | atom a =>
      simp only at h ⊢
      cases hu : unify n σ nm (.atom a) with
      | none => rw [hu] at h; exact absurd rfl h
      | some o =>
        rw [unify_mono k n σ _ _ o hu]
        cases o with
        | none => rfl
        | some σ' =>
          rw [hu] at h; simp only at h ⊢
          rw [ofUnify_unify_mono k n σ' _ _ h]

theorem builtinArg_mono (k n : Nat) (σ : Subst) (i t a : Term)
    (h : builtinArg n σ i t a ≠ .oof) :
    builtinArg (n + k) σ i t a = builtinArg n σ i t a := by
  unfold builtinArg at h ⊢
  cases hi : walk n σ i with
  | none => rw [hi] at h; exact absurd rfl h
  | some i' =>
    cases ht : walk n σ t with
    | none => rw [hi, ht] at h; exact absurd rfl h
    | some t' =>
      rw [hi, ht] at h
      rw [walk_mono k n σ i i' hi, walk_mono k n σ t t' ht]
      split at h
      · exact absurd rfl h
      · exact absurd rfl h
      · rfl
      · rfl
      · split at h
        · rename_i hc; simp only [if_pos hc]
        · rename_i hc; simp only [if_neg hc]
          split at h
          · rename_i hc2; simp only [if_pos hc2]
          · rename_i hc2; simp only [if_neg hc2]
            split at h
            · rename_i x hx; rw [ofUnify_unify_mono k n σ _ _ h]
            · rfl
      · rfl
      · rfl

theorem runB_mono (k n : Nat) (σ : Subst) (c : Nat) (b : BI)
    (h : runB n σ c b ≠ .oof) : runB (n + k) σ c b = runB n σ c b := by
  cases b with
  | unif a b => simp only [runB] at h ⊢; rw [ofUnify_unify_mono k n σ a b h]
  | notUnif a b =>
    simp only [runB] at h ⊢
    cases hu : unify n σ a b with
    | none => rw [hu] at h; exact absurd rfl h
    | some o => rw [unify_mono k n σ a b o hu]
  | eq a b =>
    simp only [runB] at h ⊢
    cases ha : resolve n σ a with
    | none => rw [ha] at h; exact absurd rfl h
    | some a' =>
      cases hb : resolve n σ b with
      | none => rw [ha, hb] at h; exact absurd rfl h
      | some b' => rw [resolve_mono k n σ a a' ha, resolve_mono k n σ b b' hb]
  | neq a b =>
    simp only [runB] at h ⊢
    cases ha : resolve n σ a with
    | none => rw [ha] at h; exact absurd rfl h
    | some a' =>
      cases hb : resolve n σ b with
      | none => rw [ha, hb] at h; exact absurd rfl h
      | some b' => rw [resolve_mono k n σ a a' ha, resolve_mono k n σ b b' hb]
  | isList a =>
    simp only [runB] at h ⊢
    cases ha : isList n σ a with
    | none => rw [ha] at h; exact absurd rfl h
    | some b => rw [isList_mono k n σ a b ha]
  | is x e =>
    simp only [runB] at h ⊢
    have he : evalArith n σ e ≠ .oof := by
      intro he; rw [he] at h; exact h rfl
    rw [evalArith_mono k n σ e he]
    cases hv : evalArith n σ e with
    | oof => exact absurd hv he
    | err f => rfl
    | ok v => rw [hv] at h; simp only at h ⊢; rw [ofUnify_unify_mono k n σ _ _ h]
  | functor t nm ar => simp only [runB] at h ⊢; exact builtinFunctor_mono k n σ c t nm ar h
  | arg i t a => simp only [runB] at h ⊢; exact builtinArg_mono k n σ i t a h
  | typeTest p a =>
    simp only [runB] at h ⊢
    cases ha : walk n σ a with
    | none => rw [ha] at h; exact absurd rfl h
    | some a' => rw [walk_mono k n σ a a' ha]
  | cmp p a b =>
    simp only [runB] at h ⊢
    have ha : evalArith n σ a ≠ .oof := by
      intro ha; rw [ha] at h; exact h rfl
    rw [evalArith_mono k n σ a ha]
    cases hv : evalArith n σ a with
    | oof => exact absurd hv ha
    | err f => rfl
    | ok v =>
      rw [hv] at h; simp only at h ⊢
      have hb : evalArith n σ b ≠ .oof := by
        intro hb; rw [hb] at h; exact h rfl
      rw [evalArith_mono k n σ b hb]
  | none => rfl

theorem builtin_mono (k n : Nat) (name : String) (args : List Term) (σ : Subst) (c : Nat)
    (h : builtin n name args σ c ≠ .oof) :
    builtin (n + k) name args σ c = builtin n name args σ c := runB_mono k n σ c _ h

/-! ### congruence of the result combinators -/

/-- `run'` agrees with `run` wherever `run` is not out of fuel. -/
def Ext (run run' : St → Res) : Prop := ∀ s, (run s).oof = false → run' s = run s

@[simp] theorem oofR_oof : Res.oofR.oof = true := rfl

theorem raise_mono (k n : Nat) (s : St) (b : Term) (h : (raise n s b).oof = false) :
    raise (n + k) s b = raise n s b := by
  unfold raise at h ⊢
  cases hr : resolve n s.σ b with
  | none => rw [hr] at h; simp at h
  | some b' => rw [resolve_mono k n s.σ b b' hr]

theorem seqLoop_congr {run run' : St → Res} (hx : Ext run run') :
    ∀ (l : List St), (seqLoop run l).oof = false → seqLoop run' l = seqLoop run l := by
  intro l
  induction l with
  | nil => intro _; rfl
  | cons s rest ih =>
    intro h
    simp only [seqLoop] at h ⊢
    cases ho : (run s).oof with
    | true => rw [ho] at h; simp at h
    | false =>
      rw [hx s ho]
      rw [ho] at h ⊢
      simp only [Bool.false_eq_true, if_false] at h ⊢
      split at h
      · rename_i hc; simp only [if_pos hc]
      · rename_i hc
        simp only [if_neg hc]
        cases ho2 : (seqLoop run rest).oof with
        | true => rw [ho2] at h; simp at h
        | false => rw [ih ho2]; simp [ho2]

theorem conjRes_congr {run run' : St → Res} (hx : Ext run run') (rA : Res)
    (h : (conjRes rA run).oof = false) : conjRes rA run' = conjRes rA run := by
  unfold conjRes at h ⊢
  cases hA : rA.oof with
  | true => rfl
  | false =>
    rw [hA] at h
    simp only [Bool.false_eq_true, if_false] at h ⊢
    cases hl : (seqLoop run rA.sols).oof with
    | true => rw [hl] at h; simp at h
    | false => rw [seqLoop_congr hx _ hl]; simp [hl]


/-- `rec'` agrees with `rec` wherever `rec` is not out of fuel. -/
def RExt (rec rec' : Term → St → Res) : Prop := ∀ g s, (rec g s).oof = false → rec' g s = rec g s

theorem RExt.ext {rec rec' : Term → St → Res} (h : RExt rec rec') (g : Term) :
    Ext (rec g) (rec' g) := fun s hs => h g s hs

theorem conjRes_congr2 {run run' : St → Res} {rA rA' : Res} (hA : rA.oof = false → rA' = rA)
    (hx : Ext run run') (h : (conjRes rA run).oof = false) :
    conjRes rA' run' = conjRes rA run := by
  cases hA' : rA.oof with
  | true => simp [conjRes, hA'] at h
  | false => rw [hA hA']; exact conjRes_congr hx rA h

theorem disjRes_congr {rA rA' : Res} {kB kB' : Unit → Res} (hA : rA.oof = false → rA' = rA)
    (hB : (kB ()).oof = false → kB' () = kB ()) (h : (disjRes rA kB).oof = false) :
    disjRes rA' kB' = disjRes rA kB := by
  cases hA' : rA.oof with
  | true => simp [disjRes, hA'] at h
  | false =>
    rw [hA hA']
    unfold disjRes at h ⊢
    rw [hA'] at h ⊢
    simp only [Bool.false_eq_true, if_false] at h ⊢
    split at h
    · rename_i hc; simp only [if_pos hc]
    · rename_i hc; simp only [if_neg hc]
      cases hB' : (kB ()).oof with
      | true => simp [hB'] at h
      | false => rw [hB hB']; simp [hB']

theorem iteRes_congr {rC rC' : Res} {runT runT' : St → Res} {kE kE' : Unit → Res}
    (hC : rC.oof = false → rC' = rC) (hT : Ext runT runT')
    (hE : (kE ()).oof = false → kE' () = kE ()) (h : (iteRes rC runT kE).oof = false) :
    iteRes rC' runT' kE' = iteRes rC runT kE := by
  cases hC' : rC.oof with
  | true => simp [iteRes, hC'] at h
  | false =>
    rw [hC hC']
    unfold iteRes at h ⊢
    rw [hC'] at h ⊢
    simp only [Bool.false_eq_true, if_false] at h ⊢
    split at h
    · exact hT _ h
    · split at h
      · rfl
      · exact hE h

theorem nafRes_congr {r r' : Res} (s : St) (hr : r.oof = false → r' = r)
    (h : (nafRes r s).oof = false) : nafRes r' s = nafRes r s := by
  cases hr' : r.oof with
  | true => simp [nafRes, hr'] at h
  | false => rw [hr hr']

theorem callBody_mono {rec rec' : Term → St → Res} (hx : RExt rec rec') (k n : Nat) (s : St)
    (g' : Term) (extra : List Term) (h : (callBody rec n s g' extra).oof = false) :
    callBody rec' (n + k) s g' extra = callBody rec n s g' extra := by
  unfold callBody at h ⊢
  cases ha : addArgs g' extra with
  | none => simp only [ha] at h ⊢; exact raise_mono k n s _ h
  | some g'' =>
    simp only [ha] at h ⊢
    cases hb : bodyOk n g'' with
    | none => rw [hb] at h; simp at h
    | some b =>
      rw [hb] at h; rw [bodyOk_mono k n g'' b hb]
      cases b with
      | false => exact raise_mono k n s _ h
      | true =>
        simp only at h ⊢
        cases ho : (rec g'' s).oof with
        | true => rw [ho] at h; simp at h
        | false => rw [hx g'' s ho]; simp [ho]

theorem callResolved_mono {rec rec' : Term → St → Res} (hx : RExt rec rec') (k n : Nat) (s : St)
    (g' : Term) (extra : List Term) (h : (callResolved rec n s g' extra).oof = false) :
    callResolved rec' (n + k) s g' extra = callResolved rec n s g' extra := by
  cases g' with
  | var v => simp only [callResolved] at h ⊢; exact raise_mono k n s _ h
  | int v => simp only [callResolved] at h ⊢; exact callBody_mono hx k n s _ extra h
  | rat a b => simp only [callResolved] at h ⊢; exact callBody_mono hx k n s _ extra h
  | flt b => simp only [callResolved] at h ⊢; exact callBody_mono hx k n s _ extra h
  | atom a => simp only [callResolved] at h ⊢; exact callBody_mono hx k n s _ extra h
  | str f args => simp only [callResolved] at h ⊢; exact callBody_mono hx k n s _ extra h

theorem callGoal_mono {rec rec' : Term → St → Res} (hx : RExt rec rec') (k n : Nat) (s : St)
    (g : Term) (extra : List Term) (h : (callGoal rec n s g extra).oof = false) :
    callGoal rec' (n + k) s g extra = callGoal rec n s g extra := by
  unfold callGoal at h ⊢
  cases hr : resolve n s.σ g with
  | none => rw [hr] at h; simp at h
  | some g' =>
    rw [hr] at h; rw [resolve_mono k n s.σ g g' hr]
    exact callResolved_mono hx k n s g' extra h

theorem throwRes_mono (k n : Nat) (s : St) (b : Term) (h : (throwRes n s b).oof = false) :
    throwRes (n + k) s b = throwRes n s b := by
  unfold throwRes at h ⊢
  cases hr : resolve n s.σ b with
  | none => rw [hr] at h; simp at h
  | some b' =>
    rw [hr] at h; rw [resolve_mono k n s.σ b b' hr]
    cases b' with
    | var v => simp only [throwResolved] at h ⊢; exact raise_mono k n s _ h
    | int v => rfl
    | rat a b => rfl
    | flt b => rfl
    | atom a => rfl
    | str f args => rfl

theorem catchRes_mono {rec rec' : Term → St → Res} (hx : RExt rec rec') (k n : Nat) (s : St)
    (g c r : Term) (h : (catchRes rec n s g c r).oof = false) :
    catchRes rec' (n + k) s g c r = catchRes rec n s g c r := by
  unfold catchRes at h ⊢
  cases hG : (callGoal rec n s g []).oof with
  | true => simp [hG] at h
  | false =>
    rw [callGoal_mono hx k n s g [] hG]
    simp only [hG, Bool.false_eq_true, if_false] at h ⊢
    cases he : (callGoal rec n s g []).exc with
    | none => rfl
    | some e =>
      obtain ⟨ball, c'⟩ := e
      simp only [he] at h ⊢
      cases hu : unify n s.σ c ball with
      | none => rw [hu] at h; simp at h
      | some o =>
        rw [unify_mono k n s.σ c ball o hu]
        cases o with
        | none => rfl
        | some σ' =>
          rw [hu] at h
          simp only at h ⊢
          cases hR : (callGoal rec n ⟨σ', c'⟩ r []).oof with
          | true => simp [hR] at h
          | false => rw [callGoal_mono hx k n _ r [] hR]; simp [hR]

theorem instances_mono (k n : Nat) (t : Term) : ∀ (l : List St) (c : Nat) (ts : List Term),
    instances n t c l = some ts → instances (n + k) t c l = some ts := by
  intro l
  induction l with
  | nil => intro c ts h; simpa [instances] using h
  | cons s rest ih =>
    intro c ts h
    simp only [instances] at h ⊢
    cases hr : resolve n s.σ t with
    | none => simp [hr] at h
    | some ti =>
      rw [hr] at h; rw [resolve_mono k n s.σ t ti hr]
      cases hi : instances n t (c + 1) rest with
      | none => simp [hi] at h
      | some ts' => rw [hi] at h; rw [ih (c + 1) ts' hi]; exact h

theorem findallRes_mono {rec rec' : Term → St → Res} (hx : RExt rec rec') (k n : Nat) (s : St)
    (t g l : Term) (h : (findallRes rec n s t g l).oof = false) :
    findallRes rec' (n + k) s t g l = findallRes rec n s t g l := by
  unfold findallRes at h ⊢
  cases hG : (callGoal rec n s g []).oof with
  | true => simp [hG] at h
  | false =>
    rw [callGoal_mono hx k n s g [] hG]
    simp only [hG, Bool.false_eq_true, if_false] at h ⊢
    cases he : (callGoal rec n s g []).exc with
    | some e => rfl
    | none =>
      simp only [he] at h ⊢
      cases hi : instances n t s.ctr (callGoal rec n s g []).sols with
      | none => rw [hi] at h; simp at h
      | some ts =>
        rw [hi] at h; rw [instances_mono k n t _ _ ts hi]
        simp only at h ⊢
        cases hp : isPartialList n s.σ l with
        | none => rw [hp] at h; simp at h
        | some b =>
          rw [hp] at h; rw [isPartialList_mono k n s.σ l b hp]
          cases b with
          | false => exact raise_mono k n _ _ h
          | true =>
            simp only at h ⊢
            cases hu : unify n s.σ l (Term.ofList ts) with
            | none => rw [hu] at h; simp at h
            | some o => rw [unify_mono k n s.σ l _ o hu]

theorem clauseLoop_mono {rec rec' : Term → St → Res} (hx : RExt rec rec') (k n : Nat)
    (goal : Term) (s : St) : ∀ (cls : List Clause), (clauseLoop rec n goal s cls).oof = false →
    clauseLoop rec' (n + k) goal s cls = clauseLoop rec n goal s cls := by
  intro cls
  induction cls with
  | nil => intro _; rfl
  | cons cl rest ih =>
    intro h
    simp only [clauseLoop] at h ⊢
    cases hu : unify n s.σ goal (rename (sfx s.ctr) cl.head) with
    | none => rw [hu] at h; simp at h
    | some o =>
      rw [hu] at h; rw [unify_mono k n s.σ goal _ o hu]
      cases o with
      | none => exact ih h
      | some σ' =>
        simp only at h ⊢
        cases ho : (rec (rename (sfx s.ctr) cl.body) ⟨σ', s.ctr + 1⟩).oof with
        | true => simp [ho] at h
        | false =>
          rw [hx _ _ ho]
          simp only [ho, Bool.false_eq_true, if_false] at h ⊢
          split at h
          · rename_i hc; simp only [if_pos hc]
          · rename_i hc; simp only [if_neg hc]
            cases ho2 : (clauseLoop rec n goal s rest).oof with
            | true => simp [ho2] at h
            | false => rw [ih ho2]; simp [ho2]

theorem userCall_mono {rec rec' : Term → St → Res} (hx : RExt rec rec') (k n : Nat) (prog : Prog)
    (s : St) (name : String) (args : List Term) (h : (userCall prog rec n s name args).oof = false) :
    userCall prog rec' (n + k) s name args = userCall prog rec n s name args := by
  unfold userCall at h ⊢
  cases hc : prog.filter (clauseMatches name args.length) with
  | nil => simp only [hc] at h ⊢; exact raise_mono k n s _ h
  | cons cl rest => simp only [hc] at h ⊢; exact clauseLoop_mono hx k n _ s _ h

theorem step_mono {rec rec' : Term → St → Res} (hx : RExt rec rec') (k n : Nat) (prog : Prog)
    (g : Term) (s : St) (h : (step prog rec n g s).oof = false) :
    step prog rec' (n + k) g s = step prog rec n g s := by
  unfold step at h ⊢
  cases hg : classify g with
  | tru => rfl
  | fal => rfl
  | cut => rfl
  | conj a b =>
    simp only [hg] at h ⊢
    exact conjRes_congr2 (hx a s) (hx.ext b) h
  | disj a b =>
    simp only [hg] at h ⊢
    exact disjRes_congr (hx a s) (hx b s) h
  | ite c t e =>
    simp only [hg] at h ⊢
    exact iteRes_congr (hx c s) (hx.ext t) (hx e s) h
  | ifThen c t =>
    simp only [hg] at h ⊢
    exact iteRes_congr (hx c s) (hx.ext t) (fun _ => rfl) h
  | naf g1 =>
    simp only [hg] at h ⊢
    exact nafRes_congr s (callGoal_mono hx k n s g1 []) h
  | once g1 =>
    simp only [hg] at h ⊢
    exact iteRes_congr (callGoal_mono hx k n s g1 []) (fun _ _ => rfl) (fun _ => rfl) h
  | call g1 extra =>
    simp only [hg] at h ⊢
    exact callGoal_mono hx k n s g1 extra h
  | var v =>
    simp only [hg] at h ⊢
    exact callGoal_mono hx k n s _ [] h
  | num t =>
    simp only [hg] at h ⊢
    exact raise_mono k n s _ h
  | «catch» g1 c r =>
    simp only [hg] at h ⊢
    exact catchRes_mono hx k n s g1 c r h
  | findall t g1 l =>
    simp only [hg] at h ⊢
    exact findallRes_mono hx k n s t g1 l h
  | «throw» b =>
    simp only [hg] at h ⊢
    exact throwRes_mono k n s b h
  | pred name args =>
    simp only [hg] at h ⊢
    have hb : builtin n name args s.σ s.ctr ≠ .oof := by
      intro hb; rw [hb] at h; simp at h
    rw [builtin_mono k n name args s.σ s.ctr hb]
    cases hd : builtin n name args s.σ s.ctr with
    | oof => exact absurd hd hb
    | fail => rfl
    | ok σ' => rfl
    | err f => rw [hd] at h; exact raise_mono k n s _ h
    | none => rw [hd] at h; exact userCall_mono hx k n prog s name args h

/-- KEY LEMMA (fuel monotonicity): a run that is not out of fuel is unchanged by more fuel. -/
theorem solve_mono (prog : Prog) (k : Nat) : ∀ (n : Nat) (g : Term) (s : St),
    (solve n prog g s).oof = false → solve (n + k) prog g s = solve n prog g s := by
  intro n
  induction n with
  | zero => intro g s h; simp [solve] at h
  | succ n ih =>
    intro g s h
    rw [Nat.succ_add]
    simp only [solve] at h ⊢
    exact step_mono (fun g s hs => ih g s hs) k n prog g s h

end Scryer.Solve
