import ScryerModel.Proofs.QuoteRead
/-! C55: minimality — a text that reads back as the atom with that very text is written unquoted. -/
namespace Scryer.Quote
open Scryer.CharClass

variable {u : UC}

theorem scanLayout_suffix (st : LState) (ins : Bool) (s : List Char) (lay : Bool) (s1 : List Char)
    (h : scanLayout u st ins s = some (lay, s1)) : ∃ pre, s = pre ++ s1 := by
  fun_induction scanLayout u st ins s <;> simp_all
  all_goals first
    | (obtain ⟨pre, hp⟩ := ‹∃ pre, _›; exact ⟨_ :: pre, by rw [hp]; rfl⟩)
    | (obtain ⟨pre, hp⟩ := ‹∃ pre, _›; exact ⟨_ :: _ :: pre, by rw [hp]; rfl⟩)
    | exact ⟨[], by simp [*]⟩

theorem spanP_spec (p : Char → Bool) (r : List Char) :
    (spanP p r).1 ++ (spanP p r).2 = r ∧ ∀ d ∈ (spanP p r).1, p d = true := by
  induction r with
  | nil => simp [spanP]
  | cons c r ih =>
    by_cases h : p c = true
    · simp [spanP, h, ih.1]; exact ih.2
    · simp [spanP, h]

theorem spanP_full {p : Char → Bool} {r : List Char} (h : (spanP p r).1.length = r.length) :
    ∀ d ∈ r, p d = true := by
  obtain ⟨h1, h2⟩ := spanP_spec p r
  have : (spanP p r).2 = [] := by
    have := congrArg List.length h1
    simp at this
    exact List.eq_nil_of_length_eq_zero (by omega)
  rw [this] at h1; simp at h1; rw [h1] at h2; exact h2

theorem quotedItems_length (q : Char) (st : QState) (acc r t rest : List Char)
    (h : quotedItems u q st acc r = some (t, rest)) : t.length + rest.length ≤ acc.length + r.length := by
  fun_induction quotedItems u q st acc r <;> simp_all <;> try omega
  all_goals (obtain ⟨h1, h2⟩ := h; subst h1 h2; simp; try omega)

theorem numberToken_not_name (cs : List Char) (t rest : List Char) : numberToken cs ≠ .tok (.name t) rest := by
  unfold numberToken
  intro h
  generalize spanP Char.isDigit cs = sp at h
  rcases sp with ⟨a, b⟩
  cases b with
  | nil => simp at h
  | cons c r =>
    simp only [] at h
    by_cases e1 : c = '_'
    · simp [e1] at h
    by_cases e2 : c = '.'
    · cases r with
      | nil => simp [e2] at h
      | cons d r' =>
        by_cases e3 : d.isDigit = true <;> simp [e2, e3] at h
    · by_cases e4 : (a == ['0'] && (c == 'x' || c == 'o' || c == 'b' || c == '\'')) = true
      · simp [e1, e2] at h; simp at e4; simp [e4] at h
      · simp [e1, e2] at h; simp at e4; split at h <;> simp at h

theorem nextTokAt_name_inv {lay : Bool} {c : Char} {r t rest : List Char}
    (h : nextTokAt u lay (c :: r) = .tok (.name t) rest) :
    nameToken u c r = .tok (.name t) rest ∧ ¬ (c = '.' ∧ r = []) := by
  by_cases h1 : (capital_letter_char u c || variable_indicator_char u c) = true
  · simp [nextTokAt, h1] at h
  by_cases h2 : c = ','
  · subst h2; simp [nextTokAt, h1] at h
  by_cases h3 : c = ')'
  · subst h3; simp [nextTokAt, h1] at h
  by_cases h4 : c = '('
  · subst h4; simp [nextTokAt, h1] at h; split at h <;> simp at h
  by_cases h5 : c = '.'
  · subst h5
    cases r with
    | nil => simp [nextTokAt, h1] at h
    | cons d r' =>
      by_cases h6 : (layout_char u d || d == '%') = true
      · simp [nextTokAt, h1, h6] at h; split at h <;> simp at h
      · simp [nextTokAt, h1, h6] at h; exact ⟨h, by simp⟩
  by_cases h7 : decimal_digit_char u c = true
  · simp [nextTokAt, h1, h2, h3, h4, h5, h7] at h; exact absurd h (numberToken_not_name _ _ _)
  by_cases h8 : c = ']'
  · subst h8; simp [nextTokAt, h1, h7] at h
  by_cases h9 : c = '['
  · subst h9; simp [nextTokAt, h1, h7] at h
  by_cases h10 : c = '|'
  · subst h10; simp [nextTokAt, h1, h7] at h
  by_cases h11 : c = '{'
  · subst h11; simp [nextTokAt, h1, h7] at h
  by_cases h12 : c = '}'
  · subst h12; simp [nextTokAt, h1, h7] at h
  by_cases h13 : c = '"'
  · subst h13; simp [nextTokAt, h1, h7] at h; split at h <;> simp at h
  by_cases h14 : c = Char.ofNat 0
  · subst h14; simp [nextTokAt, h1, h7] at h
  simp [nextTokAt, h1, h2, h3, h4, h5, h7, h8, h9, h10, h11, h12, h13, h14] at h
  exact ⟨h, by simp [h5]⟩

theorem name_full {p : Char → Bool} {c : Char} {r pre s : List Char} (hs : s = pre ++ c :: r)
    (ht : c :: (spanP p r).1 = s) : pre = [] ∧ ∀ d ∈ r, p d = true := by
  obtain ⟨h1, _⟩ := spanP_spec p r
  have l1 := congrArg List.length h1
  have l2 := congrArg List.length ht
  rw [hs] at l2
  simp at l1 l2
  have hp : pre = [] := List.eq_nil_of_length_eq_zero (by omega)
  exact ⟨hp, spanP_full (by omega)⟩

theorem nonQuoted_of_nextTok (hu : UCWF u) {s rest : List Char} (h : nextTok u s = .tok (.name s) rest) :
    nonQuotedToken u s = true := by
  unfold nextTok at h
  cases hs : scanLayout u .top false s with
  | none => simp [hs] at h
  | some p =>
    obtain ⟨lay, s1⟩ := p
    simp only [hs] at h
    obtain ⟨pre, hpre⟩ := scanLayout_suffix _ _ _ _ _ hs
    cases s1 with
    | nil => simp [nextTokAt] at h
    | cons c r =>
      obtain ⟨hn, hdot⟩ := nextTokAt_name_inv h
      unfold nameToken at hn
      by_cases k1 : small_letter_char u c = true
      · simp [k1] at hn
        obtain ⟨e, hall⟩ := name_full hpre hn.1
        subst e; simp at hpre; subst hpre
        rw [nonQuoted_small r k1]; simpa using hall
      by_cases k2 : graphic_token_char u c = true
      · simp [k1, k2] at hn
        obtain ⟨e, hall⟩ := name_full hpre hn.1
        subst e; simp at hpre; subst hpre
        rw [nonQuoted_graphic hu r k2, nonQuotedGraphic_iff]
        refine ⟨hall, ?_, hdot⟩
        rintro ⟨rfl, r', rfl⟩
        simp [scanLayout, layout_char, end_line_comment_char, comment_1_char, comment_2_char] at hs
        obtain ⟨pre', hp'⟩ := scanLayout_suffix _ _ _ _ _ hs
        have := congrArg List.length hp'
        simp at this; omega
      by_cases k3 : (cut_char u c || semicolon_char u c) = true
      · simp [k1, k2, k3] at hn
        have l := congrArg List.length hn.1
        rw [hpre] at l; simp at l
        have e1 : pre = [] := List.eq_nil_of_length_eq_zero (by omega)
        have e2 : r = [] := List.eq_nil_of_length_eq_zero (by omega)
        subst e1 e2; simp at hpre; subst hpre
        refine (nonQuoted_other [] (by simpa using k1) (by simpa using k2)).2 ?_
        simp [cut_char, semicolon_char] at k3
        rcases k3 with k3 | k3 <;> simp [k3]
      by_cases k4 : single_quote_char u c = true
      · simp [k1, k2, k3, k4] at hn
        split at hn
        · rename_i t rest' hq
          simp at hn
          have := quotedItems_length _ _ _ _ _ _ hq
          have l := congrArg List.length hn.1
          rw [hpre] at l; simp at l this; omega
        · simp at hn
      · simp [k1, k2, k3, k4] at hn

theorem tokens_head {s : List Char} {t : Tok} {ts : List Tok} (h : tokens u s = some (t :: ts)) :
    ∃ rest, nextTok u s = .tok t rest := by
  simp only [tokens, tokensFuel] at h
  split at h
  · simp at h
  · simp at h
  · rename_i t' rest hn
    simp at h
    obtain ⟨_, rfl⟩ := h
    exact ⟨rest, hn⟩

theorem nonQuoted_brackets (hu : UCWF u) : nonQuotedToken u ['[', ']'] = true ∧ nonQuotedToken u ['{', '}'] = true := by
  have s1 : small_letter_char u '[' = false := by rw [small_ascii hu (by decide)]; decide
  have s2 : small_letter_char u '{' = false := by rw [small_ascii hu (by decide)]; decide
  have g1 : graphic_token_char u '[' = false := by
    show graphic_token_char asciiUC '[' = false
    decide
  have g2 : graphic_token_char u '{' = false := by
    show graphic_token_char asciiUC '{' = false
    decide
  exact ⟨(nonQuoted_other _ s1 g1).2 (by simp), (nonQuoted_other _ s2 g2).2 (by simp)⟩

theorem nonQuoted_of_readAtom (hu : UCWF u) {s : List Char} (h : readAtom u s = some s) :
    nonQuotedToken u s = true := by
  unfold readAtom at h
  cases ht : tokens u s with
  | none => simp [ht] at h
  | some ts =>
    simp only [ht] at h
    unfold atomOfTokens at h
    split at h
    · simp at h; subst h
      obtain ⟨rest, hn⟩ := tokens_head ht
      exact nonQuoted_of_nextTok hu hn
    · simp at h; subst h; exact (nonQuoted_brackets hu).1
    · simp at h; subst h; exact (nonQuoted_brackets hu).2
    · simp at h

end Scryer.Quote
