import ScryerModel.Model.Delim
/-!
Lemmas about the frame-stack machine of `Model/Delim.lean` (C38 part A).
-/
namespace Scryer.Delim
open Scryer Scryer.Solve

/-- marker-free frames: goals only -/
abbrev goals (gs : List Term) : List Frame := gs.map Frame.goal

/-- zero or more machine steps -/
inductive Steps (tf : Nat) (P : Prog) : Cfg → Cfg → Prop where
  | refl (c : Cfg) : Steps tf P c c
  | head {c c' c'' : Cfg} : step tf P c = .next c' → Steps tf P c' c'' → Steps tf P c c''

theorem Steps.trans {tf : Nat} {P : Prog} {a b c : Cfg} (h1 : Steps tf P a b) (h2 : Steps tf P b c) :
    Steps tf P a c := by
  induction h1 with
  | refl => exact h2
  | head hs _ ih => exact .head hs (ih h2)

theorem Steps.single {tf : Nat} {P : Prog} {a b : Cfg} (h : step tf P a = .next b) : Steps tf P a b :=
  .head h (.refl b)

/-! ### walking and classifying concrete goals -/

theorem walk_str {tf : Nat} (h : 0 < tf) (σ : Subst) (f : String) (args : List Term) :
    walk tf σ (.str f args) = some (.str f args) := by
  cases tf with
  | zero => omega
  | succ n => simp [walk]

theorem walk_atom {tf : Nat} (h : 0 < tf) (σ : Subst) (a : String) :
    walk tf σ (.atom a) = some (.atom a) := by
  cases tf with
  | zero => omega
  | succ n => simp [walk]

theorem step_goal_str {tf : Nat} (h : 0 < tf) (P : Prog) (f : String) (args : List Term)
    (K : List Frame) (st : St) :
    step tf P ⟨.goal (.str f args) :: K, st⟩ =
      stepGoal tf P (.str f args) K st (classify (.str f args)) := by
  simp [step, walk_str h]

theorem step_goal_atom {tf : Nat} (h : 0 < tf) (P : Prog) (a : String) (K : List Frame) (st : St) :
    step tf P ⟨.goal (.atom a) :: K, st⟩ = stepGoal tf P (.atom a) K st (classify (.atom a)) := by
  simp [step, walk_atom h]

/-! ### splitting at the nearest marker -/

theorem splitAtMarker_goals (gs : List Term) (b c : Term) (K : List Frame) :
    splitAtMarker (goals gs ++ .marker b c :: K) = some (gs, b, c, K) := by
  induction gs with
  | nil => simp [goals, splitAtMarker]
  | cons g gs ih =>
      simp only [goals, List.map_cons, List.cons_append, splitAtMarker] at ih ⊢
      rw [ih]

theorem splitAtMarker_none (gs : List Term) : splitAtMarker (goals gs) = none := by
  induction gs with
  | nil => simp [goals, splitAtMarker]
  | cons g gs ih =>
      simp only [goals, List.map_cons, splitAtMarker] at ih ⊢
      rw [ih]

theorem splitAtMarker_append {F : List Frame} {k : List Term} {b c : Term} {rest : List Frame}
    (h : splitAtMarker F = some (k, b, c, rest)) (K : List Frame) :
    splitAtMarker (F ++ K) = some (k, b, c, rest ++ K) := by
  induction F generalizing k with
  | nil => simp [splitAtMarker] at h
  | cons f F ih =>
      cases f with
      | marker b' c' =>
          simp only [splitAtMarker, Option.some.injEq, Prod.mk.injEq] at h
          obtain ⟨rfl, rfl, rfl, rfl⟩ := h
          simp [splitAtMarker]
      | goal g =>
          simp only [splitAtMarker, List.cons_append] at h ⊢
          cases hs : splitAtMarker F with
          | none => simp [hs] at h
          | some r =>
              obtain ⟨k', b', c', rest'⟩ := r
              simp only [hs, Option.some.injEq, Prod.mk.injEq] at h
              obtain ⟨rfl, rfl, rfl, rfl⟩ := h
              rw [ih hs]

/-! ### continuation terms -/

theorem decode_encode : ∀ (gs : List Term) (tf : Nat), gs.length < tf →
    decodeGoals tf (encodeGoals gs) = some gs
  | [], tf, h => by
      cases tf with
      | zero => simp at h
      | succ n => simp [encodeGoals, Term.nil, decodeGoals]
  | g :: gs, tf, h => by
      cases tf with
      | zero => simp at h
      | succ n =>
          have := decode_encode gs n (by simpa using h)
          simp [encodeGoals, Term.cons, decodeGoals, this]

/-! ### stack locality -/

/-- A step that succeeds on the stack `F` succeeds in the same way on `F ++ K`: no rule looks
    below the nearest marker, and only `shift` looks below the top frame at all. -/
theorem step_append {tf : Nat} {P : Prog} {F F' : List Frame} {st st' : St}
    (h : step tf P ⟨F, st⟩ = .next ⟨F', st'⟩) (K : List Frame) :
    step tf P ⟨F ++ K, st⟩ = .next ⟨F' ++ K, st'⟩ := by
  cases F with
  | nil => simp [step] at h
  | cons f F =>
      cases f with
      | marker b c =>
          simp only [step, Step.next.injEq, Cfg.mk.injEq] at h
          obtain ⟨rfl, rfl⟩ := h
          simp [step]
      | goal g =>
          simp only [step, List.cons_append] at h ⊢
          cases hw : walk tf st.σ g with
          | none => simp [hw] at h
          | some g' =>
              simp only [hw] at h ⊢
              cases hk : classify g' with
              | var => simp [hk, stepGoal] at h
              | fal => simp [hk, stepGoal] at h
              | bad => simp [hk, stepGoal] at h
              | tru =>
                  simp only [hk, stepGoal, Step.next.injEq, Cfg.mk.injEq] at h ⊢
                  obtain ⟨rfl, rfl⟩ := h; simp
              | conj a b =>
                  simp only [hk, stepGoal, Step.next.injEq, Cfg.mk.injEq] at h ⊢
                  obtain ⟨rfl, rfl⟩ := h; simp
              | call a =>
                  simp only [hk, stepGoal, Step.next.injEq, Cfg.mk.injEq] at h ⊢
                  obtain ⟨rfl, rfl⟩ := h; simp
              | reset a b c =>
                  simp only [hk, stepGoal, Step.next.injEq, Cfg.mk.injEq] at h ⊢
                  obtain ⟨rfl, rfl⟩ := h; simp
              | shift t =>
                  simp only [hk, stepGoal] at h ⊢
                  cases hs : splitAtMarker F with
                  | none => simp [hs] at h
                  | some r =>
                      obtain ⟨k, b, c, rest⟩ := r
                      simp only [hs, Step.next.injEq, Cfg.mk.injEq] at h
                      obtain ⟨rfl, rfl⟩ := h
                      simp [splitAtMarker_append hs K]
              | cont l =>
                  simp only [hk, stepGoal] at h ⊢
                  cases hd : decodeGoals tf l with
                  | none => simp [hd] at h
                  | some gs =>
                      simp only [hd, Step.next.injEq, Cfg.mk.injEq] at h ⊢
                      obtain ⟨rfl, rfl⟩ := h; simp
              | ite c t e =>
                  simp only [hk, stepGoal] at h ⊢
                  cases ht : test tf st c with
                  | none => simp [ht] at h
                  | some r =>
                      cases r with
                      | none =>
                          simp only [ht, Step.next.injEq, Cfg.mk.injEq] at h ⊢
                          obtain ⟨rfl, rfl⟩ := h; simp
                      | some st2 =>
                          simp only [ht, Step.next.injEq, Cfg.mk.injEq] at h ⊢
                          obtain ⟨rfl, rfl⟩ := h; simp
              | pred f args =>
                  simp only [hk, stepGoal, callPred] at h ⊢
                  cases hb : builtin tf f args st.σ st.ctr with
                  | ok σ' =>
                      simp only [hb, Step.next.injEq, Cfg.mk.injEq] at h ⊢
                      obtain ⟨rfl, rfl⟩ := h; simp
                  | fail => simp [hb] at h
                  | err e => simp [hb] at h
                  | oof => simp [hb] at h
                  | none =>
                      simp only [hb] at h ⊢
                      by_cases hp : hasPred f args.length P = true
                      · rw [if_pos hp] at h ⊢
                        generalize matching tf st (if args.isEmpty then .atom f else .str f args) P = m at h ⊢
                        match m with
                        | none => simp at h
                        | some [] => simp at h
                        | some [(σ', body)] =>
                            simp only [Step.next.injEq, Cfg.mk.injEq] at h ⊢
                            obtain ⟨rfl, rfl⟩ := h; simp
                        | some (_ :: _ :: _) => simp at h
                      · rw [if_neg hp] at h; simp at h

theorem steps_append {tf : Nat} {P : Prog} {c c' : Cfg} (h : Steps tf P c c') (K : List Frame) :
    Steps tf P ⟨c.frames ++ K, c.st⟩ ⟨c'.frames ++ K, c'.st⟩ := by
  induction h with
  | refl => exact .refl _
  | head hs _ ih => exact .head (step_append hs K) ih

end Scryer.Delim
