import ScryerModel.Model.Reif
import ScryerModel.Proofs.Unify
/-
C54 — lemmas about the reified conditions of library(reif) (Model/Reif.lean):
declarative meaning of stores and conditions, soundness / completeness / exclusivity of the answers
of `call(C, T)`, "truth value bound at call time = filter", `if_/3` versus the explicit disjunction.
-/
namespace Scryer.Reif
open Scryer Scryer.Unify Scryer.Term

/-! ### declarative meaning -/

/-- the valuation `θ` satisfies the store: all posted equations hold, all posted disequalities hold. -/
def Sat (θ : String → Term) (s : Store) : Prop :=
  Unifies θ s.eqs ∧ ∀ p ∈ s.ds, p.1.subst θ ≠ p.2.subst θ

/-- the condition is true under `θ` (syntactic equality of the instances). -/
def holds (θ : String → Term) : Cond → Prop
  | .eq x y => x.subst θ = y.subst θ
  | .dif x y => x.subst θ ≠ y.subst θ
  | .and a b => holds θ a ∧ holds θ b
  | .or a b => holds θ a ∨ holds θ b

theorem sat_addEq {θ : String → Term} {s : Store} {x y : Term} :
    Sat θ (s.addEq x y) ↔ Sat θ s ∧ x.subst θ = y.subst θ := by
  simp only [Sat, Store.addEq, unifies_cons]
  constructor
  · rintro ⟨⟨h1, h2⟩, h3⟩; exact ⟨⟨h2, h3⟩, h1⟩
  · rintro ⟨⟨h2, h3⟩, h1⟩; exact ⟨⟨h1, h2⟩, h3⟩

theorem sat_addDif {θ : String → Term} {s : Store} {x y : Term} :
    Sat θ (s.addDif x y) ↔ Sat θ s ∧ x.subst θ ≠ y.subst θ := by
  simp only [Sat, Store.addDif, List.mem_cons]
  constructor
  · rintro ⟨h1, h2⟩
    exact ⟨⟨h1, fun p hp => h2 p (Or.inr hp)⟩, h2 (x, y) (Or.inl rfl)⟩
  · rintro ⟨⟨h1, h2⟩, h3⟩
    refine ⟨h1, fun p hp => ?_⟩
    cases hp with
    | inl h => subst h; exact h3
    | inr h => exact h2 p h

/-! ### the tests `==` and `\=` -/

theorem identical_sound {a b : Term} (h : identical a b = true) : a = b := by
  unfold identical at h
  split at h
  · rename_i heq
    have g := solve_nil_ok (unify_eq_some.mp heq)
    have := g.solves (a, b) (by simp)
    simpa [applyS] using this
  · cases h

theorem notUnifiable_sound {a b : Term} (h : notUnifiable a b = true) (θ : String → Term) :
    a.subst θ ≠ b.subst θ := by
  unfold notUnifiable at h
  rw [Option.isNone_iff_eq_none] at h
  intro he
  exact solve_nil_fail (unify_eq_none.mp h) θ (unifies_pair.mpr he)

theorem mgu_absorb {θ : String → Term} {s : Store} {σ : Subst} (hm : s.mgu = some σ)
    (hs : Sat θ s) (t : Term) : (applyS σ t).subst θ = t.subst θ :=
  (solve_nil_ok (unify_eq_some.mp hm)).mgu θ hs.1 t

theorem mgu_some_of_sat {θ : String → Term} {s : Store} (hs : Sat θ s) : ∃ σ, s.mgu = some σ := by
  cases hm : s.mgu with
  | some σ => exact ⟨σ, rfl⟩
  | none => exact absurd hs.1 (solve_nil_fail (unify_eq_none.mp hm) θ)

/-- a satisfiable store is consistent (so the branch is not dropped by `post`). -/
theorem consistent_of_sat {θ : String → Term} {s : Store} (hs : Sat θ s) : s.consistent = true := by
  obtain ⟨σ, hm⟩ := mgu_some_of_sat hs
  unfold Store.consistent
  rw [hm]
  simp only [List.all_eq_true, Bool.not_eq_true']
  intro p hp
  cases hi : identical (applyS σ p.1) (applyS σ p.2) with
  | false => rfl
  | true =>
    have e := identical_sound hi
    have h1 := mgu_absorb hm hs p.1
    have h2 := mgu_absorb hm hs p.2
    rw [e] at h1
    exact absurd (h1.symm.trans h2) (hs.2 p hp)

theorem mem_post {t t' : Bool} {s s' : Store} (h : (t', s') ∈ post t s) : t' = t ∧ s' = s := by
  unfold post at h
  split at h
  · simp at h; exact h
  · cases h

/-! ### `(=)/3` -/

theorem eqT_sound {θ : String → Term} {x y : Term} {tb : Option Bool} {s s' : Store} {t : Bool}
    (hm : (t, s') ∈ eqT x y tb s) (hs : Sat θ s') :
    Sat θ s ∧ (t = true ↔ x.subst θ = y.subst θ) ∧ unifT tb t = true := by
  unfold eqT at hm
  cases hg : s.mgu with
  | none => rw [hg] at hm; cases hm
  | some σ =>
    rw [hg] at hm
    simp only at hm
    split at hm
    · rename_i hi
      split at hm
      · rename_i hu
        simp at hm
        obtain ⟨rfl, rfl⟩ := hm
        refine ⟨hs, ?_, hu⟩
        have e := identical_sound hi
        have h1 := mgu_absorb hg hs x
        have h2 := mgu_absorb hg hs y
        rw [e] at h1
        simp [h1.symm.trans h2]
      · cases hm
    · split at hm
      · rename_i hn
        split at hm
        · rename_i hu
          simp at hm
          obtain ⟨rfl, rfl⟩ := hm
          refine ⟨hs, ?_, hu⟩
          have h1 := mgu_absorb hg hs x
          have h2 := mgu_absorb hg hs y
          have := notUnifiable_sound hn θ
          rw [h1, h2] at this
          simp [this]
        · cases hm
      · rw [List.mem_append] at hm
        cases hm with
        | inl h =>
          split at h
          · rename_i hu
            obtain ⟨rfl, rfl⟩ := mem_post h
            obtain ⟨h1, h2⟩ := sat_addEq.mp hs
            exact ⟨h1, by simp [h2], hu⟩
          · cases h
        | inr h =>
          split at h
          · rename_i hu
            obtain ⟨rfl, rfl⟩ := mem_post h
            obtain ⟨h1, h2⟩ := sat_addDif.mp hs
            exact ⟨h1, by simp [h2], hu⟩
          · cases h

theorem eqT_complete {θ : String → Term} (x y : Term) {s : Store} (hs : Sat θ s) :
    ∃ t s', (t, s') ∈ eqT x y none s ∧ Sat θ s' := by
  obtain ⟨σ, hg⟩ := mgu_some_of_sat hs
  unfold eqT
  rw [hg]
  simp only [unifT, if_true]
  split
  · exact ⟨true, s, by simp, hs⟩
  · split
    · exact ⟨false, s, by simp, hs⟩
    · by_cases he : x.subst θ = y.subst θ
      · have h1 : Sat θ (s.addEq x y) := sat_addEq.mpr ⟨hs, he⟩
        refine ⟨true, s.addEq x y, ?_, h1⟩
        simp [post, consistent_of_sat h1]
      · have h1 : Sat θ (s.addDif x y) := sat_addDif.mpr ⟨hs, he⟩
        refine ⟨false, s.addDif x y, ?_, h1⟩
        simp [post, consistent_of_sat h1]

/-- answers in the order "true first". -/
def TrueFirst {σ : Type} (l : List (Bool × σ)) : Prop :=
  ∃ l1 l2, l = l1 ++ l2 ∧ (∀ p ∈ l1, p.1 = true) ∧ (∀ p ∈ l2, p.1 = false)

theorem eqT_trueFirst (x y : Term) (s : Store) : TrueFirst (eqT x y none s) := by
  unfold eqT
  cases s.mgu with
  | none => exact ⟨[], [], rfl, by simp, by simp⟩
  | some σ =>
    simp only [unifT, if_true]
    split
    · exact ⟨[(true, s)], [], rfl, by simp, by simp⟩
    · split
      · exact ⟨[], [(false, s)], rfl, by simp, by simp⟩
      · refine ⟨post true (s.addEq x y), post false (s.addDif x y), rfl, ?_, ?_⟩
        · intro p hp; exact (mem_post (t' := p.1) (s' := p.2) hp).1
        · intro p hp; exact (mem_post (t' := p.1) (s' := p.2) hp).1

/-! ### `call(C, T)` in general -/

theorem evalC_sound {θ : String → Term} (c : Cond) :
    ∀ (tb : Option Bool) (s s' : Store) (t : Bool), (t, s') ∈ evalC c tb s → Sat θ s' →
      Sat θ s ∧ (t = true ↔ holds θ c) ∧ unifT tb t = true := by
  induction c with
  | eq x y => intro tb s s' t hm hs; exact eqT_sound hm hs
  | dif x y =>
    intro tb s s' t hm hs
    simp only [evalC, List.mem_filterMap] at hm
    obtain ⟨p, hp, hq⟩ := hm
    split at hq
    · rename_i hu
      simp only [Option.some.injEq, Prod.mk.injEq] at hq
      obtain ⟨rfl, rfl⟩ := hq
      obtain ⟨h1, h2, _⟩ := eqT_sound (θ := θ) (t := p.1) (s' := p.2) hp hs
      refine ⟨h1, ?_, hu⟩
      simp only [holds]
      cases hp1 : p.1 <;> simp [hp1] at h2 ⊢ <;> exact h2
    · cases hq
  | and a b iha ihb =>
    intro tb s s' t hm hs
    simp only [evalC, List.mem_flatMap] at hm
    obtain ⟨p, hp, hq⟩ := hm
    cases hp1 : p.1 with
    | true =>
      rw [hp1] at hq
      simp only [if_true] at hq
      obtain ⟨h1, h2, h3⟩ := ihb tb p.2 s' t hq hs
      obtain ⟨g1, g2, _⟩ := iha none s p.2 p.1 hp h1
      refine ⟨g1, ?_, h3⟩
      simp only [holds]
      rw [h2]
      have : holds θ a := g2.mp hp1
      simp [this]
    | false =>
      rw [hp1] at hq
      simp only [Bool.false_eq_true, if_false] at hq
      split at hq
      · rename_i hu
        simp at hq
        obtain ⟨rfl, rfl⟩ := hq
        obtain ⟨g1, g2, _⟩ := iha none s p.2 p.1 hp hs
        refine ⟨g1, ?_, hu⟩
        simp only [holds]
        have : ¬ holds θ a := fun h => by simp [g2.mpr h] at hp1
        simp [this]
      · cases hq
  | or a b iha ihb =>
    intro tb s s' t hm hs
    simp only [evalC, List.mem_flatMap] at hm
    obtain ⟨p, hp, hq⟩ := hm
    cases hp1 : p.1 with
    | true =>
      rw [hp1] at hq
      simp only [if_true] at hq
      split at hq
      · rename_i hu
        simp at hq
        obtain ⟨rfl, rfl⟩ := hq
        obtain ⟨g1, g2, _⟩ := iha none s p.2 p.1 hp hs
        refine ⟨g1, ?_, hu⟩
        simp only [holds]
        have : holds θ a := g2.mp hp1
        simp [this]
      · cases hq
    | false =>
      rw [hp1] at hq
      simp only [Bool.false_eq_true, if_false] at hq
      obtain ⟨h1, h2, h3⟩ := ihb tb p.2 s' t hq hs
      obtain ⟨g1, g2, _⟩ := iha none s p.2 p.1 hp h1
      refine ⟨g1, ?_, h3⟩
      simp only [holds]
      rw [h2]
      have : ¬ holds θ a := fun h => by simp [g2.mpr h] at hp1
      simp [this]

theorem evalC_complete {θ : String → Term} (c : Cond) :
    ∀ (s : Store), Sat θ s → ∃ t s', (t, s') ∈ evalC c none s ∧ Sat θ s' := by
  induction c with
  | eq x y => intro s hs; exact eqT_complete x y hs
  | dif x y =>
    intro s hs
    obtain ⟨t, s', hm, hs'⟩ := eqT_complete x y hs
    refine ⟨!t, s', ?_, hs'⟩
    simp only [evalC, List.mem_filterMap]
    exact ⟨(t, s'), hm, by simp [unifT]⟩
  | and a b iha ihb =>
    intro s hs
    obtain ⟨ta, s1, hm1, hs1⟩ := iha s hs
    cases ta with
    | true =>
      obtain ⟨tb, s2, hm2, hs2⟩ := ihb s1 hs1
      refine ⟨tb, s2, ?_, hs2⟩
      simp only [evalC, List.mem_flatMap]
      exact ⟨(true, s1), hm1, by simpa using hm2⟩
    | false =>
      refine ⟨false, s1, ?_, hs1⟩
      simp only [evalC, List.mem_flatMap]
      exact ⟨(false, s1), hm1, by simp [unifT]⟩
  | or a b iha ihb =>
    intro s hs
    obtain ⟨ta, s1, hm1, hs1⟩ := iha s hs
    cases ta with
    | true =>
      refine ⟨true, s1, ?_, hs1⟩
      simp only [evalC, List.mem_flatMap]
      exact ⟨(true, s1), hm1, by simp [unifT]⟩
    | false =>
      obtain ⟨tb, s2, hm2, hs2⟩ := ihb s1 hs1
      refine ⟨tb, s2, ?_, hs2⟩
      simp only [evalC, List.mem_flatMap]
      exact ⟨(false, s1), hm1, by simpa using hm2⟩

/-- no valuation satisfies two different answers. -/
def Excl (θ : String → Term) (a b : Bool × Store) : Prop := ¬ (Sat θ a.2 ∧ Sat θ b.2)

theorem eqT_exclusive (θ : String → Term) (x y : Term) (tb : Option Bool) (s : Store) :
    List.Pairwise (Excl θ) (eqT x y tb s) := by
  unfold eqT
  cases s.mgu with
  | none => exact List.Pairwise.nil
  | some σ =>
    simp only
    split
    · split <;> simp
    · split
      · split <;> simp
      · rw [List.pairwise_append]
        refine ⟨?_, ?_, ?_⟩
        · split
          · unfold post; split <;> simp
          · exact List.Pairwise.nil
        · split
          · unfold post; split <;> simp
          · exact List.Pairwise.nil
        · intro p hp q hq
          split at hp
          · split at hq
            · obtain ⟨_, h2⟩ := mem_post (t' := p.1) (s' := p.2) hp
              obtain ⟨_, h4⟩ := mem_post (t' := q.1) (s' := q.2) hq
              rintro ⟨g1, g2⟩
              rw [h2] at g1; rw [h4] at g2
              exact (sat_addDif.mp g2).2 (sat_addEq.mp g1).2
            · cases hq
          · cases hp

theorem evalC_exclusive (θ : String → Term) (c : Cond) :
    ∀ (tb : Option Bool) (s : Store), List.Pairwise (Excl θ) (evalC c tb s) := by
  induction c with
  | eq x y => intro tb s; exact eqT_exclusive θ x y tb s
  | dif x y =>
    intro tb s
    simp only [evalC]
    refine List.Pairwise.filterMap _ ?_ (eqT_exclusive θ x y none s)
    intro p q hpq p' hp' q' hq'
    split at hp' <;> split at hq' <;> simp at hp' hq'
    subst hp' hq'
    exact hpq
  | and a b iha ihb =>
    intro tb s
    simp only [evalC]
    rw [List.pairwise_flatMap]
    refine ⟨?_, ?_⟩
    · intro p _
      split
      · exact ihb tb p.2
      · split <;> simp
    · refine List.Pairwise.imp_of_mem ?_ (iha none s)
      intro p q hp hq hpq x hx y hy ⟨g1, g2⟩
      apply hpq
      constructor
      · split at hx
        · exact (evalC_sound b tb p.2 x.2 x.1 hx g1).1
        · split at hx
          · simp at hx; rw [hx] at g1; exact g1
          · cases hx
      · split at hy
        · exact (evalC_sound b tb q.2 y.2 y.1 hy g2).1
        · split at hy
          · simp at hy; rw [hy] at g2; exact g2
          · cases hy
  | or a b iha ihb =>
    intro tb s
    simp only [evalC]
    rw [List.pairwise_flatMap]
    refine ⟨?_, ?_⟩
    · intro p _
      split
      · split <;> simp
      · exact ihb tb p.2
    · refine List.Pairwise.imp_of_mem ?_ (iha none s)
      intro p q hp hq hpq x hx y hy ⟨g1, g2⟩
      apply hpq
      constructor
      · split at hx
        · split at hx
          · simp at hx; rw [hx] at g1; exact g1
          · cases hx
        · exact (evalC_sound b tb p.2 x.2 x.1 hx g1).1
      · split at hy
        · split at hy
          · simp at hy; rw [hy] at g2; exact g2
          · cases hy
        · exact (evalC_sound b tb q.2 y.2 y.1 hy g2).1

/-! ### truth value bound at call time = filtering the answers -/

theorem eqT_bound (x y : Term) (t : Bool) (s : Store) :
    eqT x y (some t) s = (eqT x y none s).filter (fun p => p.1 == t) := by
  unfold eqT
  cases s.mgu with
  | none => rfl
  | some σ =>
    simp only [unifT, if_true]
    split
    · cases t <;> simp
    · split
      · cases t <;> simp
      · rw [List.filter_append]
        unfold post
        cases t <;> cases (s.addEq x y).consistent <;> cases (s.addDif x y).consistent <;> simp

theorem evalC_bound (c : Cond) : ∀ (t : Bool) (s : Store),
    evalC c (some t) s = (evalC c none s).filter (fun p => p.1 == t) := by
  induction c with
  | eq x y => intro t s; exact eqT_bound x y t s
  | dif x y =>
    intro t s
    simp only [evalC, unifT, if_true]
    generalize eqT x y none s = l
    induction l with
    | nil => rfl
    | cons p l ih =>
      simp only [List.filterMap_cons]
      rw [ih]
      cases hp : p.1 <;> cases t <;> simp [hp]
  | and a b iha ihb =>
    intro t s
    simp only [evalC]
    rw [List.filter_flatMap]
    congr 1
    funext p
    cases hp : p.1 with
    | true => simp only [if_true]; exact ihb t p.2
    | false => cases t <;> simp [unifT]
  | or a b iha ihb =>
    intro t s
    simp only [evalC]
    rw [List.filter_flatMap]
    congr 1
    funext p
    cases hp : p.1 with
    | true => cases t <;> simp [unifT]
    | false => simp only [Bool.false_eq_true, if_false]; exact ihb t p.2

/-! ### `if_/3` versus the explicit disjunction -/

theorem flatMap_ite_perm {σ α : Type} (f g : σ → List α) (l : List (Bool × σ)) :
    List.Perm (l.flatMap fun p => if p.1 then f p.2 else g p.2)
      ((l.filter (fun p => p.1 == true)).flatMap (fun p => f p.2) ++
       (l.filter (fun p => p.1 == false)).flatMap (fun p => g p.2)) := by
  induction l with
  | nil => exact List.Perm.refl _
  | cons p l ih =>
    cases hp : p.1 with
    | true =>
      simp only [List.flatMap_cons, hp, if_true, List.filter_cons, beq_self_eq_true,
        Bool.true_eq_false, Bool.false_eq_true, if_false, beq_iff_eq, List.append_assoc]
      exact List.Perm.append_left _ ih
    | false =>
      simp only [List.flatMap_cons, hp, Bool.false_eq_true, if_false, List.filter_cons,
        beq_iff_eq, beq_self_eq_true, if_true]
      refine (List.Perm.append_left _ ih).trans ?_
      rw [← List.append_assoc, ← List.append_assoc]
      exact List.Perm.append_right _ List.perm_append_comm

theorem flatMap_ite_trueFirst {σ α : Type} (f g : σ → List α) (l : List (Bool × σ))
    (h : TrueFirst l) :
    (l.flatMap fun p => if p.1 then f p.2 else g p.2) =
      ((l.filter (fun p => p.1 == true)).flatMap (fun p => f p.2) ++
       (l.filter (fun p => p.1 == false)).flatMap (fun p => g p.2)) := by
  obtain ⟨l1, l2, rfl, h1, h2⟩ := h
  have a1 : l1.filter (fun p => p.1 == true) = l1 := by
    rw [List.filter_eq_self]; intro p hp; simp [h1 p hp]
  have a2 : l2.filter (fun p => p.1 == true) = [] := by
    rw [List.filter_eq_nil_iff]; intro p hp; simp [h2 p hp]
  have a3 : l1.filter (fun p => p.1 == false) = [] := by
    rw [List.filter_eq_nil_iff]; intro p hp; simp [h1 p hp]
  have a4 : l2.filter (fun p => p.1 == false) = l2 := by
    rw [List.filter_eq_self]; intro p hp; simp [h2 p hp]
  rw [List.filter_append, List.filter_append, a1, a2, a3, a4, List.flatMap_append]
  simp only [List.append_nil, List.nil_append]
  congr 1
  · clear a1 a3
    induction l1 with
    | nil => rfl
    | cons p l ih =>
      simp only [List.flatMap_cons]
      rw [ih (fun q hq => h1 q (List.mem_cons_of_mem _ hq)), h1 p (List.mem_cons_self ..)]
      simp
  · clear a2 a4
    induction l2 with
    | nil => rfl
    | cons p l ih =>
      simp only [List.flatMap_cons]
      rw [ih (fun q hq => h2 q (List.mem_cons_of_mem _ hq)), h2 p (List.mem_cons_self ..)]
      simp

theorem ifSpec_eq {α : Type} (c : Cond) (thenK elseK : Store → List α) (s : Store) :
    ifSpec c thenK elseK s =
      (((evalC c none s).filter (fun p => p.1 == true)).flatMap (fun p => thenK p.2) ++
       ((evalC c none s).filter (fun p => p.1 == false)).flatMap (fun p => elseK p.2)) := by
  unfold ifSpec
  rw [evalC_bound c true s, evalC_bound c false s]

theorem ifT_perm {α : Type} (c : Cond) (thenK elseK : Store → List α) (s : Store) :
    List.Perm (ifT c thenK elseK s) (ifSpec c thenK elseK s) := by
  rw [ifSpec_eq]
  exact flatMap_ite_perm thenK elseK _

theorem ifT_eq_of_trueFirst {α : Type} (c : Cond) (thenK elseK : Store → List α) (s : Store)
    (h : TrueFirst (evalC c none s)) : ifT c thenK elseK s = ifSpec c thenK elseK s := by
  rw [ifSpec_eq]
  exact flatMap_ite_trueFirst thenK elseK _ h

theorem perm_flatMap_left {α β : Type} (l : List α) {f g : α → List β}
    (h : ∀ a ∈ l, List.Perm (f a) (g a)) : List.Perm (l.flatMap f) (l.flatMap g) := by
  induction l with
  | nil => exact List.Perm.refl _
  | cons a l ih =>
    simp only [List.flatMap_cons]
    exact List.Perm.append (h a (List.mem_cons_self ..))
      (ih (fun b hb => h b (List.mem_cons_of_mem _ hb)))

theorem ifSpec_perm_congr {α : Type} (c : Cond) {t1 t2 e1 e2 : Store → List α} (s : Store)
    (ht : ∀ s1, List.Perm (t1 s1) (t2 s1)) (he : ∀ s1, List.Perm (e1 s1) (e2 s1)) :
    List.Perm (ifSpec c t1 e1 s) (ifSpec c t2 e2 s) := by
  unfold ifSpec
  exact List.Perm.append (perm_flatMap_left _ (fun p _ => ht p.2))
    (perm_flatMap_left _ (fun p _ => he p.2))

theorem mem_ifT {α : Type} {c : Cond} {thenK elseK : Store → List α} {s : Store} {x : α} :
    x ∈ ifT c thenK elseK s ↔
      ∃ p ∈ evalC c none s, (p.1 = true ∧ x ∈ thenK p.2) ∨ (p.1 = false ∧ x ∈ elseK p.2) := by
  simp only [ifT, List.mem_flatMap]
  constructor
  · rintro ⟨p, hp, hx⟩
    refine ⟨p, hp, ?_⟩
    cases h : p.1 <;> simp [h] at hx ⊢ <;> exact hx
  · rintro ⟨p, hp, hx⟩
    refine ⟨p, hp, ?_⟩
    cases h : p.1 <;> simp [h] at hx ⊢ <;> exact hx

/-! ### the list predicates -/

theorem tfilterM_eq_spec (p : Term → Cond) (hp : ∀ e s, TrueFirst (evalC (p e) none s)) :
    ∀ xs s, tfilterM p xs s = tfilterSpec p xs s := by
  intro xs
  induction xs with
  | nil => intro s; rfl
  | cons e es ih =>
    intro s
    simp only [tfilterM, tfilterSpec]
    rw [ifT_eq_of_trueFirst _ _ _ _ (hp e s)]
    have e1 : (fun s1 => (tfilterM p es s1).map fun q => (e :: q.1, q.2)) =
        (fun s1 => (tfilterSpec p es s1).map fun q => (e :: q.1, q.2)) := by funext s1; rw [ih]
    have e2 : (fun s1 => tfilterM p es s1) = (fun s1 => tfilterSpec p es s1) := by funext s1; rw [ih]
    rw [e1, e2]

theorem tfilterM_perm_spec (p : Term → Cond) :
    ∀ xs s, List.Perm (tfilterM p xs s) (tfilterSpec p xs s) := by
  intro xs
  induction xs with
  | nil => intro s; exact List.Perm.refl _
  | cons e es ih =>
    intro s
    simp only [tfilterM, tfilterSpec]
    exact (ifT_perm _ _ _ s).trans
      (ifSpec_perm_congr _ s (fun s1 => (ih s1).map _) (fun s1 => ih s1))

theorem tpartitionM_eq_spec (p : Term → Cond) (hp : ∀ e s, TrueFirst (evalC (p e) none s)) :
    ∀ xs s, tpartitionM p xs s = tpartitionSpec p xs s := by
  intro xs
  induction xs with
  | nil => intro s; rfl
  | cons e es ih =>
    intro s
    simp only [tpartitionM, tpartitionSpec]
    rw [ifT_eq_of_trueFirst _ _ _ _ (hp e s)]
    have e1 : (fun s1 => (tpartitionM p es s1).map fun q => ((e :: q.1.1, q.1.2), q.2)) =
        (fun s1 => (tpartitionSpec p es s1).map fun q => ((e :: q.1.1, q.1.2), q.2)) := by
      funext s1; rw [ih]
    have e2 : (fun s1 => (tpartitionM p es s1).map fun q => ((q.1.1, e :: q.1.2), q.2)) =
        (fun s1 => (tpartitionSpec p es s1).map fun q => ((q.1.1, e :: q.1.2), q.2)) := by
      funext s1; rw [ih]
    rw [e1, e2]

theorem tpartitionM_perm_spec (p : Term → Cond) :
    ∀ xs s, List.Perm (tpartitionM p xs s) (tpartitionSpec p xs s) := by
  intro xs
  induction xs with
  | nil => intro s; exact List.Perm.refl _
  | cons e es ih =>
    intro s
    simp only [tpartitionM, tpartitionSpec]
    exact (ifT_perm _ _ _ s).trans
      (ifSpec_perm_congr _ s (fun s1 => (ih s1).map _) (fun s1 => (ih s1).map _))

theorem tmemberTM_eq_spec (p : Term → Cond) (hp : ∀ e s, TrueFirst (evalC (p e) none s)) :
    ∀ xs s, tmemberTM p xs s = tmemberTSpec p xs s := by
  intro xs
  induction xs with
  | nil => intro s; rfl
  | cons e es ih =>
    intro s
    simp only [tmemberTM, tmemberTSpec]
    rw [ifT_eq_of_trueFirst _ _ _ _ (hp e s)]
    have e2 : (fun s1 => tmemberTM p es s1) = (fun s1 => tmemberTSpec p es s1) := by
      funext s1; rw [ih]
    rw [e2]

theorem tmemberTM_perm_spec (p : Term → Cond) :
    ∀ xs s, List.Perm (tmemberTM p xs s) (tmemberTSpec p xs s) := by
  intro xs
  induction xs with
  | nil => intro s; exact List.Perm.refl _
  | cons e es ih =>
    intro s
    simp only [tmemberTM, tmemberTSpec]
    exact (ifT_perm _ _ _ s).trans
      (ifSpec_perm_congr _ s (fun _ => List.Perm.refl _) (fun s1 => ih s1))

theorem tmemberM_perm_spec (p : Term → Cond) :
    ∀ xs s, List.Perm (tmemberM p xs s) (tmemberSpec p xs s) := by
  intro xs
  induction xs with
  | nil => intro s; exact List.Perm.refl _
  | cons e es ih =>
    intro s
    simp only [tmemberM, tmemberSpec]
    exact (ifT_perm _ _ _ s).trans
      (ifSpec_perm_congr _ s (fun _ => List.Perm.refl _) (fun s1 => ih s1))

theorem tmemberM_eq_spec (p : Term → Cond) (hp : ∀ e s, TrueFirst (evalC (p e) none s)) :
    ∀ xs s, tmemberM p xs s = tmemberSpec p xs s := by
  intro xs
  induction xs with
  | nil => intro s; rfl
  | cons e es ih =>
    intro s
    simp only [tmemberM, tmemberSpec]
    rw [ifT_eq_of_trueFirst _ _ _ _ (hp e s)]
    have e2 : (fun s1 => tmemberM p es s1) = (fun s1 => tmemberSpec p es s1) := by
      funext s1; rw [ih]
    rw [e2]

/-- `fs` is `xs` filtered by the truth of `p` under `θ`. -/
inductive Filt (θ : String → Term) (p : Term → Cond) : List Term → List Term → Prop where
  | nil : Filt θ p [] []
  | keep {e es fs} : holds θ (p e) → Filt θ p es fs → Filt θ p (e :: es) (e :: fs)
  | drop {e es fs} : ¬ holds θ (p e) → Filt θ p es fs → Filt θ p (e :: es) fs

theorem tfilterM_sound {θ : String → Term} (p : Term → Cond) :
    ∀ xs s fs s', (fs, s') ∈ tfilterM p xs s → Sat θ s' → Sat θ s ∧ Filt θ p xs fs := by
  intro xs
  induction xs with
  | nil =>
    intro s fs s' hm hs
    simp [tfilterM] at hm
    obtain ⟨rfl, rfl⟩ := hm
    exact ⟨hs, .nil⟩
  | cons e es ih =>
    intro s fs s' hm hs
    simp only [tfilterM] at hm
    obtain ⟨q, hq, hx⟩ := mem_ifT.mp hm
    cases hx with
    | inl h =>
      obtain ⟨hq1, hmem⟩ := h
      rw [List.mem_map] at hmem
      obtain ⟨r, hr, he⟩ := hmem
      simp only [Prod.mk.injEq] at he
      obtain ⟨rfl, rfl⟩ := he
      obtain ⟨h1, h2⟩ := ih q.2 r.1 r.2 hr hs
      obtain ⟨g1, g2, _⟩ := evalC_sound (θ := θ) (p e) none s q.2 q.1 hq h1
      exact ⟨g1, .keep (g2.mp hq1) h2⟩
    | inr h =>
      obtain ⟨hq1, hmem⟩ := h
      obtain ⟨h1, h2⟩ := ih q.2 fs s' hmem hs
      obtain ⟨g1, g2, _⟩ := evalC_sound (θ := θ) (p e) none s q.2 q.1 hq h1
      exact ⟨g1, .drop (fun hh => by simp [g2.mpr hh] at hq1) h2⟩

theorem tfilterM_complete {θ : String → Term} (p : Term → Cond) :
    ∀ xs s, Sat θ s → ∃ fs s', (fs, s') ∈ tfilterM p xs s ∧ Sat θ s' := by
  intro xs
  induction xs with
  | nil => intro s hs; exact ⟨[], s, by simp [tfilterM], hs⟩
  | cons e es ih =>
    intro s hs
    obtain ⟨t, s1, hm1, hs1⟩ := evalC_complete (θ := θ) (p e) s hs
    obtain ⟨fs, s2, hm2, hs2⟩ := ih s1 hs1
    cases t with
    | true =>
      refine ⟨e :: fs, s2, ?_, hs2⟩
      simp only [tfilterM]
      exact mem_ifT.mpr ⟨(true, s1), hm1, Or.inl ⟨rfl, List.mem_map.mpr ⟨(fs, s2), hm2, rfl⟩⟩⟩
    | false =>
      refine ⟨fs, s2, ?_, hs2⟩
      simp only [tfilterM]
      exact mem_ifT.mpr ⟨(false, s1), hm1, Or.inr ⟨rfl, hm2⟩⟩

theorem tmemberTM_sound {θ : String → Term} (p : Term → Cond) :
    ∀ xs s t s', (t, s') ∈ tmemberTM p xs s → Sat θ s' →
      Sat θ s ∧ (t = true ↔ ∃ x ∈ xs, holds θ (p x)) := by
  intro xs
  induction xs with
  | nil =>
    intro s t s' hm hs
    simp [tmemberTM] at hm
    obtain ⟨rfl, rfl⟩ := hm
    exact ⟨hs, by simp⟩
  | cons e es ih =>
    intro s t s' hm hs
    simp only [tmemberTM] at hm
    obtain ⟨q, hq, hx⟩ := mem_ifT.mp hm
    cases hx with
    | inl h =>
      obtain ⟨hq1, hmem⟩ := h
      simp at hmem
      obtain ⟨rfl, rfl⟩ := hmem
      obtain ⟨g1, g2, _⟩ := evalC_sound (θ := θ) (p e) none s q.2 q.1 hq hs
      exact ⟨g1, by simp [g2.mp hq1]⟩
    | inr h =>
      obtain ⟨hq1, hmem⟩ := h
      obtain ⟨h1, h2⟩ := ih q.2 t s' hmem hs
      obtain ⟨g1, g2, _⟩ := evalC_sound (θ := θ) (p e) none s q.2 q.1 hq h1
      have hn : ¬ holds θ (p e) := fun hh => by simp [g2.mpr hh] at hq1
      refine ⟨g1, ?_⟩
      rw [h2]
      simp [hn]

theorem tmemberTM_complete {θ : String → Term} (p : Term → Cond) :
    ∀ xs s, Sat θ s → ∃ t s', (t, s') ∈ tmemberTM p xs s ∧ Sat θ s' := by
  intro xs
  induction xs with
  | nil => intro s hs; exact ⟨false, s, by simp [tmemberTM], hs⟩
  | cons e es ih =>
    intro s hs
    obtain ⟨t, s1, hm1, hs1⟩ := evalC_complete (θ := θ) (p e) s hs
    cases t with
    | true =>
      refine ⟨true, s1, ?_, hs1⟩
      simp only [tmemberTM]
      exact mem_ifT.mpr ⟨(true, s1), hm1, Or.inl ⟨rfl, by simp⟩⟩
    | false =>
      obtain ⟨t2, s2, hm2, hs2⟩ := ih s1 hs1
      refine ⟨t2, s2, ?_, hs2⟩
      simp only [tmemberTM]
      exact mem_ifT.mpr ⟨(false, s1), hm1, Or.inr ⟨rfl, hm2⟩⟩

end Scryer.Reif
