import ScryerModel.Model.NumCmp
import Mathlib.Algebra.Order.Field.Basic
import Mathlib.Data.Rat.Cast.Order
import Mathlib.Tactic.Linarith
import Mathlib.Tactic.Ring
/-
Lemmas for C04: the comparison of extended values is the order of ℚ on finite values and a total
preorder on all well-formed values; the 16 arms of `cmpWith` against the specification.
-/
namespace Scryer.F64

theorem cmpInt_swap (a b : Int) : compare a b = (compare b a).swap := by
  rcases lt_trichotomy a b with h | h | h
  · rw [compare_lt_iff_lt.mpr h, compare_gt_iff_gt.mpr h]; rfl
  · subst h; simp
  · rw [compare_gt_iff_gt.mpr h, compare_lt_iff_lt.mpr h]; rfl

theorem fracCmp_swap (n1 n2 : Int) (d1 d2 : Nat) :
    fracCmp n1 d1 n2 d2 = (fracCmp n2 d2 n1 d1).swap := by
  unfold fracCmp; exact cmpInt_swap _ _

theorem fracCmp_eq_compare (n1 n2 : Int) (d1 d2 : Nat) (h1 : 0 < d1) (h2 : 0 < d2) :
    fracCmp n1 d1 n2 d2 = compare ((n1:ℚ)/d1) ((n2:ℚ)/d2) := by
  have hd1 : (0:ℚ) < d1 := by exact_mod_cast h1
  have hd2 : (0:ℚ) < d2 := by exact_mod_cast h2
  unfold fracCmp
  rcases lt_trichotomy (n1 * (d2:Int)) (n2 * (d1:Int)) with h | h | h
  · rw [compare_lt_iff_lt.mpr h, eq_comm, compare_lt_iff_lt, div_lt_div_iff₀ hd1 hd2]
    exact_mod_cast h
  · rw [compare_eq_iff_eq.mpr h, eq_comm, compare_eq_iff_eq, div_eq_div_iff hd1.ne' hd2.ne']
    exact_mod_cast h
  · rw [compare_gt_iff_gt.mpr h, eq_comm, compare_gt_iff_gt, div_lt_div_iff₀ hd2 hd1]
    exact_mod_cast h

theorem fracCmp_int (a b : Int) : fracCmp a 1 b 1 = compare a b := by
  simp [fracCmp]

theorem XVal.cmp_swap (x y : XVal) : XVal.cmp x y = (XVal.cmp y x).swap := by
  cases x <;> cases y <;> simp [XVal.cmp, Ordering.swap]
  exact fracCmp_swap _ _ _ _

theorem cmp_swap (a b : F64) : cmp a b = (cmp b a).swap := XVal.cmp_swap _ _

/-- well-formed extended value: positive denominator. -/
def XVal.wf : XVal → Prop
  | .fin _ d => 0 < d
  | _ => True

/-- the rational value of a finite extended value (0 otherwise). -/
def XVal.toQ : XVal → ℚ
  | .fin n d => (n : ℚ) / d
  | _ => 0

def XVal.isFin : XVal → Bool
  | .fin _ _ => true
  | _ => false

theorem dyadic_wf (neg : Bool) (m : Nat) (s : Int) : (dyadic neg m s).wf := by
  by_cases hs : s ≥ 0 <;> simp [dyadic, hs, XVal.wf]

theorem toX_wf (f : F64) : (toX f).wf := by
  unfold toX
  split
  · split
    · trivial
    · split <;> trivial
  · exact dyadic_wf _ _ _

/-- rank of the four kinds. -/
def XVal.kind : XVal → Int
  | .negInf => -1 | .fin _ _ => 0 | .posInf => 1 | .nan => 2

theorem XVal.cmp_fin (x y : XVal) (hx : x.wf) (hy : y.wf) (fx : x.isFin) (fy : y.isFin) :
    XVal.cmp x y = compare x.toQ y.toQ := by
  cases x <;> cases y <;> simp_all [XVal.isFin]
  exact fracCmp_eq_compare _ _ _ _ hx hy

theorem XVal.cmp_kind (x y : XVal) (h : x.kind ≠ y.kind) :
    XVal.cmp x y = compare x.kind y.kind := by
  cases x <;> cases y <;> simp_all [XVal.kind, XVal.cmp] <;> decide

theorem XVal.cmp_same_kind_nonfin (x y : XVal) (h : x.kind = y.kind) (hx : x.isFin = false) :
    XVal.cmp x y = .eq := by
  cases x <;> cases y <;> simp_all [XVal.kind, XVal.cmp, XVal.isFin]


theorem XVal.cmp_le_trans (x y z : XVal) (hx : x.wf) (hy : y.wf) (hz : z.wf) :
    XVal.cmp x y ≠ .gt → XVal.cmp y z ≠ .gt → XVal.cmp x z ≠ .gt := by
  cases x <;> cases y <;> cases z <;> simp [XVal.cmp]
  rename_i n1 d1 n2 d2 n3 d3
  rw [fracCmp_eq_compare _ _ _ _ hx hy, fracCmp_eq_compare _ _ _ _ hy hz,
    fracCmp_eq_compare _ _ _ _ hx hz]
  simp only [compare_gt_iff_gt, not_lt]
  intro h1 h2; exact le_trans h1 h2

theorem XVal.cmp_eq_congr (x y z : XVal) (hx : x.wf) (hy : y.wf) (hz : z.wf) :
    XVal.cmp x y = .eq → XVal.cmp x z = XVal.cmp y z := by
  cases x <;> cases y <;> cases z <;> simp [XVal.cmp]
  rename_i n1 d1 n2 d2 n3 d3
  rw [fracCmp_eq_compare _ _ _ _ hx hy, fracCmp_eq_compare _ _ _ _ hy hz,
    fracCmp_eq_compare _ _ _ _ hx hz]
  intro h; rw [compare_eq_iff_eq] at h; rw [h]


theorem XVal.cmp_refl (x : XVal) : XVal.cmp x x = .eq := by
  cases x <;> simp [XVal.cmp, fracCmp]

/-- the rational value of a finite double. -/
def toQ (f : F64) : ℚ := (toX f).toQ

theorem toX_isFin (f : F64) (h : isFinite f = true) : (toX f).isFin = true := by
  have h' : expField f ≠ 2047 := by simpa [isFinite] using h
  unfold toX
  rw [if_neg h']
  simp only [dyadic]
  split <;> rfl

theorem toX_nan (f : F64) : toX f = .nan ↔ isNaN f = true := by
  unfold toX isNaN
  by_cases h : expField f = 2047
  · by_cases hm : mant f = 0
    · simp [h, hm]; split <;> simp
    · simp [h, hm]
  · simp only [h, if_false]
    constructor
    · intro hh; simp only [dyadic] at hh; split at hh <;> simp at hh
    · intro hh; simp at hh; exact absurd hh.1 h

/-- comparison of finite doubles is comparison of their rational values. -/
theorem cmp_finite (a b : F64) (ha : isFinite a = true) (hb : isFinite b = true) :
    cmp a b = compare (toQ a) (toQ b) :=
  XVal.cmp_fin _ _ (toX_wf a) (toX_wf b) (toX_isFin a ha) (toX_isFin b hb)

/-- the rational value of a finite double is `(-1)^sign · significand · 2^exponent`. -/
theorem toQ_formula (f : F64) (h : isFinite f = true) :
    toQ f = (if signBit f = 1 then -1 else 1) * ((sigExp f).1 : ℚ) * (2:ℚ) ^ (sigExp f).2 := by
  have h' : expField f ≠ 2047 := by simpa [isFinite] using h
  unfold toQ toX
  rw [if_neg h']
  generalize sigExp f = p
  obtain ⟨m, s⟩ := p
  simp only [dyadic]
  by_cases hs : s ≥ 0
  · obtain ⟨k, rfl⟩ := Int.eq_ofNat_of_zero_le hs
    by_cases hsg : signBit f = 1 <;> simp [hsg, XVal.toQ, hs]
  · have hs' : s < 0 := not_le.mp hs
    obtain ⟨k, hk⟩ := Int.exists_eq_neg_ofNat (le_of_lt hs')
    subst hk
    have hk0 : k ≠ 0 := by omega
    by_cases hsg : signBit f = 1 <;> simp [hsg, XVal.toQ, hk0, div_eq_mul_inv]

theorem eq_iff_cmp (a b : F64) : F64.eq a b = (cmp a b == .eq) := by
  unfold F64.eq cmp
  by_cases ha : isNaN a = true
  · have hxa := (toX_nan a).mpr ha
    by_cases hb : isNaN b = true
    · have hxb := (toX_nan b).mpr hb
      simp [ha, hb, hxa, hxb, XVal.cmp]
    · have hxb : toX b ≠ .nan := fun h => hb ((toX_nan b).mp h)
      simp only [ha, if_true, hxa]
      cases hb' : toX b <;> simp_all [XVal.cmp]
  · have hxa : toX a ≠ .nan := fun h => ha ((toX_nan a).mp h)
    by_cases hb : isNaN b = true
    · have hxb := (toX_nan b).mpr hb
      simp only [ha, hb, hxb]
      cases ha' : toX a <;> simp_all [XVal.cmp]
    · simp [ha, hb]

end Scryer.F64

namespace Scryer.NumCmp
open Scryer.F64

/-- exact rational value of an integer / rational (for a float: its rational value if finite). -/
def valQ : Number → ℚ
  | .fix v => v
  | .big v => v
  | .rat n d => (n : ℚ) / d
  | .flt f => toQ f

theorem valX_wf (a : Number) (h : a.wf) : (valX a).wf := by
  cases a <;> simp_all [valX, XVal.wf, Number.wf]
  exact toX_wf _

/-- the 16 arms of `Ord for Number` (with correctly rounded conversions) compute the specification. -/
theorem cmpNum_eq_spec (a b : Number) : cmpNum a b = cmpSpec a b := by
  cases a <;> cases b <;>
    simp [cmpNum, cmpWith, cmpSpec, Number.isFloat, valX, toF64, XVal.cmp, fracCmp, Conv.exact]

theorem cmpSpec_exact (a b : Number) (ha : a.wf) (hb : b.wf)
    (fa : a.isFloat = false) (fb : b.isFloat = false) :
    cmpSpec a b = compare (valQ a) (valQ b) := by
  cases a <;> cases b <;> simp_all [cmpSpec, Number.isFloat, valX, valQ, XVal.cmp, Number.wf]
  all_goals first
    | (rw [fracCmp_eq_compare _ _ _ _ (by omega) (by omega)]; simp)
    | (rw [fracCmp_eq_compare _ _ _ _ (by assumption) (by omega)]; try simp)

theorem cmpSpec_float (a b : Number) (h : a.isFloat = true ∨ b.isFloat = true) :
    cmpSpec a b = F64.cmp (toF64 a) (toF64 b) := by
  rcases h with h | h <;> simp [cmpSpec, h]

theorem cmpWith_swap (c : Conv) (a b : Number) : cmpWith c a b = (cmpWith c b a).swap := by
  cases a <;> cases b <;> simp only [cmpWith] <;>
    first | exact cmpInt_swap _ _ | exact fracCmp_swap _ _ _ _ | exact F64.cmp_swap _ _

theorem eqWith_iff_cmp (c : Conv) (a b : Number) : eqWith c a b = (cmpWith c a b == .eq) := by
  cases a <;> cases b <;> simp only [cmpWith, eqWith, eq_iff_cmp] <;>
    first
      | rfl
      | (rename_i x y; by_cases h : x = y
         · subst h; simp
         · have : compare x y ≠ .eq := fun hh => h (compare_eq_iff_eq.mp hh)
           cases hc : compare x y <;> simp_all)

end Scryer.NumCmp
