import ScryerModel.Proofs.QuoteEsc
import ScryerModel.Proofs.QuoteMin
/-! C55: no token fusion — lexing a printed token followed by whatever `requires_space` lets follow it. -/
namespace Scryer.Quote
open Scryer.CharClass

variable {u : UC}

/-- `next_token` with the layout flag `b` already set (text that follows a space) -/
def nextTokFrom (u : UC) (b : Bool) (cs : List Char) : Res :=
  match scanLayout u .top b cs with
  | none => .err
  | some (lay, rest) => nextTokAt u lay rest

theorem nextTok_eq (cs : List Char) : nextTok u cs = nextTokFrom u false cs := rfl

theorem nextTokFrom_space (b : Bool) (k : List Char) : nextTokFrom u b (' ' :: k) = nextTokFrom u true k := by
  have : scanLayout u .top b (' ' :: k) = scanLayout u .top true k := by
    conv => lhs; unfold scanLayout
    simp [layout_char]
  simp only [nextTokFrom, this]

/-- what must hold between the last character `ac` of a token text and the character `c` after it for
    the token to end where its text ends -/
def Safe (u : UC) (ac c : Char) : Prop :=
  (alpha_numeric_char u ac = true → alpha_numeric_char u c = false) ∧
  (graphic_token_char u ac = true → graphic_token_char u c = false) ∧
  (ac = '\'' → c ≠ '\'') ∧ (ac = '0' → c ≠ '\'')

def Follow (u : UC) (x k : List Char) : Prop :=
  ∀ c k' ac, k = c :: k' → x.getLast? = some ac → Safe u ac c

theorem follow_nil (x : List Char) : Follow u x [] := by
  intro c k' ac e; simp at e

theorem small_alnum (hu : UCWF u) {c : Char} (h : small_letter_char u c = true) : alpha_numeric_char u c = true := by
  obtain ⟨f1, f2, f3, f4, f5⟩ := small_facts hu h
  have ne : ∀ x : Char, x.toNat < 128 → x.isLower = false → c ≠ x := fun x hx hl => small_ne hu h hx hl
  by_cases hn : u.is_numeric c = true
  · simp [alpha_numeric_char, hn]
  have ha : u.is_alphabetic c = true := by simp [small_letter_char] at h; exact h.1
  obtain ⟨w1, w2⟩ := hu.alpha_sane c ha
  have hm : meta_char u c = false := by
    simp only [meta_char, Bool.or_eq_false_iff, beq_eq_false_iff_ne]
    exact ⟨⟨⟨ne _ (by decide) (by decide), ne _ (by decide) (by decide)⟩, ne _ (by decide) (by decide)⟩,
      ne _ (by decide) (by decide)⟩
  have hs : solo_char u c = false := by
    simp only [solo_char, Bool.or_eq_false_iff, beq_eq_false_iff_ne]
    exact ⟨⟨⟨⟨⟨⟨⟨⟨⟨⟨ne _ (by decide) (by decide), ne _ (by decide) (by decide)⟩, ne _ (by decide) (by decide)⟩,
      ne _ (by decide) (by decide)⟩, ne _ (by decide) (by decide)⟩, ne _ (by decide) (by decide)⟩,
      ne _ (by decide) (by decide)⟩, ne _ (by decide) (by decide)⟩, ne _ (by decide) (by decide)⟩,
      ne _ (by decide) (by decide)⟩, ne _ (by decide) (by decide)⟩
  simp [alpha_numeric_char, alpha_char, hn, w1, w2, f5, f2, hm, hs]

theorem follow_alnum {x k : List Char} {ac : Char} (hl : x.getLast? = some ac)
    (ha : alpha_numeric_char u ac = true) (hf : Follow u x k) : stops (alpha_numeric_char u) k := by
  cases k with
  | nil => trivial
  | cons c k' => exact (hf c k' ac rfl hl).1 ha

theorem follow_graphic {x k : List Char} {ac : Char} (hl : x.getLast? = some ac)
    (hg : graphic_token_char u ac = true) (hf : Follow u x k) : stops (graphic_token_char u) k := by
  cases k with
  | nil => trivial
  | cons c k' => exact (hf c k' ac rfl hl).2.1 hg

/-- `requires_space` answering "no" implies the token boundary is safe -/
theorem safe_of_reqSpace (hu : UCWF u) {ac c : Char} (h : reqSpaceChars u ac c = false) : Safe u ac c := by
  have q1 : alpha_numeric_char u '\'' = false := by rw [alnum_ascii hu (by decide)]; decide
  have q2 : graphic_token_char u '\'' = false := by
    show graphic_token_char asciiUC '\'' = false
    decide
  have q3 : capital_letter_char u '\'' = false := cap_false hu _ (by decide) (by decide)
  have z1 : graphic_token_char u '0' = false := by
    show graphic_token_char asciiUC '0' = false
    decide
  unfold reqSpaceChars at h
  by_cases h0 : ac = '0'
  · subst h0
    simp at h
    exact ⟨fun _ => h.2, fun g => by rw [z1] at g; exact absurd g (by simp), fun e => by simp at e, fun _ => h.1.1⟩
  simp only [show (ac == '0') = false by simpa using h0, Bool.false_eq_true, if_false] at h
  by_cases ha : alpha_numeric_char u ac = true
  · simp [ha] at h
    refine ⟨fun _ => h.2, fun g => ?_, fun e => ?_, fun e => absurd e h0⟩
    · rw [gt_not_alnum hu g] at ha; exact absurd ha (by simp)
    · subst e; rw [q1] at ha; exact absurd ha (by simp)
  simp only [ha, Bool.false_eq_true, if_false] at h
  by_cases hg : graphic_token_char u ac = true
  · simp [hg] at h
    refine ⟨fun a => absurd a ha, fun _ => h, fun e => ?_, fun e => absurd e h0⟩
    subst e; rw [q2] at hg; exact absurd hg (by simp)
  simp only [hg, Bool.false_eq_true, if_false] at h
  refine ⟨fun a => absurd a ha, fun g => absurd g hg, fun e => ?_, fun e => absurd e h0⟩
  subst e
  simp [variable_indicator_char, q3, sign_char, single_quote_char] at h
  exact h

/-- a character that is not alphanumeric, not a graphic token character and not a quote is safe after
    anything (the pushed characters `( ) , [ ] | { }` and the space) -/
theorem safe_of_neutral {ac c : Char} (h1 : alpha_numeric_char u c = false) (h2 : graphic_token_char u c = false)
    (h3 : c ≠ '\'') : Safe u ac c := ⟨fun _ => h1, fun _ => h2, fun _ => h3, fun _ => h3⟩

theorem getLast_cons_mem {c : Char} {r : List Char} {ac : Char} (h : (c :: r).getLast? = some ac) :
    ac = c ∨ ac ∈ r := by
  have := List.mem_of_getLast? h
  simpa using this

/-- a letter-digit atom followed by a permitted continuation -/
theorem nextTokFrom_small (hu : UCWF u) (b : Bool) {c : Char} {r k : List Char}
    (h : small_letter_char u c = true) (hr : ∀ d ∈ r, alpha_numeric_char u d = true)
    (hf : Follow u (c :: r) k) : nextTokFrom u b (c :: r ++ k) = .tok (.name (c :: r)) k := by
  obtain ⟨f1, f2, f3, f4, _⟩ := small_facts hu h
  obtain ⟨ac, hac⟩ : ∃ ac, (c :: r).getLast? = some ac := ⟨_, List.getLast?_eq_some_getLast (by simp)⟩
  have hal : alpha_numeric_char u ac = true := by
    rcases getLast_cons_mem hac with rfl | hm
    · exact small_alnum hu h
    · exact hr ac hm
  have hst := follow_alnum hac hal hf
  have hs := scanLayout_id (u := u) (r := r ++ k) b f2 f3 (fun e => absurd e f4)
  simp only [nextTokFrom, List.cons_append, hs]
  rw [nextTokAt_name (small_not_capital h) f1 (small_not_digit hu h)]
  simp [nameToken, h, spanP_append hr hst]

/-- a graphic atom followed by a permitted continuation -/
theorem nextTokFrom_graphic (hu : UCWF u) (b : Bool) {c : Char} {r k : List Char}
    (h : graphic_token_char u c = true) (hr : ∀ d ∈ r, graphic_token_char u d = true)
    (h1 : ¬ (c = '/' ∧ ∃ r', r = '*' :: r')) (h2 : ¬ (c = '.' ∧ r = []))
    (hf : Follow u (c :: r) k) : nextTokFrom u b (c :: r ++ k) = .tok (.name (c :: r)) k := by
  have hm := (gt_mem u c).1 h
  obtain ⟨_, _, _, g4, g5, g6, _⟩ := gt_facts c hm
  obtain ⟨k1, k2⟩ := gt_facts2 c hm
  obtain ⟨ac, hac⟩ : ∃ ac, (c :: r).getLast? = some ac := ⟨_, List.getLast?_eq_some_getLast (by simp)⟩
  have hag : graphic_token_char u ac = true := by
    rcases getLast_cons_mem hac with rfl | hm'
    · exact h
    · exact hr ac hm'
  have hst := follow_graphic hac hag hf
  have hs : scanLayout u .top b (c :: (r ++ k)) = some (b, c :: (r ++ k)) := by
    refine scanLayout_id b (by simpa [layout_char] using g6) k1 ?_
    intro e r' hr'
    cases r with
    | nil =>
      cases k with
      | nil => simp at hr'
      | cons d k' =>
        simp at hr'
        have : graphic_token_char u d = false := by simpa [stops] using hst
        rw [hr'.1] at this
        have t : graphic_token_char u '*' = true := by
          show graphic_token_char asciiUC '*' = true
          decide
        rw [t] at this; exact absurd this (by simp)
    | cons d r'' => simp at hr'; exact h1 ⟨e, r'', by rw [hr'.1]⟩
  have hn : nameToken u c (r ++ k) = .tok (.name (c :: r)) k := by
    simp [nameToken, gt_not_small hu h, h, spanP_append hr hst]
  simp only [nextTokFrom, List.cons_append, hs]
  by_cases hd : c = '.'
  · subst hd
    cases r with
    | nil => exact absurd ⟨rfl, rfl⟩ h2
    | cons d r' =>
      have hdm := (gt_mem u d).1 (hr d (by simp))
      obtain ⟨_, _, _, _, _, d6, _⟩ := gt_facts d hdm
      have hdl : layout_char u d = false := by simpa [layout_char] using d6
      simp only [List.cons_append] at hn ⊢
      rw [nextTokAt_dot hu hdl (gt_facts2 d hdm).1, hn]
  · rw [nextTokAt_name (gt_not_capital hu h) (k2 hd) g4, hn]

/-! ### the other token texts -/

theorem nextTokFrom_solo_name (hu : UCWF u) (b : Bool) (c : Char) (hc : c = ';' ∨ c = '!') (k : List Char) :
    nextTokFrom u b (c :: k) = .tok (.name [c]) k := by
  rcases hc with rfl | rfl
  · have hsm : small_letter_char u ';' = false := by rw [small_ascii hu (by decide)]; decide
    rw [nextTokFrom, scan_concrete _ _ _ (by decide) (by decide) (by decide)]
    simp only []
    rw [nextTokAt_name (cap_false hu _ (by decide) (by decide)) (by decide) (by decide)]
    simp [nameToken, hsm, graphic_token_char, graphic_char, backslash_char, cut_char, semicolon_char]
  · have hsm : small_letter_char u '!' = false := by rw [small_ascii hu (by decide)]; decide
    rw [nextTokFrom, scan_concrete _ _ _ (by decide) (by decide) (by decide)]
    simp only []
    rw [nextTokAt_name (cap_false hu _ (by decide) (by decide)) (by decide) (by decide)]
    simp [nameToken, hsm, graphic_token_char, graphic_char, backslash_char, cut_char, semicolon_char]

theorem nextTokFrom_punct (hu : UCWF u) (b : Bool) (c : Char) (hc : c ∈ punctList) (k : List Char) :
    nextTokFrom u b (c :: k) = .tok (.punct c) k := by
  have h : layout_char asciiUC c = false ∧ c ≠ '%' ∧ c ≠ '/' := by
    have : ∀ x ∈ punctList, layout_char asciiUC x = false ∧ x ≠ '%' ∧ x ≠ '/' := by decide
    exact this c hc
  rw [nextTokFrom, scan_concrete _ _ _ h.1 h.2.1 h.2.2]
  simp only []
  exact nextTokAt_punct hu c hc b k

theorem nextTokFrom_open (hu : UCWF u) (b : Bool) (k : List Char) :
    nextTokFrom u b ('(' :: k) = .tok (if b then .punct '(' else .openCT) k := by
  rw [nextTokFrom, scan_concrete _ _ _ (by decide) (by decide) (by decide)]
  simp only []
  have hc := cap_false hu '(' (by decide) (by decide)
  cases b <;> simp [nextTokAt, hc, variable_indicator_char]

theorem nextTokFrom_quoted (hu : UCWF u) (b : Bool) (s k : List Char) (hk : stops (fun c => c == '\'') k) :
    nextTokFrom u b ('\'' :: (s.flatMap (charToString u true) ++ '\'' :: k)) = .tok (.name s) k := by
  have hsm : small_letter_char u '\'' = false := by rw [small_ascii hu (by decide)]; decide
  rw [nextTokFrom, scan_concrete _ _ _ (by decide) (by decide) (by decide)]
  simp only []
  rw [nextTokAt_name (cap_false hu _ (by decide) (by decide)) (by decide) (by decide)]
  simp only [nameToken, hsm, graphic_token_char, graphic_char, backslash_char, cut_char, semicolon_char,
    single_quote_char, quoted_text]
  cases k with
  | nil => simp [quotedItems]
  | cons c k =>
    have : (c == '\'') = false := by simpa [stops] using hk
    simp [quotedItems, this]

/-! ### decimal integers -/

theorem decDigit_ok : ∀ m, m < 10 → (Char.ofNat (48 + m)).isDigit = true ∧ (Char.ofNat (48 + m)).toNat - 48 = m := by
  decide

theorem decDigits_spec (n : Nat) :
    (∀ d ∈ decDigits n, d.isDigit = true) ∧ digitsVal (decDigits n) = n ∧ decDigits n ≠ [] := by
  induction n using Nat.strongRecOn with
  | _ n ih =>
    rw [decDigits]
    by_cases h : n < 10
    · simp only [h, dite_true]
      refine ⟨?_, ?_, by simp⟩
      · intro d hd; simp at hd; subst hd; exact (decDigit_ok n h).1
      · simp [digitsVal, (decDigit_ok n h).2]
    · simp only [h, dite_false]
      obtain ⟨i1, i2, _⟩ := ih (n / 10) (by omega)
      have hm : n % 10 < 10 := Nat.mod_lt _ (by decide)
      refine ⟨?_, ?_, by simp⟩
      · intro d hd
        simp at hd
        rcases hd with hd | hd
        · exact i1 d hd
        · subst hd; exact (decDigit_ok _ hm).1
      · have : digitsVal (decDigits (n / 10) ++ [Char.ofNat (48 + n % 10)]) =
            digitsVal (decDigits (n / 10)) * 10 + ((Char.ofNat (48 + n % 10)).toNat - 48) := by
          simp [digitsVal, List.foldl_append]
        rw [this, i2, (decDigit_ok _ hm).2]; omega

theorem digit_facts : ∀ c : Char, c.toNat < 128 → c.isDigit = true →
    layout_char asciiUC c = false ∧ c ≠ '%' ∧ c ≠ '/' ∧ c.isUpper = false ∧ c ∉ specials ∧
    alpha_numeric_char asciiUC c = true := ascii_all _ (by decide)

/-- the text after an integer does not start with `.` and a digit (it would be read as a float) -/
def NoDotDigit (k : List Char) : Prop := ∀ d k', k = '.' :: d :: k' → d.isDigit = false

theorem nextTokFrom_nat (hu : UCWF u) (b : Bool) (n : Nat) (k : List Char)
    (hf : Follow u (decDigits n) k) (hd : NoDotDigit k) :
    nextTokFrom u b (decDigits n ++ k) = .tok (.int n) k := by
  obtain ⟨h1, h2, h3⟩ := decDigits_spec n
  obtain ⟨ac, hac⟩ : ∃ ac, (decDigits n).getLast? = some ac := ⟨_, List.getLast?_eq_some_getLast h3⟩
  have hacd : ac.isDigit = true := h1 ac (List.mem_of_getLast? hac)
  have alnum_of_digit : ∀ c : Char, c.isDigit = true → alpha_numeric_char u c = true := fun c hc => by
    rw [wf_alnum hu (digit_ascii hc)]; exact (digit_facts c (digit_ascii hc) hc).2.2.2.2.2
  have hst : stops Char.isDigit k := by
    cases k with
    | nil => trivial
    | cons c k' =>
      have := (hf c k' ac rfl hac).1 (alnum_of_digit ac hacd)
      cases hcd : c.isDigit with
      | false => simpa [stops] using hcd
      | true => rw [alnum_of_digit c hcd] at this; exact absurd this (by simp)
  cases hds : decDigits n with
  | nil => exact absurd hds h3
  | cons d0 ds =>
    have hd0 : d0.isDigit = true := h1 d0 (by rw [hds]; simp)
    obtain ⟨g1, g2, g3, g4, g5, _⟩ := digit_facts d0 (digit_ascii hd0) hd0
    rw [nextTokFrom]
    simp only [List.cons_append]
    rw [scan_concrete _ _ _ g1 g2 g3]
    simp only []
    have hdisp : nextTokAt u b (d0 :: (ds ++ k)) = numberToken (d0 :: (ds ++ k)) := by
      have hc := cap_false hu d0 (digit_ascii hd0) g4
      simp [specials] at g5
      simp [nextTokAt, hc, variable_indicator_char, decimal_digit_char, hd0, g5]
    rw [hdisp]
    have hsp : spanP Char.isDigit (d0 :: (ds ++ k)) = (d0 :: ds, k) := by
      have := spanP_append (p := Char.isDigit) (r := d0 :: ds) (k := k) (by rw [← hds]; exact h1) hst
      simpa using this
    unfold numberToken
    simp only [hsp]
    rw [← hds, h2]
    cases k with
    | nil => rfl
    | cons c r =>
      have hsafe := hf c r ac rfl hac
      have hna : alpha_numeric_char u c = false := hsafe.1 (alnum_of_digit ac hacd)
      have an : ∀ x : Char, x.toNat < 128 → alpha_numeric_char asciiUC x = true → c ≠ x := by
        intro x hx hxa e; subst e; rw [wf_alnum hu hx, hxa] at hna; exact absurd hna (by simp)
      have n1 : c ≠ '_' := an _ (by decide) (by decide)
      have n2 : c ≠ 'x' := an _ (by decide) (by decide)
      have n3 : c ≠ 'o' := an _ (by decide) (by decide)
      have n4 : c ≠ 'b' := an _ (by decide) (by decide)
      simp only [n1, beq_iff_eq, if_false]
      by_cases hdot : c = '.'
      · subst hdot
        cases r with
        | nil => simp
        | cons d r' =>
          have := hd d r' rfl
          simp [this]
      · simp only [hdot, if_false]
        by_cases hz : decDigits n = ['0']
        · have : ac = '0' := by rw [hz] at hac; simpa using hac.symm
          have n5 : c ≠ '\'' := hsafe.2.2.2 this
          simp [hz, n2, n3, n4, n5]
        · simp [hz]

/-! ### sequences of printed items -/

/-- big-step token reading: `Lexes u b cs ts` — reading `cs` (with the layout flag `b` for the first
    token) yields exactly the tokens `ts`; every step consumes at least one character. -/
inductive Lexes (u : UC) : Bool → List Char → List Tok → Prop
  | done {b : Bool} {cs : List Char} : nextTokFrom u b cs = .eof → Lexes u b cs []
  | step {b : Bool} {cs rest : List Char} {t : Tok} {ts : List Tok} :
      nextTokFrom u b cs = .tok t rest → rest.length < cs.length → Lexes u false rest ts →
      Lexes u b cs (t :: ts)

theorem tokensFuel_of_lexes {b : Bool} {cs : List Char} {ts : List Tok} (h : Lexes u b cs ts) :
    b = false → ∀ n, cs.length < n → tokensFuel u n cs = some ts := by
  induction h with
  | done h0 =>
    intro hb n hn
    subst hb
    cases n with
    | zero => omega
    | succ n => simp [tokensFuel, nextTok_eq, h0]
  | step h0 hl _ ih =>
    intro hb n hn
    subst hb
    cases n with
    | zero => omega
    | succ n => simp [tokensFuel, nextTok_eq, h0, ih rfl n (by omega)]

theorem tokens_of_lexes {cs : List Char} {ts : List Tok} (h : Lexes u false cs ts) : tokens u cs = some ts :=
  tokensFuel_of_lexes h rfl _ (by omega)

theorem lexes_space {b : Bool} {cs : List Char} {ts : List Tok} (h : Lexes u true cs ts) :
    Lexes u b (' ' :: cs) ts := by
  cases h with
  | done h0 => exact .done (by rw [nextTokFrom_space]; exact h0)
  | step h0 hl hr => exact .step (by rw [nextTokFrom_space]; exact h0) (by simp; omega) hr

/-- the printed items of the theorem: atoms (any text, printed with `quoted = true`), non-negative
    integers, the characters the printer pushes (`, ) [ ] | { }`, `(`) and explicit spaces; `amb` is the
    text the ambiguity check is given (anything). -/
inductive PItem where
  | atom (amb s : List Char)
  | nat (amb : List Char) (n : Nat)
  | punct (c : Char)
  | open
  | space

def PItem.Valid : PItem → Prop
  | .punct c => c ∈ punctList
  | _ => True

def PItem.toItem (u : UC) : PItem → Item
  | .atom amb s => .tok amb (printAtom u true s)
  | .nat amb n => .tok amb (decDigits n)
  | .punct c => .ch c
  | .open => .ch '('
  | .space => .ch ' '

/-- the tokens an atom text denotes -/
def atomToks (s : List Char) : List Tok :=
  if s = ['[', ']'] then [.punct '[', .punct ']']
  else if s = ['{', '}'] then [.punct '{', .punct '}'] else [.name s]

def endsSpace (t : List Char) : Bool := t.getLast? == some ' '

/-- the tokens an item stands for; `(` is `Open` after a space and `OpenCT` otherwise -/
def PItem.toks (prevSpace : Bool) : PItem → List Tok
  | .atom _ s => atomToks s
  | .nat _ n => [.int n]
  | .punct c => [.punct c]
  | .open => [if prevSpace then .punct '(' else .openCT]
  | .space => []

/-- print the items one after the other (as `HCPrinter::print` does) and collect the expected tokens -/
def renderT (u : UC) (items : List PItem) : Out × List Tok :=
  items.foldl (fun (p : Out × List Tok) x =>
    (emit u true p.1 (x.toItem u), p.2 ++ x.toks (endsSpace p.1.text))) (Out.empty, [])

theorem reqSpace_after_space (hu : UCWF u) (oc : Char) : reqSpaceChars u ' ' oc = false := by
  have a : alpha_numeric_char u ' ' = false := by rw [alnum_ascii hu (by decide)]; decide
  have c : capital_letter_char u ' ' = false := cap_false hu _ (by decide) (by decide)
  have g : graphic_token_char u ' ' = false := by
    show graphic_token_char asciiUC ' ' = false
    decide
  simp [reqSpaceChars, a, c, g, variable_indicator_char, sign_char, single_quote_char]

theorem requiresSpace_after_space (hu : UCWF u) (xs y : List Char) : requiresSpace u (xs ++ [' ']) y = false := by
  cases y with
  | nil => simp [requiresSpace]
  | cons d y' => simp [requiresSpace, reqSpace_after_space hu]

/-- what `emitItem` appends: the text, after a space or — only when `requires_space` says no — directly -/
theorem emitItem_text (hu : UCWF u) (o : Out) (amb x : List Char) :
    (emitItem u true o amb x).text = o.text ++ ' ' :: x ∨
    ((emitItem u true o amb x).text = o.text ++ x ∧ requiresSpace u o.text x = false) := by
  unfold emitItem
  by_cases ha : ambiguityCheck u true o amb = true
  · left; simp [ha, requiresSpace_after_space hu]
  · by_cases hr : requiresSpace u o.text x = true
    · left; simp [ha, hr]
    · right; simp [ha, hr]

/-- the continuation `k` is acceptable after the text `t` -/
def Cont (u : UC) (t k : List Char) : Prop := Follow u t k ∧ NoDotDigit k

theorem neutral_chars (hu : UCWF u) (c : Char) (hc : c ∈ punctList ∨ c = '(' ∨ c = ' ') :
    alpha_numeric_char u c = false ∧ graphic_token_char u c = false ∧ c ≠ '\'' ∧ c ≠ '.' := by
  have : ∀ x ∈ ('(' :: ' ' :: punctList), x.toNat < 128 ∧ alpha_numeric_char asciiUC x = false ∧
      graphic_token_char asciiUC x = false ∧ x ≠ '\'' ∧ x ≠ '.' := by decide
  have hm : c ∈ ('(' :: ' ' :: punctList) := by
    rcases hc with h | h | h <;> simp [h]
  obtain ⟨h1, h2, h3, h4, h5⟩ := this c hm
  exact ⟨by rw [wf_alnum hu h1]; exact h2, h3, h4, h5⟩

theorem cont_neutral (hu : UCWF u) (t : List Char) (c : Char) (k : List Char)
    (hc : c ∈ punctList ∨ c = '(' ∨ c = ' ') : Cont u t (c :: k) := by
  obtain ⟨h1, h2, h3, h4⟩ := neutral_chars hu c hc
  refine ⟨?_, ?_⟩
  · intro c' k' ac e _
    simp at e; rw [← e.1]; exact safe_of_neutral h1 h2 h3
  · intro d k' e; simp at e; exact absurd e.1 h4

theorem getLast_append_ne {a b : List Char} (hb : b ≠ []) : (a ++ b).getLast? = b.getLast? := by
  simp [List.getLast?_append]
  cases h : b.getLast? with
  | none => simp [List.getLast?_eq_none_iff] at h; exact absurd h hb
  | some x => simp

/-- the text of a token item: what the sequence proof needs to know about it -/
structure TokText (u : UC) (x : List Char) (ts : List Tok) : Prop where
  ne : x ≠ []
  lastNotSpace : x.getLast? ≠ some ' '
  headSafe : ∀ k, NoDotDigit (x ++ k)
  lex : ∀ (b : Bool) (k : List Char) (tk : List Tok), Follow u x k → NoDotDigit k → Lexes u false k tk →
    Lexes u b (x ++ k) (ts ++ tk)

theorem lexes_one {b : Bool} {x k : List Char} {t : Tok} {tk : List Tok} (hx : x ≠ [])
    (h : nextTokFrom u b (x ++ k) = .tok t k) (hl : Lexes u false k tk) : Lexes u b (x ++ k) ([t] ++ tk) := by
  refine .step h ?_ hl
  have : 0 < x.length := List.length_pos_iff.mpr hx
  simp; omega

theorem alnum_ne_space (hu : UCWF u) {c : Char} (h : alpha_numeric_char u c = true) : c ≠ ' ' := by
  intro e; subst e
  rw [alnum_ascii hu (by decide)] at h; exact absurd h (by decide)

theorem gt_ne_space {c : Char} (h : graphic_token_char u c = true) : c ≠ ' ' := by
  intro e; subst e
  have : graphic_token_char u ' ' = false := by
    show graphic_token_char asciiUC ' ' = false
    decide
  rw [this] at h; exact absurd h (by simp)

theorem tokText_atom (hu : UCWF u) (s : List Char) : TokText u (printAtom u true s) (atomToks s) := by
  by_cases hq : nonQuotedToken u s = true
  · have hp : printAtom u true s = s := by simp [printAtom, printAtomImpl, hq]
    rw [hp]
    cases s with
    | nil => simp [nonQuotedToken] at hq
    | cons c r =>
      obtain ⟨ac, hac⟩ : ∃ ac, (c :: r).getLast? = some ac := ⟨_, List.getLast?_eq_some_getLast (by simp)⟩
      by_cases hs : small_letter_char u c = true
      · rw [nonQuoted_small r hs] at hq
        have hall := all_eq_true_iff.1 hq
        obtain ⟨f1, _, _, _, _⟩ := small_facts hu hs
        have ht : atomToks (c :: r) = [.name (c :: r)] := by
          have n1 : c ≠ '[' := small_ne hu hs (by decide) (by decide)
          have n2 : c ≠ '{' := small_ne hu hs (by decide) (by decide)
          simp [atomToks, n1, n2]
        have hal : alpha_numeric_char u ac = true := by
          rcases getLast_cons_mem hac with rfl | hm
          · exact small_alnum hu hs
          · exact hall ac hm
        refine ⟨by simp, ?_, ?_, ?_⟩
        · rw [hac]; intro e; simp at e; exact alnum_ne_space hu hal e
        · intro k d k' e
          simp at e
          simp [specials] at f1
          exact absurd e.1 f1.2.2.2.2.1
        · intro b k tk hf _ hl
          rw [ht]
          exact lexes_one (by simp) (nextTokFrom_small hu b hs hall hf) hl
      · by_cases hg : graphic_token_char u c = true
        · rw [nonQuoted_graphic hu r hg, nonQuotedGraphic_iff] at hq
          obtain ⟨h1, h2, h3⟩ := hq
          have ht : atomToks (c :: r) = [.name (c :: r)] := by
            have g := (gt_facts c ((gt_mem u c).1 hg)).2.2.2.2.1
            have n1 : c ≠ '[' := by intro e; subst e; simp [solo_char] at g
            have n2 : c ≠ '{' := by intro e; subst e; simp [solo_char] at g
            simp [atomToks, n1, n2]
          have hag : graphic_token_char u ac = true := by
            rcases getLast_cons_mem hac with rfl | hm
            · exact hg
            · exact h1 ac hm
          refine ⟨by simp, ?_, ?_, ?_⟩
          · rw [hac]; intro e; simp at e; exact gt_ne_space hag e
          · intro k d k' e
            cases r with
            | nil => simp at e; exact absurd ⟨e.1, rfl⟩ h3
            | cons d' r' =>
              simp at e
              have := (gt_facts d' ((gt_mem u d').1 (h1 d' (by simp)))).2.2.2.1
              rw [← e.2.1]; exact this
          · intro b k tk hf _ hl
            rw [ht]
            exact lexes_one (by simp) (nextTokFrom_graphic hu b hg h1 h2 h3 hf) hl
        · rcases (nonQuoted_other r (by simpa using hs) (by simpa using hg)).1 hq with
            ⟨rfl, rfl⟩ | ⟨rfl, rfl⟩ | ⟨rfl, rfl⟩ | ⟨rfl, rfl⟩
          · refine ⟨by simp, by simp, ?_, ?_⟩
            · intro k d k' e; simp at e
            · intro b k tk _ _ hl
              exact lexes_one (by simp) (nextTokFrom_solo_name hu b ';' (Or.inl rfl) k) hl
          · refine ⟨by simp, by simp, ?_, ?_⟩
            · intro k d k' e; simp at e
            · intro b k tk _ _ hl
              exact lexes_one (by simp) (nextTokFrom_solo_name hu b '!' (Or.inr rfl) k) hl
          · refine ⟨by simp, by simp, ?_, ?_⟩
            · intro k d k' e; simp at e
            · intro b k tk _ _ hl
              have h2 : Lexes u false (']' :: k) ([.punct ']'] ++ tk) :=
                lexes_one (x := [']']) (by simp) (nextTokFrom_punct hu false ']' (by decide) k) hl
              exact .step (nextTokFrom_punct hu b '[' (by decide) (']' :: k)) (by simp) h2
          · refine ⟨by simp, by simp, ?_, ?_⟩
            · intro k d k' e; simp at e
            · intro b k tk _ _ hl
              have h2 : Lexes u false ('}' :: k) ([.punct '}'] ++ tk) :=
                lexes_one (x := ['}']) (by simp) (nextTokFrom_punct hu false '}' (by decide) k) hl
              exact .step (nextTokFrom_punct hu b '{' (by decide) ('}' :: k)) (by simp) h2
  · have hp : printAtom u true s = '\'' :: (s.flatMap (charToString u true) ++ ['\'']) := by
      simp [printAtom, printAtomImpl, hq]
    have ht : atomToks s = [.name s] := by
      have b1 : s ≠ ['[', ']'] := fun e => hq (e ▸ (nonQuoted_brackets hu).1)
      have b2 : s ≠ ['{', '}'] := fun e => hq (e ▸ (nonQuoted_brackets hu).2)
      simp [atomToks, b1, b2]
    rw [hp, ht]
    have hlast : ('\'' :: (s.flatMap (charToString u true) ++ ['\''])).getLast? = some '\'' := by
      rw [show ('\'' :: (s.flatMap (charToString u true) ++ ['\''])) =
        ('\'' :: s.flatMap (charToString u true)) ++ ['\''] by simp]
      exact List.getLast?_concat
    refine ⟨by simp, by rw [hlast]; simp, ?_, ?_⟩
    · intro k d k' e; simp at e
    · intro b k tk hf _ hl
      have hst : stops (fun c => c == '\'') k := by
        cases k with
        | nil => trivial
        | cons c k' => simpa [stops] using (hf c k' '\'' rfl hlast).2.2.1 rfl
      have := nextTokFrom_quoted hu b s k hst
      have e : '\'' :: (s.flatMap (charToString u true) ++ ['\'']) ++ k =
          '\'' :: (s.flatMap (charToString u true) ++ '\'' :: k) := by simp
      rw [e]
      refine .step this ?_ hl
      simp; omega

theorem tokText_nat (hu : UCWF u) (n : Nat) : TokText u (decDigits n) [.int n] := by
  obtain ⟨h1, h2, h3⟩ := decDigits_spec n
  obtain ⟨ac, hac⟩ : ∃ ac, (decDigits n).getLast? = some ac := ⟨_, List.getLast?_eq_some_getLast h3⟩
  have hacd : ac.isDigit = true := h1 ac (List.mem_of_getLast? hac)
  refine ⟨h3, ?_, ?_, ?_⟩
  · rw [hac]; intro e; simp at e; subst e; exact absurd hacd (by decide)
  · intro k d k' e
    cases hds : decDigits n with
    | nil => exact absurd hds h3
    | cons d0 ds =>
      rw [hds] at e; simp at e
      have := h1 d0 (by rw [hds]; simp)
      rw [e.1] at this; exact absurd this (by decide)
  · intro b k tk hf hd hl
    exact lexes_one h3 (nextTokFrom_nat hu b n k hf hd) hl

/-- the invariant of the sequence proof: whatever acceptable continuation follows the text printed so
    far, reading both yields the expected tokens followed by the continuation's tokens. -/
def SeqInv (u : UC) (p : Out × List Tok) : Prop :=
  ∀ k tk, Cont u p.1.text k → Lexes u (endsSpace p.1.text) k tk → Lexes u false (p.1.text ++ k) (p.2 ++ tk)

theorem endsSpace_append {a x : List Char} (hx : x ≠ []) (hl : x.getLast? ≠ some ' ') :
    endsSpace (a ++ x) = false := by
  simp only [endsSpace, getLast_append_ne hx]
  cases h : x.getLast? with
  | none => simp
  | some c => rw [h] at hl; simp at hl ⊢; exact hl

theorem follow_suffix {a x k : List Char} (hx : x ≠ []) (h : Follow u (a ++ x) k) : Follow u x k := by
  intro c k' ac e hac
  exact h c k' ac e (by rw [getLast_append_ne hx]; exact hac)

theorem step_tok (hu : UCWF u) (p : Out × List Tok) (hp : SeqInv u p) (amb x : List Char) (ts : List Tok)
    (hx : TokText u x ts) : SeqInv u (emitItem u true p.1 amb x, p.2 ++ ts) := by
  intro k tk hc hl
  simp only at hc hl ⊢
  rcases emitItem_text hu p.1 amb x with e | ⟨e, hr⟩
  · rw [e] at hc hl ⊢
    have e2 : p.1.text ++ ' ' :: x = (p.1.text ++ [' ']) ++ x := by simp
    rw [e2, endsSpace_append hx.ne hx.lastNotSpace] at hl
    have hf : Follow u x k := follow_suffix hx.ne (by rw [e2] at hc; exact hc.1)
    have := hp (' ' :: (x ++ k)) (ts ++ tk) (cont_neutral hu _ ' ' _ (Or.inr (Or.inr rfl)))
      (lexes_space (hx.lex true k tk hf hc.2 hl))
    simpa [List.append_assoc] using this
  · rw [e] at hc hl ⊢
    rw [endsSpace_append hx.ne hx.lastNotSpace] at hl
    have hf : Follow u x k := follow_suffix hx.ne hc.1
    have hcont : Cont u p.1.text (x ++ k) := by
      refine ⟨?_, hx.headSafe k⟩
      intro c k' ac e' hac
      cases hxs : x with
      | nil => exact absurd hxs hx.ne
      | cons d x' =>
        rw [hxs] at e' hr; simp at e'
        have : reqSpaceChars u ac d = false := by simpa [requiresSpace, hac] using hr
        rw [← e'.1]; exact safe_of_reqSpace hu this
    have := hp (x ++ k) (ts ++ tk) hcont (hx.lex _ k tk hf hc.2 hl)
    simpa [List.append_assoc] using this

theorem step_item (hu : UCWF u) (p : Out × List Tok) (hp : SeqInv u p) (x : PItem) (hv : x.Valid) :
    SeqInv u (emit u true p.1 (x.toItem u), p.2 ++ x.toks (endsSpace p.1.text)) := by
  cases x with
  | atom amb s => exact step_tok hu p hp amb _ _ (tokText_atom hu s)
  | nat amb n => exact step_tok hu p hp amb _ _ (tokText_nat hu n)
  | punct c =>
    have hc : c ∈ punctList := hv
    have hne : c ≠ ' ' := by
      have : ∀ x ∈ punctList, x ≠ ' ' := by decide
      exact this c hc
    intro k tk _ hl
    simp only [PItem.toItem, emit, pushChar, PItem.toks] at hl ⊢
    rw [endsSpace_append (by simp) (by simpa using hne)] at hl
    have := hp (c :: k) ([.punct c] ++ tk) (cont_neutral hu _ c _ (Or.inl hc))
      (lexes_one (x := [c]) (by simp) (nextTokFrom_punct hu _ c hc k) hl)
    simpa [List.append_assoc] using this
  | «open» =>
    intro k tk _ hl
    simp only [PItem.toItem, emit, pushChar, PItem.toks] at hl ⊢
    rw [endsSpace_append (by simp) (by simp)] at hl
    have := hp ('(' :: k) ([if endsSpace p.1.text then .punct '(' else .openCT] ++ tk)
      (cont_neutral hu _ '(' _ (Or.inr (Or.inl rfl)))
      (lexes_one (x := ['(']) (by simp) (nextTokFrom_open hu _ k) hl)
    simpa [List.append_assoc] using this
  | space =>
    intro k tk _ hl
    simp only [PItem.toItem, emit, pushChar, PItem.toks] at hl ⊢
    have es : endsSpace (p.1.text ++ [' ']) = true := by simp [endsSpace]
    rw [es] at hl
    have := hp (' ' :: k) tk (cont_neutral hu _ ' ' _ (Or.inr (Or.inr rfl))) (lexes_space hl)
    simpa [List.append_assoc] using this

theorem foldl_inv (hu : UCWF u) (items : List PItem) (hv : ∀ x ∈ items, x.Valid) (p : Out × List Tok)
    (hp : SeqInv u p) :
    SeqInv u (items.foldl (fun (p : Out × List Tok) x =>
      (emit u true p.1 (x.toItem u), p.2 ++ x.toks (endsSpace p.1.text))) p) := by
  induction items generalizing p with
  | nil => exact hp
  | cons x xs ih =>
    simp only [List.foldl_cons]
    exact ih (fun y hy => hv y (by simp [hy])) _ (step_item hu p hp x (hv x (by simp)))

/-- **No token fusion.** -/
theorem render_tokens (hu : UCWF u) (items : List PItem) (hv : ∀ x ∈ items, x.Valid) :
    tokens u (renderT u items).1.text = some (renderT u items).2 := by
  have h0 : SeqInv u (Out.empty, []) := by
    intro k tk _ hl
    simpa [Out.empty, endsSpace] using hl
  have := foldl_inv hu items hv _ h0
  have h := this [] [] ⟨follow_nil _, by intro d k' e; simp at e⟩
    (.done (by simp [nextTokFrom, scanLayout, nextTokAt]))
  simp only [List.append_nil] at h
  exact tokens_of_lexes h

end Scryer.Quote
