import ScryerModel.Model.Atoms
/-! Helper lemmas for the atom table model (C21). -/
namespace Scryer.Atoms

/-- a text is a list of bytes. -/
def BytesOk (s : Bytes) : Prop := ∀ b ∈ s, b < 256

/-- the table invariant: no text is stored twice and no inlineable text is stored in a table;
    offsets are distinct and below the bump pointer. -/
structure Inv (t : Table) : Prop where
  st_nodup : t.statics.Nodup
  st_ninl : ∀ s ∈ t.statics, inlineable s = false
  dy_ninl : ∀ p ∈ t.dyn, inlineable p.2 = false
  dy_nst : ∀ p ∈ t.dyn, p.2 ∉ t.statics
  dy_txt : (t.dyn.map (·.2)).Nodup
  dy_off : ∀ p ∈ t.dyn, p.1 < t.next
  dy_offnd : (t.dyn.map (·.1)).Nodup

/-! ## inline encoding -/

theorem bytesLE_zero (k : Nat) : bytesLE k 0 = List.replicate k 0 := by
  induction k with
  | zero => rfl
  | succ k ih => simp [bytesLE, ih, List.replicate_succ]

theorem bytesLE_pack (s : Bytes) (k : Nat) (h : BytesOk s) :
    bytesLE (s.length + k) (packLE s) = s ++ List.replicate k 0 := by
  induction s with
  | nil => simp [packLE, bytesLE_zero]
  | cons b r ih =>
    have hb : b < 256 := h b (by simp)
    have hr : BytesOk r := fun x hx => h x (by simp [hx])
    have e : (b :: r).length + k = (r.length + k) + 1 := by simp; omega
    rw [e, packLE, bytesLE]
    have h1 : (b + 256 * packLE r) % 256 = b := by omega
    have h2 : (b + 256 * packLE r) / 256 = packLE r := by omega
    rw [h1, h2, ih hr]
    rfl

theorem findIdx_zero (s : Bytes) (k : Nat) (h0 : 0 ∉ s) :
    (s ++ List.replicate (k + 1) 0).findIdx? (· == 0) = some s.length := by
  induction s with
  | nil => simp [List.replicate_succ, List.findIdx?_cons]
  | cons b r ih =>
    have hb : b ≠ 0 := fun e => h0 (by simp [e])
    have hr : 0 ∉ r := fun e => h0 (by simp [e])
    simp [List.findIdx?_cons, hb, ih hr]

theorem inlineable_iff (s : Bytes) :
    inlineable s = true ↔ s ≠ [] ∧ s.length ≤ 6 ∧ 0 ∉ s := by
  cases s with
  | nil => simp [inlineable]
  | cons b r => simp [inlineable, maxInline]

/-- decode ∘ encode = id on the inlined representation. -/
theorem inlinedToStr_pack (s : Bytes) (hs : BytesOk s) (hi : inlineable s = true) :
    inlinedToStr (packLE s) = s := by
  obtain ⟨_, hl, h0⟩ := (inlineable_iff s).1 hi
  have e : 8 = s.length + ((7 - s.length) + 1) := by omega
  unfold inlinedToStr
  simp only []
  rw [e, bytesLE_pack s _ hs, findIdx_zero s _ h0]
  simp

/-! ## lookups -/

theorem findStatic_some (l : List Bytes) (s : Bytes) (i j : Nat) (h : findStatic l s i = some j) :
    i ≤ j ∧ l[j - i]? = some s := by
  induction l generalizing i with
  | nil => simp [findStatic] at h
  | cons x r ih =>
    simp only [findStatic] at h
    split at h
    · rename_i hx
      simp only [Option.some.injEq] at h
      subst h; subst hx; simp
    · have := ih (i + 1) h
      have e : j - i = (j - (i + 1)) + 1 := by omega
      rw [e]
      exact ⟨by omega, by simpa using this.2⟩

theorem findStatic_none (l : List Bytes) (s : Bytes) (i : Nat) :
    findStatic l s i = none ↔ s ∉ l := by
  induction l generalizing i with
  | nil => simp [findStatic]
  | cons x r ih =>
    simp only [findStatic]
    split
    · rename_i hx; simp [hx]
    · rename_i hx
      rw [ih]
      simp only [List.mem_cons, not_or]
      exact ⟨fun h => ⟨fun e => hx e.symm, h⟩, fun h => h.2⟩

theorem findStatic_mem (l : List Bytes) (s : Bytes) (i j : Nat) (h : findStatic l s i = some j) :
    s ∈ l := by
  apply Classical.byContradiction
  intro hn
  have := (findStatic_none l s i).2 hn
  rw [h] at this
  cases this

theorem findDyn_some (d : List (Nat × Bytes)) (s : Bytes) (o : Nat) (h : findDyn d s = some o) :
    (o, s) ∈ d := by
  induction d with
  | nil => simp [findDyn] at h
  | cons p r ih =>
    simp only [findDyn] at h
    split at h
    · rename_i hp
      simp only [Option.some.injEq] at h
      subst h; subst hp; simp
    · simp [ih h]

theorem findDyn_none (d : List (Nat × Bytes)) (s : Bytes) :
    findDyn d s = none ↔ ∀ p ∈ d, p.2 ≠ s := by
  induction d with
  | nil => simp [findDyn]
  | cons p r ih =>
    simp only [findDyn]
    split
    · rename_i hp; simp [hp]
    · rename_i hp; simp [ih, hp]

theorem findDyn_new (d : List (Nat × Bytes)) (o : Nat) (s : Bytes) (h : ∀ p ∈ d, p.2 ≠ s) :
    findDyn (d ++ [(o, s)]) s = some o := by
  induction d with
  | nil => simp [findDyn]
  | cons p r ih =>
    have hp : p.2 ≠ s := h p (by simp)
    simp only [findDyn, List.cons_append, hp, if_false]
    exact ih (fun q hq => h q (by simp [hq]))

theorem findDyn_append (d : List (Nat × Bytes)) (x : Nat × Bytes) (s : Bytes) (o : Nat)
    (h : findDyn d s = some o) : findDyn (d ++ [x]) s = some o := by
  induction d with
  | nil => simp [findDyn] at h
  | cons p r ih =>
    simp only [findDyn, List.cons_append] at h ⊢
    split
    · rename_i hp; simpa [hp] using h
    · rename_i hp; simp only [hp, if_false] at h; exact ih h

theorem findOff_mem (d : List (Nat × Bytes)) (o : Nat) (s : Bytes)
    (hn : (d.map (·.1)).Nodup) (h : (o, s) ∈ d) : findOff d o = some s := by
  induction d with
  | nil => simp at h
  | cons p r ih =>
    simp only [List.map_cons, List.nodup_cons] at hn
    simp only [findOff]
    rcases List.mem_cons.1 h with rfl | h'
    · simp
    · have : p.1 ≠ o := by
        intro e
        exact hn.1 (by rw [e]; exact List.mem_map.2 ⟨(o, s), h', rfl⟩)
      simp [this, ih hn.2 h']

theorem findOff_append (d : List (Nat × Bytes)) (x : Nat × Bytes) (o : Nat) (s : Bytes)
    (h : findOff d o = some s) : findOff (d ++ [x]) o = some s := by
  induction d with
  | nil => simp [findOff] at h
  | cons p r ih =>
    simp only [findOff, List.cons_append] at h ⊢
    split
    · rename_i hp; simpa [hp] using h
    · rename_i hp; simp only [hp, if_false] at h; exact ih h

theorem findOff_new (d : List (Nat × Bytes)) (o : Nat) (s : Bytes) (h : ∀ p ∈ d, p.1 < o) :
    findOff (d ++ [(o, s)]) o = some s := by
  induction d with
  | nil => simp [findOff]
  | cons p r ih =>
    have hp : p.1 ≠ o := by have := h p (by simp); omega
    simp only [findOff, List.cons_append, hp, if_false]
    exact ih (fun q hq => h q (by simp [hq]))

/-! ## the invariant is kept by every insertion -/

theorem allocSize_pos (s : Bytes) : 0 < allocSize s := by unfold allocSize; omega

theorem intern_inv (t : Table) (s : Bytes) (h : Inv t) : Inv (intern t s).1 := by
  unfold intern
  split
  · exact h
  · rename_i hi
    split
    · exact h
    · rename_i hst
      split
      · exact h
      · rename_i hdy
        have hns : s ∉ t.statics := (findStatic_none _ _ _).1 hst
        have hnd := (findDyn_none _ _).1 hdy
        have hpos := allocSize_pos s
        refine ⟨h.st_nodup, h.st_ninl, ?_, ?_, ?_, ?_, ?_⟩
        · intro p hp
          rcases List.mem_append.1 hp with hp | hp
          · exact h.dy_ninl p hp
          · simp only [List.mem_singleton] at hp; subst hp; simpa using hi
        · intro p hp
          rcases List.mem_append.1 hp with hp | hp
          · exact h.dy_nst p hp
          · simp only [List.mem_singleton] at hp; subst hp; exact hns
        · simp only [List.map_append, List.map_cons, List.map_nil]
          rw [List.nodup_append]
          refine ⟨h.dy_txt, by simp, ?_⟩
          intro a ha b hb
          simp only [List.mem_singleton] at hb
          subst hb
          obtain ⟨p, hp, rfl⟩ := List.mem_map.1 ha
          exact hnd p hp
        · intro p hp
          rcases List.mem_append.1 hp with hp | hp
          · have := h.dy_off p hp; simp only; omega
          · simp only [List.mem_singleton] at hp; subst hp; simp only; omega
        · simp only [List.map_append, List.map_cons, List.map_nil]
          rw [List.nodup_append]
          refine ⟨h.dy_offnd, by simp, ?_⟩
          intro a ha b hb
          simp only [List.mem_singleton] at hb
          subst hb
          obtain ⟨p, hp, rfl⟩ := List.mem_map.1 ha
          have := h.dy_off p hp
          omega

/-- `s` is already represented in `t` by index `i` (interning finds it and changes nothing) and
    `i` decodes to `s`. -/
def Rep (t : Table) (s : Bytes) (i : Nat) : Prop := intern t s = (t, i) ∧ text t i = some s

/-- decode ∘ encode = id, and interning is idempotent. -/
theorem intern_rep (t : Table) (s : Bytes) (h : Inv t) (hs : BytesOk s) :
    Rep (intern t s).1 s (intern t s).2 := by
  unfold Rep
  by_cases hi : inlineable s = true
  · have e : intern t s = (t, inlineIndex s) := by simp [intern, hi]
    rw [e]
    refine ⟨e, ?_⟩
    have h1 : inlineIndex s % 2 = 1 := by unfold inlineIndex; omega
    have h2 : inlineIndex s / 2 = packLE s := by unfold inlineIndex; omega
    simp [text, h1, h2, inlinedToStr_pack s hs hi]
  · cases hst : findStatic t.statics s 0 with
    | some i =>
      have e : intern t s = (t, 2 * i) := by simp [intern, hi, hst]
      rw [e]
      refine ⟨e, ?_⟩
      have := findStatic_some _ _ _ _ hst
      have hlt : i < t.statics.length := by
        have := this.2
        simp only [Nat.sub_zero] at this
        exact (List.getElem?_eq_some_iff.1 this).1
      have h1 : 2 * i % 2 = 0 := by omega
      have h2 : 2 * i / 2 = i := by omega
      simpa [text, h1, h2, hlt] using this.2
    | none =>
      cases hdy : findDyn t.dyn s with
      | some off =>
        have e : intern t s = (t, 2 * (t.statics.length + off)) := by simp [intern, hi, hst, hdy]
        rw [e]
        refine ⟨e, ?_⟩
        have hm := findDyn_some _ _ _ hdy
        have h1 : 2 * (t.statics.length + off) % 2 = 0 := by omega
        have h2 : 2 * (t.statics.length + off) / 2 = t.statics.length + off := by omega
        simp [text, h1, h2, findOff_mem _ _ _ h.dy_offnd hm]
      | none =>
        have e : intern t s = ({ t with dyn := t.dyn ++ [(t.next, s)], next := t.next + allocSize s },
            2 * (t.statics.length + t.next)) := by simp [intern, hi, hst, hdy]
        rw [e]
        have hd' : findDyn (t.dyn ++ [(t.next, s)]) s = some t.next :=
          findDyn_new _ _ _ ((findDyn_none _ _).1 hdy)
        refine ⟨?_, ?_⟩
        · simp [intern, hi, hst, hd']
        · have h1 : 2 * (t.statics.length + t.next) % 2 = 0 := by omega
          have h2 : 2 * (t.statics.length + t.next) / 2 = t.statics.length + t.next := by omega
          simp [text, h1, h2, findOff_new _ _ _ h.dy_off]

/-- a table that has only grown at the end of the dynamic part. -/
theorem rep_grow (t : Table) (x : Nat × Bytes) (n : Nat) (s : Bytes) (i : Nat) (hr : Rep t s i) :
    Rep { t with dyn := t.dyn ++ [x], next := n } s i := by
  obtain ⟨h1, h2⟩ := hr
  refine ⟨?_, ?_⟩
  · by_cases hi : inlineable s = true
    · have e : intern t s = (t, inlineIndex s) := by simp [intern, hi]
      rw [e] at h1
      have hi2 : inlineIndex s = i := by simpa using congrArg Prod.snd h1
      simp [intern, hi, hi2]
    · cases hst : findStatic t.statics s 0 with
      | some j =>
        have e : intern t s = (t, 2 * j) := by simp [intern, hi, hst]
        rw [e] at h1
        have hi2 : 2 * j = i := by simpa using congrArg Prod.snd h1
        simp [intern, hi, hst, hi2]
      | none =>
        cases hdy : findDyn t.dyn s with
        | some off =>
          have e : intern t s = (t, 2 * (t.statics.length + off)) := by simp [intern, hi, hst, hdy]
          rw [e] at h1
          have hi2 : 2 * (t.statics.length + off) = i := by simpa using congrArg Prod.snd h1
          simp [intern, hi, hst, findDyn_append _ x _ _ hdy, hi2]
        | none =>
          exfalso
          have e : intern t s = ({ t with dyn := t.dyn ++ [(t.next, s)], next := t.next + allocSize s },
              2 * (t.statics.length + t.next)) := by simp [intern, hi, hst, hdy]
          rw [e] at h1
          have := congrArg (fun p => p.1.dyn.length) h1
          simp at this
  · by_cases hodd : i % 2 = 1
    · simpa [text, hodd] using h2
    · by_cases hlt : i / 2 < t.statics.length
      · simpa [text, hodd, hlt] using h2
      · simp only [text, hodd, hlt, if_false] at h2 ⊢
        exact findOff_append _ _ _ _ h2

/-- an atom keeps its index and its text when other texts are interned later. -/
theorem rep_mono (t : Table) (s s' : Bytes) (i : Nat) (hr : Rep t s i) :
    Rep (intern t s').1 s i := by
  unfold intern
  split
  · exact hr
  · split
    · exact hr
    · split
      · exact hr
      · exact rep_grow t _ _ s i hr

theorem internAll_inv (t : Table) (l : List Bytes) (h : Inv t) : Inv (internAll t l).1 := by
  induction l generalizing t with
  | nil => exact h
  | cons s r ih =>
    simp only [internAll]
    exact ih _ (intern_inv t s h)

theorem rep_mono_all (t : Table) (l : List Bytes) (s : Bytes) (i : Nat) (hr : Rep t s i) :
    Rep (internAll t l).1 s i := by
  induction l generalizing t with
  | nil => exact hr
  | cons s' r ih =>
    simp only [internAll]
    exact ih _ (rep_mono t s s' i hr)

theorem internAll_rep (t : Table) (l : List Bytes) (h : Inv t) (hl : ∀ s ∈ l, BytesOk s) :
    (internAll t l).2.length = l.length ∧
    ∀ p ∈ l.zip (internAll t l).2, Rep (internAll t l).1 p.1 p.2 := by
  induction l generalizing t with
  | nil => simp [internAll]
  | cons s r ih =>
    have hs : BytesOk s := hl s (by simp)
    have hr : ∀ x ∈ r, BytesOk x := fun x hx => hl x (by simp [hx])
    have := ih (intern t s).1 (intern_inv t s h) hr
    simp only [internAll, List.length_cons, List.zip_cons_cons, List.mem_cons]
    refine ⟨by omega, ?_⟩
    rintro p (rfl | hp)
    · exact rep_mono_all _ r s _ (intern_rep t s h hs)
    · exact this.2 p hp

end Scryer.Atoms
