import ScryerModel.Model.AtomProto
/-!
  Invariant of the interning protocol (C32), proved for every schedule by induction over steps.

  Organisation (rely/guarantee):
  * `GInv sh`      — facts about the shared state alone (I1, I2, bounds),
  * `LInv cfg sh t l` — facts about thread `t`'s local state relative to the shared state
                     (an assertion per program counter, mutual exclusion (I4), its results),
  * `Ext sh sh'`   — what every step guarantees about the change of the shared state (I3:
                     stored pairs are preserved, old index versions are immutable, new cells are
                     not referenced by any older index version),
  * `own`          — a step of thread `t` re-establishes `GInv`, `LInv … t`, and guarantees `Ext`
                     and the frame condition (no change of the shared state while another thread
                     owns the lock),
  * `other`        — `LInv … u` is stable under `Ext` + frame.
-/
namespace Scryer.AtomProto

/-! ## basic lemmas -/

@[simp] theorem upd_same {α : Type} (f : Nat → α) (k : Nat) (v : α) : upd f k v k = v := by
  simp [upd]

theorem upd_ne {α : Type} (f : Nat → α) {k i : Nat} (v : α) (h : i ≠ k) : upd f k v i = f i := by
  simp [upd, h]

theorem upd_apply {α : Type} (f : Nat → α) (k i : Nat) (v : α) :
    upd f k v i = if i = k then v else f i := rfl

@[simp] theorem lookupOff_nil (o : Nat) : lookupOff o [] = none := rfl
@[simp] theorem lookupOff_cons (o k : Nat) (x : Text) (r : List (Nat × Text)) :
    lookupOff o ((k, x) :: r) = if o = k then some x else lookupOff o r := rfl

theorem tableLookup_some {b : Block} {tbl : List Nat} {x : Text} {o : Nat}
    (h : tableLookup b tbl x = some o) : b.textAt o = some x ∧ o ∈ tbl := by
  unfold tableLookup at h
  have h1 := List.find?_some h
  have h2 := List.mem_of_find?_eq_some h
  exact ⟨by simpa using h1, h2⟩

theorem tableLookup_none {b : Block} {tbl : List Nat} {x : Text}
    (h : tableLookup b tbl x = none) : ∀ o, o ∈ tbl → b.textAt o ≠ some x := by
  unfold tableLookup at h
  intro o ho
  have := List.find?_eq_none.mp h o ho
  simpa using this

theorem mem_insertSet {tbl : List Nat} {o p : Nat} : p ∈ insertSet tbl o ↔ p ∈ tbl ∨ p = o := by
  unfold insertSet
  split
  · constructor
    · intro h; exact Or.inl h
    · rintro (h | h)
      · exact h
      · subst h; assumption
  · simp

theorem nodup_insertSet {tbl : List Nat} {o : Nat} (h : tbl.Nodup) : (insertSet tbl o).Nodup := by
  unfold insertSet
  split
  · exact h
  · rename_i hn
    rw [List.nodup_append]
    refine ⟨h, by simp, ?_⟩
    intro a ha b hb
    simp at hb
    subst hb
    intro hab
    subst hab
    exact hn ha

/-! ## invariants -/

/-- every cell of the current block is an entry of the current index -/
def AllIndexed (sh : Shared) : Prop := ∀ o x, sh.blk.textAt o = some x → o ∈ sh.tbl
/-- the text is stored nowhere in the current block -/
def Absent (sh : Shared) (x : Text) : Prop := ∀ o, sh.blk.textAt o ≠ some x
/-- index version `ti` has no entry for the text -/
def Miss (sh : Shared) (ti : Nat) (x : Text) : Prop :=
  ∀ o, o ∈ sh.tables ti → sh.blk.textAt o ≠ some x

structure GInv (sh : Shared) : Prop where
  cur_lt : sh.cur < sh.ninners
  tcur_lt : ∀ i, i < sh.ninners → (sh.inners i).tcur < sh.ntables
  /-- allocated cells lie below the bump pointer -/
  cells_lt : ∀ o x, sh.blk.textAt o = some x → o < sh.blk.used
  /-- (I1) every entry of every index version is a cell of the current block -/
  tbl_cells : ∀ k, k < sh.ntables → ∀ o, o ∈ sh.tables k → ∃ x, sh.blk.textAt o = some x
  /-- (I2) no text is stored at two offsets -/
  inj : ∀ o1 o2 x, sh.blk.textAt o1 = some x → sh.blk.textAt o2 = some x → o1 = o2
  nodup : ∀ k, k < sh.ntables → (sh.tables k).Nodup
  /-- while nobody owns the lock, the index covers the block -/
  unlocked : sh.lock = none → AllIndexed sh

/-- a completed call `(x, a)` is correct with respect to the shared state -/
def ResOK (cfg : Cfg) (sh : Shared) (x : Text) : Atom → Prop
  | .inl y => y = x ∧ inlinable x = true
  | .stat y => y = x ∧ inlinable x = false ∧ cfg.isStatic x = true
  | .dyn o => inlinable x = false ∧ cfg.isStatic x = false ∧ sh.blk.textAt o = some x

/-- the assertion attached to each protocol point -/
def PcInv (cfg : Cfg) (sh : Shared) (t : Tid) (l : Local) : Prop :=
  match l.pc with
  | .idle => True
  | .readInner => inlinable l.text = false
  | .readTable => inlinable l.text = false
  | .lookup => inlinable l.text = false ∧
      ∀ o, o ∈ sh.tables l.ti → o ∈ sh.tables (sh.inners l.bi).tcur
  | .lock => inlinable l.text = false ∧ cfg.isStatic l.text = false ∧ Miss sh l.ti l.text
  | .recheck => sh.lock = some t ∧ inlinable l.text = false ∧ cfg.isStatic l.text = false ∧
      Miss sh l.ti l.text ∧ AllIndexed sh
  | .alloc => sh.lock = some t ∧ inlinable l.text = false ∧ cfg.isStatic l.text = false ∧
      l.bi = sh.cur ∧ l.ti = (sh.inners sh.cur).tcur ∧ AllIndexed sh ∧ Absent sh l.text
  | .publishInner => sh.lock = some t ∧ inlinable l.text = false ∧ cfg.isStatic l.text = false ∧
      l.bi = sh.cur ∧ l.ti = (sh.inners sh.cur).tcur ∧ AllIndexed sh ∧ Absent sh l.text ∧
      l.nb < sh.ninners ∧ (sh.inners l.nb).block.cells = sh.blk.cells ∧
      (sh.inners l.nb).block.used = sh.blk.used ∧ sh.tables (sh.inners l.nb).tcur = sh.tbl
  | .write => sh.lock = some t ∧ inlinable l.text = false ∧ cfg.isStatic l.text = false ∧
      l.bi = sh.cur ∧ l.ti = (sh.inners sh.cur).tcur ∧ AllIndexed sh ∧ Absent sh l.text ∧
      (∀ o x, sh.blk.textAt o = some x → o < l.off) ∧ l.off < sh.blk.used
  | .publish => sh.lock = some t ∧ inlinable l.text = false ∧ cfg.isStatic l.text = false ∧
      l.bi = sh.cur ∧ l.ti = (sh.inners sh.cur).tcur ∧
      sh.blk.textAt l.off = some l.text ∧ l.off ∉ sh.tbl ∧
      (∀ o x, sh.blk.textAt o = some x → o ∈ sh.tbl ∨ o = l.off)
  | .unlock => sh.lock = some t ∧ inlinable l.text = false ∧ cfg.isStatic l.text = false ∧
      AllIndexed sh ∧ sh.blk.textAt l.off = some l.text

structure LInv (cfg : Cfg) (sh : Shared) (t : Tid) (l : Local) : Prop where
  bi_lt : l.bi < sh.ninners
  ti_lt : l.ti < sh.ntables
  res : ∀ x a, (x, a) ∈ l.results → ResOK cfg sh x a
  pcinv : PcInv cfg sh t l

/-- the critical section: the protocol points between `lock` and `unlock` -/
def inCS : PC → Bool
  | .recheck | .alloc | .publishInner | .write | .publish | .unlock => true
  | _ => false

/-- (I4) a thread inside the critical section owns the lock -/
theorem LInv.mutex {cfg sh t l} (h : LInv cfg sh t l) (hcs : inCS l.pc = true) :
    sh.lock = some t := by
  have := h.pcinv
  unfold PcInv at this
  cases hpc : l.pc <;> simp [hpc, inCS] at this hcs <;> exact this.1

/-- guarantee of every step about the shared state -/
structure Ext (sh sh' : Shared) : Prop where
  ninners_le : sh.ninners ≤ sh'.ninners
  ntables_le : sh.ntables ≤ sh'.ntables
  /-- index versions are immutable -/
  tables_eq : ∀ k, k < sh.ntables → sh'.tables k = sh.tables k
  /-- the index published in an inner table only gains entries -/
  tcur_mono : ∀ i, i < sh.ninners → ∀ o, o ∈ sh.tables (sh.inners i).tcur →
      o ∈ sh'.tables (sh'.inners i).tcur
  /-- (I3) stored pairs are preserved (in place and across growth) -/
  pairs : ∀ o x, sh.blk.textAt o = some x → sh'.blk.textAt o = some x
  /-- a new cell is not an entry of any older index version -/
  fresh : ∀ o x, sh'.blk.textAt o = some x →
      sh.blk.textAt o = some x ∨ ∀ k, k < sh.ntables → o ∉ sh.tables k

theorem Ext.refl (sh : Shared) : Ext sh sh :=
  ⟨Nat.le_refl _, Nat.le_refl _, fun _ _ => rfl, fun _ _ _ h => h, fun _ _ h => h,
   fun _ _ h => Or.inl h⟩

theorem ResOK.ext {cfg sh sh' x a} (he : Ext sh sh') (h : ResOK cfg sh x a) : ResOK cfg sh' x a := by
  cases a <;> simp only [ResOK] at h ⊢
  · exact h
  · exact h
  · exact ⟨h.1, h.2.1, he.pairs _ _ h.2.2⟩

/-- stability: thread `u`'s assertions survive a step of another thread, given what that step
    guarantees (`Ext`) and the frame condition (nothing shared changes while `u` owns the lock) -/
theorem other {cfg : Cfg} {sh sh' : Shared} {u : Tid} {l : Local}
    (hl : LInv cfg sh u l) (he : Ext sh sh') (hframe : sh.lock = some u → sh' = sh) :
    LInv cfg sh' u l := by
  by_cases hcs : inCS l.pc = true
  · have := hframe (hl.mutex hcs)
    subst this
    exact hl
  · refine ⟨Nat.lt_of_lt_of_le hl.bi_lt he.ninners_le, Nat.lt_of_lt_of_le hl.ti_lt he.ntables_le,
      fun x a h => (hl.res x a h).ext he, ?_⟩
    have hp := hl.pcinv
    unfold PcInv at hp ⊢
    cases hpc : l.pc <;> simp only [hpc, inCS] at hp hcs ⊢ <;> try exact hp
    · -- lookup
      refine ⟨hp.1, fun o ho => ?_⟩
      rw [he.tables_eq _ hl.ti_lt] at ho
      exact he.tcur_mono _ hl.bi_lt _ (hp.2 o ho)
    · -- lock
      refine ⟨hp.1, hp.2.1, fun o ho hx => ?_⟩
      rw [he.tables_eq _ hl.ti_lt] at ho
      rcases he.fresh o _ hx with h | h
      · exact hp.2.2 o ho h
      · exact h _ hl.ti_lt ho
    all_goals simp at hcs

end Scryer.AtomProto
