import ScryerModel.Model.AtomProto
/-!
  Invariant of the interning protocol (C32), proved for every schedule by induction over steps.

  Organisation (rely/guarantee):
  * `GInv sh`      — facts about the shared state alone (I1, I2, bounds),
  * `LInv cfg sh t l` — facts about thread `t`'s local state relative to the shared state
                     (an assertion per program counter, mutual exclusion (I4), its results),
  * `Ext sh sh'`   — what every step guarantees about the change of the shared state (I3:
                     stored pairs are preserved, old index versions are immutable, new cells are
                     not referenced by any older index version),
  * `own`          — a step of thread `t` re-establishes `GInv`, `LInv … t`, and guarantees `Ext`
                     and the frame condition (no change of the shared state while another thread
                     owns the lock),
  * `other`        — `LInv … u` is stable under `Ext` + frame.
-/
namespace Scryer.AtomProto

/-! ## basic lemmas -/

@[simp] theorem upd_same {α : Type} (f : Nat → α) (k : Nat) (v : α) : upd f k v k = v := by
  simp [upd]

theorem upd_ne {α : Type} (f : Nat → α) {k i : Nat} (v : α) (h : i ≠ k) : upd f k v i = f i := by
  simp [upd, h]

theorem upd_apply {α : Type} (f : Nat → α) (k i : Nat) (v : α) :
    upd f k v i = if i = k then v else f i := rfl

@[simp] theorem lookupOff_nil (o : Nat) : lookupOff o [] = none := rfl
@[simp] theorem lookupOff_cons (o k : Nat) (x : Text) (r : List (Nat × Text)) :
    lookupOff o ((k, x) :: r) = if o = k then some x else lookupOff o r := rfl

theorem tableLookup_some {b : Block} {tbl : List Nat} {x : Text} {o : Nat}
    (h : tableLookup b tbl x = some o) : b.textAt o = some x ∧ o ∈ tbl := by
  unfold tableLookup at h
  have h1 := List.find?_some h
  have h2 := List.mem_of_find?_eq_some h
  exact ⟨by simpa using h1, h2⟩

theorem tableLookup_none {b : Block} {tbl : List Nat} {x : Text}
    (h : tableLookup b tbl x = none) : ∀ o, o ∈ tbl → b.textAt o ≠ some x := by
  unfold tableLookup at h
  intro o ho
  have := List.find?_eq_none.mp h o ho
  simpa using this

theorem mem_insertSet {tbl : List Nat} {o p : Nat} : p ∈ insertSet tbl o ↔ p ∈ tbl ∨ p = o := by
  unfold insertSet
  split
  · constructor
    · intro h; exact Or.inl h
    · rintro (h | h)
      · exact h
      · subst h; assumption
  · simp

theorem nodup_insertSet {tbl : List Nat} {o : Nat} (h : tbl.Nodup) : (insertSet tbl o).Nodup := by
  unfold insertSet
  split
  · exact h
  · rename_i hn
    rw [List.nodup_append]
    refine ⟨h, by simp, ?_⟩
    intro a ha b hb
    simp at hb
    subst hb
    intro hab
    subst hab
    exact hn ha

/-! ## invariants -/

/-- every cell of the current block is an entry of the current index -/
def AllIndexed (sh : Shared) : Prop := ∀ o x, sh.blk.textAt o = some x → o ∈ sh.tbl
/-- the text is stored nowhere in the current block -/
def Absent (sh : Shared) (x : Text) : Prop := ∀ o, sh.blk.textAt o ≠ some x
/-- index version `ti` has no entry for the text -/
def Miss (sh : Shared) (ti : Nat) (x : Text) : Prop :=
  ∀ o, o ∈ sh.tables ti → sh.blk.textAt o ≠ some x

structure GInv (sh : Shared) : Prop where
  cur_lt : sh.cur < sh.ninners
  tcur_lt : ∀ i, i < sh.ninners → (sh.inners i).tcur < sh.ntables
  /-- allocated cells lie below the bump pointer -/
  cells_lt : ∀ o x, sh.blk.textAt o = some x → o < sh.blk.used
  /-- (I1) every entry of every index version is a cell of the current block -/
  tbl_cells : ∀ k, k < sh.ntables → ∀ o, o ∈ sh.tables k → ∃ x, sh.blk.textAt o = some x
  /-- (I2) no text is stored at two offsets -/
  inj : ∀ o1 o2 x, sh.blk.textAt o1 = some x → sh.blk.textAt o2 = some x → o1 = o2
  nodup : ∀ k, k < sh.ntables → (sh.tables k).Nodup
  /-- while nobody owns the lock, the index covers the block -/
  unlocked : sh.lock = none → AllIndexed sh
  /-- (I3) every pair of every version ever created (superseded ones, and a grown copy not yet
      published) is a pair of the published version: an outstanding reference into an old block
      shows the same text -/
  vers : ∀ i, i < sh.ninners → ∀ o x, (sh.inners i).block.textAt o = some x →
      sh.blk.textAt o = some x

/-- a completed call `(x, a)` is correct with respect to the shared state -/
def ResOK (cfg : Cfg) (sh : Shared) (x : Text) : Atom → Prop
  | .inl y => y = x ∧ inlinable x = true
  | .stat y => y = x ∧ inlinable x = false ∧ cfg.isStatic x = true
  | .dyn o => inlinable x = false ∧ cfg.isStatic x = false ∧ sh.blk.textAt o = some x

/-- the assertion attached to each protocol point -/
def PcInv (cfg : Cfg) (sh : Shared) (t : Tid) (l : Local) : Prop :=
  match l.pc with
  | .idle => True
  | .readInner => inlinable l.text = false
  | .readTable => inlinable l.text = false
  | .lookup => inlinable l.text = false ∧
      ∀ o, o ∈ sh.tables l.ti → o ∈ sh.tables (sh.inners l.bi).tcur
  | .lock => inlinable l.text = false ∧ cfg.isStatic l.text = false ∧ Miss sh l.ti l.text
  | .recheck => sh.lock = some t ∧ inlinable l.text = false ∧ cfg.isStatic l.text = false ∧
      Miss sh l.ti l.text ∧ AllIndexed sh
  | .alloc => sh.lock = some t ∧ inlinable l.text = false ∧ cfg.isStatic l.text = false ∧
      l.bi = sh.cur ∧ l.ti = (sh.inners sh.cur).tcur ∧ AllIndexed sh ∧ Absent sh l.text
  | .publishInner => sh.lock = some t ∧ inlinable l.text = false ∧ cfg.isStatic l.text = false ∧
      l.bi = sh.cur ∧ l.ti = (sh.inners sh.cur).tcur ∧ AllIndexed sh ∧ Absent sh l.text ∧
      l.nb < sh.ninners ∧ (sh.inners l.nb).block.cells = sh.blk.cells ∧
      (sh.inners l.nb).block.used = sh.blk.used ∧ sh.tables (sh.inners l.nb).tcur = sh.tbl
  | .write => sh.lock = some t ∧ inlinable l.text = false ∧ cfg.isStatic l.text = false ∧
      l.bi = sh.cur ∧ l.ti = (sh.inners sh.cur).tcur ∧ AllIndexed sh ∧ Absent sh l.text ∧
      (∀ o x, sh.blk.textAt o = some x → o < l.off) ∧ l.off < sh.blk.used
  | .publish => sh.lock = some t ∧ inlinable l.text = false ∧ cfg.isStatic l.text = false ∧
      l.bi = sh.cur ∧ l.ti = (sh.inners sh.cur).tcur ∧
      sh.blk.textAt l.off = some l.text ∧ l.off ∉ sh.tbl ∧
      (∀ o x, sh.blk.textAt o = some x → o ∈ sh.tbl ∨ o = l.off)
  | .unlock => sh.lock = some t ∧ inlinable l.text = false ∧ cfg.isStatic l.text = false ∧
      AllIndexed sh ∧ sh.blk.textAt l.off = some l.text

structure LInv (cfg : Cfg) (sh : Shared) (t : Tid) (l : Local) : Prop where
  bi_lt : l.bi < sh.ninners
  ti_lt : l.ti < sh.ntables
  res : ∀ x a, (x, a) ∈ l.results → ResOK cfg sh x a
  pcinv : PcInv cfg sh t l

/-- the critical section: the protocol points between `lock` and `unlock` -/
def inCS : PC → Bool
  | .recheck | .alloc | .publishInner | .write | .publish | .unlock => true
  | _ => false

/-- (I4) a thread inside the critical section owns the lock -/
theorem LInv.mutex {cfg sh t l} (h : LInv cfg sh t l) (hcs : inCS l.pc = true) :
    sh.lock = some t := by
  have := h.pcinv
  unfold PcInv at this
  cases hpc : l.pc <;> simp [hpc, inCS] at this hcs <;> exact this.1

/-- guarantee of every step about the shared state -/
structure Ext (sh sh' : Shared) : Prop where
  ninners_le : sh.ninners ≤ sh'.ninners
  ntables_le : sh.ntables ≤ sh'.ntables
  /-- index versions are immutable -/
  tables_eq : ∀ k, k < sh.ntables → sh'.tables k = sh.tables k
  /-- the index published in an inner table only gains entries -/
  tcur_mono : ∀ i, i < sh.ninners → ∀ o, o ∈ sh.tables (sh.inners i).tcur →
      o ∈ sh'.tables (sh'.inners i).tcur
  /-- (I3) stored pairs are preserved (in place and across growth) -/
  pairs : ∀ o x, sh.blk.textAt o = some x → sh'.blk.textAt o = some x
  /-- a new cell is not an entry of any older index version -/
  fresh : ∀ o x, sh'.blk.textAt o = some x →
      sh.blk.textAt o = some x ∨ ∀ k, k < sh.ntables → o ∉ sh.tables k
  /-- (I3) the published index only gains entries (in place and across growth) -/
  tbl_mono : ∀ o, o ∈ sh.tbl → o ∈ sh'.tbl

theorem Ext.refl (sh : Shared) : Ext sh sh :=
  ⟨Nat.le_refl _, Nat.le_refl _, fun _ _ => rfl, fun _ _ _ h => h, fun _ _ h => h,
   fun _ _ h => Or.inl h, fun _ h => h⟩

theorem ResOK.ext {cfg sh sh' x a} (he : Ext sh sh') (h : ResOK cfg sh x a) : ResOK cfg sh' x a := by
  cases a <;> simp only [ResOK] at h ⊢
  · exact h
  · exact h
  · exact ⟨h.1, h.2.1, he.pairs _ _ h.2.2⟩

/-- stability: thread `u`'s assertions survive a step of another thread, given what that step
    guarantees (`Ext`) and the frame condition (nothing shared changes while `u` owns the lock) -/
theorem other {cfg : Cfg} {sh sh' : Shared} {u : Tid} {l : Local}
    (hl : LInv cfg sh u l) (he : Ext sh sh') (hframe : sh.lock = some u → sh' = sh) :
    LInv cfg sh' u l := by
  by_cases hcs : inCS l.pc = true
  · have := hframe (hl.mutex hcs)
    subst this
    exact hl
  · refine ⟨Nat.lt_of_lt_of_le hl.bi_lt he.ninners_le, Nat.lt_of_lt_of_le hl.ti_lt he.ntables_le,
      fun x a h => (hl.res x a h).ext he, ?_⟩
    have hp := hl.pcinv
    unfold PcInv at hp ⊢
    cases hpc : l.pc <;> simp only [hpc, inCS] at hp hcs ⊢ <;> try exact hp
    · -- lookup
      refine ⟨hp.1, fun o ho => ?_⟩
      rw [he.tables_eq _ hl.ti_lt] at ho
      exact he.tcur_mono _ hl.bi_lt _ (hp.2 o ho)
    · -- lock
      refine ⟨hp.1, hp.2.1, fun o ho hx => ?_⟩
      rw [he.tables_eq _ hl.ti_lt] at ho
      rcases he.fresh o _ hx with h | h
      · exact hp.2.2 o ho h
      · exact h _ hl.ti_lt ho
    all_goals simp at hcs


theorem allocSize_pos (x : Text) : 0 < allocSize x := by unfold allocSize; omega

/-- what a step of thread `t` establishes -/
structure Own (cfg : Cfg) (sh : Shared) (t : Tid) (sh' : Shared) (l' : Local) : Prop where
  g : GInv sh'
  l : LInv cfg sh' t l'
  e : Ext sh sh'
  frame : ∀ u, u ≠ t → sh.lock = some u → sh' = sh

theorem own_same {cfg sh t l'} (hg : GInv sh) (hl : LInv cfg sh t l') : Own cfg sh t sh l' :=
  ⟨hg, hl, Ext.refl sh, fun _ _ _ => rfl⟩

theorem own_idle {cfg sh t l} (hg : GInv sh) (hl : LInv cfg sh t l) (hpc : l.pc = .idle) :
    Own cfg sh t (stepT cfg sh t l).1 (stepT cfg sh t l).2 := by
  unfold stepT
  simp only [hpc]
  split
  · exact own_same hg hl
  · rename_i x rest hs
    split
    · rename_i hx
      refine own_same hg ⟨hl.bi_lt, hl.ti_lt, ?_, ?_⟩
      · intro y a hy
        simp only [List.mem_cons, Prod.mk.injEq] at hy
        rcases hy with ⟨rfl, rfl⟩ | hy
        · exact ⟨rfl, hx⟩
        · exact hl.res y a hy
      · simp [PcInv]
    · rename_i hx
      refine own_same hg ⟨hl.bi_lt, hl.ti_lt, hl.res, ?_⟩
      simpa [PcInv] using hx


theorem own_readInner {cfg sh t l} (hg : GInv sh) (hl : LInv cfg sh t l) (hpc : l.pc = .readInner) :
    Own cfg sh t (stepT cfg sh t l).1 (stepT cfg sh t l).2 := by
  have hp := hl.pcinv
  unfold stepT
  simp only [PcInv, hpc] at hp ⊢
  exact own_same hg ⟨hg.cur_lt, hl.ti_lt, hl.res, by simpa [PcInv] using hp⟩

theorem own_readTable {cfg sh t l} (hg : GInv sh) (hl : LInv cfg sh t l) (hpc : l.pc = .readTable) :
    Own cfg sh t (stepT cfg sh t l).1 (stepT cfg sh t l).2 := by
  have hp := hl.pcinv
  unfold stepT
  simp only [PcInv, hpc] at hp ⊢
  exact own_same hg ⟨hl.bi_lt, hg.tcur_lt _ hl.bi_lt, hl.res, by simpa [PcInv] using hp⟩

theorem own_lookup {cfg sh t l} (hg : GInv sh) (hl : LInv cfg sh t l) (hpc : l.pc = .lookup) :
    Own cfg sh t (stepT cfg sh t l).1 (stepT cfg sh t l).2 := by
  have hp := hl.pcinv
  unfold stepT
  simp only [PcInv, hpc] at hp ⊢
  split
  · rename_i hs
    refine own_same hg ⟨hl.bi_lt, hl.ti_lt, ?_, by simp [PcInv, finish]⟩
    intro y a hy
    simp only [finish, List.mem_cons, Prod.mk.injEq] at hy
    rcases hy with ⟨rfl, rfl⟩ | hy
    · exact ⟨rfl, hp.1, hs⟩
    · exact hl.res y a hy
  · rename_i hs
    split
    · rename_i o ho
      refine own_same hg ⟨hl.bi_lt, hl.ti_lt, ?_, by simp [PcInv, finish]⟩
      intro y a hy
      simp only [finish, List.mem_cons, Prod.mk.injEq] at hy
      rcases hy with ⟨rfl, rfl⟩ | hy
      · exact ⟨hp.1, by simpa using hs, (tableLookup_some ho).1⟩
      · exact hl.res y a hy
    · rename_i ho
      refine own_same hg ⟨hl.bi_lt, hl.ti_lt, hl.res, ?_⟩
      simp only [PcInv]
      exact ⟨hp.1, by simpa using hs, fun o h => tableLookup_none ho o (hp.2 o h)⟩

theorem own_lock {cfg sh t l} (hg : GInv sh) (hl : LInv cfg sh t l) (hpc : l.pc = .lock) :
    Own cfg sh t (stepT cfg sh t l).1 (stepT cfg sh t l).2 := by
  have hp := hl.pcinv
  unfold stepT
  simp only [PcInv, hpc] at hp ⊢
  split
  · rename_i hk
    refine ⟨⟨hg.cur_lt, hg.tcur_lt, hg.cells_lt, hg.tbl_cells, hg.inj, hg.nodup, by simp, hg.vers⟩,
      ⟨hl.bi_lt, hl.ti_lt, hl.res, ?_⟩,
      ⟨Nat.le_refl _, Nat.le_refl _, fun _ _ => rfl, fun _ _ _ h => h, fun _ _ h => h,
       fun _ _ h => Or.inl h, fun _ h => h⟩, ?_⟩
    · simp only [PcInv]
      exact ⟨trivial, hp.1, hp.2.1, hp.2.2, hg.unlocked hk⟩
    · intro u _ hu; rw [hk] at hu; cases hu
  · exact own_same hg hl


theorem own_recheck {cfg sh t l} (hr : cfg.recheck = true) (hg : GInv sh) (hl : LInv cfg sh t l)
    (hpc : l.pc = .recheck) :
    Own cfg sh t (stepT cfg sh t l).1 (stepT cfg sh t l).2 := by
  have hp := hl.pcinv
  unfold stepT
  simp only [PcInv, hpc, hr] at hp ⊢
  obtain ⟨hlk, hni, hns, hmiss, hall⟩ := hp
  split
  · rename_i hc
    simp at hc
    refine own_same hg ⟨hl.bi_lt, hl.ti_lt, hl.res, ?_⟩
    simp only [PcInv]
    refine ⟨hlk, hni, hns, hc.1, by rw [hc.2, hc.1], hall, ?_⟩
    intro o ho
    have := hall o _ ho
    unfold Shared.tbl at this
    rw [← hc.1, ← hc.2] at this
    exact hmiss o this ho
  · refine ⟨⟨hg.cur_lt, hg.tcur_lt, hg.cells_lt, hg.tbl_cells, hg.inj, hg.nodup, fun _ => hall, hg.vers⟩,
      ⟨hl.bi_lt, hl.ti_lt, hl.res, ?_⟩,
      ⟨Nat.le_refl _, Nat.le_refl _, fun _ _ => rfl, fun _ _ _ h => h, fun _ _ h => h,
       fun _ _ h => Or.inl h, fun _ h => h⟩, ?_⟩
    · simpa [PcInv] using hni
    · intro u hu hu'; rw [hlk] at hu'; cases hu'; exact absurd rfl hu

theorem own_unlock {cfg sh t l} (hg : GInv sh) (hl : LInv cfg sh t l) (hpc : l.pc = .unlock) :
    Own cfg sh t (stepT cfg sh t l).1 (stepT cfg sh t l).2 := by
  have hp := hl.pcinv
  unfold stepT
  simp only [PcInv, hpc] at hp ⊢
  obtain ⟨hlk, hni, hns, hall, hoff⟩ := hp
  refine ⟨⟨hg.cur_lt, hg.tcur_lt, hg.cells_lt, hg.tbl_cells, hg.inj, hg.nodup, fun _ => hall, hg.vers⟩,
    ⟨hl.bi_lt, hl.ti_lt, ?_, by simp [PcInv, finish]⟩,
    ⟨Nat.le_refl _, Nat.le_refl _, fun _ _ => rfl, fun _ _ _ h => h, fun _ _ h => h,
     fun _ _ h => Or.inl h, fun _ h => h⟩, ?_⟩
  · intro y a hy
    simp only [finish, List.mem_cons, Prod.mk.injEq] at hy
    rcases hy with ⟨rfl, rfl⟩ | hy
    · exact ⟨hni, hns, hoff⟩
    · exact hl.res y a hy
  · intro u hu hu'; rw [hlk] at hu'; cases hu'; exact absurd rfl hu

theorem own_publishInner {cfg sh t l} (hg : GInv sh) (hl : LInv cfg sh t l)
    (hpc : l.pc = .publishInner) :
    Own cfg sh t (stepT cfg sh t l).1 (stepT cfg sh t l).2 := by
  have hp := hl.pcinv
  unfold stepT
  simp only [PcInv, hpc] at hp ⊢
  obtain ⟨hlk, hni, hns, hbi, hti, hall, habs, hnb, hcells, hused, htbl⟩ := hp
  have htx : ∀ o, (sh.inners l.nb).block.textAt o = sh.blk.textAt o := by
    intro o; simp only [Block.textAt, hcells]
  refine ⟨⟨hnb, hg.tcur_lt, ?_, ?_, ?_, hg.nodup, ?_, ?_⟩, ⟨hnb, hg.tcur_lt _ hnb, ?_, ?_⟩,
    ⟨Nat.le_refl _, Nat.le_refl _, fun _ _ => rfl, fun _ _ _ h => h, ?_, ?_, ?_⟩, ?_⟩
  · intro o x h
    simp only [Shared.blk] at h ⊢
    rw [htx] at h; rw [hused]; exact hg.cells_lt o x h
  · intro k hk o ho
    simp only [Shared.blk]
    obtain ⟨x, hx⟩ := hg.tbl_cells k hk o ho
    exact ⟨x, by rw [htx]; exact hx⟩
  · intro o1 o2 x h1 h2
    simp only [Shared.blk] at h1 h2
    rw [htx] at h1 h2
    exact hg.inj o1 o2 x h1 h2
  · intro h; rw [hlk] at h; cases h
  · intro i hi o x h
    simp only [Shared.blk]; rw [htx]; exact hg.vers i hi o x h
  · intro x a h
    have := hl.res x a h
    cases a <;> simp only [ResOK] at this ⊢
    · exact this
    · exact this
    · refine ⟨this.1, this.2.1, ?_⟩
      simp only [Shared.blk]; rw [htx]; exact this.2.2
  · simp only [PcInv]
    refine ⟨hlk, hni, hns, trivial, trivial, ?_, ?_⟩
    · intro o x h
      simp only [Shared.blk, Shared.tbl] at h ⊢
      rw [htx] at h; rw [htbl]; exact hall o x h
    · intro o
      simp only [Shared.blk]
      rw [htx]; exact habs o
  · intro o x h
    simp only [Shared.blk]
    rw [htx]; exact h
  · intro o x h
    simp only [Shared.blk] at h
    rw [htx] at h; exact Or.inl h
  · intro o h
    simp only [Shared.tbl]
    rw [htbl]; exact h
  · intro u hu hu'; rw [hlk] at hu'; cases hu'; exact absurd rfl hu


theorem own_write {cfg sh t l} (hg : GInv sh) (hl : LInv cfg sh t l) (hpc : l.pc = .write) :
    Own cfg sh t (stepT cfg sh t l).1 (stepT cfg sh t l).2 := by
  have hp := hl.pcinv
  unfold stepT
  simp only [PcInv, hpc] at hp ⊢
  obtain ⟨hlk, hni, hns, hbi, hti, hall, habs, hlt, hoff⟩ := hp
  -- the new block: one more cell at the fresh offset
  have hblk : ∀ o, (Shared.blk { sh with inners := (upd sh.inners l.bi
        { sh.inners l.bi with block := { (sh.inners l.bi).block with
            cells := (l.off, l.text) :: (sh.inners l.bi).block.cells } }) }).textAt o
      = if o = l.off then some l.text else sh.blk.textAt o := by
    intro o; simp [Shared.blk, hbi, Block.textAt]
  have hused : (Shared.blk { sh with inners := (upd sh.inners l.bi
        { sh.inners l.bi with block := { (sh.inners l.bi).block with
            cells := (l.off, l.text) :: (sh.inners l.bi).block.cells } }) }).used = sh.blk.used := by
    simp [Shared.blk, hbi]
  have htbl : (Shared.tbl { sh with inners := (upd sh.inners l.bi
        { sh.inners l.bi with block := { (sh.inners l.bi).block with
            cells := (l.off, l.text) :: (sh.inners l.bi).block.cells } }) }) = sh.tbl := by
    simp [Shared.tbl, hbi]
  have hold : ∀ o x, sh.blk.textAt o = some x → o ≠ l.off := fun o x h => Nat.ne_of_lt (hlt o x h)
  have hnotin : ∀ k, k < sh.ntables → l.off ∉ sh.tables k := by
    intro k hk hm
    obtain ⟨x, hx⟩ := hg.tbl_cells k hk _ hm
    exact hold _ _ hx rfl
  refine ⟨⟨hg.cur_lt, ?_, ?_, ?_, ?_, hg.nodup, ?_, ?_⟩, ⟨hl.bi_lt, hl.ti_lt, ?_, ?_⟩,
    ⟨Nat.le_refl _, Nat.le_refl _, fun _ _ => rfl, ?_, ?_, ?_, ?_⟩, ?_⟩
  · intro i hi
    simp only [upd_apply]; split
    · rename_i h; subst h; exact hg.tcur_lt _ hi
    · exact hg.tcur_lt _ hi
  · intro o x h
    rw [hblk] at h; rw [hused]
    split at h
    · rename_i ho; subst ho; exact hoff
    · exact hg.cells_lt o x h
  · intro k hk o ho
    obtain ⟨x, hx⟩ := hg.tbl_cells k hk o ho
    exact ⟨x, by rw [hblk, if_neg (hold o x hx)]; exact hx⟩
  · intro o1 o2 x h1 h2
    rw [hblk] at h1 h2
    split at h1 <;> split at h2
    · rename_i a b; rw [a, b]
    · cases h1; exact absurd h2 (habs o2)
    · cases h2; exact absurd h1 (habs o1)
    · exact hg.inj o1 o2 x h1 h2
  · intro h; rw [hlk] at h; cases h
  · intro i hi o x h
    by_cases hib : i = l.bi
    · subst hib
      simp only [upd_same] at h
      rw [hblk]
      simpa [Shared.blk, hbi, Block.textAt] using h
    · simp only [upd_ne _ _ hib] at h
      have h' := hg.vers i hi o x h
      rw [hblk, if_neg (hold o x h')]; exact h'
  · intro x a h
    have := hl.res x a h
    cases a <;> simp only [ResOK] at this ⊢
    · exact this
    · exact this
    · refine ⟨this.1, this.2.1, ?_⟩
      rw [hblk, if_neg (hold _ _ this.2.2)]; exact this.2.2
  · simp only [PcInv]
    refine ⟨hlk, hni, hns, hbi, ?_, ?_, ?_, ?_⟩
    · simp [hbi, hti]
    · rw [hblk]; simp
    · rw [htbl]
      exact hnotin _ (hg.tcur_lt _ hg.cur_lt)
    · intro o x h
      rw [hblk] at h; rw [htbl]
      split at h
      · rename_i ho; exact Or.inr ho
      · exact Or.inl (hall o x h)
  · intro i hi o ho
    simp only [upd_apply]; split
    · rename_i h; subst h; exact ho
    · exact ho
  · intro o x h
    rw [hblk, if_neg (hold o x h)]; exact h
  · intro o x h
    rw [hblk] at h
    split at h
    · rename_i ho; subst ho; exact Or.inr hnotin
    · exact Or.inl h
  · intro o h; rw [htbl]; exact h
  · intro u hu hu'; rw [hlk] at hu'; cases hu'; exact absurd rfl hu


theorem own_publish {cfg sh t l} (hg : GInv sh) (hl : LInv cfg sh t l) (hpc : l.pc = .publish) :
    Own cfg sh t (stepT cfg sh t l).1 (stepT cfg sh t l).2 := by
  have hp := hl.pcinv
  unfold stepT
  simp only [PcInv, hpc] at hp ⊢
  obtain ⟨hlk, hni, hns, hbi, hti, hoff, hnotin, hcov⟩ := hp
  have htc := hg.tcur_lt _ hg.cur_lt
  have hblk : (Shared.blk { sh with
        tables := (upd sh.tables sh.ntables (insertSet (sh.tables l.ti) l.off)),
        ntables := sh.ntables + 1,
        inners := (upd sh.inners l.bi { sh.inners l.bi with tcur := sh.ntables }) }) = sh.blk := by
    simp [Shared.blk, hbi]
  have htbl : (Shared.tbl { sh with
        tables := (upd sh.tables sh.ntables (insertSet (sh.tables l.ti) l.off)),
        ntables := sh.ntables + 1,
        inners := (upd sh.inners l.bi { sh.inners l.bi with tcur := sh.ntables }) })
      = insertSet sh.tbl l.off := by
    simp [Shared.tbl, hbi, hti]
  refine ⟨⟨hg.cur_lt, ?_, ?_, ?_, ?_, ?_, ?_, ?_⟩, ⟨hl.bi_lt, Nat.lt_succ_of_lt hl.ti_lt, ?_, ?_⟩,
    ⟨Nat.le_refl _, Nat.le_succ _, ?_, ?_, ?_, ?_, ?_⟩, ?_⟩
  · intro i hi
    simp only [upd_apply]; split
    · exact Nat.lt_succ_self _
    · exact Nat.lt_succ_of_lt (hg.tcur_lt _ hi)
  · intro o x h; rw [hblk] at h ⊢; exact hg.cells_lt o x h
  · intro k hk o ho
    rw [hblk]
    simp only [upd_apply] at ho
    split at ho
    · rcases mem_insertSet.mp ho with h | h
      · exact hg.tbl_cells _ hl.ti_lt o h
      · subst h; exact ⟨_, hoff⟩
    · rename_i hne
      exact hg.tbl_cells k (by simp only at hk; omega) o ho
  · intro o1 o2 x h1 h2; rw [hblk] at h1 h2; exact hg.inj o1 o2 x h1 h2
  · intro k hk
    simp only [upd_apply]; split
    · exact nodup_insertSet (hg.nodup _ hl.ti_lt)
    · rename_i hne
      exact hg.nodup k (by simp only at hk; omega)
  · intro h; rw [hlk] at h; cases h
  · intro i hi o x h
    rw [hblk]
    by_cases hib : i = l.bi
    · subst hib
      simp only [upd_same] at h
      exact hg.vers _ hi o x h
    · simp only [upd_ne _ _ hib] at h
      exact hg.vers i hi o x h
  · intro x a h
    have := hl.res x a h
    cases a <;> simp only [ResOK] at this ⊢
    · exact this
    · exact this
    · refine ⟨this.1, this.2.1, ?_⟩
      rw [hblk]; exact this.2.2
  · simp only [PcInv]
    refine ⟨hlk, hni, hns, ?_, ?_⟩
    · intro o x h
      rw [hblk] at h; rw [htbl]
      exact mem_insertSet.mpr (hcov o x h)
    · rw [hblk]; exact hoff
  · intro k hk
    exact upd_ne _ _ (Nat.ne_of_lt hk)
  · intro i hi o ho
    simp only [upd_apply]
    by_cases hib : i = l.bi
    · subst hib
      simp only [if_true]
      rw [hbi] at ho
      rw [hti]
      exact mem_insertSet.mpr (Or.inl ho)
    · simp only [if_neg hib]
      rw [if_neg (Nat.ne_of_lt (hg.tcur_lt _ hi))]
      exact ho
  · intro o x h; rw [hblk]; exact h
  · intro o x h; rw [hblk] at h; exact Or.inl h
  · intro o h; rw [htbl]; exact mem_insertSet.mpr (Or.inl h)
  · intro u hu hu'; rw [hlk] at hu'; cases hu'; exact absurd rfl hu


theorem own_alloc {cfg sh t l} (hg : GInv sh) (hl : LInv cfg sh t l) (hpc : l.pc = .alloc) :
    Own cfg sh t (stepT cfg sh t l).1 (stepT cfg sh t l).2 := by
  have hp := hl.pcinv
  unfold stepT
  simp only [PcInv, hpc] at hp ⊢
  obtain ⟨hlk, hni, hns, hbi, hti, hall, habs⟩ := hp
  have htc := hg.tcur_lt _ hg.cur_lt
  have hcl := hg.cur_lt
  split
  · -- the allocation fits: bump the pointer
    have hblk : ∀ o, (Shared.blk { sh with inners := (upd sh.inners l.bi
          { sh.inners l.bi with block := { (sh.inners l.bi).block with
              used := (sh.inners l.bi).block.used + allocSize l.text } }) }).textAt o
        = sh.blk.textAt o := by
      intro o; simp [Shared.blk, hbi, Block.textAt]
    have hused : (Shared.blk { sh with inners := (upd sh.inners l.bi
          { sh.inners l.bi with block := { (sh.inners l.bi).block with
              used := (sh.inners l.bi).block.used + allocSize l.text } }) }).used
        = sh.blk.used + allocSize l.text := by
      simp [Shared.blk, hbi]
    have htbl : (Shared.tbl { sh with inners := (upd sh.inners l.bi
          { sh.inners l.bi with block := { (sh.inners l.bi).block with
              used := (sh.inners l.bi).block.used + allocSize l.text } }) }) = sh.tbl := by
      simp [Shared.tbl, hbi]
    have hpos := allocSize_pos l.text
    refine ⟨⟨hg.cur_lt, ?_, ?_, ?_, ?_, hg.nodup, ?_, ?_⟩, ⟨hl.bi_lt, hl.ti_lt, ?_, ?_⟩,
      ⟨Nat.le_refl _, Nat.le_refl _, fun _ _ => rfl, ?_, ?_, ?_, ?_⟩, ?_⟩
    · intro i hi
      simp only [upd_apply]; split
      · rename_i h; subst h; exact hg.tcur_lt _ hi
      · exact hg.tcur_lt _ hi
    · intro o x h
      rw [hblk] at h; rw [hused]
      exact Nat.lt_of_lt_of_le (hg.cells_lt o x h) (Nat.le_add_right _ _)
    · intro k hk o ho
      obtain ⟨x, hx⟩ := hg.tbl_cells k hk o ho
      exact ⟨x, by rw [hblk]; exact hx⟩
    · intro o1 o2 x h1 h2
      rw [hblk] at h1 h2
      exact hg.inj o1 o2 x h1 h2
    · intro h; rw [hlk] at h; cases h
    · intro i hi o x h
      rw [hblk]
      by_cases hib : i = l.bi
      · subst hib
        simp only [upd_same] at h
        simpa [Shared.blk, hbi, Block.textAt] using h
      · simp only [upd_ne _ _ hib] at h
        exact hg.vers i hi o x h
    · intro x a h
      have := hl.res x a h
      cases a <;> simp only [ResOK] at this ⊢
      · exact this
      · exact this
      · refine ⟨this.1, this.2.1, ?_⟩
        rw [hblk]; exact this.2.2
    · simp only [PcInv]
      refine ⟨hlk, hni, hns, hbi, ?_, ?_, ?_, ?_, ?_⟩
      · simp [hbi, hti]
      · intro o x h; rw [hblk] at h; rw [htbl]; exact hall o x h
      · intro o; rw [hblk]; exact habs o
      · intro o x h; rw [hblk] at h
        have := hg.cells_lt o x h
        simpa [Shared.blk, hbi] using this
      · rw [hused]; simp only [Shared.blk, hbi]; omega
    · intro i hi o ho
      simp only [upd_apply]; split
      · rename_i h; subst h; exact ho
      · exact ho
    · intro o x h; rw [hblk]; exact h
    · intro o x h; rw [hblk] at h; exact Or.inl h
    · intro o h; rw [htbl]; exact h
    · intro u hu hu'; rw [hlk] at hu'; cases hu'; exact absurd rfl hu
  · -- exhausted: build the grown copy (not yet published)
    have hcur : (upd sh.inners sh.ninners
          ({ block := { cap := 2 * (sh.inners l.bi).block.cap, used := (sh.inners l.bi).block.used,
                        cells := (sh.inners l.bi).block.cells },
             tcur := sh.ntables } : Inner)) sh.cur = sh.inners sh.cur :=
      upd_ne _ _ (Nat.ne_of_lt hcl)
    have hblk : (Shared.blk { sh with
          inners := (upd sh.inners sh.ninners
            { block := { cap := 2 * (sh.inners l.bi).block.cap, used := (sh.inners l.bi).block.used,
                         cells := (sh.inners l.bi).block.cells },
              tcur := sh.ntables }),
          ninners := sh.ninners + 1,
          tables := (upd sh.tables sh.ntables (sh.tables l.ti)),
          ntables := sh.ntables + 1 }) = sh.blk := by
      simp only [Shared.blk, hcur]
    have htbl : (Shared.tbl { sh with
          inners := (upd sh.inners sh.ninners
            { block := { cap := 2 * (sh.inners l.bi).block.cap, used := (sh.inners l.bi).block.used,
                         cells := (sh.inners l.bi).block.cells },
              tcur := sh.ntables }),
          ninners := sh.ninners + 1,
          tables := (upd sh.tables sh.ntables (sh.tables l.ti)),
          ntables := sh.ntables + 1 }) = sh.tbl := by
      simp only [Shared.tbl, hcur]
      exact upd_ne _ _ (Nat.ne_of_lt htc)
    refine ⟨⟨Nat.lt_succ_of_lt hg.cur_lt, ?_, ?_, ?_, ?_, ?_, ?_, ?_⟩,
      ⟨Nat.lt_succ_of_lt hl.bi_lt, Nat.lt_succ_of_lt hl.ti_lt, ?_, ?_⟩,
      ⟨Nat.le_succ _, Nat.le_succ _, ?_, ?_, ?_, ?_, ?_⟩, ?_⟩
    · intro i hi
      simp only [upd_apply]; split
      · exact Nat.lt_succ_self _
      · rename_i hne
        exact Nat.lt_succ_of_lt (hg.tcur_lt _ (by simp only at hi; omega))
    · intro o x h; rw [hblk] at h ⊢; exact hg.cells_lt o x h
    · intro k hk o ho
      rw [hblk]
      simp only [upd_apply] at ho
      split at ho
      · exact hg.tbl_cells _ hl.ti_lt o ho
      · rename_i hne
        exact hg.tbl_cells k (by simp only at hk; omega) o ho
    · intro o1 o2 x h1 h2; rw [hblk] at h1 h2; exact hg.inj o1 o2 x h1 h2
    · intro k hk
      simp only [upd_apply]; split
      · exact hg.nodup _ hl.ti_lt
      · rename_i hne
        exact hg.nodup k (by simp only at hk; omega)
    · intro h; rw [hlk] at h; cases h
    · intro i hi o x h
      rw [hblk]
      by_cases hin : i = sh.ninners
      · subst hin
        simp only [upd_same] at h
        simpa [Shared.blk, hbi, Block.textAt] using h
      · simp only [upd_ne _ _ hin] at h
        exact hg.vers i (by simp only at hi; omega) o x h
    · intro x a h
      have := hl.res x a h
      cases a <;> simp only [ResOK] at this ⊢
      · exact this
      · exact this
      · refine ⟨this.1, this.2.1, ?_⟩
        rw [hblk]; exact this.2.2
    · simp only [PcInv]
      refine ⟨hlk, hni, hns, hbi, ?_, ?_, ?_, Nat.lt_succ_self _, ?_, ?_, ?_⟩
      · rw [hcur]; exact hti
      · intro o x h; rw [hblk] at h; rw [htbl]; exact hall o x h
      · intro o; rw [hblk]; exact habs o
      · rw [hblk]; simp [Shared.blk, hbi]
      · rw [hblk]; simp [Shared.blk, hbi]
      · rw [htbl]; simp [Shared.tbl, hti]
    · intro k hk
      exact upd_ne _ _ (Nat.ne_of_lt hk)
    · intro i hi o ho
      dsimp only
      rw [upd_ne _ _ (Nat.ne_of_lt hi), upd_ne _ _ (Nat.ne_of_lt (hg.tcur_lt _ hi))]
      exact ho
    · intro o x h; rw [hblk]; exact h
    · intro o x h; rw [hblk] at h; exact Or.inl h
    · intro o h; rw [htbl]; exact h
    · intro u hu hu'; rw [hlk] at hu'; cases hu'; exact absurd rfl hu

/-- a step of thread `t` re-establishes everything and guarantees `Ext` + frame -/
theorem own {cfg : Cfg} {sh : Shared} {t : Tid} {l : Local} (hr : cfg.recheck = true)
    (hg : GInv sh) (hl : LInv cfg sh t l) :
    Own cfg sh t (stepT cfg sh t l).1 (stepT cfg sh t l).2 := by
  cases hpc : l.pc
  · exact own_idle hg hl hpc
  · exact own_readInner hg hl hpc
  · exact own_readTable hg hl hpc
  · exact own_lookup hg hl hpc
  · exact own_lock hg hl hpc
  · exact own_recheck hr hg hl hpc
  · exact own_alloc hg hl hpc
  · exact own_publishInner hg hl hpc
  · exact own_write hg hl hpc
  · exact own_publish hg hl hpc
  · exact own_unlock hg hl hpc


/-! ## the invariant of the whole system, for every schedule -/

structure Inv (cfg : Cfg) (s : State) : Prop where
  g : GInv s.sh
  l : ∀ u, LInv cfg s.sh u (s.locals u)

theorem inv_init (cfg : Cfg) (scripts : Tid → List Text) : Inv cfg (init cfg scripts) := by
  refine ⟨⟨by simp [init, initShared], ?_, ?_, ?_, ?_, ?_, ?_, ?_⟩, fun u => ⟨?_, ?_, ?_, ?_⟩⟩
  · intro i _; simp [init, initShared]
  · intro o x h; simp [init, initShared, Shared.blk, Block.textAt] at h
  · intro k _ o ho; simp [init, initShared] at ho
  · intro o1 o2 x h; simp [init, initShared, Shared.blk, Block.textAt] at h
  · intro k _; simp [init, initShared]
  · intro _ o x h; simp [init, initShared, Shared.blk, Block.textAt] at h
  · intro i _ o x h; simp [init, initShared, Block.textAt] at h
  · simp [init, initShared, initLocal]
  · simp [init, initShared, initLocal]
  · intro x a h; simp [init, initLocal] at h
  · simp [init, initLocal, PcInv]

theorem inv_step {cfg : Cfg} (hr : cfg.recheck = true) {s : State} (h : Inv cfg s) (t : Tid) :
    Inv cfg (step cfg s t) ∧ Ext s.sh (step cfg s t).sh := by
  have ho := own hr h.g (h.l t)
  refine ⟨⟨ho.g, fun u => ?_⟩, ho.e⟩
  by_cases hu : u = t
  · subst hu
    simp only [step, upd_same]
    exact ho.l
  · simp only [step, upd_ne _ _ hu]
    exact other (h.l u) ho.e (ho.frame u hu)

theorem Ext.trans {a b c : Shared} (h1 : Ext a b) (h2 : Ext b c) : Ext a c := by
  refine ⟨Nat.le_trans h1.ninners_le h2.ninners_le, Nat.le_trans h1.ntables_le h2.ntables_le,
    ?_, ?_, ?_, ?_, ?_⟩
  · intro k hk
    rw [h2.tables_eq k (Nat.lt_of_lt_of_le hk h1.ntables_le), h1.tables_eq k hk]
  · intro i hi o ho
    exact h2.tcur_mono i (Nat.lt_of_lt_of_le hi h1.ninners_le) o (h1.tcur_mono i hi o ho)
  · intro o x h; exact h2.pairs o x (h1.pairs o x h)
  · intro o x h
    rcases h2.fresh o x h with h' | h'
    · exact h1.fresh o x h'
    · refine Or.inr fun k hk hm => ?_
      have := h' k (Nat.lt_of_lt_of_le hk h1.ntables_le)
      rw [h1.tables_eq k hk] at this
      exact this hm
  · intro o h; exact h2.tbl_mono o (h1.tbl_mono o h)

theorem inv_run {cfg : Cfg} (hr : cfg.recheck = true) {s : State} (h : Inv cfg s)
    (sched : List Tid) : Inv cfg (run cfg s sched) ∧ Ext s.sh (run cfg s sched).sh := by
  induction sched generalizing s with
  | nil => exact ⟨h, Ext.refl _⟩
  | cons t rest ih =>
    have h1 := inv_step hr h t
    have h2 := ih h1.1
    exact ⟨h2.1, h1.2.trans h2.2⟩

/-- completed calls are never forgotten -/
theorem results_stepT (cfg : Cfg) (sh : Shared) (t : Tid) (l : Local) (p : Text × Atom)
    (h : p ∈ l.results) : p ∈ (stepT cfg sh t l).2.results := by
  unfold stepT
  cases hpc : l.pc <;> simp only [] <;> (repeat' split) <;>
    first
    | exact h
    | (simp only [finish, List.mem_cons]; exact Or.inr h)

theorem results_step (cfg : Cfg) (s : State) (t u : Tid) (p : Text × Atom)
    (h : p ∈ (s.locals u).results) : p ∈ ((step cfg s t).locals u).results := by
  by_cases hu : u = t
  · subst hu
    simp only [step, upd_same]
    exact results_stepT cfg s.sh u _ p h
  · simp only [step, upd_ne _ _ hu]
    exact h

theorem results_run (cfg : Cfg) (s : State) (sched : List Tid) (u : Tid) (p : Text × Atom)
    (h : p ∈ (s.locals u).results) : p ∈ ((run cfg s sched).locals u).results := by
  induction sched generalizing s with
  | nil => exact h
  | cons t rest ih => exact ih (step cfg s t) (results_step cfg s t u p h)

theorem run_append (cfg : Cfg) (s : State) (a b : List Tid) :
    run cfg s (a ++ b) = run cfg (run cfg s a) b := by
  simp [run, List.foldl_append]

end Scryer.AtomProto
