import ScryerModel.Proofs.BDD
/-! Counting (`bdd_count/3`) and labeling lemmas for C46. -/
namespace Scryer.BDD
open BDD

/-! ### top-level facts about `build` -/

theorem fresh_spec (f : Fm) : ∀ v ∈ f.allVars, v < f.fresh := by
  unfold Fm.fresh
  generalize f.allVars = l
  induction l with
  | nil => intro v h; simp at h
  | cons x r ih =>
    intro v h
    simp only [List.foldr_cons]
    rcases List.mem_cons.1 h with rfl | h
    · omega
    · have := ih v h; omega

theorem build_good (f : Fm) {fr : Nat} (h : ∀ v ∈ f.allVars, v < fr) : Good (· ∈ f.allVars) (f.build fr) :=
  (build_ok f fr h).1

theorem build_eval (f : Fm) {fr : Nat} (h : ∀ v ∈ f.allVars, v < fr) (ρ : Nat → Bool) :
    (f.build fr).eval ρ = f.eval ρ := (build_ok f fr h).2 ρ

theorem apply_and_true (b : BDD) : apply .and (leaf true) b = b := by
  cases b with
  | leaf y => simp [apply, Op.fn]
  | node v l h => simp [apply, shortcutL]

theorem supp_vars {S : Nat → Prop} {b : BDD} (hb : Supp S b) : ∀ v ∈ b.vars, S v := by
  induction b with
  | leaf _ => intro v h; simp [vars] at h
  | node w l r ihl ihr =>
    intro v h
    simp only [vars, List.mem_cons, List.mem_append] at h
    rcases h with rfl | h | h
    · exact hb.1
    · exact ihl hb.2.1 v h
    · exact ihr hb.2.2 v h

/-! ### counting -/

/-- assignment of the levels `k, k+1, …` from a bit row. -/
def envFrom (k : Nat) (bits : List Bool) : Nat → Bool := fun i => bits.getD (i - k) false

/-- number of rows of length `m` (levels `k … k+m-1`) that satisfy `b`. -/
def cntFrom (k m : Nat) (b : BDD) : Nat := (allBits m).countP fun bits => b.eval (envFrom k bits)

theorem allBits_length : ∀ m, (allBits m).length = 2 ^ m
  | 0 => rfl
  | m + 1 => by simp [allBits, allBits_length m, Nat.pow_succ]; omega

theorem cntFrom_succ (k m : Nat) (b : BDD) :
    cntFrom k (m + 1) b = ((allBits m).countP fun bits => b.eval (envFrom k (false :: bits)))
      + ((allBits m).countP fun bits => b.eval (envFrom k (true :: bits))) := by
  simp only [cntFrom, allBits, List.countP_append, List.countP_map]
  rfl

theorem envFrom_cons_gt {k i : Nat} (x : Bool) (bits : List Bool) (h : k < i) :
    envFrom k (x :: bits) i = envFrom (k + 1) bits i := by
  simp only [envFrom]
  have : i - k = (i - (k + 1)) + 1 := by omega
  rw [this, List.getD_cons_succ]

theorem envFrom_cons_self (k : Nat) (x : Bool) (bits : List Bool) : envFrom k (x :: bits) k = x := by
  simp [envFrom]

theorem eval_envFrom_skip {k : Nat} {b : BDD} (hb : OrdAbove (k + 1) b) (x : Bool) (bits : List Bool) :
    b.eval (envFrom k (x :: bits)) = b.eval (envFrom (k + 1) bits) :=
  eval_congr_supp (supp_of_ordAbove hb) (fun v hv => envFrom_cons_gt x bits (by omega))

theorem cntFrom_skip {k m : Nat} {b : BDD} (hb : OrdAbove (k + 1) b) :
    cntFrom k (m + 1) b = 2 * cntFrom (k + 1) m b := by
  rw [cntFrom_succ]
  simp only [eval_envFrom_skip hb, cntFrom]
  omega

theorem cntFrom_node {k m : Nat} {l h : BDD} (hl : OrdAbove (k + 1) l) (hh : OrdAbove (k + 1) h) :
    cntFrom k (m + 1) (node k l h) = cntFrom (k + 1) m l + cntFrom (k + 1) m h := by
  rw [cntFrom_succ]
  simp only [eval, envFrom_cons_self, eval_envFrom_skip hl, eval_envFrom_skip hh, cntFrom]
  simp

theorem cntFrom_leaf (k m : Nat) (x : Bool) : cntFrom k m (leaf x) = if x then 2 ^ m else 0 := by
  cases x <;> simp [cntFrom, eval, allBits_length]

/-- `bdd_count/3` is right: with levels `k … n`, `2^(var_u(b) - k) * bdd_count(b)` rows satisfy `b`. -/
theorem count_spec (n : Nat) : ∀ (m k : Nat) (b : BDD), k + m = n + 1 → OrdAbove k b →
    Supp (· ≤ n) b → cntFrom k m b = 2 ^ (b.varU (n + 1) - k) * b.count (n + 1) := by
  intro m
  induction m with
  | zero =>
    intro k b hk ho hs
    cases b with
    | leaf x => simp [cntFrom_leaf, varU, count, hk]
    | node v l h => have := ho.1; have := hs.1; omega
  | succ m ih =>
    intro k b hk ho hs
    cases b with
    | leaf x =>
      rw [cntFrom_leaf]
      simp only [varU, count]
      have : n + 1 - k = m + 1 := by omega
      rw [this]
      cases x <;> simp
    | node v l h =>
      have hvk := ho.1
      have hvn : v ≤ n := hs.1
      by_cases hv : v = k
      · subst hv
        rw [cntFrom_node ho.2.1 ho.2.2, ih (v + 1) l (by omega) ho.2.1 hs.2.1,
          ih (v + 1) h (by omega) ho.2.2 hs.2.2]
        simp only [varU, count, Nat.sub_self, Nat.pow_zero, Nat.one_mul]
        congr 2 <;> congr 1 <;> omega
      · have ho' : OrdAbove (k + 1) (node v l h) := ⟨by omega, ho.2.1, ho.2.2⟩
        rw [cntFrom_skip ho', ih (k + 1) _ (by omega) ho' hs]
        simp only [varU]
        have : v - k = (v - (k + 1)) + 1 := by omega
        rw [this, Nat.pow_succ]
        generalize 2 ^ (v - (k + 1)) = p
        generalize (node v l h).count (n + 1) = c
        rw [Nat.mul_comm p 2, Nat.mul_assoc]

@[simp] theorem eval_renumber (r : Nat → Nat) (b : BDD) (σ : Nat → Bool) :
    (b.renumber r).eval σ = b.eval (fun v => σ (r v)) := by
  induction b with
  | leaf _ => rfl
  | node v l h ihl ihh => simp [renumber, eval, ihl, ihh]

theorem ordAbove_renumber {vs : List Nat} {r : Nat → Nat}
    (hmono : ∀ a ∈ vs, ∀ b ∈ vs, a < b → r a < r b) : ∀ (b : BDD) (k j : Nat), OrdAbove k b →
    Supp (· ∈ vs) b → (∀ w ∈ vs, k ≤ w → j ≤ r w) → OrdAbove j (b.renumber r) := by
  intro b
  induction b with
  | leaf _ => intros; trivial
  | node v l h ihl ihh =>
    intro k j ho hs hj
    have hstep : ∀ w ∈ vs, v + 1 ≤ w → r v + 1 ≤ r w := fun w hw hle => hmono v hs.1 w hw (by omega)
    exact ⟨hj v hs.1 ho.1, ihl _ _ ho.2.1 hs.2.1 hstep, ihh _ _ ho.2.2 hs.2.2 hstep⟩

theorem supp_renumber {S T : Nat → Prop} {r : Nat → Nat} (h : ∀ v, S v → T (r v)) : ∀ {b : BDD},
    Supp S b → Supp T (b.renumber r) := by
  intro b
  induction b with
  | leaf _ => intros; trivial
  | node v l hh ihl ihh => intro hs; exact ⟨h v hs.1, ihl hs.2.1, ihh hs.2.2⟩

theorem idxOf_lt_of_sorted : ∀ {vs : List Nat}, vs.Pairwise (· < ·) → ∀ a ∈ vs, ∀ b ∈ vs, a < b →
    vs.idxOf a < vs.idxOf b
  | [], _, a, ha, _, _, _ => by simp at ha
  | x :: r, hp, a, ha, b, hb, hab => by
    rw [List.pairwise_cons] at hp
    simp only [List.idxOf_cons]
    rcases List.mem_cons.1 ha with rfl | ha
    · have : ¬ (a == b) = true := by simp; omega
      simp [this]
    · have hxa : x < a := hp.1 a ha
      rcases List.mem_cons.1 hb with rfl | hb
      · omega
      · have h1 : ¬ (x == a) = true := by simp; omega
        have h2 : ¬ (x == b) = true := by simp; omega
        simp only [h1, h2, if_false]
        have := idxOf_lt_of_sorted hp.2 a ha b hb hab
        simpa using this

/-- the counting part of `sat_count/2` returns the number of rows over `vs` that satisfy `b`. -/
theorem satCountBDD_spec {vs : List Nat} {b : BDD} (hvs : vs.Pairwise (· < ·)) (hb : Good (· ∈ vs) b) :
    satCountBDD vs b = ((allBits vs.length).filter fun bits => b.eval (envOf vs bits)).length := by
  have hmono := idxOf_lt_of_sorted hvs
  have ho : OrdAbove 1 (b.renumber fun v => vs.idxOf v + 1) :=
    ordAbove_renumber (r := fun v => vs.idxOf v + 1) (fun a ha b hb hab => by have := hmono a ha b hb hab; omega)
      b 0 1 hb.ord hb.supp (fun w _ _ => by omega)
  have hs : Supp (· ≤ vs.length) (b.renumber fun v => vs.idxOf v + 1) :=
    supp_renumber (S := (· ∈ vs)) (fun v hv => by have := List.idxOf_lt_length_of_mem hv; omega) hb.supp
  have := count_spec vs.length vs.length 1 _ (by omega) ho hs
  simp only [satCountBDD]
  rw [← this, cntFrom, List.countP_eq_length_filter]
  congr 2
  funext bits
  rw [eval_renumber]
  congr 1
  funext v
  simp [envFrom, envOf]

end Scryer.BDD
