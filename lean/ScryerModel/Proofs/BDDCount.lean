import ScryerModel.Proofs.BDD
/-! Counting (`bdd_count/3`) and labeling lemmas for C46. -/
namespace Scryer.BDD
open BDD

/-! ### top-level facts about `build` -/

theorem fresh_spec (f : Fm) : ∀ v ∈ f.allVars, v < f.fresh := by
  unfold Fm.fresh
  generalize f.allVars = l
  induction l with
  | nil => intro v h; simp at h
  | cons x r ih =>
    intro v h
    simp only [List.foldr_cons]
    rcases List.mem_cons.1 h with rfl | h
    · omega
    · have := ih v h; omega

theorem build_good (f : Fm) {fr : Nat} (h : ∀ v ∈ f.allVars, v < fr) : Good (· ∈ f.allVars) (f.build fr) :=
  (build_ok f fr h).1

theorem build_eval (f : Fm) {fr : Nat} (h : ∀ v ∈ f.allVars, v < fr) (ρ : Nat → Bool) :
    (f.build fr).eval ρ = f.eval ρ := (build_ok f fr h).2 ρ

theorem apply_and_true (b : BDD) : apply .and (leaf true) b = b := by
  cases b with
  | leaf y => simp [apply, Op.fn]
  | node v l h => simp [apply, shortcutL]

theorem supp_vars {S : Nat → Prop} {b : BDD} (hb : Supp S b) : ∀ v ∈ b.vars, S v := by
  induction b with
  | leaf _ => intro v h; simp [vars] at h
  | node w l r ihl ihr =>
    intro v h
    simp only [vars, List.mem_cons, List.mem_append] at h
    rcases h with rfl | h | h
    · exact hb.1
    · exact ihl hb.2.1 v h
    · exact ihr hb.2.2 v h

/-! ### counting -/

/-- assignment of the levels `k, k+1, …` from a bit row. -/
def envFrom (k : Nat) (bits : List Bool) : Nat → Bool := fun i => bits.getD (i - k) false

/-- number of rows of length `m` (levels `k … k+m-1`) that satisfy `b`. -/
def cntFrom (k m : Nat) (b : BDD) : Nat := (allBits m).countP fun bits => b.eval (envFrom k bits)

theorem allBits_length : ∀ m, (allBits m).length = 2 ^ m
  | 0 => rfl
  | m + 1 => by simp [allBits, allBits_length m, Nat.pow_succ]; omega

theorem cntFrom_succ (k m : Nat) (b : BDD) :
    cntFrom k (m + 1) b = ((allBits m).countP fun bits => b.eval (envFrom k (false :: bits)))
      + ((allBits m).countP fun bits => b.eval (envFrom k (true :: bits))) := by
  simp only [cntFrom, allBits, List.countP_append, List.countP_map]
  rfl

theorem envFrom_cons_gt {k i : Nat} (x : Bool) (bits : List Bool) (h : k < i) :
    envFrom k (x :: bits) i = envFrom (k + 1) bits i := by
  simp only [envFrom]
  have : i - k = (i - (k + 1)) + 1 := by omega
  rw [this, List.getD_cons_succ]

theorem envFrom_cons_self (k : Nat) (x : Bool) (bits : List Bool) : envFrom k (x :: bits) k = x := by
  simp [envFrom]

theorem eval_envFrom_skip {k : Nat} {b : BDD} (hb : OrdAbove (k + 1) b) (x : Bool) (bits : List Bool) :
    b.eval (envFrom k (x :: bits)) = b.eval (envFrom (k + 1) bits) :=
  eval_congr_supp (supp_of_ordAbove hb) (fun v hv => envFrom_cons_gt x bits (by omega))

theorem cntFrom_skip {k m : Nat} {b : BDD} (hb : OrdAbove (k + 1) b) :
    cntFrom k (m + 1) b = 2 * cntFrom (k + 1) m b := by
  rw [cntFrom_succ]
  simp only [eval_envFrom_skip hb, cntFrom]
  omega

theorem cntFrom_node {k m : Nat} {l h : BDD} (hl : OrdAbove (k + 1) l) (hh : OrdAbove (k + 1) h) :
    cntFrom k (m + 1) (node k l h) = cntFrom (k + 1) m l + cntFrom (k + 1) m h := by
  rw [cntFrom_succ]
  simp only [eval, envFrom_cons_self, eval_envFrom_skip hl, eval_envFrom_skip hh, cntFrom]
  simp

theorem cntFrom_leaf (k m : Nat) (x : Bool) : cntFrom k m (leaf x) = if x then 2 ^ m else 0 := by
  cases x <;> simp [cntFrom, eval, allBits_length]

/-- `bdd_count/3` is right: with levels `k … n`, `2^(var_u(b) - k) * bdd_count(b)` rows satisfy `b`. -/
theorem count_spec (n : Nat) : ∀ (m k : Nat) (b : BDD), k + m = n + 1 → OrdAbove k b →
    Supp (· ≤ n) b → cntFrom k m b = 2 ^ (b.varU (n + 1) - k) * b.count (n + 1) := by
  intro m
  induction m with
  | zero =>
    intro k b hk ho hs
    cases b with
    | leaf x =>
      have : n + 1 - k = 0 := by omega
      simp [cntFrom_leaf, varU, count, this]
    | node v l h => have := ho.1; have := hs.1; omega
  | succ m ih =>
    intro k b hk ho hs
    cases b with
    | leaf x =>
      rw [cntFrom_leaf]
      simp only [varU, count]
      have : n + 1 - k = m + 1 := by omega
      rw [this]
      cases x <;> simp
    | node v l h =>
      have hvk := ho.1
      have hvn : v ≤ n := hs.1
      by_cases hv : v = k
      · subst hv
        rw [cntFrom_node ho.2.1 ho.2.2, ih (v + 1) l (by omega) ho.2.1 hs.2.1,
          ih (v + 1) h (by omega) ho.2.2 hs.2.2]
        simp only [varU, count, Nat.sub_self, Nat.pow_zero, Nat.one_mul]
        congr 2 <;> congr 1 <;> omega
      · have ho' : OrdAbove (k + 1) (node v l h) := ⟨by omega, ho.2.1, ho.2.2⟩
        rw [cntFrom_skip ho', ih (k + 1) _ (by omega) ho' hs]
        simp only [varU]
        have : v - k = (v - (k + 1)) + 1 := by omega
        rw [this, Nat.pow_succ]
        generalize 2 ^ (v - (k + 1)) = p
        generalize (node v l h).count (n + 1) = c
        rw [Nat.mul_comm p 2, Nat.mul_assoc]

@[simp] theorem eval_renumber (r : Nat → Nat) (b : BDD) (σ : Nat → Bool) :
    (b.renumber r).eval σ = b.eval (fun v => σ (r v)) := by
  induction b with
  | leaf _ => rfl
  | node v l h ihl ihh => simp [renumber, eval, ihl, ihh]

theorem ordAbove_renumber {vs : List Nat} {r : Nat → Nat}
    (hmono : ∀ a ∈ vs, ∀ b ∈ vs, a < b → r a < r b) : ∀ (b : BDD) (k j : Nat), OrdAbove k b →
    Supp (· ∈ vs) b → (∀ w ∈ vs, k ≤ w → j ≤ r w) → OrdAbove j (b.renumber r) := by
  intro b
  induction b with
  | leaf _ => intros; trivial
  | node v l h ihl ihh =>
    intro k j ho hs hj
    have hstep : ∀ w ∈ vs, v + 1 ≤ w → r v + 1 ≤ r w := fun w hw hle => hmono v hs.1 w hw (by omega)
    exact ⟨hj v hs.1 ho.1, ihl _ _ ho.2.1 hs.2.1 hstep, ihh _ _ ho.2.2 hs.2.2 hstep⟩

theorem supp_renumber {S T : Nat → Prop} {r : Nat → Nat} (h : ∀ v, S v → T (r v)) : ∀ {b : BDD},
    Supp S b → Supp T (b.renumber r) := by
  intro b
  induction b with
  | leaf _ => intros; trivial
  | node v l hh ihl ihh => intro hs; exact ⟨h v hs.1, ihl hs.2.1, ihh hs.2.2⟩

theorem idxOf_lt_of_sorted : ∀ {vs : List Nat}, vs.Pairwise (· < ·) → ∀ a ∈ vs, ∀ b ∈ vs, a < b →
    vs.idxOf a < vs.idxOf b
  | [], _, a, ha, _, _, _ => by simp at ha
  | x :: r, hp, a, ha, b, hb, hab => by
    rw [List.pairwise_cons] at hp
    simp only [List.idxOf_cons]
    rcases List.mem_cons.1 ha with rfl | ha
    · have : ¬ (a == b) = true := by simp; omega
      simp [this]
    · have hxa : x < a := hp.1 a ha
      rcases List.mem_cons.1 hb with rfl | hb
      · omega
      · have h1 : ¬ (x == a) = true := by simp; omega
        have h2 : ¬ (x == b) = true := by simp; omega
        simp only [h1, h2]
        have := idxOf_lt_of_sorted hp.2 a ha b hb hab
        simpa using this

/-- the counting part of `sat_count/2` returns the number of rows over `vs` that satisfy `b`. -/
theorem satCountBDD_spec {vs : List Nat} {b : BDD} (hvs : vs.Pairwise (· < ·)) (hb : Good (· ∈ vs) b) :
    satCountBDD vs b = ((allBits vs.length).filter fun bits => b.eval (envOf vs bits)).length := by
  have hmono := idxOf_lt_of_sorted hvs
  have ho : OrdAbove 1 (b.renumber fun v => vs.idxOf v + 1) :=
    ordAbove_renumber (r := fun v => vs.idxOf v + 1) (fun a ha b hb hab => by have := hmono a ha b hb hab; omega)
      b 0 1 hb.ord hb.supp (fun w _ _ => by omega)
  have hs : Supp (· ≤ vs.length) (b.renumber fun v => vs.idxOf v + 1) :=
    supp_renumber (S := (· ∈ vs)) (fun v hv => by have := List.idxOf_lt_length_of_mem hv; omega) hb.supp
  have := count_spec vs.length vs.length 1 _ (by omega) ho hs
  simp only [satCountBDD]
  rw [← this, cntFrom, List.countP_eq_length_filter]
  congr 2
  funext bits
  rw [eval_renumber]
  congr 1

/-! ### labeling -/

/-- lexicographic order on rows, `false` before `true`. -/
abbrev RowLt : List Bool → List Bool → Prop := List.Lex (fun a b => a < b)

theorem mem_labelRows {n : Nat} : ∀ (vs : List Nat) (b : BDD), OrdAbove n b → Reduced b → vs.Nodup →
    ∀ row, row ∈ labelRows vs b ↔ ∃ ρ, b.eval ρ = true ∧ row = vs.map ρ := by
  intro vs
  induction vs with
  | nil =>
    intro b ho hr _ row
    simp only [labelRows, List.map_nil]
    split
    · next e => subst e; simp [eval]
    · next ne =>
      have := (ne_leaf_false_iff ho hr).1 ne
      simp only [List.mem_singleton]
      constructor
      · rintro rfl; obtain ⟨ρ, hρ⟩ := this; exact ⟨ρ, hρ, rfl⟩
      · rintro ⟨_, _, rfl⟩; rfl
  | cons v vs ih =>
    intro b ho hr hnd row
    rw [List.nodup_cons] at hnd
    simp only [labelRows]
    split
    · next e => subst e; simp [eval]
    · have ih0 := ih (restrict v false b) (ordAbove_restrict _ _ _ _ ho) (reduced_restrict _ _ _ hr) hnd.2
      have ih1 := ih (restrict v true b) (ordAbove_restrict _ _ _ _ ho) (reduced_restrict _ _ _ hr) hnd.2
      have hmap : ∀ (ρ : Nat → Bool) x, vs.map (upd ρ v x) = vs.map ρ := fun ρ x =>
        List.map_congr_left (fun w hw => upd_ne (fun e => hnd.1 (e ▸ hw)))
      simp only [List.mem_append, List.mem_map, ih0, ih1, eval_restrict _ _ _ _ n ho]
      constructor
      · rintro (⟨r, ⟨ρ, hρ, rfl⟩, rfl⟩ | ⟨r, ⟨ρ, hρ, rfl⟩, rfl⟩)
        · exact ⟨upd ρ v false, hρ, by simp [hmap]⟩
        · exact ⟨upd ρ v true, hρ, by simp [hmap]⟩
      · rintro ⟨ρ, hρ, rfl⟩
        have hupd : upd ρ v (ρ v) = ρ := by funext w; simp only [upd]; split <;> simp_all
        cases hv : ρ v
        · have h0 : upd ρ v false = ρ := by rw [← hv]; exact hupd
          exact Or.inl ⟨vs.map ρ, ⟨ρ, by rw [h0]; exact hρ, rfl⟩, by simp [hv]⟩
        · have h1 : upd ρ v true = ρ := by rw [← hv]; exact hupd
          exact Or.inr ⟨vs.map ρ, ⟨ρ, by rw [h1]; exact hρ, rfl⟩, by simp [hv]⟩

theorem sorted_labelRows : ∀ (vs : List Nat) (b : BDD), (labelRows vs b).Pairwise RowLt := by
  intro vs
  induction vs with
  | nil => intro b; simp only [labelRows]; split <;> simp
  | cons v vs ih =>
    intro b
    simp only [labelRows]
    split
    · simp
    · rw [List.pairwise_append]
      refine ⟨?_, ?_, ?_⟩
      · exact List.pairwise_map.2 ((ih _).imp (fun h => List.Lex.cons h))
      · exact List.pairwise_map.2 ((ih _).imp (fun h => List.Lex.cons h))
      · intro a ha c hc
        obtain ⟨a', _, rfl⟩ := List.mem_map.1 ha
        obtain ⟨c', _, rfl⟩ := List.mem_map.1 hc
        exact List.Lex.rel (by decide)

theorem rowLt_irrefl : ∀ (r : List Bool), ¬ RowLt r r
  | [], h => by cases h
  | x :: r, h => by
    cases h with
    | cons h => exact rowLt_irrefl r h
    | rel h => exact absurd h (by cases x <;> decide)

theorem nodup_labelRows (vs : List Nat) (b : BDD) : (labelRows vs b).Nodup :=
  (sorted_labelRows vs b).imp (fun {a c} (h : RowLt a c) (e : a = c) => rowLt_irrefl c (e ▸ h))

theorem nodup_map_on {α β : Type} {f : α → β} : ∀ (l : List α),
    (∀ a ∈ l, ∀ b ∈ l, f a = f b → a = b) → l.Nodup → (l.map f).Nodup
  | [], _, _ => by simp
  | x :: r, hinj, hnd => by
    rw [List.nodup_cons] at hnd
    rw [List.map_cons, List.nodup_cons]
    refine ⟨?_, nodup_map_on r (fun a ha b hb => hinj a (List.mem_cons_of_mem _ ha) b (List.mem_cons_of_mem _ hb)) hnd.2⟩
    intro hm
    obtain ⟨y, hy, e⟩ := List.mem_map.1 hm
    have := hinj y (List.mem_cons_of_mem _ hy) x (by simp) e
    subst this
    exact hnd.1 hy

theorem getD_map_idxOf {sv : List Nat} (ρ : Nat → Bool) {v : Nat} (hv : v ∈ sv) :
    (sv.map ρ).getD (sv.idxOf v) false = ρ v := by
  induction sv with
  | nil => simp at hv
  | cons x r ih =>
    simp only [List.map_cons, List.idxOf_cons]
    by_cases hx : x = v
    · subst hx; simp
    · have : v ∈ r := by rcases List.mem_cons.1 hv with h | h; exact absurd h.symm hx; exact h
      have hb : (x == v) = false := by simp [hx]
      simp only [hb, cond_false, List.getD_cons_succ]
      exact ih this

/-- `findall(Vs, labeling(Vs), Rows)`: exactly the assignments of `vs` that extend to a model. -/
theorem mem_labeling {n : Nat} {vs : List Nat} {b : BDD} (ho : OrdAbove n b) (hr : Reduced b) (row : List Bool) :
    row ∈ labeling vs b ↔ ∃ ρ, b.eval ρ = true ∧ row = vs.map ρ := by
  simp only [labeling, List.mem_map, mem_labelRows (sortU vs) b ho hr (nodup_sortU vs)]
  have key : ∀ ρ : Nat → Bool, (vs.map fun v => ((sortU vs).map ρ).getD ((sortU vs).idxOf v) false) = vs.map ρ :=
    fun ρ => List.map_congr_left (fun v hv => getD_map_idxOf ρ (mem_sortU.2 hv))
  constructor
  · rintro ⟨r, ⟨ρ, hρ, rfl⟩, rfl⟩
    exact ⟨ρ, hρ, key ρ⟩
  · rintro ⟨ρ, hρ, rfl⟩
    exact ⟨_, ⟨ρ, hρ, rfl⟩, key ρ⟩

theorem nodup_labeling {n : Nat} {vs : List Nat} {b : BDD} (ho : OrdAbove n b) (hr : Reduced b) :
    (labeling vs b).Nodup := by
  simp only [labeling]
  refine nodup_map_on _ ?_ (nodup_labelRows _ _)
  intro r1 h1 r2 h2 e
  obtain ⟨ρ1, _, rfl⟩ := (mem_labelRows (sortU vs) b ho hr (nodup_sortU vs) r1).1 h1
  obtain ⟨ρ2, _, rfl⟩ := (mem_labelRows (sortU vs) b ho hr (nodup_sortU vs) r2).1 h2
  have k1 : ∀ ρ : Nat → Bool, (vs.map fun v => ((sortU vs).map ρ).getD ((sortU vs).idxOf v) false) = vs.map ρ :=
    fun ρ => List.map_congr_left (fun v hv => getD_map_idxOf ρ (mem_sortU.2 hv))
  rw [k1, k1] at e
  apply List.map_congr_left
  intro v hv
  exact List.map_inj_left.1 e v (mem_sortU.1 hv)

/-! ### the rows enumerated by `allBits` -/

theorem mem_allBits : ∀ (n : Nat) (bits : List Bool), bits ∈ allBits n ↔ bits.length = n
  | 0, bits => by simp [allBits, List.length_eq_zero_iff]
  | n + 1, bits => by
    simp only [allBits, List.mem_append, List.mem_map, mem_allBits n]
    constructor
    · rintro (⟨r, h, rfl⟩ | ⟨r, h, rfl⟩) <;> simp [h]
    · intro h
      match bits, h with
      | x :: r, h =>
        cases x
        · exact Or.inl ⟨r, by simpa using h, rfl⟩
        · exact Or.inr ⟨r, by simpa using h, rfl⟩

theorem sorted_allBits : ∀ (n : Nat), (allBits n).Pairwise RowLt
  | 0 => by simp [allBits]
  | n + 1 => by
    simp only [allBits]
    rw [List.pairwise_append]
    refine ⟨?_, ?_, ?_⟩
    · exact List.pairwise_map.2 ((sorted_allBits n).imp (fun h => List.Lex.cons h))
    · exact List.pairwise_map.2 ((sorted_allBits n).imp (fun h => List.Lex.cons h))
    · intro a ha c hc
      obtain ⟨a', _, rfl⟩ := List.mem_map.1 ha
      obtain ⟨c', _, rfl⟩ := List.mem_map.1 hc
      exact List.Lex.rel (by decide)

theorem nodup_allBits (n : Nat) : (allBits n).Nodup :=
  (sorted_allBits n).imp (fun {a c} (h : RowLt a c) (e : a = c) => rowLt_irrefl c (e ▸ h))

/-! ### the store: sat/1 and taut/2 with posted constraints -/

theorem post_spec {S : Nat → Prop} {fr : Nat} {st : BDD} {f : Fm} (hst : Good S st)
    (hv : ∀ v ∈ f.allVars, v < fr) :
    (post fr st f = none ↔ ∀ ρ, ¬ (st.eval ρ = true ∧ f.eval ρ = true)) ∧
    ∀ st', post fr st f = some st' →
      Good (fun v => S v ∨ v ∈ f.allVars) st' ∧ ∀ ρ, st'.eval ρ = (st.eval ρ && f.eval ρ) := by
  have hb := build_good f hv
  have hg : Good (fun v => S v ∨ v ∈ f.allVars) (apply .and st (f.build fr)) :=
    Good.apply _ (hst.mono fun _ h => Or.inl h) (hb.mono fun _ h => Or.inr h)
  have hev : ∀ ρ, (apply .and st (f.build fr)).eval ρ = (st.eval ρ && f.eval ρ) := fun ρ => by
    simp [eval_apply, Op.fn, build_eval f hv]
  unfold post
  constructor
  · simp only
    split
    · next e =>
      simp only [true_iff]
      intro ρ
      have := (eq_leaf_false_iff hg.ord hg.red).1 e ρ
      rw [hev] at this
      simpa using this
    · next ne =>
      simp only [reduceCtorEq, false_iff]
      intro h
      apply ne
      apply (eq_leaf_false_iff hg.ord hg.red).2
      intro ρ
      rw [hev]
      have := h ρ
      cases h1 : st.eval ρ <;> cases h2 : f.eval ρ <;> simp_all
  · intro st' h
    simp only at h
    split at h
    · cases h
    · cases h; exact ⟨hg, hev⟩

theorem tautUnder_spec {S : Nat → Prop} {fr : Nat} {st : BDD} {f : Fm} (hst : Good S st)
    (hv : ∀ v ∈ f.allVars, v < fr) :
    (tautUnder fr st f = some false ↔ ∀ ρ, ¬ (st.eval ρ = true ∧ f.eval ρ = true)) ∧
    (tautUnder fr st f = some true ↔
      (∃ ρ, st.eval ρ = true ∧ f.eval ρ = true) ∧ ∀ ρ, st.eval ρ = true → f.eval ρ = true) := by
  have hb := (build_good f hv).mono (T := fun _ => True) (fun _ _ => trivial)
  have hst' := hst.mono (T := fun _ => True) (fun _ _ => trivial)
  have hg1 : Good (fun _ => True) (apply .and st (f.build fr)) := Good.apply _ hst' hb
  have hg2 : Good (fun _ => True) (apply .and (apply .xor (leaf true) (f.build fr)) st) :=
    Good.apply _ (Good.apply _ Good.leaf hb) hst'
  have h1 : apply .and st (f.build fr) = leaf false ↔ ∀ ρ, ¬ (st.eval ρ = true ∧ f.eval ρ = true) := by
    rw [eq_leaf_false_iff hg1.ord hg1.red]
    refine forall_congr' fun ρ => ?_
    simp only [eval_apply, Op.fn, build_eval f hv]
    cases st.eval ρ <;> cases f.eval ρ <;> simp
  have h2 : apply .and (apply .xor (leaf true) (f.build fr)) st = leaf false ↔
      ∀ ρ, st.eval ρ = true → f.eval ρ = true := by
    rw [eq_leaf_false_iff hg2.ord hg2.red]
    refine forall_congr' fun ρ => ?_
    simp only [eval_apply, Op.fn, build_eval f hv, eval]
    cases st.eval ρ <;> cases f.eval ρ <;> simp
  unfold tautUnder
  by_cases c1 : apply .and st (f.build fr) = leaf false
  · simp only [c1, if_true, true_iff, false_iff, Option.some.injEq, Bool.false_eq_true]
    refine ⟨h1.1 c1, ?_⟩
    rintro ⟨⟨ρ, hρ⟩, _⟩
    exact h1.1 c1 ρ hρ
  · have hex : ∃ ρ, st.eval ρ = true ∧ f.eval ρ = true := by
      apply Classical.byContradiction
      intro hne
      exact c1 (h1.2 (fun ρ hρ => hne ⟨ρ, hρ⟩))
    simp only [c1, if_false]
    by_cases c2 : apply .and (apply .xor (leaf true) (f.build fr)) st = leaf false
    · simp only [c2, if_true, Option.some.injEq, Bool.true_eq_false, false_iff, true_iff]
      exact ⟨fun h => c1 (h1.2 h), hex, h2.1 c2⟩
    · simp only [c2, if_false, reduceCtorEq, false_iff]
      exact ⟨fun h => c1 (h1.2 h), fun h => c2 (h2.2 h.2)⟩

/-! ### sat_count/2 with posted constraints -/

theorem supp_self : ∀ (b : BDD), Supp (· ∈ b.vars) b
  | .leaf _ => trivial
  | .node v l h => ⟨by simp [vars], (supp_self l).mono (fun w hw => by simp [vars, hw]),
      (supp_self h).mono (fun w hw => by simp [vars, hw])⟩

theorem foldl_exQ_spec {S : Nat → Prop} : ∀ (others : List Nat) (b : BDD),
    Good (fun v => S v ∨ v ∈ others) b →
    Good S (others.foldl (fun b v => exQ v b) b) ∧
    ∀ ρ, ((others.foldl (fun b v => exQ v b) b).eval ρ = true ↔
      ∃ ρ', (∀ v, v ∉ others → ρ' v = ρ v) ∧ b.eval ρ' = true)
  | [], b, hb => by
    refine ⟨hb.mono (fun v h => by simpa using h), fun ρ => ⟨fun h => ⟨ρ, fun _ _ => rfl, h⟩, ?_⟩⟩
    rintro ⟨ρ', h1, h2⟩
    have : ρ' = ρ := funext (fun v => h1 v (by simp))
    subst this; exact h2
  | w :: ws, b, hb => by
    have hq : Good (fun v => S v ∨ v ∈ ws) (exQ w b) :=
      (hb.exQ' w).mono (fun v h => by
        rcases h with ⟨h | h, hne⟩
        · exact Or.inl h
        · rcases List.mem_cons.1 h with h | h
          · exact absurd h hne
          · exact Or.inr h)
    have ih := foldl_exQ_spec ws (exQ w b) hq
    simp only [List.foldl_cons]
    refine ⟨ih.1, fun ρ => ?_⟩
    rw [ih.2 ρ]
    constructor
    · rintro ⟨ρ1, h1, h2⟩
      rw [eval_exQ hb.ord, Bool.or_eq_true] at h2
      rcases h2 with h2 | h2
      · exact ⟨upd ρ1 w false, fun v hv => by
          simp only [List.mem_cons, not_or] at hv
          rw [upd_ne hv.1]; exact h1 v hv.2, h2⟩
      · exact ⟨upd ρ1 w true, fun v hv => by
          simp only [List.mem_cons, not_or] at hv
          rw [upd_ne hv.1]; exact h1 v hv.2, h2⟩
    · rintro ⟨ρ', h1, h2⟩
      refine ⟨upd ρ' w (ρ w), fun v hv => ?_, ?_⟩
      · by_cases e : v = w
        · subst e; simp
        · rw [upd_ne e]; exact h1 v (by simp [e, hv])
      · rw [eval_exQ hb.ord, Bool.or_eq_true]
        have hupd : upd (upd ρ' w (ρ w)) w (ρ' w) = ρ' := by
          funext v; simp only [upd]; split <;> simp_all
        cases hw : ρ' w
        · left; rw [← hw, hupd]; exact h2
        · right
          have : upd (upd ρ' w (ρ w)) w true = ρ' := by rw [← hw]; exact hupd
          rw [this]; exact h2

/-- `sat_count/2` after posted constraints: the number of assignments of the expression's
    variables that can be extended to a model of store ∧ expression. -/
theorem satCountUnder_spec {S : Nat → Prop} {fr : Nat} {st : BDD} {f : Fm} (hst : Good S st)
    (hv : ∀ v ∈ f.allVars, v < fr) :
    ∃ p : List Bool → Bool,
      (∀ bits, p bits = true ↔ ∃ ρ, (∀ v ∈ sortU f.allVars, ρ v = envOf (sortU f.allVars) bits v) ∧
        st.eval ρ = true ∧ f.eval ρ = true) ∧
      satCountUnder fr st f = ((allBits (sortU f.allVars).length).filter p).length := by
  have hb := (build_good f hv).mono (T := fun _ => True) (fun _ _ => trivial)
  have hst' := hst.mono (T := fun _ => True) (fun _ _ => trivial)
  have hg1 : Good (fun _ => True) (apply .and st (f.build fr)) := Good.apply _ hst' hb
  have hev : ∀ ρ, (apply .and st (f.build fr)).eval ρ = (st.eval ρ && f.eval ρ) := fun ρ => by
    simp [eval_apply, Op.fn, build_eval f hv]
  -- the support of b1 is split into the expression's variables and the others
  have hsplit : ∀ v ∈ (apply .and st (f.build fr)).vars, v ∈ sortU f.allVars ∨
      v ∈ (sortU (apply .and st (f.build fr)).vars).filter (fun v => !(sortU f.allVars).contains v) := by
    intro v hm
    by_cases h : v ∈ sortU f.allVars
    · exact Or.inl h
    · exact Or.inr (by simp [List.mem_filter, mem_sortU, hm]; simpa [mem_sortU] using h)
  have hg : Good (fun v => v ∈ sortU f.allVars ∨
      v ∈ (sortU (apply .and st (f.build fr)).vars).filter (fun v => !(sortU f.allVars).contains v))
      (apply .and st (f.build fr)) :=
    ⟨hg1.ord, hg1.red, (supp_self _).mono hsplit⟩
  have hfold := foldl_exQ_spec _ _ hg
  refine ⟨fun bits => (((sortU (apply .and st (f.build fr)).vars).filter
      (fun v => !(sortU f.allVars).contains v)).foldl (fun b v => exQ v b)
      (apply .and st (f.build fr))).eval (envOf (sortU f.allVars) bits), fun bits => ?_, ?_⟩
  · rw [hfold.2]
    constructor
    · rintro ⟨ρ', h1, h2⟩
      rw [hev, Bool.and_eq_true] at h2
      refine ⟨ρ', fun v hm => h1 v ?_, h2⟩
      simp [List.mem_filter, hm]
    · rintro ⟨ρ, h1, h2, h3⟩
      -- keep ρ on the support of b1, the row elsewhere
      refine ⟨fun v => if v ∈ (apply .and st (f.build fr)).vars then ρ v else envOf (sortU f.allVars) bits v,
        fun v hm => ?_, ?_⟩
      · show (if v ∈ (apply .and st (f.build fr)).vars then ρ v else envOf (sortU f.allVars) bits v) = _
        split
        · next hin =>
          rcases hsplit v hin with h | h
          · exact h1 v h
          · exact absurd h hm
        · rfl
      · rw [eval_congr_supp (supp_self _) (ρ' := ρ) (fun v hm => by simp [hm]), hev, h2, h3]; rfl
  · simp only [satCountUnder]
    exact satCountBDD_spec (sorted_sortU _) hfold.1

end Scryer.BDD
