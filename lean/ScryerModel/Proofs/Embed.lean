import ScryerModel.Model.Embed
/-! Helper lemmas for C28: the iterator protocol of `Model/Embed.lean` delivers the stand-alone
    stream of a query whatever lies below its stub, and restores the machine. -/
namespace Scryer.Embed

variable {δ : Type}

/-- outcome of driving a work list to its first event. -/
inductive Out where
  | fail
  | exc (b : String)
  | ans (a : String)

/-- first event of the depth-first traversal of a work list, the work list left and the database
    at that moment. -/
def first : List (Search δ) → δ → Out × List (Search δ) × δ
  | [], d => (.fail, [], d)
  | .fail :: w, d => first w d
  | .exc b :: _, d => (.exc b, [], d)
  | .eff f k :: w, d => first (k :: w) (f d)
  | .try_ x y :: w, d => first (x :: y :: w) d
  | .ans a :: w, d => (.ans a, w, d)
termination_by w => wsize w
decreasing_by
  all_goals simp [wsize, Search.size]
  all_goals omega

/-- `go` unfolds along `first`. -/
theorem go_first (w : List (Search δ)) (d : δ) :
    go w d = match first w d with
      | (.fail, _, d') => .fail d'
      | (.exc b, _, d') => .exc b d'
      | (.ans a, [], d') => .last a d'
      | (.ans a, s :: w', d') => .more a d' (go (s :: w') d') := by
  fun_induction first w d with
  | case1 d => simp [go]
  | case2 w d ih => rw [go]; exact ih
  | case3 b w d => simp [go]
  | case4 f k w d ih => rw [go]; exact ih
  | case5 x y w d ih => rw [go]; exact ih
  | case6 a w d =>
    cases w with
    | nil => simp [go]
    | cons s w' => simp [go]

theorem unwindTo_app (alts : List (Search δ)) (base : List (Frame δ)) :
    unwindTo (base.length + 1) (alts.map Frame.cp ++ Frame.stub :: base) = Frame.stub :: base := by
  unfold unwindTo
  have : (alts.map Frame.cp ++ Frame.stub :: base).length - (base.length + 1) = (alts.map Frame.cp).length := by
    simp
  rw [this]
  simp

/-- the dispatch loop on a stack `alts ++ stub :: base` stops where the work-list traversal has its
    first event; nothing below the stub is touched. -/
theorem exec_first (base : List (Frame δ)) :
    ∀ (n : Nat) (s : Search δ) (alts : List (Search δ)) (d : δ), s.size + wsize alts ≤ n →
    exec (base.length + 1) s (alts.map Frame.cp ++ Frame.stub :: base) d =
      match first (s :: alts) d with
      | (.fail, _, d') => (Frame.stub :: base, none, d', .broke)
      | (.exc b, _, d') => (Frame.stub :: base, some b, d', .broke)
      | (.ans a, w', d') => (w'.map Frame.cp ++ Frame.stub :: base, none, d', .success a) := by
  intro n
  induction n with
  | zero =>
    intro s alts d h
    have := s.size_pos
    omega
  | succ n ih =>
    intro s alts d h
    cases s with
    | ans a => simp [exec, first]
    | exc b => simp [exec, first, unwindTo_app]
    | eff f k =>
      rw [exec, first]
      apply ih
      simp [Search.size] at h; omega
    | try_ x y =>
      rw [exec, first]
      have := ih x (y :: alts) d (by simp [Search.size, wsize] at h ⊢; omega)
      simpa using this
    | fail =>
      cases alts with
      | nil => simp [exec, first]
      | cons alt alts' =>
        rw [first]
        simp only [List.map_cons, List.cons_append]
        rw [exec]
        apply ih
        simp [Search.size, wsize] at h ⊢; omega

/-- the iterator can still produce items: either freshly created by `run_query`, or waiting at the
    alternative of the top choice point after an answer. -/
def Resumable (q : QState δ) (m : Mach δ) (base : List (Frame δ)) (s : Search δ)
    (alts : List (Search δ)) (d : δ) : Prop :=
  q.stubDepth = base.length + 1 ∧ m.ball = none ∧ m.db = d ∧
  ((q.called = false ∧ q.pc = .run s ∧ alts = [] ∧ m.stack = Frame.stub :: base) ∨
   (q.called = true ∧ q.pc = .retry ∧ m.stack = (s :: alts).map Frame.cp ++ Frame.stub :: base))

/-- the iterator has finished: only the stub is left above the base, no ball is pending. -/
def Ended (q : QState δ) (m : Mach δ) (base : List (Frame δ)) (d : δ) : Prop :=
  q.stubDepth = base.length + 1 ∧ q.called = true ∧
  m.stack = Frame.stub :: base ∧ m.ball = none ∧ m.db = d

theorem dispatch_resumable {q : QState δ} {m : Mach δ} {base s alts d}
    (h : Resumable q m base s alts d) :
    dispatch q m =
      let r := exec (base.length + 1) s (alts.map Frame.cp ++ Frame.stub :: base) d
      ({ stack := r.1, ball := r.2.1, db := r.2.2.1 }, r.2.2.2) := by
  obtain ⟨hs, hb, hd, h | h⟩ := h
  · obtain ⟨_, hpc, ha, hst⟩ := h
    subst ha
    unfold dispatch
    rw [hpc]
    simp only [hs, hst, hd, hb, List.map_nil, List.nil_append]
    cases (exec (base.length + 1) s (Frame.stub :: base) d).2.1 <;> rfl
  · obtain ⟨_, hpc, hst⟩ := h
    unfold dispatch
    rw [hpc]
    simp only [hs, hst, hd, hb, List.map_cons, List.cons_append]
    cases (exec (base.length + 1) s (alts.map Frame.cp ++ Frame.stub :: base) d).2.1 <;> rfl

theorem not_stop_of_resumable {q : QState δ} {m : Mach δ} {base s alts d}
    (h : Resumable q m base s alts d) :
    (q.called && decide (m.stack.length ≤ q.stubDepth)) = false := by
  obtain ⟨hs, _, _, h | h⟩ := h
  · simp [h.1]
  · simp [h.2.2, hs]; omega

theorem resumable_start (m : Mach δ) (hb : m.ball = none) (s : Search δ) :
    Resumable (runQuery m s).2 (runQuery m s).1 m.stack s [] m.db := by
  simp [Resumable, runQuery, hb]

/-- one `next` on an iterator that can still produce items. -/
theorem next_resumable (cfg : Cfg) (hc : cfg.clearBall = true) {q : QState δ} {m : Mach δ}
    {base s alts d} (h : Resumable q m base s alts d) :
    match first (s :: alts) d with
    | (.fail, _, d') => ∃ q' m', next cfg q m = (some .falseEnd, q', m') ∧ Ended q' m' base d'
    | (.exc b, _, d') => ∃ q' m', next cfg q m = (some (.exception b), q', m') ∧ Ended q' m' base d'
    | (.ans a, [], d') => ∃ q' m', next cfg q m = (some (.answer a), q', m') ∧ Ended q' m' base d'
    | (.ans a, s' :: w', d') =>
        ∃ q' m', next cfg q m = (some (.answer a), q', m') ∧ Resumable q' m' base s' w' d' := by
  have hq := h.1
  unfold next
  rw [not_stop_of_resumable h, dispatch_resumable h, exec_first base _ s alts d (Nat.le_refl _)]
  generalize first (s :: alts) d = r
  obtain ⟨o, w', d'⟩ := r
  cases o with
  | fail => simp [Ended, hq]; exact ⟨_, _, ⟨rfl, rfl⟩, by simp⟩
  | exc b => simp [Ended, hq, hc]; exact ⟨_, _, ⟨rfl, rfl⟩, by simp⟩
  | ans a =>
    cases w' with
    | nil => simp [Ended, hq]; exact ⟨_, _, ⟨rfl, rfl⟩, by simp⟩
    | cons s' w' => simp [Resumable, hq, backtrack]; exact ⟨_, _, ⟨rfl, rfl⟩, by simp⟩

theorem next_ended (cfg : Cfg) {q : QState δ} {m : Mach δ} {base d} (h : Ended q m base d) :
    next cfg q m = (none, q, m) := by
  unfold next
  simp [h.1, h.2.1, h.2.2.1]

theorem drop_ended (cfg : Cfg) {q : QState δ} {m : Mach δ} {base d} (h : Ended q m base d) :
    drop cfg q m = { stack := base, ball := none, db := d } := by
  obtain ⟨hs, _, hst, hb, hd⟩ := h
  cases m
  simp_all [drop]

theorem drop_resumable (cfg : Cfg) (hd : cfg.discardOnDrop = true) {q : QState δ} {m : Mach δ}
    {base s alts d} (h : Resumable q m base s alts d) :
    drop cfg q m = { stack := base, ball := none, db := d } := by
  obtain ⟨hs, hb, hdb, h | h⟩ := h
  · obtain ⟨_, _, _, hst⟩ := h
    cases m
    simp_all [drop]
  · obtain ⟨_, _, hst⟩ := h
    have hlen : decide (m.stack.length > q.stubDepth) = true := by
      simp [hst, hs]; omega
    have hu : unwindTo q.stubDepth m.stack = Frame.stub :: base := by
      rw [hs, hst]; exact unwindTo_app (s :: alts) base
    cases m
    simp_all [drop]

theorem consume_ended (cfg : Cfg) {q : QState δ} {m : Mach δ} {base d} (h : Ended q m base d) (k : Nat) :
    consume cfg k q m = ([], { stack := base, ball := none, db := d }) := by
  cases k with
  | zero => simp [consume, drop_ended cfg h]
  | succ k => simp [consume, next_ended cfg h, drop_ended cfg h]

/-- asking a resumable iterator for up to `k` items and dropping it: the items are the first `k`
    of the remaining stand-alone stream, the stack is back to `base`, no ball is pending. -/
theorem consume_resumable (cfg : Cfg) (hc : cfg.clearBall = true) (hd : cfg.discardOnDrop = true) :
    ∀ (k : Nat) (q : QState δ) (m : Mach δ) base s alts d, Resumable q m base s alts d →
    consume cfg k q m =
      ((go (s :: alts) d).stream.take k,
       { stack := base, ball := none, db := (go (s :: alts) d).dbAt k d }) := by
  intro k
  induction k with
  | zero =>
    intro q m base s alts d h
    simp [consume, drop_resumable cfg hd h, Script.dbAt]
  | succ k ih =>
    intro q m base s alts d h
    have hn := next_resumable cfg hc h
    rw [go_first]
    generalize first (s :: alts) d = r at hn
    obtain ⟨o, w', d'⟩ := r
    cases o with
    | fail =>
      obtain ⟨q', m', hnx, he⟩ := hn
      simp [consume, hnx, consume_ended cfg he, Script.stream, Script.dbAt]
    | exc b =>
      obtain ⟨q', m', hnx, he⟩ := hn
      simp [consume, hnx, consume_ended cfg he, Script.stream, Script.dbAt]
    | ans a =>
      cases w' with
      | nil =>
        obtain ⟨q', m', hnx, he⟩ := hn
        simp [consume, hnx, consume_ended cfg he, Script.stream, Script.dbAt]
      | cons s' w' =>
        obtain ⟨q', m', hnx, hr⟩ := hn
        simp [consume, hnx, ih q' m' base s' w' d' hr, Script.stream, Script.dbAt]

/-- machine-state invariant between two operations of one query: no ball is pending and the stack
    is `base` with this query's stub and its choice points on top. -/
def OpInv (base : List (Frame δ)) (m : Mach δ) : Prop :=
  m.ball = none ∧ ∃ w : List (Search δ), m.stack = w.map Frame.cp ++ Frame.stub :: base

theorem opInv_of_resumable {q : QState δ} {m : Mach δ} {base s alts d}
    (h : Resumable q m base s alts d) : OpInv base m := by
  obtain ⟨_, hb, _, h | h⟩ := h
  · exact ⟨hb, [], by simp [h.2.2.2]⟩
  · exact ⟨hb, s :: alts, h.2.2⟩

theorem opInv_of_ended {q : QState δ} {m : Mach δ} {base d} (h : Ended q m base d) : OpInv base m :=
  ⟨h.2.2.2.1, [], by simp [h.2.2.1]⟩

theorem pull_ended (cfg : Cfg) {q : QState δ} {m : Mach δ} {base d} (h : Ended q m base d) (n : Nat) :
    pull cfg n q m = (List.replicate n none, q, m) := by
  induction n with
  | zero => simp [pull]
  | succ n ih => simp [pull, next_ended cfg h, ih, List.replicate_succ]

theorem take_append_replicate_succ {α : Type} (l : List α) (n : Nat) (x : α) :
    (l ++ List.replicate (n + 1) x).take n = (l ++ List.replicate n x).take n := by
  rw [List.replicate_succ', ← List.append_assoc, List.take_append_of_le_length]
  simp

/-- `n` calls of `next`: the stand-alone stream, then `None` for ever; the invariant holds after
    the last call. -/
theorem pull_resumable (cfg : Cfg) (hc : cfg.clearBall = true) :
    ∀ (n : Nat) (q : QState δ) (m : Mach δ) base s alts d, Resumable q m base s alts d →
    (pull cfg n q m).1 = (((go (s :: alts) d).stream.map some) ++ List.replicate n none).take n ∧
    OpInv base (pull cfg n q m).2.2 := by
  intro n
  induction n with
  | zero =>
    intro q m base s alts d h
    simp [pull, opInv_of_resumable h]
  | succ n ih =>
    intro q m base s alts d h
    have hn := next_resumable cfg hc h
    rw [go_first]
    generalize first (s :: alts) d = r at hn
    obtain ⟨o, w', d'⟩ := r
    cases o with
    | fail =>
      obtain ⟨q', m', hnx, he⟩ := hn
      simp [pull, hnx, pull_ended cfg he, Script.stream, opInv_of_ended he, List.take_replicate]
    | exc b =>
      obtain ⟨q', m', hnx, he⟩ := hn
      simp [pull, hnx, pull_ended cfg he, Script.stream, opInv_of_ended he, List.take_replicate]
    | ans a =>
      cases w' with
      | nil =>
        obtain ⟨q', m', hnx, he⟩ := hn
        simp [pull, hnx, pull_ended cfg he, Script.stream, opInv_of_ended he, List.take_replicate]
      | cons s' w' =>
        obtain ⟨q', m', hnx, hr⟩ := hn
        have := ih q' m' base s' w' d' hr
        simp only [pull, hnx, Script.stream, List.map_cons, List.cons_append, List.take_succ_cons]
        refine ⟨?_, this.2⟩
        rw [this.1, take_append_replicate_succ]

theorem stream_shape (sc : Script δ) :
    sc.stream = sc.answers.map Item.answer ++ sc.ending ∧
    (sc.ending = [] ∨ sc.ending = [.falseEnd] ∨ ∃ b, sc.ending = [.exception b]) := by
  induction sc with
  | fail d => simp [Script.stream, Script.answers, Script.ending]
  | exc b d => simp [Script.stream, Script.answers, Script.ending]
  | last a d => simp [Script.stream, Script.answers, Script.ending]
  | more a d r ih => simp [Script.stream, Script.answers, Script.ending, ih.1, ih.2]

end Scryer.Embed
