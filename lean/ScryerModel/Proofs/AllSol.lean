import ScryerModel.Model.AllSolRun
/-
Lemmas for C25: the grouping machinery of `bagof/3` / `setof/3` (generic in the comparison).
-/
namespace Scryer.AllSol

/-- a total preorder presented as a three-way comparison (what C13 proves of the standard order). -/
structure TotalCmp {κ : Type} (cmp : κ → κ → Ordering) : Prop where
  refl : ∀ a, cmp a a = .eq
  swap : ∀ a b, cmp b a = (cmp a b).swap
  le_trans : ∀ a b c, cmp a b ≠ .gt → cmp b c ≠ .gt → cmp a c ≠ .gt

namespace TotalCmp
variable {κ : Type} {cmp : κ → κ → Ordering}

theorem eq_symm (h : TotalCmp cmp) {a b : κ} (e : cmp a b = .eq) : cmp b a = .eq := by
  rw [h.swap, e]; rfl

theorem eq_trans (h : TotalCmp cmp) {a b c : κ} (e1 : cmp a b = .eq) (e2 : cmp b c = .eq) :
    cmp a c = .eq := by
  have h1 := h.le_trans a b c (by simp [e1]) (by simp [e2])
  have h2 := h.le_trans c b a (by simp [h.eq_symm e2]) (by simp [h.eq_symm e1])
  rw [h.swap a c] at h2
  cases hc : cmp a c <;> simp_all [Ordering.swap]

theorem lt_of_lt_of_le (h : TotalCmp cmp) {a b c : κ} (e1 : cmp a b = .lt) (e2 : cmp b c ≠ .gt) :
    cmp a c = .lt := by
  have h1 := h.le_trans a b c (by simp [e1]) e2
  cases hc : cmp a c with
  | lt => rfl
  | gt => exact absurd hc h1
  | eq =>
    have h2 := h.le_trans b c a e2 (by rw [h.swap a c, hc]; simp [Ordering.swap])
    rw [h.swap a b, e1] at h2
    simp [Ordering.swap] at h2

theorem lt_of_le_of_lt (h : TotalCmp cmp) {a b c : κ} (e1 : cmp a b ≠ .gt) (e2 : cmp b c = .lt) :
    cmp a c = .lt := by
  have h1 := h.le_trans a b c e1 (by simp [e2])
  cases hc : cmp a c with
  | lt => rfl
  | gt => exact absurd hc h1
  | eq =>
    have h2 := h.le_trans c a b (by rw [h.swap a c, hc]; simp [Ordering.swap]) e1
    rw [h.swap b c, e2] at h2
    simp [Ordering.swap] at h2

theorem lt_of_eq_of_lt (h : TotalCmp cmp) {a b c : κ} (e1 : cmp a b = .eq) (e2 : cmp b c = .lt) :
    cmp a c = .lt := h.lt_of_le_of_lt (by simp [e1]) e2

theorem lt_of_lt_of_eq (h : TotalCmp cmp) {a b c : κ} (e1 : cmp a b = .lt) (e2 : cmp b c = .eq) :
    cmp a c = .lt := h.lt_of_lt_of_le e1 (by simp [e2])

theorem not_eq_of_lt (_h : TotalCmp cmp) {a b : κ} (e : cmp a b = .lt) : cmp a b ≠ .eq := by
  simp [e]

end TotalCmp

section generic
variable {κ α : Type} {cmp : κ → κ → Ordering}

theorem keyLe_trans (h : TotalCmp cmp) (p q r : κ × α) :
    keyLe cmp p q = true → keyLe cmp q r = true → keyLe cmp p r = true := by
  simp only [keyLe, bne_iff_ne, ne_eq]
  exact h.le_trans p.1 q.1 r.1

theorem keyLe_total (h : TotalCmp cmp) (p q : κ × α) :
    (keyLe cmp p q || keyLe cmp q p) = true := by
  simp only [keyLe, h.swap p.1 q.1]
  cases cmp p.1 q.1 <;> simp [Ordering.swap]

/-! ### split_by_variant/4 -/

theorem splitPrefix_eq (v : κ) (l : List (κ × α)) :
    splitPrefix cmp v l =
      ((l.takeWhile (fun p => cmp v p.1 == .eq)).map (·.2),
       l.dropWhile (fun p => cmp v p.1 == .eq)) := by
  induction l with
  | nil => simp [splitPrefix]
  | cons p ps ih =>
    obtain ⟨v2, s2⟩ := p
    simp only [splitPrefix, List.takeWhile_cons, List.dropWhile_cons]
    by_cases hc : (cmp v v2 == .eq) = true
    · simp [hc, ih]
    · simp [hc]

/-! ### split_by_variant/3: facts that need no order -/

theorem splitGroups_nil : splitGroups cmp ([] : List (κ × α)) = [] := by
  simp [splitGroups]

theorem splitGroups_cons (v : κ) (s : α) (ps : List (κ × α)) :
    splitGroups cmp ((v, s) :: ps) =
      (v, s :: (splitPrefix cmp v ps).1) :: splitGroups cmp (splitPrefix cmp v ps).2 := by
  rw [splitGroups]

/-- induction along the recursion of `split_by_variant/3`. -/
theorem splitGroups_induct {P : List (κ × α) → Prop} (hnil : P [])
    (hcons : ∀ v s ps, P (splitPrefix cmp v ps).2 → P ((v, s) :: ps)) : ∀ l, P l := by
  intro l
  generalize hn : l.length = n
  induction n using Nat.strongRecOn generalizing l with
  | _ n ih =>
    cases l with
    | nil => exact hnil
    | cons p ps =>
      obtain ⟨v, s⟩ := p
      apply hcons
      have := splitPrefix_length cmp v ps
      exact ih _ (by simp only [List.length_cons] at hn; omega) _ rfl

/-- no alternative of `split_by_variant/3` has an empty solution list. -/
theorem splitGroups_ne_nil (l : List (κ × α)) : ∀ g ∈ splitGroups cmp l, g.2 ≠ [] := by
  induction l using splitGroups_induct (cmp := cmp) with
  | hnil => simp [splitGroups_nil]
  | hcons v s ps ih =>
    intro g hg
    rw [splitGroups_cons] at hg
    rcases List.mem_cons.mp hg with rfl | hg
    · simp
    · exact ih g hg

theorem splitGroups_eq_nil_iff (l : List (κ × α)) : splitGroups cmp l = [] ↔ l = [] := by
  cases l with
  | nil => simp [splitGroups_nil]
  | cons p ps => obtain ⟨v, s⟩ := p; simp [splitGroups_cons]

/-- the groups, concatenated, are the values of the list in its order. -/
theorem splitGroups_flatten (l : List (κ × α)) :
    (splitGroups cmp l).flatMap (·.2) = l.map (·.2) := by
  induction l using splitGroups_induct (cmp := cmp) with
  | hnil => simp [splitGroups_nil]
  | hcons v s ps ih =>
    rw [splitGroups_cons, List.flatMap_cons, ih, splitPrefix_eq]
    simp only [List.map_cons, List.cons_append, List.cons.injEq, true_and]
    rw [← List.map_append, List.takeWhile_append_dropWhile]


/-! ### split_by_variant/3 on a key-sorted list -/

theorem mem_takeWhile_sat {β : Type} {f : β → Bool} : ∀ {l : List β} {a : β},
    a ∈ l.takeWhile f → f a = true
  | [], _, h => by simp at h
  | x :: xs, a, h => by
    rw [List.takeWhile_cons] at h
    by_cases hx : f x = true
    · rw [if_pos hx] at h
      rcases List.mem_cons.mp h with rfl | h
      · exact hx
      · exact mem_takeWhile_sat h
    · rw [if_neg hx] at h
      simp at h

/-- sorted by key (what `keysort/2` and `sort/2` establish). -/
def KSorted (cmp : κ → κ → Ordering) (l : List (κ × α)) : Prop :=
  l.Pairwise (fun p q => cmp p.1 q.1 ≠ .gt)

/-- in a list sorted above `v`, the pairs with a key `==` to `v` are a prefix, and every pair
    after it has a strictly larger key. -/
theorem sorted_prefix (h : TotalCmp cmp) (v : κ) (ps : List (κ × α)) (hs : KSorted cmp ps)
    (hv : ∀ p ∈ ps, cmp v p.1 ≠ .gt) :
    ps.filter (fun p => cmp v p.1 == .eq) = ps.takeWhile (fun p => cmp v p.1 == .eq) ∧
    ∀ p ∈ ps.dropWhile (fun p => cmp v p.1 == .eq), cmp v p.1 = .lt := by
  induction ps with
  | nil => simp
  | cons q qs ih =>
    have hs' : KSorted cmp qs := (List.pairwise_cons.mp hs).2
    have hq := (List.pairwise_cons.mp hs).1
    have ih' := ih hs' (fun p hp => hv p (List.mem_cons_of_mem _ hp))
    by_cases hc : cmp v q.1 = .eq
    · simp only [List.filter_cons, List.takeWhile_cons, List.dropWhile_cons, hc, beq_self_eq_true,
        if_true]
      exact ⟨by rw [ih'.1], ih'.2⟩
    · have hlt : cmp v q.1 = .lt := by
        have := hv q (by simp)
        cases hx : cmp v q.1 <;> simp_all
      have hall : ∀ p ∈ q :: qs, cmp v p.1 = .lt := by
        intro p hp
        rcases List.mem_cons.mp hp with rfl | hp
        · exact hlt
        · exact h.lt_of_lt_of_le hlt (hq p hp)
      have hb : (cmp v q.1 == .eq) = false := by simp [hc]
      constructor
      · rw [List.takeWhile_cons, hb]
        simp only [Bool.false_eq_true, if_false]
        rw [List.filter_eq_nil_iff]
        intro p hp
        simp [hall p hp]
      · rw [List.dropWhile_cons, hb]
        simpa using hall

/-- every group key is the key of a pair of the list. -/
theorem splitGroups_key_mem (l : List (κ × α)) :
    ∀ g ∈ splitGroups cmp l, ∃ s, (g.1, s) ∈ l := by
  induction l using splitGroups_induct (cmp := cmp) with
  | hnil => simp [splitGroups_nil]
  | hcons v s ps ih =>
    intro g hg
    rw [splitGroups_cons] at hg
    rcases List.mem_cons.mp hg with rfl | hg
    · exact ⟨s, by simp⟩
    · obtain ⟨s', hs'⟩ := ih g hg
      rw [splitPrefix_eq] at hs'
      exact ⟨s', List.mem_cons_of_mem _ ((List.dropWhile_sublist _).subset hs')⟩

theorem KSorted.tail_ge (_h : TotalCmp cmp) {v : κ} {s : α} {ps : List (κ × α)}
    (hs : KSorted cmp ((v, s) :: ps)) : ∀ p ∈ ps, cmp v p.1 ≠ .gt :=
  fun p hp => (List.pairwise_cons.mp hs).1 p hp

theorem KSorted.rest (v : κ) {s : α} {ps : List (κ × α)}
    (hs : KSorted cmp ((v, s) :: ps)) : KSorted cmp (splitPrefix cmp v ps).2 := by
  rw [splitPrefix_eq]
  exact (List.pairwise_cons.mp hs).2.sublist (List.dropWhile_sublist _)

/-- groups are enumerated in strictly ascending order of their keys. -/
theorem splitGroups_ascending (h : TotalCmp cmp) (l : List (κ × α)) (hs : KSorted cmp l) :
    (splitGroups cmp l).Pairwise (fun g g' => cmp g.1 g'.1 = .lt) := by
  induction l using splitGroups_induct (cmp := cmp) with
  | hnil => simp [splitGroups_nil]
  | hcons v s ps ih =>
    rw [splitGroups_cons, List.pairwise_cons]
    refine ⟨?_, ih (hs.rest v)⟩
    intro g hg
    obtain ⟨s', hs'⟩ := splitGroups_key_mem _ g hg
    rw [splitPrefix_eq] at hs'
    exact (sorted_prefix h v ps (List.pairwise_cons.mp hs).2 (hs.tail_ge h)).2 _ hs'

/-- a group is exactly the pairs of the list whose key is `==` to the group's key, in the order
    of the list. -/
theorem splitGroups_content (h : TotalCmp cmp) (l : List (κ × α)) (hs : KSorted cmp l) :
    ∀ g ∈ splitGroups cmp l, g.2 = (l.filter (fun p => cmp g.1 p.1 == .eq)).map (·.2) := by
  induction l using splitGroups_induct (cmp := cmp) with
  | hnil => simp [splitGroups_nil]
  | hcons v s ps ih =>
    have hsp := sorted_prefix h v ps (List.pairwise_cons.mp hs).2 (hs.tail_ge h)
    intro g hg
    rw [splitGroups_cons] at hg
    rcases List.mem_cons.mp hg with rfl | hg
    · simp only [List.filter_cons, h.refl, beq_self_eq_true, if_true, List.map_cons]
      rw [hsp.1, splitPrefix_eq]
    · rw [ih (hs.rest v) g hg]
      obtain ⟨s', hs'⟩ := splitGroups_key_mem _ g hg
      rw [splitPrefix_eq] at hs' ⊢
      have hlt : cmp v g.1 = .lt := hsp.2 _ hs'
      have hgv : (cmp g.1 v == .eq) = false := by
        rw [h.swap v g.1, hlt]; rfl
      rw [List.filter_cons, hgv]
      simp only [Bool.false_eq_true, if_false]
      congr 1
      conv => rhs; rw [← List.takeWhile_append_dropWhile (p := fun p => cmp v p.1 == .eq) (l := ps)]
      rw [List.filter_append]
      have : (ps.takeWhile (fun p => cmp v p.1 == .eq)).filter (fun p => cmp g.1 p.1 == .eq) = [] := by
        rw [List.filter_eq_nil_iff]
        intro p hp
        have hpe : cmp v p.1 = .eq := by simpa using mem_takeWhile_sat hp
        have : cmp p.1 g.1 = .lt := h.lt_of_eq_of_lt (h.eq_symm hpe) hlt
        rw [h.swap p.1 g.1, this]
        simp [Ordering.swap]
      rw [this, List.nil_append]

/-- every pair of the list belongs to a group. -/
theorem splitGroups_cover (h : TotalCmp cmp) (l : List (κ × α)) :
    ∀ p ∈ l, ∃ g ∈ splitGroups cmp l, cmp g.1 p.1 = .eq := by
  induction l using splitGroups_induct (cmp := cmp) with
  | hnil => simp
  | hcons v s ps ih =>
    intro p hp
    rw [splitGroups_cons]
    rcases List.mem_cons.mp hp with rfl | hp
    · exact ⟨(v, s :: (splitPrefix cmp v ps).1), List.mem_cons_self, h.refl _⟩
    · rw [← List.takeWhile_append_dropWhile (p := fun p => cmp v p.1 == .eq) (l := ps)] at hp
      rcases List.mem_append.mp hp with hp | hp
      · exact ⟨(v, s :: (splitPrefix cmp v ps).1), List.mem_cons_self,
          by simpa using mem_takeWhile_sat hp⟩
      · have hp' : p ∈ (splitPrefix cmp v ps).2 := by rw [splitPrefix_eq]; exact hp
        obtain ⟨g, hg, he⟩ := ih p hp'
        exact ⟨g, List.mem_cons_of_mem _ hg, he⟩

/-! ### keysort/2 -/

theorem keysort_perm (l : List (κ × α)) : (keysort cmp l).Perm l := List.mergeSort_perm _ _

theorem keysort_sorted (h : TotalCmp cmp) (l : List (κ × α)) : KSorted cmp (keysort cmp l) := by
  have := List.pairwise_mergeSort (le := keyLe cmp) (keyLe_trans h) (keyLe_total h) l
  exact this.imp (fun {p q} hpq => by simpa [keyLe] using hpq)

/-- `keysort/2` is stable: the pairs with a given key keep their order. -/
theorem keysort_stable (h : TotalCmp cmp) (k : κ) (l : List (κ × α)) :
    (keysort cmp l).filter (fun p => cmp k p.1 == .eq) = l.filter (fun p => cmp k p.1 == .eq) := by
  let f : κ × α → Bool := fun p => cmp k p.1 == .eq
  have hc : (l.filter f).Pairwise (fun p q => keyLe cmp p q = true) := by
    rw [List.pairwise_iff_forall_sublist]
    intro p q hpq
    have hp : p ∈ l.filter f := hpq.subset (by simp)
    have hq : q ∈ l.filter f := hpq.subset (by simp)
    have ep : cmp k p.1 = .eq := by simpa [f] using (List.mem_filter.mp hp).2
    have eq' : cmp k q.1 = .eq := by simpa [f] using (List.mem_filter.mp hq).2
    have : cmp p.1 q.1 = .eq := h.eq_trans (h.eq_symm ep) eq'
    simp [keyLe, this]
  have hsub : List.Sublist (l.filter f) (keysort cmp l) :=
    List.sublist_mergeSort (keyLe_trans h) (keyLe_total h) hc List.filter_sublist
  have h2 : List.Sublist (l.filter f) ((keysort cmp l).filter f) := by
    have := hsub.filter f
    simpa [List.filter_filter] using this
  have hlen : ((keysort cmp l).filter f).length = (l.filter f).length :=
    ((keysort_perm l).filter f).length_eq
  exact (h2.eq_of_length hlen.symm).symm


/-! ### sort/2 -/

section sortdedup
variable {β : Type} {c : β → β → Ordering}

@[simp] theorem dedupAdj_nil : dedupAdj c ([] : List β) = [] := rfl
@[simp] theorem dedupAdj_single (x : β) : dedupAdj c [x] = [x] := rfl
theorem dedupAdj_cons2 (x y : β) (r : List β) :
    dedupAdj c (x :: y :: r) =
      if c x y == .eq then dedupAdj c (y :: r) else x :: dedupAdj c (y :: r) := rfl

theorem dedupAdj_sub : ∀ (l : List β), ∀ x ∈ dedupAdj c l, x ∈ l
  | [], x, hx => by simp at hx
  | [a], x, hx => by simpa using hx
  | a :: b :: r, x, hx => by
    rw [dedupAdj_cons2] at hx
    split at hx
    · exact List.mem_cons_of_mem _ (dedupAdj_sub (b :: r) x hx)
    · rcases List.mem_cons.mp hx with rfl | hx
      · simp
      · exact List.mem_cons_of_mem _ (dedupAdj_sub (b :: r) x hx)

theorem dedupAdj_cover (h : TotalCmp c) : ∀ (l : List β), ∀ x ∈ l, ∃ y ∈ dedupAdj c l, c x y = .eq
  | [], x, hx => by simp at hx
  | [a], x, hx => by
    have : x = a := by simpa using hx
    subst this
    exact ⟨x, by simp, h.refl x⟩
  | a :: b :: r, x, hx => by
    rw [dedupAdj_cons2]
    by_cases hab : c a b = .eq
    · simp only [hab, beq_self_eq_true, if_true]
      rcases List.mem_cons.mp hx with rfl | hx
      · obtain ⟨y, hy, he⟩ := dedupAdj_cover h (b :: r) b (by simp)
        exact ⟨y, hy, h.eq_trans hab he⟩
      · exact dedupAdj_cover h (b :: r) x hx
    · have : (c a b == .eq) = false := by simp [hab]
      simp only [this, Bool.false_eq_true, if_false]
      rcases List.mem_cons.mp hx with rfl | hx
      · exact ⟨x, by simp, h.refl x⟩
      · obtain ⟨y, hy, he⟩ := dedupAdj_cover h (b :: r) x hx
        exact ⟨y, List.mem_cons_of_mem _ hy, he⟩

theorem dedupAdj_strict (h : TotalCmp c) : ∀ (l : List β), l.Pairwise (fun a b => c a b ≠ .gt) →
    (dedupAdj c l).Pairwise (fun a b => c a b = .lt)
  | [], _ => by simp
  | [a], _ => by simp
  | a :: b :: r, hs => by
    have hs' := (List.pairwise_cons.mp hs).2
    have ha := (List.pairwise_cons.mp hs).1
    rw [dedupAdj_cons2]
    by_cases hab : c a b = .eq
    · simp only [hab, beq_self_eq_true, if_true]
      exact dedupAdj_strict h (b :: r) hs'
    · have : (c a b == .eq) = false := by simp [hab]
      simp only [this, Bool.false_eq_true, if_false]
      rw [List.pairwise_cons]
      refine ⟨?_, dedupAdj_strict h (b :: r) hs'⟩
      intro z hz
      have hz' := dedupAdj_sub (b :: r) z hz
      have hlt : c a b = .lt := by
        have := ha b (by simp)
        cases hx : c a b <;> simp_all
      rcases List.mem_cons.mp hz' with rfl | hz'
      · exact hlt
      · exact h.lt_of_lt_of_le hlt ((List.pairwise_cons.mp hs').1 z hz')

theorem sortDedup_strict (h : TotalCmp c) (l : List β) :
    (sortDedup c l).Pairwise (fun a b => c a b = .lt) := by
  apply dedupAdj_strict h
  have := List.pairwise_mergeSort (le := fun a b => c a b != .gt)
    (fun a b d => by simpa using h.le_trans a b d)
    (fun a b => by
      rw [h.swap a b]; cases c a b <;> simp [Ordering.swap]) l
  exact this.imp (fun {a b} hab => by simpa using hab)

theorem sortDedup_sub (l : List β) : ∀ x ∈ sortDedup c l, x ∈ l := fun x hx =>
  (List.mergeSort_perm l _).subset (dedupAdj_sub _ x hx)

theorem sortDedup_cover (h : TotalCmp c) (l : List β) :
    ∀ x ∈ l, ∃ y ∈ sortDedup c l, c x y = .eq := fun x hx =>
  dedupAdj_cover h _ x ((List.mergeSort_perm l _).symm.subset hx)

end sortdedup

/-- the standard order on `K-V` pairs is a total preorder if it is one on keys and on values. -/
theorem pairCmp_total {cmpA : α → α → Ordering} (hk : TotalCmp cmp) (ha : TotalCmp cmpA) :
    TotalCmp (pairCmp cmp cmpA) := by
  constructor
  · intro p; simp [pairCmp, hk.refl, ha.refl]
  · intro p q
    simp only [pairCmp]
    rw [hk.swap p.1 q.1, ha.swap p.2 q.2]
    cases cmp p.1 q.1 <;> simp [Ordering.swap, Ordering.then]
  · intro p q r h1 h2
    simp only [pairCmp] at h1 h2 ⊢
    cases hpq : cmp p.1 q.1 with
    | gt => simp [hpq] at h1
    | lt =>
      have hqr : cmp q.1 r.1 ≠ .gt := by
        intro hx; simp [hx] at h2
      rw [hk.lt_of_lt_of_le hpq hqr]; simp
    | eq =>
      cases hqr : cmp q.1 r.1 with
      | gt => simp [hqr] at h2
      | lt => rw [hk.lt_of_eq_of_lt hpq hqr]; simp
      | eq =>
        rw [hk.eq_trans hpq hqr]
        simp only [hpq, hqr, Ordering.then] at h1 h2 ⊢
        exact ha.le_trans _ _ _ h1 h2

theorem pairCmp_lt_key {cmpA : α → α → Ordering} {p q : κ × α}
    (h : pairCmp cmp cmpA p q = .lt) : cmp p.1 q.1 ≠ .gt := by
  intro hx; simp [pairCmp, hx] at h

theorem sortDedup_ksorted {cmpA : α → α → Ordering} (hk : TotalCmp cmp) (ha : TotalCmp cmpA)
    (l : List (κ × α)) : KSorted cmp (sortDedup (pairCmp cmp cmpA) l) :=
  (sortDedup_strict (pairCmp_total hk ha) l).imp (fun {_ _} h => pairCmp_lt_key h)

end generic
end Scryer.AllSol

/-! ### variables, witnesses -/
namespace Scryer.AllSol
open Scryer

theorem pairwise_total_of_mem {β : Type} {R : β → β → Prop} {l : List β} (h : l.Pairwise R) :
    ∀ a ∈ l, ∀ b ∈ l, a = b ∨ R a b ∨ R b a := by
  induction l with
  | nil => simp
  | cons x xs ih =>
    intro a ha b hb
    rw [List.pairwise_cons] at h
    rcases List.mem_cons.mp ha with ea | ha' <;> rcases List.mem_cons.mp hb with eb | hb'
    · exact Or.inl (ea.trans eb.symm)
    · exact Or.inr (Or.inl (ea ▸ h.1 b hb'))
    · exact Or.inr (Or.inr (eb ▸ h.1 a ha'))
    · exact ih h.2 a ha' b hb'

theorem mem_dedup : ∀ (l : List String) (v : String), v ∈ dedup l ↔ v ∈ l
  | [], v => by simp [dedup]
  | x :: xs, v => by
    simp only [dedup, List.mem_cons, List.mem_filter, mem_dedup xs v, bne_iff_ne, ne_eq]
    constructor
    · rintro (h | ⟨h, _⟩)
      · exact Or.inl h
      · exact Or.inr h
    · intro h
      by_cases hv : v = x
      · exact Or.inl hv
      · rcases h with h | h
        · exact absurd h hv
        · exact Or.inr ⟨h, hv⟩

theorem dedup_nodup : ∀ (l : List String), (dedup l).Nodup
  | [] => by simp [dedup]
  | x :: xs => by
    simp only [dedup, List.nodup_cons, List.mem_filter, bne_iff_ne, ne_eq, not_and]
    refine ⟨fun _ h => h trivial, ?_⟩
    exact (dedup_nodup xs).sublist List.filter_sublist

theorem dedup_of_nodup : ∀ (l : List String), l.Nodup → dedup l = l
  | [], _ => rfl
  | x :: xs, h => by
    have hx := (List.nodup_cons.mp h).1
    simp only [dedup, dedup_of_nodup xs (List.nodup_cons.mp h).2]
    congr 1
    rw [List.filter_eq_self]
    intro y hy
    simp only [bne_iff_ne, ne_eq]
    rintro rfl
    exact hx hy

theorem dedup_append_of_nodup : ∀ (a b : List String), a.Nodup →
    dedup (a ++ b) = a ++ (dedup b).filter (fun y => !a.contains y)
  | [], b, _ => by
    simp only [List.nil_append, List.contains_nil, Bool.not_false]
    exact (List.filter_eq_self.mpr (fun _ _ => rfl)).symm
  | x :: a, b, h => by
    have hx := (List.nodup_cons.mp h).1
    simp only [List.cons_append, dedup, dedup_append_of_nodup a b (List.nodup_cons.mp h).2,
      List.filter_append, List.filter_filter]
    congr 1
    congr 1
    · rw [List.filter_eq_self]
      intro y hy
      simp only [bne_iff_ne, ne_eq]
      rintro rfl
      exact hx hy
    · apply List.filter_congr
      intro y _
      simp only [List.contains_cons, Bool.not_or, bne]

/-- `bagof/3`'s candidates are the variables of the goal that do not occur in the template, in
    `term_variables/2` order. -/
theorem witnesses0_eq (t g : Term) :
    witnesses0 t g = (termVars g).filter (fun v => !(termVars t).contains v) := by
  simp only [witnesses0, termVars]
  rw [dedup_append_of_nodup _ _ (dedup_nodup _), List.drop_left,
    dedup_of_nodup _ (dedup_nodup _)]

theorem mem_witFixed (w0 ev : List String) (v : String) :
    v ∈ witFixed w0 ev ↔ v ∈ w0 ∧ v ∉ ev := by
  simp [witFixed]

end Scryer.AllSol
