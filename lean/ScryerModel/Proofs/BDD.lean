import ScryerModel.Model.BDD
/-! Helper lemmas for C46 (`Model/BDD.lean`): invariants of reduced ordered BDDs, semantics of
`mk`/`apply`/`restrict`/`exQ`, canonicity, counting, labeling, the counter network. -/
namespace Scryer.BDD
open BDD

namespace BDD

/-- ordered: along every path the variables strictly increase, and all are `≥ n`. -/
def OrdAbove : Nat → BDD → Prop
  | _, leaf _ => True
  | n, node v l h => n ≤ v ∧ OrdAbove (v + 1) l ∧ OrdAbove (v + 1) h

/-- reduced: no node with equal children (sharing is implicit in the tree representation). -/
def Reduced : BDD → Prop
  | leaf _ => True
  | node _ l h => l ≠ h ∧ Reduced l ∧ Reduced h

/-- every branching variable satisfies `S`. -/
def Supp (S : Nat → Prop) : BDD → Prop
  | leaf _ => True
  | node v l h => S v ∧ Supp S l ∧ Supp S h

theorem OrdAbove.mono {m n : Nat} {b : BDD} (h : m ≤ n) (hb : OrdAbove n b) : OrdAbove m b := by
  cases b with
  | leaf _ => trivial
  | node v l r => exact ⟨Nat.le_trans h hb.1, hb.2.1, hb.2.2⟩

theorem Supp.mono {S T : Nat → Prop} (hST : ∀ v, S v → T v) {b : BDD} (hb : Supp S b) : Supp T b := by
  induction b with
  | leaf _ => trivial
  | node v l r ihl ihr => exact ⟨hST _ hb.1, ihl hb.2.1, ihr hb.2.2⟩

@[simp] theorem eval_mk (v : Nat) (l h : BDD) (ρ : Nat → Bool) :
    (mk v l h).eval ρ = if ρ v then h.eval ρ else l.eval ρ := by
  unfold mk
  split
  · next e => subst e; simp
  · simp [eval]

theorem ordAbove_mk {n v : Nat} {l h : BDD} (hn : n ≤ v) (hl : OrdAbove (v + 1) l)
    (hh : OrdAbove (v + 1) h) : OrdAbove n (mk v l h) := by
  unfold mk
  split
  · exact hl.mono (by omega)
  · exact ⟨hn, hl, hh⟩

theorem reduced_mk {v : Nat} {l h : BDD} (hl : Reduced l) (hh : Reduced h) : Reduced (mk v l h) := by
  unfold mk
  split
  · exact hl
  · next ne => exact ⟨ne, hl, hh⟩

theorem supp_mk {S : Nat → Prop} {v : Nat} {l h : BDD} (hv : S v) (hl : Supp S l) (hh : Supp S h) :
    Supp S (mk v l h) := by
  unfold mk
  split
  · exact hl
  · exact ⟨hv, hl, hh⟩

/-! ### apply -/

theorem eval_apply (op : Op) (a b : BDD) (ρ : Nat → Bool) :
    (apply op a b).eval ρ = op.fn (a.eval ρ) (b.eval ρ) := by
  fun_induction apply op a b with
  | case1 x y => simp [eval]
  | case2 x vb lb hb r hr =>
    cases op <;> cases x <;> simp [shortcutL] at hr <;> subst hr <;> simp [eval, Op.fn]
  | case3 x vb lb hb hr ih1 ih2 =>
    simp only [eval_mk, ih1, ih2]
    simp only [eval]
    split <;> rfl
  | case4 va la ha y r hr =>
    cases op <;> cases y <;> simp [shortcutR] at hr <;> subst hr <;> simp [eval, Op.fn]
  | case5 va la ha y hr ih1 ih2 =>
    simp only [eval_mk, ih1, ih2]
    simp only [eval]
    split <;> rfl
  | case6 va la ha vb lb hb hlt ih1 ih2 =>
    simp only [eval_mk, ih1, ih2]
    simp only [eval]
    split <;> rfl
  | case7 va la ha lb hb hlt ih1 ih2 =>
    simp only [eval_mk, ih1, ih2]
    simp only [eval]
    split <;> rfl
  | case8 va la ha vb lb hb hlt hne ih1 ih2 =>
    simp only [eval_mk, ih1, ih2]
    simp only [eval]
    split <;> rfl

theorem ordAbove_apply (op : Op) (a b : BDD) : ∀ n, OrdAbove n a → OrdAbove n b →
    OrdAbove n (apply op a b) := by
  fun_induction apply op a b with
  | case1 x y => intros; trivial
  | case2 x vb lb hb r hr =>
    intro n _ h2
    cases op <;> cases x <;> simp [shortcutL] at hr <;> subst hr <;> first | exact h2 | trivial
  | case3 x vb lb hb hr ih1 ih2 =>
    intro n h1 h2
    exact ordAbove_mk h2.1 (ih1 _ trivial h2.2.1) (ih2 _ trivial h2.2.2)
  | case4 va la ha y r hr =>
    intro n h1 _
    cases op <;> cases y <;> simp [shortcutR] at hr <;> subst hr <;> first | exact h1 | trivial
  | case5 va la ha y hr ih1 ih2 =>
    intro n h1 h2
    exact ordAbove_mk h1.1 (ih1 _ h1.2.1 trivial) (ih2 _ h1.2.2 trivial)
  | case6 va la ha vb lb hb hlt ih1 ih2 =>
    intro n h1 h2
    have hb' : OrdAbove (va + 1) (node vb lb hb) := ⟨by omega, h2.2.1, h2.2.2⟩
    exact ordAbove_mk h1.1 (ih1 _ h1.2.1 hb') (ih2 _ h1.2.2 hb')
  | case7 va la ha lb hb hlt ih1 ih2 =>
    intro n h1 h2
    exact ordAbove_mk h1.1 (ih1 _ h1.2.1 h2.2.1) (ih2 _ h1.2.2 h2.2.2)
  | case8 va la ha vb lb hb hlt hne ih1 ih2 =>
    intro n h1 h2
    have ha' : OrdAbove (vb + 1) (node va la ha) := ⟨by omega, h1.2.1, h1.2.2⟩
    exact ordAbove_mk h2.1 (ih1 _ ha' h2.2.1) (ih2 _ ha' h2.2.2)

theorem reduced_apply (op : Op) (a b : BDD) : Reduced a → Reduced b → Reduced (apply op a b) := by
  fun_induction apply op a b with
  | case1 x y => intros; trivial
  | case2 x vb lb hb r hr =>
    intro _ h2
    cases op <;> cases x <;> simp [shortcutL] at hr <;> subst hr <;> first | exact h2 | trivial
  | case3 x vb lb hb hr ih1 ih2 =>
    intro h1 h2
    exact reduced_mk (ih1 trivial h2.2.1) (ih2 trivial h2.2.2)
  | case4 va la ha y r hr =>
    intro h1 _
    cases op <;> cases y <;> simp [shortcutR] at hr <;> subst hr <;> first | exact h1 | trivial
  | case5 va la ha y hr ih1 ih2 =>
    intro h1 h2
    exact reduced_mk (ih1 h1.2.1 trivial) (ih2 h1.2.2 trivial)
  | case6 va la ha vb lb hb hlt ih1 ih2 =>
    intro h1 h2
    exact reduced_mk (ih1 h1.2.1 h2) (ih2 h1.2.2 h2)
  | case7 va la ha lb hb hlt ih1 ih2 =>
    intro h1 h2
    exact reduced_mk (ih1 h1.2.1 h2.2.1) (ih2 h1.2.2 h2.2.2)
  | case8 va la ha vb lb hb hlt hne ih1 ih2 =>
    intro h1 h2
    exact reduced_mk (ih1 h1 h2.2.1) (ih2 h1 h2.2.2)

theorem supp_apply {S : Nat → Prop} (op : Op) (a b : BDD) : Supp S a → Supp S b →
    Supp S (apply op a b) := by
  fun_induction apply op a b with
  | case1 x y => intros; trivial
  | case2 x vb lb hb r hr =>
    intro _ h2
    cases op <;> cases x <;> simp [shortcutL] at hr <;> subst hr <;> first | exact h2 | trivial
  | case3 x vb lb hb hr ih1 ih2 =>
    intro h1 h2
    exact supp_mk h2.1 (ih1 trivial h2.2.1) (ih2 trivial h2.2.2)
  | case4 va la ha y r hr =>
    intro h1 _
    cases op <;> cases y <;> simp [shortcutR] at hr <;> subst hr <;> first | exact h1 | trivial
  | case5 va la ha y hr ih1 ih2 =>
    intro h1 h2
    exact supp_mk h1.1 (ih1 h1.2.1 trivial) (ih2 h1.2.2 trivial)
  | case6 va la ha vb lb hb hlt ih1 ih2 =>
    intro h1 h2
    exact supp_mk h1.1 (ih1 h1.2.1 h2) (ih2 h1.2.2 h2)
  | case7 va la ha lb hb hlt ih1 ih2 =>
    intro h1 h2
    exact supp_mk h1.1 (ih1 h1.2.1 h2.2.1) (ih2 h1.2.2 h2.2.2)
  | case8 va la ha vb lb hb hlt hne ih1 ih2 =>
    intro h1 h2
    exact supp_mk h2.1 (ih1 h1 h2.2.1) (ih2 h1 h2.2.2)

/-! ### support and independence -/

theorem eval_congr_supp {S : Nat → Prop} {b : BDD} (hb : Supp S b) {ρ ρ' : Nat → Bool}
    (h : ∀ v, S v → ρ v = ρ' v) : b.eval ρ = b.eval ρ' := by
  induction b with
  | leaf _ => rfl
  | node v l r ihl ihr => simp only [eval, h v hb.1, ihl hb.2.1, ihr hb.2.2]

theorem supp_of_ordAbove {b : BDD} : ∀ {n}, OrdAbove n b → Supp (fun v => n ≤ v) b := by
  induction b with
  | leaf _ => intros; trivial
  | node v l r ihl ihr =>
    intro n hb
    have h1 := hb.1
    exact ⟨hb.1, (ihl hb.2.1).mono (fun _ h => by omega), (ihr hb.2.2).mono (fun _ h => by omega)⟩

theorem upd_ne {ρ : Nat → Bool} {i v : Nat} {x : Bool} (h : v ≠ i) : upd ρ i x v = ρ v := by
  simp [upd, h]

@[simp] theorem upd_same {ρ : Nat → Bool} {i : Nat} {x : Bool} : upd ρ i x i = x := by
  simp [upd]

theorem eval_upd_of_ordAbove {b : BDD} {n i : Nat} (hb : OrdAbove n b) (hi : i < n) (ρ : Nat → Bool)
    (x : Bool) : b.eval (upd ρ i x) = b.eval ρ :=
  eval_congr_supp (supp_of_ordAbove hb) (fun v hv => upd_ne (by omega))

theorem eval_node_upd {v : Nat} {l h : BDD} (hl : OrdAbove (v + 1) l) (hh : OrdAbove (v + 1) h)
    (ρ : Nat → Bool) (x : Bool) :
    (node v l h).eval (upd ρ v x) = if x then h.eval ρ else l.eval ρ := by
  simp only [eval, upd_same]
  rw [eval_upd_of_ordAbove hl (by omega), eval_upd_of_ordAbove hh (by omega)]

/-! ### restrict, exQ -/

theorem supp_ne_of_ordAbove {S : Nat → Prop} {i : Nat} {c : BDD} : ∀ {m}, OrdAbove m c → Supp S c → i < m →
    Supp (fun v => S v ∧ v ≠ i) c := by
  induction c with
  | leaf _ => intros; trivial
  | node w cl cr ihl ihr =>
    intro m hc hs hlt
    have := hc.1
    exact ⟨⟨hs.1, by omega⟩, ihl hc.2.1 hs.2.1 (by omega), ihr hc.2.2 hs.2.2 (by omega)⟩

theorem eval_restrict (i : Nat) (x : Bool) (ρ : Nat → Bool) (b : BDD) : ∀ n, OrdAbove n b →
    (restrict i x b).eval ρ = b.eval (upd ρ i x) := by
  induction b with
  | leaf _ => intros; rfl
  | node v l h ihl ihh =>
    intro n hb
    unfold restrict
    split
    · next e =>
      subst e
      rw [eval_node_upd hb.2.1 hb.2.2]
      cases x <;> rfl
    · split
      · next ne lt =>
        have hv : OrdAbove v (node v l h) := ⟨Nat.le_refl _, hb.2.1, hb.2.2⟩
        exact (eval_upd_of_ordAbove hv lt ρ x).symm
      · next ne nlt =>
        simp only [eval_mk, ihl _ hb.2.1, ihh _ hb.2.2, eval, upd_ne ne]

theorem ordAbove_restrict (i : Nat) (x : Bool) (b : BDD) : ∀ n, OrdAbove n b →
    OrdAbove n (restrict i x b) := by
  induction b with
  | leaf _ => intros; trivial
  | node v l h ihl ihh =>
    intro n hb
    unfold restrict
    split
    · cases x
      · exact hb.2.1.mono (by have := hb.1; omega)
      · exact hb.2.2.mono (by have := hb.1; omega)
    · split
      · exact hb
      · exact ordAbove_mk hb.1 (ihl _ hb.2.1) (ihh _ hb.2.2)

theorem reduced_restrict (i : Nat) (x : Bool) (b : BDD) : Reduced b → Reduced (restrict i x b) := by
  induction b with
  | leaf _ => intros; trivial
  | node v l h ihl ihh =>
    intro hb
    unfold restrict
    split
    · cases x
      · exact hb.2.1
      · exact hb.2.2
    · split
      · exact hb
      · exact reduced_mk (ihl hb.2.1) (ihh hb.2.2)

theorem supp_restrict {S : Nat → Prop} (i : Nat) (x : Bool) (b : BDD) : ∀ n, OrdAbove n b → Supp S b →
    Supp (fun v => S v ∧ v ≠ i) (restrict i x b) := by
  induction b with
  | leaf _ => intros; trivial
  | node v l h ihl ihh =>
    intro n ho hb
    have key : ∀ c : BDD, OrdAbove (v + 1) c → Supp S c → i ≤ v → Supp (fun v => S v ∧ v ≠ i) c :=
      fun c hc hs hle => supp_ne_of_ordAbove hc hs (by omega)
    unfold restrict
    split
    · next e =>
      cases x
      · exact key l ho.2.1 hb.2.1 (by omega)
      · exact key h ho.2.2 hb.2.2 (by omega)
    · split
      · next ne lt =>
        exact ⟨⟨hb.1, ne⟩, key l ho.2.1 hb.2.1 (by omega), key h ho.2.2 hb.2.2 (by omega)⟩
      · next ne nlt =>
        exact supp_mk ⟨hb.1, ne⟩ (ihl _ ho.2.1 hb.2.1) (ihh _ ho.2.2 hb.2.2)

theorem eval_exQ {n : Nat} {b : BDD} (hb : OrdAbove n b) (i : Nat) (ρ : Nat → Bool) :
    (exQ i b).eval ρ = (b.eval (upd ρ i false) || b.eval (upd ρ i true)) := by
  simp [exQ, eval_apply, eval_restrict _ _ _ _ n hb, Op.fn]

theorem ordAbove_exQ {n : Nat} {b : BDD} (hb : OrdAbove n b) (i : Nat) : OrdAbove n (exQ i b) :=
  ordAbove_apply _ _ _ _ (ordAbove_restrict _ _ _ _ hb) (ordAbove_restrict _ _ _ _ hb)

theorem reduced_exQ {b : BDD} (hb : Reduced b) (i : Nat) : Reduced (exQ i b) :=
  reduced_apply _ _ _ (reduced_restrict _ _ _ hb) (reduced_restrict _ _ _ hb)

theorem supp_exQ {S : Nat → Prop} {n : Nat} {b : BDD} (ho : OrdAbove n b) (hb : Supp S b) (i : Nat) :
    Supp (fun v => S v ∧ v ≠ i) (exQ i b) :=
  supp_apply _ _ _ (supp_restrict _ _ _ _ ho hb) (supp_restrict _ _ _ _ ho hb)

/-! ### canonicity -/

theorem canonical_aux : ∀ (k : Nat) (a b : BDD) (n : Nat), a.size + b.size ≤ k →
    OrdAbove n a → Reduced a → OrdAbove n b → Reduced b →
    (∀ ρ, a.eval ρ = b.eval ρ) → a = b := by
  intro k
  induction k with
  | zero =>
    intro a b n hk
    cases a <;> simp [size] at hk <;> omega
  | succ k ih =>
    intro a b n hk hoa hra hob hrb hev
    cases a with
    | leaf x =>
      cases b with
      | leaf y => have := hev (fun _ => false); simpa [eval] using this
      | node vb lb hb =>
        exfalso
        apply hrb.1
        refine ih lb hb (vb + 1) (by simp [size] at hk ⊢; omega) hob.2.1 hrb.2.1 hob.2.2 hrb.2.2 ?_
        intro ρ
        have h0 := hev (upd ρ vb false)
        have h1 := hev (upd ρ vb true)
        rw [eval_node_upd hob.2.1 hob.2.2] at h0 h1
        simp [eval] at h0 h1
        rw [← h0, ← h1]
    | node va la ha =>
      cases b with
      | leaf y =>
        exfalso
        apply hra.1
        refine ih la ha (va + 1) (by simp [size] at hk ⊢; omega) hoa.2.1 hra.2.1 hoa.2.2 hra.2.2 ?_
        intro ρ
        have h0 := hev (upd ρ va false)
        have h1 := hev (upd ρ va true)
        rw [eval_node_upd hoa.2.1 hoa.2.2] at h0 h1
        simp [eval] at h0 h1
        rw [h0, h1]
      | node vb lb hb =>
        have hsz : la.size + ha.size + 1 + (lb.size + hb.size + 1) ≤ k + 1 := by simpa [size] using hk
        rcases Nat.lt_trichotomy va vb with hlt | heq | hgt
        · exfalso
          apply hra.1
          refine ih la ha (va + 1) (by omega) hoa.2.1 hra.2.1 hoa.2.2 hra.2.2 ?_
          intro ρ
          have h0 := hev (upd ρ va false)
          have h1 := hev (upd ρ va true)
          have hb' : OrdAbove (va + 1) (node vb lb hb) := ⟨by omega, hob.2.1, hob.2.2⟩
          rw [eval_node_upd hoa.2.1 hoa.2.2, eval_upd_of_ordAbove hb' (by omega)] at h0 h1
          simp at h0 h1
          rw [h0, h1]
        · subst heq
          have hl : la = lb := by
            refine ih la lb (va + 1) (by omega) hoa.2.1 hra.2.1 hob.2.1 hrb.2.1 ?_
            intro ρ
            have h0 := hev (upd ρ va false)
            rw [eval_node_upd hoa.2.1 hoa.2.2, eval_node_upd hob.2.1 hob.2.2] at h0
            simpa using h0
          have hh : ha = hb := by
            refine ih ha hb (va + 1) (by omega) hoa.2.2 hra.2.2 hob.2.2 hrb.2.2 ?_
            intro ρ
            have h1 := hev (upd ρ va true)
            rw [eval_node_upd hoa.2.1 hoa.2.2, eval_node_upd hob.2.1 hob.2.2] at h1
            simpa using h1
          rw [hl, hh]
        · exfalso
          apply hrb.1
          refine ih lb hb (vb + 1) (by omega) hob.2.1 hrb.2.1 hob.2.2 hrb.2.2 ?_
          intro ρ
          have h0 := hev (upd ρ vb false)
          have h1 := hev (upd ρ vb true)
          have ha' : OrdAbove (vb + 1) (node va la ha) := ⟨by omega, hoa.2.1, hoa.2.2⟩
          rw [eval_node_upd hob.2.1 hob.2.2, eval_upd_of_ordAbove ha' (by omega)] at h0 h1
          simp at h0 h1
          rw [← h0, ← h1]

/-- two reduced ordered BDDs (same order) that denote the same function are equal. -/
theorem canonical {a b : BDD} {n : Nat} (hoa : OrdAbove n a) (hra : Reduced a) (hob : OrdAbove n b)
    (hrb : Reduced b) (hev : ∀ ρ, a.eval ρ = b.eval ρ) : a = b :=
  canonical_aux _ a b n (Nat.le_refl _) hoa hra hob hrb hev

theorem eq_leaf_false_iff {b : BDD} {n : Nat} (ho : OrdAbove n b) (hr : Reduced b) :
    b = leaf false ↔ ∀ ρ, b.eval ρ = false :=
  ⟨fun h ρ => by subst h; rfl, fun h => canonical ho hr (by trivial) (by trivial) (fun ρ => by simp [h ρ, eval])⟩

theorem eq_leaf_true_iff {b : BDD} {n : Nat} (ho : OrdAbove n b) (hr : Reduced b) :
    b = leaf true ↔ ∀ ρ, b.eval ρ = true :=
  ⟨fun h ρ => by subst h; rfl, fun h => canonical ho hr (by trivial) (by trivial) (fun ρ => by simp [h ρ, eval])⟩

theorem ne_leaf_false_iff {b : BDD} {n : Nat} (ho : OrdAbove n b) (hr : Reduced b) :
    b ≠ leaf false ↔ ∃ ρ, b.eval ρ = true := by
  rw [Ne, eq_leaf_false_iff ho hr]
  constructor
  · intro h
    apply Classical.byContradiction
    intro hne
    apply h
    intro ρ
    cases hb : b.eval ρ
    · rfl
    · exact absurd ⟨ρ, hb⟩ hne
  · rintro ⟨ρ, hρ⟩ h
    rw [h ρ] at hρ
    cases hρ

/-! ### the bundled invariant -/

/-- reduced, ordered, and with all branching variables in `S`. -/
structure Good (S : Nat → Prop) (b : BDD) : Prop where
  ord : OrdAbove 0 b
  red : Reduced b
  supp : Supp S b

theorem Good.leaf {S : Nat → Prop} {x : Bool} : Good S (leaf x) := ⟨trivial, trivial, trivial⟩

theorem ofVar_eq (v : Nat) : ofVar v = node v (.leaf false) (.leaf true) := by simp [ofVar, mk]

theorem Good.ofVar {S : Nat → Prop} {v : Nat} (hv : S v) : Good S (ofVar v) := by
  rw [ofVar_eq]
  exact ⟨⟨Nat.zero_le _, trivial, trivial⟩, ⟨by simp, trivial, trivial⟩, ⟨hv, trivial, trivial⟩⟩

@[simp] theorem eval_ofVar (v : Nat) (ρ : Nat → Bool) : (ofVar v).eval ρ = ρ v := by
  rw [ofVar_eq]; simp [eval]

theorem Good.apply {S : Nat → Prop} {a b : BDD} (op : Op) (ha : Good S a) (hb : Good S b) :
    Good S (apply op a b) :=
  ⟨ordAbove_apply _ _ _ _ ha.ord hb.ord, reduced_apply _ _ _ ha.red hb.red, supp_apply _ _ _ ha.supp hb.supp⟩

theorem Good.mono {S T : Nat → Prop} {b : BDD} (hb : Good S b) (h : ∀ v, S v → T v) : Good T b :=
  ⟨hb.ord, hb.red, hb.supp.mono h⟩

theorem Good.exQ' {S : Nat → Prop} {b : BDD} (hb : Good S b) (i : Nat) :
    Good (fun v => S v ∧ v ≠ i) (exQ i b) :=
  ⟨ordAbove_exQ hb.ord i, reduced_exQ hb.red i, supp_exQ hb.ord hb.supp i⟩

theorem Good.exQ {S : Nat → Prop} {b : BDD} (hb : Good S b) (i : Nat) : Good S (exQ i b) :=
  (hb.exQ' i).mono (fun _ h => h.1)

theorem Good.eval_congr {S : Nat → Prop} {b : BDD} (hb : Good S b) {ρ ρ' : Nat → Bool}
    (h : ∀ v, S v → ρ v = ρ' v) : b.eval ρ = b.eval ρ' := eval_congr_supp hb.supp h

end BDD

/-! ## `Fm.build` is correct -/

/-- what is proved about `f.build fr`. -/
def OKf (fr : Nat) (f : Fm) : Prop :=
  Good (· ∈ f.allVars) (f.build fr) ∧ ∀ ρ, (f.build fr).eval ρ = f.eval ρ

/-- … for every `fr` above the variables of `f`. -/
def PF (f : Fm) : Prop := ∀ fr, (∀ v ∈ f.allVars, v < fr) → OKf fr f

def FmL.All (P : Fm → Prop) : FmL → Prop
  | .nil => True
  | .cons a r => P a ∧ FmL.All P r

theorem bin_ok {a b : Fm} (ha : PF a) (hb : PF b) (f : Fm)
    (hvars : f.allVars = a.allVars ++ b.allVars)
    (g : BDD → BDD → BDD) (sem : Bool → Bool → Bool)
    (hg : ∀ (S : Nat → Prop) x y, Good S x → Good S y → Good S (g x y))
    (hsem : ∀ x y ρ, (g x y).eval ρ = sem (x.eval ρ) (y.eval ρ))
    (hbuild : ∀ fr, f.build fr = g (a.build fr) (b.build fr))
    (heval : ∀ ρ, f.eval ρ = sem (a.eval ρ) (b.eval ρ)) : PF f := by
  intro fr hv
  have ⟨ga, sa⟩ := ha fr (fun v h => hv v (by rw [hvars]; exact List.mem_append_left _ h))
  have ⟨gb, sb⟩ := hb fr (fun v h => hv v (by rw [hvars]; exact List.mem_append_right _ h))
  refine ⟨?_, fun ρ => by rw [hbuild, hsem, sa, sb, heval]⟩
  rw [hbuild]
  exact hg _ _ _ (ga.mono (fun v h => by rw [hvars]; exact List.mem_append_left _ h))
    (gb.mono (fun v h => by rw [hvars]; exact List.mem_append_right _ h))

theorem foldOp_good {S : Nat → Prop} {fr : Nat} (op : Op) : ∀ (l : FmL) (acc : BDD),
    FmL.All (fun a => Good S (a.build fr)) l → Good S acc → Good S (l.foldOp fr op acc)
  | .nil, acc, _, h => by simpa [FmL.foldOp] using h
  | .cons a r, acc, hl, h => by
    simp only [FmL.foldOp]
    exact foldOp_good op r _ hl.2 (h.apply op hl.1)

theorem foldOp_or_eval {fr : Nat} (ρ : Nat → Bool) : ∀ (l : FmL) (acc : BDD),
    FmL.All (fun a => (a.build fr).eval ρ = a.eval ρ) l →
    (l.foldOp fr .or acc).eval ρ = (acc.eval ρ || l.anyT ρ)
  | .nil, acc, _ => by simp [FmL.foldOp, FmL.anyT]
  | .cons a r, acc, hl => by
    simp only [FmL.foldOp, FmL.anyT]
    rw [foldOp_or_eval ρ r _ hl.2, eval_apply, hl.1]
    simp [Op.fn, Bool.or_assoc]

theorem foldOp_and_eval {fr : Nat} (ρ : Nat → Bool) : ∀ (l : FmL) (acc : BDD),
    FmL.All (fun a => (a.build fr).eval ρ = a.eval ρ) l →
    (l.foldOp fr .and acc).eval ρ = (acc.eval ρ && l.allT ρ)
  | .nil, acc, _ => by simp [FmL.foldOp, FmL.allT]
  | .cons a r, acc, hl => by
    simp only [FmL.foldOp, FmL.allT]
    rw [foldOp_and_eval ρ r _ hl.2, eval_apply, hl.1]
    simp [Op.fn, Bool.and_assoc]

theorem FmL.All.imp {P Q : Fm → Prop} : ∀ {l : FmL}, (∀ a, P a → Q a) → FmL.All P l → FmL.All Q l
  | .nil, _, _ => trivial
  | .cons _ r, h, hl => ⟨h _ hl.1, FmL.All.imp (l := r) h hl.2⟩

/-- elements of an `FmL`. -/
def FmL.Mem (x : Fm) : FmL → Prop
  | .nil => False
  | .cons a r => x = a ∨ FmL.Mem x r

theorem FmL.All.mem {P : Fm → Prop} : ∀ {l : FmL}, FmL.All P l → ∀ x, FmL.Mem x l → P x
  | .nil, _, _, h => h.elim
  | .cons _ r, hl, x, h => by
    rcases h with rfl | h
    · exact hl.1
    · exact FmL.All.mem (l := r) hl.2 x h

theorem FmL.all_of_mem {P : Fm → Prop} : ∀ {l : FmL}, (∀ x, FmL.Mem x l → P x) → FmL.All P l
  | .nil, _ => trivial
  | .cons a r, h => ⟨h a (Or.inl rfl), FmL.all_of_mem (l := r) (fun x hx => h x (Or.inr hx))⟩

theorem FmL.mem_allVars : ∀ {l : FmL} {x : Fm}, FmL.Mem x l → ∀ v ∈ x.allVars, v ∈ l.allVars
  | .nil, _, h, _, _ => h.elim
  | .cons a r, x, h, v, hv => by
    simp only [FmL.allVars, List.mem_append]
    rcases h with rfl | h
    · exact Or.inl hv
    · exact Or.inr (FmL.mem_allVars (l := r) h v hv)

/-- the elements of a list are fine at `fr` if they are fine everywhere above their variables. -/
theorem FmL.All.at {l : FmL} (hl : FmL.All PF l) {fr : Nat} (hv : ∀ v ∈ l.allVars, v < fr) :
    FmL.All (fun a => Good (· ∈ l.allVars) (a.build fr) ∧ ∀ ρ, (a.build fr).eval ρ = a.eval ρ) l :=
  FmL.all_of_mem fun x hx =>
    have h := hl.mem x hx fr (fun v h => hv v (FmL.mem_allVars hx v h))
    ⟨h.1.mono (fun v hv' => FmL.mem_allVars hx v hv'), h.2⟩

theorem orL_ok {l : FmL} (hl : FmL.All PF l) : PF (.orL l) := by
  intro fr hv
  have h := hl.at (fr := fr) hv
  refine ⟨?_, fun ρ => ?_⟩
  · exact foldOp_good .or l _ (h.imp fun a ha => ha.1) Good.leaf
  · simp only [Fm.build, Fm.eval]
    rw [foldOp_or_eval ρ l _ (h.imp fun a ha => ha.2 ρ)]
    simp [eval]

theorem andL_ok {l : FmL} (hl : FmL.All PF l) : PF (.andL l) := by
  intro fr hv
  have h := hl.at (fr := fr) hv
  refine ⟨?_, fun ρ => ?_⟩
  · exact foldOp_good .and l _ (h.imp fun a ha => ha.1) Good.leaf
  · simp only [Fm.build, Fm.eval]
    rw [foldOp_and_eval ρ l _ (h.imp fun a ha => ha.2 ρ)]
    simp [eval]

/-! ### sorting -/

theorem mem_insertU {x y : Nat} : ∀ {l : List Nat}, y ∈ insertU x l ↔ y = x ∨ y ∈ l
  | [] => by simp [insertU]
  | z :: r => by
    unfold insertU
    split
    · simp
    · split
      · next h => subst h; simp
      · rw [List.mem_cons, mem_insertU (l := r), List.mem_cons]
        constructor <;> (intro h; rcases h with h | h | h <;> simp [h])

theorem sorted_insertU {x : Nat} : ∀ {l : List Nat}, l.Pairwise (· < ·) → (insertU x l).Pairwise (· < ·)
  | [], _ => by simp [insertU]
  | z :: r, h => by
    unfold insertU
    rw [List.pairwise_cons] at h
    split
    · next hlt =>
      refine List.pairwise_cons.2 ⟨?_, List.pairwise_cons.2 h⟩
      intro w hw
      rcases List.mem_cons.1 hw with rfl | hw
      · exact hlt
      · exact Nat.lt_trans hlt (h.1 w hw)
    · split
      · exact List.pairwise_cons.2 h
      · next h1 h2 =>
        refine List.pairwise_cons.2 ⟨?_, sorted_insertU h.2⟩
        intro w hw
        rcases mem_insertU.1 hw with rfl | hw
        · omega
        · exact h.1 w hw

theorem mem_sortU {y : Nat} : ∀ {l : List Nat}, y ∈ sortU l ↔ y ∈ l
  | [] => by simp [sortU]
  | x :: r => by
    have ih := mem_sortU (y := y) (l := r)
    simp only [sortU, List.foldr_cons] at ih ⊢
    rw [mem_insertU, ih, List.mem_cons]

theorem sorted_sortU : ∀ (l : List Nat), (sortU l).Pairwise (· < ·)
  | [] => by simp [sortU]
  | x :: r => by
    have ih := sorted_sortU r
    simp only [sortU, List.foldr_cons] at ih ⊢
    exact sorted_insertU ih

theorem perm_insertU {x : Nat} : ∀ {l : List Nat}, x ∉ l → (insertU x l).Perm (x :: l)
  | [], _ => by simp [insertU]
  | z :: r, h => by
    unfold insertU
    simp only [List.mem_cons, not_or] at h
    split
    · exact List.Perm.refl _
    · split
      · next e => exact absurd e h.1
      · exact ((perm_insertU h.2).cons z).trans (List.Perm.swap x z r)

theorem perm_sortU : ∀ {l : List Nat}, l.Nodup → (sortU l).Perm l
  | [], _ => by simp [sortU]
  | x :: r, h => by
    rw [List.nodup_cons] at h
    have ih := perm_sortU h.2
    simp only [sortU, List.foldr_cons] at ih ⊢
    exact (perm_insertU (by rw [show List.foldr insertU [] r = sortU r from rfl, mem_sortU]; exact h.1)).trans
      (ih.cons x)

theorem nodup_sortU (l : List Nat) : (sortU l).Nodup :=
  (sorted_sortU l).imp (fun h => Nat.ne_of_lt h)

/-! ### the counter network -/

theorem pairUp_length (v : Nat) (inds : List BDD) : (pairUp v inds).length = inds.length - 1 := by
  fun_induction pairUp v inds with
  | case1 a b r ih => simp [ih]
  | case2 l h =>
    match l, h with
    | [], _ => rfl
    | [_], _ => rfl
    | a :: b :: r, h => exact absurd rfl (h a b r)

theorem pairUp_getD (v : Nat) (d : BDD) (inds : List BDD) : ∀ j, j + 1 < inds.length →
    (pairUp v inds).getD j (mk v d d) = mk v (inds.getD j d) (inds.getD (j + 1) d) := by
  fun_induction pairUp v inds with
  | case1 a b r ih =>
    intro j hj
    cases j with
    | zero => simp
    | succ j =>
      have := ih j (by simpa using hj)
      simpa using this
  | case2 l h =>
    intro j hj
    match l, h with
    | [], _ => simp at hj
    | [_], _ => simp at hj
    | a :: b :: r, h => exact absurd rfl (h a b r)

theorem mem_pairUp {v : Nat} {c : BDD} (inds : List BDD) : c ∈ pairUp v inds →
    ∃ a ∈ inds, ∃ b ∈ inds, c = mk v a b := by
  fun_induction pairUp v inds with
  | case1 a b r ih =>
    intro h
    rcases List.mem_cons.1 h with rfl | h
    · exact ⟨a, by simp, b, by simp, rfl⟩
    · obtain ⟨x, hx, y, hy, e⟩ := ih h
      exact ⟨x, List.mem_cons_of_mem _ hx, y, List.mem_cons_of_mem _ hy, e⟩
  | case2 l h => intro h; simp at h

theorem counterNet_eval (ρ : Nat → Bool) : ∀ (vs : List Nat) (inds : List BDD),
    inds.length = vs.length + 1 →
    (counterNet vs inds).eval ρ = (inds.getD (vs.countP ρ) (leaf false)).eval ρ := by
  intro vs
  induction vs with
  | nil =>
    intro inds h
    match inds, h with
    | [x], _ => simp [counterNet]
  | cons v vs ih =>
    intro inds h
    have hc : vs.countP ρ ≤ vs.length := List.countP_le_length
    simp only [counterNet]
    rw [ih _ (by rw [pairUp_length]; simp at h; omega)]
    have hm : mk v (leaf false) (leaf false) = leaf false := by simp [mk]
    have := pairUp_getD v (leaf false) inds (vs.countP ρ) (by simp at h; omega)
    rw [hm] at this
    rw [this, eval_mk, List.countP_cons]
    cases ρ v <;> simp

theorem counterNet_good {S : Nat → Prop} : ∀ (vs : List Nat) (inds : List BDD) (m : Nat),
    vs.Pairwise (· > ·) → (∀ v ∈ vs, v < m ∧ S v) →
    (∀ b ∈ inds, OrdAbove m b ∧ Reduced b ∧ Supp S b) → Good S (counterNet vs inds) := by
  intro vs
  induction vs with
  | nil =>
    intro inds m _ _ hi
    cases inds with
    | nil => exact Good.leaf
    | cons x r =>
      have := hi x (by simp)
      exact ⟨this.1.mono (Nat.zero_le _), this.2.1, this.2.2⟩
  | cons v vs ih =>
    intro inds m hp hv hi
    rw [List.pairwise_cons] at hp
    simp only [counterNet]
    refine ih _ v hp.2 (fun w hw => ⟨hp.1 w hw, (hv w (List.mem_cons_of_mem _ hw)).2⟩) ?_
    intro c hc
    obtain ⟨a, ha, b, hb, rfl⟩ := mem_pairUp inds hc
    have hvm := hv v (by simp)
    have h1 := hi a ha
    have h2 := hi b hb
    exact ⟨ordAbove_mk (Nat.le_refl _) (h1.1.mono (by omega)) (h2.1.mono (by omega)),
      reduced_mk h1.2.1 h2.2.1, supp_mk hvm.2 h1.2.2 h2.2.2⟩

theorem indicators_length (is : List (Nat × Nat)) : ∀ (k s : Nat), (indicators is s k).length = k
  | 0, _ => rfl
  | k + 1, s => by simp [indicators, indicators_length is k]

theorem indicators_getD (is : List (Nat × Nat)) : ∀ (k s j : Nat), j < k →
    (indicators is s k).getD j (leaf false) = leaf (inRanges is (s + j))
  | 0, _, _, h => by omega
  | k + 1, s, 0, _ => by simp [indicators]
  | k + 1, s, j + 1, h => by
    simp only [indicators, List.getD_cons_succ]
    rw [indicators_getD is k (s + 1) j (by omega)]
    congr 2; omega

theorem indicators_leaf (is : List (Nat × Nat)) : ∀ (k s : Nat), ∀ b ∈ indicators is s k, ∃ x, b = leaf x
  | 0, _, b, h => by simp [indicators] at h
  | k + 1, s, b, h => by
    simp only [indicators, List.mem_cons] at h
    rcases h with rfl | h
    · exact ⟨_, rfl⟩
    · exact indicators_leaf is k _ b h

/-! ### auxiliary variables of `card/2` -/

/-- `FmL.elems` with the expression instead of its BDD in the second component. -/
def FmL.elemsA : FmL → Nat → List Nat → List Nat × List (Nat × Fm)
  | .nil, _, _ => ([], [])
  | .cons a r, next, seen =>
    match a.isVar? with
    | some x =>
      if seen.contains x then
        let rest := r.elemsA (next + 1) seen
        (next :: rest.1, (next, a) :: rest.2)
      else
        let rest := r.elemsA (next + 1) (x :: seen)
        (x :: rest.1, rest.2)
    | none =>
      let rest := r.elemsA (next + 1) seen
      (next :: rest.1, (next, a) :: rest.2)

theorem elems_eq (frN : Nat) : ∀ (l : FmL) (next : Nat) (seen : List Nat),
    l.elems frN next seen = ((l.elemsA next seen).1,
      (l.elemsA next seen).2.map fun q => (q.1, eqvVar q.1 (q.2.build frN)))
  | .nil, _, _ => rfl
  | .cons a r, next, seen => by
    simp only [FmL.elems, FmL.elemsA]
    cases a.isVar? with
    | none => simp [elems_eq frN r]
    | some x => by_cases hs : x ∈ seen <;> simp [hs, elems_eq frN r]

theorem isVar_eq {a : Fm} {x : Nat} (h : a.isVar? = some x) : a = .var x := by
  cases a <;> simp [Fm.isVar?] at h
  subst h; rfl

theorem elemsA_inv {fr : Nat} : ∀ (l : FmL) (next : Nat) (seen : List Nat),
    (∀ v ∈ l.allVars, v < fr) → fr ≤ next →
    (∀ v ∈ (l.elemsA next seen).1, (v ∈ l.allVars ∧ v ∉ seen) ∨
        (next ≤ v ∧ v < next + l.length ∧ v ∈ (l.elemsA next seen).2.map Prod.fst)) ∧
    (l.elemsA next seen).1.Nodup ∧ (l.elemsA next seen).1.length = l.length ∧
    (∀ q ∈ (l.elemsA next seen).2, next ≤ q.1 ∧ FmL.Mem q.2 l)
  | .nil, _, _, _, _ => by simp [FmL.elemsA, FmL.length]
  | .cons a r, next, seen, hv, hn => by
    have hvr : ∀ v ∈ r.allVars, v < fr := fun v h => hv v (by simp [FmL.allVars, h])
    have fresh_case : ∀ seen', (seen' = seen) →
        let rest := r.elemsA (next + 1) seen'
        (∀ v ∈ next :: rest.1, (v ∈ (FmL.cons a r).allVars ∧ v ∉ seen) ∨
          (next ≤ v ∧ v < next + (FmL.cons a r).length ∧ v ∈ (((next, a) :: rest.2).map Prod.fst))) ∧
        (next :: rest.1).Nodup ∧ (next :: rest.1).length = (FmL.cons a r).length ∧
        (∀ q ∈ (next, a) :: rest.2, next ≤ q.1 ∧ FmL.Mem q.2 (.cons a r)) := by
      intro seen' hs
      subst hs
      have ih := elemsA_inv (fr := fr) r (next + 1) seen' hvr (by omega)
      refine ⟨?_, ?_, ?_, ?_⟩
      · intro v hm
        rcases List.mem_cons.1 hm with rfl | hm
        · exact Or.inr ⟨Nat.le_refl _, by simp [FmL.length], by simp⟩
        · rcases ih.1 v hm with h | h
          · exact Or.inl ⟨by simp [FmL.allVars, h.1], h.2⟩
          · exact Or.inr ⟨by omega, by simp [FmL.length]; omega, by simp [h.2.2]⟩
      · refine List.nodup_cons.2 ⟨?_, ih.2.1⟩
        intro hm
        rcases ih.1 next hm with h | h
        · have := hvr next h.1; omega
        · omega
      · simp [ih.2.2.1, FmL.length]
      · intro q hq
        rcases List.mem_cons.1 hq with rfl | hq
        · exact ⟨Nat.le_refl _, Or.inl rfl⟩
        · have := ih.2.2.2 q hq
          exact ⟨by omega, Or.inr this.2⟩
    simp only [FmL.elemsA]
    split
    · next x hx =>
      split
      · exact fresh_case seen rfl
      · next hns =>
        have hns' : x ∉ seen := by simpa using hns
        have hax := isVar_eq hx
        have ih := elemsA_inv (fr := fr) r (next + 1) (x :: seen) hvr (by omega)
        have hxv : x ∈ (FmL.cons a r).allVars := by subst hax; simp [FmL.allVars, Fm.allVars]
        refine ⟨?_, ?_, ?_, ?_⟩
        · intro v hm
          rcases List.mem_cons.1 hm with rfl | hm
          · exact Or.inl ⟨hxv, hns'⟩
          · rcases ih.1 v hm with h | h
            · exact Or.inl ⟨by simp [FmL.allVars, h.1], fun hs => h.2 (List.mem_cons_of_mem _ hs)⟩
            · exact Or.inr ⟨by omega, by simp [FmL.length]; omega, h.2.2⟩
        · refine List.nodup_cons.2 ⟨?_, ih.2.1⟩
          intro hm
          rcases ih.1 x hm with h | h
          · exact h.2 (by simp)
          · have := hv x hxv; omega
        · simp [ih.2.2.1, FmL.length]
        · intro q hq
          have := ih.2.2.2 q hq
          exact ⟨by omega, Or.inr this.2⟩
    · exact fresh_case seen rfl

/-- the assignment after the auxiliary variables received the values of their expressions. -/
def envQ (ρ : Nat → Bool) : List (Nat × Fm) → (Nat → Bool)
  | [] => ρ
  | q :: qs => upd (envQ ρ qs) q.1 (q.2.eval ρ)

theorem envQ_low {ρ : Nat → Bool} {fr v : Nat} : ∀ {qs : List (Nat × Fm)}, (∀ q ∈ qs, fr ≤ q.1) → v < fr →
    envQ ρ qs v = ρ v
  | [], _, _ => rfl
  | q :: qs, h, hv => by
    have h1 := h q (by simp)
    simp only [envQ]
    rw [upd_ne (by omega)]
    exact envQ_low (fun q' hq' => h q' (List.mem_cons_of_mem _ hq')) hv

theorem exAnd_eval {fr e : Nat} {ba node : BDD} (hba : Good (· < fr) ba) (he : fr ≤ e)
    (hn : OrdAbove 0 node) (σ : Nat → Bool) :
    (exAnd node (e, eqvVar e ba)).eval σ = node.eval (upd σ e (ba.eval σ)) := by
  have hq : OrdAbove 0 (eqvVar e ba) :=
    ordAbove_apply _ _ _ _ (ordAbove_apply _ _ _ _ trivial (Good.ofVar (S := fun _ => True) trivial).ord) hba.ord
  have hind : ∀ x, ba.eval (upd σ e x) = ba.eval σ := fun x =>
    hba.eval_congr (fun v hv => upd_ne (by omega))
  simp only [exAnd]
  rw [eval_exQ (ordAbove_apply _ _ _ _ hq hn)]
  simp only [eval_apply, eqvVar, eval_ofVar, upd_same, hind, Op.fn, eval]
  cases ba.eval σ <;> simp

theorem eqvVar_good {A : Nat → Prop} {e : Nat} {ba : BDD} (hba : Good A ba) :
    Good (fun v => A v ∨ v = e) (eqvVar e ba) :=
  (Good.leaf.apply _ (Good.ofVar (Or.inr rfl))).apply _ (hba.mono fun _ h => Or.inl h)

theorem fold_exAnd_eval {fr frN : Nat} : ∀ (qs : List (Nat × Fm)) (nd : BDD) (ρ : Nat → Bool),
    (∀ q ∈ qs, fr ≤ q.1 ∧ Good (· < fr) (q.2.build frN) ∧ ∀ σ, (q.2.build frN).eval σ = q.2.eval σ) →
    OrdAbove 0 nd →
    ((qs.map fun q => (q.1, eqvVar q.1 (q.2.build frN))).foldl exAnd nd).eval ρ = nd.eval (envQ ρ qs)
  | [], _, _, _, _ => rfl
  | q :: qs, nd, ρ, hq, hn => by
    have h1 := hq q (by simp)
    have hqs : ∀ q' ∈ qs, fr ≤ q'.1 ∧ Good (· < fr) (q'.2.build frN) ∧ ∀ σ, (q'.2.build frN).eval σ = q'.2.eval σ :=
      fun q' hq' => hq q' (List.mem_cons_of_mem _ hq')
    have hgood : OrdAbove 0 (exAnd nd (q.1, eqvVar q.1 (q.2.build frN))) :=
      ordAbove_exQ (ordAbove_apply _ _ _ _ (eqvVar_good h1.2.1).ord hn) _
    simp only [List.map_cons, List.foldl_cons]
    rw [fold_exAnd_eval qs _ ρ hqs hgood, exAnd_eval h1.2.1 h1.1 hn]
    simp only [envQ]
    congr 2
    rw [h1.2.1.eval_congr (ρ' := ρ) (fun v hv => envQ_low (fun q' hq' => (hqs q' hq').1) hv), h1.2.2]

theorem fold_exAnd_good {A : Nat → Prop} : ∀ (ps : List (Nat × BDD)) (nd : BDD),
    (∀ p ∈ ps, Good (fun v => A v ∨ v = p.1) p.2) →
    Good (fun v => A v ∨ v ∈ ps.map Prod.fst) nd → Good A (ps.foldl exAnd nd)
  | [], nd, _, hn => hn.mono (fun v h => by simpa using h)
  | p :: ps, nd, hp, hn => by
    simp only [List.foldl_cons]
    refine fold_exAnd_good ps _ (fun p' hp' => hp p' (List.mem_cons_of_mem _ hp')) ?_
    have h1 := hp p (by simp)
    have : Good (fun v => A v ∨ v ∈ (p :: ps).map Prod.fst) (apply .and p.2 nd) :=
      Good.apply _ (h1.mono (fun v h => by rcases h with h | h <;> simp [h])) hn
    refine (this.exQ' p.1).mono ?_
    intro v h
    rcases h with ⟨h | h, hne⟩
    · exact Or.inl h
    · simp only [List.map_cons, List.mem_cons] at h
      rcases h with h | h
      · exact absurd h hne
      · exact Or.inr h

theorem elemsA_count {fr : Nat} (ρ : Nat → Bool) : ∀ (l : FmL) (next : Nat) (seen : List Nat),
    (∀ v ∈ l.allVars, v < fr) → fr ≤ next →
    (l.elemsA next seen).1.countP (envQ ρ (l.elemsA next seen).2) = l.countT ρ
  | .nil, _, _, _, _ => by simp [FmL.elemsA, FmL.countT]
  | .cons a r, next, seen, hv, hn => by
    have hvr : ∀ v ∈ r.allVars, v < fr := fun v h => hv v (by simp [FmL.allVars, h])
    have fresh_case : (next :: (r.elemsA (next + 1) seen).1).countP
          (envQ ρ ((next, a) :: (r.elemsA (next + 1) seen).2)) = (FmL.cons a r).countT ρ := by
      have ih := elemsA_count (fr := fr) ρ r (next + 1) seen hvr (by omega)
      have inv := elemsA_inv (fr := fr) r (next + 1) seen hvr (by omega)
      have hnot : next ∉ (r.elemsA (next + 1) seen).1 := by
        intro hm
        rcases inv.1 next hm with h | h
        · have := hvr next h.1; omega
        · omega
      simp only [envQ, FmL.countT, List.countP_cons, upd_same]
      rw [← ih, Nat.add_comm]
      congr 1
      apply List.countP_congr
      intro v hm
      rw [upd_ne (fun e => hnot (by subst e; exact hm))]
    simp only [FmL.elemsA]
    split
    · next x hx =>
      split
      · exact fresh_case
      · have hax := isVar_eq hx
        have ih := elemsA_count (fr := fr) ρ r (next + 1) (x :: seen) hvr (by omega)
        have inv := elemsA_inv (fr := fr) r (next + 1) (x :: seen) hvr (by omega)
        have hxv : x < fr := hv x (by subst hax; simp [FmL.allVars, Fm.allVars])
        simp only [FmL.countT, List.countP_cons]
        rw [ih, Nat.add_comm, envQ_low (fr := fr) (fun q hq => by have := (inv.2.2.2 q hq).1; omega) hxv]
        subst hax
        simp only [Fm.eval]
        first | rfl | (split <;> simp_all)
    · exact fresh_case

theorem FmL.countT_le : ∀ (l : FmL) (ρ : Nat → Bool), l.countT ρ ≤ l.length
  | .nil, _ => Nat.le_refl _
  | .cons a r, ρ => by
    have := FmL.countT_le r ρ
    simp only [FmL.countT, FmL.length]
    split <;> omega

theorem card_ok (is : List (Nat × Nat)) {l : FmL} (hl : FmL.All PF l) : PF (.card is l) := by
  intro fr hv
  have hv' : ∀ v ∈ l.allVars, v < fr := hv
  have hN : ∀ v ∈ l.allVars, v < fr + l.length := fun v h => by have := hv' v h; omega
  -- every element is fine at the nested base `fr + k`, with support below `fr`
  have hel : ∀ x, FmL.Mem x l → Good (· < fr) (x.build (fr + l.length)) ∧
      Good (· ∈ l.allVars) (x.build (fr + l.length)) ∧
      ∀ σ, (x.build (fr + l.length)).eval σ = x.eval σ := by
    intro x hx
    have h := hl.mem x hx (fr + l.length) (fun v h => hN v (FmL.mem_allVars hx v h))
    exact ⟨h.1.mono (fun v h' => hv' v (FmL.mem_allVars hx v h')),
      h.1.mono (fun v h' => FmL.mem_allVars hx v h'), h.2⟩
  have inv := elemsA_inv (fr := fr) l fr [] hv' (Nat.le_refl _)
  have hbuild : (Fm.card is l).build fr =
      ((l.elemsA fr []).2.map fun q => (q.1, eqvVar q.1 (q.2.build (fr + l.length)))).foldl exAnd
        (counterNet (sortU (l.elemsA fr []).1).reverse (indicators is 0 (l.length + 1))) := by
    simp only [Fm.build, elems_eq]
  -- the counter network
  have hn0 : Good (fun v => v ∈ (l.elemsA fr []).1)
      (counterNet (sortU (l.elemsA fr []).1).reverse (indicators is 0 (l.length + 1))) := by
    refine counterNet_good _ _ (fr + l.length) ?_ ?_ ?_
    · exact List.pairwise_reverse.2 ((sorted_sortU _).imp (fun h => h))
    · intro v hm
      rw [List.mem_reverse, mem_sortU] at hm
      refine ⟨?_, hm⟩
      rcases inv.1 v hm with h | h
      · exact hN v h.1
      · exact h.2.1
    · intro b hb
      obtain ⟨x, rfl⟩ := indicators_leaf _ _ _ b hb
      exact ⟨trivial, trivial, trivial⟩
  refine ⟨?_, fun ρ => ?_⟩
  · rw [hbuild]
    refine fold_exAnd_good (A := (· ∈ l.allVars)) _ _ ?_ ?_
    · intro p hp
      obtain ⟨q, hq, rfl⟩ := List.mem_map.1 hp
      exact eqvVar_good (hel q.2 (inv.2.2.2 q hq).2).2.1
    · refine hn0.mono (fun v hm => ?_)
      rcases inv.1 v hm with h | h
      · exact Or.inl h.1
      · refine Or.inr ?_
        simpa [List.map_map, Function.comp_def] using h.2.2
  · rw [hbuild, fold_exAnd_eval (fr := fr) _ _ ρ
      (fun q hq => ⟨(inv.2.2.2 q hq).1, (hel q.2 (inv.2.2.2 q hq).2).1, (hel q.2 (inv.2.2.2 q hq).2).2.2⟩) hn0.ord]
    rw [counterNet_eval _ _ _ (by simp [indicators_length, inv.2.2.1, (perm_sortU inv.2.1).length_eq])]
    have hc : (sortU (l.elemsA fr []).1).reverse.countP (envQ ρ (l.elemsA fr []).2) = l.countT ρ := by
      rw [List.countP_reverse, (perm_sortU inv.2.1).countP_eq, elemsA_count (fr := fr) ρ l fr [] hv' (Nat.le_refl _)]
    rw [hc, indicators_getD _ _ _ _ (by have := FmL.countT_le l ρ; omega)]
    simp [eval, Fm.eval]

theorem ex_ok {a : Fm} (ha : PF a) (v : Nat) : PF (.ex v a) := by
  intro fr hv
  have ⟨ga, sa⟩ := ha fr (fun w h => hv w (by simp [Fm.allVars, h]))
  refine ⟨(ga.exQ v).mono (fun w h => by simp [Fm.allVars, h]), fun ρ => ?_⟩
  simp only [Fm.build, Fm.eval, eval_exQ ga.ord, sa]

theorem not_ok {a : Fm} (ha : PF a) : PF (.not a) := by
  intro fr hv
  have ⟨ga, sa⟩ := ha fr hv
  refine ⟨Good.apply _ Good.leaf ga, fun ρ => ?_⟩
  simp [Fm.build, Fm.eval, eval_apply, sa, Op.fn, eval]

mutual
theorem build_ok : (f : Fm) → PF f
  | .const b => fun _ _ => ⟨Good.leaf, fun _ => rfl⟩
  | .var i => fun _ _ => ⟨Good.ofVar (by simp [Fm.allVars]), fun ρ => by simp [Fm.build, Fm.eval]⟩
  | .not a => not_ok (build_ok a)
  | .and a b => bin_ok (build_ok a) (build_ok b) _ rfl (fun x y => apply .and x y) (fun x y => x && y)
      (fun _ _ _ hx hy => hx.apply _ hy) (fun x y ρ => by simp [eval_apply, Op.fn]) (fun _ => rfl) (fun _ => rfl)
  | .or a b => bin_ok (build_ok a) (build_ok b) _ rfl (fun x y => apply .or x y) (fun x y => x || y)
      (fun _ _ _ hx hy => hx.apply _ hy) (fun x y ρ => by simp [eval_apply, Op.fn]) (fun _ => rfl) (fun _ => rfl)
  | .xor a b => bin_ok (build_ok a) (build_ok b) _ rfl (fun x y => apply .xor x y) (fun x y => x != y)
      (fun _ _ _ hx hy => hx.apply _ hy) (fun x y ρ => by simp [eval_apply, Op.fn]) (fun _ => rfl) (fun _ => rfl)
  | .neq a b => bin_ok (build_ok a) (build_ok b) _ rfl (fun x y => apply .xor x y) (fun x y => x != y)
      (fun _ _ _ hx hy => hx.apply _ hy) (fun x y ρ => by simp [eval_apply, Op.fn]) (fun _ => rfl) (fun _ => rfl)
  | .eqv a b => bin_ok (build_ok a) (build_ok b) _ rfl
      (fun x y => apply .xor (apply .xor (leaf true) x) y) (fun x y => x == y)
      (fun _ _ _ hx hy => (Good.leaf.apply _ hx).apply _ hy)
      (fun x y ρ => by simp [eval_apply, Op.fn, eval]; cases x.eval ρ <;> cases y.eval ρ <;> rfl)
      (fun _ => rfl) (fun _ => rfl)
  | .le a b => bin_ok (build_ok a) (build_ok b) _ rfl
      (fun x y => apply .or (apply .xor (leaf true) x) y) (fun x y => !x || y)
      (fun _ _ _ hx hy => (Good.leaf.apply _ hx).apply _ hy)
      (fun x y ρ => by simp [eval_apply, Op.fn, eval])
      (fun _ => rfl) (fun _ => rfl)
  | .ge a b => bin_ok (build_ok a) (build_ok b) _ rfl
      (fun x y => apply .or (apply .xor (leaf true) y) x) (fun x y => x || !y)
      (fun _ _ _ hx hy => (Good.leaf.apply _ hy).apply _ hx)
      (fun x y ρ => by simp [eval_apply, Op.fn, eval]; cases x.eval ρ <;> cases y.eval ρ <;> rfl)
      (fun _ => rfl) (fun _ => rfl)
  | .lt a b => bin_ok (build_ok a) (build_ok b) _ rfl
      (fun x y => apply .and (apply .xor (leaf true) x) y) (fun x y => !x && y)
      (fun _ _ _ hx hy => (Good.leaf.apply _ hx).apply _ hy)
      (fun x y ρ => by simp [eval_apply, Op.fn, eval])
      (fun _ => rfl) (fun _ => rfl)
  | .gt a b => bin_ok (build_ok a) (build_ok b) _ rfl
      (fun x y => apply .and (apply .xor (leaf true) y) x) (fun x y => x && !y)
      (fun _ _ _ hx hy => (Good.leaf.apply _ hy).apply _ hx)
      (fun x y ρ => by simp [eval_apply, Op.fn, eval]; cases x.eval ρ <;> cases y.eval ρ <;> rfl)
      (fun _ => rfl) (fun _ => rfl)
  | .ex v a => ex_ok (build_ok a) v
  | .orL l => orL_ok (buildL_ok l)
  | .andL l => andL_ok (buildL_ok l)
  | .card is l => card_ok is (buildL_ok l)
theorem buildL_ok : (l : FmL) → FmL.All PF l
  | .nil => trivial
  | .cons a r => ⟨build_ok a, buildL_ok r⟩
end

end Scryer.BDD
