import ScryerModel.Model.TermOps
import ScryerModel.Proofs.Unify
/-
C23 — lemmas about the term-level model of the term construction / inspection builtins.
-/
namespace Scryer
namespace TermOps
open Scryer.Term Scryer.Unify

/-! ### fresh names -/

theorem mkName_toList (k : Nat) : (mkName k).toList = List.replicate k '_' := by
  unfold mkName; exact String.toList_ofList

theorem mkName_inj {a b : Nat} (h : mkName a = mkName b) : a = b := by
  have := congrArg (fun s => s.toList.length) h
  simpa [mkName_toList] using this

theorem le_maxLen {a : String} : ∀ {l : List String}, a ∈ l → a.toList.length ≤ maxLen l
  | [], h => by cases h
  | b :: l, h => by
      simp only [maxLen]
      rcases List.mem_cons.mp h with rfl | h
      · exact Nat.le_max_left ..
      · exact Nat.le_trans (le_maxLen h) (Nat.le_max_right ..)

theorem mem_freshFrom {x : String} : ∀ {n b : Nat}, x ∈ freshFrom b n → ∃ k, b ≤ k ∧ x = mkName k
  | 0, _, h => by simp [freshFrom] at h
  | n + 1, b, h => by
      simp only [freshFrom, List.mem_cons] at h
      rcases h with rfl | h
      · exact ⟨b, Nat.le_refl _, rfl⟩
      · obtain ⟨k, hk, rfl⟩ := mem_freshFrom h
        exact ⟨k, by omega, rfl⟩

theorem freshFrom_nodup : ∀ (n b : Nat), (freshFrom b n).Nodup
  | 0, _ => by simp [freshFrom]
  | n + 1, b => by
      simp only [freshFrom, List.nodup_cons]
      refine ⟨?_, freshFrom_nodup n (b + 1)⟩
      intro h
      obtain ⟨k, hk, e⟩ := mem_freshFrom h
      have := mkName_inj e
      omega

theorem freshFrom_length : ∀ (n b : Nat), (freshFrom b n).length = n
  | 0, _ => rfl
  | n + 1, b => by simp [freshFrom, freshFrom_length n]

/-- the fresh names are pairwise distinct. -/
theorem freshNames_nodup (avoid : List String) (n : Nat) : (freshNames avoid n).Nodup :=
  freshFrom_nodup _ _

theorem freshNames_length (avoid : List String) (n : Nat) : (freshNames avoid n).length = n :=
  freshFrom_length _ _

/-- a fresh name is none of the names to avoid. -/
theorem freshNames_not_mem {avoid : List String} {n : Nat} {x : String}
    (h : x ∈ freshNames avoid n) : x ∉ avoid := by
  intro hx
  obtain ⟨k, hk, rfl⟩ := mem_freshFrom h
  have := le_maxLen hx
  rw [mkName_toList, List.length_replicate] at this
  omega

/-! ### the variable set -/

theorem mem_insertNew {seen : List String} {x y : String} :
    y ∈ insertNew seen x ↔ y ∈ seen ∨ y = x := by
  unfold insertNew
  split
  · constructor
    · exact Or.inl
    · rintro (h | rfl)
      · exact h
      · assumption
  · simp

theorem nodup_insertNew {seen : List String} {x : String} (h : seen.Nodup) :
    (insertNew seen x).Nodup := by
  unfold insertNew
  split
  · exact h
  · rename_i hx
    rw [List.nodup_append]
    refine ⟨h, by simp, ?_⟩
    intro a ha b hb
    simp only [List.mem_singleton] at hb
    subst hb
    intro e; subst e; exact hx ha

/-- first-occurrence de-duplication of a list of names, continuing from `seen`. -/
def nubFrom (seen : List String) (l : List String) : List String := l.foldl insertNew seen

theorem mem_nubFrom {y : String} : ∀ {l seen : List String},
    y ∈ nubFrom seen l ↔ y ∈ seen ∨ y ∈ l
  | [], seen => by simp [nubFrom]
  | a :: l, seen => by
      have ih := mem_nubFrom (y := y) (l := l) (seen := insertNew seen a)
      simp only [nubFrom, List.foldl_cons] at ih ⊢
      rw [ih, mem_insertNew, List.mem_cons]
      constructor
      · rintro ((h | h) | h)
        · exact Or.inl h
        · exact Or.inr (Or.inl h)
        · exact Or.inr (Or.inr h)
      · rintro (h | h | h)
        · exact Or.inl (Or.inl h)
        · exact Or.inl (Or.inr h)
        · exact Or.inr h

theorem nodup_nubFrom : ∀ {l seen : List String}, seen.Nodup → (nubFrom seen l).Nodup
  | [], _, h => by simpa [nubFrom] using h
  | a :: l, seen, h => by
      have := nodup_nubFrom (l := l) (nodup_insertNew (x := a) h)
      simpa [nubFrom] using this

theorem nubFrom_append (seen l1 l2 : List String) :
    nubFrom seen (l1 ++ l2) = nubFrom (nubFrom seen l1) l2 := by
  simp [nubFrom, List.foldl_append]

/-- a duplicate-free list of new names is appended unchanged. -/
theorem nubFrom_of_nodup : ∀ {l seen : List String}, l.Nodup → (∀ a ∈ l, a ∉ seen) →
    nubFrom seen l = seen ++ l
  | [], seen, _, _ => by simp [nubFrom]
  | a :: l, seen, hn, hs => by
      rw [List.nodup_cons] at hn
      have ha : a ∉ seen := hs a (List.mem_cons_self ..)
      have : insertNew seen a = seen ++ [a] := by simp [insertNew, ha]
      have ih := nubFrom_of_nodup (l := l) (seen := seen ++ [a]) hn.2 (by
        intro b hb hb'
        rcases List.mem_append.mp hb' with h | h
        · exact hs b (List.mem_cons_of_mem _ hb) h
        · simp only [List.mem_singleton] at h; subst h; exact hn.1 hb)
      simp only [nubFrom, List.foldl_cons, this] at ih ⊢
      rw [ih]; simp

mutual
theorem varSet_eq (seen : List String) : ∀ t : Term, varSet seen t = nubFrom seen t.vars
  | .var x => by simp [varSet, Term.vars, nubFrom]
  | .str _ args => by simp only [varSet, Term.vars]; exact varSetL_eq seen args
  | .int _ => by simp [varSet, Term.vars, nubFrom]
  | .rat _ _ => by simp [varSet, Term.vars, nubFrom]
  | .flt _ => by simp [varSet, Term.vars, nubFrom]
  | .atom _ => by simp [varSet, Term.vars, nubFrom]
theorem varSetL_eq (seen : List String) : ∀ ts : List Term, varSetL seen ts = nubFrom seen (varsL ts)
  | [] => by simp [varSetL, Term.varsL, nubFrom]
  | t :: ts => by
      simp only [varSetL, Term.varsL]
      rw [varSet_eq seen t, varSetL_eq _ ts, nubFrom_append]
end

theorem termVars_eq (t : Term) : termVars t = nubFrom [] t.vars := varSet_eq [] t

theorem mem_termVars {t : Term} {x : String} : x ∈ termVars t ↔ x ∈ t.vars := by
  rw [termVars_eq, mem_nubFrom]; simp

theorem termVars_nodup (t : Term) : (termVars t).Nodup := by
  rw [termVars_eq]; exact nodup_nubFrom List.nodup_nil

theorem varsL_map_var (ws : List String) : varsL (ws.map Term.var) = ws := by
  induction ws with
  | nil => rfl
  | cons w ws ih => simp [Term.varsL, Term.vars, ih]

/-! ### ground -/

mutual
theorem groundB_iff : ∀ t : Term, groundB t = true ↔ t.vars = []
  | .var x => by simp [groundB, Term.vars]
  | .str _ args => by simp only [groundB, Term.vars]; exact groundL_iff args
  | .int _ => by simp [groundB, Term.vars]
  | .rat _ _ => by simp [groundB, Term.vars]
  | .flt _ => by simp [groundB, Term.vars]
  | .atom _ => by simp [groundB, Term.vars]
theorem groundL_iff : ∀ ts : List Term, groundL ts = true ↔ varsL ts = []
  | [] => by simp [groundL, Term.varsL]
  | t :: ts => by
      simp only [groundL, Term.varsL, Bool.and_eq_true, List.append_eq_nil_iff]
      rw [groundB_iff t, groundL_iff ts]
end

/-! ### running the work list on simple shapes -/

/-- binding step: a variable against a term that does not contain it. -/
theorem solve_bind {x : String} {t : Term} (h : x ∉ t.vars) (rest : Eqs) (acc : Subst) :
    solve ((.var x, t) :: rest) acc = solve (substE x t rest) ((x, t) :: acc) := by
  cases t with
  | var y =>
      have : x ≠ y := by simpa [Term.vars] using h
      simp [solve, this]
  | str f args => simp [solve, h]
  | int v => simp [solve, Term.vars]
  | rat n d => simp [solve, Term.vars]
  | flt b => simp [solve, Term.vars]
  | atom a => simp [solve, Term.vars]

theorem unifyAll_bind {x : String} {t : Term} (h : x ∉ t.vars) :
    unifyAll [(.var x, t)] = .ok [(x, t)] := by
  unfold unifyAll
  rw [solve_bind h]
  simp [substE, solve, ofOutcome]

theorem unifyAll_ne_err (eqs : Eqs) (e : Term) : unifyAll eqs ≠ .err e := by
  unfold unifyAll
  cases solve eqs [] <;> simp [ofOutcome]

/-! ### arg/3 branch by branch -/

theorem arg3_var_n (y : String) (t x : Term) : arg3 (.var y) t x = .err instErr := rfl

theorem arg3_nonint {n : Term} (h1 : isVar n = false) (h2 : ∀ v, n ≠ .int v) (t x : Term) :
    arg3 n t x = .err (typeErr "integer" n) := by
  cases n with
  | var y => simp [isVar] at h1
  | int v => exact absurd rfl (h2 v)
  | _ => rfl

theorem arg3_neg {v : Int} (hv : v < 0) (t x : Term) :
    arg3 (.int v) t x = .err (domErr "not_less_than_zero" (.int v)) := by
  simp [arg3, hv]

theorem arg3_var_t {v : Int} (hv : ¬ v < 0) (y : String) (x : Term) :
    arg3 (.int v) (.var y) x = .err instErr := by
  simp [arg3, hv]

theorem arg3_noncompound {v : Int} (hv : ¬ v < 0) {t : Term} (h1 : isVar t = false)
    (h2 : isCompound t = false) (x : Term) :
    arg3 (.int v) t x = .err (typeErr "compound" t) := by
  cases t with
  | var y => simp [isVar] at h1
  | str f args => simp [isCompound] at h2
  | _ => simp [arg3, hv]

theorem arg3_str_some {v : Int} (hv : ¬ v < 0) {f : String} {args : List Term} {u : Term}
    (h : nth1? args v = some u) (x : Term) :
    arg3 (.int v) (.str f args) x = unifyAll [(x, u)] := by
  simp [arg3, hv, h]

theorem arg3_str_none {v : Int} (hv : ¬ v < 0) {f : String} {args : List Term}
    (h : nth1? args v = none) (x : Term) :
    arg3 (.int v) (.str f args) x = .fail := by
  simp [arg3, hv, h]

theorem nth1?_eq_some_iff (args : List Term) (v : Int) (u : Term) :
    nth1? args v = some u ↔ ∃ i : Nat, v = (i : Int) + 1 ∧ ∃ h : i < args.length, args[i] = u := by
  unfold nth1?
  constructor
  · intro h
    split at h
    · cases h
    · rename_i hv
      obtain ⟨hlt, he⟩ := List.getElem?_eq_some_iff.mp h
      exact ⟨v.toNat - 1, by omega, hlt, he⟩
  · rintro ⟨i, rfl, hlt, he⟩
    have : ¬ ((i : Int) + 1 ≤ 0) := by omega
    simp only [this, if_false]
    have : ((i : Int) + 1).toNat - 1 = i := by omega
    rw [this]
    exact List.getElem?_eq_some_iff.mpr ⟨hlt, he⟩

theorem nth1?_eq_none_iff (args : List Term) (v : Int) :
    nth1? args v = none ↔ v ≤ 0 ∨ (args.length : Int) < v := by
  unfold nth1?
  split
  · simp_all
  · rename_i hv
    rw [List.getElem?_eq_none_iff]
    constructor <;> intro h <;> omega

/-! ### renamings -/

theorem lookup_zip_of_mem {x : String} : ∀ {xs ys : List String}, xs.length = ys.length → x ∈ xs →
    ∃ y ∈ ys, (xs.zip ys).lookup x = some y
  | [], _, _, h => by cases h
  | a :: xs, [], hl, _ => by simp at hl
  | a :: xs, b :: ys, hl, h => by
      simp only [List.zip_cons_cons, List.lookup_cons]
      by_cases e : x = a
      · subst e; exact ⟨b, List.mem_cons_self .., by simp⟩
      · have hx : x ∈ xs := by
          rcases List.mem_cons.mp h with h | h
          · exact absurd h e
          · exact h
        obtain ⟨y, hy, hl'⟩ := lookup_zip_of_mem (by simpa using hl) hx
        refine ⟨y, List.mem_cons_of_mem _ hy, ?_⟩
        have : (x == a) = false := by simpa using e
        simp [this, hl']

theorem lookup_zip_mem_right {x y : String} : ∀ {xs ys : List String},
    (xs.zip ys).lookup x = some y → x ∈ xs ∧ y ∈ ys
  | [], _, h => by simp at h
  | _ :: _, [], h => by simp at h
  | a :: xs, b :: ys, h => by
      simp only [List.zip_cons_cons, List.lookup_cons] at h
      by_cases e : x = a
      · subst e; simp at h; subst h; exact ⟨List.mem_cons_self .., List.mem_cons_self ..⟩
      · have : (x == a) = false := by simpa using e
        simp only [this] at h
        obtain ⟨h1, h2⟩ := lookup_zip_mem_right h
        exact ⟨List.mem_cons_of_mem _ h1, List.mem_cons_of_mem _ h2⟩

theorem lookup_zip_none {x : String} {xs ys : List String} (h : x ∉ xs) :
    (xs.zip ys).lookup x = none := by
  cases e : (xs.zip ys).lookup x with
  | none => rfl
  | some y => exact absurd (lookup_zip_mem_right e).1 h

/-- the reversed table undoes the look-up (the targets are pairwise distinct). -/
theorem lookup_zip_inv {x y : String} : ∀ {xs ys : List String}, ys.Nodup →
    (xs.zip ys).lookup x = some y → (ys.zip xs).lookup y = some x
  | [], _, _, h => by simp at h
  | _ :: _, [], _, h => by simp at h
  | a :: xs, b :: ys, hn, h => by
      rw [List.nodup_cons] at hn
      simp only [List.zip_cons_cons, List.lookup_cons] at h ⊢
      by_cases e : x = a
      · subst e; simp at h; subst h; simp
      · have : (x == a) = false := by simpa using e
        simp only [this] at h
        have hy : y ∈ ys := (lookup_zip_mem_right h).2
        have : (y == b) = false := by
          simp only [beq_eq_false_iff_ne, ne_eq]
          intro e'; subst e'; exact hn.1 hy
        simp only [this]
        exact lookup_zip_inv hn.2 h

theorem renameFn_of_lookup {xs ys : List String} {x y : String}
    (h : (xs.zip ys).lookup x = some y) : renameFn xs ys x = .var y := by
  simp [renameFn, h]

theorem renameFn_of_not_mem {xs ys : List String} {x : String} (h : x ∉ xs) :
    renameFn xs ys x = .var x := by
  simp [renameFn, lookup_zip_none h]

/-- a renaming maps variables to variables. -/
theorem renameFn_isVar (xs ys : List String) (x : String) : ∃ y, renameFn xs ys x = .var y := by
  unfold renameFn
  split
  · exact ⟨_, rfl⟩
  · exact ⟨_, rfl⟩

/-- renaming `xs ↦ ys` and back is the identity on a term whose variables are all in `xs`. -/
theorem subst_rename_inv {xs ys : List String} (hl : xs.length = ys.length) (hn : ys.Nodup)
    {t : Term} (ht : ∀ x ∈ t.vars, x ∈ xs) :
    (t.subst (renameFn xs ys)).subst (renameFn ys xs) = t := by
  rw [Term.subst_subst]
  conv => rhs; rw [← Term.subst_id t]
  apply Term.subst_congr
  intro x hx
  obtain ⟨y, _, hy⟩ := lookup_zip_of_mem hl (ht x hx)
  rw [renameFn_of_lookup hy]
  simp only [Term.subst]
  exact renameFn_of_lookup (lookup_zip_inv hn hy)

/-- the variables of a renamed term are the images. -/
theorem vars_subst_rename {xs ys : List String} (hl : xs.length = ys.length)
    {t : Term} (ht : ∀ x ∈ t.vars, x ∈ xs) {y : String}
    (hy : y ∈ (t.subst (renameFn xs ys)).vars) : y ∈ ys := by
  obtain ⟨z, hz, hyz⟩ := mem_vars_subst _ t y hy
  obtain ⟨y', hy', hl'⟩ := lookup_zip_of_mem hl (ht z hz)
  rw [renameFn_of_lookup hl'] at hyz
  simp only [Term.vars, List.mem_singleton] at hyz
  subst hyz; exact hy'

/-- a renaming with pairwise distinct targets is injective on its domain. -/
theorem renameFn_inj {xs ys : List String} (hl : xs.length = ys.length) (hn : ys.Nodup)
    {x1 x2 : String} (h1 : x1 ∈ xs) (h2 : x2 ∈ xs) (e : renameFn xs ys x1 = renameFn xs ys x2) :
    x1 = x2 := by
  obtain ⟨y1, _, l1⟩ := lookup_zip_of_mem hl h1
  obtain ⟨y2, _, l2⟩ := lookup_zip_of_mem hl h2
  rw [renameFn_of_lookup l1, renameFn_of_lookup l2] at e
  injection e with e
  subst e
  have a := lookup_zip_inv hn l1
  have b := lookup_zip_inv hn l2
  rw [a] at b
  injection b

/-! ### list splitting -/

theorem splitList_cons (h t : Term) :
    splitList (Term.cons h t) = (h :: (splitList t).1, (splitList t).2) := by
  simp [Term.cons, splitList]

theorem splitList_nil : splitList Term.nil = ([], Term.nil) := by
  simp [Term.nil, splitList]

theorem splitList_var (x : String) : splitList (.var x) = ([], .var x) := by
  simp [splitList]

theorem splitList_ofList (xs : List Term) (tl : Term) :
    splitList (Term.ofList xs tl) = (xs ++ (splitList tl).1, (splitList tl).2) := by
  induction xs with
  | nil => simp [Term.ofList]
  | cons x xs ih =>
      have : Term.ofList (x :: xs) tl = Term.cons x (Term.ofList xs tl) := rfl
      rw [this, splitList_cons, ih]; simp

theorem vars_ofList (xs : List Term) (tl : Term) :
    (Term.ofList xs tl).vars = varsL xs ++ tl.vars := by
  induction xs with
  | nil => simp [Term.ofList, Term.varsL]
  | cons x xs ih =>
      have : Term.ofList (x :: xs) tl = Term.cons x (Term.ofList xs tl) := rfl
      rw [this]
      simp only [Term.cons, Term.vars, Term.varsL, ih]
      simp

theorem splitList_proper (xs : List Term) : splitList (Term.ofList xs) = (xs, Term.nil) := by
  rw [splitList_ofList, splitList_nil]; simp

@[simp] theorem isVar_var (x : String) : isVar (.var x) = true := rfl
@[simp] theorem isVar_nil : isVar Term.nil = false := rfl
@[simp] theorem isNil_nil : isNil Term.nil = true := rfl

theorem univErrors_partial (t l : Term) (h : isVar (splitList l).2 = true) :
    univErrors t l = if isVar t then some instErr else none := by
  simp only [univErrors, h, if_true]

theorem univErrors_not_list (t l : Term) (h1 : isVar (splitList l).2 = false)
    (h2 : isNil (splitList l).2 = false) : univErrors t l = some (typeErr "list" l) := by
  simp [univErrors, h1, h2]

/-- `univ_errors/3` on a proper list. -/
theorem univErrors_proper (t : Term) (xs : List Term) :
    univErrors t (Term.ofList xs) =
      match xs with
      | [] => if isVar t then some (domErr "non_empty_list" (Term.ofList xs)) else none
      | h :: tl =>
          if isVar h && isVar t then some instErr
          else if !tl.isEmpty && !isVar h && !isAtom h then some (typeErr "atom" h)
          else if isCompound h && tl.isEmpty then some (typeErr "atomic" h)
          else if isVar t && tl.length > maxArity then some (repErr "max_arity")
          else none := by
  unfold univErrors
  rw [splitList_proper]
  simp only [isVar_nil, isNil_nil]
  cases xs <;> simp

/-! ### subsumes_term/2 -/

theorem eqVars_iff : ∀ {ts : List Term} {ws : List String},
    eqVars ts ws = true ↔ ts = ws.map Term.var
  | [], [] => by simp [eqVars]
  | [], _ :: _ => by simp [eqVars]
  | t :: ts, [] => by cases t <;> simp [eqVars]
  | t :: ts, w :: ws => by
      cases t with
      | var x =>
          simp only [eqVars, Bool.and_eq_true, beq_iff_eq, List.map_cons, List.cons.injEq,
            Term.var.injEq]
          rw [eqVars_iff (ts := ts) (ws := ws)]
      | _ => simp [eqVars]

/-- `term_variables(L, Vs), L == Vs` holds iff `L` is a list of pairwise distinct variables. -/
theorem eqVars_varSetL_iff (img : List Term) :
    eqVars img (varSetL [] img) = true ↔ ∃ ws : List String, ws.Nodup ∧ img = ws.map Term.var := by
  rw [eqVars_iff]
  constructor
  · intro h
    exact ⟨varSetL [] img, by rw [varSetL_eq]; exact nodup_nubFrom List.nodup_nil, h⟩
  · rintro ⟨ws, hn, rfl⟩
    rw [varSetL_eq, varsL_map_var, nubFrom_of_nodup hn (by simp)]
    simp

theorem nodup_map_of_inj_on {α β : Type} {f : α → β} : ∀ {l : List α}, l.Nodup →
    (∀ a ∈ l, ∀ b ∈ l, f a = f b → a = b) → (l.map f).Nodup
  | [], _, _ => by simp
  | a :: l, hn, hi => by
      rw [List.nodup_cons] at hn
      simp only [List.map_cons, List.nodup_cons, List.mem_map, not_exists, not_and]
      refine ⟨?_, nodup_map_of_inj_on hn.2 (fun x hx y hy => hi x (List.mem_cons_of_mem _ hx) y
        (List.mem_cons_of_mem _ hy))⟩
      intro b hb e
      have := hi b (List.mem_cons_of_mem _ hb) a (List.mem_cons_self ..) e
      subst this
      exact hn.1 hb

theorem zip_of_map_eq {α : Type} {f : α → Term} {g : String → Term} {v : α} :
    ∀ {sv : List α} {ws : List String}, sv.map f = ws.map g → v ∈ sv →
    ∃ w, (w, v) ∈ ws.zip sv ∧ f v = g w
  | [], _, _, h => by cases h
  | a :: sv, [], e, _ => by simp at e
  | a :: sv, w :: ws, e, h => by
      simp only [List.map_cons, List.cons.injEq] at e
      rcases List.mem_cons.mp h with rfl | h
      · exact ⟨w, by simp, e.1⟩
      · obtain ⟨w', hw, hf⟩ := zip_of_map_eq e.2 h
        exact ⟨w', by simp [hw], hf⟩

theorem lookup_zip_of_mem_zip {w v : String} : ∀ {ws sv : List String}, ws.Nodup →
    (w, v) ∈ ws.zip sv → (ws.zip sv).lookup w = some v
  | [], _, _, h => by simp at h
  | _ :: _, [], _, h => by simp at h
  | a :: ws, b :: sv, hn, h => by
      rw [List.nodup_cons] at hn
      simp only [List.zip_cons_cons, List.mem_cons, Prod.mk.injEq] at h
      simp only [List.zip_cons_cons, List.lookup_cons]
      rcases h with ⟨rfl, rfl⟩ | h
      · simp
      · have hw : w ∈ ws := (List.of_mem_zip h).1
        have : (w == a) = false := by
          simp only [beq_eq_false_iff_ne, ne_eq]
          intro e; subst e; exact hn.1 hw
        simp only [this]
        exact lookup_zip_of_mem_zip hn.2 h

theorem subst_eq_var {θ : String → Term} {t : Term} {v : String} (h : t.subst θ = .var v) :
    ∃ w, t = .var w := by
  cases t <;> simp [Term.subst] at h ⊢

/-- the specification of `subsumes_term/2` (ISO 8.2.4): some substitution that leaves the
    variables of `s` alone makes `g` identical to `s`. -/
def Subsumes (g s : Term) : Prop :=
  ∃ θ : String → Term, (∀ x ∈ s.vars, θ x = .var x) ∧ g.subst θ = s

theorem subsumes_iff (g s : Term) : subsumes g s = true ↔ Subsumes g s := by
  unfold subsumes
  constructor
  · intro h
    split at h
    · cases h
    · rename_i σ hu
      have hgood := solve_nil_ok (unify_eq_some.mp hu)
      obtain ⟨ws, hn, himg⟩ := (eqVars_varSetL_iff _).mp h
      -- θ = ρ ∘ σ with ρ the inverse renaming ws ↦ termVars s
      let ρ := renameFn ws (termVars s)
      refine ⟨fun x => (applyS σ (.var x)).subst ρ, ?fix, ?eq⟩
      case fix =>
        intro x hx
        obtain ⟨w, hw, hσ⟩ := zip_of_map_eq himg (mem_termVars.mpr hx)
        show (applyS σ (.var x)).subst ρ = .var x
        rw [hσ]
        simp only [Term.subst]
        exact renameFn_of_lookup (lookup_zip_of_mem_zip hn hw)
      case eq =>
        have key : ∀ t : Term, t.subst (fun x => (applyS σ (.var x)).subst ρ) = (applyS σ t).subst ρ := by
          intro t
          rw [applyS_eq_subst, Term.subst_subst]
          apply Term.subst_congr
          intro x _
          rw [applyS_eq_subst]; rfl
        have hs : s.subst (fun x => (applyS σ (.var x)).subst ρ) = s := by
          conv => rhs; rw [← Term.subst_id s]
          apply Term.subst_congr
          intro x hx
          obtain ⟨w, hw, hσ⟩ := zip_of_map_eq himg (mem_termVars.mpr hx)
          show (applyS σ (.var x)).subst ρ = .var x
          rw [hσ]
          simp only [Term.subst]
          exact renameFn_of_lookup (lookup_zip_of_mem_zip hn hw)
        rw [key g, hgood.solves (g, s) (by simp), ← key s, hs]
  · rintro ⟨θ, hfix, heq⟩
    have hs : s.subst θ = s := by
      conv => rhs; rw [← Term.subst_id s]
      exact Term.subst_congr hfix
    have hunif : Unifies θ [(g, s)] := unifies_pair.mpr (by rw [heq, hs])
    cases hu : unifyOC g s with
    | none => exact absurd hunif (solve_nil_fail (unify_eq_none.mp hu) θ)
    | some σ =>
        simp only
        have hgood := solve_nil_ok (unify_eq_some.mp hu)
        rw [eqVars_varSetL_iff]
        -- every image is a variable
        have hvar : ∀ v ∈ termVars s, ∃ w, applyS σ (.var v) = .var w := by
          intro v hv
          have := hgood.mgu θ hunif (.var v)
          rw [show (Term.var v).subst θ = θ v from rfl, hfix v (mem_termVars.mp hv)] at this
          exact subst_eq_var this
        let name : Term → String := fun t => match t with
          | .var w => w
          | _ => ""
        refine ⟨((termVars s).map fun v => applyS σ (.var v)).map name, ?_, ?_⟩
        · rw [List.map_map]
          apply nodup_map_of_inj_on (termVars_nodup s)
          intro a ha b hb e
          obtain ⟨wa, hwa⟩ := hvar a ha
          obtain ⟨wb, hwb⟩ := hvar b hb
          simp only [Function.comp, hwa, hwb, name] at e
          subst e
          have h1 := hgood.mgu θ hunif (.var a)
          have h2 := hgood.mgu θ hunif (.var b)
          rw [hwa] at h1; rw [hwb] at h2
          rw [h1] at h2
          have : θ a = θ b := h2
          rw [hfix a (mem_termVars.mp ha), hfix b (mem_termVars.mp hb)] at this
          injection this
        · rw [List.map_map, List.map_map]
          apply List.map_congr_left
          intro v hv
          obtain ⟨w, hw⟩ := hvar v hv
          simp [Function.comp, hw, name]

/-! ### variants, copies -/

/-- equal up to renaming: each is obtained from the other by a variable-for-variable substitution. -/
def Variant (a b : Term) : Prop :=
  ∃ ρ ρ' : String → Term, (∀ x, ∃ y, ρ x = .var y) ∧ (∀ x, ∃ y, ρ' x = .var y) ∧
    a.subst ρ = b ∧ b.subst ρ' = a

theorem subst_ground {u : Term} (h : u.vars = []) (ρ : String → Term) : u.subst ρ = u := by
  conv => rhs; rw [← Term.subst_id u]
  apply Term.subst_congr
  intro x hx; rw [h] at hx; cases hx

theorem applyS_ground {u : Term} (h : u.vars = []) (σ : Subst) : applyS σ u = u := by
  rw [applyS_eq_subst]; exact subst_ground h _

theorem Variant.symm {a b : Term} : Variant a b → Variant b a
  | ⟨ρ, ρ', h1, h2, h3, h4⟩ => ⟨ρ', ρ, h2, h1, h4, h3⟩

theorem Variant.trans {a b c : Term} : Variant a b → Variant b c → Variant a c
  | ⟨ρ, ρ', h1, h2, h3, h4⟩, ⟨τ, τ', k1, k2, k3, k4⟩ => by
      refine ⟨fun x => (ρ x).subst τ, fun x => (τ' x).subst ρ', ?_, ?_, ?_, ?_⟩
      · intro x; obtain ⟨y, hy⟩ := h1 x; obtain ⟨z, hz⟩ := k1 y
        exact ⟨z, by simp [hy, hz]⟩
      · intro x; obtain ⟨y, hy⟩ := k2 x; obtain ⟨z, hz⟩ := h2 y
        exact ⟨z, by simp [hy, hz]⟩
      · rw [← Term.subst_subst, h3, k3]
      · rw [← Term.subst_subst, k4, h4]

theorem copy_facts (avoid : List String) (t : Term) :
    (termVars t).length = (freshNames (avoid ++ termVars t) (termVars t).length).length ∧
    (freshNames (avoid ++ termVars t) (termVars t).length).Nodup ∧
    ∀ x ∈ t.vars, x ∈ termVars t :=
  ⟨(freshNames_length _ _).symm, freshNames_nodup _ _, fun _ hx => mem_termVars.mpr hx⟩

end TermOps
end Scryer
