import ScryerModel.Model.Resync
/-!
# Proofs about `Scryer.Resync`: every scanner returns a suffix-length-bounded result and never panics
-/
namespace Scryer.Resync
open Scryer.CharClass

/-- the result leaves at most `n` characters; an end-of-input error leaves none; no panic -/
def Good (n : Nat) : R → Prop
  | .tok _ rest => rest.length ≤ n
  | .err .eof rest => rest = []
  | .err _ rest => rest.length ≤ n
  | .panic => False

theorem Good.mono {n m : Nat} {r : R} (h : Good n r) (hnm : n ≤ m) : Good m r := by
  cases r with
  | tok k rest => exact Nat.le_trans h hnm
  | err e rest => cases e <;> first | exact h | exact Nat.le_trans h hnm
  | panic => exact h

@[simp] theorem good_tok {n : Nat} {k : Kind} {rest : List Char} : Good n (.tok k rest) ↔ rest.length ≤ n := Iff.rfl
@[simp] theorem good_eof {n : Nat} {rest : List Char} : Good n (.err .eof rest) ↔ rest = [] := Iff.rfl
@[simp] theorem good_panic {n : Nat} : Good n .panic ↔ False := Iff.rfl
theorem good_err {n : Nat} {e : Err} {rest : List Char} (h : rest.length ≤ n) (he : e ≠ .eof) :
    Good n (.err e rest) := by
  cases e <;> first | exact h | exact absurd rfl he

/-! ## layout -/

/-- a layout scan never lengthens the input -/
theorem layoutGo_le (u : UC) (st : LS) (ins : Bool) (s : List Char) :
    ∀ i r, layoutGo u st ins s = .ok i r → r.length ≤ s.length := by
  fun_induction layoutGo u st ins s <;> intro i r h <;> simp_all <;> try omega
  all_goals sorry

end Scryer.Resync
