import ScryerModel.Model.Resync
/-!
# Proofs about `Scryer.Resync`: every scanner returns a suffix-length-bounded result and never panics
-/
namespace Scryer.Resync
open Scryer.CharClass

/-- the result leaves at most `n` characters; an end-of-input error leaves none; no panic -/
def Good (n : Nat) : R → Prop
  | .tok _ rest => rest.length ≤ n
  | .err .eof rest => rest = []
  | .err _ rest => rest.length ≤ n
  | .panic => False

theorem Good.mono {n m : Nat} {r : R} (h : Good n r) (hnm : n ≤ m) : Good m r := by
  cases r with
  | tok k rest => exact Nat.le_trans h hnm
  | err e rest => cases e <;> first | exact h | exact Nat.le_trans h hnm
  | panic => exact h

@[simp] theorem good_tok {n : Nat} {k : Kind} {rest : List Char} : Good n (.tok k rest) ↔ rest.length ≤ n := Iff.rfl
@[simp] theorem good_eof {n : Nat} {rest : List Char} : Good n (.err .eof rest) ↔ rest = [] := Iff.rfl
@[simp] theorem good_panic {n : Nat} : Good n .panic ↔ False := Iff.rfl
theorem good_err {n : Nat} {e : Err} {rest : List Char} (h : rest.length ≤ n) (he : e ≠ .eof) :
    Good n (.err e rest) := by
  cases e <;> first | exact h | exact absurd rfl he

/-! ## layout -/

/-- a layout scan never lengthens the input -/
theorem layoutGo_le (u : UC) (st : LS) (ins : Bool) (s : List Char) :
    ∀ i r, layoutGo u st ins s = .ok i r → r.length ≤ s.length := by
  fun_induction layoutGo u st ins s <;> intro i r h <;> simp_all <;> try omega

theorem scanLayout_le (u : UC) (s : List Char) (i : Bool) (r : List Char)
    (h : scanLayout u s = .ok i r) : r.length ≤ s.length := by
  cases s with
  | nil => simp [scanLayout] at h
  | cons c t => exact layoutGo_le u .base false (c :: t) i r (by simpa [scanLayout] using h)

/-! ## runs -/

theorem runTok_good (p : Char → Bool) (k : Kind) (s : List Char) : Good s.length (runTok p k s) := by
  fun_induction runTok p k s <;> simp_all
  case case2 c r hp ih => exact Good.mono ih (by simp)

/-- maximal munch: a run token stops at the first character outside the class, and everything
    before it is in the class -/
theorem runTok_munch (p : Char → Bool) (k : Kind) (s : List Char) (k' : Kind) (rest : List Char)
    (h : runTok p k s = .tok k' rest) :
    k' = k ∧ ∃ pre d r, s = pre ++ rest ∧ rest = d :: r ∧ p d = false ∧ ∀ c ∈ pre, p c = true := by
  fun_induction runTok p k s
  case case1 => simp at h
  case case2 c r hp ih =>
    obtain ⟨hk, pre, d, r', hs, hr, hd, hall⟩ := ih h
    refine ⟨hk, c :: pre, d, r', by simp [hs], hr, hd, ?_⟩
    intro x hx
    cases List.mem_cons.mp hx with
    | inl e => simpa [e] using hp
    | inr e => exact hall x e
  case case3 c r hp =>
    simp at h
    obtain ⟨hk, hr⟩ := h
    exact ⟨hk.symm, [], c, r, by simp [hr], hr.symm, by simpa using hp, by simp⟩

/-! ## quoted items -/

theorem skipQ_le (q : Char) (s : List Char) : (skipQ q s).length ≤ s.length := by
  fun_induction skipQ q s <;> simp_all <;> omega

theorem qGo_good (u : UC) (m : QM) (st : QS) (s : List Char) :
    Good (s.length + (if m = .ch then 1 else 0)) (qGo u m st s) := by
  fun_induction qGo u m st s <;> simp_all [good_err]

end Scryer.Resync
