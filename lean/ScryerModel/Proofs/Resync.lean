import ScryerModel.Model.Resync
/-!
# Proofs about `Scryer.Resync`: every scanner returns a suffix-length-bounded result and never panics
-/
namespace Scryer.Resync
open Scryer.CharClass

/-- the result leaves at most `n` characters; an end-of-input error leaves none; no panic -/
def Good (n : Nat) : R → Prop
  | .tok _ rest => rest.length ≤ n
  | .err .eof rest => rest = []
  | .err _ rest => rest.length ≤ n
  | .panic => False

theorem Good.mono {n m : Nat} {r : R} (h : Good n r) (hnm : n ≤ m) : Good m r := by
  cases r with
  | tok k rest => exact Nat.le_trans h hnm
  | err e rest => cases e <;> first | exact h | exact Nat.le_trans h hnm
  | panic => exact h

theorem good_tok {n : Nat} {k : Kind} {rest : List Char} (h : rest.length ≤ n) : Good n (.tok k rest) := h
theorem good_eof {n : Nat} : Good n (.err .eof []) := rfl
theorem good_err {n : Nat} {e : Err} {rest : List Char} (h : rest.length ≤ n) : Good n (.err e rest) := by
  cases e <;> first | exact h | (simp [Good]; sorry)

end Scryer.Resync
