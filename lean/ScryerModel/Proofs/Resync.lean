import ScryerModel.Model.Resync
/-!
# Proofs about `Scryer.Resync`: every scanner returns a suffix-length-bounded result and never panics
-/
namespace Scryer.Resync
open Scryer.CharClass

/-- the result leaves at most `n` characters; an end-of-input error leaves none; no panic -/
def Good (n : Nat) : R → Prop
  | .tok _ rest => rest.length ≤ n
  | .err .eof rest => rest = []
  | .err _ rest => rest.length ≤ n
  | .panic => False

theorem Good.mono {n m : Nat} {r : R} (h : Good n r) (hnm : n ≤ m) : Good m r := by
  cases r with
  | tok k rest => exact Nat.le_trans h hnm
  | err e rest => cases e <;> first | exact h | exact Nat.le_trans h hnm
  | panic => exact h

@[simp] theorem good_tok {n : Nat} {k : Kind} {rest : List Char} : Good n (.tok k rest) ↔ rest.length ≤ n := Iff.rfl
@[simp] theorem good_eof {n : Nat} {rest : List Char} : Good n (.err .eof rest) ↔ rest = [] := Iff.rfl
@[simp] theorem good_panic {n : Nat} : Good n .panic ↔ False := Iff.rfl
theorem good_err {n : Nat} {e : Err} {rest : List Char} (h : rest.length ≤ n) (he : e ≠ .eof) :
    Good n (.err e rest) := by
  cases e <;> first | exact h | exact absurd rfl he

/-- closes goals about list lengths -/
macro "len_tac" : tactic => `(tactic| first | omega | (simp; omega) | simp | (simp_all; omega))

/-! ## layout -/

/-- a layout scan never lengthens the input -/
theorem layoutGo_le (u : UC) (st : LS) (ins : Bool) (s : List Char) :
    ∀ i r, layoutGo u st ins s = .ok i r → r.length ≤ s.length := by
  fun_induction layoutGo u st ins s <;> intro i r h <;> simp_all <;> try omega

theorem scanLayout_le (u : UC) (s : List Char) (i : Bool) (r : List Char)
    (h : scanLayout u s = .ok i r) : r.length ≤ s.length := by
  cases s with
  | nil => simp [scanLayout] at h
  | cons c t => exact layoutGo_le u .base false (c :: t) i r (by simpa [scanLayout] using h)

/-! ## runs -/

theorem runTok_good (p : Char → Bool) (k : Kind) (s : List Char) : Good s.length (runTok p k s) := by
  fun_induction runTok p k s <;> simp_all
  case case2 c r hp ih => exact Good.mono ih (by simp)

/-- maximal munch: a run token stops at the first character outside the class, and everything
    before it is in the class -/
theorem runTok_munch (p : Char → Bool) (k : Kind) (s : List Char) (k' : Kind) (rest : List Char)
    (h : runTok p k s = .tok k' rest) :
    k' = k ∧ ∃ pre d r, s = pre ++ rest ∧ rest = d :: r ∧ p d = false ∧ ∀ c ∈ pre, p c = true := by
  fun_induction runTok p k s
  case case1 => simp at h
  case case2 c r hp ih =>
    obtain ⟨hk, pre, d, r', hs, hr, hd, hall⟩ := ih h
    refine ⟨hk, c :: pre, d, r', by simp [hs], hr, hd, ?_⟩
    intro x hx
    cases List.mem_cons.mp hx with
    | inl e => simpa [e] using hp
    | inr e => exact hall x e
  case case3 c r hp =>
    simp at h
    obtain ⟨hk, hr⟩ := h
    exact ⟨hk.symm, [], c, r, by simp [hr], hr.symm, by simpa using hp, by simp⟩

/-! ## quoted items -/

theorem skipQ_le (q : Char) (s : List Char) : (skipQ q s).length ≤ s.length := by
  fun_induction skipQ q s <;> simp_all <;> omega

theorem escValue_ne_eof (n : Nat) : escValue n ≠ some .eof := by
  unfold escValue
  split
  · simp
  · split <;> simp

theorem qGo_good (u : UC) (m : QM) (st : QS) (s : List Char) :
    Good (s.length + (if m = .ch then 1 else 0)) (qGo u m st s) := by
  fun_induction qGo u m st s <;> simp_all
  all_goals first
    | omega
    | exact Good.mono (by assumption) (by omega)
    | exact Good.mono (by assumption) (by split <;> omega)
    | (apply good_err
       · first | len_tac | (split <;> simp <;> omega)
       · first
         | (intro h; subst h; exact absurd (by assumption) (escValue_ne_eof _))
         | (intro h; cases h)
         | (cases m <;> simp [QM.bad]))

theorem bqGo_good (u : UC) (s : List Char) : Good s.length (bqGo u s) := by
  fun_induction bqGo u s <;> simp_all
  all_goals first
    | omega
    | exact Good.mono (by assumption) (by omega)
    | (apply good_err
       · len_tac
       · (intro h; cases h))

theorem recoverQ_good (fixed : Bool) (q : Char) (n : Nat) (r : R) (h : Good n r) :
    Good n (recoverQ fixed q r) := by
  cases r with
  | tok k rest => exact h
  | panic => exact h
  | err e rest =>
    have := skipQ_le q rest
    cases e <;> cases fixed <;> simp_all [recoverQ, Good] <;> omega

/-! ## numbers -/

theorem expPart_good (u : UC) (n : Nat) (ec : Char) (r1 : List Char) :
    Good (r1.length + 1) (expPart u n ec r1) := by
  unfold expPart expDigits popTok
  split
  · simp
  · split
    · split
      · simp
      · split
        · exact Good.mono (runTok_good _ _ _) (by simp)
        · simp
    · split
      · exact Good.mono (runTok_good _ _ _) (by simp)
      · simp

theorem fracGo_good (u : UC) (n : Nat) (s : List Char) : Good s.length (fracGo u n s) := by
  fun_induction fracGo u n s <;> simp_all
  all_goals first
    | omega
    | exact Good.mono (by assumption) (by omega)
    | exact Good.mono (expPart_good _ _ _ _) (by simp)

theorem dropRun_le (p : Char → Bool) (s : List Char) : (dropRun p s).length ≤ s.length := by
  fun_induction dropRun p s <;> simp_all <;> omega

theorem radixConst_good (p : Char → Bool) (c : Char) (r : List Char) :
    Good (r.length + 1) (radixConst p c r) := by
  have hd := dropRun_le p r
  unfold radixConst
  split
  · simp
  · split
    · simp_all; omega
    · simp

theorem afterInt_good (u : UC) (z : Bool) (n : Nat) (c : Char) (r : List Char) :
    Good (r.length + 1) (afterInt u z n c r) := by
  unfold afterInt
  split
  · split
    · simp
    · split
      · exact Good.mono (fracGo_good _ _ _) (by len_tac)
      · simp
  · split
    · split
      · exact radixConst_good _ _ _
      · split
        · exact radixConst_good _ _ _
        · split
          · exact radixConst_good _ _ _
          · split
            · have := qGo_good u .ch .items r; simpa using this
            · simp
    · simp

theorem intGo_good (u : UC) (st : NS) (z : Bool) (n : Nat) (s : List Char) :
    Good s.length (intGo u st z n s) := by
  fun_induction intGo u st z n s <;> simp_all
  all_goals first
    | omega
    | exact Good.mono (by assumption) (by omega)
    | exact afterInt_good _ _ _ _ _
    | (apply good_err
       · len_tac
       · (intro h; cases h))

/-! ## `next_token` -/

theorem good_ite {n : Nat} {c : Prop} [Decidable c] {a b : R} (ha : c → Good n a) (hb : ¬c → Good n b) :
    Good n (if c then a else b) := by
  split
  · exact ha (by assumption)
  · exact hb (by assumption)

theorem tokAt_good (u : UC) (ins : Bool) (c : Char) (r : List Char) :
    Good r.length (tokAt u true ins (c :: r)) := by
  simp only [tokAt]
  repeat' (apply good_ite <;> intro _)
  all_goals first
    | exact runTok_good _ _ _
    | exact intGo_good _ _ _ _ _
    | exact recoverQ_good _ _ _ _ (bqGo_good _ _)
    | exact recoverQ_good _ _ _ _ (by simpa using qGo_good u .dq .items r)
    | exact recoverQ_good _ _ _ _ (by simpa using qGo_good u .sq .items r)
    | (simp_all; done)
    | (simp_all; omega)
    | (apply good_err; simp; intro h; cases h)
    | (cases r with
       | nil => simp
       | cons d r' =>
         apply good_ite <;> intro _
         · simp; split <;> simp <;> omega
         · exact runTok_good _ _ _)

theorem nextTok_good (u : UC) (s : List Char) : Good (s.length - 1) (nextTok u true s) := by
  unfold nextTok
  split
  · rename_i e he
    cases e <;> simp [Good]
  · rename_i ins r he
    have hle := scanLayout_le u s ins r he
    cases r with
    | nil => simp [tokAt]
    | cons c t => exact Good.mono (tokAt_good u ins c t) (by simp at hle; omega)

theorem nextTok_nil (u : UC) (f : Bool) : nextTok u f [] = .err .eof [] := rfl

/-- a token consumes at least one character -/
theorem nextTok_tok_lt (u : UC) (s : List Char) (k : Kind) (rest : List Char)
    (h : nextTok u true s = .tok k rest) : rest.length < s.length := by
  have hg := nextTok_good u s
  cases s with
  | nil => simp [nextTok_nil] at h
  | cons c t => rw [h] at hg; simp at hg ⊢; omega

/-- a lexical error other than "end of input" consumes at least one character -/
theorem nextTok_err_lt (u : UC) (s : List Char) (e : Err) (rest : List Char)
    (h : nextTok u true s = .err e rest) (he : e ≠ .eof) : rest.length < s.length := by
  have hg := nextTok_good u s
  cases s with
  | nil => simp [nextTok_nil] at h; exact absurd h.1.symm he
  | cons c t =>
    rw [h] at hg
    cases e <;> first | exact absurd rfl he | (simp [Good] at hg ⊢; omega)

/-- "end of input" is only reported with the input exhausted -/
theorem nextTok_eof_nil (u : UC) (s : List Char) (rest : List Char)
    (h : nextTok u true s = .err .eof rest) : rest = [] := by
  have hg := nextTok_good u s
  rw [h] at hg
  exact hg

theorem nextTok_no_panic (u : UC) (s : List Char) : nextTok u true s ≠ .panic := by
  intro h
  have hg := nextTok_good u s
  rw [h] at hg
  exact hg

/-! ## fuel is never exhausted -/

theorem skipGo_some (u : UC) : ∀ (f : Nat) (s : List Char), s.length < f →
    ∃ r, skipGo u f s = some r ∧ r.length ≤ s.length := by
  intro f
  induction f with
  | zero => intro s h; omega
  | succ f ih =>
    intro s h
    unfold skipGo
    split
    · rename_i rest he
      exact ⟨rest, rfl, Nat.le_of_lt (nextTok_tok_lt u s _ rest he)⟩
    · rename_i k rest hk he
      have hlt := nextTok_tok_lt u s _ rest he
      obtain ⟨r, hr, hle⟩ := ih rest (by omega)
      exact ⟨r, hr, by omega⟩
    · exact ⟨[], rfl, by simp⟩
    · rename_i e rest hne he
      have hlt := nextTok_err_lt u s _ rest he (by intro h'; subst h'; first | exact hne rfl | exact hne _ rfl | exact (hne _ he))
      obtain ⟨r, hr, hle⟩ := ih rest (by omega)
      exact ⟨r, hr, by omega⟩
    · rename_i he
      exact absurd he (nextTok_no_panic u s)

theorem skipToEnd_some (u : UC) (s : List Char) : ∃ r, skipToEnd u s = some r ∧ r.length ≤ s.length :=
  skipGo_some u _ s (by simp)

theorem tokensGo_spec (u : UC) : ∀ (f n : Nat) (s : List Char), s.length < f →
    ∃ o r, tokensGo u true f n s = some (o, r) ∧ o ≠ .eof ∧ r.length ≤ s.length ∧
      (s ≠ [] → r.length < s.length) := by
  intro f
  induction f with
  | zero => intro n s h; omega
  | succ f ih =>
    intro n s h
    unfold tokensGo
    split
    · rename_i rest he
      have := nextTok_tok_lt u s _ rest he
      exact ⟨_, _, rfl, by simp, by omega, fun _ => this⟩
    · rename_i k rest hk he
      have hlt := nextTok_tok_lt u s _ rest he
      obtain ⟨o, r, hr, ho, hle, _⟩ := ih (n + 1) rest (by omega)
      exact ⟨o, r, hr, ho, by omega, fun _ => by omega⟩
    · rename_i rest he
      have := nextTok_eof_nil u s rest he
      subst this
      refine ⟨_, _, rfl, by simp, by simp, fun hs => ?_⟩
      cases s with
      | nil => exact absurd rfl hs
      | cons c t => simp
    · rename_i e rest hne he
      have hlt := nextTok_err_lt u s _ rest he (by intro h'; subst h'; first | exact hne rfl | exact hne _ rfl | exact (hne _ he))
      obtain ⟨r, hr, hle⟩ := skipToEnd_some u rest
      refine ⟨.error e, r, by simp [hr], by simp, by omega, fun _ => by omega⟩
    · rename_i he
      exact absurd he (nextTok_no_panic u s)

theorem scanLayout_nil (u : UC) : scanLayout u [] = .err .eof := rfl

theorem readClause_spec (u : UC) (s : List Char) :
    ∃ o r, readClause u s = some (o, r) ∧ r.length ≤ s.length ∧ (o ≠ .eof → r.length < s.length) := by
  unfold readClause
  split
  · exact ⟨_, _, rfl, by simp, fun h => absurd rfl h⟩
  · rename_i e hne he
    refine ⟨_, _, rfl, by simp, fun _ => ?_⟩
    cases s with
    | nil => rw [scanLayout_nil] at he; cases he; first | exact absurd rfl hne | exact (hne rfl).elim
    | cons c t => simp
  · exact ⟨_, _, rfl, by simp, fun h => absurd rfl h⟩
  · rename_i ins r hr he
    have hle := scanLayout_le u s ins r he
    obtain ⟨o, r', h1, h2, h3, h4⟩ := tokensGo_spec u (r.length + 1) 0 r (by omega)
    have hne : r ≠ [] := by intro h; subst h; first | exact hr rfl | exact hr _ rfl | exact hr _ he
    exact ⟨o, r', h1, by omega, fun _ => by have := h4 hne; omega⟩

theorem readsGo_fuel (u : UC) : ∀ (f f' : Nat) (s : List Char), s.length < f → s.length < f' →
    readsGo u f s = readsGo u f' s := by
  intro f
  induction f with
  | zero => intro f' s h; omega
  | succ f ih =>
    intro f' s h h'
    cases f' with
    | zero => omega
    | succ f' =>
      obtain ⟨o, r, hc, hle, hlt⟩ := readClause_spec u s
      unfold readsGo
      rw [hc]
      cases o with
      | eof => rfl
      | clause n => simp only []; rw [ih f' r (by have := hlt (by simp); omega) (by have := hlt (by simp); omega)]
      | error e => simp only []; rw [ih f' r (by have := hlt (by simp); omega) (by have := hlt (by simp); omega)]

theorem readsGo_some (u : UC) : ∀ (f : Nat) (s : List Char), s.length < f → ∃ l, readsGo u f s = some l := by
  intro f
  induction f with
  | zero => intro s h; omega
  | succ f ih =>
    intro s h
    obtain ⟨o, r, hc, hle, hlt⟩ := readClause_spec u s
    unfold readsGo
    rw [hc]
    cases o with
    | eof => exact ⟨[], rfl⟩
    | clause n =>
      obtain ⟨l, hl⟩ := ih r (by have := hlt (by simp); omega)
      exact ⟨(.clause n, s.length - r.length) :: l, by simp [hl]⟩
    | error e =>
      obtain ⟨l, hl⟩ := ih r (by have := hlt (by simp); omega)
      exact ⟨(.error e, s.length - r.length) :: l, by simp [hl]⟩

/-- one read, then the reads of what it left -/
theorem reads_step (u : UC) (s : List Char) (o : Outcome) (rest : List Char)
    (hc : readClause u s = some (o, rest)) (ho : o ≠ .eof) :
    reads u s = (reads u rest).map fun l => (o, s.length - rest.length) :: l := by
  obtain ⟨o', r', hc', hle, hlt⟩ := readClause_spec u s
  rw [hc] at hc'
  cases hc'
  have hlt' := hlt ho
  unfold reads
  rw [readsGo_fuel u (rest.length + 1) s.length rest (by omega) hlt']
  conv => lhs; unfold readsGo
  rw [hc]
  cases o with
  | eof => exact absurd rfl ho
  | clause n => rfl
  | error e => rfl

theorem reads_eof (u : UC) (s : List Char) (rest : List Char)
    (hc : readClause u s = some (.eof, rest)) : reads u s = some [] := by
  unfold reads readsGo
  rw [hc]

/-! ## only the end-token branch yields an end token -/

def NoEnd : R → Prop
  | .tok .endT _ => False
  | _ => True

theorem runTok_noEnd (p : Char → Bool) (k : Kind) (s : List Char) (hk : k ≠ .endT) : NoEnd (runTok p k s) := by
  fun_induction runTok p k s <;> simp_all [NoEnd]

theorem qGo_noEnd (u : UC) (m : QM) (st : QS) (s : List Char) : NoEnd (qGo u m st s) := by
  fun_induction qGo u m st s <;> simp_all [NoEnd]

theorem bqGo_noEnd (u : UC) (s : List Char) : NoEnd (bqGo u s) := by
  fun_induction bqGo u s <;> simp_all [NoEnd]

theorem recoverQ_noEnd (f : Bool) (q : Char) (r : R) (h : NoEnd r) : NoEnd (recoverQ f q r) := by
  cases r with
  | tok k rest => exact h
  | panic => exact h
  | err e rest => cases e <;> cases f <;> simp [recoverQ, NoEnd]

theorem expPart_noEnd (u : UC) (n : Nat) (ec : Char) (r1 : List Char) : NoEnd (expPart u n ec r1) := by
  unfold expPart expDigits popTok
  repeat' split
  all_goals first
    | exact runTok_noEnd _ _ _ (by simp)
    | simp [NoEnd]

theorem fracGo_noEnd (u : UC) (n : Nat) (s : List Char) : NoEnd (fracGo u n s) := by
  fun_induction fracGo u n s <;> simp_all [NoEnd]
  exact expPart_noEnd _ _ _ _

theorem radixConst_noEnd (p : Char → Bool) (c : Char) (r : List Char) : NoEnd (radixConst p c r) := by
  unfold radixConst
  repeat' split
  all_goals simp [NoEnd]

theorem afterInt_noEnd (u : UC) (z : Bool) (n : Nat) (c : Char) (r : List Char) : NoEnd (afterInt u z n c r) := by
  unfold afterInt
  repeat' split
  all_goals first
    | exact fracGo_noEnd _ _ _
    | exact radixConst_noEnd _ _ _
    | exact qGo_noEnd _ _ _ _
    | simp [NoEnd]

theorem intGo_noEnd (u : UC) (st : NS) (z : Bool) (n : Nat) (s : List Char) : NoEnd (intGo u st z n s) := by
  fun_induction intGo u st z n s <;> simp_all [NoEnd]
  exact afterInt_noEnd _ _ _ _ _

/-- an end token reported for the input `s` (which is past the layout) means `s` stands at an end token -/
def EndSpec (u : UC) (s : List Char) (r : R) : Prop :=
  ∀ rest, r = .tok .endT rest → atEnd u s = true ∧ (rest = s.drop 1 ∨ rest = s.drop 2)

theorem endSpec_of_noEnd {u : UC} {s : List Char} {r : R} (h : NoEnd r) : EndSpec u s r := by
  intro rest hr
  subst hr
  exact h.elim

theorem endSpec_ite {u : UC} {s : List Char} {c : Prop} [Decidable c] {a b : R}
    (ha : c → EndSpec u s a) (hb : ¬c → EndSpec u s b) : EndSpec u s (if c then a else b) := by
  split
  · exact ha (by assumption)
  · exact hb (by assumption)

theorem tokAt_endSpec (u : UC) (f ins : Bool) (s : List Char) : EndSpec u s (tokAt u f ins s) := by
  cases s with
  | nil => exact endSpec_of_noEnd (by simp [tokAt, NoEnd])
  | cons c r =>
    simp only [tokAt]
    repeat' (apply endSpec_ite <;> intro _)
    all_goals first
      | exact endSpec_of_noEnd (runTok_noEnd _ _ _ Kind.noConfusion)
      | exact endSpec_of_noEnd (intGo_noEnd _ _ _ _ _)
      | exact endSpec_of_noEnd (recoverQ_noEnd _ _ _ (qGo_noEnd _ _ _ _))
      | exact endSpec_of_noEnd (recoverQ_noEnd _ _ _ (bqGo_noEnd _ _))
      | (apply endSpec_of_noEnd; cases ins <;> simp [NoEnd] <;> done)
      | skip
    all_goals
      rename_i hdot
      have hc : c = '.' := by simpa using hdot
      subst hc
      cases r with
      | nil => intro rest hr; simp at hr; subst hr; simp [atEnd]
      | cons d r' =>
        apply endSpec_ite <;> intro hcond
        · intro rest hr
          simp at hr
          refine ⟨by simpa [atEnd] using hcond, ?_⟩
          subst hr
          split <;> simp
        · exact endSpec_of_noEnd (runTok_noEnd _ _ _ Kind.noConfusion)

/-- the detector fires on `.` followed by layout, `%` or the end of input, whenever the reader is at
    a token start (`'.'` is not an upper-case letter) -/
theorem tokAt_dot_end (u : UC) (hu : u.is_uppercase '.' = false) (f ins : Bool) (r : List Char)
    (h : atEnd u ('.' :: r) = true) :
    ∃ rest, tokAt u f ins ('.' :: r) = .tok .endT rest ∧ (rest = r ∨ rest = r.drop 1) := by
  cases r with
  | nil => exact ⟨[], by simp [tokAt, capital_letter_char, variable_indicator_char, hu], by simp⟩
  | cons d r' =>
    have hd : (layout_char u d || d == '%') = true := by simpa [atEnd] using h
    refine ⟨if new_line_char u d then r' else d :: r', ?_, ?_⟩
    · simp only [tokAt, capital_letter_char, variable_indicator_char, hu]
      simp [hd]
    · split <;> simp

/-- skip mode stops exactly behind an end token (or at the end of input) -/
theorem skipGo_end (u : UC) : ∀ (f : Nat) (s r : List Char), skipGo u f s = some r →
    r = [] ∨ ∃ s', nextTok u true s' = .tok .endT r := by
  intro f
  induction f with
  | zero => intro s r h; simp [skipGo] at h
  | succ f ih =>
    intro s r h
    unfold skipGo at h
    split at h
    · rename_i rest he
      cases h
      exact Or.inr ⟨s, he⟩
    · exact ih _ _ h
    · cases h; exact Or.inl rfl
    · exact ih _ _ h
    · cases h

theorem tokensGo_end (u : UC) : ∀ (f n : Nat) (s : List Char) (o : Outcome) (r : List Char),
    tokensGo u true f n s = some (o, r) → r = [] ∨ ∃ s', nextTok u true s' = .tok .endT r := by
  intro f
  induction f with
  | zero => intro n s o r h; simp [tokensGo] at h
  | succ f ih =>
    intro n s o r h
    unfold tokensGo at h
    split at h
    · rename_i rest he
      cases h
      exact Or.inr ⟨s, he⟩
    · exact ih _ _ _ _ h
    · rename_i rest he
      have := nextTok_eof_nil u s rest he
      cases h
      exact Or.inl this
    · simp only [if_true] at h
      cases hs : skipToEnd u ‹List Char› with
      | none => simp [hs] at h
      | some r' =>
        simp [hs] at h
        obtain ⟨_, hr⟩ := h
        subst hr
        exact skipGo_end u _ _ _ hs
    · cases h

theorem readClause_end (u : UC) (s : List Char) (o : Outcome) (r : List Char)
    (h : readClause u s = some (o, r)) : r = [] ∨ ∃ s', nextTok u true s' = .tok .endT r := by
  unfold readClause at h
  split at h
  · cases h; exact Or.inl rfl
  · cases h; exact Or.inl rfl
  · cases h; exact Or.inl rfl
  · exact tokensGo_end u _ _ _ _ _ h

/-- what `nextTok = End` means on the characters: after the layout the input is `.` followed by
    layout, `%` or nothing, and the reader is left behind the `.` (and behind a new line after it) -/
theorem nextTok_end (u : UC) (f : Bool) (s rest : List Char) (h : nextTok u f s = .tok .endT rest) :
    ∃ ins t, scanLayout u s = .ok ins t ∧ atEnd u t = true ∧ (rest = t.drop 1 ∨ rest = t.drop 2) := by
  unfold nextTok at h
  split at h
  · cases h
  · rename_i ins t he
    exact ⟨ins, t, he, tokAt_endSpec u f ins t rest h⟩

end Scryer.Resync
