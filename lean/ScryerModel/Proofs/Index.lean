import ScryerModel.Proofs.IndexDyn
/-!
Whole-predicate compilation (`build`, i.e. `compile_predicate`: `split_predicate` +
`compile_pred_subseq` + `compute_indices`) establishes the invariant `Inv` of the first-argument
index model (property C06, static part): `inv_build`, `live_build`, `hd_build`, and with
`Inv.select_exact` the property itself, `build_select_exact`.
-/
namespace Scryer.Index

/-! ### insertion-ordered maps key ↦ clauses -/
section gmaps
variable {κ : Type} [DecidableEq κ]

/-- look-up in a `CodeOffsets` map: first match, `[]` on a miss. -/
def glookup : List (κ × List Nat) → κ → List Nat
  | [], _ => []
  | (k', l) :: r, k => if k' = k then l else glookup r k

theorem glookup_ginsert (m : List (κ × List Nat)) (k k' : κ) (id : Nat) :
    glookup (ginsert m k id) k' = if k' = k then glookup m k ++ [id] else glookup m k' := by
  induction m with
  | nil =>
    by_cases h : k' = k
    · subst h; simp [ginsert, glookup]
    · have h' : ¬ k = k' := fun e => h e.symm
      simp [ginsert, glookup, h, h']
  | cons x r ih =>
    obtain ⟨k0, l⟩ := x
    by_cases h0 : k0 = k
    · subst h0
      by_cases h : k' = k0
      · subst h; simp [ginsert, glookup]
      · have h' : ¬ k0 = k' := fun e => h e.symm
        simp [ginsert, glookup, h, h']
    · by_cases h : k' = k
      · subst h; simp [ginsert, glookup, h0, ih]
      · simp [ginsert, glookup, h0, ih, h]

/-- every key of the map has at least one clause. -/
def GNE (m : List (κ × List Nat)) : Prop := ∀ p, p ∈ m → p.2 ≠ []

theorem GNE.ginsert {m : List (κ × List Nat)} (h : GNE m) (k : κ) (id : Nat) :
    GNE (ginsert m k id) := by
  induction m with
  | nil => intro p hp; simp [Scryer.Index.ginsert] at hp; subst hp; simp
  | cons x r ih =>
    obtain ⟨k0, l⟩ := x
    have hr : GNE r := fun p hp => h p (by simp [hp])
    intro p hp
    simp only [Scryer.Index.ginsert] at hp
    split at hp
    · rcases List.mem_cons.1 hp with e | e
      · subst e; simp
      · exact hr p e
    · rcases List.mem_cons.1 hp with e | e
      · subst e; exact h _ (by simp)
      · exact ih hr p e

/-- `second_level_index` of one entry. -/
def ptrOf : List Nat → Ptr
  | [] => .fail
  | [i] => .ext i
  | code => .choice code

theorem ptrOf_ids (l : List Nat) : (ptrOf l).ids = l := by
  match l with
  | [] => rfl
  | [i] => rfl
  | _ :: _ :: _ => rfl

omit [DecidableEq κ] in
theorem secondLevel_cons (k : κ) (l : List Nat) (r : List (κ × List Nat)) (hl : l ≠ []) :
    secondLevel ((k, l) :: r) = (k, ptrOf l) :: secondLevel r := by
  match l, hl with
  | [i], _ => rfl
  | _ :: _ :: _, _ => rfl

omit [DecidableEq κ] in
theorem secondLevel_length (m : List (κ × List Nat)) (h : GNE m) :
    (secondLevel m).length = m.length := by
  induction m with
  | nil => rfl
  | cons x r ih =>
    obtain ⟨k, l⟩ := x
    rw [secondLevel_cons k l r (h (k, l) (by simp))]
    simp [ih (fun p hp => h p (by simp [hp]))]

theorem secondLevel_look (m : List (κ × List Nat)) (h : GNE m) (k : κ) :
    ((tlookup (secondLevel m) k).getD .fail).ids = glookup m k := by
  induction m with
  | nil => rfl
  | cons x r ih =>
    obtain ⟨k0, l⟩ := x
    rw [secondLevel_cons k0 l r (h (k0, l) (by simp))]
    simp only [tlookup, glookup]
    split
    · simp [ptrOf_ids]
    · exact ih (fun p hp => h p (by simp [hp]))

omit [DecidableEq κ] in
theorem nodup_all_eq {l : List κ} (nd : l.Nodup) (k : κ) (h : ∀ x, x ∈ l → x = k) :
    l = [] ∨ l = [k] := by
  match l, nd, h with
  | [], _, _ => exact Or.inl rfl
  | [a], _, h => exact Or.inr (by rw [h a (by simp)])
  | a :: b :: r, nd, h =>
    have ha := h a (by simp)
    have hb := h b (by simp)
    subst ha; subst hb
    simp at nd

/-- **`switch_on`** of a map that files every clause of the chain under each of its keys, in
chain order, satisfies the slot invariant. -/
theorem slotInv_switchOn (chain : List Nat) (alive : Nat → Bool) (keys : Nat → List κ)
    (G : List (κ × List Nat)) (hne : GNE G)
    (h1 : ∀ k, (glookup G k).Sublist chain)
    (h2 : ∀ id, id ∈ chain → ∀ k, k ∈ keys id → id ∈ glookup G k)
    (h3 : ∀ id, id ∈ chain → (keys id).Nodup) :
    SlotInv chain alive keys (switchOn G) := by
  match G, hne, h1, h2 with
  | [], _, _, h2 =>
    have e : switchOn ([] : List (κ × List Nat)) = .leaf .fail := by simp [switchOn, secondLevel]
    rw [e]
    refine ⟨fun k => ?_, fun id hi _ k hk => ?_, fun p hp hpf => ?_⟩
    · simp [PtrOK, Slot.look, Ptr.ids]
    · have := h2 id hi k hk; simp [glookup] at this
    · injection hp with hp; exact absurd hp.symm hpf
  | [(k0, l)], hne, h1, h2 =>
    have hl : l ≠ [] := hne (k0, l) (by simp)
    have e : switchOn [(k0, l)] = .leaf (ptrOf l) := by
      simp [switchOn, secondLevel_cons k0 l [] hl, secondLevel]
    rw [e]
    have hk0 : ∀ id, id ∈ chain → ∀ k, k ∈ keys id → k = k0 ∧ id ∈ l := by
      intro id hi k hk
      have := h2 id hi k hk
      simp only [glookup] at this
      split at this
      · rename_i e; exact ⟨e.symm, this⟩
      · simp at this
    refine ⟨fun k => ?_, fun id hi _ k hk => ?_, fun p hp hpf => ⟨k0, fun id hi _ => ?_⟩⟩
    · have := h1 k0
      simpa [PtrOK, Slot.look, ptrOf_ids, glookup] using this
    · simpa [Slot.look, ptrOf_ids] using (hk0 id hi k hk).2
    · exact nodup_all_eq (h3 id hi) k0 (fun x hx => (hk0 id hi x hx).1)
  | a :: b :: r, hne, h1, h2 =>
    have e : switchOn (a :: b :: r) = .table (secondLevel (a :: b :: r)) := by
      have := secondLevel_length (a :: b :: r) hne
      simp only [switchOn]
      rw [if_pos (by rw [this]; simp)]
    rw [e]
    refine ⟨fun k => ?_, fun id hi _ k hk => ?_, fun p hp hpf => by cases hp⟩
    · simp only [PtrOK, Slot.look, secondLevel_look _ hne]; exact h1 k
    · simp only [Slot.look, secondLevel_look _ hne]; exact h2 id hi k hk

end gmaps

/-! ### `compile_pred_subseq` -/

/-- the index collected over the clauses of a subsequence. -/
def collect (arg : Nat) (ms : List (Nat × Head)) (o : Offsets) : Offsets :=
  ms.foldl (fun o m => indexTerm o (argAt m.2 arg) m.1) o

theorem collect_cons (arg : Nat) (m : Nat × Head) (ms : List (Nat × Head)) (o : Offsets) :
    collect arg (m :: ms) o = collect arg ms (indexTerm o (argAt m.2 arg) m.1) := rfl

theorem ckeys_nodup (fa : FirstArg) : (ckeys fa).Nodup := by
  cases fa with
  | const l =>
    simp only [ckeys]
    cases h : l.altKey with
    | none => simp
    | some k => simpa using (altKey_ne_key l k h).symm
  | _ => simp [ckeys]

theorem skeys_nodup (fa : FirstArg) : (skeys fa).Nodup := by
  cases fa <;> simp [skeys]

theorem indexTerm_consts (o : Offsets) (fa : FirstArg) (id : Nat) (k : CKey) :
    glookup (indexTerm o fa id).consts k
      = glookup o.consts k ++ (if k ∈ ckeys fa then [id] else []) := by
  cases fa with
  | const l =>
    cases h : l.altKey with
    | none =>
      simp only [indexTerm, ckeys, h, glookup_ginsert]
      by_cases e : k = l.key <;> simp [e]
    | some k2 =>
      have hne := altKey_ne_key l k2 h
      simp only [indexTerm, ckeys, h, glookup_ginsert]
      by_cases e : k = l.key
      · subst e
        have : ¬ l.key = k2 := fun e => hne e.symm
        simp [this]
      · by_cases e2 : k = k2
        · subst e2; simp [e]
        · simp [e, e2]
  | _ => simp [indexTerm, ckeys]

theorem indexTerm_structs (o : Offsets) (fa : FirstArg) (id : Nat) (k : String × Nat) :
    glookup (indexTerm o fa id).structs k
      = glookup o.structs k ++ (if k ∈ skeys fa then [id] else []) := by
  cases fa with
  | struct n a =>
    simp only [indexTerm, skeys, glookup_ginsert]
    by_cases e : k = (n, a) <;> simp [e]
  | const l => simp only [indexTerm, skeys]; split <;> simp
  | _ => simp [indexTerm, skeys]

theorem indexTerm_lists (o : Offsets) (fa : FirstArg) (id : Nat) :
    (indexTerm o fa id).lists = o.lists ++ (if fa = .list then [id] else []) := by
  cases fa with
  | const l => simp only [indexTerm]; split <;> simp
  | _ => simp [indexTerm]

theorem indexTerm_gne (o : Offsets) (fa : FirstArg) (id : Nat) (hc : GNE o.consts)
    (hs : GNE o.structs) : GNE (indexTerm o fa id).consts ∧ GNE (indexTerm o fa id).structs := by
  cases fa with
  | const l =>
    simp only [indexTerm]; split
    · exact ⟨(hc.ginsert _ _).ginsert _ _, hs⟩
    · exact ⟨hc.ginsert _ _, hs⟩
  | struct n a => exact ⟨hc, hs.ginsert _ _⟩
  | _ => exact ⟨hc, hs⟩

theorem collect_gne (arg : Nat) (ms : List (Nat × Head)) (o : Offsets) (hc : GNE o.consts)
    (hs : GNE o.structs) : GNE (collect arg ms o).consts ∧ GNE (collect arg ms o).structs := by
  induction ms generalizing o with
  | nil => exact ⟨hc, hs⟩
  | cons m r ih =>
    rw [collect_cons]
    have := indexTerm_gne o (argAt m.2 arg) m.1 hc hs
    exact ih _ this.1 this.2

theorem collect_consts (arg : Nat) (ms : List (Nat × Head)) (o : Offsets) (k : CKey) :
    glookup (collect arg ms o).consts k
      = glookup o.consts k ++ (ms.filter (fun m => decide (k ∈ ckeys (argAt m.2 arg)))).map (·.1) := by
  induction ms generalizing o with
  | nil => simp [collect]
  | cons m r ih =>
    rw [collect_cons, ih, indexTerm_consts]
    by_cases h : k ∈ ckeys (argAt m.2 arg) <;> simp [h]

theorem collect_structs (arg : Nat) (ms : List (Nat × Head)) (o : Offsets) (k : String × Nat) :
    glookup (collect arg ms o).structs k
      = glookup o.structs k ++ (ms.filter (fun m => decide (k ∈ skeys (argAt m.2 arg)))).map (·.1) := by
  induction ms generalizing o with
  | nil => simp [collect]
  | cons m r ih =>
    rw [collect_cons, ih, indexTerm_structs]
    by_cases h : k ∈ skeys (argAt m.2 arg) <;> simp [h]

theorem collect_lists (arg : Nat) (ms : List (Nat × Head)) (o : Offsets) :
    (collect arg ms o).lists
      = o.lists ++ (ms.filter (fun m => decide (argAt m.2 arg = .list))).map (·.1) := by
  induction ms generalizing o with
  | nil => simp [collect]
  | cons m r ih =>
    rw [collect_cons, ih, indexTerm_lists]
    by_cases h : argAt m.2 arg = .list <;> simp [h]

theorem collect_allvar (arg : Nat) (ms : List (Nat × Head)) (o : Offsets)
    (h : ∀ m, m ∈ ms → argAt m.2 arg = .var) : collect arg ms o = o := by
  induction ms generalizing o with
  | nil => rfl
  | cons m r ih =>
    rw [collect_cons, h m (by simp)]
    exact ih _ (fun m' hm' => h m' (by simp [hm']))

theorem switchOnList_ids (l : List Nat) : (switchOnList l).ids = l := by
  match l with
  | [] => rfl
  | [i] => rfl
  | _ :: _ :: _ => simp [switchOnList, Ptr.ids]

theorem compileSeg_chain (ext : Bool) (arg : Nat) (ms : List (Nat × Head)) :
    (compileSeg ext arg ms).chain = ms.map (·.1) := by
  unfold compileSeg
  simp only
  split
  · split <;> rfl
  · rfl

/-- a run of clauses without any non-variable argument gets no index code. -/
theorem compileSeg_allvar (ext : Bool) (arg : Nat) (ms : List (Nat × Head))
    (h : ∀ m, m ∈ ms → firstInst m.2 = none) : compileSeg ext arg ms = .plain (ms.map (·.1)) := by
  have hv : ∀ m, m ∈ ms → argAt m.2 arg = .var := fun m hm => firstInstFrom_none m.2 0 (h m hm) arg
  have := collect_allvar arg ms Offsets.empty hv
  unfold collect at this
  unfold compileSeg
  simp only [this]
  simp [Offsets.noIndices, Offsets.empty]

/-- **the index code `compile_pred_subseq` emits for a run of clauses that all have their first
non-variable argument at `arg` satisfies the subsequence invariant.** -/
theorem compileSeg_inv (hd : Nat → Head) (alive : Nat → Bool) (ext : Bool) (arg : Nat)
    (ms : List (Nat × Head)) (sub : Sub)
    (hhd : ∀ m, m ∈ ms → hd m.1 = m.2) (harg : ∀ m, m ∈ ms → firstInst m.2 = some arg)
    (hs : compileSeg ext arg ms = .indexed sub) : SubInv hd alive sub := by
  have hsub : sub = Sub.mk arg (ms.map (·.1)) (switchOn (collect arg ms Offsets.empty).consts)
      (switchOnList (collect arg ms Offsets.empty).lists)
      (switchOn (collect arg ms Offsets.empty).structs) := by
    unfold compileSeg at hs
    simp only at hs
    split at hs
    · split at hs
      · cases hs
      · injection hs with hs; exact hs.symm
    · cases hs
  subst hsub
  have hgne := collect_gne arg ms Offsets.empty (fun p hp => by simp [Offsets.empty] at hp)
    (fun p hp => by simp [Offsets.empty] at hp)
  have hmem : ∀ id, id ∈ ms.map (·.1) → ∃ m, m ∈ ms ∧ m.1 = id ∧ hd id = m.2 := by
    intro id hi
    obtain ⟨m, hm, e⟩ := List.mem_map.1 hi
    exact ⟨m, hm, e, by rw [← e]; exact hhd m hm⟩
  refine ⟨?_, ?_, ?_, ?_, ?_⟩
  · apply slotInv_switchOn _ _ _ _ hgne.1
    · intro k
      rw [collect_consts]
      simp only [Offsets.empty, glookup, List.nil_append]
      exact List.Sublist.map _ List.filter_sublist
    · intro id hi k hk
      obtain ⟨m, hm, e, hh⟩ := hmem id hi
      rw [collect_consts]
      simp only [Offsets.empty, glookup, List.nil_append]
      refine List.mem_map.2 ⟨m, List.mem_filter.2 ⟨hm, ?_⟩, e⟩
      simp only [hh] at hk
      simpa using hk
    · intro id _; exact ckeys_nodup _
  · apply slotInv_switchOn _ _ _ _ hgne.2
    · intro k
      rw [collect_structs]
      simp only [Offsets.empty, glookup, List.nil_append]
      exact List.Sublist.map _ List.filter_sublist
    · intro id hi k hk
      obtain ⟨m, hm, e, hh⟩ := hmem id hi
      rw [collect_structs]
      simp only [Offsets.empty, glookup, List.nil_append]
      refine List.mem_map.2 ⟨m, List.mem_filter.2 ⟨hm, ?_⟩, e⟩
      simp only [hh] at hk
      simpa using hk
    · intro id _; exact skeys_nodup _
  · simp only [PtrOK, switchOnList_ids, collect_lists, Offsets.empty, List.nil_append]
    exact List.Sublist.map _ List.filter_sublist
  · intro id hi _ hl
    obtain ⟨m, hm, e, hh⟩ := hmem id hi
    simp only [switchOnList_ids, collect_lists, Offsets.empty, List.nil_append]
    refine List.mem_map.2 ⟨m, List.mem_filter.2 ⟨hm, ?_⟩, e⟩
    simp only [hh] at hl
    simpa using hl
  · intro id hi
    obtain ⟨m, hm, e, hh⟩ := hmem id hi
    simp only [hh]
    exact harg m hm

/-! ### `split_predicate` -/

/-- the spans tile `[a, b)`, left to right, and none is empty. -/
def Tiles : List Span → Nat → Nat → Prop
  | [], a, b => a = b
  | sp :: r, a, b => sp.left = a ∧ sp.left < sp.right ∧ Tiles r sp.right b

theorem Tiles.append {s1 s2 : List Span} {a b c : Nat} (h1 : Tiles s1 a b) (h2 : Tiles s2 b c) :
    Tiles (s1 ++ s2) a c := by
  induction s1 generalizing a with
  | nil => simp only [Tiles] at h1; subst h1; simpa using h2
  | cons sp r ih => exact ⟨h1.1, h1.2.1, ih h1.2.2⟩

theorem Tiles.snoc {s : List Span} {a l r : Nat} (o : Nat) (h1 : Tiles s a l) (h : l < r) :
    Tiles (s ++ [⟨l, r, o⟩]) a r :=
  h1.append ⟨rfl, h, rfl⟩

theorem Tiles.le {s : List Span} {a b : Nat} (h : Tiles s a b) : a ≤ b := by
  induction s generalizing a with
  | nil => simp only [Tiles] at h; omega
  | cons sp r ih => have := ih h.2.2; have := h.1; have := h.2.1; omega

theorem take_drop_glue {α : Type} (l : List α) (a r b : Nat) (h1 : a ≤ r) (h2 : r ≤ b) :
    (l.drop a).take (r - a) ++ (l.drop r).take (b - r) = (l.drop a).take (b - a) := by
  have e1 : l.drop r = (l.drop a).drop (r - a) := by
    rw [List.drop_drop]; congr 1; omega
  have e2 : b - a = (r - a) + (b - r) := by omega
  rw [e1, e2, List.take_add]

theorem Tiles.flatMap {α : Type} (l : List α) {s : List Span} {a b : Nat} (h : Tiles s a b) :
    s.flatMap (fun sp => (l.drop sp.left).take (sp.right - sp.left)) = (l.drop a).take (b - a) := by
  induction s generalizing a with
  | nil => simp only [Tiles] at h; subst h; simp
  | cons sp r ih =>
    obtain ⟨e, hlt, ht⟩ := h
    subst e
    rw [List.flatMap_cons, ih ht]
    exact take_drop_glue l _ _ _ (by omega) ht.le

/-- the clauses of a span all have their first non-variable argument at `sp.arg`, or none has a
non-variable argument. -/
def SpanOK (cs : List Head) (sp : Span) : Prop :=
  (∀ j, sp.left ≤ j → j < sp.right → (cs[j]?).map firstInst = some (some sp.arg)) ∨
  (∀ j, sp.left ≤ j → j < sp.right → (cs[j]?).map firstInst = some none)

theorem splitGo_spec (cs : List Head) (rest : List Head) (right left opt : Nat) (acc : List Span)
    (hrest : cs.drop right = rest) (hr : right ≤ cs.length) (hl : left ≤ right)
    (ht : Tiles acc 0 left) (hok : ∀ sp, sp ∈ acc → SpanOK cs sp)
    (hrun : ∀ j, left ≤ j → j < right → (cs[j]?).map firstInst = some (some opt)) :
    Tiles (splitGo rest right left opt acc) 0 cs.length ∧
      ∀ sp, sp ∈ splitGo rest right left opt acc → SpanOK cs sp := by
  induction rest generalizing right left opt acc with
  | nil =>
    have hlen : right = cs.length := by
      have := List.drop_eq_nil_iff.1 hrest
      omega
    subst hlen
    simp only [splitGo]
    split
    · refine ⟨ht.snoc opt (by assumption), fun sp hsp => ?_⟩
      rcases List.mem_append.1 hsp with h | h
      · exact hok sp h
      · simp at h; subst h; exact Or.inl hrun
    · have : left = cs.length := by omega
      subst this
      exact ⟨ht, hok⟩
  | cons h rest' ih =>
    have hlt : right < cs.length := by
      rcases Nat.lt_or_ge right cs.length with h' | h'
      · exact h'
      · rw [List.drop_eq_nil_iff.2 h'] at hrest; cases hrest
    have hget : cs[right]? = some h := by
      have := congrArg List.head? hrest
      simpa [List.head?_drop] using this
    have hrest' : cs.drop (right + 1) = rest' := by
      have := congrArg List.tail hrest
      simpa [List.tail_drop] using this
    simp only [splitGo]
    cases hfi : firstInst h with
    | some i =>
      simp only
      have hnew : (cs[right]?).map firstInst = some (some i) := by simp [hget, hfi]
      split
      · split
        · have : left = right := by omega
          subst this
          apply ih (left + 1) left i acc hrest' (by omega) (by omega) ht hok
          intro j h1 h2
          have : j = left := by omega
          subst this; exact hnew
        · apply ih (right + 1) right i _ hrest' (by omega) (by omega) (ht.snoc opt (by omega))
          · intro sp hsp
            rcases List.mem_append.1 hsp with h | h
            · exact hok sp h
            · simp at h; subst h; exact Or.inl hrun
          · intro j h1 h2
            have : j = right := by omega
            subst this; exact hnew
      · rename_i he
        have he : opt = i := by simpa using he
        subst he
        apply ih (right + 1) left opt acc hrest' (by omega) (by omega) ht hok
        intro j h1 h2
        rcases Nat.lt_or_ge j right with h' | h'
        · exact hrun j h1 h'
        · have : j = right := by omega
          subst this; exact hnew
    | none =>
      simp only
      have hnew : (cs[right]?).map firstInst = some none := by simp [hget, hfi]
      have hacc : Tiles (if left < right then acc ++ [⟨left, right, opt⟩] else acc) 0 right ∧
          ∀ sp, sp ∈ (if left < right then acc ++ [⟨left, right, opt⟩] else acc) → SpanOK cs sp := by
        split
        · refine ⟨ht.snoc opt (by assumption), fun sp hsp => ?_⟩
          rcases List.mem_append.1 hsp with h | h
          · exact hok sp h
          · simp at h; subst h; exact Or.inl hrun
        · have : left = right := by omega
          subst this
          exact ⟨ht, hok⟩
      apply ih (right + 1) (right + 1) 0 _ hrest' (by omega) (by omega)
        (hacc.1.snoc 0 (by omega))
      · intro sp hsp
        rcases List.mem_append.1 hsp with h | h
        · exact hacc.2 sp h
        · simp at h; subst h
          refine Or.inr (fun j h1 h2 => ?_)
          have : j = right := by simp at h1 h2; omega
          subst this; exact hnew
      · intro j h1 h2; omega

theorem split_spec (cs : List Head) :
    Tiles (split cs) 0 cs.length ∧ ∀ sp, sp ∈ split cs → SpanOK cs sp :=
  splitGo_spec cs cs 0 0 0 [] rfl (by omega) (by omega) rfl (fun _ h => by cases h)
    (fun j _ h => by omega)

/-! ### `compile_predicate` -/

theorem enumFrom'_length (n : Nat) (cs : List Head) : (enumFrom' n cs).length = cs.length := by
  induction cs generalizing n with
  | nil => rfl
  | cons h r ih => simp [enumFrom', ih]

theorem enumFrom'_getElem? (n : Nat) (cs : List Head) (i : Nat) :
    (enumFrom' n cs)[i]? = (cs[i]?).map (fun h => (n + i, h)) := by
  induction cs generalizing n i with
  | nil => simp [enumFrom']
  | cons h r ih =>
    cases i with
    | zero => simp [enumFrom']
    | succ i =>
      simp only [enumFrom', List.getElem?_cons_succ, ih]
      have : n + 1 + i = n + (i + 1) := by omega
      rw [this]

theorem enumFrom'_map_fst (n : Nat) (cs : List Head) :
    (enumFrom' n cs).map (·.1) = List.range' n cs.length := by
  induction cs generalizing n with
  | nil => rfl
  | cons h r ih => simp [enumFrom', ih, List.range'_succ]

theorem headOf_enumFrom' (n : Nat) (cs : List Head) (i : Nat) :
    headOf (enumFrom' n cs) (n + i) = cs[i]? := by
  induction cs generalizing n i with
  | nil => simp [enumFrom', headOf]
  | cons h r ih =>
    cases i with
    | zero => simp [enumFrom', headOf]
    | succ i =>
      have e : n + (i + 1) = n + 1 + i := by omega
      have ne : ¬ n = n + 1 + i := by omega
      simp only [enumFrom', headOf, e, ne, if_false, ih, List.getElem?_cons_succ]

/-- a member of a span is clause `j` of the predicate, for a `j` inside the span. -/
theorem mem_spanMembers (cs : List Head) (sp : Span) (m : Nat × Head)
    (hm : m ∈ spanMembers (enumFrom' 0 cs) sp) :
    ∃ j, sp.left ≤ j ∧ j < sp.right ∧ cs[j]? = some m.2 ∧ m.1 = j := by
  unfold spanMembers at hm
  obtain ⟨i, hi⟩ := List.mem_iff_getElem?.1 hm
  rw [List.getElem?_take] at hi
  split at hi
  · rename_i hlt
    rw [List.getElem?_drop, enumFrom'_getElem?] at hi
    cases hc : cs[sp.left + i]? with
    | none => simp [hc] at hi
    | some h =>
      simp only [hc, Option.map_some, Option.some.injEq] at hi
      subst hi
      exact ⟨sp.left + i, by omega, by omega, hc, by simp⟩
  · cases hi

theorem build_order (ext : Bool) (cs : List Head) :
    (build ext cs).order = List.range cs.length := by
  have ht := (split_spec cs).1
  unfold Index.order build
  simp only [List.flatMap_map, compileSeg_chain]
  rw [← List.map_flatMap]
  have := ht.flatMap (enumFrom' 0 cs)
  unfold spanMembers
  rw [this]
  simp [← enumFrom'_length 0 cs, enumFrom'_map_fst, List.range_eq_range']

theorem build_alive (ext : Bool) (cs : List Head) (id : Nat) : (build ext cs).alive id = true := by
  simp [Index.alive, build]

theorem build_hd (ext : Bool) (cs : List Head) (i : Nat) :
    (build ext cs).hd i = (cs[i]?).getD [] := by
  have := headOf_enumFrom' 0 cs i
  simp only [Nat.zero_add] at this
  simp [Index.hd, build, this]

/-- **whole-predicate compilation establishes the invariant.** -/
theorem inv_build (ext : Bool) (cs : List Head) : Inv (build ext cs) := by
  refine ⟨?_, ?_, ?_, ?_, ?_⟩
  · rw [build_order]; exact List.nodup_range
  · intro id hi
    rw [build_order] at hi
    simpa [build] using hi
  · intro p hp
    have : p.1 ∈ (enumFrom' 0 cs).map (·.1) := List.mem_map.2 ⟨p, hp, rfl⟩
    rw [enumFrom'_map_fst] at this
    simpa [build] using this
  · intro id hi; simp [build] at hi
  · intro sub hs
    have hs' : Seg.indexed sub ∈ (split cs).map
        (fun sp => compileSeg ext sp.arg (spanMembers (enumFrom' 0 cs) sp)) := hs
    obtain ⟨sp, hsp, e⟩ := List.mem_map.1 hs'
    rcases (split_spec cs).2 sp hsp with hok | hok
    · apply compileSeg_inv _ _ ext sp.arg _ sub _ _ e
      · intro m hm
        obtain ⟨j, _, _, hj, ej⟩ := mem_spanMembers cs sp m hm
        rw [build_hd, ej, hj]; rfl
      · intro m hm
        obtain ⟨j, h1, h2, hj, _⟩ := mem_spanMembers cs sp m hm
        have := hok j h1 h2
        simpa [hj] using this
    · rw [compileSeg_allvar] at e
      · cases e
      · intro m hm
        obtain ⟨j, h1, h2, hj, _⟩ := mem_spanMembers cs sp m hm
        have := hok j h1 h2
        simpa [hj] using this

theorem live_build (ext : Bool) (cs : List Head) :
    (build ext cs).live = List.range cs.length := by
  unfold Index.live
  rw [build_order]
  simp [build_alive]

theorem hd_build (ext : Bool) (cs : List Head) (i : Nat) (h : i < cs.length) :
    (build ext cs).hd i = cs[i] := by
  rw [build_hd]; simp [h]

/-- **property C06 for consulted (and initial dynamic) code**: the clauses the index hands over,
filtered by head unification, are exactly the clauses whose head unifies, in textual order. -/
theorem build_select_exact (ext : Bool) (cs : List Head) (call : Call) (wf : CallWF call) :
    (select (build ext cs) call).filter (fun id => compatHead ((build ext cs).hd id) call)
      = (List.range cs.length).filter (fun id => compatHead ((build ext cs).hd id) call) := by
  rw [← live_build ext cs]
  exact (inv_build ext cs).select_exact call wf

end Scryer.Index
