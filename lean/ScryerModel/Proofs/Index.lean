import ScryerModel.Model.Index
namespace Scryer.Index
end Scryer.Index
