import ScryerModel.Model.Coroutine
import ScryerModel.Proofs.Unify
/-
C26 — lemmas about `Scryer.Coroutine.exec`.

Plan.  Every test `exec` makes (unifiability of the next equation, "dif violated", "dif still
unifiable", "condition holds") is made under the current substitution `σ`; because `σ` is a most
general unifier of the equations posted so far (`IsMgu st.σ st.eqs`, part of the invariant `Inv`),
each test is equivalent to a *semantic* statement about the set of unifiers of `st.eqs`
(`Sat`, `Entails`, `Compat`, `Cond.Sem`), and these are monotone in the set of equations.
Confluence then follows from a simulation argument (`exec_below`): a successful run ends in a
store `T` that is consistent and closed (`Target`); every run whose postings all belong to `T`
stays below `T` and therefore can neither fail nor wake a goal that `T` has not woken.
Core Lean only.
-/
namespace Scryer
namespace Coroutine
open Term Unify

/-! ### identity test -/

mutual
theorem eqb_iff : ∀ (s t : Term), eqb s t = true ↔ s = t
  | .var a, t => by cases t <;> simp [eqb]
  | .int a, t => by cases t <;> simp [eqb]
  | .rat a b, t => by cases t <;> simp [eqb]
  | .flt a, t => by cases t <;> simp [eqb]
  | .atom a, t => by cases t <;> simp [eqb]
  | .str f as, t => by
      cases t with
      | str g bs => simp [eqb, eqbL_iff as bs]
      | _ => simp [eqb]
theorem eqbL_iff : ∀ (as bs : List Term), eqbL as bs = true ↔ as = bs
  | [], [] => by simp [eqbL]
  | [], _ :: _ => by simp [eqbL]
  | _ :: _, [] => by simp [eqbL]
  | a :: as, b :: bs => by simp [eqbL, eqb_iff a b, eqbL_iff as bs]
end

/-! ### semantic notions: the logical content of a set of equations -/

/-- `σ` is a most general unifier of `E`: it unifies `E` and every unifier absorbs it. -/
structure IsMgu (σ : Subst) (E : Eqs) : Prop where
  unifies : Unifies σ.toFun E
  absorbs : ∀ θ, Unifies θ E → ∀ t, (applyS σ t).subst θ = t.subst θ

/-- the equations have a (finite-tree) solution. -/
def Sat (E : Eqs) : Prop := ∃ θ, Unifies θ E

/-- every solution of `E` makes the two sides of `d` identical (`dif` is violated). -/
def Entails (E : Eqs) (d : Term × Term) : Prop :=
  ∀ θ, Unifies θ E → d.1.subst θ = d.2.subst θ

/-- some solution of `E` makes the two sides of `d` identical (`dif` is not yet entailed). -/
def Compat (E : Eqs) (d : Term × Term) : Prop :=
  ∃ θ, Unifies θ E ∧ d.1.subst θ = d.2.subst θ

/-- the condition as a statement about all solutions of `E`. -/
def Cond.Sem (E : Eqs) : Cond → Prop
  | .nonvar t => ∀ θ, Unifies θ E → isVar (t.subst θ) = false
  | .ground t => ∀ θ, Unifies θ E → (t.subst θ).vars = []
  | .and a b => Cond.Sem E a ∧ Cond.Sem E b
  | .or a b => Cond.Sem E a ∨ Cond.Sem E b

theorem unifies_mono {θ : String → Term} {E E' : Eqs} (h : ∀ p ∈ E, p ∈ E')
    (hθ : Unifies θ E') : Unifies θ E := fun p hp => hθ p (h p hp)

theorem Sat.mono {E E' : Eqs} (h : ∀ p ∈ E, p ∈ E') : Sat E' → Sat E
  | ⟨θ, hθ⟩ => ⟨θ, unifies_mono h hθ⟩

theorem Entails.mono {E E' : Eqs} {d : Term × Term} (h : ∀ p ∈ E, p ∈ E')
    (he : Entails E d) : Entails E' d := fun θ hθ => he θ (unifies_mono h hθ)

theorem Compat.mono {E E' : Eqs} {d : Term × Term} (h : ∀ p ∈ E, p ∈ E') :
    Compat E' d → Compat E d
  | ⟨θ, hθ, e⟩ => ⟨θ, unifies_mono h hθ, e⟩

/-- conditions are monotone: once true they stay true when more equations are posted. -/
theorem Cond.Sem.mono {E E' : Eqs} (h : ∀ p ∈ E, p ∈ E') : ∀ {c : Cond}, c.Sem E → c.Sem E'
  | .nonvar _, hc => fun θ hθ => hc θ (unifies_mono h hθ)
  | .ground _, hc => fun θ hθ => hc θ (unifies_mono h hθ)
  | .and _ _, hc => ⟨Cond.Sem.mono h hc.1, Cond.Sem.mono h hc.2⟩
  | .or _ _, hc => hc.elim (fun x => Or.inl (Cond.Sem.mono h x)) (fun x => Or.inr (Cond.Sem.mono h x))

theorem isMgu_nil : IsMgu [] [] :=
  ⟨unifies_nil _, fun _ _ _ => rfl⟩

theorem IsMgu.sat {σ : Subst} {E : Eqs} (h : IsMgu σ E) : Sat E := ⟨σ.toFun, h.unifies⟩

theorem IsMgu.eq_of_unifies {σ : Subst} {E : Eqs} (h : IsMgu σ E) {p : Term × Term}
    (hp : p ∈ E) : applyS σ p.1 = applyS σ p.2 := by
  rw [applyS_eq_subst, applyS_eq_subst]; exact h.unifies p hp

/-- a unifier of `E` that also unifies `s` and `t` unifies `sσ` and `tσ`. -/
theorem IsMgu.lift {σ : Subst} {E : Eqs} (h : IsMgu σ E) {θ : String → Term} (hθ : Unifies θ E)
    {s t : Term} (e : s.subst θ = t.subst θ) :
    Unifies θ [(applyS σ s, applyS σ t)] := by
  apply unifies_pair.mpr
  rw [h.absorbs θ hθ, h.absorbs θ hθ, e]

/-- extending the most general unifier by the unifier of the next equation. -/
theorem IsMgu.step {σ δ : Subst} {E : Eqs} {s t : Term} (h : IsMgu σ E)
    (hδ : unifyOC (applyS σ s) (applyS σ t) = some δ) : IsMgu (δ ++ σ) (E ++ [(s, t)]) := by
  have G := solve_nil_ok (unify_eq_some.mp hδ)
  refine ⟨?_, ?_⟩
  · intro p hp
    rw [← applyS_eq_subst, ← applyS_eq_subst, applyS_append, applyS_append]
    rcases List.mem_append.mp hp with hp | hp
    · rw [h.eq_of_unifies hp]
    · simp only [List.mem_singleton] at hp
      subst hp
      exact G.solves (applyS σ s, applyS σ t) (by simp)
  · intro θ hθ u
    have h1 := (unifies_append.mp hθ).1
    have h2 := unifies_pair.mp (unifies_append.mp hθ).2
    rw [applyS_append, G.mgu θ (h.lift h1 h2), h.absorbs θ h1]

/-- if the next equation is not unifiable under `σ`, the extended set has no solution. -/
theorem IsMgu.step_none {σ : Subst} {E : Eqs} {s t : Term} (h : IsMgu σ E)
    (hn : unifyOC (applyS σ s) (applyS σ t) = none) : ¬Sat (E ++ [(s, t)]) := by
  rintro ⟨θ, hθ⟩
  have h1 := (unifies_append.mp hθ).1
  have h2 := unifies_pair.mp (unifies_append.mp hθ).2
  exact solve_nil_fail (unify_eq_none.mp hn) θ (h.lift h1 h2)

/-- `dif` is violated under `σ` iff the equations entail the identity of its sides. -/
theorem IsMgu.identical_iff {σ : Subst} {E : Eqs} (h : IsMgu σ E) (d : Term × Term) :
    identical σ d = true ↔ Entails E d := by
  unfold identical
  rw [eqb_iff]
  constructor
  · intro e θ hθ
    rw [← h.absorbs θ hθ d.1, ← h.absorbs θ hθ d.2, e]
  · intro he
    rw [applyS_eq_subst, applyS_eq_subst]
    exact he _ h.unifies

/-- the sides of a `dif` are unifiable under `σ` iff the equations are compatible with their
    identity. -/
theorem IsMgu.unifiable_iff {σ : Subst} {E : Eqs} (h : IsMgu σ E) (d : Term × Term) :
    unifiable σ d = true ↔ Compat E d := by
  unfold unifiable
  constructor
  · intro hs
    obtain ⟨δ, hδ⟩ := Option.isSome_iff_exists.mp hs
    have hm := h.step (s := d.1) (t := d.2) hδ
    have hu := unifies_append.mp hm.unifies
    exact ⟨_, hu.1, unifies_pair.mp hu.2⟩
  · rintro ⟨θ, hθ, e⟩
    cases hu : unifyOC (applyS σ d.1) (applyS σ d.2) with
    | some δ => rfl
    | none => exact absurd (h.lift hθ e) (solve_nil_fail (unify_eq_none.mp hu) θ)

theorem isVar_subst_of_nonvar {u : Term} (θ : String → Term) (h : isVar u = false) :
    isVar (u.subst θ) = false := by
  cases u <;> simp_all [isVar]

theorem subst_of_ground {u : Term} (θ : String → Term) (h : u.vars = []) : u.subst θ = u := by
  conv => rhs; rw [← subst_id u]
  apply subst_congr
  intro x hx
  rw [h] at hx
  cases hx

/-- a condition holds under `σ` iff it holds in every solution of the equations. -/
theorem IsMgu.holds_iff {σ : Subst} {E : Eqs} (h : IsMgu σ E) :
    ∀ (c : Cond), c.holds σ = true ↔ c.Sem E
  | .nonvar t => by
      simp only [Cond.holds, Cond.Sem, Bool.not_eq_true']
      constructor
      · intro hv θ hθ
        rw [← h.absorbs θ hθ t]
        exact isVar_subst_of_nonvar θ hv
      · intro hs
        have := hs _ h.unifies
        rwa [← applyS_eq_subst] at this
  | .ground t => by
      simp only [Cond.holds, Cond.Sem, List.isEmpty_iff]
      constructor
      · intro hv θ hθ
        rw [← h.absorbs θ hθ t, subst_of_ground θ hv]
        exact hv
      · intro hs
        have := hs _ h.unifies
        rwa [← applyS_eq_subst] at this
  | .and a b => by
      simp only [Cond.holds, Cond.Sem, Bool.and_eq_true, h.holds_iff a, h.holds_iff b]
  | .or a b => by
      simp only [Cond.holds, Cond.Sem, Bool.or_eq_true, h.holds_iff a, h.holds_iff b]

theorem IsMgu.holds_false_iff {σ : Subst} {E : Eqs} (h : IsMgu σ E) (c : Cond) :
    c.holds σ = false ↔ ¬c.Sem E := by
  rw [← h.holds_iff c]; simp

/-! ### the invariant of the store -/

structure Inv (st : Store) : Prop where
  mgu : IsMgu st.σ st.eqs
  difs_iff : ∀ d, d ∈ st.difs ↔ d ∈ st.allDifs ∧ Compat st.eqs d
  notEntailed : ∀ d ∈ st.allDifs, ¬Entails st.eqs d
  waitingFalse : ∀ s ∈ st.susps, ¬s.cond.Sem st.eqs
  firedTrue : ∀ s ∈ st.fired, s.cond.Sem st.eqs

theorem inv_init : Inv Store.init where
  mgu := isMgu_nil
  difs_iff := by intro d; simp [Store.init]
  notEntailed := by intro d hd; simp [Store.init] at hd
  waitingFalse := by intro s hs; simp [Store.init] at hs
  firedTrue := by intro s hs; simp [Store.init] at hs

theorem mem_ready {σ : Subst} {l : List Susp} {s : Susp} :
    s ∈ ready σ l ↔ s ∈ l ∧ s.cond.holds σ = true := by
  simp [ready]

theorem mem_waiting {σ : Subst} {l : List Susp} {s : Susp} :
    s ∈ waiting σ l ↔ s ∈ l ∧ s.cond.holds σ = false := by
  simp [waiting]

theorem mem_readyOps {σ : Subst} {l : List Susp} {o : Op} :
    o ∈ readyOps σ l ↔ ∃ s, s ∈ ready σ l ∧ o ∈ bodyOps s := by
  simp [readyOps, List.mem_flatMap]

theorem subset_append_left {α} {l : List α} (x : List α) : ∀ p ∈ l, p ∈ l ++ x :=
  fun _ hp => List.mem_append_left _ hp

theorem inv_afterUnify {st : Store} {s t : Term} {δ : Subst} (hI : Inv st)
    (hδ : unifyOC (applyS st.σ s) (applyS st.σ t) = some δ)
    (hany : st.difs.any (identical (δ ++ st.σ)) = false) : Inv (afterUnify st s t δ) := by
  have hm : IsMgu (δ ++ st.σ) (st.eqs ++ [(s, t)]) := hI.mgu.step hδ
  have hsub : ∀ p ∈ st.eqs, p ∈ st.eqs ++ [(s, t)] := subset_append_left _
  refine ⟨hm, ?_, ?_, ?_, ?_⟩
  · intro d
    simp only [afterUnify, List.mem_filter, hm.unifiable_iff, hI.difs_iff]
    constructor
    · rintro ⟨⟨h1, _⟩, h3⟩; exact ⟨h1, h3⟩
    · rintro ⟨h1, h3⟩; exact ⟨⟨h1, h3.mono hsub⟩, h3⟩
  · intro d hd he
    simp only [afterUnify] at hd he
    by_cases hp : d ∈ st.difs
    · have : identical (δ ++ st.σ) d = true := (hm.identical_iff d).mpr he
      have h2 : st.difs.any (identical (δ ++ st.σ)) = true :=
        List.any_eq_true.mpr ⟨d, hp, this⟩
      rw [hany] at h2
      cases h2
    · apply hp
      rw [hI.difs_iff]
      obtain ⟨θ, hθ⟩ := hm.sat
      exact ⟨hd, θ, unifies_mono hsub hθ, he θ hθ⟩
  · intro sp hsp
    simp only [afterUnify] at hsp ⊢
    exact (hm.holds_false_iff _).mp (mem_waiting.mp hsp).2
  · intro sp hsp
    simp only [afterUnify, List.mem_append] at hsp ⊢
    rcases hsp with h | h
    · exact (hI.firedTrue sp h).mono hsub
    · exact (hm.holds_iff _).mp (mem_ready.mp h).2

theorem inv_afterDif {st : Store} {s t : Term} (hI : Inv st)
    (hid : identical st.σ (s, t) = false) : Inv (afterDif st s t) := by
  refine ⟨hI.mgu, ?_, ?_, hI.waitingFalse, hI.firedTrue⟩
  · intro d
    simp only [afterDif]
    cases hu : unifiable st.σ (s, t) with
    | true =>
      have hc := (hI.mgu.unifiable_iff (s, t)).mp hu
      simp only [if_true, List.mem_append, List.mem_singleton, hI.difs_iff]
      constructor
      · rintro (⟨h1, h2⟩ | rfl)
        · exact ⟨Or.inl h1, h2⟩
        · exact ⟨Or.inr rfl, hc⟩
      · rintro ⟨h1 | rfl, h2⟩
        · exact Or.inl ⟨h1, h2⟩
        · exact Or.inr rfl
    | false =>
      have hc : ¬Compat st.eqs (s, t) := fun c => by
        have := (hI.mgu.unifiable_iff (s, t)).mpr c
        rw [hu] at this; cases this
      simp only [Bool.false_eq_true, if_false, List.mem_append, List.mem_singleton, hI.difs_iff]
      constructor
      · rintro ⟨h1, h2⟩; exact ⟨Or.inl h1, h2⟩
      · rintro ⟨h1 | rfl, h2⟩
        · exact ⟨h1, h2⟩
        · exact absurd h2 hc
  · intro d hd he
    simp only [afterDif, List.mem_append, List.mem_singleton] at hd he
    rcases hd with hd | rfl
    · exact hI.notEntailed d hd he
    · have := (hI.mgu.identical_iff (s, t)).mpr he
      rw [hid] at this; cases this

theorem inv_fire {st : Store} {sp : Susp} (hI : Inv st) (h : sp.cond.holds st.σ = true) :
    Inv { st with fired := st.fired ++ [sp] } := by
  refine ⟨hI.mgu, hI.difs_iff, hI.notEntailed, hI.waitingFalse, ?_⟩
  intro s hs
  simp only [List.mem_append, List.mem_singleton] at hs
  rcases hs with hs | rfl
  · exact hI.firedTrue s hs
  · exact (hI.mgu.holds_iff _).mp h

theorem inv_suspend {st : Store} {sp : Susp} (hI : Inv st) (h : ¬sp.cond.holds st.σ = true) :
    Inv { st with susps := st.susps ++ [sp] } := by
  refine ⟨hI.mgu, hI.difs_iff, hI.notEntailed, ?_, hI.firedTrue⟩
  intro s hs
  simp only [List.mem_append, List.mem_singleton] at hs
  rcases hs with hs | rfl
  · exact hI.waitingFalse s hs
  · exact fun c => h ((hI.mgu.holds_iff _).mpr c)

/-! ### "everything in this store / agenda also belongs to the store `T`" -/

def OpIn (T : Store) : Op → Prop
  | .basic (.unify s t) => (s, t) ∈ T.eqs
  | .basic (.dif s t) => (s, t) ∈ T.allDifs
  | .susp sp => sp ∈ T.susps ∨ sp ∈ T.fired

def Below (ops : List Op) (T : Store) : Prop := ∀ o ∈ ops, OpIn T o

structure Le (st T : Store) : Prop where
  eqs : ∀ p ∈ st.eqs, p ∈ T.eqs
  allDifs : ∀ d ∈ st.allDifs, d ∈ T.allDifs
  fired : ∀ s ∈ st.fired, s ∈ T.fired
  susps : ∀ s ∈ st.susps, s ∈ T.susps ∨ s ∈ T.fired

theorem Le.refl (st : Store) : Le st st :=
  ⟨fun _ h => h, fun _ h => h, fun _ h => h, fun _ h => Or.inl h⟩

theorem Le.trans {a b c : Store} (h1 : Le a b) (h2 : Le b c) : Le a c :=
  ⟨fun p h => h2.eqs p (h1.eqs p h), fun p h => h2.allDifs p (h1.allDifs p h),
   fun p h => h2.fired p (h1.fired p h),
   fun p h => (h1.susps p h).elim (h2.susps p) (fun x => Or.inr (h2.fired p x))⟩

theorem OpIn.mono {a b : Store} (h : Le a b) : ∀ {o : Op}, OpIn a o → OpIn b o
  | .basic (.unify _ _), ho => h.eqs _ ho
  | .basic (.dif _ _), ho => h.allDifs _ ho
  | .susp _, ho => ho.elim (h.susps _) (fun x => Or.inr (h.fired _ x))

theorem Below.mono {a b : Store} {ops : List Op} (h : Le a b) (hb : Below ops a) : Below ops b :=
  fun o ho => (hb o ho).mono h

theorem Below.append {T : Store} {a b : List Op} (ha : Below a T) (hb : Below b T) :
    Below (a ++ b) T := fun o ho => (List.mem_append.mp ho).elim (ha o) (hb o)

theorem le_afterUnify (st : Store) (s t : Term) (δ : Subst) : Le st (afterUnify st s t δ) := by
  refine ⟨?_, ?_, ?_, ?_⟩
  · intro p hp; simp only [afterUnify]; exact List.mem_append_left _ hp
  · intro p hp; exact hp
  · intro p hp; simp only [afterUnify]; exact List.mem_append_left _ hp
  · intro p hp
    simp only [afterUnify]
    by_cases h : p.cond.holds (δ ++ st.σ) = true
    · exact Or.inr (List.mem_append_right _ (mem_ready.mpr ⟨hp, h⟩))
    · exact Or.inl (mem_waiting.mpr ⟨hp, by simpa using h⟩)

theorem le_afterDif (st : Store) (s t : Term) : Le st (afterDif st s t) :=
  ⟨fun _ h => h, fun _ h => List.mem_append_left _ h, fun _ h => h, fun _ h => Or.inl h⟩

/-- the suspension postings of an agenda. -/
def suspsOf : List Op → List Susp
  | [] => []
  | .susp s :: r => s :: suspsOf r
  | .basic _ :: r => suspsOf r

theorem suspsOf_append (a b : List Op) : suspsOf (a ++ b) = suspsOf a ++ suspsOf b := by
  induction a with
  | nil => rfl
  | cons o a ih => cases o <;> simp [suspsOf, ih]

theorem suspsOf_bodyOps (s : Susp) : suspsOf (bodyOps s) = [] := by
  unfold bodyOps
  induction s.body with
  | nil => rfl
  | cons b l ih => simp [suspsOf, ih]

theorem suspsOf_readyOps (σ : Subst) (l : List Susp) : suspsOf (readyOps σ l) = [] := by
  unfold readyOps
  induction ready σ l with
  | nil => rfl
  | cons s r ih => simp [List.flatMap_cons, suspsOf_append, suspsOf_bodyOps, ih]

theorem ready_waiting_perm (σ : Subst) (l : List Susp) : (ready σ l ++ waiting σ l).Perm l :=
  List.filter_append_perm _ l

/-! ### what a successful run establishes -/

/-- Post-conditions of `exec`: the invariant is kept, the result contains the start store and
    the whole agenda, every goal woken during the run has had its body executed, and every
    posted suspension is either still suspended or has been woken — exactly once. -/
theorem exec_post (ag : List Op) (st : Store) :
    ∀ st', exec ag st = some st' → Inv st →
      Inv st' ∧ Le st st' ∧ Below ag st' ∧
      (∀ s ∈ st'.fired, s ∈ st.fired ∨ Below (bodyOps s) st') ∧
      (st'.fired ++ st'.susps).Perm (st.fired ++ st.susps ++ suspsOf ag) := by
  induction ag, st using exec.induct with
  | case1 st =>
      intro st' h hI
      simp only [exec, Option.some.injEq] at h
      subst h
      refine ⟨hI, Le.refl _, ?_, fun s hs => Or.inl hs, by simp [suspsOf]⟩
      intro o ho; cases ho
  | case2 s t rest st hn =>
      intro st' h
      simp [exec, hn] at h
  | case3 s t rest st δ hδ hany =>
      intro st' h
      simp [exec, hδ, hany] at h
  | case4 s t rest st δ hδ hany ih =>
      intro st' h hI
      have hany' : st.difs.any (identical (δ ++ st.σ)) = false := by simpa using hany
      simp only [exec, hδ, hany', Bool.false_eq_true, if_false] at h
      have hI1 := inv_afterUnify hI hδ hany'
      obtain ⟨i1, i2, i3, i4, i5⟩ := ih st' h hI1
      have hle := (le_afterUnify st s t δ).trans i2
      refine ⟨i1, hle, ?_, ?_, ?_⟩
      · intro o ho
        rcases List.mem_cons.mp ho with rfl | ho
        · exact i2.eqs _ (by simp [afterUnify])
        · exact i3 o (List.mem_append_right _ ho)
      · intro sp hsp
        rcases i4 sp hsp with h1 | h1
        · simp only [afterUnify, List.mem_append] at h1
          rcases h1 with h1 | h1
          · exact Or.inl h1
          · right
            intro o ho
            exact i3 o (List.mem_append_left _ (mem_readyOps.mpr ⟨sp, h1, ho⟩))
        · exact Or.inr h1
      · refine i5.trans ?_
        simp only [afterUnify, suspsOf_append, suspsOf_readyOps, List.nil_append, suspsOf,
          List.append_assoc]
        exact List.Perm.append_left _ (by
          rw [← List.append_assoc]
          exact List.Perm.append_right _ (ready_waiting_perm _ _))
  | case5 s t rest st hid =>
      intro st' h
      simp [exec, hid] at h
  | case6 s t rest st hid ih =>
      intro st' h hI
      have hid' : identical st.σ (s, t) = false := by simpa using hid
      simp only [exec, hid', Bool.false_eq_true, if_false] at h
      obtain ⟨i1, i2, i3, i4, i5⟩ := ih st' h (inv_afterDif hI hid')
      refine ⟨i1, (le_afterDif st s t).trans i2, ?_, ?_, ?_⟩
      · intro o ho
        rcases List.mem_cons.mp ho with rfl | ho
        · exact i2.allDifs _ (by simp [afterDif])
        · exact i3 o ho
      · intro sp hsp
        exact i4 sp hsp
      · refine i5.trans ?_
        simp [afterDif, suspsOf]
  | case7 sp rest st hh ih =>
      intro st' h hI
      simp only [exec, hh, if_true] at h
      obtain ⟨i1, i2, i3, i4, i5⟩ := ih st' h (inv_fire hI hh)
      have hle : Le st { st with fired := st.fired ++ [sp] } :=
        ⟨fun _ h => h, fun _ h => h, fun _ h => List.mem_append_left _ h, fun _ h => Or.inl h⟩
      refine ⟨i1, hle.trans i2, ?_, ?_, ?_⟩
      · intro o ho
        rcases List.mem_cons.mp ho with rfl | ho
        · exact Or.inr (i2.fired _ (by simp))
        · exact i3 o (List.mem_append_right _ ho)
      · intro s hs
        rcases i4 s hs with h1 | h1
        · simp only [List.mem_append, List.mem_singleton] at h1
          rcases h1 with h1 | rfl
          · exact Or.inl h1
          · right
            intro o ho
            exact i3 o (List.mem_append_left _ ho)
        · exact Or.inr h1
      · refine i5.trans ?_
        simp only [suspsOf_append, suspsOf_bodyOps, List.nil_append, suspsOf, List.append_assoc]
        exact List.Perm.append_left _ (by
          simpa using (List.perm_middle (a := sp) (l₁ := st.susps) (l₂ := suspsOf rest)).symm)
  | case8 sp rest st hh ih =>
      intro st' h hI
      simp only [exec, hh, if_false] at h
      obtain ⟨i1, i2, i3, i4, i5⟩ := ih st' h (inv_suspend hI hh)
      have hle : Le st { st with susps := st.susps ++ [sp] } :=
        ⟨fun _ h => h, fun _ h => h, fun _ h => h, fun _ h => Or.inl (List.mem_append_left _ h)⟩
      refine ⟨i1, hle.trans i2, ?_, ?_, ?_⟩
      · intro o ho
        rcases List.mem_cons.mp ho with rfl | ho
        · exact i2.susps _ (by simp)
        · exact i3 o ho
      · intro s hs
        exact i4 s hs
      · refine i5.trans ?_
        simp [suspsOf, List.append_assoc]

/-! ### the simulation lemma -/

/-- a consistent, closed store: its equations are satisfiable, none of its disequations is
    violated, none of its suspended goals is ready, and the bodies of all woken goals are in. -/
structure Target (T : Store) : Prop where
  sat : Sat T.eqs
  notEntailed : ∀ d ∈ T.allDifs, ¬Entails T.eqs d
  closed : ∀ s ∈ T.susps, ¬s.cond.Sem T.eqs
  bodies : ∀ s ∈ T.fired, Below (bodyOps s) T

/-- Any run that only posts things belonging to a consistent closed store `T`, started below
    `T`, succeeds and ends below `T`. -/
theorem exec_below {T : Store} (hT : Target T) (ag : List Op) (st : Store) :
    Inv st → Le st T → Below ag T → ∃ st', exec ag st = some st' ∧ Le st' T := by
  induction ag, st using exec.induct with
  | case1 st =>
      intro _ hle _
      exact ⟨st, by simp [exec], hle⟩
  | case2 s t rest st hn =>
      intro hI hle hb
      exfalso
      have hin : (s, t) ∈ T.eqs := hb _ (List.mem_cons_self ..)
      apply hI.mgu.step_none hn
      apply hT.sat.mono
      intro p hp
      rcases List.mem_append.mp hp with hp | hp
      · exact hle.eqs p hp
      · simp only [List.mem_singleton] at hp; subst hp; exact hin
  | case3 s t rest st δ hδ hany =>
      intro hI hle hb
      exfalso
      have hin : (s, t) ∈ T.eqs := hb _ (List.mem_cons_self ..)
      have hsub : ∀ p ∈ st.eqs ++ [(s, t)], p ∈ T.eqs := by
        intro p hp
        rcases List.mem_append.mp hp with hp | hp
        · exact hle.eqs p hp
        · simp only [List.mem_singleton] at hp; subst hp; exact hin
      obtain ⟨d, hd, hid⟩ := List.any_eq_true.mp hany
      have he := ((hI.mgu.step hδ).identical_iff d).mp hid
      exact hT.notEntailed d (hle.allDifs d ((hI.difs_iff d).mp hd).1) (he.mono hsub)
  | case4 s t rest st δ hδ hany ih =>
      intro hI hle hb
      have hany' : st.difs.any (identical (δ ++ st.σ)) = false := by simpa using hany
      have hin : (s, t) ∈ T.eqs := hb _ (List.mem_cons_self ..)
      have hsub : ∀ p ∈ st.eqs ++ [(s, t)], p ∈ T.eqs := by
        intro p hp
        rcases List.mem_append.mp hp with hp | hp
        · exact hle.eqs p hp
        · simp only [List.mem_singleton] at hp; subst hp; exact hin
      have hm := hI.mgu.step hδ
      have hready : ∀ sp ∈ ready (δ ++ st.σ) st.susps, sp ∈ T.fired := by
        intro sp hsp
        obtain ⟨h1, h2⟩ := mem_ready.mp hsp
        have hs : sp.cond.Sem T.eqs := ((hm.holds_iff _).mp h2).mono hsub
        rcases hle.susps sp h1 with h | h
        · exact absurd hs (hT.closed sp h)
        · exact h
      have hle1 : Le (afterUnify st s t δ) T := by
        refine ⟨hsub, hle.allDifs, ?_, ?_⟩
        · intro sp hsp
          simp only [afterUnify, List.mem_append] at hsp
          exact hsp.elim (hle.fired sp) (hready sp)
        · intro sp hsp
          simp only [afterUnify] at hsp
          exact hle.susps sp (mem_waiting.mp hsp).1
      have hb1 : Below (readyOps (δ ++ st.σ) st.susps ++ rest) T := by
        apply Below.append
        · intro o ho
          obtain ⟨sp, hsp, ho⟩ := mem_readyOps.mp ho
          exact hT.bodies sp (hready sp hsp) o ho
        · intro o ho; exact hb o (List.mem_cons_of_mem _ ho)
      obtain ⟨st', h1, h2⟩ := ih (inv_afterUnify hI hδ hany') hle1 hb1
      exact ⟨st', by simp only [exec, hδ, hany', Bool.false_eq_true, if_false]; exact h1, h2⟩
  | case5 s t rest st hid =>
      intro hI hle hb
      exfalso
      have hin : (s, t) ∈ T.allDifs := hb _ (List.mem_cons_self ..)
      exact hT.notEntailed _ hin (((hI.mgu.identical_iff (s, t)).mp hid).mono hle.eqs)
  | case6 s t rest st hid ih =>
      intro hI hle hb
      have hid' : identical st.σ (s, t) = false := by simpa using hid
      have hin : (s, t) ∈ T.allDifs := hb _ (List.mem_cons_self ..)
      have hle1 : Le (afterDif st s t) T := by
        refine ⟨hle.eqs, ?_, hle.fired, hle.susps⟩
        intro d hd
        simp only [afterDif, List.mem_append, List.mem_singleton] at hd
        rcases hd with hd | rfl
        · exact hle.allDifs d hd
        · exact hin
      obtain ⟨st', h1, h2⟩ := ih (inv_afterDif hI hid') hle1
        (fun o ho => hb o (List.mem_cons_of_mem _ ho))
      exact ⟨st', by simp only [exec, hid', Bool.false_eq_true, if_false]; exact h1, h2⟩
  | case7 sp rest st hh ih =>
      intro hI hle hb
      have hin : sp ∈ T.susps ∨ sp ∈ T.fired := hb _ (List.mem_cons_self ..)
      have hs : sp.cond.Sem T.eqs := ((hI.mgu.holds_iff _).mp hh).mono hle.eqs
      have hf : sp ∈ T.fired := hin.elim (fun h => absurd hs (hT.closed sp h)) id
      have hle1 : Le { st with fired := st.fired ++ [sp] } T := by
        refine ⟨hle.eqs, hle.allDifs, ?_, hle.susps⟩
        intro s hs
        simp only [List.mem_append, List.mem_singleton] at hs
        rcases hs with hs | rfl
        · exact hle.fired s hs
        · exact hf
      obtain ⟨st', h1, h2⟩ := ih (inv_fire hI hh) hle1
        (Below.append (hT.bodies sp hf) (fun o ho => hb o (List.mem_cons_of_mem _ ho)))
      exact ⟨st', by simp only [exec, hh, if_true]; exact h1, h2⟩
  | case8 sp rest st hh ih =>
      intro hI hle hb
      have hin : sp ∈ T.susps ∨ sp ∈ T.fired := hb _ (List.mem_cons_self ..)
      have hle1 : Le { st with susps := st.susps ++ [sp] } T := by
        refine ⟨hle.eqs, hle.allDifs, hle.fired, ?_⟩
        intro s hs
        simp only [List.mem_append, List.mem_singleton] at hs
        rcases hs with hs | rfl
        · exact hle.susps s hs
        · exact hin
      obtain ⟨st', h1, h2⟩ := ih (inv_suspend hI hh) hle1
        (fun o ho => hb o (List.mem_cons_of_mem _ ho))
      exact ⟨st', by simp only [exec, hh, if_false]; exact h1, h2⟩

/-! ### whole histories -/

theorem le_init (T : Store) : Le Store.init T := by
  refine ⟨?_, ?_, ?_, ?_⟩ <;> intro p hp <;> simp [Store.init] at hp

/-- the end store of a successful history is consistent and closed and contains the history. -/
theorem run_target {q : List Op} {b : Store} (h : run q = some b) :
    Inv b ∧ Target b ∧ Below q b ∧ (b.fired ++ b.susps).Perm (suspsOf q) := by
  obtain ⟨i1, _, i3, i4, i5⟩ := exec_post q Store.init b h inv_init
  refine ⟨i1, ⟨i1.mgu.sat, i1.notEntailed, i1.waitingFalse, ?_⟩, i3, by simpa [Store.init] using i5⟩
  intro s hs
  rcases i4 s hs with h1 | h1
  · simp [Store.init] at h1
  · exact h1

/-- if a history `q` succeeds, every history made of postings of `q` succeeds, with a result
    below that of `q`. -/
theorem run_below {p q : List Op} {b : Store} (hpq : ∀ o ∈ p, o ∈ q) (h : run q = some b) :
    ∃ a, run p = some a ∧ Le a b := by
  obtain ⟨_, hT, hb, _⟩ := run_target h
  exact exec_below hT p Store.init inv_init (le_init b) (fun o ho => hb o (hpq o ho))

/-- two stores that are below each other have the same logical content. -/
theorem same_content {a b : Store} (ha : Inv a) (hb : Inv b) (hab : Le a b) (hba : Le b a) :
    (∀ θ, Unifies θ a.eqs ↔ Unifies θ b.eqs) ∧
    (∀ c : Cond, c.holds a.σ = c.holds b.σ) ∧
    (∀ d, d ∈ a.difs ↔ d ∈ b.difs) ∧
    (∀ s, s ∈ a.susps ↔ s ∈ b.susps) ∧
    (∀ s, s ∈ a.fired ↔ s ∈ b.fired) := by
  have hu : ∀ θ, Unifies θ a.eqs ↔ Unifies θ b.eqs :=
    fun θ => ⟨unifies_mono hba.eqs, unifies_mono hab.eqs⟩
  have hc : ∀ c : Cond, c.holds a.σ = c.holds b.σ := by
    intro c
    have h1 := ha.mgu.holds_iff c
    have h2 := hb.mgu.holds_iff c
    have h3 : c.Sem a.eqs ↔ c.Sem b.eqs := ⟨Cond.Sem.mono hab.eqs, Cond.Sem.mono hba.eqs⟩
    cases hx : c.holds a.σ <;> cases hy : c.holds b.σ <;> simp_all
  refine ⟨hu, hc, ?_, ?_, ?_⟩
  · intro d
    rw [ha.difs_iff, hb.difs_iff]
    constructor
    · rintro ⟨h1, h2⟩; exact ⟨hab.allDifs d h1, h2.mono hba.eqs⟩
    · rintro ⟨h1, h2⟩; exact ⟨hba.allDifs d h1, h2.mono hab.eqs⟩
  · intro s
    constructor
    · intro h
      rcases hab.susps s h with h1 | h1
      · exact h1
      · exact absurd ((hb.firedTrue s h1).mono hba.eqs) (ha.waitingFalse s h)
    · intro h
      rcases hba.susps s h with h1 | h1
      · exact h1
      · exact absurd ((ha.firedTrue s h1).mono hab.eqs) (hb.waitingFalse s h)
  · intro s; exact ⟨hab.fired s, hba.fired s⟩

theorem suspsOf_perm {p q : List Op} (h : p.Perm q) : (suspsOf p).Perm (suspsOf q) := by
  induction h with
  | nil => exact List.Perm.refl _
  | cons x _ ih => cases x <;> simp [suspsOf, ih]
  | swap x y l =>
      cases x <;> cases y <;> simp [suspsOf]
      exact List.Perm.swap ..
  | trans _ _ ih1 ih2 => exact ih1.trans ih2

/-- in the end store the woken goals are exactly the posted suspensions whose condition holds,
    each as often as it was posted; the others are still suspended. -/
theorem fired_perm_filter {q : List Op} {b : Store} (h : run q = some b) :
    b.fired.Perm ((suspsOf q).filter fun s => s.cond.holds b.σ) ∧
    b.susps.Perm ((suspsOf q).filter fun s => !s.cond.holds b.σ) := by
  obtain ⟨hI, _, _, hp⟩ := run_target h
  have hf : ∀ s ∈ b.fired, s.cond.holds b.σ = true :=
    fun s hs => (hI.mgu.holds_iff _).mpr (hI.firedTrue s hs)
  have hw : ∀ s ∈ b.susps, s.cond.holds b.σ = false :=
    fun s hs => (hI.mgu.holds_false_iff _).mpr (hI.waitingFalse s hs)
  constructor
  · have := hp.filter (fun s => s.cond.holds b.σ)
    rw [List.filter_append, List.filter_eq_self.mpr hf,
      List.filter_eq_nil_iff.mpr (fun s hs => by simp [hw s hs]), List.append_nil] at this
    exact this
  · have := hp.filter (fun s => !s.cond.holds b.σ)
    rw [List.filter_append, List.filter_eq_nil_iff.mpr (fun s hs => by simp [hf s hs]),
      List.filter_eq_self.mpr (fun s hs => by simp [hw s hs]), List.nil_append] at this
    exact this

/-- running a history in two parts. -/
theorem exec_append (a b : List Op) (st : Store) :
    exec (a ++ b) st = (exec a st).bind (exec b) := by
  induction a, st using exec.induct with
  | case1 st => simp [exec]
  | case2 s t rest st hn => simp [exec, hn]
  | case3 s t rest st δ hδ hany => simp [exec, hδ, hany]
  | case4 s t rest st δ hδ hany ih =>
      have hany' : st.difs.any (identical (δ ++ st.σ)) = false := by simpa using hany
      simp only [List.cons_append, exec, hδ, hany', Bool.false_eq_true, if_false]
      rw [← ih, List.append_assoc]
  | case5 s t rest st hid => simp [exec, hid]
  | case6 s t rest st hid ih =>
      have hid' : identical st.σ (s, t) = false := by simpa using hid
      simp only [List.cons_append, exec, hid', Bool.false_eq_true, if_false]
      exact ih
  | case7 sp rest st hh ih =>
      simp only [List.cons_append, exec, hh, if_true]
      rw [← ih, List.append_assoc]
  | case8 sp rest st hh ih =>
      simp only [List.cons_append, exec, hh, if_false]
      exact ih

/-! ### histories without suspended goals -/

/-- equations and disequations of a history. -/
def eqsOf : List Op → Eqs
  | [] => []
  | .basic (.unify s t) :: r => (s, t) :: eqsOf r
  | _ :: r => eqsOf r
def difsOf : List Op → List (Term × Term)
  | [] => []
  | .basic (.dif s t) :: r => (s, t) :: difsOf r
  | _ :: r => difsOf r
/-- the history contains no freeze/when posting. -/
def noSusp : List Op → Prop
  | [] => True
  | .susp _ :: _ => False
  | .basic _ :: r => noSusp r

theorem below_of_basic {ops : List Op} (hn : noSusp ops) (T : Store)
    (h1 : ∀ p ∈ eqsOf ops, p ∈ T.eqs) (h2 : ∀ d ∈ difsOf ops, d ∈ T.allDifs) : Below ops T := by
  induction ops with
  | nil => intro o ho; cases ho
  | cons o r ih =>
      cases o with
      | susp s => exact hn.elim
      | basic b =>
          cases b with
          | unify s t =>
              have ih' := ih hn (fun p hp => h1 p (by simp [eqsOf, hp]))
                (fun d hd => h2 d (by simpa [difsOf] using hd))
              intro o' ho'
              rcases List.mem_cons.mp ho' with rfl | hr
              · exact h1 _ (by simp [eqsOf])
              · exact ih' o' hr
          | dif s t =>
              have ih' := ih hn (fun p hp => h1 p (by simpa [eqsOf] using hp))
                (fun d hd => h2 d (by simp [difsOf, hd]))
              intro o' ho'
              rcases List.mem_cons.mp ho' with rfl | hr
              · exact h2 _ (by simp [difsOf])
              · exact ih' o' hr

theorem mem_of_below {ops : List Op} {T : Store} (hb : Below ops T) :
    (∀ p ∈ eqsOf ops, p ∈ T.eqs) ∧ (∀ d ∈ difsOf ops, d ∈ T.allDifs) := by
  induction ops with
  | nil => simp [eqsOf, difsOf]
  | cons o r ih =>
      have ih' := ih (fun o' ho' => hb o' (List.mem_cons_of_mem _ ho'))
      have ho := hb o (List.mem_cons_self ..)
      cases o with
      | susp s => simpa [eqsOf, difsOf] using ih'
      | basic b =>
          cases b with
          | unify s t =>
              refine ⟨?_, by simpa [difsOf] using ih'.2⟩
              intro p hp
              simp only [eqsOf, List.mem_cons] at hp
              rcases hp with rfl | hp
              · exact ho
              · exact ih'.1 p hp
          | dif s t =>
              refine ⟨by simpa [eqsOf] using ih'.1, ?_⟩
              intro p hp
              simp only [difsOf, List.mem_cons] at hp
              rcases hp with rfl | hp
              · exact ho
              · exact ih'.2 p hp

/-! ### independence of disequations (infinitely many function symbols) -/

mutual
/-- the names of the compound-term functors occurring in a term. -/
def funs : Term → List String
  | .str f args => f :: funsL args
  | _ => []
def funsL : List Term → List String
  | [] => []
  | t :: ts => funs t ++ funsL ts
end

theorem mem_funsL {g : String} : ∀ {ts : List Term}, g ∈ funsL ts ↔ ∃ t ∈ ts, g ∈ funs t
  | [] => by simp [funsL]
  | t :: ts => by simp [funsL, mem_funsL (ts := ts)]

/-- a string that is longer than every string of the list. -/
def freshName : List String → String
  | [] => "x"
  | s :: r => s ++ freshName r

theorem freshName_pos : ∀ (l : List String), 0 < (freshName l).length
  | [] => by decide
  | s :: r => by
      have := freshName_pos r
      simp only [freshName, String.length_append]; omega

theorem length_lt_freshName : ∀ {l : List String} {s : String}, s ∈ l →
    s.length < (freshName l).length
  | a :: r, s, h => by
      simp only [freshName, String.length_append]
      rcases List.mem_cons.mp h with rfl | h
      · have := freshName_pos r; omega
      · have := length_lt_freshName h; omega

theorem freshName_not_mem (l : List String) : freshName l ∉ l :=
  fun h => Nat.lt_irrefl _ (length_lt_freshName h)

/-- the grounding substitution `x ↦ g(x)` (`x` as an atom) for a functor name `g`. -/
def tag (g : String) : String → Term := fun x => .str g [.atom x]

theorem map_tag_inj {g : String} : ∀ (as bs : List Term),
    (∀ a ∈ as, ∀ t, g ∉ funs a → g ∉ funs t → a.subst (tag g) = t.subst (tag g) → a = t) →
    (∀ a ∈ as, g ∉ funs a) → (∀ b ∈ bs, g ∉ funs b) →
    as.map (subst (tag g)) = bs.map (subst (tag g)) → as = bs
  | [], [], _, _, _, _ => rfl
  | [], _ :: _, _, _, _, h => by simp at h
  | _ :: _, [], _, _, _, h => by simp at h
  | a :: as, b :: bs, ih, ha, hb, h => by
      simp only [List.map_cons, List.cons.injEq] at h
      have e1 := ih a (by simp) b (ha a (by simp)) (hb b (by simp)) h.1
      have e2 := map_tag_inj as bs (fun x hx => ih x (List.mem_cons_of_mem _ hx))
        (fun x hx => ha x (List.mem_cons_of_mem _ hx))
        (fun x hx => hb x (List.mem_cons_of_mem _ hx)) h.2
      rw [e1, e2]

/-- instantiating every variable by a term with a functor that occurs in neither term keeps
    different terms different. -/
theorem tag_inj {g : String} (s : Term) : ∀ t, g ∉ funs s → g ∉ funs t →
    s.subst (tag g) = t.subst (tag g) → s = t := by
  induction s using induct' with
  | hvar x =>
      intro t _ ht h
      cases t with
      | var y => simp [tag] at h; rw [h]
      | str k bs => simp [tag] at h; exact absurd (by simp [funs, h.1]) ht
      | _ => simp [tag] at h
  | hstr k as ih =>
      intro t hs ht h
      cases t with
      | var y => simp [tag] at h; exact absurd (by simp [funs, h.1]) hs
      | str k' bs =>
          simp only [subst_str, Term.str.injEq] at h
          have hs' : ∀ a ∈ as, g ∉ funs a := fun a ha hg =>
            hs (by simp only [funs, List.mem_cons]; exact Or.inr (mem_funsL.mpr ⟨a, ha, hg⟩))
          have ht' : ∀ b ∈ bs, g ∉ funs b := fun b hb hg =>
            ht (by simp only [funs, List.mem_cons]; exact Or.inr (mem_funsL.mpr ⟨b, hb, hg⟩))
          rw [h.1, map_tag_inj as bs ih hs' ht' h.2]
      | _ => simp at h
  | hint v => intro t _ _ h; cases t <;> simp_all [tag]
  | hrat n d => intro t _ _ h; cases t <;> simp_all [tag]
  | hflt b => intro t _ _ h; cases t <;> simp_all [tag]
  | hatom a => intro t _ _ h; cases t <;> simp_all [tag]

/-- INDEPENDENCE: if the equations are satisfiable and entail none of the (finitely many)
    identities `d ∈ D`, one solution falsifies all of them at once. -/
theorem independent {σ : Subst} {E : Eqs} (h : IsMgu σ E) (D : List (Term × Term))
    (hD : ∀ d ∈ D, ¬Entails E d) :
    ∃ θ, Unifies θ E ∧ ∀ d ∈ D, d.1.subst θ ≠ d.2.subst θ := by
  let names := D.flatMap fun d => funs (applyS σ d.1) ++ funs (applyS σ d.2)
  let g := freshName names
  have hg : ∀ d ∈ D, g ∉ funs (applyS σ d.1) ∧ g ∉ funs (applyS σ d.2) := by
    intro d hd
    have hn := freshName_not_mem names
    constructor
    · intro hm; exact hn (List.mem_flatMap.mpr ⟨d, hd, List.mem_append_left _ hm⟩)
    · intro hm; exact hn (List.mem_flatMap.mpr ⟨d, hd, List.mem_append_right _ hm⟩)
  refine ⟨fun x => (σ.toFun x).subst (tag g), ?_, ?_⟩
  · intro p hp
    rw [← subst_subst, ← subst_subst, h.unifies p hp]
  · intro d hd e
    rw [← subst_subst, ← subst_subst, ← applyS_eq_subst, ← applyS_eq_subst] at e
    have := tag_inj _ _ (hg d hd).1 (hg d hd).2 e
    exact hD d hd ((h.identical_iff d).mp ((eqb_iff _ _).mpr this))

/-- every satisfiable set of equations has a most general unifier (the one `unify` computes). -/
theorem exists_mgu {E : Eqs} (h : Sat E) : ∃ σ, IsMgu σ E := by
  cases hu : unify E [] with
  | some σ =>
      have G := solve_nil_ok (unify_eq_some.mp hu)
      exact ⟨σ, G.unifies, G.mgu⟩
  | none =>
      obtain ⟨θ, hθ⟩ := h
      exact absurd hθ (solve_nil_fail (unify_eq_none.mp hu) θ)

end Coroutine
end Scryer
