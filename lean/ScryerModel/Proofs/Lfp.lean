import ScryerModel.Model.Lfp
import Mathlib.Data.List.Perm.Subperm
import Mathlib.Data.List.Nodup
/-!
Lemmas about `Model/Lfp.lean` (C38 part B): characterisation of the immediate consequence
operator by ground rule instances, monotonicity, the ascending Kleene chain, termination within
`|base|` rounds, least model, invariance under clause / literal order.
-/
namespace Scryer.Lfp

/-! ### dedup -/

theorem mem_dedup {α : Type} [DecidableEq α] {a : α} : ∀ {l : List α}, a ∈ dedup l ↔ a ∈ l
  | [] => by simp [dedup]
  | b :: l => by
      unfold dedup
      by_cases h : b ∈ l
      · simp only [h, if_true, List.mem_cons]
        rw [mem_dedup]
        constructor
        · exact Or.inr
        · rintro (rfl | h') <;> assumption
      · simp only [h, if_false, List.mem_cons]
        rw [mem_dedup]

theorem nodup_dedup {α : Type} [DecidableEq α] : ∀ (l : List α), (dedup l).Nodup
  | [] => by simp [dedup]
  | b :: l => by
      unfold dedup
      by_cases h : b ∈ l
      · simp only [h, if_true]; exact nodup_dedup l
      · simp only [h, if_false]
        exact List.nodup_cons.mpr ⟨fun h' => h (mem_dedup.mp h'), nodup_dedup l⟩

/-! ### instances depend only on the variables that occur -/

theorem Arg.inst_congr {σ τ : Nat → Nat} {a : Arg} (h : ∀ v ∈ a.vars, σ v = τ v) :
    a.inst σ = a.inst τ := by
  cases a with
  | const c => rfl
  | var v => exact h v (by simp [Arg.vars])

theorem Atom.inst_congr {σ τ : Nat → Nat} {a : Atom} (h : ∀ v ∈ a.vars, σ v = τ v) :
    a.inst σ = a.inst τ := by
  unfold Atom.inst
  congr 1
  apply List.map_congr_left
  intro x hx
  apply Arg.inst_congr
  intro v hv
  exact h v (by unfold Atom.vars; exact List.mem_flatMap.mpr ⟨x, hx, hv⟩)

theorem Rule.mem_vars {r : Rule} {v : Nat} :
    v ∈ r.vars ↔ v ∈ r.head.vars ∨ ∃ b ∈ r.body, v ∈ b.vars := by
  simp [Rule.vars, List.mem_flatMap]

/-! ### assignments -/

theorem look_map_self (σ : Nat → Nat) : ∀ (vs : List Nat) (v : Nat), v ∈ vs →
    look (vs.map fun w => (w, σ w)) v = some (σ v)
  | [], _, h => by simp at h
  | w :: vs, v, h => by
      simp only [List.map_cons, look]
      by_cases hw : w = v
      · simp [hw]
      · simp only [hw, if_false]
        rcases List.mem_cons.mp h with h' | h'
        · exact absurd h'.symm hw
        · exact look_map_self σ vs v h'

theorem val_map_self (σ : Nat → Nat) (vs : List Nat) (v : Nat) (h : v ∈ vs) :
    val (vs.map fun w => (w, σ w)) v = σ v := by
  simp [val, look_map_self σ vs v h]

theorem map_self_mem_assigns {D : List Nat} (σ : Nat → Nat) :
    ∀ (vs : List Nat), (∀ v ∈ vs, σ v ∈ D) → (vs.map fun w => (w, σ w)) ∈ assigns D vs
  | [], _ => by simp [assigns]
  | w :: vs, h => by
      simp only [assigns, List.map_cons, List.mem_flatMap, List.mem_map]
      refine ⟨σ w, h w (by simp), vs.map fun w => (w, σ w), ?_, rfl⟩
      exact map_self_mem_assigns σ vs (fun v hv => h v (List.mem_cons_of_mem _ hv))

theorem look_mem_of_assigns {D : List Nat} : ∀ {vs : List Nat} {l : Asg}, l ∈ assigns D vs →
    ∀ v ∈ vs, ∃ d ∈ D, look l v = some d
  | [], _, _, v, hv => by simp at hv
  | w :: vs, l, hl, v, hv => by
      simp only [assigns, List.mem_flatMap, List.mem_map] at hl
      obtain ⟨d, hd, l', hl', rfl⟩ := hl
      simp only [look]
      by_cases hw : w = v
      · exact ⟨d, hd, by simp [hw]⟩
      · simp only [hw, if_false]
        rcases List.mem_cons.mp hv with h' | h'
        · exact absurd h'.symm hw
        · exact look_mem_of_assigns hl' v h'

theorem val_mem_of_assigns {D : List Nat} {vs : List Nat} {l : Asg} (hl : l ∈ assigns D vs)
    {v : Nat} (hv : v ∈ vs) : val l v ∈ D := by
  obtain ⟨d, hd, h⟩ := look_mem_of_assigns hl v hv
  simp [val, h, hd]

theorem assigns_keys {D : List Nat} : ∀ {vs : List Nat} {l : Asg}, l ∈ assigns D vs →
    l.map Prod.fst = vs
  | [], l, hl => by simp [assigns] at hl; simp [hl]
  | w :: vs, l, hl => by
      simp only [assigns, List.mem_flatMap, List.mem_map] at hl
      obtain ⟨d, _, l', hl', rfl⟩ := hl
      simp [assigns_keys hl']

theorem nodup_assigns {D : List Nat} (hD : D.Nodup) : ∀ (vs : List Nat), (assigns D vs).Nodup
  | [] => by simp [assigns]
  | w :: vs => by
      simp only [assigns]
      rw [List.nodup_flatMap]
      refine ⟨fun d _ => ?_, ?_⟩
      · exact (nodup_assigns hD vs).map (fun a b h => by simpa using h)
      · refine List.Pairwise.imp ?_ hD
        intro a b hab
        simp only [Function.onFun, List.disjoint_left, List.mem_map]
        rintro x ⟨l1, _, rfl⟩ ⟨l2, _, h2⟩
        simp at h2
        exact hab h2.1.symm

/-! ### the immediate consequence operator: semantic characterisation -/

/-- `a` is the head of a ground instance (over `D`) of a rule of `P` whose body holds in `I`. -/
def Derives (P : Program) (D : List Nat) (I : Interp) (a : GAtom) : Prop :=
  ∃ r ∈ P, ∃ σ : Nat → Nat, (∀ v ∈ r.vars, σ v ∈ D) ∧ r.head.inst σ = a ∧
    ∀ b ∈ r.body, b.inst σ ∈ I

theorem mem_fire {D : List Nat} {I : Interp} {r : Rule} {a : GAtom} :
    a ∈ fire D I r ↔ ∃ σ : Nat → Nat, (∀ v ∈ r.vars, σ v ∈ D) ∧ r.head.inst σ = a ∧
      ∀ b ∈ r.body, b.inst σ ∈ I := by
  unfold fire
  simp only [List.mem_filterMap]
  constructor
  · rintro ⟨l, hl, h⟩
    split at h
    · rename_i hb
      simp only [Option.some.injEq] at h
      refine ⟨val l, fun v hv => val_mem_of_assigns hl (mem_dedup.mpr hv), h, ?_⟩
      intro b hb'
      have := List.all_eq_true.mp hb b hb'
      simpa using this
    · simp at h
  · rintro ⟨σ, hσ, hh, hb⟩
    refine ⟨(dedup r.vars).map fun w => (w, σ w), map_self_mem_assigns σ _ ?_, ?_⟩
    · exact fun v hv => hσ v (mem_dedup.mp hv)
    · have agree : ∀ v ∈ r.vars, val ((dedup r.vars).map fun w => (w, σ w)) v = σ v :=
        fun v hv => val_map_self σ _ v (mem_dedup.mpr hv)
      have hbody : (r.body.all fun b =>
          decide (b.inst (val ((dedup r.vars).map fun w => (w, σ w))) ∈ I)) = true := by
        rw [List.all_eq_true]
        intro b hb'
        have e : b.inst (val ((dedup r.vars).map fun w => (w, σ w))) = b.inst σ :=
          Atom.inst_congr fun v hv => agree v (Rule.mem_vars.mpr (Or.inr ⟨b, hb', hv⟩))
        simpa [e] using hb b hb'
      rw [if_pos hbody]
      have e : r.head.inst (val ((dedup r.vars).map fun w => (w, σ w))) = r.head.inst σ :=
        Atom.inst_congr fun v hv => agree v (Rule.mem_vars.mpr (Or.inl hv))
      rw [e, hh]

theorem mem_step {P : Program} {D : List Nat} {I : Interp} {a : GAtom} :
    a ∈ step P D I ↔ Derives P D I a := by
  unfold step Derives
  simp only [List.mem_flatMap, mem_fire]

theorem mem_tp {P : Program} {D : List Nat} {I : Interp} {a : GAtom} :
    a ∈ tp P D I ↔ Derives P D I a := by
  unfold tp; rw [mem_dedup, mem_step]

theorem Derives.mono {P : Program} {D : List Nat} {I J : Interp} (h : I ⊆ J) {a : GAtom}
    (ha : Derives P D I a) : Derives P D J a := by
  obtain ⟨r, hr, σ, hσ, hh, hb⟩ := ha
  exact ⟨r, hr, σ, hσ, hh, fun b hb' => h (hb b hb')⟩

theorem tp_mono {P : Program} {D : List Nat} {I J : Interp} (h : I ⊆ J) : tp P D I ⊆ tp P D J :=
  fun _ ha => mem_tp.mpr (Derives.mono h (mem_tp.mp ha))

theorem mem_base {P : Program} {D : List Nat} {a : GAtom} :
    a ∈ base P D ↔ ∃ r ∈ P, ∃ σ : Nat → Nat, (∀ v ∈ r.vars, σ v ∈ D) ∧ r.head.inst σ = a := by
  unfold base
  rw [mem_dedup]
  simp only [List.mem_flatMap, List.mem_map]
  constructor
  · rintro ⟨r, hr, l, hl, rfl⟩
    exact ⟨r, hr, val l, fun v hv => val_mem_of_assigns hl (mem_dedup.mpr hv), rfl⟩
  · rintro ⟨r, hr, σ, hσ, rfl⟩
    refine ⟨r, hr, (dedup r.vars).map fun w => (w, σ w),
      map_self_mem_assigns σ _ (fun v hv => hσ v (mem_dedup.mp hv)), ?_⟩
    exact Atom.inst_congr fun v hv =>
      val_map_self σ _ v (mem_dedup.mpr (Rule.mem_vars.mpr (Or.inl hv)))

theorem tp_subset_base (P : Program) (D : List Nat) (I : Interp) : tp P D I ⊆ base P D := by
  intro a ha
  obtain ⟨r, hr, σ, hσ, hh, _⟩ := mem_tp.mp ha
  exact mem_base.mpr ⟨r, hr, σ, hσ, hh⟩

/-! ### the Kleene chain -/

theorem iter_subset_succ (P : Program) (D : List Nat) : ∀ n, iter P D n ⊆ iter P D (n+1)
  | 0 => by simp [iter]
  | n+1 => by
      show tp P D (iter P D n) ⊆ tp P D (iter P D (n+1))
      exact tp_mono (iter_subset_succ P D n)

theorem iter_mono (P : Program) (D : List Nat) {m n : Nat} (h : m ≤ n) :
    iter P D m ⊆ iter P D n := by
  induction h with
  | refl => exact List.Subset.refl _
  | step _ ih => exact List.Subset.trans ih (iter_subset_succ P D _)

theorem iter_nodup (P : Program) (D : List Nat) : ∀ n, (iter P D n).Nodup
  | 0 => by simp [iter]
  | _+1 => nodup_dedup _

theorem iter_subset_base (P : Program) (D : List Nat) : ∀ n, iter P D n ⊆ base P D
  | 0 => by simp [iter]
  | n+1 => tp_subset_base P D (iter P D n)

/-- nothing new is derived in round `n+1` -/
def Stable (P : Program) (D : List Nat) (n : Nat) : Prop := iter P D (n+1) ⊆ iter P D n

theorem Stable.succ {P : Program} {D : List Nat} {n : Nat} (h : Stable P D n) :
    Stable P D (n+1) := by
  show tp P D (iter P D (n+1)) ⊆ tp P D (iter P D n)
  exact tp_mono h

theorem Stable.of_le {P : Program} {D : List Nat} {m n : Nat} (h : Stable P D m) (hmn : m ≤ n) :
    Stable P D n := by
  induction hmn with
  | refl => exact h
  | step _ ih => exact ih.succ

theorem Stable.iter_eq {P : Program} {D : List Nat} {m n : Nat} (h : Stable P D m) (hmn : m ≤ n) :
    iter P D n ⊆ iter P D m := by
  induction hmn with
  | refl => exact List.Subset.refl _
  | step hle ih => exact List.Subset.trans (h.of_le hle) ih

theorem length_lt_of_strict {l₁ l₂ : List GAtom} (hn : l₁.Nodup) (hs : l₁ ⊆ l₂) {a : GAtom}
    (ha : a ∈ l₂) (hna : a ∉ l₁) : l₁.length < l₂.length := by
  have hn' : (a :: l₁).Nodup := List.nodup_cons.mpr ⟨hna, hn⟩
  have hs' : (a :: l₁) ⊆ l₂ := List.cons_subset.mpr ⟨ha, hs⟩
  have := (List.subperm_of_subset hn' hs').length_le
  simp only [List.length_cons] at this
  omega

/-- as long as no round is stable the chain grows by at least one atom per round -/
theorem length_ge_of_unstable (P : Program) (D : List Nat) :
    ∀ n, (∀ k < n, ¬ Stable P D k) → n ≤ (iter P D n).length
  | 0, _ => Nat.zero_le _
  | n+1, h => by
      have ih := length_ge_of_unstable P D n (fun k hk => h k (Nat.lt_succ_of_lt hk))
      have hns : ¬ Stable P D n := h n (Nat.lt_succ_self n)
      have : ∃ a ∈ iter P D (n+1), a ∉ iter P D n := by
        by_contra hc
        push Not at hc
        exact hns hc
      obtain ⟨a, ha, hna⟩ := this
      have := length_lt_of_strict (iter_nodup P D n) (iter_subset_succ P D n) ha hna
      omega

/-- the chain is stable after at most `|base|` rounds -/
theorem exists_stable (P : Program) (D : List Nat) : ∃ k ≤ (base P D).length, Stable P D k := by
  by_contra hc
  push Not at hc
  have h1 := length_ge_of_unstable P D ((base P D).length + 1)
    (fun k hk => hc k (Nat.lt_succ_iff.mp hk))
  have h2 : (iter P D ((base P D).length + 1)).length ≤ (base P D).length :=
    (List.subperm_of_subset (iter_nodup P D _) (iter_subset_base P D _)).length_le
  omega

theorem stable_base (P : Program) (D : List Nat) : Stable P D (base P D).length := by
  obtain ⟨k, hk, hs⟩ := exists_stable P D
  exact hs.of_le hk

/-! ### the early-exit iteration computes a stable element of the chain -/

theorem all_mem_iff {I J : Interp} : (J.all fun a => decide (a ∈ I)) = true ↔ J ⊆ I := by
  rw [List.all_eq_true]
  constructor
  · intro h a ha; simpa using h a ha
  · intro h a ha; simpa using h ha

theorem lfpAux_spec (P : Program) (D : List Nat) : ∀ (n k : Nat),
    ∃ j, lfpAux P D n (iter P D k) = iter P D j ∧ k ≤ j ∧ j ≤ k + n ∧ (j < k + n → Stable P D j)
  | 0, k => ⟨k, rfl, Nat.le_refl _, Nat.le_refl _, fun h => absurd h (Nat.lt_irrefl _)⟩
  | n+1, k => by
      unfold lfpAux
      by_cases h : ((tp P D (iter P D k)).all fun a => decide (a ∈ iter P D k)) = true
      · simp only [h, if_true]
        exact ⟨k, rfl, Nat.le_refl _, by omega, fun _ => all_mem_iff.mp h⟩
      · simp only [h]
        obtain ⟨j, hj, h1, h2, h3⟩ := lfpAux_spec P D n (k+1)
        refine ⟨j, hj, by omega, by omega, fun hlt => h3 (by omega)⟩

/-- `lfp` is an element of the Kleene chain, reached within `|base|` rounds, and stable. -/
theorem lfp_spec (P : Program) (D : List Nat) :
    ∃ j ≤ (base P D).length, lfp P D = iter P D j ∧ Stable P D j := by
  obtain ⟨j, hj, _, h2, h3⟩ := lfpAux_spec P D (base P D).length 0
  refine ⟨j, by omega, hj, ?_⟩
  by_cases hlt : j < 0 + (base P D).length
  · exact h3 hlt
  · have : j = (base P D).length := by omega
    rw [this]; exact stable_base P D

theorem lfp_nodup (P : Program) (D : List Nat) : (lfp P D).Nodup := by
  obtain ⟨j, _, hj, _⟩ := lfp_spec P D
  rw [hj]; exact iter_nodup P D j

/-- `lfp` is a fixpoint of T_P (as a set) -/
theorem mem_tp_lfp (P : Program) (D : List Nat) (a : GAtom) :
    a ∈ tp P D (lfp P D) ↔ a ∈ lfp P D := by
  obtain ⟨j, _, hj, hs⟩ := lfp_spec P D
  rw [hj]
  exact ⟨fun h => hs h, fun h => iter_subset_succ P D j h⟩

theorem iter_subset_model {P : Program} {D : List Nat} {M : Interp} (hM : IsModel P D M) :
    ∀ n, iter P D n ⊆ M
  | 0 => by simp [iter]
  | n+1 => by
      intro a ha
      have : Derives P D (iter P D n) a := mem_tp.mp ha
      exact hM a (mem_step.mpr (this.mono (iter_subset_model hM n)))

theorem lfp_isModel (P : Program) (D : List Nat) : IsModel P D (lfp P D) := by
  intro a ha
  exact (mem_tp_lfp P D a).mp (mem_tp.mpr (mem_step.mp ha))

theorem lfp_least (P : Program) (D : List Nat) {M : Interp} (hM : IsModel P D M) :
    lfp P D ⊆ M := by
  obtain ⟨j, _, hj, _⟩ := lfp_spec P D
  rw [hj]; exact iter_subset_model hM j

/-- every element of the chain is below `lfp`, every later element equals it -/
theorem iter_subset_lfp (P : Program) (D : List Nat) (n : Nat) : iter P D n ⊆ lfp P D := by
  obtain ⟨j, _, hj, hs⟩ := lfp_spec P D
  rw [hj]
  by_cases h : n ≤ j
  · exact iter_mono P D h
  · exact hs.iter_eq (by omega)

/-! ### no evaluation order: clause order, literal order, duplicates -/

/-- same head, same set of body literals -/
def RuleEquiv (r r' : Rule) : Prop := r.head = r'.head ∧ ∀ b, b ∈ r.body ↔ b ∈ r'.body

/-- the same set of rules up to order and repetition of clauses and of body literals -/
def ProgEquiv (P P' : Program) : Prop :=
  (∀ r ∈ P, ∃ r' ∈ P', RuleEquiv r r') ∧ (∀ r' ∈ P', ∃ r ∈ P, RuleEquiv r' r)

theorem RuleEquiv.vars {r r' : Rule} (h : RuleEquiv r r') (v : Nat) : v ∈ r.vars ↔ v ∈ r'.vars := by
  rw [Rule.mem_vars, Rule.mem_vars, h.1]
  constructor
  · rintro (h' | ⟨b, hb, hv⟩)
    · exact Or.inl h'
    · exact Or.inr ⟨b, (h.2 b).mp hb, hv⟩
  · rintro (h' | ⟨b, hb, hv⟩)
    · exact Or.inl h'
    · exact Or.inr ⟨b, (h.2 b).mpr hb, hv⟩

theorem Derives.of_equiv {P P' : Program} (h : ∀ r ∈ P, ∃ r' ∈ P', RuleEquiv r r')
    {D : List Nat} {I : Interp} {a : GAtom} (ha : Derives P D I a) : Derives P' D I a := by
  obtain ⟨r, hr, σ, hσ, hh, hb⟩ := ha
  obtain ⟨r', hr', he⟩ := h r hr
  refine ⟨r', hr', σ, fun v hv => hσ v ((he.vars v).mpr hv), by rw [← he.1]; exact hh, ?_⟩
  exact fun b hb' => hb b ((he.2 b).mpr hb')

theorem ProgEquiv.isModel {P P' : Program} (h : ProgEquiv P P') {D : List Nat} {M : Interp} :
    IsModel P D M ↔ IsModel P' D M := by
  constructor
  · intro hM a ha
    exact hM a (mem_step.mpr ((mem_step.mp ha).of_equiv h.2))
  · intro hM a ha
    exact hM a (mem_step.mpr ((mem_step.mp ha).of_equiv h.1))

theorem ProgEquiv.lfp {P P' : Program} (h : ProgEquiv P P') (D : List Nat) (a : GAtom) :
    a ∈ lfp P D ↔ a ∈ lfp P' D :=
  ⟨fun ha => lfp_least P D (h.isModel.mpr (lfp_isModel P' D)) ha,
   fun ha => lfp_least P' D (h.isModel.mp (lfp_isModel P D)) ha⟩

theorem ProgEquiv.of_perm {P P' : Program} (h : P.Perm P') : ProgEquiv P P' :=
  ⟨fun r hr => ⟨r, h.subset hr, rfl, fun _ => Iff.rfl⟩,
   fun r hr => ⟨r, h.symm.subset hr, rfl, fun _ => Iff.rfl⟩⟩

/-- decidable sufficient condition: every rule has a partner with the same head and a permuted body -/
theorem ProgEquiv.of_perm_bodies {P P' : Program}
    (h1 : ∀ r ∈ P, ∃ r' ∈ P', r.head = r'.head ∧ r.body.Perm r'.body)
    (h2 : ∀ r' ∈ P', ∃ r ∈ P, r'.head = r.head ∧ r'.body.Perm r.body) : ProgEquiv P P' := by
  constructor
  · intro r hr
    obtain ⟨r', hr', hh, hp⟩ := h1 r hr
    exact ⟨r', hr', hh, fun b => hp.mem_iff⟩
  · intro r hr
    obtain ⟨r', hr', hh, hp⟩ := h2 r hr
    exact ⟨r', hr', hh, fun b => hp.mem_iff⟩

/-! ### answers -/

theorem mem_answersIn {L : Interp} {D : List Nat} {q : Atom} {l : Asg} :
    l ∈ answersIn L D q ↔ l ∈ assigns (dedup D) (dedup q.vars) ∧ q.inst (val l) ∈ L := by
  simp [answersIn]

theorem nodup_answersIn (L : Interp) (D : List Nat) (q : Atom) : (answersIn L D q).Nodup :=
  (nodup_assigns (nodup_dedup D) _).filter _

end Scryer.Lfp
