import ScryerModel.Model.Graph
import Mathlib.Logic.Relation
import Mathlib.Data.List.Basic
/-! Lemmas about the graph algorithms of `Model/Graph.lean` (C24). -/
namespace Scryer.Graph

/-! ## finite unfoldings -/

theorem fin_succ (g : Graph) : ∀ k i, fin g k i = true → fin g (k+1) i = true := by
  intro k
  induction k with
  | zero => intro i h; simp [fin] at h
  | succ k ih =>
    intro i h
    rw [fin] at h
    rw [fin]
    cases hn : node g i with
    | var => simp
    | atom c => simp
    | str f as =>
      rw [hn] at h
      simp only [List.all_eq_true] at h ⊢
      intro c hc
      exact ih c (h c hc)

theorem fin_mono (g : Graph) {k k' : Nat} (hk : k ≤ k') {i : Nat} (h : fin g k i = true) :
    fin g k' i = true := by
  induction hk with
  | refl => exact h
  | step _ ih => exact fin_succ g _ i ih

end Scryer.Graph
