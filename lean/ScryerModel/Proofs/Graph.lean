import ScryerModel.Model.Graph
import Mathlib.Logic.Relation
import Mathlib.Data.List.Basic
import Mathlib.Data.Finset.Card
import Mathlib.Data.Finset.Range
import Mathlib.Data.Finset.Prod
/-! Lemmas about the graph algorithms of `Model/Graph.lean` (C24). -/
namespace Scryer.Graph

/-! ## finite unfoldings -/

theorem fin_succ (g : Graph) : ∀ k i, fin g k i = true → fin g (k+1) i = true := by
  intro k
  induction k with
  | zero => intro i h; simp [fin] at h
  | succ k ih =>
    intro i h
    rw [fin] at h
    rw [fin]
    cases hn : node g i with
    | var => simp
    | atom c => simp
    | str f as =>
      rw [hn] at h
      simp only [List.all_eq_true] at h ⊢
      intro c hc
      exact ih c (h c hc)

theorem fin_mono (g : Graph) {k k' : Nat} (hk : k ≤ k') {i : Nat} (h : fin g k i = true) :
    fin g k' i = true := by
  induction hk with
  | refl => exact h
  | step _ ih => exact fin_succ g _ i ih


theorem nodup_length_le {l : List Nat} {n : Nat} (hnd : l.Nodup) (h : ∀ x ∈ l, x < n) :
    l.length ≤ n := by
  have := Finset.card_le_card (s := l.toFinset) (t := Finset.range n)
    (by intro x hx; simp at hx ⊢; exact h x hx)
  rwa [List.toFinset_card_of_nodup hnd, Finset.card_range] at this

theorem node_str_lt {g : Graph} {i f as} (h : node g i = .str f as) : i < g.size := by
  by_contra hlt
  have : node g i = .var := by
    unfold node
    simp [Array.getD, show ¬ i < g.size from hlt]
  rw [this] at h
  cases h

/-! ## reachability -/

def Edge (g : Graph) (i c : Nat) : Prop := ∃ f as, node g i = .str f as ∧ c ∈ as

abbrev Reach (g : Graph) := Relation.ReflTransGen (Edge g)
abbrev ReachP (g : Graph) := Relation.TransGen (Edge g)

/-- no cycle is reachable from `r`. -/
def NoCycle (g : Graph) (r : Nat) : Prop := ¬ ∃ x, Reach g r x ∧ ReachP g x x

/-- the term denoted by `r` is a finite tree. -/
def Finite (g : Graph) (r : Nat) : Prop := ∃ k, fin g k r = true

theorem fin_edge {g : Graph} {k i c} (h : fin g k i = true) (e : Edge g i c) :
    ∃ k', k' < k ∧ fin g k' c = true := by
  obtain ⟨f, as, hn, hc⟩ := e
  cases k with
  | zero => simp [fin] at h
  | succ k =>
    rw [fin, hn] at h
    simp only [List.all_eq_true] at h
    exact ⟨k, Nat.lt_succ_self k, h c hc⟩

theorem fin_reachP {g : Graph} {i j} (p : ReachP g i j) :
    ∀ {k}, fin g k i = true → ∃ k', k' < k ∧ fin g k' j = true := by
  induction p with
  | single e => intro k h; exact fin_edge h e
  | tail _ e ih =>
    intro k h
    obtain ⟨k1, hk1, h1⟩ := ih h
    obtain ⟨k2, hk2, h2⟩ := fin_edge h1 e
    exact ⟨k2, Nat.lt_trans hk2 hk1, h2⟩

theorem fin_no_self {g : Graph} : ∀ k i, fin g k i = true → ¬ ReachP g i i := by
  intro k
  induction k using Nat.strong_induction_on with
  | _ k ih =>
    intro i h p
    obtain ⟨k', hk', h'⟩ := fin_reachP p h
    exact ih k' hk' i h' p

theorem fin_reach {g : Graph} {r x} (p : Reach g r x) :
    ∀ {k}, fin g k r = true → ∃ k', fin g k' x = true := by
  induction p with
  | refl => intro k h; exact ⟨k, h⟩
  | tail _ e ih =>
    intro k h
    obtain ⟨k1, h1⟩ := ih h
    obtain ⟨k2, _, h2⟩ := fin_edge h1 e
    exact ⟨k2, h2⟩

theorem finite_noCycle {g : Graph} {r} (h : Finite g r) : NoCycle g r := by
  obtain ⟨k, hk⟩ := h
  rintro ⟨x, hx, hc⟩
  obtain ⟨k', hk'⟩ := fin_reach hx hk
  exact fin_no_self k' x hk' hc

theorem exists_fin_bound (g : Graph) : ∀ as : List Nat, (∀ c ∈ as, ∃ k, fin g k c = true) →
    ∃ K, ∀ c ∈ as, fin g K c = true := by
  intro as
  induction as with
  | nil => intro _; exact ⟨0, by simp⟩
  | cons a as ih =>
    intro h
    obtain ⟨k1, h1⟩ := h a (by simp)
    obtain ⟨k2, h2⟩ := ih (fun c hc => h c (by simp [hc]))
    refine ⟨max k1 k2, ?_⟩
    intro c hc
    rcases List.mem_cons.mp hc with rfl | hc
    · exact fin_mono g (Nat.le_max_left _ _) h1
    · exact fin_mono g (Nat.le_max_right _ _) (h2 c hc)

/-! ## acyclic_term -/

theorem acyc_finite (g : Graph) : ∀ fuel path i, acyc g fuel path i = true → Finite g i := by
  intro fuel
  induction fuel with
  | zero => intro path i h; simp [acyc] at h
  | succ fuel ih =>
    intro path i h
    rw [acyc] at h
    cases hn : node g i with
    | var => exact ⟨1, by rw [fin, hn]⟩
    | atom c => exact ⟨1, by rw [fin, hn]⟩
    | str f as =>
      rw [hn] at h
      simp only [Bool.and_eq_true, List.all_eq_true] at h
      obtain ⟨K, hK⟩ := exists_fin_bound g as (fun c hc => ih _ c (h.2 c hc))
      refine ⟨K + 1, ?_⟩
      rw [fin, hn]
      simpa only [List.all_eq_true] using hK

theorem noCycle_acyc (g : Graph) (r : Nat) (hN : NoCycle g r) :
    ∀ fuel path i, Reach g r i → (∀ p ∈ path, ReachP g p i ∧ Reach g r p) → path.Nodup →
      (∀ p ∈ path, p < g.size) → g.size + 1 ≤ fuel + path.length → acyc g fuel path i = true := by
  intro fuel
  induction fuel with
  | zero =>
    intro path i _ _ hnd hlt hf
    have := nodup_length_le hnd hlt
    omega
  | succ fuel ih =>
    intro path i hr hp hnd hlt hf
    rw [acyc]
    cases hn : node g i with
    | var => rfl
    | atom c => rfl
    | str f as =>
      have hnot : i ∉ path := by
        intro hi
        exact hN ⟨i, hr, (hp i hi).1⟩
      simp only [Bool.and_eq_true, List.all_eq_true, Bool.not_eq_true', List.contains_eq_mem,
        decide_eq_false_iff_not]
      refine ⟨hnot, ?_⟩
      intro c hc
      have e : Edge g i c := ⟨f, as, hn, hc⟩
      apply ih (i :: path) c (hr.tail e)
      · intro p hp'
        rcases List.mem_cons.mp hp' with rfl | hp'
        · exact ⟨Relation.TransGen.single e, hr⟩
        · exact ⟨(hp p hp').1.tail e, (hp p hp').2⟩
      · exact List.nodup_cons.mpr ⟨hnot, hnd⟩
      · intro p hp'
        rcases List.mem_cons.mp hp' with rfl | hp'
        · exact node_str_lt hn
        · exact hlt p hp'
      · simp only [List.length_cons]; omega

theorem acyclic_iff_finite (g : Graph) (r : Nat) : acyclic g r = true ↔ Finite g r := by
  constructor
  · exact acyc_finite g _ [] r
  · intro h
    exact noCycle_acyc g r (finite_noCycle h) _ [] r Relation.ReflTransGen.refl
      (by simp) List.nodup_nil (by simp) (by simp)

theorem acyclic_iff_noCycle (g : Graph) (r : Nat) : acyclic g r = true ↔ NoCycle g r := by
  constructor
  · intro h; exact finite_noCycle ((acyclic_iff_finite g r).mp h)
  · intro h
    exact noCycle_acyc g r h _ [] r Relation.ReflTransGen.refl
      (by simp) List.nodup_nil (by simp) (by simp)

/-! ## ==/2, compare/3: the visited-pair walk -/

def Good (g : Graph) (S : Seen) (x y : Nat) : Prop :=
  x = y ∨ (x, y) ∈ S ∨ ∃ c, node g x = .atom c ∧ node g y = .atom c

def Cons (g : Graph) (S : Seen) (p : Nat × Nat) : Prop :=
  ∃ f as bs, node g p.1 = .str f as ∧ node g p.2 = .str f bs ∧ as.length = bs.length ∧
    ∀ q ∈ as.zip bs, Good g S q.1 q.2

theorem Good.mono {g : Graph} {S T : Seen} (h : S ⊆ T) {x y} : Good g S x y → Good g T x y := by
  rintro (h1 | h1 | h1)
  · exact Or.inl h1
  · exact Or.inr (Or.inl (h h1))
  · exact Or.inr (Or.inr h1)

theorem Cons.mono {g : Graph} {S T : Seen} (h : S ⊆ T) {p} : Cons g S p → Cons g T p := by
  rintro ⟨f, as, bs, h1, h2, h3, h4⟩
  exact ⟨f, as, bs, h1, h2, h3, fun q hq => (h4 q hq).mono h⟩

/-- post-condition of a successful (no difference found) comparison step. -/
def StepOK (g : Graph) (step : Nat → Nat → Seen → Out) : Prop :=
  ∀ a b s s', step a b s = .same s' →
    s ⊆ s' ∧ Good g s' a b ∧ ∀ p ∈ s', p ∈ s ∨ Cons g s' p

theorem cmpL_ok {g : Graph} {step} (hs : StepOK g step) :
    ∀ ps s s', cmpL step ps s = .same s' →
      s ⊆ s' ∧ (∀ q ∈ ps, Good g s' q.1 q.2) ∧ ∀ p ∈ s', p ∈ s ∨ Cons g s' p := by
  intro ps
  induction ps with
  | nil =>
    intro s s' h
    simp only [cmpL, Out.same.injEq] at h
    subst h
    exact ⟨fun _ h => h, by simp, fun p hp => Or.inl hp⟩
  | cons q ps ih =>
    intro s s' h
    obtain ⟨x, y⟩ := q
    rw [cmpL] at h
    cases h1 : step x y s with
    | same s1 =>
      rw [h1] at h
      obtain ⟨a1, a2, a3⟩ := hs x y s s1 h1
      obtain ⟨b1, b2, b3⟩ := ih s1 s' h
      refine ⟨fun _ hp => b1 (a1 hp), ?_, ?_⟩
      · intro q hq
        rcases List.mem_cons.mp hq with rfl | hq
        · exact a2.mono b1
        · exact b2 q hq
      · intro p hp
        rcases b3 p hp with hp1 | hp1
        · rcases a3 p hp1 with hp2 | hp2
          · exact Or.inl hp2
          · exact Or.inr (hp2.mono b1)
        · exact Or.inr hp1
    | fuel => rw [h1] at h; cases h
    | lt => rw [h1] at h; cases h
    | gt => rw [h1] at h; cases h
    | vars _ _ => rw [h1] at h; cases h

theorem cmpN_ok (g : Graph) : ∀ fuel, StepOK g (cmpN g fuel) := by
  intro fuel
  induction fuel with
  | zero => intro a b s s' h; simp [cmpN] at h
  | succ fuel ih =>
    intro a b s s' h
    rw [cmpN] at h
    split at h
    · next hab =>
      simp only [Out.same.injEq] at h
      subst h
      exact ⟨fun _ h => h, Or.inl hab, fun p hp => Or.inl hp⟩
    · split at h
      all_goals try (cases h)
      · next c d hna hnb =>
        split at h
        · cases h
        · split at h
          · cases h
          · simp only [Out.same.injEq] at h
            subst h
            have : c = d := by omega
            subst this
            exact ⟨fun _ h => h, Or.inr (Or.inr ⟨c, hna, hnb⟩), fun p hp => Or.inl hp⟩
      · next f as f' bs hna hnb =>
        split at h
        · next hc =>
          simp only [Out.same.injEq] at h
          subst h
          refine ⟨fun _ h => h, Or.inr (Or.inl ?_), fun p hp => Or.inl hp⟩
          simpa using hc
        · split at h
          · cases h
          · split at h
            · cases h
            · split at h
              · cases h
              · split at h
                · cases h
                · have hl : as.length = bs.length := by omega
                  have hf : f = f' := by omega
                  subst hf
                  obtain ⟨b1, b2, b3⟩ := cmpL_ok ih _ _ _ h
                  have hmem : (a, b) ∈ s' := b1 (by simp)
                  refine ⟨fun _ hp => b1 (by simp [hp]), Or.inr (Or.inl hmem), ?_⟩
                  intro p hp
                  rcases b3 p hp with hp1 | hp1
                  · rcases List.mem_cons.mp hp1 with rfl | hp1
                    · exact Or.inr ⟨f, as, bs, hna, hnb, hl, b2⟩
                    · exact Or.inl hp1
                  · exact Or.inr hp1


theorem map_eq_of_zip {α} (u : Nat → α) : ∀ (as bs : List Nat), as.length = bs.length →
    (∀ q ∈ as.zip bs, u q.1 = u q.2) → as.map u = bs.map u := by
  intro as
  induction as with
  | nil => intro bs hl _; cases bs with
    | nil => rfl
    | cons _ _ => simp at hl
  | cons a as ih =>
    intro bs hl h
    cases bs with
    | nil => simp at hl
    | cons b bs =>
      simp only [List.map_cons, List.cons.injEq]
      refine ⟨h (a, b) (by simp), ih bs (by simpa using hl) ?_⟩
      intro q hq
      exact h q (by simp [hq])

theorem zip_of_map_eq {α} (u : Nat → α) : ∀ (as bs : List Nat), as.map u = bs.map u →
    ∀ q ∈ as.zip bs, u q.1 = u q.2 := by
  intro as
  induction as with
  | nil => intro bs _ q hq; simp at hq
  | cons a as ih =>
    intro bs h q hq
    cases bs with
    | nil => simp at hq
    | cons b bs =>
      simp only [List.map_cons, List.cons.injEq] at h
      simp only [List.zip_cons_cons, List.mem_cons] at hq
      rcases hq with rfl | hq
      · exact h.1
      · exact ih bs h.2 q hq

/-- a set of pairs that is consistent with itself is a bisimulation: related nodes have the same
unfolding at every depth. -/
theorem good_unfold {g : Graph} {S : Seen} (hS : ∀ p ∈ S, Cons g S p) :
    ∀ k x y, Good g S x y → unfold g k x = unfold g k y := by
  intro k
  induction k with
  | zero => intro x y _; rfl
  | succ k ih =>
    intro x y h
    rcases h with rfl | h | ⟨c, h1, h2⟩
    · rfl
    · obtain ⟨f, as, bs, h1, h2, h3, h4⟩ := hS _ h
      simp only at h1 h2
      rw [unfold, unfold, h1, h2]
      simp only [Tree.node.injEq, true_and]
      exact map_eq_of_zip _ as bs h3 (fun q hq => ih _ _ (h4 q hq))
    · rw [unfold, unfold, h1, h2]

/-- unfoldings agree at every depth. -/
def SameTree (g : Graph) (a b : Nat) : Prop := ∀ k, unfold g k a = unfold g k b

theorem cmp_same_sound {g : Graph} {a b s'} (h : cmp g a b = .same s') : SameTree g a b := by
  obtain ⟨_, h2, h3⟩ := cmpN_ok g _ a b [] s' h
  intro k
  refine good_unfold ?_ k a b h2
  intro p hp
  rcases h3 p hp with h | h
  · simp at h
  · exact h

/-! completeness: a reported difference is a difference of the unfoldings -/

def IsDiff : Out → Prop
  | .lt => True
  | .gt => True
  | .vars _ _ => True
  | _ => False

def StepDiff (g : Graph) (step : Nat → Nat → Seen → Out) : Prop :=
  ∀ a b s, IsDiff (step a b s) → ∃ k, unfold g k a ≠ unfold g k b

theorem cmpL_diff {g : Graph} {step} (hs : StepDiff g step) :
    ∀ ps s, IsDiff (cmpL step ps s) → ∃ q ∈ ps, ∃ k, unfold g k q.1 ≠ unfold g k q.2 := by
  intro ps
  induction ps with
  | nil => intro s h; simp [cmpL, IsDiff] at h
  | cons q ps ih =>
    intro s h
    obtain ⟨x, y⟩ := q
    rw [cmpL] at h
    cases h1 : step x y s with
    | same s1 =>
      rw [h1] at h
      obtain ⟨q, hq, hk⟩ := ih s1 h
      exact ⟨q, by simp [hq], hk⟩
    | fuel => rw [h1] at h; simp [IsDiff] at h
    | lt => exact ⟨(x, y), by simp, hs x y s (by rw [h1]; trivial)⟩
    | gt => exact ⟨(x, y), by simp, hs x y s (by rw [h1]; trivial)⟩
    | vars _ _ => exact ⟨(x, y), by simp, hs x y s (by rw [h1]; trivial)⟩

theorem cmpN_diff (g : Graph) : ∀ fuel, StepDiff g (cmpN g fuel) := by
  intro fuel
  induction fuel with
  | zero => intro a b s h; simp [cmpN, IsDiff] at h
  | succ fuel ih =>
    intro a b s h
    rw [cmpN] at h
    split at h
    · simp [IsDiff] at h
    · next hab =>
      cases hna : node g a with
      | var =>
        cases hnb : node g b with
        | var => exact ⟨1, by rw [unfold, unfold, hna, hnb]; simp [hab]⟩
        | atom d => exact ⟨1, by rw [unfold, unfold, hna, hnb]; simp⟩
        | str f' bs => exact ⟨1, by rw [unfold, unfold, hna, hnb]; simp⟩
      | atom c =>
        cases hnb : node g b with
        | var => exact ⟨1, by rw [unfold, unfold, hna, hnb]; simp⟩
        | atom d =>
          refine ⟨1, ?_⟩
          rw [unfold, unfold, hna, hnb]
          intro he
          simp only [Tree.atom.injEq] at he
          subst he
          simp [hna, hnb, IsDiff] at h
        | str f' bs => exact ⟨1, by rw [unfold, unfold, hna, hnb]; simp⟩
      | str f as =>
        cases hnb : node g b with
        | var => exact ⟨1, by rw [unfold, unfold, hna, hnb]; simp⟩
        | atom d => exact ⟨1, by rw [unfold, unfold, hna, hnb]; simp⟩
        | str f' bs =>
        simp only [hna, hnb] at h
        split at h
        · simp [IsDiff] at h
        · have len_ne : ∀ k, as.length ≠ bs.length → unfold g (k+1) a ≠ unfold g (k+1) b := by
            intro k hl he
            rw [unfold, unfold, hna, hnb] at he
            simp only [Tree.node.injEq] at he
            have := congrArg List.length he.2
            simp at this
            exact hl this
          have f_ne : ∀ k, f ≠ f' → unfold g (k+1) a ≠ unfold g (k+1) b := by
            intro k hl he
            rw [unfold, unfold, hna, hnb] at he
            simp only [Tree.node.injEq] at he
            exact hl he.1
          split at h
          · exact ⟨1, len_ne 0 (by omega)⟩
          · split at h
            · exact ⟨1, len_ne 0 (by omega)⟩
            · split at h
              · exact ⟨1, f_ne 0 (by omega)⟩
              · split at h
                · exact ⟨1, f_ne 0 (by omega)⟩
                · obtain ⟨q, hq, k, hk⟩ := cmpL_diff ih _ _ h
                  refine ⟨k + 1, ?_⟩
                  intro he
                  rw [unfold, unfold, hna, hnb] at he
                  simp only [Tree.node.injEq] at he
                  exact hk (zip_of_map_eq _ as bs he.2 q hq)


/-! termination: the fuel of `cmp` is never exhausted -/

theorem nodup_pairs_length_le {l : List (Nat × Nat)} {n : Nat} (hnd : l.Nodup)
    (h : ∀ p ∈ l, p.1 < n ∧ p.2 < n) : l.length ≤ n * n := by
  have := Finset.card_le_card (s := l.toFinset) (t := Finset.range n ×ˢ Finset.range n)
    (by intro x hx; simp at hx ⊢; exact h x hx)
  rwa [List.toFinset_card_of_nodup hnd, Finset.card_product, Finset.card_range] at this

def Bounded (n : Nat) (s : Seen) : Prop := ∀ p ∈ s, p.1 < n ∧ p.2 < n

def StepFuel (n F : Nat) (step : Nat → Nat → Seen → Out) : Prop :=
  ∀ a b s, s.Nodup → Bounded n s → n * n + 1 ≤ F + s.length →
    step a b s ≠ .fuel ∧
    ∀ s', step a b s = .same s' → s'.Nodup ∧ Bounded n s' ∧ s.length ≤ s'.length

theorem cmpL_fuel {n F step} (hs : StepFuel n F step) :
    ∀ ps s, s.Nodup → Bounded n s → n * n + 1 ≤ F + s.length →
      cmpL step ps s ≠ .fuel ∧
      ∀ s', cmpL step ps s = .same s' → s'.Nodup ∧ Bounded n s' ∧ s.length ≤ s'.length := by
  intro ps
  induction ps with
  | nil =>
    intro s h1 h2 _
    refine ⟨by simp [cmpL], ?_⟩
    intro s' h
    simp only [cmpL, Out.same.injEq] at h
    subst h
    exact ⟨h1, h2, Nat.le_refl _⟩
  | cons q ps ih =>
    intro s h1 h2 h3
    obtain ⟨x, y⟩ := q
    obtain ⟨a1, a2⟩ := hs x y s h1 h2 h3
    rw [cmpL]
    cases hst : step x y s with
    | same s1 =>
      obtain ⟨b1, b2, b3⟩ := a2 s1 hst
      obtain ⟨c1, c2⟩ := ih s1 b1 b2 (by omega)
      refine ⟨c1, ?_⟩
      intro s' h
      obtain ⟨d1, d2, d3⟩ := c2 s' h
      exact ⟨d1, d2, by omega⟩
    | fuel => exact absurd hst a1
    | lt => exact ⟨by simp, by intro s' h; cases h⟩
    | gt => exact ⟨by simp, by intro s' h; cases h⟩
    | vars _ _ => exact ⟨by simp, by intro s' h; cases h⟩

theorem cmpN_fuel (g : Graph) : ∀ fuel, StepFuel g.size fuel (cmpN g fuel) := by
  intro fuel
  induction fuel with
  | zero =>
    intro a b s h1 h2 h3
    have := nodup_pairs_length_le h1 h2
    omega
  | succ fuel ih =>
    intro a b s h1 h2 h3
    have triv : ∀ s', Out.same s = Out.same s' → s'.Nodup ∧ Bounded g.size s' ∧ s.length ≤ s'.length := by
      intro s' h
      simp only [Out.same.injEq] at h
      subst h
      exact ⟨h1, h2, Nat.le_refl _⟩
    rw [cmpN]
    split
    · exact ⟨by simp, triv⟩
    · cases hna : node g a with
      | var =>
        cases hnb : node g b with
        | var => exact ⟨by simp, by intro s' h; cases h⟩
        | atom d => exact ⟨by simp, by intro s' h; cases h⟩
        | str f' bs => exact ⟨by simp, by intro s' h; cases h⟩
      | atom c =>
        cases hnb : node g b with
        | var => exact ⟨by simp, by intro s' h; cases h⟩
        | atom d =>
          simp only
          split
          · exact ⟨by simp, by intro s' h; cases h⟩
          · split
            · exact ⟨by simp, by intro s' h; cases h⟩
            · exact ⟨by simp, triv⟩
        | str f' bs => exact ⟨by simp, by intro s' h; cases h⟩
      | str f as =>
        cases hnb : node g b with
        | var => exact ⟨by simp, by intro s' h; cases h⟩
        | atom d => exact ⟨by simp, by intro s' h; cases h⟩
        | str f' bs =>
          simp only
          split
          · exact ⟨by simp, triv⟩
          · next hc =>
            split
            · exact ⟨by simp, by intro s' h; cases h⟩
            · split
              · exact ⟨by simp, by intro s' h; cases h⟩
              · split
                · exact ⟨by simp, by intro s' h; cases h⟩
                · split
                  · exact ⟨by simp, by intro s' h; cases h⟩
                  · have hnot : (a, b) ∉ s := by simpa using hc
                    have hb : Bounded g.size ((a, b) :: s) := by
                      intro p hp
                      rcases List.mem_cons.mp hp with rfl | hp
                      · exact ⟨node_str_lt hna, node_str_lt hnb⟩
                      · exact h2 p hp
                    obtain ⟨c1, c2⟩ := cmpL_fuel ih (as.zip bs) ((a, b) :: s)
                      (List.nodup_cons.mpr ⟨hnot, h1⟩) hb (by simp only [List.length_cons]; omega)
                    refine ⟨c1, ?_⟩
                    intro s' h
                    obtain ⟨d1, d2, d3⟩ := c2 s' h
                    simp only [List.length_cons] at d3
                    exact ⟨d1, d2, by omega⟩

theorem cmp_ne_fuel (g : Graph) (a b : Nat) : cmp g a b ≠ .fuel :=
  (cmpN_fuel g (pairFuel g) a b [] List.nodup_nil (by intro p hp; simp at hp)
    (by simp [pairFuel])).1

theorem eq_iff_sameTree (g : Graph) (a b : Nat) : eq g a b = true ↔ SameTree g a b := by
  unfold eq
  constructor
  · intro h
    cases hc : cmp g a b with
    | same s' => exact cmp_same_sound hc
    | fuel => rw [hc] at h; cases h
    | lt => rw [hc] at h; cases h
    | gt => rw [hc] at h; cases h
    | vars _ _ => rw [hc] at h; cases h
  · intro h
    cases hc : cmp g a b with
    | same s' => rfl
    | fuel => exact absurd hc (cmp_ne_fuel g a b)
    | lt =>
      obtain ⟨k, hk⟩ := cmpN_diff g _ a b [] (by unfold cmp at hc; rw [hc]; trivial)
      exact absurd (h k) hk
    | gt =>
      obtain ⟨k, hk⟩ := cmpN_diff g _ a b [] (by unfold cmp at hc; rw [hc]; trivial)
      exact absurd (h k) hk
    | vars _ _ =>
      obtain ⟨k, hk⟩ := cmpN_diff g _ a b [] (by unfold cmp at hc; rw [hc]; trivial)
      exact absurd (h k) hk

/-! ## the visited-node walk -/

/-- post-condition of one walk step that did not run out of fuel. -/
def DfsOK (g : Graph) (step : Nat → List Nat → Option (List Nat)) : Prop :=
  ∀ i s s', step i s = some s' →
    (∃ t, s' = t ++ s) ∧ i ∈ s' ∧ (∀ x ∈ s', x ∈ s ∨ ∀ c, Edge g x c → c ∈ s')

theorem dfsL_ok {g : Graph} {step} (hs : DfsOK g step) :
    ∀ cs s s', dfsL step cs s = some s' →
      (∃ t, s' = t ++ s) ∧ (∀ c ∈ cs, c ∈ s') ∧ (∀ x ∈ s', x ∈ s ∨ ∀ c, Edge g x c → c ∈ s') := by
  intro cs
  induction cs with
  | nil =>
    intro s s' h
    simp only [dfsL, Option.some.injEq] at h
    subst h
    exact ⟨⟨[], rfl⟩, by simp, fun x hx => Or.inl hx⟩
  | cons c cs ih =>
    intro s s' h
    rw [dfsL] at h
    cases h1 : step c s with
    | none => rw [h1] at h; cases h
    | some s1 =>
      rw [h1] at h
      obtain ⟨⟨t1, a1⟩, a2, a3⟩ := hs c s s1 h1
      obtain ⟨⟨t2, b1⟩, b2, b3⟩ := ih s1 s' h
      have sub : ∀ x, x ∈ s1 → x ∈ s' := by intro x hx; rw [b1]; simp [hx]
      refine ⟨⟨t2 ++ t1, by rw [b1, a1, List.append_assoc]⟩, ?_, ?_⟩
      · intro x hx
        rcases List.mem_cons.mp hx with rfl | hx
        · exact sub _ a2
        · exact b2 x hx
      · intro x hx
        rcases b3 x hx with h2 | h2
        · rcases a3 x h2 with h3 | h3
          · exact Or.inl h3
          · exact Or.inr (fun c e => sub _ (h3 c e))
        · exact Or.inr h2

theorem dfs_ok (g : Graph) : ∀ fuel, DfsOK g (dfs g fuel) := by
  intro fuel
  induction fuel with
  | zero => intro i s s' h; simp [dfs] at h
  | succ fuel ih =>
    intro i s s' h
    rw [dfs] at h
    split at h
    · next hc =>
      simp only [Option.some.injEq] at h
      subst h
      exact ⟨⟨[], rfl⟩, by simpa using hc, fun x hx => Or.inl hx⟩
    · cases hn : node g i with
      | var =>
        simp only [hn, Option.some.injEq] at h
        subst h
        refine ⟨⟨[i], rfl⟩, by simp, ?_⟩
        intro x hx
        rcases List.mem_cons.mp hx with rfl | hx
        · right; rintro c ⟨f, as, h1, _⟩; rw [hn] at h1; cases h1
        · exact Or.inl hx
      | atom c =>
        simp only [hn, Option.some.injEq] at h
        subst h
        refine ⟨⟨[i], rfl⟩, by simp, ?_⟩
        intro x hx
        rcases List.mem_cons.mp hx with rfl | hx
        · right; rintro c ⟨f, as, h1, _⟩; rw [hn] at h1; cases h1
        · exact Or.inl hx
      | str f as =>
        simp only [hn] at h
        obtain ⟨⟨t, b1⟩, b2, b3⟩ := dfsL_ok ih as (i :: s) s' h
        have hi : i ∈ s' := by rw [b1]; simp
        refine ⟨⟨t ++ [i], by rw [b1]; simp⟩, hi, ?_⟩
        intro x hx
        rcases b3 x hx with h2 | h2
        · rcases List.mem_cons.mp h2 with rfl | h2
          · right
            rintro c ⟨f', as', h1, hc⟩
            rw [hn] at h1
            cases h1
            exact b2 c hc
          · exact Or.inl h2
        · exact Or.inr h2

/-- everything a finished walk has visited beyond its starting set is reachable from the node. -/
def DfsReach (g : Graph) (step : Nat → List Nat → Option (List Nat)) : Prop :=
  ∀ i s s', step i s = some s' → ∀ x ∈ s', x ∈ s ∨ Reach g i x

theorem dfsL_reach {g : Graph} {step} (hs : DfsReach g step) :
    ∀ cs s s', dfsL step cs s = some s' → ∀ x ∈ s', x ∈ s ∨ ∃ c ∈ cs, Reach g c x := by
  intro cs
  induction cs with
  | nil =>
    intro s s' h x hx
    simp only [dfsL, Option.some.injEq] at h
    subst h
    exact Or.inl hx
  | cons c cs ih =>
    intro s s' h x hx
    rw [dfsL] at h
    cases h1 : step c s with
    | none => rw [h1] at h; cases h
    | some s1 =>
      rw [h1] at h
      rcases ih s1 s' h x hx with h2 | ⟨c', hc', hr⟩
      · rcases hs c s s1 h1 x h2 with h3 | h3
        · exact Or.inl h3
        · exact Or.inr ⟨c, by simp, h3⟩
      · exact Or.inr ⟨c', by simp [hc'], hr⟩

theorem dfs_reach (g : Graph) : ∀ fuel, DfsReach g (dfs g fuel) := by
  intro fuel
  induction fuel with
  | zero => intro i s s' h; simp [dfs] at h
  | succ fuel ih =>
    intro i s s' h x hx
    rw [dfs] at h
    split at h
    · simp only [Option.some.injEq] at h
      subst h
      exact Or.inl hx
    · cases hn : node g i with
      | var =>
        simp only [hn, Option.some.injEq] at h
        subst h
        rcases List.mem_cons.mp hx with rfl | hx
        · exact Or.inr Relation.ReflTransGen.refl
        · exact Or.inl hx
      | atom c =>
        simp only [hn, Option.some.injEq] at h
        subst h
        rcases List.mem_cons.mp hx with rfl | hx
        · exact Or.inr Relation.ReflTransGen.refl
        · exact Or.inl hx
      | str f as =>
        simp only [hn] at h
        rcases dfsL_reach ih as (i :: s) s' h x hx with h2 | ⟨c, hc, hr⟩
        · rcases List.mem_cons.mp h2 with rfl | h2
          · exact Or.inr Relation.ReflTransGen.refl
          · exact Or.inl h2
        · exact Or.inr (Relation.ReflTransGen.head ⟨f, as, hn, hc⟩ hr)

/-- fuel and duplicates: with `size + 1 ≤ fuel + |visited|` a step never runs out of fuel, and the
visited list stays duplicate-free and inside the graph. -/
def DfsFuel (g : Graph) (F : Nat) (step : Nat → List Nat → Option (List Nat)) : Prop :=
  ∀ i s, i < g.size → s.Nodup → (∀ x ∈ s, x < g.size) → g.size + 1 ≤ F + s.length →
    ∃ s', step i s = some s' ∧ s'.Nodup ∧ (∀ x ∈ s', x < g.size) ∧ s.length ≤ s'.length

theorem dfsL_fuel {g : Graph} {F step} (hs : DfsFuel g F step) :
    ∀ cs s, (∀ c ∈ cs, c < g.size) → s.Nodup → (∀ x ∈ s, x < g.size) → g.size + 1 ≤ F + s.length →
      ∃ s', dfsL step cs s = some s' ∧ s'.Nodup ∧ (∀ x ∈ s', x < g.size) ∧ s.length ≤ s'.length := by
  intro cs
  induction cs with
  | nil => intro s _ h1 h2 _; exact ⟨s, rfl, h1, h2, Nat.le_refl _⟩
  | cons c cs ih =>
    intro s hc h1 h2 h3
    obtain ⟨s1, a1, a2, a3, a4⟩ := hs c s (hc c (by simp)) h1 h2 h3
    obtain ⟨s2, b1, b2, b3, b4⟩ := ih s1 (fun c' h => hc c' (by simp [h])) a2 a3 (by omega)
    exact ⟨s2, by rw [dfsL, a1]; exact b1, b2, b3, by omega⟩

theorem dfs_fuel (g : Graph) (hw : WF g) : ∀ fuel, DfsFuel g fuel (dfs g fuel) := by
  intro fuel
  induction fuel with
  | zero =>
    intro i s _ h1 h2 h3
    have := nodup_length_le h1 h2
    omega
  | succ fuel ih =>
    intro i s hi h1 h2 h3
    rw [dfs]
    split
    · exact ⟨s, rfl, h1, h2, Nat.le_refl _⟩
    · next hc =>
      have hnot : i ∉ s := by simpa using hc
      have nd : (i :: s).Nodup := List.nodup_cons.mpr ⟨hnot, h1⟩
      have bd : ∀ x ∈ i :: s, x < g.size := by
        intro x hx
        rcases List.mem_cons.mp hx with rfl | hx
        · exact hi
        · exact h2 x hx
      cases hn : node g i with
      | var => exact ⟨i :: s, rfl, nd, bd, by simp⟩
      | atom c => exact ⟨i :: s, rfl, nd, bd, by simp⟩
      | str f as =>
        obtain ⟨s', b1, b2, b3, b4⟩ := dfsL_fuel ih as (i :: s) (hw i f as hn) nd bd
          (by simp only [List.length_cons]; omega)
        simp only [List.length_cons] at b4
        exact ⟨s', b1, b2, b3, by omega⟩

theorem dfs_top (g : Graph) (hw : WF g) (r : Nat) (hr : r < g.size) :
    ∃ s', dfs g (g.size + 1) r [] = some s' ∧ s'.Nodup ∧ ∀ x, x ∈ s' ↔ Reach g r x := by
  obtain ⟨s', h1, h2, _, _⟩ := dfs_fuel g hw (g.size + 1) r [] hr List.nodup_nil (by simp) (by simp)
  obtain ⟨_, a2, a3⟩ := dfs_ok g _ r [] s' h1
  refine ⟨s', h1, h2, ?_⟩
  intro x
  constructor
  · intro hx
    rcases dfs_reach g _ r [] s' h1 x hx with h | h
    · simp at h
    · exact h
  · intro hx
    induction hx with
    | refl => exact a2
    | tail _ e ih =>
      rcases a3 _ ih with h | h
      · simp at h
      · exact h _ e

theorem reachList_spec (g : Graph) (hw : WF g) (r : Nat) (hr : r < g.size) :
    (reachList g r).Nodup ∧ ∀ x, x ∈ reachList g r ↔ Reach g r x := by
  obtain ⟨s', h1, h2, h3⟩ := dfs_top g hw r hr
  unfold reachList
  rw [h1]
  exact ⟨List.nodup_reverse.mpr h2, fun x => by simp [h3]⟩

theorem isVar_iff (g : Graph) (i : Nat) : isVar g i = true ↔ node g i = .var := by
  unfold isVar
  cases node g i <;> simp

theorem termVars_spec (g : Graph) (hw : WF g) (r : Nat) (hr : r < g.size) :
    (termVars g r).Nodup ∧ ∀ x, x ∈ termVars g r ↔ (Reach g r x ∧ node g x = .var) := by
  obtain ⟨h1, h2⟩ := reachList_spec g hw r hr
  unfold termVars
  refine ⟨h1.filter _, ?_⟩
  intro x
  simp [List.mem_filter, h2, isVar_iff]

theorem ground_spec (g : Graph) (hw : WF g) (r : Nat) (hr : r < g.size) :
    ground g r = true ↔ ∀ x, Reach g r x → node g x ≠ .var := by
  obtain ⟨_, h2⟩ := termVars_spec g hw r hr
  unfold ground
  rw [List.isEmpty_iff]
  constructor
  · intro h x hx hv
    have : x ∈ termVars g r := (h2 x).mpr ⟨hx, hv⟩
    rw [h] at this
    simp at this
  · intro h
    apply List.eq_nil_iff_forall_not_mem.mpr
    intro x hx
    exact h x ((h2 x).mp hx).1 ((h2 x).mp hx).2

/-! ## copy_term -/

/-- unfolding with the variable leaves renamed by `ρ`. -/
def unfoldR (ρ : Nat → Nat) (g : Graph) : Nat → Nat → Tree
  | 0, _ => .cut
  | k+1, i =>
    match node g i with
    | .var => .var (ρ i)
    | .atom c => .atom c
    | .str f as => .node f (as.map (unfoldR ρ g k))

theorem unfoldR_id (g : Graph) : ∀ k i, unfoldR id g k i = unfold g k i := by
  intro k
  induction k with
  | zero => intro i; rfl
  | succ k ih =>
    intro i
    rw [unfoldR, unfold]
    cases node g i with
    | var => rfl
    | atom c => rfl
    | str f as => simp only [Tree.node.injEq, true_and]; exact List.map_congr_left (fun c _ => ih c)

theorem indexOf_lt {l : List Nat} {x : Nat} (h : x ∈ l) : indexOf l x < l.length := by
  induction l with
  | nil => simp at h
  | cons y ys ih =>
    rw [indexOf]
    split
    · simp
    · next hne =>
      rcases List.mem_cons.mp h with rfl | h
      · exact absurd rfl hne
      · simp only [List.length_cons]; have := ih h; omega

theorem getD_indexOf {α} (l : List Nat) (u : Nat → α) (d : α) {x : Nat} (h : x ∈ l) :
    (l.map u).getD (indexOf l x) d = u x := by
  induction l with
  | nil => simp at h
  | cons y ys ih =>
    rw [indexOf]
    split
    · next he => subst he; simp
    · next hne =>
      rcases List.mem_cons.mp h with rfl | h
      · exact absurd rfl hne
      · simpa using ih h

theorem indexOf_inj {l : List Nat} {x y : Nat} (hx : x ∈ l) (hy : y ∈ l)
    (h : indexOf l x = indexOf l y) : x = y := by
  have h1 := getD_indexOf l id 0 hx
  have h2 := getD_indexOf l id 0 hy
  rw [h] at h1
  exact h1.symm.trans h2

theorem node_append_left (g : Graph) (arr : Array Node) {i : Nat} (h : i < g.size) :
    node (g ++ arr) i = node g i := by
  unfold node
  simp [Array.getD, h, Array.getElem_append_left, Nat.lt_of_lt_of_le h (Nat.le_add_right _ _)]

theorem node_append_right (g : Graph) (l : List Node) (j : Nat) :
    node (g ++ l.toArray) (g.size + j) = l.getD j .var := by
  unfold node
  by_cases hj : j < l.length
  · simp [Array.getD, hj, Array.getElem_append_right, List.getD_eq_getElem?_getD]
  · simp [Array.getD, hj, List.getD_eq_getElem?_getD]

/-- The copy: (1) the old nodes are untouched; (2) the new root denotes the tree of the old root
with every variable `x` renamed to the NEW node `fwd … x`; (3) the renaming is injective on the
reachable nodes and its values lie outside the old graph. -/
theorem copy_spec (g : Graph) (hw : WF g) (r : Nat) (hr : r < g.size) :
    let l := reachList g r
    let φ := fwd g.size l
    (∀ i, i < g.size → node (copy g r).1 i = node g i) ∧
    (∀ k, unfold (copy g r).1 k (copy g r).2 = unfoldR φ g k r) ∧
    (∀ x, g.size ≤ φ x) ∧
    (∀ x y, Reach g r x → Reach g r y → φ x = φ y → x = y) := by
  intro l φ
  obtain ⟨_, hl⟩ := reachList_spec g hw r hr
  have hnode : ∀ x, x ∈ l → node (copy g r).1 (φ x) = mapNode φ (node g x) := by
    intro x hx
    show node (g ++ (l.map fun i => mapNode φ (node g i)).toArray) (g.size + indexOf l x) = _
    rw [node_append_right]
    exact getD_indexOf l (fun i => mapNode φ (node g i)) .var hx
  refine ⟨fun i hi => node_append_left g _ hi, ?_, fun x => Nat.le_add_right _ _, ?_⟩
  · have key : ∀ k x, x ∈ l → unfold (copy g r).1 k (φ x) = unfoldR φ g k x := by
      intro k
      induction k with
      | zero => intro x _; rfl
      | succ k ih =>
        intro x hx
        rw [unfold, unfoldR, hnode x hx]
        cases hn : node g x with
        | var => rfl
        | atom c => rfl
        | str f as =>
          simp only [mapNode, List.map_map, Tree.node.injEq, true_and]
          apply List.map_congr_left
          intro c hc
          exact ih c ((hl c).mpr (((hl x).mp hx).tail ⟨f, as, hn, hc⟩))
    intro k
    exact key k r ((hl r).mpr Relation.ReflTransGen.refl)
  · intro x y hx hy h
    exact indexOf_inj ((hl x).mpr hx) ((hl y).mpr hy) (Nat.add_left_cancel h)

/-! ## unification: the fuel of `unify` is never exhausted -/

def UStepFuel (n F : Nat) (step : Nat → Nat → Bnd → Seen → UOut) : Prop :=
  ∀ a b bnd s, s.Nodup → Bounded n s → n * n + 1 ≤ F + s.length →
    step a b bnd s ≠ .fuel ∧
    ∀ bnd' s', step a b bnd s = .ok bnd' s' → s'.Nodup ∧ Bounded n s' ∧ s.length ≤ s'.length

theorem uniL_fuel {n F step} (hs : UStepFuel n F step) :
    ∀ ps bnd s, s.Nodup → Bounded n s → n * n + 1 ≤ F + s.length →
      uniL step ps bnd s ≠ .fuel ∧
      ∀ bnd' s', uniL step ps bnd s = .ok bnd' s' →
        s'.Nodup ∧ Bounded n s' ∧ s.length ≤ s'.length := by
  intro ps
  induction ps with
  | nil =>
    intro bnd s h1 h2 _
    refine ⟨by simp [uniL], ?_⟩
    intro bnd' s' h
    simp only [uniL, UOut.ok.injEq] at h
    obtain ⟨_, rfl⟩ := h
    exact ⟨h1, h2, Nat.le_refl _⟩
  | cons q ps ih =>
    intro bnd s h1 h2 h3
    obtain ⟨x, y⟩ := q
    obtain ⟨a1, a2⟩ := hs x y bnd s h1 h2 h3
    rw [uniL]
    cases hst : step x y bnd s with
    | ok b1' s1 =>
      obtain ⟨b1, b2, b3⟩ := a2 b1' s1 hst
      obtain ⟨c1, c2⟩ := ih b1' s1 b1 b2 (by omega)
      refine ⟨c1, ?_⟩
      intro bnd' s' h
      obtain ⟨d1, d2, d3⟩ := c2 bnd' s' h
      exact ⟨d1, d2, by omega⟩
    | fuel => exact absurd hst a1
    | fail => exact ⟨by simp, by intro _ _ h; cases h⟩

theorem uniN_fuel (g : Graph) : ∀ fuel, UStepFuel g.size fuel (uniN g fuel) := by
  intro fuel
  induction fuel with
  | zero =>
    intro a b bnd s h1 h2 h3
    have := nodup_pairs_length_le h1 h2
    omega
  | succ fuel ih =>
    intro a b bnd s h1 h2 h3
    have triv : ∀ (B : Bnd) bnd' s', UOut.ok B s = UOut.ok bnd' s' →
        s'.Nodup ∧ Bounded g.size s' ∧ s.length ≤ s'.length := by
      intro B bnd' s' h
      simp only [UOut.ok.injEq] at h
      obtain ⟨_, rfl⟩ := h
      exact ⟨h1, h2, Nat.le_refl _⟩
    rw [uniN]
    generalize deref g bnd (g.size + 1) a = a'
    generalize deref g bnd (g.size + 1) b = b'
    split
    · exact ⟨by simp, triv _⟩
    · cases hna : node g a' with
      | var => exact ⟨by simp, triv _⟩
      | atom c =>
        cases hnb : node g b' with
        | var => exact ⟨by simp, triv _⟩
        | atom d =>
          simp only
          split
          · exact ⟨by simp, triv _⟩
          · exact ⟨by simp, by intro _ _ h; cases h⟩
        | str f' bs => exact ⟨by simp, by intro _ _ h; cases h⟩
      | str f as =>
        cases hnb : node g b' with
        | var => exact ⟨by simp, triv _⟩
        | atom d => exact ⟨by simp, by intro _ _ h; cases h⟩
        | str f' bs =>
          simp only
          split
          · exact ⟨by simp, triv _⟩
          · next hc =>
            split
            · have hnot : (a', b') ∉ s := by simpa using hc
              have hb : Bounded g.size ((a', b') :: s) := by
                intro p hp
                rcases List.mem_cons.mp hp with rfl | hp
                · exact ⟨node_str_lt hna, node_str_lt hnb⟩
                · exact h2 p hp
              obtain ⟨c1, c2⟩ := uniL_fuel ih (as.zip bs) bnd ((a', b') :: s)
                (List.nodup_cons.mpr ⟨hnot, h1⟩) hb (by simp only [List.length_cons]; omega)
              refine ⟨c1, ?_⟩
              intro bnd' s' h
              obtain ⟨d1, d2, d3⟩ := c2 bnd' s' h
              simp only [List.length_cons] at d3
              exact ⟨d1, d2, by omega⟩
            · exact ⟨by simp, by intro _ _ h; cases h⟩

theorem unify_ne_fuel (g : Graph) (a b : Nat) : ∀ x, unify g a b = x → x ≠ .fuel := by
  intro x hx
  have := (uniN_fuel g (pairFuel g) a b [] [] List.nodup_nil (by intro p hp; simp at hp)
    (by simp [pairFuel])).1
  rw [← hx]
  exact this

end Scryer.Graph
