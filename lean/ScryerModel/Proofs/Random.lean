import ScryerModel.Model.Random
import Mathlib.Tactic.Ring
import Mathlib.Tactic.Linarith
import Mathlib.Tactic.NormNum
import Mathlib.Algebra.Order.Ring.Nat
/-! Helper lemmas for C52 (library(random)). -/
namespace Scryer.Random

/-! ### raw words -/

theorem w32_lt (s : Stream) (p : Nat) : w32 s p < 2 ^ 32 := by
  unfold w32; exact (s p).toNat_lt

theorem nextU64_lt (s : Stream) (p : Nat) : (nextU64 s p).1 < 2 ^ 64 := by
  have h1 := w32_lt s p; have h2 := w32_lt s (p + 1)
  simp only [nextU64]; omega

theorem nextU128_lt (s : Stream) (p : Nat) : (nextU128 s p).1 < 2 ^ 128 := by
  have h1 := nextU64_lt s p; have h2 := nextU64_lt s (p + 2)
  simp only [nextU128]; omega

theorem gen_lt (w : Width) (s : Stream) (p : Nat) : (gen w s p).1 < 2 ^ w.bits := by
  cases w
  · exact nextU64_lt s p
  · exact nextU128_lt s p

theorem gen_pos (w : Width) (s : Stream) (p : Nat) : p < (gen w s p).2 := by
  cases w <;> simp [gen, nextU64, nextU128]

theorem bits_pos (w : Width) : 0 < w.bits := by cases w <;> simp [Width.bits]

/-! ### the rejection loop -/

/-- every value accepted by the rejection loop is below `range` (whatever the zone). -/
theorem sampleLoop_lt (w : Width) (s : Stream) (range zn : Nat) (hr : 0 < range) :
    ∀ (fuel p : Nat) (r : Nat × Nat), sampleLoop w s range zn fuel p = some r → r.1 < range ∧ p < r.2 := by
  intro fuel
  induction fuel with
  | zero => intro p r h; simp [sampleLoop] at h
  | succ n ih =>
    intro p r h
    simp only [sampleLoop] at h
    split at h
    · cases h
      refine ⟨?_, gen_pos w s p⟩
      have hv := gen_lt w s p
      apply Nat.div_lt_of_lt_mul
      exact Nat.mul_lt_mul_of_pos_right hv hr
    · have := ih _ r h
      exact ⟨this.1, Nat.lt_trans (gen_pos w s p) this.2⟩

/-- more fuel does not change an answer. -/
theorem sampleLoop_mono (w : Width) (s : Stream) (range zn : Nat) :
    ∀ (fuel fuel' p : Nat) (r : Nat × Nat), fuel ≤ fuel' →
      sampleLoop w s range zn fuel p = some r → sampleLoop w s range zn fuel' p = some r := by
  intro fuel
  induction fuel with
  | zero => intro _ p r _ h; simp [sampleLoop] at h
  | succ n ih =>
    intro fuel' p r hle h
    obtain ⟨m, rfl⟩ : ∃ m, fuel' = m + 1 := ⟨fuel' - 1, by omega⟩
    simp only [sampleLoop] at h ⊢
    split
    · rename_i hc; simpa [hc] using h
    · rename_i hc; simp only [hc, if_false] at h; exact ih m _ r (by omega) h

theorem sampleOffset_lt (w : Width) (s : Stream) (range fuel p : Nat) (r : Nat × Nat)
    (h : sampleOffset w s range fuel p = some r) :
    (range = 0 → r.1 < 2 ^ w.bits) ∧ (0 < range → r.1 < range) ∧ p < r.2 := by
  unfold sampleOffset at h
  split at h
  · rename_i h0; cases h
    exact ⟨fun _ => gen_lt w s p, fun hp => absurd h0 (by omega), gen_pos w s p⟩
  · rename_i h0
    have := sampleLoop_lt w s range _ (by omega) fuel p r h
    exact ⟨fun h1 => absurd h1 h0, fun _ => this.1, this.2⟩

theorem sampleOffset_mono (w : Width) (s : Stream) (range fuel fuel' p : Nat) (r : Nat × Nat)
    (hle : fuel ≤ fuel') (h : sampleOffset w s range fuel p = some r) :
    sampleOffset w s range fuel' p = some r := by
  unfold sampleOffset at h ⊢
  split
  · rename_i h0; simpa [h0] using h
  · rename_i h0; simp only [h0, if_false] at h; exact sampleLoop_mono w s range _ fuel fuel' p r hle h

/-! ### zone -/

theorem log2_bounds {n : Nat} (h : n ≠ 0) : 2 ^ Nat.log2 n ≤ n ∧ n < 2 ^ (Nat.log2 n + 1) :=
  ⟨Nat.log2_self_le h, Nat.lt_log2_self⟩

theorem log2_lt_bits {n b : Nat} (h : n ≠ 0) (hb : n < 2 ^ b) : Nat.log2 n + 1 ≤ b := by
  have h1 := (log2_bounds h).1
  have : 2 ^ Nat.log2 n < 2 ^ b := Nat.lt_of_le_of_lt h1 hb
  have := (Nat.pow_lt_pow_iff_right (a := 2) (by omega)).1 this
  omega

/-- the shifted range does not overflow: `range << leading_zeros` is a `bits`-bit value with its
    top bit set. -/
theorem shifted_bounds (w : Width) {range : Nat} (h0 : range ≠ 0) (hlt : range < 2 ^ w.bits) :
    2 ^ (w.bits - 1) ≤ range * 2 ^ leadingZeros w.bits range ∧
    range * 2 ^ leadingZeros w.bits range < 2 ^ w.bits := by
  have hl := log2_lt_bits h0 hlt
  obtain ⟨h1, h2⟩ := log2_bounds h0
  unfold leadingZeros
  constructor
  · calc 2 ^ (w.bits - 1) = 2 ^ Nat.log2 range * 2 ^ (w.bits - (Nat.log2 range + 1)) := by
          rw [← Nat.pow_add]; congr 1; omega
      _ ≤ range * 2 ^ (w.bits - (Nat.log2 range + 1)) := Nat.mul_le_mul_right _ h1
  · calc range * 2 ^ (w.bits - (Nat.log2 range + 1))
          < 2 ^ (Nat.log2 range + 1) * 2 ^ (w.bits - (Nat.log2 range + 1)) :=
            Nat.mul_lt_mul_of_pos_right h2 (Nat.two_pow_pos _)
      _ = 2 ^ w.bits := by rw [← Nat.pow_add]; congr 1; omega

/-- closed form of the zone: the wrapping arithmetic never wraps. -/
theorem zone_eq (w : Width) {range : Nat} (h0 : range ≠ 0) (hlt : range < 2 ^ w.bits) :
    zone w range + 1 = range * 2 ^ leadingZeros w.bits range := by
  obtain ⟨h1, h2⟩ := shifted_bounds w h0 hlt
  have hp : 0 < range * 2 ^ leadingZeros w.bits range :=
    Nat.lt_of_lt_of_le (Nat.two_pow_pos _) h1
  unfold zone
  rw [Nat.mod_eq_of_lt h2]
  generalize range * 2 ^ leadingZeros w.bits range = x at *
  generalize 2 ^ w.bits = B at *
  have : (x + (B - 1)) = (x - 1) + B := by omega
  rw [this, Nat.add_mod_right, Nat.mod_eq_of_lt (by omega)]
  omega

/-! ### the i64 arm -/

theorem isFix_iff (n : Int) : isFix n = true ↔ -36028797018963968 ≤ n ∧ n < 36028797018963968 := by
  simp [isFix]

theorem genRangeI64_spec (s : Stream) (l u : Int) (fuel p : Nat) (r : Int × Nat)
    (hl : isFix l = true) (hu : isFix u = true) (hlu : l < u)
    (h : genRangeI64 s l u fuel p = some r) :
    l ≤ r.1 ∧ r.1 < u ∧ isFix r.1 = true ∧ p < r.2 := by
  rw [isFix_iff] at hl hu
  unfold genRangeI64 at h
  have hrange : toU64 (wrapI64 (wrapI64 ((u - 1) - l) + 1)) = (u - l).toNat := by
    unfold toU64 wrapI64; omega
  rw [hrange] at h
  split at h
  · cases h
  · rename_i x hx
    cases h
    have hs := sampleOffset_lt .w64 s (u - l).toNat fuel p x hx
    have hlt : x.1 < (u - l).toNat := hs.2.1 (by omega)
    have hv : wrapI64 (l + wrapI64 (x.1 : Int)) = l + (x.1 : Int) := by
      unfold wrapI64; omega
    simp only [hv]
    refine ⟨by omega, by omega, ?_, hs.2.2⟩
    rw [isFix_iff]; omega

/-! ### dashu `uniform_large` -/

theorem fillWords_lt (s : Stream) : ∀ (k p : Nat), (fillWords s k p).1 < 2 ^ (64 * k) ∧ p ≤ (fillWords s k p).2 := by
  intro k
  induction k with
  | zero => intro p; simp [fillWords]
  | succ k ih =>
    intro p
    have h1 := nextU64_lt s p
    have h2 := ih (p + 2)
    simp only [fillWords]
    refine ⟨?_, by omega⟩
    have : 2 ^ (64 * (k + 1)) = 2 ^ 64 * 2 ^ (64 * k) := by rw [← Nat.pow_add]; congr 1; omega
    rw [this]
    have h3 : 2 ^ 64 * ((fillWords s k (p + 2)).1 + 1) ≤ 2 ^ 64 * 2 ^ (64 * k) := Nat.mul_le_mul_left _ h2.1
    omega

/-- value of the words from index `i` upwards. -/
def hiPart (r i : Nat) : Nat := r / 2 ^ (64 * i)

theorem hiPart_succ (r i : Nat) : hiPart r i = hiPart r (i + 1) * 2 ^ 64 + word r i := by
  unfold hiPart word
  have : 2 ^ (64 * (i + 1)) = 2 ^ (64 * i) * 2 ^ 64 := by rw [← Nat.pow_add]; congr 1
  rw [this, ← Nat.div_div_eq_div_mul]
  have := Nat.div_add_mod (r / 2 ^ (64 * i)) (2 ^ 64)
  omega

theorem word_lt (r i : Nat) : word r i < 2 ^ 64 := Nat.mod_lt _ (by norm_num)

theorem tryDescend_lt (s : Stream) (r : Nat) :
    ∀ (i ri acc p v p' : Nat), acc = hiPart r (i + 1) * 2 ^ 64 + ri → ri ≤ word r i →
      tryDescend s r i ri acc p = (some v, p') → v < r ∧ p ≤ p' := by
  intro i
  induction i with
  | zero =>
    intro ri acc p v p' hacc hri h
    simp only [tryDescend] at h
    split at h
    · cases h
    · rename_i hne
      injection h with h1 h2
      injection h1 with h1
      subst h1; subst h2
      have := hiPart_succ r 0
      have h0 : hiPart r 0 = r := by simp [hiPart]
      refine ⟨?_, Nat.le_refl _⟩
      omega
  | succ i ih =>
    intro ri acc p v p' hacc hri h
    simp only [tryDescend] at h
    split at h
    · rename_i heq
      split at h
      · cases h
      · rename_i hx
        have hs := hiPart_succ r (i + 1)
        have := ih (nextU64 s p).1 (acc * 2 ^ 64 + (nextU64 s p).1) (p + 2) v p'
          (by rw [hacc, heq, ← hs]) (by omega) h
        exact ⟨this.1, by omega⟩
    · rename_i hne
      injection h with h1 h2
      injection h1 with h1
      have hf := fillWords_lt s (i + 1) p
      have hs := hiPart_succ r (i + 1)
      have hlt : acc + 1 ≤ hiPart r (i + 1) := by omega
      have h3 : (acc + 1) * 2 ^ (64 * (i + 1)) ≤ hiPart r (i + 1) * 2 ^ (64 * (i + 1)) :=
        Nat.mul_le_mul_right _ hlt
      have h4 : hiPart r (i + 1) * 2 ^ (64 * (i + 1)) ≤ r := Nat.div_mul_le_self _ _
      subst h1; subst h2
      refine ⟨?_, hf.2⟩
      have : (acc + 1) * 2 ^ (64 * (i + 1)) = acc * 2 ^ (64 * (i + 1)) + 2 ^ (64 * (i + 1)) := by ring
      omega

theorem lt_pow_numWords (r : Nat) : r < 2 ^ (64 * numWords r) := by
  unfold numWords
  have h1 : r < 2 ^ (Nat.log2 r + 1) := Nat.lt_log2_self
  have h2 : 2 ^ (Nat.log2 r + 1) ≤ 2 ^ (64 * (Nat.log2 r / 64 + 1)) :=
    Nat.pow_le_pow_right (by omega) (by omega)
  omega

theorem tryFill_lt (s : Stream) (r fuel p v p' : Nat)
    (h : tryFill s r fuel p = some (some v, p')) : v < r ∧ p < p' := by
  unfold tryFill at h
  split at h
  · cases h
  · rename_i x hx
    injection h with h
    have hs := sampleOffset_lt .w64 s _ fuel p x hx
    have hw := word_lt r (numWords r - 1)
    have hxle : x.1 ≤ word r (numWords r - 1) := by
      by_cases h0 : (word r (numWords r - 1) + 1) % 2 ^ 64 = 0
      · have := hs.1 h0
        simp only [Width.bits] at this
        omega
      · have := hs.2.1 (by omega)
        have hm : (word r (numWords r - 1) + 1) % 2 ^ 64 ≤ word r (numWords r - 1) + 1 := Nat.mod_le _ _
        omega
    have hhi : hiPart r (numWords r - 1 + 1) = 0 := by
      unfold hiPart
      apply Nat.div_eq_of_lt
      have : numWords r - 1 + 1 = numWords r := by unfold numWords; omega
      rw [this]; exact lt_pow_numWords r
    have := tryDescend_lt s r (numWords r - 1) x.1 x.1 x.2 v p' (by rw [hhi]; omega) hxle h
    exact ⟨this.1, by omega⟩

theorem tryFill_pos (s : Stream) (r fuel p p' : Nat) (o : Option Nat)
    (h : tryFill s r fuel p = some (o, p')) : p < p' := by
  unfold tryFill at h
  split at h
  · cases h
  · rename_i x hx
    injection h with h
    have hs := (sampleOffset_lt .w64 s _ fuel p x hx).2.2
    -- the descent never moves backwards
    have key : ∀ (i ri acc q : Nat), q ≤ (tryDescend s r i ri acc q).2 := by
      intro i
      induction i with
      | zero => intro ri acc q; simp only [tryDescend]; split <;> simp
      | succ i ih =>
        intro ri acc q
        simp only [tryDescend]
        split
        · split
          · simp
          · have := ih (nextU64 s q).1 (acc * 2 ^ 64 + (nextU64 s q).1) (q + 2); omega
        · exact (fillWords_lt s (i + 1) q).2
    have := key (numWords r - 1) x.1 x.1 x.2
    rw [h] at this
    simp at this
    omega

theorem uniformLarge_lt (s : Stream) (r fuel : Nat) :
    ∀ (k p : Nat) (x : Nat × Nat), uniformLarge s r fuel k p = some x → x.1 < r ∧ p < x.2 := by
  intro k
  induction k with
  | zero => intro p x h; simp [uniformLarge] at h
  | succ k ih =>
    intro p x h
    simp only [uniformLarge] at h
    split at h
    · cases h
    · rename_i v p' hv
      cases h
      exact tryFill_lt s r fuel p v p' hv
    · rename_i p' hv
      have h1 := tryFill_pos s r fuel p p' none hv
      have := ih p' x h
      exact ⟨this.1, by omega⟩

theorem uniformUBig_lt (s : Stream) (r fuel p : Nat) (x : Nat × Nat) (hr : 0 < r)
    (h : uniformUBig s r fuel p = some x) : x.1 < r ∧ p < x.2 := by
  unfold uniformUBig at h
  split at h
  · rename_i hlt
    have hrange : ((r - 1) % 2 ^ 128 + 1) % 2 ^ 128 = r := by
      have e1 : (r - 1) % 2 ^ 128 = r - 1 := Nat.mod_eq_of_lt (by omega)
      have e2 : r - 1 + 1 = r := by omega
      rw [e1, e2, Nat.mod_eq_of_lt hlt]
    rw [hrange] at h
    have := sampleOffset_lt .w128 s r fuel p x h
    exact ⟨this.2.1 hr, this.2.2⟩
  · exact uniformLarge_lt s r fuel fuel p x h

/-! ### `K / 2^50` as a double -/

theorem ratioBits_spec {k : Nat} (hk : 0 < k) (hlt : k < 2 ^ 53) :
    ratioBits k / 2 ^ 52 = Nat.log2 k + 973 ∧
    (2 ^ 52 + ratioBits k % 2 ^ 52) * 2 ^ 50 = k * 2 ^ (1075 - (Nat.log2 k + 973)) := by
  have h0 : k ≠ 0 := by omega
  obtain ⟨h1, h2⟩ := log2_bounds h0
  have hl : Nat.log2 k + 1 ≤ 53 := log2_lt_bits h0 hlt
  have hlo : 2 ^ 52 ≤ k * 2 ^ (52 - Nat.log2 k) := by
    calc 2 ^ 52 = 2 ^ Nat.log2 k * 2 ^ (52 - Nat.log2 k) := by rw [← Nat.pow_add]; congr 1; omega
      _ ≤ k * 2 ^ (52 - Nat.log2 k) := Nat.mul_le_mul_right _ h1
  have hhi : k * 2 ^ (52 - Nat.log2 k) < 2 ^ 53 := by
    calc k * 2 ^ (52 - Nat.log2 k) < 2 ^ (Nat.log2 k + 1) * 2 ^ (52 - Nat.log2 k) :=
          Nat.mul_lt_mul_of_pos_right h2 (Nat.two_pow_pos _)
      _ = 2 ^ 53 := by rw [← Nat.pow_add]; congr 1; omega
  have hm : k * 2 ^ (52 - Nat.log2 k) - 2 ^ 52 < 2 ^ 52 := by omega
  unfold ratioBits
  rw [if_neg h0]
  have e1 : ((Nat.log2 k + 973) * 2 ^ 52 + (k * 2 ^ (52 - Nat.log2 k) - 2 ^ 52)) / 2 ^ 52 = Nat.log2 k + 973 := by
    generalize k * 2 ^ (52 - Nat.log2 k) - 2 ^ 52 = m at hm
    generalize Nat.log2 k + 973 = a
    omega
  have e2 : ((Nat.log2 k + 973) * 2 ^ 52 + (k * 2 ^ (52 - Nat.log2 k) - 2 ^ 52)) % 2 ^ 52
      = k * 2 ^ (52 - Nat.log2 k) - 2 ^ 52 := by
    generalize k * 2 ^ (52 - Nat.log2 k) - 2 ^ 52 = m at hm
    generalize Nat.log2 k + 973 = a
    omega
  refine ⟨e1, ?_⟩
  rw [e2]
  have : 2 ^ 52 + (k * 2 ^ (52 - Nat.log2 k) - 2 ^ 52) = k * 2 ^ (52 - Nat.log2 k) := by omega
  have e3 : 52 - Nat.log2 k + 50 = 1075 - (Nat.log2 k + 973) := by omega
  rw [this, Nat.mul_assoc, ← Nat.pow_add, e3]

/-! ### fuel only bounds the search: more fuel never changes an answer -/

theorem tryFill_mono (s : Stream) (r fuel fuel' p : Nat) (y : Option Nat × Nat) (hle : fuel ≤ fuel')
    (h : tryFill s r fuel p = some y) : tryFill s r fuel' p = some y := by
  unfold tryFill at h ⊢
  split at h
  · cases h
  · rename_i x hx
    rw [sampleOffset_mono .w64 s _ fuel fuel' p x hle hx]
    exact h

theorem uniformLarge_mono (s : Stream) (r fuel fuel' : Nat) (hle : fuel ≤ fuel') :
    ∀ (k k' p : Nat) (x : Nat × Nat), k ≤ k' →
      uniformLarge s r fuel k p = some x → uniformLarge s r fuel' k' p = some x := by
  intro k
  induction k with
  | zero => intro _ p x _ h; simp [uniformLarge] at h
  | succ k ih =>
    intro k' p x hk h
    obtain ⟨m, rfl⟩ : ∃ m, k' = m + 1 := ⟨k' - 1, by omega⟩
    simp only [uniformLarge] at h ⊢
    split at h
    · cases h
    · rename_i v p' hv
      rw [tryFill_mono s r fuel fuel' p _ hle hv]; exact h
    · rename_i p' hv
      rw [tryFill_mono s r fuel fuel' p _ hle hv]
      exact ih m p' x (by omega) h

theorem uniformUBig_mono (s : Stream) (r fuel fuel' p : Nat) (x : Nat × Nat) (hle : fuel ≤ fuel')
    (h : uniformUBig s r fuel p = some x) : uniformUBig s r fuel' p = some x := by
  unfold uniformUBig at h ⊢
  split
  · rename_i hlt; rw [if_pos hlt] at h; exact sampleOffset_mono .w128 s _ fuel fuel' p x hle h
  · rename_i hlt; rw [if_neg hlt] at h; exact uniformLarge_mono s r fuel fuel' hle fuel fuel' p x hle h

theorem genRangeI64_mono (s : Stream) (l u : Int) (fuel fuel' p : Nat) (x : Int × Nat) (hle : fuel ≤ fuel')
    (h : genRangeI64 s l u fuel p = some x) : genRangeI64 s l u fuel' p = some x := by
  unfold genRangeI64 at h ⊢
  split at h
  · cases h
  · rename_i y hy
    rw [sampleOffset_mono .w64 s _ fuel fuel' p y hle hy]; exact h

theorem sysRandomInteger_mono (s : Stream) (l u : Int) (lb ub : Bool) (fuel fuel' p : Nat) (x : Res × Nat)
    (hle : fuel ≤ fuel') (h : sysRandomInteger s l u lb ub fuel p = some x) :
    sysRandomInteger s l u lb ub fuel' p = some x := by
  unfold sysRandomInteger at h ⊢
  split
  · rename_i hc; rw [if_pos hc] at h
    split
    · rename_i hge; rw [if_pos hge] at h; exact h
    · rename_i hge; rw [if_neg hge] at h
      split at h
      · cases h
      · rename_i y hy; rw [genRangeI64_mono s l u fuel fuel' p y hle hy]; exact h
  · rename_i hc; rw [if_neg hc] at h
    split
    · rename_i hge; rw [if_pos hge] at h; exact h
    · rename_i hge; rw [if_neg hge] at h
      split at h
      · cases h
      · rename_i y hy; rw [uniformUBig_mono s _ fuel fuel' p y hle hy]; exact h

/-! ### counting accepted raw words (uniformity) -/

theorem ceil_le_iff (n d v : Nat) (hd : 0 < d) : (n + d - 1) / d ≤ v ↔ n ≤ v * d := by
  rw [Nat.div_le_iff_le_mul_add_pred hd, Nat.mul_comm d v]
  omega

/-- acceptance with high word `k`  ⇔  the product lies in the window `[k·B, k·B + range·m)`. -/
theorem accept_iff_window (B range m k x : Nat) (hZ : range * m ≤ B) :
    (x % B < range * m ∧ x / B = k) ↔ (k * B ≤ x ∧ x < k * B + range * m) := by
  have hdm := Nat.div_add_mod x B
  constructor
  · rintro ⟨h1, h2⟩
    rw [h2, Nat.mul_comm] at hdm
    omega
  · rintro ⟨h1, h2⟩
    have hd : x / B = k := Nat.div_eq_of_lt_le h1 (by rw [Nat.add_mul]; omega)
    rw [hd, Nat.mul_comm] at hdm
    exact ⟨by omega, hd⟩

/-- the window `[k·B, k·B + range·m)` contains the multiples `v·range` for exactly the `m`
    consecutive `v` starting at `⌈k·B / range⌉`. -/
theorem window_iff_Ico (B range m k v : Nat) (hr : 0 < range) :
    (k * B ≤ v * range ∧ v * range < k * B + range * m) ↔
      ((k * B + range - 1) / range ≤ v ∧ v < (k * B + range - 1) / range + m) := by
  rw [ceil_le_iff _ _ _ hr]
  have key : (k * B + range - 1) / range + m ≤ v ↔ k * B + range * m ≤ v * range := by
    constructor
    · intro h
      have hmv : m ≤ v := Nat.le_trans (Nat.le_add_left m _) h
      obtain ⟨v', rfl⟩ : ∃ v', v = v' + m := ⟨v - m, by omega⟩
      have := (ceil_le_iff (k * B) range v' hr).1 (Nat.le_of_add_le_add_right h)
      rw [Nat.add_mul, Nat.mul_comm m range]; omega
    · intro h
      have hm : m ≤ v := by
        have : range * m ≤ range * v := by rw [Nat.mul_comm range v]; omega
        exact Nat.le_of_mul_le_mul_left this hr
      obtain ⟨v', rfl⟩ : ∃ v', v = v' + m := ⟨v - m, by omega⟩
      rw [Nat.add_mul, Nat.mul_comm m range] at h
      have := (ceil_le_iff (k * B) range v' hr).2 (by omega)
      omega
  constructor
  · rintro ⟨h1, h2⟩; exact ⟨h1, by rw [← Nat.not_le, key]; omega⟩
  · rintro ⟨h1, h2⟩; exact ⟨h1, by rw [← Nat.not_le, key] at h2; omega⟩

end Scryer.Random
