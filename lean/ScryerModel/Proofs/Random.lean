import ScryerModel.Model.Random
import Mathlib.Tactic.Ring
import Mathlib.Tactic.Linarith
import Mathlib.Algebra.Order.Ring.Nat
/-! Helper lemmas for C52 (library(random)). -/
namespace Scryer.Random

theorem w32_lt (s : Stream) (p : Nat) : w32 s p < 2 ^ 32 := by
  unfold w32; exact (s p).toNat_lt

theorem nextU64_lt (s : Stream) (p : Nat) : (nextU64 s p).1 < 2 ^ 64 := by
  have h1 := w32_lt s p; have h2 := w32_lt s (p + 1)
  simp only [nextU64]; omega

theorem nextU128_lt (s : Stream) (p : Nat) : (nextU128 s p).1 < 2 ^ 128 := by
  have h1 := nextU64_lt s p; have h2 := nextU64_lt s (p + 2)
  simp only [nextU128]; omega

theorem gen_lt (w : Width) (s : Stream) (p : Nat) : (gen w s p).1 < 2 ^ w.bits := by
  cases w
  · exact nextU64_lt s p
  · exact nextU128_lt s p

theorem gen_pos (w : Width) (s : Stream) (p : Nat) : p < (gen w s p).2 := by
  cases w <;> simp [gen, nextU64, nextU128]

/-- every value accepted by the rejection loop is below `range` (whatever the zone). -/
theorem sampleLoop_lt (w : Width) (s : Stream) (range zn : Nat) (hr : 0 < range) :
    ∀ (fuel p : Nat) (r : Nat × Nat), sampleLoop w s range zn fuel p = some r → r.1 < range ∧ p < r.2 := by
  intro fuel
  induction fuel with
  | zero => intro p r h; simp [sampleLoop] at h
  | succ n ih =>
    intro p r h
    simp only [sampleLoop] at h
    split at h
    · cases h
      refine ⟨?_, gen_pos w s p⟩
      have hv := gen_lt w s p
      apply Nat.div_lt_of_lt_mul
      exact Nat.mul_lt_mul_of_pos_right hv hr
    · have := ih _ r h
      exact ⟨this.1, Nat.lt_trans (gen_pos w s p) this.2⟩

end Scryer.Random
