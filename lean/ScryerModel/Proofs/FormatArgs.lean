import ScryerModel.Proofs.FormatThms
/-! C36: argument consumption of `cells` (phase 1) and error propagation of phase 2. -/
namespace Scryer.Format
open Scryer

theorem takeNum_append {spec : NumSpec} {args : List Arg} {r : R Int} {as : List Arg}
    (h : takeNum spec args = some (r, as)) (extra : List Arg) :
    takeNum spec (args ++ extra) = some (r, as ++ extra) := by
  cases spec with
  | lit n => simp [takeNum] at h ⊢; obtain ⟨rfl, rfl⟩ := h; exact ⟨rfl, rfl⟩
  | star =>
    cases args with
    | nil => simp [takeNum] at h
    | cons a as' =>
      simp only [takeNum, List.cons_append] at h ⊢
      split at h <;> simp_all

/-- a step that succeeds on `args` does the same on `args ++ extra` and leaves `extra` behind. -/
theorem step_append (tok : Tok) (src : List Char) (args extra : List Arg) :
    (∀ e as, step tok src args = .push e as → step tok src (args ++ extra) = .push e (as ++ extra)) ∧
    (∀ as, step tok src args = .skip as → step tok src (args ++ extra) = .skip (as ++ extra)) ∧
    (∀ sp nl as, step tok src args = .close sp nl as →
      step tok src (args ++ extra) = .close sp nl (as ++ extra)) := by
  cases tok with
  | text t => simp [step]
  | tilde => simp [step]
  | fill c => simp [step]
  | bad => simp [step]
  | nl1 => simp [step]
  | colHere => simp [step]
  | plain c =>
    cases args with
    | nil => simp [step]
    | cons a as =>
      simp only [step, List.cons_append]
      cases plainElem c a <;> simp
  | num spec c =>
    cases ht : takeNum spec args with
    | none => simp [step, ht]
    | some p =>
      obtain ⟨r, as⟩ := p
      have ht' := takeNum_append ht extra
      cases r with
      | error e => simp [step, ht]
      | ok n =>
        simp only [step, ht, ht']
        cases hc : numClose c n with
        | some rc =>
          cases rc with
          | error e => simp
          | ok p => obtain ⟨sp, nl⟩ := p; simp
        | none =>
          cases as with
          | nil => simp
          | cons a as' =>
            simp only [List.cons_append]
            cases numGoal c n a.t <;> simp

/-- too many arguments: if the format string is satisfied by `args`, any non-empty surplus is
    reported as `domain_error(empty_list, Surplus)`. -/
theorem cells_extra (extra : List Arg) (hx : extra ≠ []) :
    ∀ (toks : List (Tok × List Char)) (args : List Arg) (es : List Elem) (cs : List Cell),
      cells toks args es = .ok cs →
      cells toks (args ++ extra) es = .error (.dom "empty_list" (Term.ofList (extra.map (·.t)))) := by
  intro toks
  induction toks with
  | nil =>
    intro args es cs h
    simp only [cells] at h
    split at h
    · rename_i he
      have : args = [] := by simpa using he
      subst this
      simp only [cells, List.nil_append]
      have : extra.isEmpty = false := by cases extra <;> simp_all
      simp [this]
    · simp at h
  | cons tk ts ih =>
    intro args es cs h
    obtain ⟨tok, src⟩ := tk
    obtain ⟨h1, h2, h3⟩ := step_append tok src args extra
    simp only [cells] at h ⊢
    cases hs : step tok src args with
    | err e => simp [hs] at h
    | push e as => rw [hs] at h; rw [h1 e as hs]; exact ih _ _ _ h
    | skip as => rw [hs] at h; rw [h2 as hs]; exact ih _ _ _ h
    | close sp nl as =>
      rw [hs] at h; rw [h3 sp nl as hs]
      simp only at h ⊢
      cases hr : cells ts as [] with
      | error e => simp [hr] at h
      | ok rest => rw [ih _ _ _ hr]

def IsArgCountErr (e : Err) : Prop :=
  e = .dom "non_empty_list" Term.nil ∨ ∃ s, e = .dom "format_string" s

theorem directiveErr_isArgCountErr (src : List Char) (args : List Arg) :
    IsArgCountErr (directiveErr src args) := by
  unfold directiveErr IsArgCountErr
  split
  · exact Or.inl rfl
  · exact Or.inr ⟨_, rfl⟩

/-- a step that succeeds on `pre ++ x :: rest`: on `pre` alone it either does the same thing
    (and leaves a strict prefix of what it left before) or raises the argument-count error. -/
theorem step_prefix (tok : Tok) (src : List Char) (pre : List Arg) (x : Arg) (rest : List Arg) :
    (∀ e as, step tok src (pre ++ x :: rest) = .push e as →
      (∃ e', step tok src pre = .err e' ∧ IsArgCountErr e') ∨
      (∃ pre', as = pre' ++ x :: rest ∧ step tok src pre = .push e pre')) ∧
    (∀ as, step tok src (pre ++ x :: rest) = .skip as →
      (∃ e', step tok src pre = .err e' ∧ IsArgCountErr e') ∨
      (∃ pre', as = pre' ++ x :: rest ∧ step tok src pre = .skip pre')) ∧
    (∀ sp nl as, step tok src (pre ++ x :: rest) = .close sp nl as →
      (∃ e', step tok src pre = .err e' ∧ IsArgCountErr e') ∨
      (∃ pre', as = pre' ++ x :: rest ∧ step tok src pre = .close sp nl pre')) := by
  cases tok with
  | text t => simp [step]
  | tilde => simp [step]
  | fill c => simp [step]
  | bad => simp [step]
  | nl1 => simp [step]
  | colHere => simp [step]
  | plain c =>
    cases pre with
    | nil =>
      refine ⟨?_, ?_, ?_⟩ <;> intros <;> left <;>
        exact ⟨_, by simp [step], directiveErr_isArgCountErr src []⟩
    | cons a as =>
      simp only [step, List.cons_append]
      cases plainElem c a <;> simp
  | num spec c =>
    cases spec with
    | lit n =>
      simp only [step, takeNum]
      cases hc : numClose c n with
      | some rc =>
        cases rc with
        | error e => simp
        | ok p => obtain ⟨sp, nl⟩ := p; simp
      | none =>
        cases pre with
        | nil =>
          simp only [List.nil_append]
          refine ⟨?_, ?_, ?_⟩ <;> intros <;> left <;>
            exact ⟨_, rfl, directiveErr_isArgCountErr src []⟩
        | cons a as =>
          simp only [List.cons_append]
          cases numGoal c n a.t <;> simp
    | star =>
      cases pre with
      | nil =>
        refine ⟨?_, ?_, ?_⟩ <;> intros <;> left <;>
          exact ⟨_, by simp [step, takeNum], directiveErr_isArgCountErr src []⟩
      | cons a as =>
        simp only [step, takeNum, List.cons_append]
        cases hat : a.t with
        | int v =>
          simp only
          cases hc : numClose c v with
          | some rc =>
            cases rc with
            | error e => simp
            | ok p => obtain ⟨sp, nl⟩ := p; simp
          | none =>
            cases as with
            | nil =>
              simp only [List.nil_append]
              refine ⟨?_, ?_, ?_⟩ <;> intros <;> left <;>
                exact ⟨_, rfl, directiveErr_isArgCountErr src [a]⟩
            | cons b bs =>
              simp only [List.cons_append]
              cases numGoal c v b.t <;> simp
        | var _ => simp
        | rat _ _ => simp
        | flt _ => simp
        | atom _ => simp
        | str _ _ => simp

/-- too few arguments: if the format string is satisfied by `pre ++ x :: rest`, then with the
    arguments `pre` alone the documented error is raised in phase 1 (nothing is printed). -/
theorem cells_prefix (x : Arg) (rest : List Arg) :
    ∀ (toks : List (Tok × List Char)) (pre : List Arg) (es : List Elem) (cs : List Cell),
      cells toks (pre ++ x :: rest) es = .ok cs →
      ∃ e, cells toks pre es = .error e ∧ IsArgCountErr e := by
  intro toks
  induction toks with
  | nil =>
    intro pre es cs h
    simp [cells] at h
  | cons tk ts ih =>
    intro pre es cs h
    obtain ⟨tok, src⟩ := tk
    obtain ⟨h1, h2, h3⟩ := step_prefix tok src pre x rest
    simp only [cells] at h ⊢
    cases hs : step tok src (pre ++ x :: rest) with
    | err e => simp [hs] at h
    | push e as =>
      rw [hs] at h
      rcases h1 e as hs with ⟨e', he, hc⟩ | ⟨pre', rfl, hp⟩
      · exact ⟨e', by rw [he], hc⟩
      · rw [hp]; exact ih _ _ _ h
    | skip as =>
      rw [hs] at h
      rcases h2 as hs with ⟨e', he, hc⟩ | ⟨pre', rfl, hp⟩
      · exact ⟨e', by rw [he], hc⟩
      · rw [hp]; exact ih _ _ _ h
    | close sp nl as =>
      rw [hs] at h
      rcases h3 sp nl as hs with ⟨e', he, hc⟩ | ⟨pre', rfl, hp⟩
      · exact ⟨e', by rw [he], hc⟩
      · rw [hp]
        simp only at h ⊢
        cases hr : cells ts (pre' ++ x :: rest) [] with
        | error e => simp [hr] at h
        | ok r =>
          obtain ⟨e, he, hc⟩ := ih _ _ _ hr
          exact ⟨e, by rw [he], hc⟩

/-- an unknown directive: phase 1 never succeeds, whatever the arguments. -/
theorem cells_bad :
    ∀ (toks : List (Tok × List Char)), (∃ src, (Tok.bad, src) ∈ toks) →
      ∀ (args : List Arg) (es : List Elem), ∃ e, cells toks args es = .error e := by
  intro toks
  induction toks with
  | nil => intro h; simp at h
  | cons tk ts ih =>
    intro hmem args es
    obtain ⟨tok, src⟩ := tk
    simp only [cells]
    by_cases hb : tok = .bad
    · subst hb; exact ⟨directiveErr src args, by simp [step]⟩
    · have hts : ∃ s, (Tok.bad, s) ∈ ts := by
        obtain ⟨s, hs⟩ := hmem
        rcases List.mem_cons.mp hs with h | h
        · exact absurd (congrArg Prod.fst h).symm hb
        · exact ⟨s, h⟩
      cases step tok src args with
      | err e => exact ⟨e, rfl⟩
      | push e as => exact ih hts _ _
      | skip as => exact ih hts _ _
      | close sp nl as =>
        obtain ⟨e, he⟩ := ih hts as []
        exact ⟨e, by simp [he]⟩

/-! ## phase 2: an error of any goal is the result (no partial output) -/

def goalsOf : List Elem → List Goal
  | [] => []
  | .goal g :: es => g :: goalsOf es
  | _ :: es => goalsOf es

theorem evalElems_ok (cfg : Cfg) (prim : FPrim) :
    ∀ (es : List Elem) (segs : List Seg), evalElems cfg prim es = .ok segs →
      ∀ g ∈ goalsOf es, ∃ cs, runGoal cfg prim g = .ok cs := by
  intro es
  induction es with
  | nil => intro segs _ g hg; simp [goalsOf] at hg
  | cons e es ih =>
    intro segs h g hg
    cases e with
    | chars cs =>
      simp only [evalElems] at h
      cases hr : evalElems cfg prim es with
      | error e => simp [hr, bind, Except.bind] at h
      | ok r => exact ih r hr g (by simpa [goalsOf] using hg)
    | glue c =>
      simp only [evalElems] at h
      cases hr : evalElems cfg prim es with
      | error e => simp [hr, bind, Except.bind] at h
      | ok r => exact ih r hr g (by simpa [goalsOf] using hg)
    | goal g' =>
      simp only [evalElems] at h
      cases hg' : runGoal cfg prim g' with
      | error e => simp [hg'] at h
      | ok cs =>
        cases hr : evalElems cfg prim es with
        | error e => simp [hg', hr, bind, Except.bind] at h
        | ok r =>
          simp only [goalsOf, List.mem_cons] at hg
          rcases hg with rfl | hg
          · exact ⟨cs, hg'⟩
          · exact ih r hr g hg

def cellGoals : List Cell → List Goal
  | [] => []
  | .cell _ es :: cs => goalsOf es ++ cellGoals cs
  | .newlines _ :: cs => cellGoals cs

theorem renderCells_ok (prim : FPrim) :
    ∀ (cs : List Cell) (tab : Int) (out : List Char), renderCells {} prim cs tab = .ok out →
      ∀ g ∈ cellGoals cs, ∃ t, runGoal {} prim g = .ok t := by
  intro cs
  induction cs with
  | nil => intro tab out _ g hg; simp [cellGoals] at hg
  | cons c cs ih =>
    intro tab out h g hg
    cases c with
    | newlines k =>
      simp only [renderCells] at h
      cases hr : renderCells {} prim cs 0 with
      | error e => simp [hr, bind, Except.bind] at h
      | ok r => exact ih 0 r hr g (by simpa [cellGoals] using hg)
    | cell spec es =>
      simp only [renderCells] at h
      cases he : evalElems {} prim es with
      | error e => simp [he] at h
      | ok segs =>
        simp only [he, Bool.false_and, Bool.false_eq_true, ↓reduceIte] at h
        cases hr : renderCells {} prim cs (cellTo tab (textWidth segs) spec) with
        | error e => simp [hr] at h
        | ok r =>
          simp only [cellGoals, List.mem_append] at hg
          rcases hg with hg | hg
          · exact evalElems_ok {} prim es segs he g hg
          · exact ih _ r hr g hg

end Scryer.Format
