import ScryerModel.Model.Cwil
/-! The counter mechanism (`CWIL`, Model/Cwil.lean layer 2) against the stack of remaining budgets. -/
namespace Scryer.Cwil

def pushIf (lc r lvl : Nat) (st : List (Nat × Nat)) : List (Nat × Nat) :=
  match st with
  | (inner, _) :: _ => if inner ≤ r + lc then st else (r + lc, lvl) :: st
  | [] => [(r + lc, lvl)]

/-- the limit stack the implementation holds when the remaining budgets are `rs` and the local
count is `lc`: only the strict prefix minima are pushed. -/
def expected (lc : Nat) : Spec → List (Nat × Nat)
  | [] => []
  | r :: rest => pushIf lc r (rest.length + 1) (expected lc rest)

structure Inv (m : MSt) (rs : Spec) : Prop where
  flag : m.c.exceeded = false
  depth : m.depth = rs.length
  lims : m.c.limits = expected m.c.localCount rs

theorem addLimit_limits (c : CWIL) (l blk : Nat) :
    (c.addLimit l blk).1.limits = pushIf c.localCount l blk c.limits := by
  unfold CWIL.addLimit pushIf
  cases h : c.limits with
  | nil => simp
  | cons p tl =>
    obtain ⟨inner, b⟩ := p
    simp only
    split <;> simp_all

theorem addLimit_other (c : CWIL) (l blk : Nat) :
    (c.addLimit l blk).1.localCount = c.localCount ∧ (c.addLimit l blk).1.exceeded = c.exceeded := by
  unfold CWIL.addLimit
  cases h : c.limits with
  | nil => simp
  | cons p tl =>
    obtain ⟨inner, b⟩ := p
    simp only
    split <;> simp

theorem pushIf_ne_nil (lc r lvl : Nat) (st : List (Nat × Nat)) : pushIf lc r lvl st ≠ [] := by
  unfold pushIf
  cases st with
  | nil => simp
  | cons p tl => obtain ⟨a, b⟩ := p; simp only; split <;> simp

theorem expected_nil {lc : Nat} {rs : Spec} (h : expected lc rs = []) : rs = [] := by
  cases rs with
  | nil => rfl
  | cons r rest => exact absurd h (pushIf_ne_nil lc r (rest.length + 1) (expected lc rest))

/-- head of the expected stack: absolute limit ≥ lc; it equals lc exactly when some budget is
exhausted, and then its block is the outermost exhausted level. -/
theorem expected_head (lc : Nat) : ∀ (rs : Spec) (a j : Nat) (tl : List (Nat × Nat)),
    expected lc rs = (a, j) :: tl →
      lc ≤ a ∧ 1 ≤ j ∧ j ≤ rs.length ∧ (a = lc → firing rs = some j) ∧ (a ≠ lc → firing rs = none) := by
  intro rs
  induction rs with
  | nil => intro a j tl h; simp [expected] at h
  | cons r rest ih =>
    intro a j tl h
    simp only [expected, pushIf] at h
    cases hst : expected lc rest with
    | nil =>
      have hr := expected_nil hst
      subst hr
      rw [hst] at h
      simp only [List.cons.injEq, Prod.mk.injEq] at h
      obtain ⟨⟨ha, hj⟩, _⟩ := h
      subst ha; subst hj
      refine ⟨by omega, by simp, by simp, ?_, ?_⟩
      · intro e
        have : r = 0 := by omega
        simp [firing, this]
      · intro e
        have : r ≠ 0 := by omega
        simp [firing, this]
    | cons p tl' =>
      obtain ⟨inner, j'⟩ := p
      rw [hst] at h
      simp only at h
      obtain ⟨h1, h2, h3, h4, h5⟩ := ih inner j' tl' hst
      by_cases hle : inner ≤ r + lc
      · rw [if_pos hle] at h
        simp only [List.cons.injEq, Prod.mk.injEq] at h
        obtain ⟨⟨ha, hj⟩, _⟩ := h
        subst ha; subst hj
        refine ⟨h1, h2, by simp; omega, ?_, ?_⟩
        · intro e
          simp [firing, h4 e]
        · intro e
          have hr : r ≠ 0 := by omega
          simp [firing, h5 e, hr]
      · rw [if_neg hle] at h
        simp only [List.cons.injEq, Prod.mk.injEq] at h
        obtain ⟨⟨ha, hj⟩, _⟩ := h
        subst ha; subst hj
        have hin : inner ≠ lc := by omega
        refine ⟨by omega, by omega, by simp, ?_, ?_⟩
        · intro e
          have : r = 0 := by omega
          simp [firing, h5 hin, this]
        · intro e
          have : r ≠ 0 := by omega
          simp [firing, h5 hin, this]

theorem firing_none_pos : ∀ (rs : Spec), firing rs = none → ∀ r ∈ rs, r ≠ 0 := by
  intro rs
  induction rs with
  | nil => intro _ r hr; simp at hr
  | cons x rest ih =>
    intro h r hr
    simp only [firing] at h
    cases hf : firing rest with
    | some j => simp [hf] at h
    | none =>
      simp only [hf] at h
      have hx : x ≠ 0 := by
        intro e; simp [e] at h
      cases hr with
      | head => exact hx
      | tail _ hm => exact ih hf r hm

/-- a tick that does not fire leaves the stack of absolute limits unchanged. -/
theorem expected_tick (lc : Nat) : ∀ (rs : Spec), (∀ r ∈ rs, r ≠ 0) →
    expected (lc + 1) (rs.map (· - 1)) = expected lc rs := by
  intro rs
  induction rs with
  | nil => intro _; rfl
  | cons r rest ih =>
    intro h
    have hr : r ≠ 0 := h r (by simp)
    have ih' := ih (fun x hx => h x (by simp [hx]))
    simp only [List.map_cons, expected, List.length_map, ih']
    have e : r - 1 + (lc + 1) = r + lc := by omega
    simp [pushIf, e]

theorem keepOuter_cons (j : Nat) (r : Nat) (rest : Spec) (h : j ≤ rest.length) :
    keepOuter j (r :: rest) = keepOuter j rest := by
  unfold keepOuter
  have : (r :: rest).length - j = (rest.length - j) + 1 := by simp; omega
  rw [this]; rfl

theorem keepOuter_length (j : Nat) (rs : Spec) (h : j ≤ rs.length) : (keepOuter j rs).length = j := by
  unfold keepOuter; simp; omega

/-- below the head, the stack is the stack of the levels outside the head's level. -/
theorem expected_tail (lc : Nat) : ∀ (rs : Spec) (a j : Nat) (tl : List (Nat × Nat)),
    expected lc rs = (a, j) :: tl → tl = expected lc (keepOuter (j - 1) rs) := by
  intro rs
  induction rs with
  | nil => intro a j tl h; simp [expected] at h
  | cons r rest ih =>
    intro a j tl h
    simp only [expected, pushIf] at h
    cases hst : expected lc rest with
    | nil =>
      have hr := expected_nil hst
      subst hr
      rw [hst] at h
      simp only [List.cons.injEq, Prod.mk.injEq] at h
      obtain ⟨⟨_, hj⟩, ht⟩ := h
      subst hj; subst ht
      simp [keepOuter, expected]
    | cons p tl' =>
      obtain ⟨inner, j'⟩ := p
      rw [hst] at h
      simp only at h
      obtain ⟨_, h2, h3, _, _⟩ := expected_head lc rest inner j' tl' hst
      by_cases hle : inner ≤ r + lc
      · rw [if_pos hle] at h
        simp only [List.cons.injEq, Prod.mk.injEq] at h
        obtain ⟨⟨_, hj⟩, ht⟩ := h
        subst hj; subst ht
        rw [keepOuter_cons _ _ _ (by omega)]
        exact ih inner j' tl' hst
      · rw [if_neg hle] at h
        simp only [List.cons.injEq, Prod.mk.injEq] at h
        obtain ⟨⟨_, hj⟩, ht⟩ := h
        subst hj; subst ht
        simp [keepOuter, hst]

theorem removeCallPolicyCheck_inv (c : CWIL) (rs : Spec) (d : Nat) (hf : c.exceeded = false)
    (hd : d = rs.length) (hl : c.limits = expected c.localCount rs) :
    Inv ⟨c.removeCallPolicyCheck true, d⟩ rs := by
  unfold CWIL.removeCallPolicyCheck
  by_cases he : c.limits.isEmpty = true
  · simp only [Bool.true_and, he, if_true]
    have hn : c.limits = [] := by simpa using he
    have hrs : rs = [] := expected_nil (hl ▸ hn)
    subst hrs
    exact ⟨rfl, hd, by simp [CWIL.reset, expected]⟩
  · simp only [Bool.true_and, he]
    exact ⟨hf, hd, hl⟩

/-- leaving the innermost level (repaired or pinned handler: the flag is not set here). -/
theorem mleave_inv (fixed : Bool) (m : MSt) (r : Nat) (rest : Spec) (h : Inv m (r :: rest)) :
    Inv (mleave fixed m) rest := by
  obtain ⟨hf, hd, hl⟩ := h
  have hd' : m.depth = rest.length + 1 := by simpa using hd
  unfold mleave
  have key : (m.c.removeLimit m.depth).1.limits = expected m.c.localCount rest ∧
      (m.c.removeLimit m.depth).1.localCount = m.c.localCount ∧
      (m.c.removeLimit m.depth).1.exceeded = false := by
    unfold CWIL.removeLimit
    simp only [expected, pushIf] at hl
    cases hst : expected m.c.localCount rest with
    | nil =>
      rw [hst] at hl
      rw [hl]
      simp [hd', hf]
    | cons p tl' =>
      obtain ⟨inner, j'⟩ := p
      rw [hst] at hl
      simp only at hl
      obtain ⟨_, _, h3, _, _⟩ := expected_head _ rest inner j' tl' hst
      by_cases hle : inner ≤ r + m.c.localCount
      · rw [if_pos hle] at hl
        rw [hl]
        have : (j' == m.depth) = false := by simp; omega
        simp [this, hf, hl]
      · rw [if_neg hle] at hl
        rw [hl]
        simp [hd', hf]
  obtain ⟨k1, k2, k3⟩ := key
  have fin : ∀ c2 : CWIL, c2.limits = expected m.c.localCount rest → c2.localCount = m.c.localCount →
      c2.exceeded = false → Inv ⟨c2.removeCallPolicyCheck true, m.depth - 1⟩ rest := by
    intro c2 e1 e2 e3
    apply removeCallPolicyCheck_inv c2 rest (m.depth - 1) e3
    · omega
    · rw [e1, e2]
  apply fin
  · cases fixed <;> simp [k1]
  · cases fixed <;> simp [k2]
  · cases fixed <;> simp [k3]

theorem mleave_inv_nil (fixed : Bool) (m : MSt) (h : Inv m []) : Inv (mleave fixed m) [] := by
  obtain ⟨hf, hd, hl⟩ := h
  simp only [expected] at hl
  have hd' : m.depth = 0 := by simpa using hd
  unfold mleave
  have k : (m.c.removeLimit m.depth).1 = m.c := by
    unfold CWIL.removeLimit; rw [hl]
  rw [k]
  have fin : ∀ c2 : CWIL, c2.limits = [] → c2.exceeded = false →
      Inv ⟨c2.removeCallPolicyCheck true, m.depth - 1⟩ [] := by
    intro c2 e1 e3
    apply removeCallPolicyCheck_inv c2 [] (m.depth - 1) e3
    · simp [hd']
    · rw [e1]; rfl
  apply fin
  · cases fixed <;> simp [hl]
  · cases fixed <;> simp [hf]

theorem incr_nil (c : CWIL) (hf : c.exceeded = false) (hl : c.limits = []) :
    c.increment false = ({ c with globalCount := c.globalCount + 1 }, none) := by
  unfold CWIL.increment; simp [hf, hl]

theorem incr_fire (c : CWIL) (a j : Nat) (tl : List (Nat × Nat)) (hf : c.exceeded = false)
    (hl : c.limits = (a, j) :: tl) (ha : c.localCount = a) :
    c.increment false = ({ c with globalCount := c.globalCount + 1, exceeded := true }, some j) := by
  unfold CWIL.increment; simp [hf, hl, ha]

theorem incr_pass (c : CWIL) (a j : Nat) (tl : List (Nat × Nat)) (hf : c.exceeded = false)
    (hl : c.limits = (a, j) :: tl) (ha : c.localCount ≠ a) :
    c.increment false =
      ({ c with globalCount := c.globalCount + 1, localCount := c.localCount + 1 }, none) := by
  unfold CWIL.increment; simp [hf, hl, ha]

/-- one step: same observation, invariant kept (repaired handler). -/
theorem step_sim (m : MSt) (rs : Spec) (op : Op) (h : Inv m rs) :
    (mstep true m op).2 = (sstep rs op).2 ∧ Inv (mstep true m op).1 (sstep rs op).1 := by
  cases op with
  | enter l =>
    obtain ⟨hf, hd, hl⟩ := h
    refine ⟨rfl, ?_⟩
    simp only [mstep, sstep]
    obtain ⟨a1, a2⟩ := addLimit_other m.c l (m.depth + 1)
    refine ⟨by simp only; rw [a2]; exact hf, by simp [hd], ?_⟩
    simp only
    rw [addLimit_limits, a1, hl, hd]
    rfl
  | leave =>
    refine ⟨rfl, ?_⟩
    simp only [mstep, sstep]
    cases rs with
    | nil => simpa using mleave_inv_nil true m h
    | cons r rest => simpa using mleave_inv true m r rest h
  | tick =>
    obtain ⟨hf, hd, hl⟩ := h
    cases hex : expected m.c.localCount rs with
    | nil =>
      have hrs := expected_nil hex
      subst hrs
      rw [hex] at hl
      simp only [mstep, sstep, incr_nil m.c hf hl, firing]
      exact ⟨trivial, ⟨hf, hd, by simp [hl, expected]⟩⟩
    | cons p tl =>
      obtain ⟨a, j⟩ := p
      rw [hex] at hl
      obtain ⟨g1, g2, g3, g4, g5⟩ := expected_head _ rs a j tl hex
      by_cases hal : a = m.c.localCount
      · -- the limit fires at level j
        have hfire := g4 hal
        simp only [mstep, sstep, incr_fire m.c a j tl hf hl hal.symm, hfire]
        refine ⟨trivial, ?_⟩
        have htl := expected_tail _ rs a j tl hex
        unfold mleave
        simp only [CWIL.removeLimit, hl, beq_self_eq_true, if_true]
        apply removeCallPolicyCheck_inv
        · rfl
        · simp [keepOuter_length (j - 1) rs (by omega)]
        · simp only; exact htl
      · have hnone := g5 hal
        simp only [mstep, sstep, incr_pass m.c a j tl hf hl (fun e => hal e.symm), hnone]
        refine ⟨trivial, ⟨hf, by simp [hd], ?_⟩⟩
        simp only
        rw [expected_tick _ rs (firing_none_pos rs hnone)]
        rw [hl, hex]

theorem run_sim : ∀ (ops : List Op) (m : MSt) (rs : Spec), Inv m rs → mrun true m ops = srun rs ops := by
  intro ops
  induction ops with
  | nil => intro m rs _; rfl
  | cons op ops ih =>
    intro m rs h
    obtain ⟨h1, h2⟩ := step_sim m rs op h
    simp only [mrun, srun]
    rw [h1, ih _ _ h2]

theorem inv_init (lc gc : Nat) : Inv ⟨⟨lc, gc, [], false⟩, 0⟩ [] := ⟨rfl, rfl, rfl⟩

end Scryer.Cwil

namespace Scryer.Cwil

def mfinal (fixed : Bool) : MSt → List Op → MSt
  | m, [] => m
  | m, op :: ops => mfinal fixed (mstep fixed m op).1 ops

def sfinal : Spec → List Op → Spec
  | rs, [] => rs
  | rs, op :: ops => sfinal (sstep rs op).1 ops

theorem final_inv : ∀ (ops : List Op) (m : MSt) (rs : Spec), Inv m rs →
    Inv (mfinal true m ops) (sfinal rs ops) := by
  intro ops
  induction ops with
  | nil => intro m rs h; exact h
  | cons op ops ih =>
    intro m rs h
    exact ih _ _ (step_sim m rs op h).2

end Scryer.Cwil
