import ScryerModel.Proofs.ArithFloat
import ScryerModel.Proofs.ArithInt
import ScryerModel.Model.ArithMixed
/-! Lemmas about the mixed-type evaluator (`Model/ArithMixed.lean`): the classification trichotomy,
finiteness of every float result, the outcome tables of the float functions, and the integer
rounding functions. -/
set_option linter.unusedVariables false
set_option linter.unusedSimpArgs false
set_option linter.unnecessarySeqFocus false
namespace Scryer.ArithMixed
open Scryer.ArithFloat
open Scryer.Arith (Num)

theorem bind_ok {ε α β : Type} {x : Except ε α} {f : α → Except ε β} {v : β}
    (h : (x >>= f) = .ok v) : ∃ a, x = .ok a ∧ f a = .ok v := by
  cases x with
  | error e => cases h
  | ok a => exact ⟨a, rfl, h⟩

/-! ### classification -/

theorem cls_trichotomy (f : F64) :
    (f.isNaN = true ∧ f.isInf = false ∧ f.isFinite = false) ∨
    (f.isNaN = false ∧ f.isInf = true ∧ f.isFinite = false) ∨
    (f.isNaN = false ∧ f.isInf = false ∧ f.isFinite = true) := by
  unfold F64.isNaN F64.isInf F64.isFinite
  rcases Nat.lt_trichotomy f.mag INF_MAG with h | h | h
  · right; right; simp [h]; omega
  · right; left; simp [h]
  · left; simp [h]; omega

theorem classify_nan {f : F64} (h : f.isNaN = true) : classify f = .error .undefined := by
  unfold classify; rw [if_pos h]

theorem classify_inf {f : F64} (h : f.isInf = true) : classify f = .error .floatOverflow := by
  unfold classify
  rcases cls_trichotomy f with ⟨_, h2, _⟩ | ⟨h1, _, _⟩ | ⟨_, h2, _⟩
  · rw [h2] at h; cases h
  · rw [if_neg (by simp [h1]), if_pos h]
  · rw [h2] at h; cases h

theorem classify_fin {f : F64} (h : f.isFinite = true) : classify f = .ok f := by
  unfold classify
  rcases cls_trichotomy f with ⟨_, _, h3⟩ | ⟨_, _, h3⟩ | ⟨h1, h2, _⟩
  · rw [h3] at h; cases h
  · rw [h3] at h; cases h
  · rw [if_neg (by simp [h1]), if_neg (by simp [h2])]

theorem classify_ok {f r : F64} (h : classify f = .ok r) : r = f ∧ f.isFinite = true := by
  rcases cls_trichotomy f with ⟨h1, _, _⟩ | ⟨_, h2, _⟩ | ⟨_, _, h3⟩
  · rw [classify_nan h1] at h; cases h
  · rw [classify_inf h2] at h; cases h
  · rw [classify_fin h3] at h; cases h; exact ⟨rfl, h3⟩

theorem classify_undefined_iff (f : F64) : classify f = .error .undefined ↔ f.isNaN = true := by
  rcases cls_trichotomy f with ⟨h1, _, _⟩ | ⟨h1, h2, _⟩ | ⟨h1, _, h3⟩
  · simp [classify_nan h1, h1]
  · simp [classify_inf h2, h1]
  · simp [classify_fin h3, h1]

theorem classify_overflow_iff (f : F64) : classify f = .error .floatOverflow ↔ f.isInf = true := by
  rcases cls_trichotomy f with ⟨h1, h2, _⟩ | ⟨_, h2, _⟩ | ⟨_, h2, h3⟩
  · simp [classify_nan h1, h2]
  · simp [classify_inf h2, h2]
  · simp [classify_fin h3, h2]

theorem classify_error_cases {f : F64} {e : Err} (h : classify f = .error e) :
    e = .undefined ∨ e = .floatOverflow := by
  rcases cls_trichotomy f with ⟨h1, _, _⟩ | ⟨_, h2, _⟩ | ⟨_, _, h3⟩
  · rw [classify_nan h1] at h; cases h; left; rfl
  · rw [classify_inf h2] at h; cases h; right; rfl
  · rw [classify_fin h3] at h; cases h

/-! ### finiteness of results -/

/-- a number is *finite* when it is not a float or a finite float. -/
def Number.fin : Number → Prop
  | .flt f => f.isFinite = true
  | _ => True

/-- all float literals of an expression are finite doubles. -/
def Expr.finLits : Expr → Prop
  | .int _ => True
  | .flt b => (F64.mk b).isFinite = true
  | .un _ e => e.finLits
  | .bin _ l r => l.finLits ∧ r.finLits

theorem mag_lt (x : F64) : x.mag < 2 ^ 63 := by
  unfold F64.mag SIGN_BIT; exact Nat.mod_lt _ (by norm_num)

theorem negF_fin {f : F64} (h : f.isFinite = true) : (negF f).isFinite = true := by
  unfold negF F64.isFinite at *; rw [mk_mag _ _ (mag_lt f)]; exact h

theorem absF_fin {f : F64} (h : f.isFinite = true) : (absF f).isFinite = true := by
  unfold absF F64.isFinite at *; rw [mk_mag _ _ (mag_lt f)]; exact h

theorem one_mag : one.mag = 1023 * 2 ^ 52 := by
  unfold one; exact mk_mag _ _ (by norm_num)

theorem signumF_fin {f : F64} (h : f.isFinite = true) : (signumF f).isFinite = true := by
  unfold signumF
  rcases cls_trichotomy f with ⟨_, _, h3⟩ | ⟨_, _, h3⟩ | ⟨h1, _, _⟩
  · rw [h3] at h; cases h
  · rw [h3] at h; cases h
  · rw [if_neg (by simp [h1])]
    unfold F64.isFinite
    rw [mk_mag _ _ (by rw [one_mag]; norm_num), one_mag]
    unfold INF_MAG; simp

theorem posZero_fin : posZero.isFinite = true := by
  unfold posZero F64.isFinite; rw [mk_mag _ _ (by norm_num)]; unfold INF_MAG; simp

theorem resultF_fin {n : Number} {r : F64} (h : resultF n = .ok r) : r.isFinite = true := by
  unfold resultF at h; obtain ⟨h1, h2⟩ := classify_ok h; rw [h1]; exact h2

theorem addFc_fin {a b r : F64} (h : addFc a b = .ok r) : r.isFinite = true := by
  unfold addFc at h; obtain ⟨h1, h2⟩ := classify_ok h; rw [h1]; exact h2

theorem mulFc_fin {a b r : F64} (h : mulFc a b = .ok r) : r.isFinite = true := by
  unfold mulFc at h; obtain ⟨h1, h2⟩ := classify_ok h; rw [h1]; exact h2

theorem divFc_fin {a b r : F64} (h : divFc a b = .ok r) : r.isFinite = true := by
  unfold divFc at h
  split at h
  · cases h
  · obtain ⟨h1, h2⟩ := classify_ok h; rw [h1]; exact h2

theorem template_fin {n : Number} {g : F64 → Except Err F64} {r : F64}
    (h : template n g = .ok r) : r.isFinite = true := by
  unfold template at h
  obtain ⟨f1, _, h2⟩ := bind_ok h
  obtain ⟨p, _, h4⟩ := bind_ok h2
  obtain ⟨h5, h6⟩ := classify_ok h4; rw [h5]; exact h6

/-- helper: the last step of every float-valued function. -/
theorem flt_pure_fin {x : Except Err F64} {v : Number}
    (hx : ∀ r, x = .ok r → r.isFinite = true)
    (h : (x >>= fun r => pure (Number.flt r)) = .ok v) : v.fin := by
  obtain ⟨r, h1, h2⟩ := bind_ok h
  cases h2
  exact hx r h1

theorem add_fin {a b v : Number} (h : add a b = .ok v) : v.fin := by
  cases a <;> cases b <;> simp only [add, ratAdd, ratMul, mkRat] at h <;>
    first
    | (cases h; trivial)
    | (obtain ⟨fa, _, h2⟩ := bind_ok h
       exact flt_pure_fin (fun r hr => addFc_fin hr) h2)
    | exact flt_pure_fin (fun r hr => addFc_fin hr) h

theorem mul_fin {a b v : Number} (h : mul a b = .ok v) : v.fin := by
  cases a <;> cases b <;> simp only [mul, ratAdd, ratMul, mkRat] at h <;>
    first
    | (cases h; trivial)
    | (obtain ⟨fa, _, h2⟩ := bind_ok h
       exact flt_pure_fin (fun r hr => mulFc_fin hr) h2)
    | exact flt_pure_fin (fun r hr => mulFc_fin hr) h

theorem neg_fin {a : Number} (h : a.fin) : (neg a).fin := by
  cases a <;> simp only [neg, Number.fin] at * ; exact negF_fin h

theorem abs_fin {a : Number} (h : a.fin) : (abs a).fin := by
  cases a <;> simp only [abs, Number.fin] at * ; exact absF_fin h

theorem div_fin {a b v : Number} (h : div a b = .ok v) : v.fin := by
  unfold div at h
  split at h
  · cases h
  · obtain ⟨fa, _, h2⟩ := bind_ok h
    obtain ⟨fb, _, h3⟩ := bind_ok h2
    exact flt_pure_fin (fun r hr => divFc_fin hr) h3

theorem template_flt_fin {n : Number} {g : F64 → Except Err F64} {v : Number}
    (h : (template n g >>= fun r => pure (Number.flt r)) = .ok v) : v.fin :=
  flt_pure_fin (fun r hr => template_fin hr) h

theorem sign_fin {a : Number} (h : a.fin) : (sign a).fin := by
  cases a with
  | flt f =>
      simp only [sign]
      split
      · exact posZero_fin
      · exact signumF_fin h
  | int n => simp only [sign]; split <;> (try split) <;> trivial
  | rat n d => simp only [sign]; split <;> (try split) <;> trivial

theorem classify_flt_fin {p : F64} {v : Number}
    (h : (classify p >>= fun r => pure (Number.flt r)) = .ok v) : v.fin :=
  flt_pure_fin (fun r hr => by obtain ⟨h1, h2⟩ := classify_ok hr; rw [h1]; exact h2) h

theorem floatPow_fin {c : Cfg} {a b v : Number} (h : floatPow c a b = .ok v) : v.fin := by
  unfold floatPow at h
  obtain ⟨f1, _, h2⟩ := bind_ok h
  obtain ⟨f2, _, h3⟩ := bind_ok h2
  obtain ⟨p, _, h4⟩ := bind_ok h3
  exact classify_flt_fin h4

theorem maxmin_fin_aux {n1 n2 : Number} {v : Number} (h1 : n1.fin) (h2 : n2.fin)
    {k : F64 → F64 → Ordering → Number}
    (hk : ∀ f1 f2 o, f1.isFinite = true → f2.isFinite = true →
      (k f1 f2 o = n1 ∨ k f1 f2 o = n2 ∨ k f1 f2 o = .flt f1 ∨ k f1 f2 o = .flt f2))
    (h : (resultF n1 >>= fun f1 => resultF n2 >>= fun f2 => pure (k f1 f2 (cmpF f1 f2))) = .ok v) :
    v.fin := by
  obtain ⟨f1, e1, h3⟩ := bind_ok h
  obtain ⟨f2, e2, h4⟩ := bind_ok h3
  cases h4
  rcases hk f1 f2 (cmpF f1 f2) (resultF_fin e1) (resultF_fin e2) with e | e | e | e <;> rw [e]
  · exact h1
  · exact h2
  · exact resultF_fin e1
  · exact resultF_fin e2

/-! ### integer roundings -/

theorem ofIntChecked_val (z : Int) : (ofIntChecked z).val = z := by
  unfold ofIntChecked; split <;> rfl

theorem ofIntChecked_wf (z : Int) : (ofIntChecked z).wf := by
  unfold ofIntChecked; split
  · rename_i h; exact h
  · trivial

theorem rndIFloat_val (c : Cfg) (z : Int) : (rndIFloat c z).val = z := by
  unfold rndIFloat; split <;> split <;> rfl

/-- with the repaired range test the fixnum built by `rnd_i` is always in range. -/
theorem rndIFloat_wf (c : Cfg) (hc : c.pinnedRndI = false) (z : Int) : (rndIFloat c z).wf := by
  unfold rndIFloat
  rw [hc]
  simp only [Bool.false_eq_true, if_false]
  split
  · rename_i h
    show Arith.inFix z = true
    rw [Arith.inFix_iff]; omega
  · trivial

/-- `rnd_i` of a finite float with the repaired test: the exact floor, well-formed, no panic. -/
theorem rndI_flt (c : Cfg) (hc : c.pinnedRndI = false) (f : F64) (hf : f.isFinite = true) :
    ∃ r : Num, rndI c (.flt f) = .ok (.int r) ∧ r.val = floorZ f ∧ r.wf := by
  rcases cls_trichotomy f with ⟨_, _, h3⟩ | ⟨_, _, h3⟩ | ⟨h1, h2, _⟩
  · rw [h3] at hf; cases hf
  · rw [h3] at hf; cases hf
  · have hv := rndIFloat_val c (floorZ f)
    have hw := rndIFloat_wf c hc (floorZ f)
    simp only [rndI, h1, h2, Bool.false_eq_true, if_false]
    cases hr : rndIFloat c (floorZ f) with
    | fix v =>
        rw [hr] at hv hw
        have : Arith.inFix v = true := hw
        simp only [this, if_true]
        exact ⟨.fix v, rfl, hv, hw⟩
    | big v =>
        rw [hr] at hv hw
        exact ⟨.big v, rfl, hv, hw⟩

theorem floor_of_rndI {c : Cfg} {n : Number} {r : Number} (h : rndI c n = .ok r) :
    floor c n = .ok r := by
  unfold floor; rw [h]

/-! ### whole expressions: every float result is finite -/

theorem rndI_is_int {c : Cfg} {n r : Number} (h : rndI c n = .ok r) : ∃ k, r = .int k := by
  cases n <;> simp only [rndI] at h
  · rename_i n; cases n <;> simp only [] at h <;> cases h <;> exact ⟨_, rfl⟩
  · cases h; exact ⟨_, rfl⟩
  · split at h
    · cases h
    · split at h
      · cases h
      · split at h
        · split at h <;> cases h; exact ⟨_, rfl⟩
        · cases h; exact ⟨_, rfl⟩

theorem floor_is_int {c : Cfg} {n r : Number} (h : floor c n = .ok r) : ∃ k, r = .int k := by
  unfold floor at h; split at h
  · rename_i r' hr; cases h; exact rndI_is_int hr
  · cases h

theorem applyUn_fin (c : Cfg) (op : UnOp) (a v : Number) (ha : a.fin)
    (h : applyUn c op a = .ok v) : v.fin := by
  cases op <;> simp only [applyUn] at h
  case neg => cases h; exact neg_fin ha
  case plus => cases h; exact ha
  case abs => cases h; exact abs_fin ha
  case sign => cases h; exact sign_fin ha
  case float => exact flt_pure_fin (fun r hr => resultF_fin hr) h
  case sqrt =>
    unfold sqrt at h; split at h
    · cases h
    · exact template_flt_fin h
  case fip => exact template_flt_fin h
  case ffp => exact template_flt_fin h
  case floor => obtain ⟨k, rfl⟩ := floor_is_int h; trivial
  case ceiling =>
    unfold ceiling at h
    obtain ⟨r, h1, h2⟩ := bind_ok h
    cases h2
    obtain ⟨k, rfl⟩ := floor_is_int h1; trivial
  case truncate =>
    unfold truncate at h; split at h
    · obtain ⟨r, h1, h2⟩ := bind_ok h
      cases h2
      obtain ⟨k, rfl⟩ := floor_is_int h1; trivial
    · obtain ⟨k, rfl⟩ := floor_is_int h; trivial
  case round =>
    cases a <;> simp only [round] at h <;> obtain ⟨k, rfl⟩ := rndI_is_int h <;> trivial
  case fn f => exact template_flt_fin h

theorem applyBin_fin (c : Cfg) (op : BinOp) (a b v : Number) (ha : a.fin) (hb : b.fin)
    (h : applyBin c op a b = .ok v) : v.fin := by
  cases op <;> simp only [applyBin] at h
  case add => exact add_fin h
  case sub => exact add_fin h
  case mul => exact mul_fin h
  case div => exact div_fin h
  case pow =>
    unfold pow at h; split at h
    · cases h
    · exact floatPow_fin h
  case ipow =>
    unfold intPow at h; split at h
    · cases h
    · split at h
      · rename_i x y hneg
        cases hx : Arith.intPow x y with
        | ok n => rw [hx] at h; simp only [liftArith] at h; cases h; trivial
        | error e => rw [hx] at h; cases e <;> simp only [liftArith] at h <;> cases h
      · obtain ⟨f1, _, h2⟩ := bind_ok h
        obtain ⟨f2, _, h3⟩ := bind_ok h2
        exact template_flt_fin h3
      · obtain ⟨f2, _, h2⟩ := bind_ok h
        split at h2
        · cases h2
        · obtain ⟨f1, _, h3⟩ := bind_ok h2
          exact template_flt_fin h3
  case atan2 =>
    unfold atan2 at h; split at h
    · cases h
    · obtain ⟨f1, _, h2⟩ := bind_ok h
      obtain ⟨f2, _, h3⟩ := bind_ok h2
      exact template_flt_fin h3
  case max =>
    unfold max at h; split at h
    · cases h; trivial
    · cases h; split <;> trivial
    · obtain ⟨f1, e1, h2⟩ := bind_ok h
      obtain ⟨f2, e2, h3⟩ := bind_ok h2
      cases hc : cmpF f1 f2 <;> rw [hc] at h3 <;> cases h3
      · exact hb
      · exact resultF_fin e2
      · exact ha
  case min =>
    unfold min at h; split at h
    · cases h; trivial
    · cases h; split <;> trivial
    · obtain ⟨f1, e1, h2⟩ := bind_ok h
      obtain ⟨f2, e2, h3⟩ := bind_ok h2
      cases hc : cmpF f1 f2 <;> rw [hc] at h3 <;> cases h3
      · exact ha
      · exact resultF_fin e1
      · exact hb
  case rdiv =>
    unfold rdiv at h
    obtain ⟨⟨n1, d1⟩, _, h2⟩ := bind_ok h
    obtain ⟨⟨n2, d2⟩, _, h3⟩ := bind_ok h2
    simp only [] at h3
    split at h3
    · cases h3
    · cases h3; unfold ratDiv mkRat; split <;> trivial

/-- every successful evaluation of an expression whose float literals are finite yields a finite number. -/
theorem eval_fin (c : Cfg) (e : Expr) (he : e.finLits) (v : Number) (h : eval c e = .ok v) : v.fin := by
  induction e generalizing v with
  | int n => simp only [eval] at h; cases h; trivial
  | flt b => simp only [eval] at h; cases h; exact he
  | un op e ih =>
      simp only [eval] at h
      split at h
      · cases h
      · rename_i a ha; exact applyUn_fin c op a v (ih he a ha) h
  | bin op l r ihl ihr =>
      simp only [eval] at h
      split at h
      · cases h
      · rename_i a ha
        split at h
        · cases h
        · rename_i b hb'
          exact applyBin_fin c op a b v (ihl he.1 a ha) (ihr he.2 b hb') h

/-! ### outcome tables -/

/-- outcome of `unary_float_fn_template` for a total `g`: determined by the class of the converted
    argument and of `g`'s result. -/
theorem template_table (n : Number) (g : F64 → F64) :
    template n (fun f => .ok (g f)) =
      (if (rndF n).isNaN then .error .undefined
       else if (rndF n).isInf then .error .floatOverflow
       else if (g (rndF n)).isNaN then .error .undefined
       else if (g (rndF n)).isInf then .error .floatOverflow
       else .ok (g (rndF n))) := by
  unfold template resultF
  rcases cls_trichotomy (rndF n) with ⟨h1, _, _⟩ | ⟨h1, h2, _⟩ | ⟨h1, h2, h3⟩
  · rw [classify_nan h1, if_pos h1]; rfl
  · rw [classify_inf h2, if_neg (by simp [h1]), if_pos h2]; rfl
  · rw [classify_fin h3, if_neg (by simp [h1]), if_neg (by simp [h2])]
    show classify (g (rndF n)) = _
    unfold classify; rfl

theorem fn1_table (c : Cfg) (op : Fn1) (n : Number) (r : F64)
    (hl : c.libm.fn1 op (rndF n) = some r) :
    fn1 c op n =
      (if (rndF n).isNaN then .error .undefined
       else if (rndF n).isInf then .error .floatOverflow
       else if r.isNaN then .error .undefined
       else if r.isInf then .error .floatOverflow
       else .ok (.flt r)) := by
  unfold fn1 template resultF
  rcases cls_trichotomy (rndF n) with ⟨h1, _, _⟩ | ⟨h1, h2, _⟩ | ⟨h1, h2, h3⟩
  · rw [classify_nan h1, if_pos h1]; rfl
  · rw [classify_inf h2, if_neg (by simp [h1]), if_pos h2]; rfl
  · rw [classify_fin h3, if_neg (by simp [h1]), if_neg (by simp [h2])]
    show (libm1 c op (rndF n) >>= classify) >>= _ = _
    unfold libm1; rw [hl]
    show classify r >>= _ = _
    rcases cls_trichotomy r with ⟨k1, _, _⟩ | ⟨k1, k2, _⟩ | ⟨k1, k2, k3⟩
    · rw [classify_nan k1, if_pos k1]; rfl
    · rw [classify_inf k2, if_neg (by simp [k1]), if_pos k2]; rfl
    · rw [classify_fin k3, if_neg (by simp [k1]), if_neg (by simp [k2])]; rfl

theorem div_zero {a b : Number} (h : b.isZero = true) : div a b = .error .zeroDivisor := by
  unfold div; rw [if_pos h]

/-- every way `/` can end. -/
theorem div_table (a b : Number) :
    div a b =
      (if b.isZero then .error .zeroDivisor
       else match resultF a, resultF b with
         | .error e, _ => .error e
         | .ok _, .error e => .error e
         | .ok fa, .ok fb =>
            if fb.isZero then .error .zeroDivisor
            else if (divF fa fb).isNaN then .error .undefined
            else if (divF fa fb).isInf then .error .floatOverflow
            else .ok (.flt (divF fa fb))) := by
  unfold div
  split
  · rfl
  · cases ha : resultF a with
    | error e => rfl
    | ok fa =>
      cases hb : resultF b with
      | error e => rfl
      | ok fb =>
        show (divFc fa fb >>= _) = _
        unfold divFc
        simp only []
        split
        · rfl
        · rcases cls_trichotomy (divF fa fb) with ⟨k1, _, _⟩ | ⟨k1, k2, _⟩ | ⟨k1, k2, k3⟩
          · rw [classify_nan k1, if_pos k1]; rfl
          · rw [classify_inf k2, if_neg (by simp [k1]), if_pos k2]; rfl
          · rw [classify_fin k3, if_neg (by simp [k1]), if_neg (by simp [k2])]; rfl

/-! ### more integer roundings -/

theorem floor_flt (c : Cfg) (hc : c.pinnedRndI = false) (f : F64) (hf : f.isFinite = true) :
    ∃ r : Num, floor c (.flt f) = .ok (.int r) ∧ r.val = floorZ f ∧ r.wf := by
  obtain ⟨r, h1, h2, h3⟩ := rndI_flt c hc f hf
  exact ⟨r, floor_of_rndI h1, h2, h3⟩

theorem floor_rat (c : Cfg) (n : Int) (d : Nat) :
    floor c (.rat n d) = .ok (.int (ofIntChecked (Int.fdiv n d))) := rfl

theorem round_rat (c : Cfg) (n : Int) (d : Nat) :
    round c (.rat n d) = .ok (.int (ofIntChecked (ratRoundZ n d))) := rfl

theorem scaled_congr {x y : F64} (h : x.mag = y.mag) : x.scaled = y.scaled := by
  unfold F64.scaled F64.sig F64.ulpExp F64.expo F64.mant; rw [h]

theorem scaledInt_negF (f : F64) : (negF f).scaledInt = - f.scaledInt := by
  unfold F64.scaledInt negF
  rw [mk_sign _ _ (mag_lt f), scaled_congr (mk_mag _ _ (mag_lt f))]
  cases f.sign <;> simp

theorem ceiling_flt (c : Cfg) (hc : c.pinnedRndI = false) (f : F64) (hf : f.isFinite = true) :
    ∃ r : Num, ceiling c (.flt f) = .ok (.int r) ∧ r.val = -(Int.fdiv (-f.scaledInt) (P : Int)) ∧ r.wf := by
  obtain ⟨r, h1, h2, h3⟩ := floor_flt c hc (negF f) (negF_fin hf)
  refine ⟨Arith.neg r, ?_, ?_, Arith.neg_wf r⟩
  · unfold ceiling
    show (floor c (.flt (negF f)) >>= _) = _
    rw [h1]; rfl
  · rw [Arith.neg_val, h2]; unfold floorZ; rw [scaledInt_negF]

end Scryer.ArithMixed
