import ScryerModel.Model.Fault
import ScryerModel.Proofs.Solve
/-!
Lemmas about `Scryer.Fault`: closed balls are fixed by copying, injection without faults is the
reference interpreter, the protocol machine's skip/unwind discipline, the polling invariants.
-/
namespace Scryer.Fault
open Scryer Scryer.Solve

/-! ### the balls are closed terms: resolving and renaming leave them alone -/

theorem resolve_resBall (n : Nat) (σ : Subst) : resolve (n + 8) σ resBall = some resBall := by
  simp [resBall, resFormal, resolve, resolveList]

theorem resolve_intBall (n : Nat) (σ : Subst) : resolve (n + 8) σ intBall = some intBall := by
  simp [intBall, intFormal, resolve, resolveList]

theorem rename_resBall (sf : String) : rename sf resBall = resBall := by
  simp [resBall, resFormal, rename, renameList]

theorem rename_intBall (sf : String) : rename sf intBall = intBall := by
  simp [intBall, intFormal, rename, renameList]

/-- a ball that copying leaves alone (closed term, enough fuel for its depth). -/
def ClosedAt (n : Nat) (ball : Term) : Prop :=
  (∀ σ, resolve n σ ball = some ball) ∧ (∀ sf, rename sf ball = ball) ∧ (∀ v, ball ≠ .var v)

theorem closed_resBall (n : Nat) : ClosedAt (n + 8) resBall :=
  ⟨resolve_resBall n, rename_resBall, by intro v; simp [resBall]⟩

theorem closed_intBall (n : Nat) : ClosedAt (n + 8) intBall :=
  ⟨resolve_intBall n, rename_intBall, by intro v; simp [intBall]⟩

/-- `throw(Ball)` executed as a goal raises exactly the injected event. -/
theorem throwRes_closed (n : Nat) (s : St) (ball : Term) (hc : ClosedAt n ball) :
    throwRes n s ball = inject ball s := by
  obtain ⟨h1, h2, h3⟩ := hc
  simp only [throwRes, h1 s.σ]
  cases ball with
  | var v => exact absurd rfl (h3 v)
  | _ => simp only [throwResolved, h2, inject]

theorem classify_throwGoal (ball : Term) : classify (throwGoal ball) = .throw ball := by
  simp [throwGoal, classify]

/-! ### no fault: the reference interpreter -/

theorem solveInj_noFault (ball : Term) (φ : Oracle) (hφ : ∀ g s, φ g s = false) (prog : Prog) :
    ∀ n, solveInj ball φ n prog = solve n prog := by
  intro n
  induction n with
  | zero => funext g s; simp [solveInj, solve]
  | succ n ih => funext g s; simp [solveInj, solve, hφ, ih]

/-! ### the protocol machine -/

theorem firstDenied_none (deny : Nat → Bool) : ∀ (g att : Nat),
    (∀ i, i < g → deny (att + i) = false) → firstDenied deny att g = none := by
  intro g
  induction g with
  | zero => intro att _; rfl
  | succ g ih =>
    intro att h
    have h0 : deny att = false := by simpa using h 0 (Nat.succ_pos _)
    have := ih (att + 1) (by
      intro i hi
      have := h (i + 1) (by omega)
      simpa [Nat.add_assoc, Nat.add_comm 1 i] using this)
    simp [firstDenied, h0, this]

theorem firstDenied_some_lt (deny : Nat → Bool) : ∀ (g att j : Nat),
    firstDenied deny att g = some j → j < g ∧ deny (att + j) = true ∧ ∀ i, i < j → deny (att + i) = false := by
  intro g
  induction g with
  | zero => intro att j h; simp [firstDenied] at h
  | succ g ih =>
    intro att j h
    simp only [firstDenied] at h
    by_cases h0 : deny att = true
    · simp [h0] at h
      subst h
      exact ⟨Nat.succ_pos _, by simpa using h0, by intro i hi; omega⟩
    · simp only [h0, if_false, Bool.false_eq_true] at h
      cases hr : firstDenied deny (att + 1) g with
      | none => simp [hr] at h
      | some j' =>
        simp [hr] at h
        subst h
        obtain ⟨a, b, c⟩ := ih (att + 1) j' hr
        refine ⟨by omega, by simpa [Nat.add_assoc, Nat.add_comm 1 j'] using b, ?_⟩
        intro i hi
        cases i with
        | zero => simpa using h0
        | succ i =>
          have := c i (by omega)
          simpa [Nat.add_assoc, Nat.add_comm 1 i] using this

/-- skipping through a body that is balanced at the current skip depth, then the closing `leave`:
    the recovered continuation starts with the state untouched (whatever the skipped operations
    were: nothing of the abandoned goal runs). -/
theorem exec_skip (deny : Nat → Bool) (post : List MOp) : ∀ (body : List MOp) (e : Nat) (s : MSt),
    balanced e body = true →
    exec deny (body ++ .leave :: post) (some e) s = exec deny post none s := by
  intro body
  induction body with
  | nil =>
    intro e s hb
    have : e = 0 := by simpa [balanced] using hb
    subst this
    simp [exec]
  | cons op rest ih =>
    intro e s hb
    cases op with
    | alloc n g =>
      simp only [List.cons_append, exec]
      exact ih e s (by simpa [balanced] using hb)
    | throwRes =>
      simp only [List.cons_append, exec]
      exact ih e s (by simpa [balanced] using hb)
    | enter m =>
      simp only [List.cons_append, exec]
      exact ih (e + 1) s (by simpa [balanced] using hb)
    | leave =>
      cases e with
      | zero => simp [balanced] at hb
      | succ e' =>
        simp only [List.cons_append, exec]
        exact ih e' s (by simpa [balanced] using hb)

/-- while unwinding, a balanced block is passed without being run and without changing the depth. -/
theorem exec_skip_block (deny : Nat → Bool) (tail : List MOp) : ∀ (rest : List MOp) (e d : Nat) (s : MSt),
    balanced e rest = true →
    exec deny (rest ++ tail) (some (d + e)) s = exec deny tail (some d) s := by
  intro rest
  induction rest with
  | nil =>
    intro e d s hb
    have : e = 0 := by simpa [balanced] using hb
    subst this
    simp
  | cons op r ih =>
    intro e d s hb
    cases op with
    | alloc n g =>
      simp only [List.cons_append, exec]
      exact ih e d s (by simpa [balanced] using hb)
    | throwRes =>
      simp only [List.cons_append, exec]
      exact ih e d s (by simpa [balanced] using hb)
    | enter m =>
      simp only [List.cons_append, exec]
      exact ih (e + 1) d s (by simpa [balanced] using hb)
    | leave =>
      cases e with
      | zero => simp [balanced] at hb
      | succ e' =>
        simp only [List.cons_append]
        show exec deny (.leave :: (r ++ tail)) (some ((d + e') + 1)) s = _
        simp only [exec]
        exact ih e' d s (by simpa [balanced] using hb)

/-- a prefix of allocations none of whose growth attempts is denied just allocates. -/
def allocs (pre : List (Nat × Nat)) : List MOp := pre.map fun p => .alloc p.1 p.2
def attempts (pre : List (Nat × Nat)) : Nat := (pre.map (·.2)).sum
def cellsOf (pre : List (Nat × Nat)) : Nat := (pre.map (·.1)).sum

theorem exec_allocs (deny : Nat → Bool) (rest : List MOp) : ∀ (pre : List (Nat × Nat)) (s : MSt),
    (∀ i, i < attempts pre → deny (s.att + i) = false) →
    exec deny (allocs pre ++ rest) none s
      = exec deny rest none { s with len := s.len + cellsOf pre, att := s.att + attempts pre } := by
  intro pre
  induction pre with
  | nil => intro s _; simp [allocs, attempts, cellsOf]
  | cons p pre ih =>
    intro s h
    have h1 : firstDenied deny s.att p.2 = none :=
      firstDenied_none deny p.2 s.att (by
        intro i hi
        exact h i (by simp [attempts]; omega))
    simp only [allocs, List.map_cons, List.cons_append, exec, h1]
    have := ih { s with len := s.len + p.1, att := s.att + p.2 } (by
      intro i hi
      have := h (p.2 + i) (by simp [attempts] at hi ⊢; omega)
      simpa [Nat.add_assoc] using this)
    simp only [allocs] at this
    rw [this]
    simp [attempts, cellsOf, Nat.add_assoc]

/-! ### polling -/

/-- invariant of every run from the initial state. -/
structure PInv (P : Nat) (s : PSt) : Prop where
  flag_pending : s.flag = true ↔ s.pending ≠ 0
  once : s.delivered + s.pending ≤ s.raised
  cnt_lt : s.cnt < P

theorem pstep_inv (P : Nat) (hP : 1 ≤ P) (s : PSt) (i : PInv P s) (e : Ev) : PInv P (pstep P s e) := by
  obtain ⟨h1, h2, h3⟩ := i
  cases e with
  | raise =>
    refine ⟨?_, ?_, h3⟩
    · show true = true ↔ s.pending + 1 ≠ 0
      simp
    · show s.delivered + (s.pending + 1) ≤ s.raised + 1
      omega
  | tick =>
    simp only [pstep]
    by_cases hc : s.cnt + 1 ≥ P
    · simp only [hc, if_true]
      by_cases hf : s.flag = true
      · simp only [hf, if_true]
        have hp : s.pending ≠ 0 := h1.mp hf
        refine ⟨?_, ?_, ?_⟩
        · show false = true ↔ (0 : Nat) ≠ 0
          simp
        · show s.delivered + 1 + 0 ≤ s.raised
          omega
        · show 0 < P
          omega
      · have hfl : s.flag = false := by simpa using hf
        simp only [hfl, if_false, Bool.false_eq_true]
        refine ⟨?_, h2, by show 0 < P; omega⟩
        show false = true ↔ s.pending ≠ 0
        rw [← hfl]; exact h1
    · simp only [hc, if_false]
      exact ⟨h1, h2, by show s.cnt + 1 < P; omega⟩

theorem prun_inv (P : Nat) (hP : 1 ≤ P) (evs : List Ev) : ∀ (s : PSt), PInv P s → PInv P (prun P s evs) := by
  induction evs with
  | nil => intro s i; exact i
  | cons e r ih => intro s i; exact ih _ (pstep_inv P hP s i e)

theorem pinv_init (P : Nat) (hP : 1 ≤ P) : PInv P {} :=
  ⟨by simp, by simp, by show 0 < P; omega⟩

/-- `m` iterations without a poll only advance the counter. -/
theorem ticks_before_poll (P : Nat) : ∀ (m : Nat) (s : PSt), s.cnt + m < P →
    prun P s (List.replicate m .tick) = { s with cnt := s.cnt + m } := by
  intro m
  induction m with
  | zero => intro s _; simp [prun]
  | succ m ih =>
    intro s h
    have hc : ¬ (s.cnt + 1 ≥ P) := by omega
    simp only [List.replicate_succ, prun, List.foldl_cons, pstep, hc, if_false]
    have := ih { s with cnt := s.cnt + 1 } (by simp; omega)
    simp only [prun] at this
    rw [this]
    simp [Nat.add_assoc, Nat.add_comm 1 m]

/-- bounded latency: a raised flag is consumed by exactly the `(P - cnt)`-th following iteration. -/
theorem delivered_within_period (P : Nat) (s : PSt) (hf : s.flag = true) (hc : s.cnt < P) :
    prun P s (List.replicate (P - s.cnt) .tick)
      = { s with flag := false, cnt := 0, delivered := s.delivered + 1, pending := 0 } := by
  obtain ⟨m, hm⟩ : ∃ m, P - s.cnt = m + 1 := ⟨P - s.cnt - 1, by omega⟩
  rw [hm, List.replicate_succ', prun, List.foldl_append]
  have := ticks_before_poll P m s (by omega)
  simp only [prun] at this
  rw [this]
  have hge : s.cnt + m + 1 ≥ P := by omega
  simp [pstep, hge, hf]

end Scryer.Fault
