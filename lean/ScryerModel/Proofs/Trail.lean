import ScryerModel.Model.Trail
/-
Lemmas for Props/C11.lean: unwinding is insensitive to what happened to cells at or above the
truncation point (this is what makes conditional trailing safe), it commutes with a non-trailed
`bb_put`, and the machine invariant "for every choice point, unwinding and truncating gives the
snapshot taken when it was created" is preserved by every operation.
-/
namespace Scryer.Trail

/-! ### unwinding -/

theorem undoTo_of_length_le (n : Nat) : ∀ (t : List TE) (s : Store), t.length ≤ n → undoTo n t s = s := by
  intro t
  induction t with
  | nil => intro s _; rfl
  | cons e rest ih =>
    intro s h
    simp only [List.length_cons] at h
    have : ¬ n ≤ rest.length := by omega
    simp [undoTo, this]

theorem undoTo_cons (n : Nat) (e : TE) (t : List TE) (s : Store) (h : n ≤ t.length) :
    undoTo n (e :: t) s = undoTo n t (undo1 s e) := by
  simp [undoTo, h]

theorem dropTo_of_length_le (n : Nat) : ∀ (t : List TE), t.length ≤ n → dropTo n t = t := by
  intro t
  induction t with
  | nil => intro _; rfl
  | cons e rest ih =>
    intro h
    simp only [List.length_cons] at h
    have : ¬ n ≤ rest.length := by omega
    simp [dropTo, this]

theorem dropTo_length (n : Nat) : ∀ (t : List TE), n ≤ t.length → (dropTo n t).length = n := by
  intro t
  induction t with
  | nil => intro h; simp at h; subst h; rfl
  | cons e rest ih =>
    intro h
    simp only [dropTo]
    split
    · rename_i h1; exact ih h1
    · simp only [List.length_cons] at h ⊢; omega

theorem dropTo_length_le (n : Nat) : ∀ (t : List TE), (dropTo n t).length ≤ t.length := by
  intro t
  induction t with
  | nil => simp [dropTo]
  | cons e rest ih =>
    simp only [dropTo]
    split
    · simp only [List.length_cons]; omega
    · simp

theorem undo1_lengths (s : Store) (e : TE) :
    (undo1 s e).heap.length = s.heap.length ∧ (undo1 s e).stack.length = s.stack.length := by
  cases e <;> simp [undo1]
  split <;> simp

theorem undoTo_lengths (n : Nat) : ∀ (t : List TE) (s : Store),
    (undoTo n t s).heap.length = s.heap.length ∧ (undoTo n t s).stack.length = s.stack.length := by
  intro t
  induction t with
  | nil => intro s; exact ⟨rfl, rfl⟩
  | cons e rest ih =>
    intro s
    simp only [undoTo]
    split
    · have := ih (undo1 s e)
      have h1 := undo1_lengths s e
      omega
    · exact ⟨rfl, rfl⟩

/-- unwinding in two stages. -/
theorem undoTo_split (n2 n1 : Nat) (h : n2 ≤ n1) : ∀ (t : List TE) (s : Store),
    undoTo n2 t s = undoTo n2 (dropTo n1 t) (undoTo n1 t s) := by
  intro t
  induction t with
  | nil => intro s; rfl
  | cons e rest ih =>
    intro s
    by_cases h1 : n1 ≤ rest.length
    · have h2 : n2 ≤ rest.length := by omega
      simp only [undoTo, dropTo, h1, h2, if_true]
      exact ih _
    · simp only [undoTo, dropTo, h1, if_false]

/-! ### stores that agree below the truncation point -/

def SameBelow (h t : Nat) (a b : Store) : Prop :=
  a.heap.take h = b.heap.take h ∧ a.stack.take t = b.stack.take t ∧ a.bb = b.bb

theorem SameBelow.refl (h t : Nat) (a : Store) : SameBelow h t a a := ⟨rfl, rfl, rfl⟩

theorem SameBelow.mono {h t h' t' : Nat} {a b : Store} (hs : SameBelow h t a b) (hh : h' ≤ h) (ht : t' ≤ t) :
    SameBelow h' t' a b := by
  obtain ⟨h1, h2, h3⟩ := hs
  refine ⟨?_, ?_, h3⟩
  · have := congrArg (List.take h') h1
    simpa [List.take_take, Nat.min_eq_left hh] using this
  · have := congrArg (List.take t') h2
    simpa [List.take_take, Nat.min_eq_left ht] using this

theorem undo1_same (h t : Nat) (a b : Store) (e : TE) (hs : SameBelow h t a b) :
    SameBelow h t (undo1 a e) (undo1 b e) := by
  obtain ⟨h1, h2, h3⟩ := hs
  cases e with
  | heapVar x => exact ⟨by simp [undo1, List.take_set, h1], h2, h3⟩
  | stackVar x => exact ⟨h1, by simp [undo1, List.take_set, h2], h3⟩
  | attrVar x => exact ⟨by simp [undo1, List.take_set, h1], h2, h3⟩
  | link x old => exact ⟨by simp [undo1, List.take_set, h1], h2, h3⟩
  | bbEntry k => exact ⟨h1, h2, by simp [undo1, h3]⟩
  | bbOffset k old =>
    simp only [undo1, h3]
    split
    · exact ⟨h1, h2, by simp⟩
    · exact ⟨h1, h2, h3⟩

theorem undoTo_same (h t n : Nat) : ∀ (tr : List TE) (a b : Store), SameBelow h t a b →
    SameBelow h t (undoTo n tr a) (undoTo n tr b) := by
  intro tr
  induction tr with
  | nil => intro a b hs; exact hs
  | cons e rest ih =>
    intro a b hs
    simp only [undoTo]
    split
    · exact ih _ _ (undo1_same h t a b e hs)
    · exact hs

theorem trunc_of_same {h t : Nat} {a b : Store} (hs : SameBelow h t a b) : trunc a h t = trunc b h t := by
  obtain ⟨h1, h2, h3⟩ := hs
  simp [trunc, h1, h2, h3]

theorem same_trunc (h t h' t' : Nat) (a : Store) (hh : h ≤ h') (ht : t ≤ t') :
    SameBelow h t (trunc a h' t') a := by
  refine ⟨?_, ?_, rfl⟩
  · simp [trunc, List.take_take, Nat.min_eq_left hh]
  · simp [trunc, List.take_take, Nat.min_eq_left ht]

theorem take_set_of_le {α : Type} (l : List α) (k i : Nat) (x : α) (h : k ≤ i) :
    (l.set i x).take k = l.take k := by
  rw [List.take_set]
  apply List.set_eq_of_length_le
  simp only [List.length_take]
  omega

/-! ### a non-trailed `bb_put` commutes with unwinding (repaired blackboard rule) -/

theorem setBB_setBB (bb : Nat → BB) (k : Nat) (a b : BB) : setBB (setBB bb k a) k b = setBB bb k b := by
  funext j; simp only [setBB]; split <;> rfl

theorem setBB_comm (bb : Nat → BB) (k j : Nat) (a b : BB) (h : j ≠ k) :
    setBB (setBB bb k a) j b = setBB (setBB bb j b) k a := by
  funext i; simp only [setBB]
  by_cases h1 : i = j
  · subst h1; simp [h]
  · by_cases h2 : i = k
    · subst h2; simp [h1]
    · simp [h1, h2]

theorem undo1_override (s : Store) (k v : Nat) (e : TE) :
    undo1 (overrideBB s k v) e = overrideBB (undo1 s e) k v := by
  cases e with
  | heapVar x => rfl
  | stackVar x => rfl
  | attrVar x => rfl
  | link x old => rfl
  | bbEntry j =>
    simp only [undo1, overrideBB]
    by_cases h : j = k
    · subst h; simp [setBB_setBB, setBB]
    · congr 1
      rw [setBB_comm _ k j _ _ h]
      simp [setBB, h]
  | bbOffset j old =>
    by_cases h : j = k
    · subst h
      simp only [undo1, overrideBB, setBB, if_true, Option.isSome_none, Bool.false_eq_true, if_false]
      split
      · simp [setBB_setBB]
      · rfl
    · have hj : (overrideBB s k v).bb j = s.bb j := by simp [overrideBB, setBB, h]
      by_cases hl : (s.bb j).loc.isSome = true
      · have hl' : ((overrideBB s k v).bb j).loc.isSome = true := by rw [hj]; exact hl
        simp only [undo1, hl, hl', if_true]
        simp only [hj]
        simp only [overrideBB]
        congr 1
        rw [setBB_comm _ k j _ _ h]
      · have hl' : ¬ ((overrideBB s k v).bb j).loc.isSome = true := by rw [hj]; exact hl
        simp [undo1, hl, hl']

theorem undoTo_override (n k v : Nat) : ∀ (t : List TE) (s : Store),
    undoTo n t (overrideBB s k v) = overrideBB (undoTo n t s) k v := by
  intro t
  induction t with
  | nil => intro s; rfl
  | cons e rest ih =>
    intro s
    simp only [undoTo]
    split
    · rw [undo1_override, ih]
    · rfl

theorem trunc_override (s : Store) (k v h t : Nat) :
    trunc (overrideBB s k v) h t = overrideBB (trunc s h t) k v := rfl

/-! ### the invariant -/

/-- choice points are nested: saved heap top, trail top and stack address decrease with age and are
    within the current extents. -/
def WF (hlen trlen slen : Nat) : List CP → Prop
  | [] => True
  | cp :: rest => cp.h ≤ hlen ∧ cp.tr ≤ trlen ∧ cp.sTop ≤ slen ∧ WF cp.h cp.tr cp.sTop rest

theorem WF.mono {hlen trlen slen hlen' trlen' slen' : Nat} {cps : List CP}
    (h : WF hlen trlen slen cps) (h1 : hlen ≤ hlen') (h2 : trlen ≤ trlen') (h3 : slen ≤ slen') :
    WF hlen' trlen' slen' cps := by
  cases cps with
  | nil => trivial
  | cons cp rest =>
    obtain ⟨a, b, c, d⟩ := h
    exact ⟨by omega, by omega, by omega, d⟩

theorem WF.mem {hlen trlen slen : Nat} : ∀ {cps : List CP}, WF hlen trlen slen cps →
    ∀ cp ∈ cps, cp.h ≤ hlen ∧ cp.tr ≤ trlen ∧ cp.sTop ≤ slen := by
  intro cps
  induction cps generalizing hlen trlen slen with
  | nil => intro _ cp hm; simp at hm
  | cons c rest ih =>
    intro h cp hm
    obtain ⟨a, b, c', d⟩ := h
    rcases List.mem_cons.mp hm with rfl | hr
    · exact ⟨a, b, c'⟩
    · have := ih d cp hr
      omega

theorem WF.drop {hlen trlen slen : Nat} : ∀ (k : Nat) {cps : List CP}, WF hlen trlen slen cps →
    WF hlen trlen slen (cps.drop k) := by
  intro k
  induction k generalizing hlen trlen slen with
  | zero => intro cps h; simpa using h
  | succ k ih =>
    intro cps h
    cases cps with
    | nil => trivial
    | cons c rest =>
      obtain ⟨a, b, c', d⟩ := h
      simp only [List.drop_succ_cons]
      exact ih (d.mono a b c')

theorem WF.map_snap {hlen trlen slen : Nat} (f : Store → Store) : ∀ {cps : List CP},
    WF hlen trlen slen cps → WF hlen trlen slen (cps.map fun cp => { cp with snap := f cp.snap }) := by
  intro cps
  induction cps generalizing hlen trlen slen with
  | nil => intro _; trivial
  | cons c rest ih =>
    intro h
    obtain ⟨a, b, c', d⟩ := h
    exact ⟨a, b, c', ih d⟩

structure Inv (m : M) : Prop where
  wf : WF m.st.heap.length m.trail.length m.st.stack.length m.cps
  /-- `hb` is at or above the saved heap top of every choice point -/
  hb : ∀ cp ∈ m.cps, cp.h ≤ m.hb
  /-- backtracking to any choice point re-creates its snapshot -/
  snap : ∀ cp ∈ m.cps, restore m cp = cp.snap

theorem b_ge (m : M) (hw : WF m.st.heap.length m.trail.length m.st.stack.length m.cps) :
    ∀ cp ∈ m.cps, cp.sTop ≤ m.b := by
  intro cp hm
  unfold M.b
  cases hc : m.cps with
  | nil => rw [hc] at hm; simp at hm
  | cons c rest =>
    rw [hc] at hm hw
    simp only
    rcases List.mem_cons.mp hm with rfl | hr
    · exact Nat.le_refl _
    · exact (WF.mem hw.2.2.2 cp hr).2.2

theorem init_inv : Inv init := ⟨trivial, by simp [init], by simp [init]⟩

/-- a store change that is invisible below every choice point's truncation point, with the trail
    unchanged, keeps every snapshot. -/
theorem inv_of_same (m : M) (st' : Store) (hi : Inv m)
    (hlen : m.st.heap.length ≤ st'.heap.length) (slen : m.st.stack.length ≤ st'.stack.length)
    (hs : ∀ cp ∈ m.cps, SameBelow cp.h cp.sTop st' m.st) :
    Inv { m with st := st' } := by
  refine ⟨hi.wf.mono hlen (Nat.le_refl _) slen, hi.hb, ?_⟩
  intro cp hm
  have := undoTo_same cp.h cp.sTop cp.tr m.trail st' m.st (hs cp hm)
  simp only [restore]
  rw [trunc_of_same this]
  exact hi.snap cp hm

/-- a store change that is recorded on the trail by an entry undoing it exactly keeps every
    snapshot. -/
theorem inv_of_trailed (m : M) (st' : Store) (e : TE) (hi : Inv m)
    (hlen : m.st.heap.length = st'.heap.length) (slen : m.st.stack.length = st'.stack.length)
    (hu : undo1 st' e = m.st) :
    Inv { m with st := st', trail := e :: m.trail } := by
  refine ⟨?_, hi.hb, ?_⟩
  · exact hi.wf.mono (by simp only; omega) (by simp) (by simp only; omega)
  · intro cp hm
    have h1 := (WF.mem hi.wf cp hm).2.1
    simp only [restore]
    rw [undoTo_cons cp.tr e m.trail st' h1, hu]
    exact hi.snap cp hm

theorem set_length_eq {α : Type} (l : List α) (i : Nat) (x : α) : l.length = (l.set i x).length := by simp

theorem step_inv (m : M) (o : Op) (hi : Inv m) : Inv (step m o) := by
  cases o with
  | newVar =>
    refine inv_of_same m _ hi (by simp) (by simp) ?_
    intro cp hm
    have := (WF.mem hi.wf cp hm).1
    exact ⟨by simp [List.take_append_of_le_length this], rfl, rfl⟩
  | newAttrVar =>
    refine inv_of_same m _ hi (by simp) (by simp) ?_
    intro cp hm
    have := (WF.mem hi.wf cp hm).1
    exact ⟨by simp [List.take_append_of_le_length this], rfl, rfl⟩
  | newCell v =>
    refine inv_of_same m _ hi (by simp) (by simp) ?_
    intro cp hm
    have := (WF.mem hi.wf cp hm).1
    exact ⟨by simp [List.take_append_of_le_length this], rfl, rfl⟩
  | newStackVar =>
    refine inv_of_same m _ hi (by simp) (by simp) ?_
    intro cp hm
    have := (WF.mem hi.wf cp hm).2.2
    exact ⟨rfl, by simp [List.take_append_of_le_length this], rfl⟩
  | bind h v =>
    simp only [step]
    split
    · rename_i hg
      simp only [trailHeap]
      split
      · -- trailed
        refine inv_of_trailed m _ _ hi (by simp) rfl ?_
        have hlt : h < m.st.heap.length := by
          rcases List.getElem?_eq_some_iff.mp hg with ⟨hl, _⟩; exact hl
        have hv : m.st.heap[h] = Cell.unbound := by
          rcases List.getElem?_eq_some_iff.mp hg with ⟨_, hv⟩; exact hv
        simp only [undo1, List.set_set]
        rw [← hv, List.set_getElem_self hlt]
      · -- not trailed: the cell is at or above hb, hence above every choice point's heap top
        rename_i hge
        refine inv_of_same m _ hi (by simp) (Nat.le_refl _) ?_
        intro cp hm
        have := hi.hb cp hm
        exact ⟨take_set_of_le _ _ _ _ (by omega), rfl, rfl⟩
    · rename_i hg
      simp only [trailHeap]
      split
      · refine inv_of_trailed m _ _ hi (by simp) rfl ?_
        have hlt : h < m.st.heap.length := by
          rcases List.getElem?_eq_some_iff.mp hg with ⟨hl, _⟩; exact hl
        have hv : m.st.heap[h] = Cell.attr := by
          rcases List.getElem?_eq_some_iff.mp hg with ⟨_, hv⟩; exact hv
        simp only [undo1, List.set_set]
        rw [← hv, List.set_getElem_self hlt]
      · rename_i hge
        refine inv_of_same m _ hi (by simp) (Nat.le_refl _) ?_
        intro cp hm
        have := hi.hb cp hm
        exact ⟨take_set_of_le _ _ _ _ (by omega), rfl, rfl⟩
    · exact hi
  | bindStack h v =>
    simp only [step]
    split
    · rename_i hg
      split
      · refine inv_of_trailed m _ _ hi rfl (by simp) ?_
        have hlt : h < m.st.stack.length := by
          rcases List.getElem?_eq_some_iff.mp hg with ⟨hl, _⟩; exact hl
        have hv : m.st.stack[h] = Cell.unbound := by
          rcases List.getElem?_eq_some_iff.mp hg with ⟨_, hv⟩; exact hv
        simp only [undo1, List.set_set]
        rw [← hv, List.set_getElem_self hlt]
      · rename_i hge
        refine inv_of_same m _ hi (Nat.le_refl _) (by simp) ?_
        intro cp hm
        have := b_ge m hi.wf cp hm
        exact ⟨rfl, take_set_of_le _ _ _ _ (by omega), rfl⟩
    · exact hi
  | relink h new =>
    simp only [step]
    split
    · rename_i old hg
      simp only [trailHeap]
      split
      · refine inv_of_trailed m _ _ hi (by simp) rfl ?_
        have hlt : h < m.st.heap.length := by
          rcases List.getElem?_eq_some_iff.mp hg with ⟨hl, _⟩; exact hl
        have hv : m.st.heap[h] = old := by
          rcases List.getElem?_eq_some_iff.mp hg with ⟨_, hv⟩; exact hv
        simp only [undo1, List.set_set]
        rw [← hv, List.set_getElem_self hlt]
      · rename_i hge
        refine inv_of_same m _ hi (by simp) (Nat.le_refl _) ?_
        intro cp hm
        have := hi.hb cp hm
        exact ⟨take_set_of_le _ _ _ _ (by omega), rfl, rfl⟩
    · exact hi
  | pushChoice =>
    simp only [step]
    refine ⟨⟨Nat.le_refl _, Nat.le_refl _, Nat.le_refl _, hi.wf⟩, ?_, ?_⟩
    · intro cp hm
      rcases List.mem_cons.mp hm with rfl | hr
      · exact Nat.le_refl _
      · exact (WF.mem hi.wf cp hr).1
    · intro cp hm
      rcases List.mem_cons.mp hm with rfl | hr
      · simp only [restore]
        rw [undoTo_of_length_le _ _ _ (Nat.le_refl _)]
        simp [trunc]
      · exact hi.snap cp hr
  | retry =>
    simp only [step]
    cases hc : m.cps with
    | nil => simpa [hc] using hi
    | cons cp rest =>
      simp only
      have hw := hi.wf
      rw [hc] at hw
      obtain ⟨w1, w2, w3, w4⟩ := hw
      have hcp : cp ∈ m.cps := by rw [hc]; simp
      refine ⟨?_, ?_, ?_⟩
      · simp only [restore, trunc]
        have hl := undoTo_lengths cp.tr m.trail m.st
        refine ⟨?_, ?_, ?_, w4⟩
        · simp only [List.length_take]; omega
        · rw [dropTo_length _ _ w2]; exact Nat.le_refl _
        · simp only [List.length_take]; omega
      · intro c hm
        rcases List.mem_cons.mp hm with rfl | hr
        · exact Nat.le_refl _
        · exact (WF.mem w4 c hr).1
      · intro c hm
        have hcm : c ∈ m.cps := by rw [hc]; exact hm
        have hle : c.tr ≤ cp.tr ∧ c.h ≤ cp.h ∧ c.sTop ≤ cp.sTop := by
          rcases List.mem_cons.mp hm with rfl | hr
          · exact ⟨Nat.le_refl _, Nat.le_refl _, Nat.le_refl _⟩
          · have := WF.mem w4 c hr; omega
        rw [← hi.snap c hcm]
        simp only [restore]
        rw [undoTo_split c.tr cp.tr hle.1 m.trail m.st]
        apply trunc_of_same
        apply undoTo_same
        exact same_trunc _ _ _ _ _ hle.2.1 hle.2.2
  | trust =>
    simp only [step]
    cases hc : m.cps with
    | nil => simpa [hc] using hi
    | cons cp rest =>
      simp only
      have hw := hi.wf
      rw [hc] at hw
      obtain ⟨w1, w2, w3, w4⟩ := hw
      refine ⟨?_, ?_, ?_⟩
      · simp only [restore, trunc]
        have hl := undoTo_lengths cp.tr m.trail m.st
        refine w4.mono ?_ ?_ ?_
        · simp only [List.length_take]; omega
        · rw [dropTo_length _ _ w2]; exact Nat.le_refl _
        · simp only [List.length_take]; omega
      · intro c hr
        exact (WF.mem w4 c hr).1
      · intro c hr
        have hcm : c ∈ m.cps := by rw [hc]; exact List.mem_cons_of_mem _ hr
        have hle := WF.mem w4 c hr
        rw [← hi.snap c hcm]
        simp only [restore]
        rw [undoTo_split c.tr cp.tr hle.2.1 m.trail m.st]
        apply trunc_of_same
        apply undoTo_same
        exact same_trunc _ _ _ _ _ hle.1 hle.2.2
  | cut k =>
    simp only [step]
    refine ⟨hi.wf.drop k, fun cp hm => hi.hb cp (List.mem_of_mem_drop hm), fun cp hm => ?_⟩
    exact hi.snap cp (List.mem_of_mem_drop hm)
  | bbPut k v =>
    simp only [step]
    refine ⟨hi.wf.map_snap (fun s => overrideBB s k v), ?_, ?_⟩
    · intro cp hm
      simp only [List.mem_map] at hm
      obtain ⟨c, hc, rfl⟩ := hm
      exact hi.hb c hc
    · intro cp hm
      simp only [List.mem_map] at hm
      obtain ⟨c, hc, rfl⟩ := hm
      simp only [restore]
      rw [undoTo_override, trunc_override]
      have := hi.snap c hc
      simp only [restore] at this
      rw [this]
  | bbBPut k v =>
    simp only [step]
    split
    · rename_i old hl
      refine inv_of_trailed m _ _ hi rfl rfl ?_
      simp only [undo1, setBB, if_true, Option.isSome_some, setBB_setBB]
      have : setBB m.st.bb k ⟨(m.st.bb k).persist, some old⟩ = m.st.bb := by
        funext j
        simp only [setBB]
        split
        · rename_i hj; subst hj; rw [← hl]
        · rfl
      rw [this]
    · rename_i hl
      refine inv_of_trailed m _ _ hi rfl rfl ?_
      simp only [undo1, setBB, if_true, setBB_setBB]
      have : setBB m.st.bb k ⟨(m.st.bb k).persist, none⟩ = m.st.bb := by
        funext j
        simp only [setBB]
        split
        · rename_i hj; subst hj; rw [← hl]
        · rfl
      rw [this]
  | bbGet k =>
    simp only [step]
    split
    · rename_i p hl hp
      refine inv_of_trailed m _ _ hi rfl rfl ?_
      simp only [undo1, setBB, if_true, setBB_setBB]
      have : setBB m.st.bb k ⟨some p, none⟩ = m.st.bb := by
        funext j
        simp only [setBB]
        split
        · rename_i hj; subst hj
          cases hb : m.st.bb j with
          | mk pp ll => simp only [hb] at hl hp; subst hl; subst hp; rfl
        · rfl
      rw [this]
    · exact hi

theorem run_inv : ∀ (os : List Op) (m : M), Inv m → Inv (run m os) := by
  intro os
  induction os with
  | nil => intro m h; exact h
  | cons o os ih => intro m h; exact ih _ (step_inv m o h)

/-! ### goals that leave the choice point of their caller alone -/

/-- `keeps d ops`: starting `d` choice points above a given one, the operations never backtrack to,
    pop or cut that choice point, and end with it on top. -/
def keeps : Nat → List Op → Bool
  | d, [] => d == 0
  | d, .pushChoice :: os => keeps (d + 1) os
  | d, .trust :: os => decide (0 < d) && keeps (d - 1) os
  | d, .retry :: os => decide (0 < d) && keeps d os
  | d, .cut k :: os => decide (k ≤ d) && keeps (d - k) os
  | d, .newVar :: os => keeps d os
  | d, .newAttrVar :: os => keeps d os
  | d, .newCell _ :: os => keeps d os
  | d, .newStackVar :: os => keeps d os
  | d, .bind _ _ :: os => keeps d os
  | d, .bindStack _ _ :: os => keeps d os
  | d, .relink _ _ :: os => keeps d os
  | d, .bbPut _ _ :: os => keeps d os
  | d, .bbBPut _ _ :: os => keeps d os
  | d, .bbGet _ :: os => keeps d os

/-- the `bb_put/2` calls of a goal, in order -/
def puts : List Op → List (Nat × Nat)
  | [] => []
  | .bbPut k v :: os => (k, v) :: puts os
  | _ :: os => puts os

def overrides (s : Store) : List (Nat × Nat) → Store
  | [] => s
  | (k, v) :: r => overrides (overrideBB s k v) r

def mapSnap (f : Store → Store) (cps : List CP) : List CP := cps.map fun cp => { cp with snap := f cp.snap }

theorem mapSnap_id (cps : List CP) : mapSnap (fun s => s) cps = cps := by
  simp [mapSnap]

theorem mapSnap_mapSnap (f g : Store → Store) (cps : List CP) :
    mapSnap f (mapSnap g cps) = mapSnap (fun s => f (g s)) cps := by
  simp [mapSnap, List.map_map, Function.comp_def]

theorem mapSnap_append (f : Store → Store) (a b : List CP) : mapSnap f (a ++ b) = mapSnap f a ++ mapSnap f b := by
  simp [mapSnap]

theorem overrides_heap (s : Store) : ∀ (ps : List (Nat × Nat)) , (overrides s ps).heap = s.heap ∧ (overrides s ps).stack = s.stack := by
  intro ps
  induction ps generalizing s with
  | nil => exact ⟨rfl, rfl⟩
  | cons p r ih =>
    obtain ⟨k, v⟩ := p
    simp only [overrides]
    have := ih (overrideBB s k v)
    exact ⟨this.1, this.2⟩

theorem dropTo_suffix (n : Nat) (t0 : List TE) (h : t0.length ≤ n) : ∀ (pre : List TE),
    ∃ pre', dropTo n (pre ++ t0) = pre' ++ t0 := by
  intro pre
  induction pre with
  | nil => exact ⟨[], by simp [dropTo_of_length_le n t0 h]⟩
  | cons e pre ih =>
    simp only [List.cons_append, dropTo]
    split
    · exact ih
    · exact ⟨e :: pre, rfl⟩

theorem dropTo_append_exact (t0 : List TE) : ∀ (pre : List TE), dropTo t0.length (pre ++ t0) = t0 := by
  intro pre
  induction pre with
  | nil => simp [dropTo_of_length_le]
  | cons e pre ih =>
    simp only [List.cons_append, dropTo]
    have : t0.length ≤ (pre ++ t0).length := by simp
    simp [ih]

/-- operations other than choice point operations and `bb_put` leave the choice points alone and
    only add to the trail. -/
def Flat : Op → Prop
  | .newVar | .newAttrVar | .newCell _ | .newStackVar | .bind _ _ | .bindStack _ _ | .relink _ _
  | .bbBPut _ _ | .bbGet _ => True
  | _ => False

macro "flat_close" : tactic =>
  `(tactic| first
    | exact ⟨rfl, [], rfl⟩ | exact ⟨rfl, [_], rfl⟩
    | exact ⟨trivial, [], rfl⟩ | exact ⟨trivial, [_], rfl⟩
    | exact ⟨[], rfl⟩ | exact ⟨[_], rfl⟩)

theorem flat_step (m : M) (o : Op) (hf : Flat o) :
    (step m o).cps = m.cps ∧ ∃ pre, (step m o).trail = pre ++ m.trail := by
  cases o with
  | newVar => exact ⟨rfl, [], rfl⟩
  | newAttrVar => exact ⟨rfl, [], rfl⟩
  | newCell v => exact ⟨rfl, [], rfl⟩
  | newStackVar => exact ⟨rfl, [], rfl⟩
  | bind h v =>
    simp only [step]
    split
    · simp only [trailHeap]; split <;> flat_close
    · simp only [trailHeap]; split <;> flat_close
    · flat_close
  | bindStack h v =>
    simp only [step]
    split
    · split <;> flat_close
    · flat_close
  | relink h new =>
    simp only [step]
    split
    · simp only [trailHeap]; split <;> flat_close
    · flat_close
  | bbBPut k v =>
    simp only [step]
    split <;> flat_close
  | bbGet k =>
    simp only [step]
    split <;> flat_close
  | pushChoice => exact absurd hf (by simp [Flat])
  | retry => exact absurd hf (by simp [Flat])
  | trust => exact absurd hf (by simp [Flat])
  | cut k => exact absurd hf (by simp [Flat])
  | bbPut k v => exact absurd hf (by simp [Flat])

theorem wf_newer_tr {hl tl sl : Nat} : ∀ (newer : List CP) (cp0 : CP) (base : List CP),
    WF hl tl sl (newer ++ cp0 :: base) → cp0.tr ≤ tl := by
  intro newer cp0 base h
  exact (WF.mem h cp0 (by simp)).2.1

theorem run_keeps : ∀ (ops : List Op) (d : Nat) (m : M) (newer : List CP) (cp0 : CP) (base : List CP)
    (t0 : List TE),
    keeps d ops = true → Inv m → m.cps = newer ++ cp0 :: base → newer.length = d →
    (∃ pre, m.trail = pre ++ t0) → t0.length = cp0.tr →
    (run m ops).cps = mapSnap (fun s => overrides s (puts ops)) (cp0 :: base)
    ∧ ∃ pre, (run m ops).trail = pre ++ t0 := by
  intro ops
  induction ops with
  | nil =>
    intro d m newer cp0 base t0 hk _ hc hd ht _
    simp only [keeps, beq_iff_eq] at hk
    subst hk
    have : newer = [] := List.eq_nil_of_length_eq_zero hd
    subst this
    simp only [run, puts, overrides]
    rw [mapSnap_id]
    exact ⟨by simpa using hc, ht⟩
  | cons o os ih =>
    intro d m newer cp0 base t0 hk hi hc hd ht ht0
    have hi' := step_inv m o hi
    have flatCase : Flat o → keeps d os = true → puts (o :: os) = puts os →
        (run m (o :: os)).cps = mapSnap (fun s => overrides s (puts (o :: os))) (cp0 :: base)
        ∧ ∃ pre, (run m (o :: os)).trail = pre ++ t0 := by
      intro hf hk' hp
      obtain ⟨h1, pre1, h2⟩ := flat_step m o hf
      obtain ⟨pre, hpre⟩ := ht
      simp only [run, hp]
      exact ih d (step m o) newer cp0 base t0 hk' hi' (by rw [h1, hc]) hd
        ⟨pre1 ++ pre, by rw [h2, hpre]; simp⟩ ht0
    cases o with
    | newVar => exact flatCase trivial (by simpa [keeps] using hk) rfl
    | newAttrVar => exact flatCase trivial (by simpa [keeps] using hk) rfl
    | newCell v => exact flatCase trivial (by simpa [keeps] using hk) rfl
    | newStackVar => exact flatCase trivial (by simpa [keeps] using hk) rfl
    | bind h v => exact flatCase trivial (by simpa [keeps] using hk) rfl
    | bindStack h v => exact flatCase trivial (by simpa [keeps] using hk) rfl
    | relink h new => exact flatCase trivial (by simpa [keeps] using hk) rfl
    | bbBPut k v => exact flatCase trivial (by simpa [keeps] using hk) rfl
    | bbGet k => exact flatCase trivial (by simpa [keeps] using hk) rfl
    | pushChoice =>
      simp only [keeps] at hk
      simp only [run, puts]
      refine ih (d + 1) (step m .pushChoice) (⟨m.st.heap.length, m.trail.length, m.st.stack.length, m.st⟩ :: newer) cp0 base t0 hk hi' ?_ (by simp [hd]) ht ht0
      simp [step, hc]
    | trust =>
      simp only [keeps, Bool.and_eq_true, decide_eq_true_eq] at hk
      obtain ⟨hpos, hk'⟩ := hk
      cases newer with
      | nil => simp at hd; omega
      | cons c n' =>
        simp only [run, puts]
        have hw := hi.wf
        rw [hc] at hw
        simp only [List.cons_append] at hw
        have hle : cp0.tr ≤ c.tr := wf_newer_tr n' cp0 base hw.2.2.2
        obtain ⟨pre, hpre⟩ := ht
        have hstep : (step m .trust).cps = n' ++ cp0 :: base ∧ (step m .trust).trail = dropTo c.tr m.trail := by
          simp [step, hc]
        obtain ⟨pre', hpre'⟩ := dropTo_suffix c.tr t0 (by omega) pre
        refine ih (d - 1) (step m .trust) n' cp0 base t0 hk' hi' hstep.1 (by simp at hd; omega)
          ⟨pre', by rw [hstep.2, hpre, hpre']⟩ ht0
    | retry =>
      simp only [keeps, Bool.and_eq_true, decide_eq_true_eq] at hk
      obtain ⟨hpos, hk'⟩ := hk
      cases newer with
      | nil => simp at hd; omega
      | cons c n' =>
        simp only [run, puts]
        have hw := hi.wf
        rw [hc] at hw
        simp only [List.cons_append] at hw
        have hle : cp0.tr ≤ c.tr := wf_newer_tr n' cp0 base hw.2.2.2
        obtain ⟨pre, hpre⟩ := ht
        have hstep : (step m .retry).cps = (c :: n') ++ cp0 :: base ∧ (step m .retry).trail = dropTo c.tr m.trail := by
          simp [step, hc]
        obtain ⟨pre', hpre'⟩ := dropTo_suffix c.tr t0 (by omega) pre
        refine ih d (step m .retry) (c :: n') cp0 base t0 hk' hi' hstep.1 hd
          ⟨pre', by rw [hstep.2, hpre, hpre']⟩ ht0
    | cut k =>
      simp only [keeps, Bool.and_eq_true, decide_eq_true_eq] at hk
      obtain ⟨hle, hk'⟩ := hk
      simp only [run, puts]
      refine ih (d - k) (step m (.cut k)) (newer.drop k) cp0 base t0 hk' hi' ?_ (by simp [hd]) ht ht0
      simp only [step, hc]
      rw [List.drop_append_of_le_length (by omega)]
    | bbPut k v =>
      simp only [keeps] at hk
      simp only [run, puts]
      have hstep : (step m (.bbPut k v)).cps
          = mapSnap (fun s => overrideBB s k v) newer ++
            { cp0 with snap := overrideBB cp0.snap k v } :: mapSnap (fun s => overrideBB s k v) base := by
        simp only [step, hc, mapSnap, List.map_append, List.map_cons]
      have := ih d (step m (.bbPut k v)) _ _ _ t0 hk hi' hstep (by simp [mapSnap, hd]) ht ht0
      obtain ⟨h1, h2⟩ := this
      refine ⟨?_, h2⟩
      rw [h1]
      simp only [mapSnap, List.map_cons, List.map_map, overrides]
      rfl

end Scryer.Trail
