import ScryerModel.Model.ArithInt
/-! Helper lemmas for the integer arithmetic model (C01, C05).

Everything here is over Lean core only (no Mathlib). Layout: representation lemmas, `+ - * abs`,
division family, binary GCD (invariant + fuel sufficiency), shifts (clamps, sign fill, the
"fits in memory" side condition), bitwise, min/max/sign, power, and finally whole expressions
(`eval_wf`, `eval_exact`). The bit-level reading of `land/lor/lxor` is in `Proofs/ArithIntBits`. -/
namespace Scryer.Arith

@[simp] theorem val_fix (v : Int) : (Num.fix v).val = v := rfl
@[simp] theorem val_big (v : Int) : (Num.big v).val = v := rfl

@[simp] theorem ofI64_val (v : Int) : (ofI64 v).val = v := by
  unfold ofI64; split <;> rfl

@[simp] theorem ofBig_val (v : Int) : (ofBig v).val = v := rfl

theorem ofI64_wf (v : Int) : (ofI64 v).wf := by
  unfold ofI64; split
  · simpa [Num.wf]
  · trivial

theorem ofBig_wf (v : Int) : (ofBig v).wf := trivial

theorem inFix_iff (v : Int) : inFix v = true ↔ (-(2^55) ≤ v ∧ v ≤ 2^55 - 1) := by
  unfold inFix FIX_MIN FIX_MAX; rw [Bool.and_eq_true, decide_eq_true_iff, decide_eq_true_iff]

theorem inI64_iff (v : Int) : inI64 v = true ↔ (-(2^63) ≤ v ∧ v ≤ 2^63 - 1) := by
  unfold inI64 I64_MIN I64_MAX; rw [Bool.and_eq_true, decide_eq_true_iff, decide_eq_true_iff]

theorem add_val (a b : Num) : (add a b).val = a.val + b.val := by
  cases a <;> cases b <;> simp only [add, val_fix, val_big, ofBig_val]
  · split <;> simp
  · omega

theorem add_wf (a b : Num) : (add a b).wf := by
  cases a <;> cases b <;> simp only [add]
  · split
    · exact ofI64_wf _
    · exact ofBig_wf _
  all_goals exact ofBig_wf _

theorem neg_val (a : Num) : (neg a).val = - a.val := by
  cases a <;> simp only [neg, val_fix, val_big, ofBig_val]
  split <;> simp

theorem neg_wf (a : Num) : (neg a).wf := by
  cases a <;> simp only [neg]
  · split
    · exact ofI64_wf _
    · exact ofBig_wf _
  · exact ofBig_wf _

theorem sub_val (a b : Num) : (sub a b).val = a.val - b.val := by
  simp only [sub, add_val, neg_val]; omega

theorem sub_wf (a b : Num) : (sub a b).wf := add_wf _ _

theorem mul_val (a b : Num) : (mul a b).val = a.val * b.val := by
  cases a <;> cases b <;> simp only [mul, val_fix, val_big, ofBig_val]
  · split <;> simp
  · exact Int.mul_comm _ _

theorem mul_wf (a b : Num) : (mul a b).wf := by
  cases a <;> cases b <;> simp only [mul]
  · split
    · exact ofI64_wf _
    · exact ofBig_wf _
  all_goals exact ofBig_wf _

theorem abs_val (a : Num) (h : a.wf) : (abs a).val = a.val.natAbs := by
  cases a with
  | fix v =>
    simp only [abs, val_fix]
    split
    · rfl
    · rename_i hn
      have hv := (inFix_iff v).1 h
      have : ¬ (-(2^55) ≤ (v.natAbs : Int) ∧ (v.natAbs : Int) ≤ 2^55 - 1) := by
        intro hh; exact hn ((inFix_iff _).2 hh)
      simp only [ofBig_val, FIX_MAX]
      omega
  | big v => simp only [abs, val_big, ofBig_val]

theorem abs_wf (a : Num) : (abs a).wf := by
  cases a <;> simp only [abs]
  · split
    · simpa [Num.wf]
    · exact ofBig_wf _
  · exact ofBig_wf _

/-! ### `//`, `rem`, `mod`, `div` -/

theorem ibigRemFloor_eq (n1 n2 : Int) : ibigRemFloor n1 n2 = Int.fmod n1 n2 := by
  unfold ibigRemFloor
  rw [Int.fmod_eq_emod]
  have e : n1.emod (n2.natAbs : Int) = n1 % n2 := by
    show n1 % (n2.natAbs : Int) = n1 % n2
    rcases Int.natAbs_eq n2 with h | h
    · rw [← h]
    · conv => rhs; rw [h]
      rw [Int.emod_neg]
  simp only [e]
  by_cases hn : n2 < 0
  · simp only [hn, if_true]
    by_cases hr : n1 % n2 = 0
    · have : n2 ∣ n1 := Int.dvd_of_emod_eq_zero hr
      simp [hr, this]
    · have : ¬ n2 ∣ n1 := fun hd => hr (Int.emod_eq_zero_of_dvd hd)
      have h0 : ¬ (0 ≤ n2) := by omega
      simp [hr, this, h0]
  · have h0 : 0 ≤ n2 := by omega
    simp [hn, h0]

theorem tdiv_sub_fmod (a b : Int) (h : b ≠ 0) : Int.tdiv (a - Int.fmod a b) b = Int.fdiv a b := by
  have := Int.mul_fdiv_add_fmod a b
  have e : a - Int.fmod a b = b * Int.fdiv a b := by omega
  rw [e, Int.mul_tdiv_cancel_left _ h]

@[simp] theorem map_ok (f : Num → Int) (x : Num) : Except.map f (Except.ok x : R) = .ok (f x) := rfl
@[simp] theorem map_error (f : Num → Int) (e : Err) : Except.map f (Except.error e : R) = .error e := rfl

theorem idiv_spec (a b : Num) : (idiv a b).map Num.val = specBin .idiv a.val b.val := by
  cases a <;> cases b <;> simp only [idiv, specBin, val_fix, val_big] <;> rename_i x y <;>
    by_cases hb : y = 0 <;> simp only [hb, if_true, if_false, map_ok, map_error, ofBig_val]
  split <;> simp

theorem idiv_wf (a b n : Num) (h : idiv a b = .ok n) : n.wf := by
  cases a <;> cases b <;> simp only [idiv] at h <;> split at h <;> try cases h
  · split at h <;> cases h
    · exact ofI64_wf _
    · exact ofBig_wf _
  all_goals exact ofBig_wf _

theorem modulus_spec (a b : Num) : (modulus a b).map Num.val = specBin .mod a.val b.val := by
  cases a <;> cases b <;> simp only [modulus, specBin, val_fix, val_big] <;> rename_i x y <;>
    by_cases hb : y = 0 <;>
    simp only [hb, if_true, if_false, map_ok, map_error, ofBig_val, ofI64_val, ibigRemFloor_eq]

theorem modulus_wf (a b n : Num) (h : modulus a b = .ok n) : n.wf := by
  cases a <;> cases b <;> simp only [modulus] at h <;> split at h <;> cases h
  · exact ofI64_wf _
  all_goals exact ofBig_wf _

theorem remainder_spec (a b : Num) : (remainder a b).map Num.val = specBin .rem a.val b.val := by
  cases a <;> cases b <;> simp only [remainder, specBin, val_fix, val_big] <;> rename_i x y <;>
    by_cases hb : y = 0 <;>
    simp only [hb, if_true, if_false, map_ok, map_error, ofBig_val, ofI64_val]

theorem remainder_wf (a b n : Num) (h : remainder a b = .ok n) : n.wf := by
  cases a <;> cases b <;> simp only [remainder] at h <;> split at h <;> cases h
  · exact ofI64_wf _
  all_goals exact ofBig_wf _

theorem intFloorDiv_spec (a b : Num) : (intFloorDiv a b).map Num.val = specBin .div a.val b.val := by
  unfold intFloorDiv
  have hm := modulus_spec a b
  cases hmod : modulus a b with
  | error e =>
    rw [hmod] at hm
    simp only [specBin] at hm ⊢
    split at hm
    · rename_i hb; rw [if_pos hb]; exact hm
    · cases hm
  | ok m =>
    rw [hmod] at hm
    simp only [specBin] at hm ⊢
    split at hm
    · cases hm
    · rename_i hb
      simp only [map_ok, Except.ok.injEq] at hm
      rw [idiv_spec, sub_val, hm]
      simp only [specBin, hb, if_false, tdiv_sub_fmod _ _ hb]

theorem intFloorDiv_wf (a b n : Num) (h : intFloorDiv a b = .ok n) : n.wf := by
  unfold intFloorDiv at h
  split at h
  · cases h
  · exact idiv_wf _ _ _ h

/-! ### gcd -/

theorem gcd_odd_two_mul (m k : Nat) (hm : m % 2 = 1) : Nat.gcd m (2 * k) = Nat.gcd m k :=
  Nat.Coprime.gcd_mul_left_cancel_right k
    (by unfold Nat.Coprime; rw [Nat.gcd_rec, hm]; exact Nat.gcd_one_left _)

theorem stripTwos_gcd (m : Nat) (hm : m % 2 = 1) (fuel n : Nat) :
    Nat.gcd m (stripTwos fuel n) = Nat.gcd m n := by
  induction fuel generalizing n with
  | zero => rfl
  | succ f ih =>
    unfold stripTwos
    split
    · rename_i h
      rw [ih, ← gcd_odd_two_mul m (n / 2) hm]
      congr 1; omega
    · rfl

theorem stripTwos_le (fuel n : Nat) : stripTwos fuel n ≤ n := by
  induction fuel generalizing n with
  | zero => exact Nat.le_refl _
  | succ f ih =>
    unfold stripTwos
    split
    · exact Nat.le_trans (ih _) (Nat.div_le_self _ _)
    · exact Nat.le_refl _

theorem stripTwos_ne_zero (fuel n : Nat) (hn : n ≠ 0) : stripTwos fuel n ≠ 0 := by
  induction fuel generalizing n with
  | zero => exact hn
  | succ f ih =>
    unfold stripTwos
    split
    · exact ih _ (by omega)
    · exact hn

/-- fuel sufficiency: `fuel` halvings strip every trailing zero bit of a non-zero `n < 2^fuel`. -/
theorem stripTwos_odd (fuel n : Nat) (hn : n ≠ 0) (hlt : n < 2 ^ fuel) :
    stripTwos fuel n % 2 = 1 := by
  induction fuel generalizing n with
  | zero => simp at hlt; omega
  | succ f ih =>
    unfold stripTwos
    split
    · exact ih _ (by omega) (by rw [Nat.pow_succ] at hlt; omega)
    · omega

theorem stripTwos_of_odd (fuel n : Nat) (h : n % 2 = 1) : stripTwos fuel n = n := by
  cases fuel with
  | zero => rfl
  | succ f => unfold stripTwos; rw [if_neg (by omega)]

/-- the common-factor loop divides both arguments by the same `2^k`, counts `k`, and (fuel
sufficiency) stops with one of them odd. -/
theorem commonTwos_spec (fuel a b s : Nat) :
    ∃ k, (commonTwos fuel a b s).2.2 = s + k ∧ a = (commonTwos fuel a b s).1 * 2 ^ k ∧
      b = (commonTwos fuel a b s).2.1 * 2 ^ k ∧
      (a ≠ 0 → a < 2 ^ fuel →
        ((commonTwos fuel a b s).1 % 2 = 1 ∨ (commonTwos fuel a b s).2.1 % 2 = 1)) := by
  induction fuel generalizing a b s with
  | zero =>
    refine ⟨0, rfl, by simp [commonTwos], by simp [commonTwos], ?_⟩
    intro h0 h1; simp at h1; omega
  | succ f ih =>
    unfold commonTwos
    split
    · rename_i h
      obtain ⟨k, hs, ha, hb, hodd⟩ := ih (a / 2) (b / 2) (s + 1)
      refine ⟨k + 1, by omega, ?_, ?_, ?_⟩
      · rw [Nat.pow_succ, ← Nat.mul_assoc, ← ha]; omega
      · rw [Nat.pow_succ, ← Nat.mul_assoc, ← hb]; omega
      · intro h0 h1
        exact hodd (by omega) (by rw [Nat.pow_succ] at h1; omega)
    · rename_i h
      refine ⟨0, rfl, by simp, by simp, ?_⟩
      intro _ _; show a % 2 = 1 ∨ b % 2 = 1; omega

/-- the subtraction loop: invariant `gcd`, termination because `n1 + n2` strictly decreases. -/
theorem gcdLoop_spec (fuel n1 n2 : Nat) (h1 : n1 % 2 = 1) (h2 : n2 ≠ 0)
    (hb1 : n1 < 2 ^ 64) (hb2 : n2 < 2 ^ 64) (hf : n1 + n2 < fuel) :
    gcdLoop fuel n1 n2 = Nat.gcd n1 n2 := by
  induction fuel generalizing n1 n2 with
  | zero => omega
  | succ f ih =>
    unfold gcdLoop
    have hmo := stripTwos_odd 64 n2 h2 hb2
    have hmle := stripTwos_le 64 n2
    have hmg := stripTwos_gcd n1 h1 64 n2
    generalize stripTwos 64 n2 = m at *
    by_cases hgt : n1 > m
    · simp only [hgt, if_true]
      rw [if_neg (by omega), ih m (n1 - m) hmo (by omega) (by omega) (by omega) (by omega),
        Nat.gcd_sub_self_right (by omega), Nat.gcd_comm, hmg]
    · simp only [hgt, if_false]
      split
      · have : m = n1 := by omega
        rw [← hmg, this, Nat.gcd_self]
      · rw [ih n1 (m - n1) h1 (by omega) hb1 (by omega) (by omega),
          Nat.gcd_sub_self_right (by omega), hmg]

theorem isizeGcd_spec (n1 n2 r : Int) (hi1 : inI64 n1 = true) (hi2 : inI64 n2 = true)
    (h : isizeGcd n1 n2 = some r) : r = Int.gcd n1 n2 := by
  have hi1 := (inI64_iff n1).1 hi1
  have hi2 := (inI64_iff n2).1 hi2
  unfold isizeGcd at h
  split at h
  · rename_i h0
    split at h
    · cases h
    · cases h; rw [h0, Int.gcd_zero_left]
  · split at h
    · rename_i h0
      split at h
      · cases h
      · cases h; rw [h0, Int.gcd_zero_right]
    · split at h
      · cases h
      · rename_i hz1 hz2 hmin
        have hmin1 : n1 ≠ -(2^63) := fun e => hmin (Or.inl e)
        have hmin2 : n2 ≠ -(2^63) := fun e => hmin (Or.inr e)
        obtain ⟨k, hs, ha, hb, hodd⟩ := commonTwos_spec 64 n1.natAbs n2.natAbs 0
        have hodd := hodd (by omega) (by omega)
        generalize commonTwos 64 n1.natAbs n2.natAbs 0 = t at *
        obtain ⟨a, b, s⟩ := t
        simp only at hs ha hb hodd h
        cases h
        have hk : 1 ≤ 2 ^ k := Nat.one_le_two_pow
        have ha0 : a ≠ 0 := by intro e; rw [e] at ha; omega
        have hb0 : b ≠ 0 := by intro e; rw [e] at hb; omega
        have hale : a ≤ n1.natAbs := by rw [ha]; exact Nat.le_mul_of_pos_right _ hk
        have hble : b ≤ n2.natAbs := by rw [hb]; exact Nat.le_mul_of_pos_right _ hk
        have hso := stripTwos_odd 64 a ha0 (by omega)
        have hsle := stripTwos_le 64 a
        have hsg : Nat.gcd (stripTwos 64 a) b = Nat.gcd a b := by
          rcases hodd with ho | ho
          · rw [stripTwos_of_odd 64 a ho]
          · rw [Nat.gcd_comm, stripTwos_gcd b ho, Nat.gcd_comm]
        rw [gcdLoop_spec _ _ _ hso hb0 (by omega) (by omega) (by omega), hsg]
        have : Int.gcd n1 n2 = Nat.gcd a b * 2 ^ k := by
          show Nat.gcd n1.natAbs n2.natAbs = _
          rw [ha, hb, Nat.gcd_mul_right]
        rw [this, hs, Nat.zero_add]
        simp

/-! ### shifts -/

theorem shlZ_eq (a : Int) (n : Nat) : shlZ a n = a * 2 ^ n := by
  unfold shlZ; split
  · rename_i h; rw [h, Int.zero_mul]
  · rfl

theorem shrZ_eq (a : Int) (n : Nat) : shrZ a n = a / 2 ^ n := by
  unfold shrZ; rw [Int.shiftRight_eq_div_pow]; simp

theorem checkedSignedShl_val (x s r : Int) (h : checkedSignedShl x s = some r) :
    r = x * 2 ^ s.toNat := by
  unfold checkedSignedShl at h
  split at h
  · rename_i h0; cases h; rw [h0]; simp
  · split at h
    · split at h
      · cases h; exact shlZ_eq _ _
      · cases h
    · split at h
      · cases h
      · simp only at h
        split at h
        · cases h; rw [shlZ_eq, Int.neg_mul, Int.neg_neg]
        · cases h

theorem pow_le_pow_int (k n : Nat) (h : k ≤ n) : (2:Int) ^ k ≤ 2 ^ n := by
  have := Nat.pow_le_pow_right (by decide : 2 > 0) h
  exact_mod_cast this

/-- shifting out every significant bit leaves the sign. -/
theorem ediv_pow_signfill (a : Int) (k n : Nat) (hk : k ≤ n)
    (hlo : -(2 ^ k) ≤ a) (hhi : a < 2 ^ k) : a / 2 ^ n = if a < 0 then -1 else 0 := by
  have hm := pow_le_pow_int k n hk
  generalize (2:Int) ^ n = m at *
  generalize (2:Int) ^ k = c at *
  have hpos : 0 < m := by omega
  split
  · have := (Int.ediv_emod_unique (a := a) (b := m) (r := a + m) (q := -1) hpos).2
      ⟨by omega, by omega, by omega⟩
    exact this.1
  · exact Int.ediv_eq_zero_of_lt (by omega) (by omega)

theorem inU32_iff (v : Int) : inU32 v = true ↔ (0 ≤ v ∧ v ≤ 2^32 - 1) := by
  unfold inU32 U32_MAX; rw [Bool.and_eq_true, decide_eq_true_iff, decide_eq_true_iff]

theorem inUsize_iff (v : Int) : inUsize v = true ↔ (0 ≤ v ∧ v ≤ USIZE_MAX) := by
  unfold inUsize; rw [Bool.and_eq_true, decide_eq_true_iff, decide_eq_true_iff]

/-- The "fits in memory" bound: `a` has fewer than `usize::MAX` significant bits, i.e.
`-2^(2^64-1) ≤ a < 2^(2^64-1)`. Every value a 64-bit machine can hold satisfies it (the comment
in `shr` of `arithmetic_ops.rs`: such a bignum would need 2 EiB). -/
def FitsMem (a : Int) : Prop :=
  -((2:Int) ^ USIZE_MAX.toNat) ≤ a ∧ a < (2:Int) ^ USIZE_MAX.toNat

/-- side condition of a right shift of `a` by `c ≥ 0`: the count is not clamped, or the clamp is
harmless because `a` fits in memory. -/
def shrOk (a c : Int) : Prop := c ≤ USIZE_MAX ∨ FitsMem a
/-- side condition of a left shift of `a` by `c ≥ 0`: the count is not clamped (otherwise the
exact result `a * 2^c` cannot be represented at all, unless `a = 0`). -/
def shlOk (a c : Int) : Prop := c ≤ USIZE_MAX ∨ a = 0

theorem usize_toNat_ge : 55 ≤ USIZE_MAX.toNat := by
  unfold USIZE_MAX; omega

theorem fitsMem_of_inFix (a : Int) (h : inFix a = true) : FitsMem a := by
  have h := (inFix_iff a).1 h
  have := pow_le_pow_int 55 USIZE_MAX.toNat usize_toNat_ge
  unfold FitsMem
  generalize (2:Int) ^ USIZE_MAX.toNat = m at *
  omega

theorem shrNonneg_fix_val (a n : Int) (ha : inFix a = true) (hn : 0 ≤ n) :
    (shrNonneg (.fix a) n).val = a / 2 ^ n.toNat := by
  have ha := (inFix_iff a).1 ha
  simp only [shrNonneg, ofI64_val, clampU32]
  by_cases hu : inU32 n = true
  · simp only [hu, if_true]
    split
    · exact shrZ_eq _ _
    · rw [ediv_pow_signfill a 55 n.toNat (by omega) (by omega) (by omega)]
  · simp only [hu]
    have hu' : ¬ (0 ≤ n ∧ n ≤ 2^32 - 1) := fun h => hu ((inU32_iff n).2 h)
    have : ¬ (U32_MAX < 64) := by unfold U32_MAX; omega
    simp only [Bool.false_eq_true, if_false, this]
    rw [ediv_pow_signfill a 55 n.toNat (by omega) (by omega) (by omega)]

theorem shrNonneg_big_val (a n : Int) (hn : 0 ≤ n) (h : shrOk a n) :
    (shrNonneg (.big a) n).val = a / 2 ^ n.toNat := by
  simp only [shrNonneg, ofBig_val, clampUsize, shrZ_eq]
  by_cases hu : inUsize n = true
  · simp only [hu, if_true]
  · simp only [hu]
    have hu' : ¬ (0 ≤ n ∧ n ≤ USIZE_MAX) := fun h => hu ((inUsize_iff n).2 h)
    rcases h with h | h
    · exact absurd ⟨hn, h⟩ hu'
    · have hle : USIZE_MAX.toNat ≤ n.toNat := Int.toNat_le_toNat (by omega)
      simp only [Bool.false_eq_true, if_false]
      rw [ediv_pow_signfill a _ _ (Nat.le_refl _) h.1 h.2, ediv_pow_signfill a _ _ hle h.1 h.2]

theorem shrNonneg_val (a : Num) (n : Int) (ha : a.wf) (hn : 0 ≤ n) (h : shrOk a.val n) :
    (shrNonneg a n).val = a.val / 2 ^ n.toNat := by
  cases a with
  | fix v => exact shrNonneg_fix_val v n ha hn
  | big v => exact shrNonneg_big_val v n hn h

theorem shrNonneg_wf (a : Num) (n : Int) : (shrNonneg a n).wf := by
  cases a <;> simp only [shrNonneg]
  · exact ofI64_wf _
  · exact ofBig_wf _

theorem shlNonneg_val_clamped (a : Num) (n : Int) :
    (shlNonneg a n).val = a.val * 2 ^ (clampUsize n).toNat := by
  cases a with
  | fix v =>
    simp only [shlNonneg, val_fix]
    split
    · rename_i r hr; rw [ofI64_val]; exact checkedSignedShl_val _ _ _ hr
    · rw [ofBig_val, shlZ_eq]
  | big v => simp only [shlNonneg, ofBig_val, val_big, shlZ_eq]

theorem shlNonneg_val (a : Num) (n : Int) (hn : 0 ≤ n) (h : shlOk a.val n) :
    (shlNonneg a n).val = a.val * 2 ^ n.toNat := by
  rw [shlNonneg_val_clamped]
  rcases h with h | h
  · have : inUsize n = true := (inUsize_iff n).2 ⟨hn, h⟩
    simp only [clampUsize, this, if_true]
  · rw [h, Int.zero_mul, Int.zero_mul]

theorem shlNonneg_wf (a : Num) (n : Int) : (shlNonneg a n).wf := by
  cases a <;> simp only [shlNonneg]
  · split
    · exact ofI64_wf _
    · exact ofBig_wf _
  · exact ofBig_wf _

/-- domain side conditions of the binary operations (only shifts have one). -/
def binDomain : BinOp → Int → Int → Prop
  | .shl, a, b => if b ≥ 0 then shlOk a b else shrOk a (-b)
  | .shr, a, b => if b ≥ 0 then shrOk a b else shlOk a (-b)
  | _, _, _ => True

theorem shr_val (a b : Num) (ha : a.wf) (hd : binDomain .shr a.val b.val) :
    (shr a b).val = if b.val ≥ 0 then a.val / 2 ^ b.val.toNat else a.val * 2 ^ (-b.val).toNat := by
  simp only [binDomain] at hd
  unfold shr Num.isNeg
  by_cases hb : b.val < 0
  · have h0 : ¬ (b.val ≥ 0) := by omega
    simp only [hb, h0, decide_true, if_true, if_false, neg_val] at hd ⊢
    exact shlNonneg_val a _ (by omega) hd
  · have h0 : b.val ≥ 0 := by omega
    simp only [hb, h0, decide_false, if_true, if_false, Bool.false_eq_true] at hd ⊢
    exact shrNonneg_val a _ ha h0 hd

theorem shl_val (a b : Num) (ha : a.wf) (hd : binDomain .shl a.val b.val) :
    (shl a b).val = if b.val ≥ 0 then a.val * 2 ^ b.val.toNat else a.val / 2 ^ (-b.val).toNat := by
  simp only [binDomain] at hd
  unfold shl Num.isNeg
  by_cases hb : b.val < 0
  · have h0 : ¬ (b.val ≥ 0) := by omega
    simp only [hb, h0, decide_true, if_true, if_false, neg_val] at hd ⊢
    exact shrNonneg_val a _ ha (by omega) hd
  · have h0 : b.val ≥ 0 := by omega
    simp only [hb, h0, decide_false, if_true, if_false, Bool.false_eq_true] at hd ⊢
    exact shlNonneg_val a _ h0 hd

theorem shr_wf (a b : Num) : (shr a b).wf := by
  unfold shr; split
  · exact shlNonneg_wf _ _
  · exact shrNonneg_wf _ _

theorem shl_wf (a b : Num) : (shl a b).wf := by
  unfold shl; split
  · exact shrNonneg_wf _ _
  · exact shlNonneg_wf _ _

theorem lt_pow_bitlen (n : Nat) : n < 2 ^ leadingZeros.Nat.log2' n := by
  unfold leadingZeros.Nat.log2'
  split
  · rename_i h; rw [h]; decide
  · exact Nat.lt_log2_self

theorem shl_fits_nat (n L t : Nat) (h : n < 2 ^ L) (hl : L + t ≤ 63) : n * 2 ^ t < 2 ^ 63 := by
  have h1 : n * 2 ^ t < 2 ^ L * 2 ^ t := Nat.mul_lt_mul_of_pos_right h (Nat.two_pow_pos t)
  rw [← Nat.pow_add] at h1
  exact Nat.lt_of_lt_of_le h1 (Nat.pow_le_pow_right (by decide) hl)

theorem shl_fits (x s : Int) (hx : 0 ≤ x) (hs0 : 0 ≤ s) (hs : s < (leadingZeros x : Int)) :
    0 ≤ x * 2 ^ s.toNat ∧ x * 2 ^ s.toNat < 2 ^ 63 := by
  have hb := lt_pow_bitlen x.toNat
  unfold leadingZeros at hs
  have := shl_fits_nat x.toNat _ s.toNat hb (by omega)
  have e : x * 2 ^ s.toNat = ((x.toNat * 2 ^ s.toNat : Nat) : Int) := by
    rw [Int.natCast_mul, Int.toNat_of_nonneg hx, Int.natCast_pow]; rfl
  rw [e]
  constructor
  · exact Int.natCast_nonneg _
  · exact_mod_cast this

/-- fidelity of the exact-`Int` modelling of `x << shift`: whenever the guard
`shift < leading_zeros` lets the i64 shift happen, the exact result is inside i64
(so the wrapping machine shift and the exact one coincide). -/
theorem checkedSignedShl_inI64 (x s r : Int) (hx : inI64 x = true) (hs0 : 0 ≤ s)
    (h : checkedSignedShl x s = some r) : inI64 r = true := by
  unfold checkedSignedShl at h
  split at h
  · cases h; exact hx
  · split at h
    · rename_i hx0
      split at h
      · rename_i hs; cases h
        have := shl_fits x s hx0 hs0 hs
        rw [shlZ_eq]; exact (inI64_iff _).2 (by omega)
      · cases h
    · split at h
      · cases h
      · simp only at h
        split at h
        · rename_i hs; cases h
          have := shl_fits (-x) s (by omega) hs0 hs
          rw [shlZ_eq]; exact (inI64_iff _).2 (by omega)
        · cases h

theorem checkedPowLoop_inI64 (fuel : Nat) (base acc : Int) (e : Nat) (r : Int)
    (h : checkedPowLoop fuel base acc e = some r) : inI64 r = true := by
  induction fuel generalizing base acc e with
  | zero => cases h
  | succ f ih =>
    unfold checkedPowLoop at h
    split at h
    · split at h
      · cases h
      · rename_i hin
        split at h
        · cases h; simpa using hin
        · split at h
          · cases h
          · exact ih _ _ _ h
    · split at h
      · cases h
      · exact ih _ _ _ h

/-! ### bitwise -/
theorem band_val (a b : Num) : (band a b).val = land a.val b.val := by
  cases a <;> cases b <;> simp only [band, ofI64_val, ofBig_val, val_fix, val_big]
theorem bor_val (a b : Num) : (bor a b).val = lor a.val b.val := by
  cases a <;> cases b <;> simp only [bor, ofI64_val, ofBig_val, val_fix, val_big]
theorem bxor_val (a b : Num) : (bxor a b).val = lxor a.val b.val := by
  cases a <;> cases b <;> simp only [bxor, ofI64_val, ofBig_val, val_fix, val_big]
theorem band_wf (a b : Num) : (band a b).wf := by
  cases a <;> cases b <;> first | exact ofI64_wf _ | exact ofBig_wf _
theorem bor_wf (a b : Num) : (bor a b).wf := by
  cases a <;> cases b <;> first | exact ofI64_wf _ | exact ofBig_wf _
theorem bxor_wf (a b : Num) : (bxor a b).wf := by
  cases a <;> cases b <;> first | exact ofI64_wf _ | exact ofBig_wf _
theorem bnot_val (a : Num) : (bnot a).val = -a.val - 1 := by
  cases a <;> rfl
/-- `Fixnum(!n)` is built unchecked: it stays in range because the range is symmetric under `!`. -/
theorem bnot_wf (a : Num) (h : a.wf) : (bnot a).wf := by
  cases a with
  | fix v =>
    have h := (inFix_iff v).1 h
    exact (inFix_iff _).2 (by omega)
  | big v => trivial

/-! ### min / max / sign -/
theorem max_val (a b : Num) : (max a b).val = if a.val ≤ b.val then b.val else a.val := by
  cases a <;> cases b <;> simp only [max, val_fix, val_big] <;> split <;>
    simp only [val_fix, val_big] <;> omega
theorem min_val (a b : Num) : (min a b).val = if a.val ≤ b.val then a.val else b.val := by
  cases a <;> cases b <;> simp only [min, val_fix, val_big] <;> split <;>
    simp only [val_fix, val_big] <;> omega
theorem max_wf (a b : Num) (ha : a.wf) (hb : b.wf) : (max a b).wf := by
  cases a <;> cases b <;> simp only [max] <;> split <;> first | exact ha | exact hb | trivial
theorem min_wf (a b : Num) (ha : a.wf) (hb : b.wf) : (min a b).wf := by
  cases a <;> cases b <;> simp only [min] <;> split <;> first | exact ha | exact hb | trivial
theorem sign_val (a : Num) : (sign a).val = Int.sign a.val := by
  unfold sign
  split
  · rename_i h; rw [Int.sign_eq_one_of_pos h]; rfl
  · split
    · rename_i h; rw [Int.sign_eq_neg_one_of_neg h]; rfl
    · have : a.val = 0 := by omega
      rw [this]; rfl
theorem sign_wf (a : Num) : (sign a).wf := by
  unfold sign; split
  · decide
  · split <;> decide

/-! ### power -/

theorem neg_one_pow (n : Nat) : (-1 : Int) ^ n = if n % 2 = 0 then 1 else -1 := by
  have h := Nat.div_add_mod n 2
  have e : (-1 : Int) ^ (2 * (n / 2)) = 1 := by
    rw [Int.pow_mul]; show (1:Int) ^ (n/2) = 1; exact Int.one_pow
  rcases Nat.mod_two_eq_zero_or_one n with h0 | h1
  · rw [h0] at h; simp only [h0, if_true]; rw [← h, Nat.add_zero, e]
  · rw [h1] at h; simp only [h1]; rw [← h, Int.pow_succ, e]; simp

theorem powZ_eq (a : Int) (n : Nat) : powZ a n = a ^ n := by
  unfold powZ
  split
  · rename_i h; rw [h, Int.one_pow]
  · split
    · rename_i h; rw [h]
      split
      · rename_i hn; rw [hn]; rfl
      · rename_i hn; rw [Int.zero_pow hn]
    · split
      · rename_i h; rw [h, neg_one_pow]
      · rfl

theorem pow_two_mul_half_odd (b : Int) (e : Nat) (h : e % 2 = 1) :
    b * (b * b) ^ (e / 2) = b ^ e := by
  have := Nat.div_add_mod e 2
  rw [h] at this
  conv => rhs; rw [← this]
  rw [Int.pow_succ, Int.pow_mul, (show b ^ 2 = b * b from by rw [Int.pow_succ, Int.pow_one]), Int.mul_comm]

theorem pow_two_mul_half_even (b : Int) (e : Nat) (h : ¬ e % 2 = 1) :
    (b * b) ^ (e / 2) = b ^ e := by
  have := Nat.div_add_mod e 2
  have h0 : e % 2 = 0 := by omega
  rw [h0] at this
  conv => rhs; rw [← this]
  rw [Nat.add_zero, Int.pow_mul, (show b ^ 2 = b * b from by rw [Int.pow_succ, Int.pow_one])]

theorem checkedPowLoop_val (fuel : Nat) (base acc : Int) (e : Nat) (r : Int)
    (h : checkedPowLoop fuel base acc e = some r) : r = acc * base ^ e := by
  induction fuel generalizing base acc e with
  | zero => cases h
  | succ f ih =>
    unfold checkedPowLoop at h
    split at h
    · rename_i hodd
      split at h
      · cases h
      · split at h
        · rename_i h1; cases h; rw [h1, Int.pow_one]
        · split at h
          · cases h
          · rw [ih _ _ _ h, ← pow_two_mul_half_odd base e hodd, Int.mul_assoc]
    · rename_i heven
      split at h
      · cases h
      · rw [ih _ _ _ h, pow_two_mul_half_even base e heven]

theorem checkedPow_val (a : Int) (n : Nat) (r : Int) (h : checkedPow a n = some r) : r = a ^ n := by
  unfold checkedPow at h
  split at h
  · rename_i h0; cases h; rw [h0, Int.pow_zero]
  · rw [checkedPowLoop_val _ _ _ _ _ h, Int.one_mul]

/-- whatever `checked_pow` returns passed a `checked_mul`, so it is inside i64. -/
theorem checkedPow_inI64 (a : Int) (n : Nat) (r : Int) (h : checkedPow a n = some r) :
    inI64 r = true := by
  unfold checkedPow at h
  split at h
  · cases h; decide
  · exact checkedPowLoop_inI64 _ _ _ _ _ h

theorem binaryPowLoop_val (fuel : Nat) (n oddand : Int) (p : Nat) (hp : 1 ≤ p) (hf : p < 2 ^ fuel) :
    binaryPowLoop fuel n oddand p = oddand * n ^ p := by
  induction fuel generalizing n oddand p with
  | zero => simp at hf; omega
  | succ f ih =>
    unfold binaryPowLoop
    split
    · rename_i h1
      rw [ih _ _ _ (by omega) (by rw [Nat.pow_succ] at hf; omega)]
      split
      · rename_i hodd
        rw [Int.mul_assoc, pow_two_mul_half_odd n p hodd]
      · rename_i heven
        rw [pow_two_mul_half_even n p heven]
    · have : p = 1 := by omega
      rw [this, Int.pow_one, Int.mul_comm]

theorem binaryPow_eq (n p : Int) : binaryPow n p = n ^ p.natAbs := by
  unfold binaryPow
  simp only
  split
  · rename_i h; rw [h, Int.pow_zero]
  · rename_i h
    rw [binaryPowLoop_val _ _ _ _ (by omega) Nat.lt_log2_self, Int.one_mul]


theorem isUnitOrZero_iff (a : Int) : isUnitOrZero a = true ↔ (a = 1 ∨ a = 0 ∨ a = -1) := by
  unfold isUnitOrZero; simp [or_assoc]

/-- the guard of every `int_pow` arm, against the specification's guard. -/
theorem powGuard_iff (x n : Int) (h0 : ¬ (x = 0 ∧ n < 0)) :
    ((!isUnitOrZero x && decide (n < 0)) = true) ↔ (n < 0 ∧ x ≠ 1 ∧ x ≠ -1) := by
  rw [Bool.and_eq_true, Bool.not_eq_true', decide_eq_true_iff]
  constructor
  · rintro ⟨hu, hn⟩
    have : ¬ (x = 1 ∨ x = 0 ∨ x = -1) := fun h => by
      rw [(isUnitOrZero_iff x).2 h] at hu; cases hu
    refine ⟨hn, fun h => this (Or.inl h), fun h => this (Or.inr (Or.inr h))⟩
  · rintro ⟨hn, h1, h2⟩
    refine ⟨?_, hn⟩
    cases hu : isUnitOrZero x with
    | false => rfl
    | true =>
      rcases (isUnitOrZero_iff x).1 hu with h | h | h
      · exact absurd h h1
      · exact absurd ⟨h, hn⟩ h0
      · exact absurd h h2

theorem powTail (x n : Int) (h0 : ¬ (x = 0 ∧ n < 0)) (t : R)
    (ht : t.map Num.val = .ok (x ^ n.natAbs)) :
    (if (!isUnitOrZero x && decide (n < 0)) = true then (Except.error (.typeFloat x) : R) else t).map
        Num.val
      = if n < 0 ∧ x ≠ 1 ∧ x ≠ -1 then .error (.typeFloat x) else .ok (powZ x n.natAbs) := by
  have hg := powGuard_iff x n h0
  by_cases hc : (n < 0 ∧ x ≠ 1 ∧ x ≠ -1)
  · rw [if_pos (hg.2 hc), if_pos hc]; rfl
  · rw [if_neg (fun h => hc (hg.1 h)), if_neg hc, ht, powZ_eq]

theorem zeroNegGuard_iff (a b : Num) :
    ((a.isZero && b.isNeg) = true) ↔ (a.val = 0 ∧ b.val < 0) := by
  unfold Num.isZero Num.isNeg
  rw [Bool.and_eq_true, decide_eq_true_iff, decide_eq_true_iff]

theorem intPow_spec (a b : Num) : (intPow a b).map Num.val = specBin .pow a.val b.val := by
  unfold intPow
  simp only [specBin]
  by_cases h0 : a.val = 0 ∧ b.val < 0
  · rw [if_pos ((zeroNegGuard_iff _ _).2 h0), if_pos h0]; rfl
  · rw [if_neg (fun h => h0 ((zeroNegGuard_iff _ _).1 h)), if_neg h0]
    cases a <;> cases b <;> rename_i x n <;> refine powTail x n h0 _ ?_
    · split
      · rename_i r hr
        split at hr
        · rename_i hu
          have hn : 0 ≤ n := by
            unfold inU32 at hu; rw [Bool.and_eq_true, decide_eq_true_iff] at hu; exact hu.1
          have := checkedPow_val _ _ _ hr
          rw [map_ok, ofI64_val, this]
          congr 2; omega
        · cases hr
      · rw [map_ok, ofBig_val, binaryPow_eq]
    all_goals rw [map_ok, ofBig_val, binaryPow_eq]

theorem intPow_wf (a b n : Num) (h : intPow a b = .ok n) : n.wf := by
  unfold intPow at h
  dsimp only at h
  by_cases h0 : (a.isZero && b.isNeg) = true
  · rw [if_pos h0] at h; cases h
  · rw [if_neg h0] at h
    cases a <;> cases b <;> dsimp only at h <;> split at h <;> try cases h
    · split at h <;> cases h
      · exact ofI64_wf _
      · exact ofBig_wf _
    all_goals exact ofBig_wf _

/-! ### `zero_divisor` ⇔ divisor = 0; necessity of the left-shift side condition -/

theorem zeroDivisor_iff (x : R) (b v : Int)
    (h : x.map Num.val = if b = 0 then .error .zeroDivisor else .ok v) :
    x = .error .zeroDivisor ↔ b = 0 := by
  by_cases hb : b = 0
  · rw [if_pos hb] at h
    cases x with
    | error e => rw [map_error] at h; cases h; exact ⟨fun _ => hb, fun _ => rfl⟩
    | ok n => cases h
  · rw [if_neg hb] at h
    cases x with
    | error e => cases h
    | ok n => exact ⟨fun h' => (nomatch h'), fun h' => absurd h' hb⟩

/-- the `shlOk` side condition is necessary: with a clamped count and a non-zero operand the
model (like the code, if it had the memory) returns `a * 2^usize::MAX`, not `a * 2^n`. -/
theorem shlNonneg_clamped_ne (a : Num) (n : Int) (hn : USIZE_MAX < n) (ha : a.val ≠ 0) :
    (shlNonneg a n).val ≠ a.val * 2 ^ n.toNat := by
  rw [shlNonneg_val_clamped]
  have hu : ¬ (inUsize n = true) := fun h => by
    have := ((inUsize_iff n).1 h).2; omega
  simp only [clampUsize, hu, Bool.false_eq_true, if_false]
  intro h
  have h2 : (2:Int) ^ USIZE_MAX.toNat = 2 ^ n.toNat := Int.eq_of_mul_eq_mul_left ha h
  have hlt : USIZE_MAX.toNat < n.toNat := (Int.toNat_lt_toNat (by unfold USIZE_MAX at hn; omega)).2 hn
  have h3 : 2 ^ USIZE_MAX.toNat < 2 ^ n.toNat := Nat.pow_lt_pow_right (by decide) hlt
  have h4 : ((2 ^ USIZE_MAX.toNat : Nat) : Int) = ((2 ^ n.toNat : Nat) : Int) := by
    rw [Int.natCast_pow, Int.natCast_pow]; exact h2
  have := Int.ofNat_inj.1 h4
  omega

/-! ### gcd on `Num` -/

theorem inI64_of_inFix (v : Int) (h : inFix v = true) : inI64 v = true := by
  have := (inFix_iff v).1 h
  exact (inI64_iff v).2 (by omega)

theorem gcd_val (a b : Num) (ha : a.wf) (hb : b.wf) : (gcd a b).val = Int.gcd a.val b.val := by
  cases a <;> cases b <;> simp only [gcd, val_fix, val_big, ofBig_val]
  · split
    · rename_i r hr
      rw [ofI64_val]
      exact isizeGcd_spec _ _ _ (inI64_of_inFix _ ha) (inI64_of_inFix _ hb) hr
    · rfl
  · rw [Int.gcd_comm]

theorem gcd_wf (a b : Num) : (gcd a b).wf := by
  cases a <;> cases b <;> simp only [gcd]
  · split
    · exact ofI64_wf _
    · exact ofBig_wf _
  all_goals exact ofBig_wf _

/-! ### whole expressions -/

/-- The side condition of `C01_eval_exact`: every shift inside `e` either has a count that
survives the clamp to `usize::MAX`, or the clamp is harmless (right shift of a value that fits in
memory / left shift of 0). It is phrased over the *specification* values (`evalSpec`), so it
does not mention the model. Everything a 64-bit machine can evaluate without running out of
memory satisfies it. -/
def InDomain : Expr → Prop
  | .lit _ => True
  | .un _ e => InDomain e
  | .bin op l r => InDomain l ∧ InDomain r ∧
      ∀ a b, evalSpec l = .ok a → evalSpec r = .ok b → binDomain op a b

theorem applyUn_spec (op : UnOp) (a : Num) (ha : a.wf) :
    (applyUn op a).map Num.val = specUn op a.val := by
  cases op <;> simp only [applyUn, specUn, map_ok, neg_val, abs_val a ha, sign_val, bnot_val]

theorem applyUn_wf (op : UnOp) (a n : Num) (ha : a.wf) (h : applyUn op a = .ok n) : n.wf := by
  cases op <;> simp only [applyUn, Except.ok.injEq] at h <;> subst h
  · exact neg_wf _
  · exact abs_wf _
  · exact sign_wf _
  · exact bnot_wf _ ha
  · exact ha

theorem applyBin_spec (op : BinOp) (a b : Num) (ha : a.wf) (hb : b.wf)
    (hd : binDomain op a.val b.val) :
    (applyBin op a b).map Num.val = specBin op a.val b.val := by
  cases op
  case idiv => exact idiv_spec a b
  case div => exact intFloorDiv_spec a b
  case mod => exact modulus_spec a b
  case rem => exact remainder_spec a b
  case pow => exact intPow_spec a b
  case shl => simp only [applyBin, specBin, map_ok, shl_val a b ha hd, shlZ_eq, shrZ_eq]
  case shr => simp only [applyBin, specBin, map_ok, shr_val a b ha hd, shlZ_eq, shrZ_eq]
  all_goals simp only [applyBin, specBin, map_ok, add_val, sub_val, mul_val, gcd_val a b ha hb,
    min_val, max_val, band_val, bor_val, bxor_val]

theorem applyBin_wf (op : BinOp) (a b n : Num) (ha : a.wf) (hb : b.wf)
    (h : applyBin op a b = .ok n) : n.wf := by
  cases op
  case idiv => exact idiv_wf a b n h
  case div => exact intFloorDiv_wf a b n h
  case mod => exact modulus_wf a b n h
  case rem => exact remainder_wf a b n h
  case pow => exact intPow_wf a b n h
  all_goals simp only [applyBin, Except.ok.injEq] at h <;> subst h
  · exact add_wf _ _
  · exact sub_wf _ _
  · exact mul_wf _ _
  · exact gcd_wf _ _
  · exact min_wf _ _ ha hb
  · exact max_wf _ _ ha hb
  · exact shl_wf _ _
  · exact shr_wf _ _
  · exact band_wf _ _
  · exact bor_wf _ _
  · exact bxor_wf _ _

theorem eval_wf (e : Expr) (n : Num) (h : eval e = .ok n) : n.wf := by
  induction e generalizing n with
  | lit v => simp only [eval, Except.ok.injEq] at h; subst h; exact ofI64_wf _
  | un op e ih =>
    simp only [eval] at h
    split at h
    · cases h
    · rename_i a ha; exact applyUn_wf op a n (ih a ha) h
  | bin op l r ihl ihr =>
    simp only [eval] at h
    split at h
    · cases h
    · rename_i a ha
      split at h
      · cases h
      · rename_i b hb; exact applyBin_wf op a b n (ihl a ha) (ihr b hb) h

theorem eval_exact (e : Expr) (hd : InDomain e) : (eval e).map Num.val = evalSpec e := by
  induction e with
  | lit v => simp only [eval, evalSpec, map_ok, lit, ofI64_val]
  | un op e ih =>
    have ih := ih hd
    simp only [eval, evalSpec]
    cases he : eval e with
    | error x => rw [he] at ih; rw [← ih]; rfl
    | ok a =>
      rw [he] at ih; rw [← ih]
      exact applyUn_spec op a (eval_wf e a he)
  | bin op l r ihl ihr =>
    obtain ⟨hl, hr, hop⟩ := hd
    have ihl := ihl hl
    have ihr := ihr hr
    simp only [eval, evalSpec]
    cases hel : eval l with
    | error x => rw [hel] at ihl; rw [← ihl]; rfl
    | ok a =>
      rw [hel] at ihl; rw [← ihl]
      cases her : eval r with
      | error x => rw [her] at ihr; rw [← ihr]; rfl
      | ok b =>
        rw [her] at ihr; rw [← ihr]
        exact applyBin_spec op a b (eval_wf l a hel) (eval_wf r b her)
          (hop a.val b.val (by rw [← ihl]; rfl) (by rw [← ihr]; rfl))

end Scryer.Arith
