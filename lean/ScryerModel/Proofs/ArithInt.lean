import ScryerModel.Model.ArithInt
/-! Helper lemmas for the integer arithmetic model (C01, C05). -/
namespace Scryer.Arith

@[simp] theorem val_fix (v : Int) : (Num.fix v).val = v := rfl
@[simp] theorem val_big (v : Int) : (Num.big v).val = v := rfl

@[simp] theorem ofI64_val (v : Int) : (ofI64 v).val = v := by
  unfold ofI64; split <;> rfl

@[simp] theorem ofBig_val (v : Int) : (ofBig v).val = v := rfl

theorem ofI64_wf (v : Int) : (ofI64 v).wf := by
  unfold ofI64; split
  · simpa [Num.wf]
  · trivial

theorem ofBig_wf (v : Int) : (ofBig v).wf := trivial

theorem inFix_iff (v : Int) : inFix v = true ↔ (-(2^55) ≤ v ∧ v ≤ 2^55 - 1) := by
  unfold inFix FIX_MIN FIX_MAX; rw [Bool.and_eq_true, decide_eq_true_iff, decide_eq_true_iff]

theorem inI64_iff (v : Int) : inI64 v = true ↔ (-(2^63) ≤ v ∧ v ≤ 2^63 - 1) := by
  unfold inI64 I64_MIN I64_MAX; rw [Bool.and_eq_true, decide_eq_true_iff, decide_eq_true_iff]

theorem add_val (a b : Num) : (add a b).val = a.val + b.val := by
  cases a <;> cases b <;> simp only [add, val_fix, val_big, ofBig_val]
  · split <;> simp
  · omega

theorem add_wf (a b : Num) : (add a b).wf := by
  cases a <;> cases b <;> simp only [add]
  · split
    · exact ofI64_wf _
    · exact ofBig_wf _
  all_goals exact ofBig_wf _

theorem neg_val (a : Num) : (neg a).val = - a.val := by
  cases a <;> simp only [neg, val_fix, val_big, ofBig_val]
  split <;> simp

theorem neg_wf (a : Num) : (neg a).wf := by
  cases a <;> simp only [neg]
  · split
    · exact ofI64_wf _
    · exact ofBig_wf _
  · exact ofBig_wf _

theorem sub_val (a b : Num) : (sub a b).val = a.val - b.val := by
  simp only [sub, add_val, neg_val]; omega

theorem sub_wf (a b : Num) : (sub a b).wf := add_wf _ _

theorem mul_val (a b : Num) : (mul a b).val = a.val * b.val := by
  cases a <;> cases b <;> simp only [mul, val_fix, val_big, ofBig_val]
  · split <;> simp
  · exact Int.mul_comm _ _

theorem mul_wf (a b : Num) : (mul a b).wf := by
  cases a <;> cases b <;> simp only [mul]
  · split
    · exact ofI64_wf _
    · exact ofBig_wf _
  all_goals exact ofBig_wf _

theorem abs_val (a : Num) (h : a.wf) : (abs a).val = a.val.natAbs := by
  cases a with
  | fix v =>
    simp only [abs, val_fix]
    split
    · rfl
    · rename_i hn
      have hv := (inFix_iff v).1 h
      have : ¬ (-(2^55) ≤ (v.natAbs : Int) ∧ (v.natAbs : Int) ≤ 2^55 - 1) := by
        intro hh; exact hn ((inFix_iff _).2 hh)
      simp only [ofBig_val, FIX_MAX]
      omega
  | big v => simp only [abs, val_big, ofBig_val]

theorem abs_wf (a : Num) : (abs a).wf := by
  cases a <;> simp only [abs]
  · split
    · simpa [Num.wf]
    · exact ofBig_wf _
  · exact ofBig_wf _

end Scryer.Arith
