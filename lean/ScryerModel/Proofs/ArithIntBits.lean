import Mathlib.Data.Int.Bitwise
import ScryerModel.Model.ArithInt
/-! The model's two's-complement operations on unbounded integers are Mathlib's `Int.land`,
`Int.lor`, `Int.xor`, `Int.lnot`; hence Mathlib's `testBit` characterisations apply. -/
namespace Scryer.Arith

theorem ldiff_eq (m n : Nat) : ldiff m n = Nat.ldiff m n := rfl

/-- the model's `land` is Mathlib's `Int.land`. -/
theorem land_eq_Int_land (a b : Int) : land a b = Int.land a b := by
  cases a <;> cases b <;> rfl
theorem lor_eq_Int_lor (a b : Int) : lor a b = Int.lor a b := by
  cases a <;> cases b <;> rfl
theorem lxor_eq_Int_xor (a b : Int) : lxor a b = Int.xor a b := by
  cases a <;> cases b <;> rfl

/-- bit-level characterisations -/
theorem land_testBit (a b : Int) (i : Nat) : (land a b).testBit i = (a.testBit i && b.testBit i) := by
  rw [land_eq_Int_land]; exact Int.testBit_land a b i
theorem lor_testBit (a b : Int) (i : Nat) : (lor a b).testBit i = (a.testBit i || b.testBit i) := by
  rw [lor_eq_Int_lor]; exact Int.testBit_lor a b i
theorem lxor_testBit (a b : Int) (i : Nat) : (lxor a b).testBit i = (a.testBit i ^^ b.testBit i) := by
  rw [lxor_eq_Int_xor]; exact Int.testBit_lxor a b i
theorem bnot_testBit (a : Int) (i : Nat) : (-a - 1).testBit i = !a.testBit i := by
  have : -a - 1 = Int.lnot a := by
    cases a with
    | ofNat m => show -(m:Int) - 1 = Int.negSucc m; omega
    | negSucc m => show -(Int.negSucc m) - 1 = (m : Int); omega
  rw [this]; exact Int.testBit_lnot a i
end Scryer.Arith
