import ScryerModel.Model.Syntax
/-! C15: the canonical reader reads what the canonical printer prints (token level). -/
namespace Scryer.Syntax
open Scryer.Quote

/-- what may follow a complete canonical term: nothing, a punctuation token (`,` `)` …) or the end token -/
def KOk : List Tok → Prop
  | [] => True
  | .punct _ :: _ => True
  | .endTok :: _ => True
  | _ => False

theorem Tm.size_pos (t : Tm) : 0 < t.size := by cases t <;> simp [Tm.size] <;> omega
theorem Args.size_pos (as : Args) : 0 < as.size := by cases as <;> simp [Args.size] <;> omega

theorem kok_printArgs (as : Args) (k : List Tok) : KOk (printArgs as ++ k) := by
  cases as <;> simp [printArgs, KOk]

mutual
theorem parseC_printC : ∀ (t : Tm) (fuel : Nat) (k : List Tok), t.size < fuel → KOk k →
    parseC fuel (printC t ++ k) = some (t, k)
  | .atom a, fuel, k, hf, hk => by
    cases fuel with
    | zero => simp [Tm.size] at hf
    | succ fuel =>
      simp only [printC, atomTokens]
      by_cases h1 : a = ['[', ']']
      · subst h1
        cases k with
        | nil => simp [parseC]
        | cons t r => cases t <;> simp [KOk] at hk <;> simp [parseC]
      · by_cases h2 : a = ['{', '}']
        · subst h2
          cases k with
          | nil => simp [parseC]
          | cons t r => cases t <;> simp [KOk] at hk <;> simp [parseC]
        · simp only [h1, h2, if_false, List.cons_append, List.nil_append]
          cases k with
          | nil => simp [parseC]
          | cons t r => cases t <;> simp [KOk] at hk <;> simp [parseC]
  | .int n, fuel, k, hf, hk => by
    cases fuel with
    | zero => simp [Tm.size] at hf
    | succ fuel =>
      by_cases hn : n < 0
      · simp only [printC, hn, if_true, List.cons_append, List.nil_append, parseC]
        simp
        omega
      · simp only [printC, hn, if_false, List.cons_append, List.nil_append, parseC]
        simp
        omega
  | .flt neg s, fuel, k, hf, hk => by
    cases fuel with
    | zero => simp [Tm.size] at hf
    | succ fuel => cases neg <;> simp [printC, parseC]
  | .var s, fuel, k, hf, hk => by
    cases fuel with
    | zero => simp [Tm.size] at hf
    | succ fuel => simp [printC, parseC]
  | .cmp f a as, fuel, k, hf, hk => by
    have pa := Tm.size_pos a
    have ps := Args.size_pos as
    simp only [Tm.size] at hf
    cases fuel with
    | zero => omega
    | succ fuel =>
      cases fuel with
      | zero => omega
      | succ fuel =>
        have ia := parseC_printC a fuel (printArgs as ++ k) (by omega) (kok_printArgs as k)
        have is := parseArgs_printArgs as fuel k (by omega)
        have hc : ∀ g, parseCmp (fuel + 1) g (printC a ++ (printArgs as ++ k)) = some (.cmp g a as, k) := by
          intro g; simp [parseCmp, ia, is]
        simp only [printC, atomTokens]
        by_cases h1 : f = ['[', ']']
        · subst h1; simp [parseC, hc]
        · by_cases h2 : f = ['{', '}']
          · subst h2; simp [parseC, hc]
          · simp [h1, h2, parseC, hc]
theorem parseArgs_printArgs : ∀ (as : Args) (fuel : Nat) (k : List Tok), as.size < fuel →
    parseArgs fuel (printArgs as ++ k) = some (as, k)
  | .nil, fuel, k, hf => by
    cases fuel with
    | zero => simp [Args.size] at hf
    | succ fuel => simp [printArgs, parseArgs]
  | .cons t ts, fuel, k, hf => by
    have pt := Tm.size_pos t
    have ps := Args.size_pos ts
    simp only [Args.size] at hf
    cases fuel with
    | zero => omega
    | succ fuel =>
      have it := parseC_printC t fuel (printArgs ts ++ k) (by omega) (kok_printArgs ts k)
      have is := parseArgs_printArgs ts fuel k (by omega)
      simp [printArgs, parseArgs, it, is]
end

end Scryer.Syntax
