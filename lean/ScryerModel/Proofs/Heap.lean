import ScryerModel.Model.Heap
/-! Helper lemmas for the heap model (C33 capacity invariant, C20 layout). -/
namespace Scryer.Heap

/-! ## index arithmetic -/

theorem sentinel_bounds (n : Nat) : 1 ≤ pstrSentinelLength n ∧ pstrSentinelLength n ≤ 8 := by
  unfold pstrSentinelLength nextMultipleOf8
  dsimp only
  split <;> split <;> omega

theorem sentinel_aligns (n : Nat) : (n + pstrSentinelLength n) % 8 = 0 := by
  unfold pstrSentinelLength nextMultipleOf8
  dsimp only
  split <;> split <;> omega

theorem sentinel_eq (n : Nat) : pstrSentinelLength n = 8 - n % 8 := by
  unfold pstrSentinelLength nextMultipleOf8
  dsimp only
  split <;> split <;> omega

theorem sentinel_shift (c n : Nat) : pstrSentinelLength (heapIndex c + n) = pstrSentinelLength n := by
  rw [sentinel_eq, sentinel_eq]; unfold heapIndex; omega

theorem nextMultipleOf8_eq (n : Nat) : nextMultipleOf8 n = (n + 7) / 8 * 8 := by
  unfold nextMultipleOf8; split <;> omega

/-- cells occupied by a string segment of `L ≥ 1` bytes written at a cell boundary
(`cells_written` of `push_pstr_segment`, `tail_idx` of `scan_slice_to_str_from_start`). -/
def segCells (L : Nat) : Nat := if L % 8 = 7 then L / 8 + 2 else L / 8 + 1

theorem segCells_pos (L : Nat) : 1 ≤ segCells L := by unfold segCells; split <;> omega

/-! ## memory -/

theorem put_length (mem : List MByte) (off : Nat) (bs : List MByte) :
    (put mem off bs).length = off + bs.length := by
  unfold put
  simp only [List.length_append, List.length_take, List.length_replicate]
  omega

theorem put_append (mem : List MByte) (bs : List MByte) : put mem mem.length bs = mem ++ bs := by
  unfold put; simp

@[simp] theorem zeros_length (n : Nat) : (zeros n).length = n := by simp [zeros]
@[simp] theorem encodeCell_length (c : Cell) : (encodeCell c).length = 8 := rfl

/-! ## the invariant -/

structure Inv (h : Heap) : Prop where
  len_le : h.len ≤ h.cap
  len8 : h.len % 8 = 0
  cap8 : h.cap % 8 = 0
  capMax : h.cap ≤ isizeMax
  memLen : h.mem.length = h.len
  logOk : ∀ w ∈ h.log, w.ok

/-- `h'` arises from `h` by zero or more successful grows only. -/
structure Grew (h h' : Heap) : Prop where
  len_eq : h'.len = h.len
  mem_eq : h'.mem = h.mem
  log_eq : h'.log = h.log
  cap_le : h.cap ≤ h'.cap
  inv : Inv h → Inv h'
  budget0 : h.budget = some 0 → h' = h

theorem Grew.refl (h : Heap) : Grew h h := ⟨rfl, rfl, rfl, Nat.le_refl _, id, fun _ => rfl⟩

theorem Grew.trans {a b c : Heap} (h1 : Grew a b) (h2 : Grew b c) (hb : a.budget = some 0 → b = a) :
    Grew a c where
  len_eq := h2.len_eq.trans h1.len_eq
  mem_eq := h2.mem_eq.trans h1.mem_eq
  log_eq := h2.log_eq.trans h1.log_eq
  cap_le := Nat.le_trans h1.cap_le h2.cap_le
  inv := fun i => h2.inv (h1.inv i)
  budget0 := fun hz => by
    have e := hb hz
    subst e
    exact h2.budget0 hz

theorem newCap_ge (h : Heap) : h.cap ≤ h.newCap := by unfold Heap.newCap; split <;> omega

theorem inv_setCap {h : Heap} (i : Inv h) (b : Option Nat) (hle : h.newCap ≤ isizeMax) :
    Inv { h with cap := h.newCap, budget := b } := by
  refine ⟨?_, i.len8, ?_, hle, i.memLen, i.logOk⟩
  · have := i.len_le; have := newCap_ge h; show h.len ≤ h.newCap; omega
  · have := i.cap8; show h.newCap % 8 = 0; unfold Heap.newCap initCap; split <;> omega

theorem grow_grown {h h' : Heap} (e : h.grow = .grown h') :
    Grew h h' ∧ h'.cap = h.newCap ∧ h.newCap ≤ isizeMax ∧ h.budget ≠ some 0 := by
  unfold Heap.grow at e
  by_cases hp : h.newCap > isizeMax
  · rw [if_pos hp] at e; cases e
  · rw [if_neg hp] at e
    have hle : h.newCap ≤ isizeMax := Nat.le_of_not_gt hp
    cases hb : h.budget with
    | none =>
      rw [hb] at e; cases e
      exact ⟨⟨rfl, rfl, rfl, newCap_ge h, fun i => inv_setCap i none hle,
        fun hz => by rw [hb] at hz; cases hz⟩, rfl, hle, fun hz => by cases hz⟩
    | some b =>
      rw [hb] at e
      cases b with
      | zero => cases e
      | succ b =>
        cases e
        exact ⟨⟨rfl, rfl, rfl, newCap_ge h, fun i => inv_setCap i _ hle,
          fun hz => by rw [hb] at hz; cases hz⟩, rfl, hle, fun hz => by cases hz⟩

theorem grow_failed {h h' : Heap} (e : h.grow = .failed h') : h' = h ∧ h.budget = some 0 := by
  unfold Heap.grow at e
  by_cases hp : h.newCap > isizeMax
  · rw [if_pos hp] at e; cases e
  · rw [if_neg hp] at e
    cases hb : h.budget with
    | none => rw [hb] at e; cases e
    | some b =>
      rw [hb] at e
      cases b with
      | zero => cases e; exact ⟨rfl, rfl⟩
      | succ b => cases e

theorem grow_panic {h h' : Heap} (e : h.grow = .panic h') : h' = h := by
  unfold Heap.grow at e
  by_cases hp : h.newCap > isizeMax
  · rw [if_pos hp] at e; cases e; rfl
  · rw [if_neg hp] at e
    cases hb : h.budget with
    | none => rw [hb] at e; cases e
    | some b =>
      rw [hb] at e
      cases b with
      | zero => cases e
      | succ b => cases e

/-- what `growUntil` can return -/
def GrowPost (h : Heap) (need : Nat) : Res Unit → Prop
  | .ok h' _ => Grew h h' ∧ need ≤ h'.freeSpace
  | .allocErr h' => Grew h h'
  | .panic h' => Grew h h'
  | .contract _ => False
  | .stuck => True

theorem GrowPost.mono {h h1 : Heap} {need : Nat} {r : Res Unit} (g : Grew h h1)
    (nz : h.budget ≠ some 0) (p : GrowPost h1 need r) : GrowPost h need r := by
  cases r with
  | ok h' u => exact ⟨g.trans p.1 (fun hz => absurd hz nz), p.2⟩
  | allocErr h' => exact g.trans p (fun hz => absurd hz nz)
  | panic h' => exact g.trans p (fun hz => absurd hz nz)
  | contract h' => exact p
  | stuck => trivial

theorem growUntil_spec (fuel : Nat) : ∀ (h : Heap) (need : Nat), GrowPost h need (growUntil fuel h need) := by
  induction fuel with
  | zero => intro h need; simp [growUntil, GrowPost]
  | succ fuel ih =>
    intro h need
    unfold growUntil
    by_cases hfit : h.freeSpace ≥ need
    · rw [if_pos hfit]; exact ⟨Grew.refl h, hfit⟩
    · rw [if_neg hfit]
      cases e1 : h.grow with
      | grown h1 =>
        have g1 := grow_grown e1
        exact GrowPost.mono g1.1 g1.2.2.2 (ih h1 need)
      | failed h1 =>
        have := (grow_failed e1).1; subst this; exact Grew.refl _
      | panic h1 =>
        have := grow_panic e1; subst this; exact Grew.refl _

/-- effective capacity for the termination argument (`grow` takes 0 to `2 * 2^18`). -/
def effCap (h : Heap) : Nat := if h.cap = 0 then 262144 else h.cap

theorem growUntil_not_stuck (fuel : Nat) : ∀ (h : Heap) (need : Nat),
    h.cap ≤ isizeMax → isizeMax < effCap h * 2 ^ fuel → growUntil fuel h need ≠ .stuck := by
  induction fuel with
  | zero =>
    intro h need hc hf
    exfalso
    unfold effCap isizeMax at *
    split at hf <;> omega
  | succ fuel ih =>
    intro h need hc hf
    unfold growUntil
    by_cases hfit : h.freeSpace ≥ need
    · rw [if_pos hfit]; intro e; cases e
    · rw [if_neg hfit]
      cases e1 : h.grow with
      | grown h1 =>
        have g1 := grow_grown e1
        have hcap1 : h1.cap = 2 * effCap h := by
          rw [g1.2.1]; unfold effCap Heap.newCap initCap; split <;> omega
        have hle : h1.cap ≤ isizeMax := by rw [g1.2.1]; exact g1.2.2.1
        apply ih h1 need hle
        have : effCap h1 = h1.cap := by
          unfold effCap; split
          · rename_i hz; rw [hcap1] at hz; unfold effCap at hz; split at hz <;> omega
          · rfl
        rw [this, hcap1]
        rw [Nat.pow_succ] at hf
        calc isizeMax < effCap h * (2 ^ fuel * 2) := hf
          _ = 2 * effCap h * 2 ^ fuel := by
            rw [Nat.mul_comm (2 ^ fuel) 2, ← Nat.mul_assoc, Nat.mul_comm (effCap h) 2]
      | failed h1 => intro e; cases e
      | panic h1 => intro e; cases e

theorem growUntil_loopFuel_not_stuck (h : Heap) (need : Nat) (hc : h.cap ≤ isizeMax) :
    growUntil loopFuel h need ≠ .stuck := by
  apply growUntil_not_stuck loopFuel h need hc
  have : 1 ≤ effCap h := by unfold effCap; split <;> omega
  calc isizeMax < 1 * 2 ^ loopFuel := by unfold isizeMax loopFuel; omega
    _ ≤ effCap h * 2 ^ loopFuel := Nat.mul_le_mul_right _ this

/-! ## partial invariant (in the middle of an operation) -/

/-- the heap while an operation is writing: everything up to `pos` is written. -/
structure PInv (h : Heap) (pos : Nat) : Prop where
  len_le : h.len ≤ h.cap
  len8 : h.len % 8 = 0
  cap8 : h.cap % 8 = 0
  capMax : h.cap ≤ isizeMax
  memLen : h.mem.length = pos
  logOk : ∀ w ∈ h.log, w.ok

theorem Inv.toP {h : Heap} (i : Inv h) : PInv h h.len :=
  ⟨i.len_le, i.len8, i.cap8, i.capMax, i.memLen, i.logOk⟩

theorem PInv.write {h : Heap} {pos : Nat} (p : PInv h pos) (bs : List MByte) (lo hi : Nat)
    (hlo : lo ≤ pos) (hhi : pos + bs.length ≤ hi) (hcap : hi ≤ h.cap) :
    PInv (h.write pos bs lo hi) (pos + bs.length) := by
  refine ⟨p.len_le, p.len8, p.cap8, p.capMax, ?_, ?_⟩
  · show (put h.mem pos bs).length = _
    rw [put_length]
  · intro w hw
    have : w = ⟨pos, bs.length, lo, hi, h.cap⟩ ∨ w ∈ h.log := by
      simpa [Heap.write] using hw
    rcases this with e | e
    · subst e; exact ⟨hlo, hhi, hcap⟩
    · exact p.logOk w e

theorem PInv.close {h : Heap} {pos : Nat} (p : PInv h pos) (h8 : pos % 8 = 0) (hle : pos ≤ h.cap) :
    Inv { h with len := pos } :=
  ⟨hle, h8, p.cap8, p.capMax, p.memLen, p.logOk⟩

@[simp] theorem write_cap (h : Heap) (off : Nat) (bs : List MByte) (lo hi : Nat) :
    (h.write off bs lo hi).cap = h.cap := rfl
@[simp] theorem write_len (h : Heap) (off : Nat) (bs : List MByte) (lo hi : Nat) :
    (h.write off bs lo hi).len = h.len := rfl
@[simp] theorem write_budget (h : Heap) (off : Nat) (bs : List MByte) (lo hi : Nat) :
    (h.write off bs lo hi).budget = h.budget := rfl
theorem write_log (h : Heap) (off : Nat) (bs : List MByte) (lo hi : Nat) :
    (h.write off bs lo hi).log = ⟨off, bs.length, lo, hi, h.cap⟩ :: h.log := rfl
theorem write_mem (h : Heap) (off : Nat) (bs : List MByte) (lo hi : Nat) :
    (h.write off bs lo hi).mem = put h.mem off bs := rfl

/-! ## sections -/

structure SecInv (s : Section) : Prop where
  p : PInv s.h (heapIndex s.cellLen)
  lo_le : s.lo ≤ heapIndex s.cellLen
  hi_le : s.hi ≤ s.h.cap

/-- `s'` arises from `s` by writes of the section; if the final position is inside the reserved
interval, so was every write. -/
structure SecStep (s s' : Section) : Prop where
  cap_eq : s'.h.cap = s.h.cap
  len_eq : s'.h.len = s.h.len
  budget_eq : s'.h.budget = s.h.budget
  lo_eq : s'.lo = s.lo
  hi_eq : s'.hi = s.hi
  mono : s.cellLen ≤ s'.cellLen
  inv : heapIndex s'.cellLen ≤ s.hi → SecInv s → SecInv s'
  logNew : ∀ w ∈ s'.h.log, w ∈ s.h.log ∨ (w.lo = s.lo ∧ w.hi = s.hi)

theorem SecStep.refl (s : Section) : SecStep s s :=
  ⟨rfl, rfl, rfl, rfl, rfl, Nat.le_refl _, fun _ i => i, fun _ hw => Or.inl hw⟩

theorem SecStep.trans {a b c : Section} (h1 : SecStep a b) (h2 : SecStep b c) : SecStep a c where
  cap_eq := h2.cap_eq.trans h1.cap_eq
  len_eq := h2.len_eq.trans h1.len_eq
  budget_eq := h2.budget_eq.trans h1.budget_eq
  lo_eq := h2.lo_eq.trans h1.lo_eq
  hi_eq := h2.hi_eq.trans h1.hi_eq
  mono := Nat.le_trans h1.mono h2.mono
  inv := fun hfit i => by
    have hm := h2.mono
    have hb : heapIndex b.cellLen ≤ a.hi := by unfold heapIndex at *; omega
    have ib := h1.inv hb i
    exact h2.inv (by rw [h1.hi_eq]; exact hfit) ib
  logNew := fun w hw => by
    rcases h2.logNew w hw with e | e
    · exact h1.logNew w e
    · right; rw [← h1.lo_eq, ← h1.hi_eq]; exact e

theorem pushCell_step (s : Section) (c : Cell) : SecStep s (s.pushCell c) where
  cap_eq := rfl
  len_eq := rfl
  budget_eq := rfl
  lo_eq := rfl
  hi_eq := rfl
  mono := Nat.le_succ _
  inv := fun hfit i => by
    have hfit' : heapIndex (s.cellLen + 1) ≤ s.hi := hfit
    refine ⟨?_, ?_, i.hi_le⟩
    · have := i.p.write (encodeCell c) s.lo s.hi i.lo_le (by
        rw [encodeCell_length]; unfold heapIndex at *; omega) i.hi_le
      rw [encodeCell_length] at this
      have e : heapIndex s.cellLen + 8 = heapIndex (s.cellLen + 1) := by unfold heapIndex; omega
      rw [e] at this
      exact this
    · have := i.lo_le
      show s.lo ≤ heapIndex (s.cellLen + 1)
      unfold heapIndex at *; omega
  logNew := fun w hw => by
    have : w = ⟨heapIndex s.cellLen, 8, s.lo, s.hi, s.h.cap⟩ ∨ w ∈ s.h.log := by
      simpa [Section.pushCell, Heap.write] using hw
    rcases this with e | e
    · subst e; right; exact ⟨rfl, rfl⟩
    · left; exact e

@[simp] theorem pushCell_cellLen (s : Section) (c : Cell) : (s.pushCell c).cellLen = s.cellLen + 1 := rfl

theorem segCells_eq (L : Nat) :
    (if pstrSentinelLength L = 1 then cellIndex (L + pstrSentinelLength L + 8)
      else cellIndex (L + pstrSentinelLength L)) = segCells L := by
  rw [sentinel_eq]; unfold segCells cellIndex
  split <;> split <;> omega

theorem pushPstrSegment_cellLen (s : Section) (src : List Nat) (hne : src ≠ []) :
    (s.pushPstrSegment src).1.cellLen = s.cellLen + segCells src.length := by
  unfold Section.pushPstrSegment
  have : src.isEmpty = false := by cases src <;> simp_all
  rw [this]
  simp only [Bool.false_eq_true, if_false]
  rw [sentinel_shift]
  rw [← segCells_eq]
  split <;> rfl

theorem pushPstrSegment_step (s : Section) (src : List Nat) : SecStep s (s.pushPstrSegment src).1 := by
  unfold Section.pushPstrSegment
  cases hs : src.isEmpty with
  | true => simp only [if_true]; exact SecStep.refl s
  | false =>
    simp only [Bool.false_eq_true, if_false]
    rw [sentinel_shift]
    have ha := sentinel_eq src.length
    by_cases h1 : pstrSentinelLength src.length = 1
    · rw [if_pos h1]
      refine ⟨rfl, rfl, rfl, rfl, rfl, Nat.le_add_right _ _, ?_, ?_⟩
      · intro hfit i
        have hfit' : heapIndex (s.cellLen + cellIndex (src.length + pstrSentinelLength src.length + 8)) ≤ s.hi := hfit
        have hlo := i.lo_le
        unfold heapIndex cellIndex at hfit'
        unfold heapIndex at hlo
        have p1 := i.p.write (src.map MByte.data) s.lo s.hi i.lo_le
          (by rw [List.length_map]; unfold heapIndex; omega) i.hi_le
        rw [List.length_map] at p1
        have p2 := p1.write (zeros (pstrSentinelLength src.length)) s.lo s.hi
          (by unfold heapIndex; omega) (by rw [zeros_length]; unfold heapIndex; omega) i.hi_le
        rw [zeros_length] at p2
        have p3 := p2.write (zeros 8) s.lo s.hi
          (by unfold heapIndex; omega) (by rw [zeros_length]; unfold heapIndex; omega) i.hi_le
        rw [zeros_length] at p3
        refine ⟨?_, ?_, i.hi_le⟩
        · have e : heapIndex s.cellLen + src.length + pstrSentinelLength src.length + 8
              = heapIndex (s.cellLen + cellIndex (src.length + pstrSentinelLength src.length + 8)) := by
            unfold heapIndex cellIndex; omega
          rw [e] at p3
          have e2 : heapIndex s.cellLen + src.length + pstrSentinelLength src.length
              = heapIndex s.cellLen + src.length + 1 := by omega
          rw [e2] at p3
          exact p3
        · show s.lo ≤ heapIndex (s.cellLen + cellIndex (src.length + pstrSentinelLength src.length + 8))
          unfold heapIndex cellIndex; omega
      · intro w hw
        simp only [write_log, List.mem_cons] at hw
        rcases hw with e | e | e | e
        · subst e; right; exact ⟨rfl, rfl⟩
        · subst e; right; exact ⟨rfl, rfl⟩
        · subst e; right; exact ⟨rfl, rfl⟩
        · left; exact e
    · rw [if_neg h1]
      refine ⟨rfl, rfl, rfl, rfl, rfl, Nat.le_add_right _ _, ?_, ?_⟩
      · intro hfit i
        have hfit' : heapIndex (s.cellLen + cellIndex (src.length + pstrSentinelLength src.length)) ≤ s.hi := hfit
        have hlo := i.lo_le
        unfold heapIndex cellIndex at hfit'
        unfold heapIndex at hlo
        have p1 := i.p.write (src.map MByte.data) s.lo s.hi i.lo_le
          (by rw [List.length_map]; unfold heapIndex; omega) i.hi_le
        rw [List.length_map] at p1
        have p2 := p1.write (zeros (pstrSentinelLength src.length)) s.lo s.hi
          (by unfold heapIndex; omega) (by rw [zeros_length]; unfold heapIndex; omega) i.hi_le
        rw [zeros_length] at p2
        refine ⟨?_, ?_, i.hi_le⟩
        · have e : heapIndex s.cellLen + src.length + pstrSentinelLength src.length
              = heapIndex (s.cellLen + cellIndex (src.length + pstrSentinelLength src.length)) := by
            unfold heapIndex cellIndex; omega
          rw [e] at p2
          exact p2
        · show s.lo ≤ heapIndex (s.cellLen + cellIndex (src.length + pstrSentinelLength src.length))
          unfold heapIndex cellIndex; omega
      · intro w hw
        simp only [write_log, List.mem_cons] at hw
        rcases hw with e | e | e
        · subst e; right; exact ⟨rfl, rfl⟩
        · subst e; right; exact ⟨rfl, rfl⟩
        · left; exact e

theorem linkOrFirst_step (s : Section) (ret : Option Cell) (link first : Cell) :
    SecStep s (s.linkOrFirst ret link first).1 := by
  unfold Section.linkOrFirst
  cases ret with
  | none => exact SecStep.refl s
  | some r => exact pushCell_step s link

theorem linkOrFirst_cellLen (s : Section) (ret : Option Cell) (link first : Cell) :
    (s.linkOrFirst ret link first).1.cellLen ≤ s.cellLen + 1 := by
  unfold Section.linkOrFirst
  cases ret with
  | none => exact Nat.le_succ _
  | some r => exact Nat.le_refl _

/-! ## findNul -/

theorem findNul_some {src : List Nat} {i : Nat} (h : findNul src = some i) :
    i < src.length ∧ src.drop i = 0 :: src.drop (i + 1) ∧ ∀ b ∈ src.take i, b ≠ 0 := by
  induction src generalizing i with
  | nil => simp [findNul] at h
  | cons b r ih =>
    unfold findNul at h
    by_cases hb : b = 0
    · rw [if_pos hb] at h
      cases h
      subst hb
      simp
    · rw [if_neg hb] at h
      cases hf : findNul r with
      | none => rw [hf] at h; simp at h
      | some j =>
        rw [hf] at h
        simp at h
        subst h
        have := ih hf
        refine ⟨by simp; omega, by simpa using this.2.1, ?_⟩
        intro x hx
        simp only [List.take_succ_cons, List.mem_cons] at hx
        rcases hx with e | e
        · subst e; exact hb
        · exact this.2.2 x e

theorem findNul_none {src : List Nat} (h : findNul src = none) : ∀ b ∈ src, b ≠ 0 := by
  induction src with
  | nil => simp
  | cons b r ih =>
    unfold findNul at h
    by_cases hb : b = 0
    · rw [if_pos hb] at h; cases h
    · rw [if_neg hb] at h
      cases hf : findNul r with
      | none =>
        intro x hx
        simp only [List.mem_cons] at hx
        rcases hx with e | e
        · subst e; exact hb
        · exact ih hf x e
      | some j => rw [hf] at h; simp at h

theorem findNul_cons_pos {b : Nat} {r : List Nat} {i : Nat} (hb : b ≠ 0)
    (h : findNul (b :: r) = some i) : 1 ≤ i := by
  unfold findNul at h
  rw [if_neg hb] at h
  cases hf : findNul r with
  | none => rw [hf] at h; simp at h
  | some j => rw [hf] at h; simp at h; omega

/-! ## unfolding the two string loops -/

theorem cps_nil (f acc : Nat) : computePstrSizeLoop (f + 1) acc [] = acc := rfl

theorem cps_nul (f acc : Nat) (rest : List Nat) :
    computePstrSizeLoop (f + 1) acc (0 :: rest) = computePstrSizeLoop f (acc + heapIndex 2) rest := by
  simp [computePstrSizeLoop]

theorem cps_seg (f acc b : Nat) (rest : List Nat) (hb : b ≠ 0) :
    computePstrSizeLoop (f + 1) acc (b :: rest)
      = computePstrSizeLoop f (acc + heapIndex (scanFromStart (b :: rest)).2)
          ((b :: rest).drop (scanFromStart (b :: rest)).1) := by
  simp [computePstrSizeLoop, hb]

theorem cps_acc (f : Nat) : ∀ (acc : Nat) (src : List Nat),
    computePstrSizeLoop f acc src = acc + computePstrSizeLoop f 0 src := by
  induction f with
  | zero => intro acc src; simp [computePstrSizeLoop]
  | succ f ih =>
    intro acc src
    cases src with
    | nil => simp [cps_nil]
    | cons b rest =>
      by_cases hb : b = 0
      · subst hb
        rw [cps_nul, cps_nul, ih, ih (0 + heapIndex 2)]; omega
      · rw [cps_seg _ _ _ _ hb, cps_seg _ _ _ _ hb, ih, ih (0 + _)]; omega

theorem scanFromStart_fst (src : List Nat) : (scanFromStart src).1 = (findNul src).getD src.length := rfl

theorem scanFromStart_snd (src : List Nat) :
    (scanFromStart src).2 = segCells ((findNul src).getD src.length) := by
  unfold scanFromStart
  dsimp only
  generalize (findNul src).getD src.length = L
  rw [sentinel_eq, nextMultipleOf8_eq]
  unfold segCells cellIndex heapIndex
  split <;> split <;> omega

theorem ppl_nil (f : Nat) (s : Section) (ret : Option Cell) :
    pushPstrLoop (f + 1) s ret [] = (s, ret) := rfl

theorem ppl_nul (f : Nat) (s : Section) (ret : Option Cell) (rest : List Nat) :
    pushPstrLoop (f + 1) s ret (0 :: rest)
      = pushPstrLoop f ((s.linkOrFirst ret (.lis (s.cellLen + 1)) (.lis s.cellLen)).1.pushCell (.chr 0))
          (s.linkOrFirst ret (.lis (s.cellLen + 1)) (.lis s.cellLen)).2 rest := by
  simp [pushPstrLoop]

theorem ppl_segNul (f : Nat) (s : Section) (ret : Option Cell) (b : Nat) (rest : List Nat) (idx : Nat)
    (hb : b ≠ 0) (hf : findNul (b :: rest) = some idx) :
    pushPstrLoop (f + 1) s ret (b :: rest)
      = let sr := s.linkOrFirst ret (.pstrLoc (heapIndex (s.cellLen + 1))) (.pstrLoc (heapIndex s.cellLen))
        let s1 := (sr.1.pushPstrSegment ((b :: rest).take idx)).1
        let s2 := s1.pushCell (.lis (s1.cellLen + 1))
        let s3 := s2.pushCell (.chr 0)
        pushPstrLoop f s3 sr.2 ((b :: rest).drop (idx + 1)) := by
  simp [pushPstrLoop, hb, hf]

theorem ppl_segEnd (f : Nat) (s : Section) (ret : Option Cell) (b : Nat) (rest : List Nat)
    (hb : b ≠ 0) (hf : findNul (b :: rest) = none) :
    pushPstrLoop (f + 1) s ret (b :: rest)
      = let sr := s.linkOrFirst ret (.pstrLoc (heapIndex (s.cellLen + 1))) (.pstrLoc (heapIndex s.cellLen))
        ((sr.1.pushPstrSegment (b :: rest)).1, sr.2) := by
  simp [pushPstrLoop, hb, hf]

theorem pushPstrLoop_step (f : Nat) : ∀ (s : Section) (ret : Option Cell) (src : List Nat),
    SecStep s (pushPstrLoop f s ret src).1 := by
  induction f with
  | zero => intro s ret src; exact SecStep.refl s
  | succ f ih =>
    intro s ret src
    cases src with
    | nil => exact SecStep.refl s
    | cons b rest =>
      by_cases hb : b = 0
      · subst hb
        rw [ppl_nul]
        exact ((linkOrFirst_step s ret _ _).trans (pushCell_step _ _)).trans (ih _ _ _)
      · cases hf : findNul (b :: rest) with
        | some idx =>
          rw [ppl_segNul f s ret b rest idx hb hf]
          dsimp only
          exact (((((linkOrFirst_step s ret _ _).trans (pushPstrSegment_step _ _)).trans
            (pushCell_step _ _)).trans (pushCell_step _ _))).trans (ih _ _ _)
        | none =>
          rw [ppl_segEnd f s ret b rest hb hf]
          dsimp only
          exact (linkOrFirst_step s ret _ _).trans (pushPstrSegment_step _ _)

/-- `4 * (cells written by push_pstr) ≤ compute_pstr_size − 8`, for any fuels that suffice. -/
theorem pushPstrLoop_count (fp : Nat) : ∀ (fc : Nat) (s : Section) (ret : Option Cell) (src : List Nat),
    src.length < fp → src.length < fc →
    4 * (pushPstrLoop fp s ret src).1.cellLen ≤ 4 * s.cellLen + computePstrSizeLoop fc 0 src := by
  induction fp with
  | zero => intro fc s ret src h; omega
  | succ fp ih =>
    intro fc s ret src hp hc
    cases src with
    | nil => rw [ppl_nil]; show 4 * s.cellLen ≤ _; omega
    | cons b rest =>
      obtain ⟨fc, rfl⟩ : ∃ k, fc = k + 1 := ⟨fc - 1, by omega⟩
      simp only [List.length_cons] at hp hc
      by_cases hb : b = 0
      · subst hb
        rw [ppl_nul, cps_nul, cps_acc]
        have := ih fc ((s.linkOrFirst ret (.lis (s.cellLen + 1)) (.lis s.cellLen)).1.pushCell (.chr 0))
          (s.linkOrFirst ret (.lis (s.cellLen + 1)) (.lis s.cellLen)).2 rest (by omega) (by omega)
        have hl := linkOrFirst_cellLen s ret (.lis (s.cellLen + 1)) (.lis s.cellLen)
        rw [pushCell_cellLen] at this
        unfold heapIndex
        omega
      · cases hf : findNul (b :: rest) with
        | some idx =>
          have hpos := findNul_cons_pos hb hf
          have hsome := findNul_some hf
          simp only [List.length_cons] at hsome
          rw [ppl_segNul fp s ret b rest idx hb hf, cps_seg _ _ _ _ hb, cps_acc]
          rw [scanFromStart_fst, scanFromStart_snd, hf]
          simp only [Option.getD_some]
          rw [hsome.2.1]
          obtain ⟨fc, rfl⟩ : ∃ k, fc = k + 1 := ⟨fc - 1, by omega⟩
          rw [cps_nul, cps_acc]
          have hlen : ((b :: rest).drop (idx + 1)).length = rest.length + 1 - (idx + 1) := by
            simp
          have hne : (b :: rest).take idx ≠ [] := by
            intro e
            have := congrArg List.length e
            simp at this
            omega
          have htl : ((b :: rest).take idx).length = idx := by
            rw [List.length_take]; simp only [List.length_cons]; omega
          have := ih fc
            ((((s.linkOrFirst ret (.pstrLoc (heapIndex (s.cellLen + 1))) (.pstrLoc (heapIndex s.cellLen))).1.pushPstrSegment
              ((b :: rest).take idx)).1.pushCell
                (.lis (((s.linkOrFirst ret (.pstrLoc (heapIndex (s.cellLen + 1))) (.pstrLoc (heapIndex s.cellLen))).1.pushPstrSegment
              ((b :: rest).take idx)).1.cellLen + 1))).pushCell (.chr 0))
            (s.linkOrFirst ret (.pstrLoc (heapIndex (s.cellLen + 1))) (.pstrLoc (heapIndex s.cellLen))).2
            ((b :: rest).drop (idx + 1)) (by omega) (by omega)
          rw [pushCell_cellLen, pushCell_cellLen] at this
          have hseg := pushPstrSegment_cellLen
            (s.linkOrFirst ret (.pstrLoc (heapIndex (s.cellLen + 1))) (.pstrLoc (heapIndex s.cellLen))).1
            ((b :: rest).take idx) hne
          rw [htl] at hseg
          have hl := linkOrFirst_cellLen s ret (.pstrLoc (heapIndex (s.cellLen + 1))) (.pstrLoc (heapIndex s.cellLen))
          have h16 : heapIndex 2 = 16 := rfl
          have hsi : heapIndex (segCells idx) = 8 * segCells idx := by unfold heapIndex; omega
          rw [h16, hsi]
          omega
        | none =>
          rw [ppl_segEnd fp s ret b rest hb hf, cps_seg _ _ _ _ hb, cps_acc]
          rw [scanFromStart_fst, scanFromStart_snd, hf]
          simp only [Option.getD_none]
          rw [pushPstrSegment_cellLen _ _ (by simp)]
          have hl := linkOrFirst_cellLen s ret (.pstrLoc (heapIndex (s.cellLen + 1))) (.pstrLoc (heapIndex s.cellLen))
          have hpos := segCells_pos (b :: rest).length
          have hsi : heapIndex (segCells (b :: rest).length) = 8 * segCells (b :: rest).length := by
            unfold heapIndex; omega
          rw [hsi]
          omega

theorem pushPstr_step (s : Section) (src : List Nat) : SecStep s (s.pushPstr src).1 :=
  pushPstrLoop_step _ s none src

/-- the relation `allocate_pstr`/`allocate_cstr` rely on (with their 8× over-reservation). -/
theorem pushPstr_count (s : Section) (src : List Nat) :
    4 * ((s.pushPstr src).1.cellLen - s.cellLen) + 8 ≤ computePstrSize src := by
  have := pushPstrLoop_count (src.length + 1) (src.length + 1) s none src (by omega) (by omega)
  unfold Section.pushPstr computePstrSize heapIndex
  omega

/-! ## operations preserve the invariant -/

/-- what an operation started in `h` may return -/
def OpPost (h : Heap) {α : Type} : Res α → Prop
  | .ok h' _ => Inv h' ∧ h.cap ≤ h'.cap
  | .allocErr h' => Grew h h'
  | .panic h' => Grew h h'
  | .contract h' => h' = h
  | .stuck => False

theorem inv_write_close {h : Heap} (i : Inv h) (off : Nat) (bs : List MByte) (newLen : Nat)
    (hoff : off = h.len) (hnl : newLen = h.len + bs.length) (h8 : bs.length % 8 = 0)
    (hfit : bs.length ≤ h.freeSpace) :
    Inv { (h.write off bs h.len h.cap) with len := newLen } := by
  subst hoff hnl
  have hl := i.len_le
  have h8' := i.len8
  unfold Heap.freeSpace at hfit
  have p := i.toP.write bs h.len h.cap (Nat.le_refl _) (by omega) (Nat.le_refl _)
  exact p.close (by omega) (by show h.len + bs.length ≤ h.cap; omega)

theorem cellLen_heapIndex {h : Heap} (i : Inv h) : heapIndex h.cellLen = h.len := by
  have := i.len8; unfold heapIndex Heap.cellLen cellIndex; omega

theorem pushCell_post (h : Heap) (c : Cell) (i : Inv h) : OpPost h (h.pushCell c) := by
  unfold Heap.pushCell
  have wr : ∀ h1 : Heap, Inv h1 → h1.len + 8 ≤ h1.cap → h.cap ≤ h1.cap →
      OpPost h (Res.ok { (h1.write (heapIndex h1.cellLen) (encodeCell c) h1.len h1.cap) with
        len := h1.len + heapIndex 1 } ()) := by
    intro h1 i1 hfit hc
    refine ⟨?_, hc⟩
    apply inv_write_close i1 _ _ _ (cellLen_heapIndex i1) rfl (by rw [encodeCell_length])
    rw [encodeCell_length]; unfold Heap.freeSpace; omega
  dsimp only
  by_cases he : h.len = h.cap
  · rw [if_pos he]
    cases e1 : h.grow with
    | grown h1 =>
      have g1 := grow_grown e1
      apply wr h1 (g1.1.inv i) _ g1.1.cap_le
      have := i.cap8
      rw [g1.1.len_eq, g1.2.1]
      unfold Heap.newCap initCap
      split <;> omega
    | failed h1 => have := (grow_failed e1).1; subst this; exact Grew.refl _
    | panic h1 => have := grow_panic e1; subst this; exact Grew.refl _
  · rw [if_neg he]
    apply wr h i _ (Nat.le_refl _)
    have := i.len_le; have := i.len8; have := i.cap8
    omega

theorem truncate_post (h : Heap) (c : Nat) (i : Inv h) : OpPost h (h.truncate c) := by
  unfold Heap.truncate
  by_cases hc : c ≤ h.cellLen
  · rw [if_pos hc]
    have hl := i.len_le; have h8 := i.len8
    unfold Heap.cellLen cellIndex at hc
    refine ⟨⟨?_, ?_, i.cap8, i.capMax, ?_, i.logOk⟩, Nat.le_refl _⟩
    · show heapIndex c ≤ h.cap; unfold heapIndex; omega
    · show heapIndex c % 8 = 0; unfold heapIndex; omega
    · show (h.mem.take (heapIndex c)).length = heapIndex c
      rw [List.length_take, i.memLen]; unfold heapIndex; omega
  · rw [if_neg hc]; rfl

/-- shared shape of the grow-until-fits operations -/
theorem growUntil_cases (h : Heap) (need : Nat) (i : Inv h) {α : Type} (k : Heap → Res α)
    (hk : ∀ h', Grew h h' → need ≤ h'.freeSpace → OpPost h (k h')) :
    OpPost h (match growUntil loopFuel h need with
      | .ok h' _ => k h'
      | .allocErr h' => .allocErr h'
      | .panic h' => .panic h'
      | .contract h' => .contract h'
      | .stuck => .stuck) := by
  have spec := growUntil_spec loopFuel h need
  have ns := growUntil_loopFuel_not_stuck h need i.capMax
  cases hg : growUntil loopFuel h need with
  | ok h' u => rw [hg] at spec; exact hk h' spec.1 spec.2
  | allocErr h' => rw [hg] at spec; exact spec
  | panic h' => rw [hg] at spec; exact spec
  | contract h' => rw [hg] at spec; exact spec.elim
  | stuck => exact absurd hg ns

theorem append_post (h : Heap) (other : List MByte) (i : Inv h) : OpPost h (h.append other) := by
  unfold Heap.append
  dsimp only
  by_cases hc : heapIndex (cellIndex other.length) ≠ other.length
  · rw [if_pos hc]; rfl
  · rw [if_neg hc]
    have hc' : heapIndex (cellIndex other.length) = other.length := Decidable.of_not_not hc
    apply growUntil_cases h _ i
    intro h' g hfit
    refine ⟨?_, g.cap_le⟩
    apply inv_write_close (g.inv i) _ _ _ rfl (by rw [hc']) _ (by rw [hc'] at hfit; exact hfit)
    rw [← hc']; unfold heapIndex; omega

theorem copySliceToEnd_post (h : Heap) (a b : Nat) (i : Inv h) : OpPost h (h.copySliceToEnd a b) := by
  unfold Heap.copySliceToEnd
  by_cases hc : ¬ (a ≤ b ∧ b ≤ h.cellLen)
  · rw [if_pos hc]; rfl
  · rw [if_neg hc]
    have hc' : a ≤ b ∧ b ≤ h.cellLen := Decidable.of_not_not hc
    dsimp only
    apply growUntil_cases h _ i
    intro h' g hfit
    have hlen : ((h'.mem.drop (heapIndex a)).take (heapIndex (b - a))).length = heapIndex (b - a) := by
      rw [List.length_take, List.length_drop, g.mem_eq, i.memLen]
      have hb := hc'.2; have := i.len8
      unfold Heap.cellLen cellIndex at hb
      unfold heapIndex; omega
    refine ⟨?_, g.cap_le⟩
    apply inv_write_close (g.inv i) _ _ _ rfl (by rw [hlen]) (by rw [hlen]; unfold heapIndex; omega)
      (by rw [hlen]; exact hfit)

theorem copyPstrWithin_post (h : Heap) (loc : Nat) (i : Inv h) : OpPost h (h.copyPstrWithin loc) := by
  unfold Heap.copyPstrWithin Heap.copyPstrWithinG
  by_cases hc : loc > h.len
  · rw [if_pos hc]; rfl
  · rw [if_neg hc]
    cases hs : scanSliceToStr h.mem h.len loc with
    | none => rfl
    | some r =>
      obtain ⟨str, tailIdx⟩ := r
      dsimp only
      apply growUntil_cases h _ i
      intro h' g hfit
      have i' := g.inv i
      have hl := i'.len_le; have h8 := i'.len8
      have hsb := sentinel_bounds str.length
      have hsa := sentinel_aligns str.length
      unfold Heap.freeSpace copyNeedFixed heapIndex at hfit
      have p1 := i'.toP.write (str.map MByte.data) h'.len h'.cap (Nat.le_refl _)
        (by rw [List.length_map]; split at hfit <;> omega) (Nat.le_refl _)
      rw [List.length_map] at p1
      have p2 := p1.write (zeros (pstrSentinelLength str.length)) h'.len h'.cap (by omega)
        (by rw [zeros_length]; split at hfit <;> omega) (Nat.le_refl _)
      rw [zeros_length] at p2
      by_cases h1 : pstrSentinelLength str.length = 1
      · rw [if_pos h1]
        rw [if_pos h1] at hfit
        have p3 := p2.write (zeros 8) h'.len h'.cap (by omega)
          (by rw [zeros_length]; omega) (Nat.le_refl _)
        rw [zeros_length] at p3
        refine ⟨?_, g.cap_le⟩
        have e : h'.len + str.length + pstrSentinelLength str.length + 8
            = h'.len + (str.length + pstrSentinelLength str.length + heapIndex 1) := by
          unfold heapIndex; omega
        rw [e] at p3
        have e2 : h'.len + str.length + pstrSentinelLength str.length
            = h'.len + (str.length + pstrSentinelLength str.length) := by omega
        rw [e2] at p3
        exact p3.close (by unfold heapIndex; omega) (by simp only [write_cap]; unfold heapIndex; omega)
      · rw [if_neg h1]
        rw [if_neg h1] at hfit
        refine ⟨?_, g.cap_le⟩
        have e2 : h'.len + str.length + pstrSentinelLength str.length
            = h'.len + (str.length + pstrSentinelLength str.length) := by omega
        rw [e2] at p2
        exact p2.close (by omega) (by simp only [write_cap]; omega)

/-- `reserve(n)` + `write_with(f)` when `f` writes at most `n` cells. -/
theorem withReserved_post {α : Type} (h : Heap) (n : Nat) (f : Section → Section × α) (i : Inv h)
    (hf : ∀ sec, SecStep sec (f sec).1 ∧ (f sec).1.cellLen ≤ sec.cellLen + n) :
    OpPost h (h.withReserved n f) := by
  unfold Heap.withReserved
  by_cases ho : n * 8 > usizeMax
  · rw [if_pos ho]; exact Grew.refl h
  · rw [if_neg ho]
    apply growUntil_cases h _ i
    intro h' g hfit
    have i' := g.inv i
    have hci := cellLen_heapIndex i'
    have hl := i'.len_le
    unfold Heap.freeSpace at hfit
    have hs := hf ⟨h', h'.cellLen, heapIndex h'.cellLen, heapIndex h'.cellLen + n * 8⟩
    have si : SecInv ⟨h', h'.cellLen, heapIndex h'.cellLen, heapIndex h'.cellLen + n * 8⟩ :=
      ⟨by show PInv h' (heapIndex h'.cellLen); rw [hci]; exact i'.toP, Nat.le_refl _,
       by show heapIndex h'.cellLen + n * 8 ≤ h'.cap; rw [hci]; omega⟩
    have hb := hs.2
    have hfin : heapIndex (f ⟨h', h'.cellLen, heapIndex h'.cellLen, heapIndex h'.cellLen + n * 8⟩).1.cellLen
        ≤ heapIndex h'.cellLen + n * 8 := by
      simp only at hb; unfold heapIndex at *; omega
    have si' := hs.1.inv hfin si
    have hcap := hs.1.cap_eq
    simp only at hcap
    refine ⟨?_, by rw [hcap]; exact g.cap_le⟩
    apply si'.p.close (by unfold heapIndex; omega)
    rw [hcap, hci] at *
    omega

theorem foldl_pushCell_step (cells : List Cell) : ∀ (s : Section),
    SecStep s (cells.foldl Section.pushCell s) ∧ (cells.foldl Section.pushCell s).cellLen = s.cellLen + cells.length := by
  induction cells with
  | nil => intro s; exact ⟨SecStep.refl s, rfl⟩
  | cons c r ih =>
    intro s
    have := ih (s.pushCell c)
    refine ⟨(pushCell_step s c).trans this.1, ?_⟩
    rw [List.foldl_cons, this.2, pushCell_cellLen, List.length_cons]; omega

theorem reserveWrite_post (h : Heap) (n : Nat) (cells : List Cell) (i : Inv h) (hk : cells.length ≤ n) :
    OpPost h (h.reserveWrite n cells) := by
  unfold Heap.reserveWrite
  apply withReserved_post h n _ i
  intro sec
  have := foldl_pushCell_step cells sec
  exact ⟨this.1, by show (cells.foldl Section.pushCell sec).cellLen ≤ _; rw [this.2]; omega⟩

theorem pstrWriter_fst (src : List Nat) (sec : Section) : (pstrWriter src sec).1 = (sec.pushPstr src).1 := by
  unfold pstrWriter
  split <;> simp_all

theorem cstrWriter_step (src : List Nat) (sec : Section) :
    SecStep sec (cstrWriter src sec).1 ∧ (cstrWriter src sec).1.cellLen ≤ (sec.pushPstr src).1.cellLen + 1 := by
  unfold cstrWriter
  have hp := pushPstr_step sec src
  split
  · rename_i sec' he; rw [he] at hp; exact ⟨hp, by rw [he]; exact Nat.le_succ _⟩
  · rename_i sec' c he; rw [he] at hp
    exact ⟨hp.trans (pushCell_step _ _), by rw [he]; exact Nat.le_refl _⟩

theorem pushPstr_le (sec : Section) (src : List Nat) :
    (sec.pushPstr src).1.cellLen + 1 ≤ sec.cellLen + computePstrSize src := by
  have := pushPstr_count sec src
  have := (pushPstr_step sec src).mono
  omega

theorem allocatePstr_post (h : Heap) (src : List Nat) (i : Inv h) : OpPost h (h.allocatePstr src) := by
  unfold Heap.allocatePstr Heap.allocatePstrG
  apply withReserved_post h _ _ i
  intro sec
  rw [pstrWriter_fst]
  have := pushPstr_le sec src
  exact ⟨pushPstr_step sec src, by omega⟩

theorem allocateCstr_post (h : Heap) (src : List Nat) (i : Inv h) : OpPost h (h.allocateCstr src) := by
  unfold Heap.allocateCstr Heap.allocateCstrG
  apply withReserved_post h _ _ i
  intro sec
  have := pushPstr_le sec src
  have hc := cstrWriter_step src sec
  exact ⟨hc.1, by omega⟩

theorem listFold_step (hh : Nat) (items : List Cell) : ∀ (s : Section) (k : Nat),
    SecStep s (items.foldl (fun (acc : Section × Nat) v =>
      ((acc.1.pushCell (.lis (hh + 1 + 2 * acc.2))).pushCell v, acc.2 + 1)) (s, k)).1 ∧
    (items.foldl (fun (acc : Section × Nat) v =>
      ((acc.1.pushCell (.lis (hh + 1 + 2 * acc.2))).pushCell v, acc.2 + 1)) (s, k)).1.cellLen
      = s.cellLen + 2 * items.length := by
  induction items with
  | nil => intro s k; exact ⟨SecStep.refl s, rfl⟩
  | cons c r ih =>
    intro s k
    have := ih ((s.pushCell (.lis (hh + 1 + 2 * k))).pushCell c) (k + 1)
    refine ⟨((pushCell_step s _).trans (pushCell_step _ _)).trans this.1, ?_⟩
    rw [List.foldl_cons, this.2, pushCell_cellLen, pushCell_cellLen, List.length_cons]; omega

theorem sizedIterToHeapList_post (h : Heap) (size : Nat) (items : List Cell) (i : Inv h)
    (hk : items.length ≤ size) : OpPost h (h.sizedIterToHeapList size items) := by
  unfold Heap.sizedIterToHeapList
  by_cases hs : size > 0
  · rw [if_pos hs]
    by_cases ho : size * 2 > usizeMax
    · rw [if_pos ho]; exact Grew.refl h
    · rw [if_neg ho]
      apply withReserved_post h _ _ i
      intro sec
      unfold listWriter
      have := listFold_step h.cellLen items sec 0
      refine ⟨this.1.trans (pushCell_step _ _), ?_⟩
      show ((items.foldl _ (sec, 0)).1.pushCell Cell.nil).cellLen ≤ _
      rw [pushCell_cellLen, this.2]; omega
  · rw [if_neg hs]; exact ⟨i, Nat.le_refl _⟩

/-- cells the functor elements declare -/
def declCells (f : List FElem) : Nat := (f.map FElem.declCells).sum

theorem computeFunctorByteSize_acc (f : List FElem) : ∀ acc : Nat,
    f.foldl (fun acc e => acc + e.declCells * 8) acc = acc + 8 * declCells f := by
  induction f with
  | nil => intro acc; simp [declCells]
  | cons e r ih =>
    intro acc
    rw [List.foldl_cons, ih]
    simp [declCells]; omega

theorem computeFunctorByteSize_eq (f : List FElem) : computeFunctorByteSize f = 8 * declCells f := by
  unfold computeFunctorByteSize; rw [computeFunctorByteSize_acc]; omega

theorem writeFElem_step (sec : Section) (e : FElem) (he : e.declOk = true) :
    SecStep sec (sec.writeFElem e) ∧ (sec.writeFElem e).cellLen ≤ sec.cellLen + 8 * e.declCells := by
  cases e with
  | cell c => exact ⟨pushCell_step sec c, by show sec.cellLen + 1 ≤ sec.cellLen + 8 * 1; omega⟩
  | str n s =>
    have hn : n = cellIndex (computePstrSize s) := by simpa [FElem.declOk] using he
    have hcnt := pushPstr_count sec s
    have hmono := (pushPstr_step sec s).mono
    have hp := pushPstr_step sec s
    show SecStep sec (match sec.pushPstr s with
        | (sec', some _) => sec'.pushCell .nil
        | (sec', none) => sec') ∧
      (match sec.pushPstr s with
        | (sec', some _) => sec'.pushCell .nil
        | (sec', none) => sec').cellLen ≤ sec.cellLen + 8 * n
    cases hpp : sec.pushPstr s with
    | mk sec' r =>
      rw [hpp] at hp hcnt hmono
      simp only at hcnt hmono hp
      cases r with
      | some c =>
        refine ⟨hp.trans (pushCell_step _ _), ?_⟩
        show sec'.cellLen + 1 ≤ _
        subst hn; unfold cellIndex; omega
      | none =>
        refine ⟨hp, ?_⟩
        show sec'.cellLen ≤ _
        subst hn; unfold cellIndex; omega

theorem foldl_writeFElem_step (f : List FElem) : ∀ (sec : Section), f.all FElem.declOk = true →
    SecStep sec (f.foldl Section.writeFElem sec) ∧
    (f.foldl Section.writeFElem sec).cellLen ≤ sec.cellLen + 8 * declCells f := by
  induction f with
  | nil => intro sec _; exact ⟨SecStep.refl sec, by simp [declCells]⟩
  | cons e r ih =>
    intro sec hall
    simp only [List.all_cons, Bool.and_eq_true] at hall
    have h1 := writeFElem_step sec e hall.1
    have h2 := ih (sec.writeFElem e) hall.2
    refine ⟨h1.1.trans h2.1, ?_⟩
    rw [List.foldl_cons]
    have : declCells (e :: r) = e.declCells + declCells r := by simp [declCells]
    rw [this]
    omega

theorem functorWriter_post (h : Heap) (f : List FElem) (i : Inv h) (hd : f.all FElem.declOk = true) :
    OpPost h (h.functorWriter f) := by
  unfold Heap.functorWriter
  apply withReserved_post h _ _ i
  intro sec
  have := foldl_writeFElem_step f sec hd
  rw [computeFunctorByteSize_eq]
  exact ⟨this.1, this.2⟩

theorem toRet_post {h : Heap} {α : Type} {r : Res α} (f : α → Ret) (p : OpPost h r) : OpPost h (r.toRet f) := by
  cases r <;> exact p

/-- every operation: invariant kept / failure without writes / never stuck -/
theorem step_post (h : Heap) (op : Op) (i : Inv h) : OpPost h (step h op) := by
  cases op with
  | setBudget b => exact ⟨⟨i.len_le, i.len8, i.cap8, i.capMax, i.memLen, i.logOk⟩, Nat.le_refl _⟩
  | grow =>
    simp only [step]
    cases e1 : h.grow with
    | grown h1 => have g := grow_grown e1; exact ⟨g.1.inv i, g.1.cap_le⟩
    | failed h1 => have := (grow_failed e1).1; subst this; exact Grew.refl _
    | panic h1 => have := grow_panic e1; subst this; exact Grew.refl _
  | pushCell c => exact toRet_post _ (pushCell_post h c i)
  | reserveWrite n cells =>
    simp only [step]
    by_cases hk : cells.length ≤ n
    · rw [if_pos hk]; exact toRet_post _ (reserveWrite_post h n cells i hk)
    · rw [if_neg hk]; rfl
  | allocPstr s => exact toRet_post _ (allocatePstr_post h s i)
  | allocCstr s => exact toRet_post _ (allocateCstr_post h s i)
  | copyPstrWithin loc => exact toRet_post _ (copyPstrWithin_post h loc i)
  | copySliceToEnd a b => exact toRet_post _ (copySliceToEnd_post h a b i)
  | append other => exact toRet_post _ (append_post h other i)
  | truncate c => exact toRet_post _ (truncate_post h c i)
  | heapList size items =>
    simp only [step]
    by_cases hk : items.length ≤ size
    · rw [if_pos hk]; exact toRet_post _ (sizedIterToHeapList_post h size items i hk)
    · rw [if_neg hk]; rfl
  | functor f =>
    simp only [step]
    by_cases hd : f.all FElem.declOk = true
    · rw [if_pos hd]; exact toRet_post _ (functorWriter_post h f i hd)
    · rw [if_neg hd]; rfl

theorem step_inv (h : Heap) (op : Op) (i : Inv h) : Inv ((step h op).heapD h) := by
  have p := step_post h op i
  cases hr : step h op with
  | ok h' a => rw [hr] at p; exact p.1
  | allocErr h' => rw [hr] at p; exact p.inv i
  | panic h' => rw [hr] at p; exact p.inv i
  | contract h' => rw [hr] at p; have : h' = h := p; subst this; exact i
  | stuck => rw [hr] at p; exact p.elim

theorem run_inv (ops : List Op) : ∀ (h : Heap), Inv h → Inv (run h ops) := by
  induction ops with
  | nil => intro h i; exact i
  | cons op r ih =>
    intro h i
    unfold run
    rw [List.foldl_cons]
    exact ih _ (step_inv h op i)

/-- `(byte_len, byte_cap)` after an operation. -/
def Res.lenCap {α : Type} : Res α → Option (Nat × Nat)
  | .ok h _ => some (h.len, h.cap)
  | .allocErr h => some (h.len, h.cap)
  | .panic h => some (h.len, h.cap)
  | .contract h => some (h.len, h.cap)
  | .stuck => none

theorem cps_empty (fc : Nat) : computePstrSizeLoop fc 0 [] = 0 := by
  cases fc <;> rfl

theorem cps_bound (fc : Nat) : ∀ (src : List Nat), src.length < fc →
    computePstrSizeLoop fc 0 src ≤ 16 * src.length := by
  induction fc with
  | zero => intro src h; omega
  | succ fc ih =>
    intro src h
    cases src with
    | nil => rw [cps_nil]; omega
    | cons b rest =>
      simp only [List.length_cons] at h
      by_cases hb : b = 0
      · subst hb
        rw [cps_nul, cps_acc]
        have := ih rest (by omega)
        simp only [List.length_cons]; unfold heapIndex; omega
      · rw [cps_seg _ _ _ _ hb, cps_acc, scanFromStart_fst, scanFromStart_snd]
        cases hf : findNul (b :: rest) with
        | some idx =>
          simp only [Option.getD_some]
          have hs := findNul_some hf
          have hpos := findNul_cons_pos hb hf
          simp only [List.length_cons] at hs
          have := ih ((b :: rest).drop idx) (by rw [List.length_drop]; simp only [List.length_cons]; omega)
          rw [List.length_drop] at this
          have hseg : heapIndex (segCells idx) ≤ 16 * idx := by
            unfold heapIndex segCells; split <;> omega
          simp only [List.length_cons] at this ⊢
          omega
        | none =>
          simp only [Option.getD_none, List.drop_length]
          rw [cps_empty]
          have hseg : heapIndex (segCells (b :: rest).length) ≤ 16 * (b :: rest).length := by
            simp only [List.length_cons]
            unfold heapIndex segCells; split <;> omega
          omega

theorem growUntil_fits (h : Heap) (need : Nat) (hfit : need ≤ h.freeSpace) :
    growUntil loopFuel h need = .ok h () := by
  show growUntil (65 + 1) h need = _
  unfold growUntil
  rw [if_pos hfit]

end Scryer.Heap
