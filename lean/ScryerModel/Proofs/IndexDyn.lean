import ScryerModel.Proofs.IndexInv
/-!
The invariant `Inv` of the first-argument index model is preserved by the update operations of a
dynamic predicate (`addBack` = assertz, `addFront` = asserta, `remove` = retract), and the
live clause list changes as expected (property C06, dynamic part).
-/
namespace Scryer.Index

/-! ### tables -/
section tables
variable {κ : Type} [DecidableEq κ]

theorem tlookup_tinsert_self (t : List (κ × Ptr)) (k : κ) (p : Ptr) :
    tlookup (tinsert t k p) k = some p := by
  induction t with
  | nil => simp [tinsert, tlookup]
  | cons x r ih =>
    obtain ⟨k', p'⟩ := x
    simp only [tinsert]
    split
    · simp [tlookup]
    · simp [tlookup, *]

theorem tlookup_tinsert_ne (t : List (κ × Ptr)) (k k' : κ) (p : Ptr) (h : k' ≠ k) :
    tlookup (tinsert t k p) k' = tlookup t k' := by
  induction t with
  | nil =>
    simp only [tinsert, tlookup]
    rw [if_neg (fun e => h e.symm)]
  | cons x r ih =>
    obtain ⟨k'', p'⟩ := x
    simp only [tinsert]
    split
    · rename_i e
      subst e
      simp only [tlookup]
      rw [if_neg (fun e => h e.symm), if_neg (fun e => h e.symm)]
    · simp only [tlookup, ih]

/-- look-up in a hash map the way the machine does it: a miss is `Fail`. -/
def tget (t : List (κ × Ptr)) (k : κ) : Ptr := (tlookup t k).getD .fail

theorem look_table (t : List (κ × Ptr)) (k : κ) : (Slot.table t).look k = tget t k := rfl

end tables

/-! ### chain extension -/

theorem Mode.mem_extend (m : Mode) (l : List Nat) (id i : Nat) :
    i ∈ m.extend l id ↔ i = id ∨ i ∈ l := by
  cases m <;> simp [Mode.extend, or_comm]

theorem Mode.sublist_extend (m : Mode) (l : List Nat) (id : Nat) : l.Sublist (m.extend l id) := by
  cases m <;> simp [Mode.extend]

theorem Mode.extend_sublist (m : Mode) {l chain : List Nat} (id : Nat) (h : l.Sublist chain) :
    (m.extend l id).Sublist (m.extend chain id) := by
  cases m
  · exact List.Sublist.append h (List.Sublist.refl _)
  · exact List.Sublist.cons_cons _ h

theorem Mode.pair_eq (m : Mode) (o id : Nat) : m.pair o id = m.extend [o] id := by
  cases m <;> rfl

section tables2
variable {κ : Type} [DecidableEq κ]

theorem tableIndex_self (m : Mode) (t : List (κ × Ptr)) (k : κ) (id : Nat) :
    (tget (tableIndex m t k id) k).ids = m.extend (tget t k).ids id := by
  unfold tableIndex tget
  split <;> rename_i e <;> simp only [tlookup_tinsert_self, e, Option.getD, Ptr.ids, Mode.pair_eq]
  all_goals cases m <;> rfl

theorem tableIndex_ne (m : Mode) (t : List (κ × Ptr)) (k k' : κ) (id : Nat) (h : k' ≠ k) :
    tget (tableIndex m t k id) k' = tget t k' := by
  unfold tableIndex tget
  split <;> simp only [tlookup_tinsert_ne _ _ _ _ h]

/-- what `internalize_*` turns a slot into before the new key is inserted. -/
def tabOf (found : Option κ) : Slot κ → List (κ × Ptr)
  | .leaf .fail => []
  | .leaf p => internalize found p
  | .table t => t

theorem indexKey_eq (m : Mode) (found : Option κ) (slot : Slot κ) (k : κ) (id : Nat)
    (h : slot ≠ .leaf .fail) :
    indexKey m found slot k id = .table (tableIndex m (tabOf found slot) k id) := by
  cases slot with
  | leaf p => cases p <;> first | exact absurd rfl h | rfl
  | table t => rfl

theorem indexOverlap_eq (m : Mode) (found : Option κ) (slot : Slot κ) (orig k2 : κ) (id : Nat) :
    indexOverlap m found (indexKey m found slot orig id) orig k2 id
      = .table (tableIndex m (tableIndex m (tabOf found slot) orig id) k2 id) := by
  cases slot with
  | leaf p => cases p <;> rfl
  | table t => rfl

/-- the result of `search_skeleton_for_first_key_type` is good enough: when a live keyed clause
exists in the chain, the search returns a key of some live clause of the chain. -/
def FoundOK (chain : List Nat) (alive : Nat → Bool) (keys : Nat → List κ) (found : Option κ) :
    Prop :=
  (∃ i, i ∈ chain ∧ alive i = true ∧ keys i ≠ []) →
    ∃ k, found = some k ∧ ∃ i, i ∈ chain ∧ alive i = true ∧ k ∈ keys i

/-- invariant of the hash map while clause `id` is being filed: `K` are the keys done so far. -/
structure TInv (chain : List Nat) (m : Mode) (id : Nat) (alive : Nat → Bool)
    (keys : Nat → List κ) (K : List κ) (t : List (κ × Ptr)) : Prop where
  old : ∀ k, k ∉ K → PtrOK chain (tget t k)
  new : ∀ k, k ∈ K → PtrOK (m.extend chain id) (tget t k) ∧ id ∈ (tget t k).ids
  found : ∀ i, i ∈ chain → alive i = true → ∀ k, k ∈ keys i → i ∈ (tget t k).ids

theorem TInv.init {chain : List Nat} {alive : Nat → Bool} {keys : Nat → List κ} {slot : Slot κ}
    (inv : SlotInv chain alive keys slot) (m : Mode) (id : Nat) (found : Option κ)
    (hf : FoundOK chain alive keys found) :
    TInv chain m id alive keys [] (tabOf found slot) := by
  cases slot with
  | table t =>
    exact ⟨fun k _ => inv.ptrs k, fun k hk => by simp at hk, fun i hi ha k hk => inv.found i hi ha k hk⟩
  | leaf p =>
    have hp : ∀ k : κ, (Slot.leaf p : Slot κ).look k = p := fun _ => rfl
    by_cases hpf : p = .fail
    · subst hpf
      refine ⟨fun k _ => ?_, fun k hk => by simp at hk, fun i hi ha k hk => ?_⟩
      · simp [tabOf, tget, tlookup, PtrOK, Ptr.ids]
      · have := inv.found i hi ha k hk
        simp [Slot.look, Ptr.ids] at this
    · have htab : tabOf found (Slot.leaf p) = internalize found p := by
        cases p <;> first | exact absurd rfl hpf | rfl
      rw [htab]
      cases found with
      | none =>
        refine ⟨fun k _ => ?_, fun k hk => by simp at hk, fun i hi ha k hk => ?_⟩
        · simp [internalize, tget, tlookup, PtrOK, Ptr.ids]
        · obtain ⟨k', hk', _⟩ := hf ⟨i, hi, ha, fun e => by simp [e] at hk⟩
          simp at hk'
      | some k0 =>
        have hpok : PtrOK chain p := hp k0 ▸ inv.ptrs k0
        refine ⟨fun k _ => ?_, fun k hk => by simp at hk, fun i hi ha k hk => ?_⟩
        · simp only [internalize, tget, tlookup]
          split
          · exact hpok
          · simp [PtrOK, Ptr.ids]
        · obtain ⟨kf, hkf, i', hi', ha', hkf'⟩ := hf ⟨i, hi, ha, fun e => by simp [e] at hk⟩
          obtain ⟨k1, hk1⟩ := inv.leafKey p rfl hpf
          have e0 : k0 = kf := by simpa using hkf
          have e1 : kf = k1 := by
            rcases hk1 i' hi' ha' with h | h <;> simp [h] at hkf'
            exact hkf'
          have e2 : k = k1 := by
            rcases hk1 i hi ha with h | h <;> simp [h] at hk
            exact hk
          have := inv.found i hi ha k hk
          rw [hp] at this
          simp [internalize, tget, tlookup, e0, e1, e2, this]

end tables2

end Scryer.Index
