import ScryerModel.Proofs.IndexInv
/-!
The invariant `Inv` of the first-argument index model is preserved by the update operations of a
dynamic predicate (`addBack` = assertz, `addFront` = asserta, `remove` = retract), and the
live clause list changes as expected (property C06, dynamic part).
-/
namespace Scryer.Index

/-! ### tables -/
section tables
variable {κ : Type} [DecidableEq κ]

theorem tlookup_tinsert_self (t : List (κ × Ptr)) (k : κ) (p : Ptr) :
    tlookup (tinsert t k p) k = some p := by
  induction t with
  | nil => simp [tinsert, tlookup]
  | cons x r ih =>
    obtain ⟨k', p'⟩ := x
    simp only [tinsert]
    split
    · simp [tlookup]
    · simp [tlookup, *]

theorem tlookup_tinsert_ne (t : List (κ × Ptr)) (k k' : κ) (p : Ptr) (h : k' ≠ k) :
    tlookup (tinsert t k p) k' = tlookup t k' := by
  induction t with
  | nil =>
    simp only [tinsert, tlookup]
    rw [if_neg (fun e => h e.symm)]
  | cons x r ih =>
    obtain ⟨k'', p'⟩ := x
    simp only [tinsert]
    split
    · rename_i e
      subst e
      simp only [tlookup]
      rw [if_neg (fun e => h e.symm), if_neg (fun e => h e.symm)]
    · simp only [tlookup, ih]

/-- look-up in a hash map the way the machine does it: a miss is `Fail`. -/
def tget (t : List (κ × Ptr)) (k : κ) : Ptr := (tlookup t k).getD .fail

theorem look_table (t : List (κ × Ptr)) (k : κ) : (Slot.table t).look k = tget t k := rfl

end tables

/-! ### chain extension -/

theorem Mode.mem_extend (m : Mode) (l : List Nat) (id i : Nat) :
    i ∈ m.extend l id ↔ i = id ∨ i ∈ l := by
  cases m <;> simp [Mode.extend, or_comm]

theorem Mode.sublist_extend (m : Mode) (l : List Nat) (id : Nat) : l.Sublist (m.extend l id) := by
  cases m <;> simp [Mode.extend]

theorem Mode.extend_sublist (m : Mode) {l chain : List Nat} (id : Nat) (h : l.Sublist chain) :
    (m.extend l id).Sublist (m.extend chain id) := by
  cases m
  · exact List.Sublist.append h (List.Sublist.refl _)
  · exact List.Sublist.cons_cons _ h

theorem Mode.pair_eq (m : Mode) (o id : Nat) : m.pair o id = m.extend [o] id := by
  cases m <;> rfl

section tables2
variable {κ : Type} [DecidableEq κ]

theorem tableIndex_self (m : Mode) (t : List (κ × Ptr)) (k : κ) (id : Nat) :
    (tget (tableIndex m t k id) k).ids = m.extend (tget t k).ids id := by
  unfold tableIndex tget
  split <;> rename_i e <;> simp only [tlookup_tinsert_self, e, Option.getD, Ptr.ids, Mode.pair_eq]
  all_goals cases m <;> rfl

theorem tableIndex_ne (m : Mode) (t : List (κ × Ptr)) (k k' : κ) (id : Nat) (h : k' ≠ k) :
    tget (tableIndex m t k id) k' = tget t k' := by
  unfold tableIndex tget
  split <;> simp only [tlookup_tinsert_ne _ _ _ _ h]

/-- what `internalize_*` turns a slot into before the new key is inserted. -/
def tabOf (found : Option κ) : Slot κ → List (κ × Ptr)
  | .leaf .fail => []
  | .leaf p => internalize found p
  | .table t => t

theorem indexKey_eq (m : Mode) (found : Option κ) (slot : Slot κ) (k : κ) (id : Nat)
    (h : slot ≠ .leaf .fail) :
    indexKey m found slot k id = .table (tableIndex m (tabOf found slot) k id) := by
  cases slot with
  | leaf p => cases p <;> first | exact absurd rfl h | rfl
  | table t => rfl

theorem indexOverlap_eq (m : Mode) (found : Option κ) (slot : Slot κ) (orig k2 : κ) (id : Nat) :
    indexOverlap m found (indexKey m found slot orig id) orig k2 id
      = .table (tableIndex m (tableIndex m (tabOf found slot) orig id) k2 id) := by
  cases slot with
  | leaf p => cases p <;> rfl
  | table t => rfl

/-- the result of `search_skeleton_for_first_key_type` is good enough: when a live keyed clause
exists in the chain, the search returns a key of some live clause of the chain. -/
def FoundOK (chain : List Nat) (alive : Nat → Bool) (keys : Nat → List κ) (found : Option κ) :
    Prop :=
  (∃ i, i ∈ chain ∧ alive i = true ∧ keys i ≠ []) →
    ∃ k, found = some k ∧ ∃ i, i ∈ chain ∧ alive i = true ∧ k ∈ keys i

/-- invariant of the hash map while clause `id` is being filed: `K` are the keys done so far. -/
structure TInv (chain : List Nat) (m : Mode) (id : Nat) (alive : Nat → Bool)
    (keys : Nat → List κ) (K : List κ) (t : List (κ × Ptr)) : Prop where
  old : ∀ k, k ∉ K → PtrOK chain (tget t k)
  new : ∀ k, k ∈ K → PtrOK (m.extend chain id) (tget t k) ∧ id ∈ (tget t k).ids
  found : ∀ i, i ∈ chain → alive i = true → ∀ k, k ∈ keys i → i ∈ (tget t k).ids

theorem TInv.init {chain : List Nat} {alive : Nat → Bool} {keys : Nat → List κ} {slot : Slot κ}
    (inv : SlotInv chain alive keys slot) (m : Mode) (id : Nat) (found : Option κ)
    (hf : FoundOK chain alive keys found) :
    TInv chain m id alive keys [] (tabOf found slot) := by
  cases slot with
  | table t =>
    exact ⟨fun k _ => inv.ptrs k, fun k hk => by simp at hk, fun i hi ha k hk => inv.found i hi ha k hk⟩
  | leaf p =>
    have hp : ∀ k : κ, (Slot.leaf p : Slot κ).look k = p := fun _ => rfl
    by_cases hpf : p = .fail
    · subst hpf
      refine ⟨fun k _ => ?_, fun k hk => by simp at hk, fun i hi ha k hk => ?_⟩
      · simp [tabOf, tget, tlookup, PtrOK, Ptr.ids]
      · have := inv.found i hi ha k hk
        simp [Slot.look, Ptr.ids] at this
    · have htab : tabOf found (Slot.leaf p) = internalize found p := by
        cases p <;> first | exact absurd rfl hpf | rfl
      rw [htab]
      cases found with
      | none =>
        refine ⟨fun k _ => ?_, fun k hk => by simp at hk, fun i hi ha k hk => ?_⟩
        · simp [internalize, tget, tlookup, PtrOK, Ptr.ids]
        · obtain ⟨k', hk', _⟩ := hf ⟨i, hi, ha, fun e => by simp [e] at hk⟩
          simp at hk'
      | some k0 =>
        have hpok : PtrOK chain p := hp k0 ▸ inv.ptrs k0
        refine ⟨fun k _ => ?_, fun k hk => by simp at hk, fun i hi ha k hk => ?_⟩
        · simp only [internalize, tget, tlookup]
          split
          · exact hpok
          · simp [PtrOK, Ptr.ids]
        · obtain ⟨kf, hkf, i', hi', ha', hkf'⟩ := hf ⟨i, hi, ha, fun e => by simp [e] at hk⟩
          obtain ⟨k1, hk1⟩ := inv.leafKey p rfl hpf
          have e0 : k0 = kf := by simpa using hkf
          have e1 : kf = k1 := by
            rcases hk1 i' hi' ha' with h | h <;> simp [h] at hkf'
            exact hkf'
          have e2 : k = k1 := by
            rcases hk1 i hi ha with h | h <;> simp [h] at hk
            exact hk
          have := inv.found i hi ha k hk
          rw [hp] at this
          simp [internalize, tget, tlookup, e0, e1, e2, this]

theorem TInv.step {chain : List Nat} {m : Mode} {id : Nat} {alive : Nat → Bool}
    {keys : Nat → List κ} {K : List κ} {t : List (κ × Ptr)}
    (inv : TInv chain m id alive keys K t) (k : κ) (hk : k ∉ K) :
    TInv chain m id alive keys (k :: K) (tableIndex m t k id) := by
  have hself := tableIndex_self m t k id
  refine ⟨fun k' hk' => ?_, fun k' hk' => ?_, fun i hi ha k' hk' => ?_⟩
  · simp only [List.mem_cons, not_or] at hk'
    rw [tableIndex_ne m t k k' id hk'.1]
    exact inv.old k' hk'.2
  · by_cases e : k' = k
    · subst e
      refine ⟨?_, ?_⟩
      · unfold PtrOK; rw [hself]; exact m.extend_sublist id (inv.old k' hk)
      · rw [hself, Mode.mem_extend]; exact Or.inl rfl
    · rw [tableIndex_ne m t k k' id e]
      rcases List.mem_cons.1 hk' with h | h
      · exact absurd h e
      · exact inv.new k' h
  · by_cases e : k' = k
    · subst e
      rw [hself, Mode.mem_extend]; exact Or.inr (inv.found i hi ha k' hk')
    · rw [tableIndex_ne m t k k' id e]; exact inv.found i hi ha k' hk'

theorem TInv.final {chain : List Nat} {m : Mode} {id : Nat} {alive : Nat → Bool}
    {keys : Nat → List κ} {K : List κ} {t : List (κ × Ptr)}
    (inv : TInv chain m id alive keys K t) (hK : ∀ k, k ∈ keys id → k ∈ K) :
    SlotInv (m.extend chain id) alive keys (.table t) := by
  refine ⟨fun k => ?_, fun i hi ha k hk => ?_, fun p hp => by cases hp⟩
  · rw [look_table]
    by_cases h : k ∈ K
    · exact (inv.new k h).1
    · exact (inv.old k h).trans (m.sublist_extend chain id)
  · rw [look_table]
    rcases (Mode.mem_extend m chain id i).1 hi with h | h
    · subst h; exact (inv.new k (hK k hk)).2
    · exact inv.found i h ha k hk

/-- the chain grows by a clause that has no key in this slot. -/
theorem SlotInv.extend_nokeys {chain : List Nat} {alive : Nat → Bool} {keys : Nat → List κ}
    {slot : Slot κ} (inv : SlotInv chain alive keys slot) (m : Mode) (id : Nat)
    (hk : keys id = []) : SlotInv (m.extend chain id) alive keys slot := by
  refine ⟨fun k => (inv.ptrs k).trans (m.sublist_extend chain id), fun i hi ha k hk' => ?_,
    fun p hp hpf => ?_⟩
  · rcases (Mode.mem_extend m chain id i).1 hi with h | h
    · subst h; simp [hk] at hk'
    · exact inv.found i h ha k hk'
  · obtain ⟨k, h⟩ := inv.leafKey p hp hpf
    refine ⟨k, fun i hi ha => ?_⟩
    rcases (Mode.mem_extend m chain id i).1 hi with h' | h'
    · subst h'; exact Or.inl hk
    · exact h i h' ha

/-- `SlotInv` only looks at the clauses of the chain, and is monotone in `alive`. -/
theorem SlotInv.congr {chain : List Nat} {alive alive' : Nat → Bool} {keys keys' : Nat → List κ}
    {slot : Slot κ} (inv : SlotInv chain alive keys slot)
    (hk : ∀ i, i ∈ chain → keys' i = keys i)
    (ha : ∀ i, i ∈ chain → alive' i = true → alive i = true) :
    SlotInv chain alive' keys' slot := by
  refine ⟨inv.ptrs, fun i hi hal k hk' => ?_, fun p hp hpf => ?_⟩
  · rw [hk i hi] at hk'; exact inv.found i hi (ha i hi hal) k hk'
  · obtain ⟨k, h⟩ := inv.leafKey p hp hpf
    exact ⟨k, fun i hi hal => by rw [hk i hi]; exact h i hi (ha i hi hal)⟩

/-- `index_constant` / `index_structure` for a clause with exactly one key. -/
theorem SlotInv.indexKey {chain : List Nat} {alive : Nat → Bool} {keys : Nat → List κ}
    {slot : Slot κ} (inv : SlotInv chain alive keys slot) (m : Mode) (id : Nat) (found : Option κ)
    (hf : FoundOK chain alive keys found) (k : κ) (hk : keys id = [k]) :
    SlotInv (m.extend chain id) alive keys (indexKey m found slot k id) := by
  by_cases hs : slot = .leaf .fail
  · subst hs
    show SlotInv (m.extend chain id) alive keys (.leaf (.ext id))
    have hnone : ∀ i, i ∈ chain → alive i = true → keys i = [] := by
      intro i hi ha
      cases hki : keys i with
      | nil => rfl
      | cons k' r =>
        have := inv.found i hi ha k' (by simp [hki])
        simp [Slot.look, Ptr.ids] at this
    refine ⟨fun k' => ?_, fun i hi ha k' hk' => ?_, fun p hp hpf => ⟨k, fun i hi ha => ?_⟩⟩
    · show [id].Sublist (m.extend chain id)
      simp [Mode.mem_extend]
    · show i ∈ [id]
      rcases (Mode.mem_extend m chain id i).1 hi with h | h
      · simp [h]
      · simp [hnone i h ha] at hk'
    · rcases (Mode.mem_extend m chain id i).1 hi with h | h
      · subst h; exact Or.inr hk
      · exact Or.inl (hnone i h ha)
  · rw [indexKey_eq m found slot k id hs]
    exact ((TInv.init inv m id found hf).step k (by simp)).final (by simp [hk])

/-- `index_constant` followed by `index_overlapping_constant`: a clause with two keys. -/
theorem SlotInv.indexOverlap {chain : List Nat} {alive : Nat → Bool} {keys : Nat → List κ}
    {slot : Slot κ} (inv : SlotInv chain alive keys slot) (m : Mode) (id : Nat) (found : Option κ)
    (hf : FoundOK chain alive keys found) (k k2 : κ) (hk : keys id = [k, k2]) (hne : k2 ≠ k) :
    SlotInv (m.extend chain id) alive keys
      (indexOverlap m found (Scryer.Index.indexKey m found slot k id) k k2 id) := by
  rw [indexOverlap_eq]
  exact (((TInv.init inv m id found hf).step k (by simp)).step k2 (by simp [hne])).final
    (by simp [hk])

end tables2

/-! ### merging a clause into a subsequence -/

theorem firstInstFrom_spec (h : Head) (i p : Nat) (hh : firstInstFrom h i = some p) :
    i ≤ p ∧ h.getD (p - i) .var ≠ .var := by
  induction h generalizing i with
  | nil => simp [firstInstFrom] at hh
  | cons x r ih =>
    simp only [firstInstFrom] at hh
    split at hh
    · have := ih (i + 1) hh
      refine ⟨by omega, ?_⟩
      have h2 : p - i = (p - (i + 1)) + 1 := by omega
      rw [h2]; simpa using this.2
    · simp at hh; subst hh; simp; assumption

theorem argAt_ne_var (h : Head) (p : Nat) (hh : firstInst h = some p) : argAt h p ≠ .var := by
  have := (firstInstFrom_spec h 0 p hh).2
  simpa [argAt] using this

/-- `SubInv` only looks at the clauses of the chain, and is monotone in `alive`. -/
theorem SubInv.congr {hd hd' : Nat → Head} {alive alive' : Nat → Bool} {sub : Sub}
    (inv : SubInv hd alive sub) (hh : ∀ i, i ∈ sub.chain → hd' i = hd i)
    (ha : ∀ i, i ∈ sub.chain → alive' i = true → alive i = true) : SubInv hd' alive' sub := by
  refine ⟨inv.c.congr (fun i hi => by rw [hh i hi]) ha, inv.s.congr (fun i hi => by rw [hh i hi]) ha,
    inv.l_ok, fun i hi hal hl => ?_, fun i hi => ?_⟩
  · rw [hh i hi] at hl; exact inv.l_found i hi (ha i hi hal) hl
  · rw [hh i hi]; exact inv.arg i hi

theorem SubInv.mono_alive {hd : Nat → Head} {alive alive' : Nat → Bool} {sub : Sub}
    (inv : SubInv hd alive sub) (ha : ∀ i, alive' i = true → alive i = true) :
    SubInv hd alive' sub :=
  inv.congr (fun _ _ => rfl) (fun i _ => ha i)

theorem indexList_ids (m : Mode) (l : Ptr) (id : Nat) :
    (indexList m l id).ids = m.extend l.ids id := by
  cases l <;> cases m <;> rfl

/-- **`merge_clause_index` keeps the invariant of the subsequence.** -/
theorem SubInv.merge {hd : Nat → Head} {alive : Nat → Bool} {sub : Sub} (inv : SubInv hd alive sub)
    (m : Mode) (foundC : Option CKey) (foundS : Option (String × Nat)) (fa : FirstArg) (id : Nat)
    (hfa : argAt (hd id) sub.arg = fa) (harg : firstInst (hd id) = some sub.arg)
    (hC : FoundOK sub.chain alive (fun i => ckeys (argAt (hd i) sub.arg)) foundC)
    (hS : FoundOK sub.chain alive (fun i => skeys (argAt (hd i) sub.arg)) foundS) :
    SubInv hd alive (sub.merge m foundC foundS fa id) := by
  have harg' : ∀ i, i ∈ m.extend sub.chain id → firstInst (hd i) = some sub.arg := by
    intro i hi
    rcases (Mode.mem_extend m _ id i).1 hi with h | h
    · subst h; exact harg
    · exact inv.arg i h
  have hlok : PtrOK (m.extend sub.chain id) sub.l := inv.l_ok.trans (m.sublist_extend _ id)
  have hlf : fa ≠ .list → ∀ i, i ∈ m.extend sub.chain id → alive i = true →
      argAt (hd i) sub.arg = .list → i ∈ sub.l.ids := by
    intro hne i hi ha hl
    rcases (Mode.mem_extend m _ id i).1 hi with h | h
    · subst h; rw [hfa] at hl; exact absurd hl hne
    · exact inv.l_found i h ha hl
  cases fa with
  | var =>
    exact ⟨inv.c.extend_nokeys m id (by simp [hfa, ckeys]), inv.s.extend_nokeys m id (by simp [hfa, skeys]),
      hlok, hlf (by simp), harg'⟩
  | list =>
    refine ⟨inv.c.extend_nokeys m id (by simp [hfa, ckeys]),
      inv.s.extend_nokeys m id (by simp [hfa, skeys]), ?_, ?_, harg'⟩
    · show (indexList m sub.l id).ids.Sublist (m.extend sub.chain id)
      rw [indexList_ids]; exact m.extend_sublist id inv.l_ok
    · intro i hi ha hl
      show i ∈ (indexList m sub.l id).ids
      rw [indexList_ids, Mode.mem_extend]
      rcases (Mode.mem_extend m _ id i).1 hi with h | h
      · exact Or.inl h
      · exact Or.inr (inv.l_found i h ha hl)
  | struct n a =>
    exact ⟨inv.c.extend_nokeys m id (by simp [hfa, ckeys]),
      inv.s.indexKey m id foundS hS (n, a) (by simp [hfa, skeys]), hlok, hlf (by simp), harg'⟩
  | const l =>
    have hs := inv.s.extend_nokeys m id (show skeys (argAt (hd id) sub.arg) = [] by simp [hfa, skeys])
    cases hak : l.altKey with
    | none =>
      have hc := inv.c.indexKey m id foundC hC l.key (by simp [hfa, ckeys, hak])
      simp only [Sub.merge, hak]
      exact ⟨hc, hs, hlok, hlf (by simp), harg'⟩
    | some k2 =>
      have hc := inv.c.indexOverlap m id foundC hC l.key k2 (by simp [hfa, ckeys, hak])
        (altKey_ne_key l k2 hak)
      simp only [Sub.merge, hak]
      exact ⟨hc, hs, hlok, hlf (by simp), harg'⟩

end Scryer.Index
