import ScryerModel.Proofs.IndexInv
/-!
The invariant `Inv` of the first-argument index model is preserved by the update operations of a
dynamic predicate (`addBack` = assertz, `addFront` = asserta, `remove` = retract), and the
live clause list changes as expected (property C06, dynamic part).
-/
namespace Scryer.Index

/-! ### tables -/
section tables
variable {κ : Type} [DecidableEq κ]

theorem tlookup_tinsert_self (t : List (κ × Ptr)) (k : κ) (p : Ptr) :
    tlookup (tinsert t k p) k = some p := by
  induction t with
  | nil => simp [tinsert, tlookup]
  | cons x r ih =>
    obtain ⟨k', p'⟩ := x
    simp only [tinsert]
    split
    · simp [tlookup]
    · simp [tlookup, *]

theorem tlookup_tinsert_ne (t : List (κ × Ptr)) (k k' : κ) (p : Ptr) (h : k' ≠ k) :
    tlookup (tinsert t k p) k' = tlookup t k' := by
  induction t with
  | nil =>
    simp only [tinsert, tlookup]
    rw [if_neg (fun e => h e.symm)]
  | cons x r ih =>
    obtain ⟨k'', p'⟩ := x
    simp only [tinsert]
    split
    · rename_i e
      subst e
      simp only [tlookup]
      rw [if_neg (fun e => h e.symm), if_neg (fun e => h e.symm)]
    · simp only [tlookup, ih]

/-- look-up in a hash map the way the machine does it: a miss is `Fail`. -/
def tget (t : List (κ × Ptr)) (k : κ) : Ptr := (tlookup t k).getD .fail

theorem look_table (t : List (κ × Ptr)) (k : κ) : (Slot.table t).look k = tget t k := rfl

end tables

/-! ### chain extension -/

theorem Mode.mem_extend (m : Mode) (l : List Nat) (id i : Nat) :
    i ∈ m.extend l id ↔ i = id ∨ i ∈ l := by
  cases m <;> simp [Mode.extend, or_comm]

theorem Mode.sublist_extend (m : Mode) (l : List Nat) (id : Nat) : l.Sublist (m.extend l id) := by
  cases m <;> simp [Mode.extend]

theorem Mode.extend_sublist (m : Mode) {l chain : List Nat} (id : Nat) (h : l.Sublist chain) :
    (m.extend l id).Sublist (m.extend chain id) := by
  cases m
  · exact List.Sublist.append h (List.Sublist.refl _)
  · exact List.Sublist.cons_cons _ h

theorem Mode.pair_eq (m : Mode) (o id : Nat) : m.pair o id = m.extend [o] id := by
  cases m <;> rfl

section tables2
variable {κ : Type} [DecidableEq κ]

theorem tableIndex_self (m : Mode) (t : List (κ × Ptr)) (k : κ) (id : Nat) :
    (tget (tableIndex m t k id) k).ids = m.extend (tget t k).ids id := by
  unfold tableIndex tget
  split <;> rename_i e <;> simp only [tlookup_tinsert_self, e, Option.getD, Ptr.ids, Mode.pair_eq]
  all_goals cases m <;> rfl

theorem tableIndex_ne (m : Mode) (t : List (κ × Ptr)) (k k' : κ) (id : Nat) (h : k' ≠ k) :
    tget (tableIndex m t k id) k' = tget t k' := by
  unfold tableIndex tget
  split <;> simp only [tlookup_tinsert_ne _ _ _ _ h]

/-- what `internalize_*` turns a slot into before the new key is inserted. -/
def tabOf (found : Option κ) : Slot κ → List (κ × Ptr)
  | .leaf .fail => []
  | .leaf p => internalize found p
  | .table t => t

theorem indexKey_eq (m : Mode) (found : Option κ) (slot : Slot κ) (k : κ) (id : Nat)
    (h : slot ≠ .leaf .fail) :
    indexKey m found slot k id = .table (tableIndex m (tabOf found slot) k id) := by
  cases slot with
  | leaf p => cases p <;> first | exact absurd rfl h | rfl
  | table t => rfl

theorem indexOverlap_eq (m : Mode) (found : Option κ) (slot : Slot κ) (orig k2 : κ) (id : Nat) :
    indexOverlap m found (indexKey m found slot orig id) orig k2 id
      = .table (tableIndex m (tableIndex m (tabOf found slot) orig id) k2 id) := by
  cases slot with
  | leaf p => cases p <;> rfl
  | table t => rfl

/-- the result of `search_skeleton_for_first_key_type` is good enough: when a live keyed clause
exists in the chain, the search returns a key of some live clause of the chain. -/
def FoundOK (chain : List Nat) (alive : Nat → Bool) (keys : Nat → List κ) (found : Option κ) :
    Prop :=
  (∃ i, i ∈ chain ∧ alive i = true ∧ keys i ≠ []) →
    ∃ k, found = some k ∧ ∃ i, i ∈ chain ∧ alive i = true ∧ k ∈ keys i

/-- invariant of the hash map while clause `id` is being filed: `K` are the keys done so far. -/
structure TInv (chain : List Nat) (m : Mode) (id : Nat) (alive : Nat → Bool)
    (keys : Nat → List κ) (K : List κ) (t : List (κ × Ptr)) : Prop where
  old : ∀ k, k ∉ K → PtrOK chain (tget t k)
  new : ∀ k, k ∈ K → PtrOK (m.extend chain id) (tget t k) ∧ id ∈ (tget t k).ids
  found : ∀ i, i ∈ chain → alive i = true → ∀ k, k ∈ keys i → i ∈ (tget t k).ids

theorem TInv.init {chain : List Nat} {alive : Nat → Bool} {keys : Nat → List κ} {slot : Slot κ}
    (inv : SlotInv chain alive keys slot) (m : Mode) (id : Nat) (found : Option κ)
    (hf : FoundOK chain alive keys found) :
    TInv chain m id alive keys [] (tabOf found slot) := by
  cases slot with
  | table t =>
    exact ⟨fun k _ => inv.ptrs k, fun k hk => by simp at hk, fun i hi ha k hk => inv.found i hi ha k hk⟩
  | leaf p =>
    have hp : ∀ k : κ, (Slot.leaf p : Slot κ).look k = p := fun _ => rfl
    by_cases hpf : p = .fail
    · subst hpf
      refine ⟨fun k _ => ?_, fun k hk => by simp at hk, fun i hi ha k hk => ?_⟩
      · simp [tabOf, tget, tlookup, PtrOK, Ptr.ids]
      · have := inv.found i hi ha k hk
        simp [Slot.look, Ptr.ids] at this
    · have htab : tabOf found (Slot.leaf p) = internalize found p := by
        cases p <;> first | exact absurd rfl hpf | rfl
      rw [htab]
      cases found with
      | none =>
        refine ⟨fun k _ => ?_, fun k hk => by simp at hk, fun i hi ha k hk => ?_⟩
        · simp [internalize, tget, tlookup, PtrOK, Ptr.ids]
        · obtain ⟨k', hk', _⟩ := hf ⟨i, hi, ha, fun e => by simp [e] at hk⟩
          simp at hk'
      | some k0 =>
        have hpok : PtrOK chain p := hp k0 ▸ inv.ptrs k0
        refine ⟨fun k _ => ?_, fun k hk => by simp at hk, fun i hi ha k hk => ?_⟩
        · simp only [internalize, tget, tlookup]
          split
          · exact hpok
          · simp [PtrOK, Ptr.ids]
        · obtain ⟨kf, hkf, i', hi', ha', hkf'⟩ := hf ⟨i, hi, ha, fun e => by simp [e] at hk⟩
          obtain ⟨k1, hk1⟩ := inv.leafKey p rfl hpf
          have e0 : k0 = kf := by simpa using hkf
          have e1 : kf = k1 := by
            rcases hk1 i' hi' ha' with h | h <;> simp [h] at hkf'
            exact hkf'
          have e2 : k = k1 := by
            rcases hk1 i hi ha with h | h <;> simp [h] at hk
            exact hk
          have := inv.found i hi ha k hk
          rw [hp] at this
          simp [internalize, tget, tlookup, e0, e1, e2, this]

theorem TInv.step {chain : List Nat} {m : Mode} {id : Nat} {alive : Nat → Bool}
    {keys : Nat → List κ} {K : List κ} {t : List (κ × Ptr)}
    (inv : TInv chain m id alive keys K t) (k : κ) (hk : k ∉ K) :
    TInv chain m id alive keys (k :: K) (tableIndex m t k id) := by
  have hself := tableIndex_self m t k id
  refine ⟨fun k' hk' => ?_, fun k' hk' => ?_, fun i hi ha k' hk' => ?_⟩
  · simp only [List.mem_cons, not_or] at hk'
    rw [tableIndex_ne m t k k' id hk'.1]
    exact inv.old k' hk'.2
  · by_cases e : k' = k
    · subst e
      refine ⟨?_, ?_⟩
      · unfold PtrOK; rw [hself]; exact m.extend_sublist id (inv.old k' hk)
      · rw [hself, Mode.mem_extend]; exact Or.inl rfl
    · rw [tableIndex_ne m t k k' id e]
      rcases List.mem_cons.1 hk' with h | h
      · exact absurd h e
      · exact inv.new k' h
  · by_cases e : k' = k
    · subst e
      rw [hself, Mode.mem_extend]; exact Or.inr (inv.found i hi ha k' hk')
    · rw [tableIndex_ne m t k k' id e]; exact inv.found i hi ha k' hk'

theorem TInv.final {chain : List Nat} {m : Mode} {id : Nat} {alive : Nat → Bool}
    {keys : Nat → List κ} {K : List κ} {t : List (κ × Ptr)}
    (inv : TInv chain m id alive keys K t) (hK : ∀ k, k ∈ keys id → k ∈ K) :
    SlotInv (m.extend chain id) alive keys (.table t) := by
  refine ⟨fun k => ?_, fun i hi ha k hk => ?_, fun p hp => by cases hp⟩
  · rw [look_table]
    by_cases h : k ∈ K
    · exact (inv.new k h).1
    · exact (inv.old k h).trans (m.sublist_extend chain id)
  · rw [look_table]
    rcases (Mode.mem_extend m chain id i).1 hi with h | h
    · subst h; exact (inv.new k (hK k hk)).2
    · exact inv.found i h ha k hk

/-- the chain grows by a clause that has no key in this slot. -/
theorem SlotInv.extend_nokeys {chain : List Nat} {alive : Nat → Bool} {keys : Nat → List κ}
    {slot : Slot κ} (inv : SlotInv chain alive keys slot) (m : Mode) (id : Nat)
    (hk : keys id = []) : SlotInv (m.extend chain id) alive keys slot := by
  refine ⟨fun k => (inv.ptrs k).trans (m.sublist_extend chain id), fun i hi ha k hk' => ?_,
    fun p hp hpf => ?_⟩
  · rcases (Mode.mem_extend m chain id i).1 hi with h | h
    · subst h; simp [hk] at hk'
    · exact inv.found i h ha k hk'
  · obtain ⟨k, h⟩ := inv.leafKey p hp hpf
    refine ⟨k, fun i hi ha => ?_⟩
    rcases (Mode.mem_extend m chain id i).1 hi with h' | h'
    · subst h'; exact Or.inl hk
    · exact h i h' ha

/-- `SlotInv` only looks at the clauses of the chain, and is monotone in `alive`. -/
theorem SlotInv.congr {chain : List Nat} {alive alive' : Nat → Bool} {keys keys' : Nat → List κ}
    {slot : Slot κ} (inv : SlotInv chain alive keys slot)
    (hk : ∀ i, i ∈ chain → keys' i = keys i)
    (ha : ∀ i, i ∈ chain → alive' i = true → alive i = true) :
    SlotInv chain alive' keys' slot := by
  refine ⟨inv.ptrs, fun i hi hal k hk' => ?_, fun p hp hpf => ?_⟩
  · rw [hk i hi] at hk'; exact inv.found i hi (ha i hi hal) k hk'
  · obtain ⟨k, h⟩ := inv.leafKey p hp hpf
    exact ⟨k, fun i hi hal => by rw [hk i hi]; exact h i hi (ha i hi hal)⟩

/-- `index_constant` / `index_structure` for a clause with exactly one key. -/
theorem SlotInv.indexKey {chain : List Nat} {alive : Nat → Bool} {keys : Nat → List κ}
    {slot : Slot κ} (inv : SlotInv chain alive keys slot) (m : Mode) (id : Nat) (found : Option κ)
    (hf : FoundOK chain alive keys found) (k : κ) (hk : keys id = [k]) :
    SlotInv (m.extend chain id) alive keys (indexKey m found slot k id) := by
  by_cases hs : slot = .leaf .fail
  · subst hs
    show SlotInv (m.extend chain id) alive keys (.leaf (.ext id))
    have hnone : ∀ i, i ∈ chain → alive i = true → keys i = [] := by
      intro i hi ha
      cases hki : keys i with
      | nil => rfl
      | cons k' r =>
        have := inv.found i hi ha k' (by simp [hki])
        simp [Slot.look, Ptr.ids] at this
    refine ⟨fun k' => ?_, fun i hi ha k' hk' => ?_, fun p hp hpf => ⟨k, fun i hi ha => ?_⟩⟩
    · show [id].Sublist (m.extend chain id)
      simp [Mode.mem_extend]
    · show i ∈ [id]
      rcases (Mode.mem_extend m chain id i).1 hi with h | h
      · simp [h]
      · simp [hnone i h ha] at hk'
    · rcases (Mode.mem_extend m chain id i).1 hi with h | h
      · subst h; exact Or.inr hk
      · exact Or.inl (hnone i h ha)
  · rw [indexKey_eq m found slot k id hs]
    exact ((TInv.init inv m id found hf).step k (by simp)).final (by simp [hk])

/-- `index_constant` followed by `index_overlapping_constant`: a clause with two keys. -/
theorem SlotInv.indexOverlap {chain : List Nat} {alive : Nat → Bool} {keys : Nat → List κ}
    {slot : Slot κ} (inv : SlotInv chain alive keys slot) (m : Mode) (id : Nat) (found : Option κ)
    (hf : FoundOK chain alive keys found) (k k2 : κ) (hk : keys id = [k, k2]) (hne : k2 ≠ k) :
    SlotInv (m.extend chain id) alive keys
      (indexOverlap m found (Scryer.Index.indexKey m found slot k id) k k2 id) := by
  rw [indexOverlap_eq]
  exact (((TInv.init inv m id found hf).step k (by simp)).step k2 (by simp [hne])).final
    (by simp [hk])

end tables2

/-! ### merging a clause into a subsequence -/

theorem firstInstFrom_spec (h : Head) (i p : Nat) (hh : firstInstFrom h i = some p) :
    i ≤ p ∧ h.getD (p - i) .var ≠ .var := by
  induction h generalizing i with
  | nil => simp [firstInstFrom] at hh
  | cons x r ih =>
    simp only [firstInstFrom] at hh
    split at hh
    · have := ih (i + 1) hh
      refine ⟨by omega, ?_⟩
      have h2 : p - i = (p - (i + 1)) + 1 := by omega
      rw [h2]; simpa using this.2
    · simp at hh; subst hh; simp; assumption

theorem argAt_ne_var (h : Head) (p : Nat) (hh : firstInst h = some p) : argAt h p ≠ .var := by
  have := (firstInstFrom_spec h 0 p hh).2
  simpa [argAt] using this

/-- `SubInv` only looks at the clauses of the chain, and is monotone in `alive`. -/
theorem SubInv.congr {hd hd' : Nat → Head} {alive alive' : Nat → Bool} {sub : Sub}
    (inv : SubInv hd alive sub) (hh : ∀ i, i ∈ sub.chain → hd' i = hd i)
    (ha : ∀ i, i ∈ sub.chain → alive' i = true → alive i = true) : SubInv hd' alive' sub := by
  refine ⟨inv.c.congr (fun i hi => by rw [hh i hi]) ha, inv.s.congr (fun i hi => by rw [hh i hi]) ha,
    inv.l_ok, fun i hi hal hl => ?_, fun i hi => ?_⟩
  · rw [hh i hi] at hl; exact inv.l_found i hi (ha i hi hal) hl
  · rw [hh i hi]; exact inv.arg i hi

theorem SubInv.mono_alive {hd : Nat → Head} {alive alive' : Nat → Bool} {sub : Sub}
    (inv : SubInv hd alive sub) (ha : ∀ i, alive' i = true → alive i = true) :
    SubInv hd alive' sub :=
  inv.congr (fun _ _ => rfl) (fun i _ => ha i)

theorem indexList_ids (m : Mode) (l : Ptr) (id : Nat) :
    (indexList m l id).ids = m.extend l.ids id := by
  cases l <;> cases m <;> rfl

/-- **`merge_clause_index` keeps the invariant of the subsequence.** -/
theorem SubInv.merge {hd : Nat → Head} {alive : Nat → Bool} {sub : Sub} (inv : SubInv hd alive sub)
    (m : Mode) (foundC : Option CKey) (foundS : Option (String × Nat)) (fa : FirstArg) (id : Nat)
    (hfa : argAt (hd id) sub.arg = fa) (harg : firstInst (hd id) = some sub.arg)
    (hC : FoundOK sub.chain alive (fun i => ckeys (argAt (hd i) sub.arg)) foundC)
    (hS : FoundOK sub.chain alive (fun i => skeys (argAt (hd i) sub.arg)) foundS) :
    SubInv hd alive (sub.merge m foundC foundS fa id) := by
  have harg' : ∀ i, i ∈ m.extend sub.chain id → firstInst (hd i) = some sub.arg := by
    intro i hi
    rcases (Mode.mem_extend m _ id i).1 hi with h | h
    · subst h; exact harg
    · exact inv.arg i h
  have hlok : PtrOK (m.extend sub.chain id) sub.l := inv.l_ok.trans (m.sublist_extend _ id)
  have hlf : fa ≠ .list → ∀ i, i ∈ m.extend sub.chain id → alive i = true →
      argAt (hd i) sub.arg = .list → i ∈ sub.l.ids := by
    intro hne i hi ha hl
    rcases (Mode.mem_extend m _ id i).1 hi with h | h
    · subst h; rw [hfa] at hl; exact absurd hl hne
    · exact inv.l_found i h ha hl
  cases fa with
  | var =>
    exact ⟨inv.c.extend_nokeys m id (by simp [hfa, ckeys]), inv.s.extend_nokeys m id (by simp [hfa, skeys]),
      hlok, hlf (by simp), harg'⟩
  | list =>
    refine ⟨inv.c.extend_nokeys m id (by simp [hfa, ckeys]),
      inv.s.extend_nokeys m id (by simp [hfa, skeys]), ?_, ?_, harg'⟩
    · show (indexList m sub.l id).ids.Sublist (m.extend sub.chain id)
      rw [indexList_ids]; exact m.extend_sublist id inv.l_ok
    · intro i hi ha hl
      show i ∈ (indexList m sub.l id).ids
      rw [indexList_ids, Mode.mem_extend]
      rcases (Mode.mem_extend m _ id i).1 hi with h | h
      · exact Or.inl h
      · exact Or.inr (inv.l_found i h ha hl)
  | struct n a =>
    exact ⟨inv.c.extend_nokeys m id (by simp [hfa, ckeys]),
      inv.s.indexKey m id foundS hS (n, a) (by simp [hfa, skeys]), hlok, hlf (by simp), harg'⟩
  | const l =>
    have hs := inv.s.extend_nokeys m id (show skeys (argAt (hd id) sub.arg) = [] by simp [hfa, skeys])
    cases hak : l.altKey with
    | none =>
      have hc := inv.c.indexKey m id foundC hC l.key (by simp [hfa, ckeys, hak])
      simp only [Sub.merge, hak]
      exact ⟨hc, hs, hlok, hlf (by simp), harg'⟩
    | some k2 =>
      have hc := inv.c.indexOverlap m id foundC hC l.key k2 (by simp [hfa, ckeys, hak])
        (altKey_ne_key l k2 hak)
      simp only [Sub.merge, hak]
      exact ⟨hc, hs, hlok, hlf (by simp), harg'⟩


/-! ### `retract` -/

theorem hd_remove (idx : Index) (id i : Nat) : (remove idx id).hd i = idx.hd i := by
  unfold remove; split <;> rfl

theorem next_remove (idx : Index) (id : Nat) : (remove idx id).next = idx.next := by
  unfold remove; split <;> rfl

theorem Inv.remove {idx : Index} (inv : Inv idx) (id : Nat) : Inv (remove idx id) := by
  unfold Scryer.Index.remove
  split
  · rename_i hc
    have hmem : id ∈ idx.order := by
      have : id ∈ idx.live := by simpa using hc
      exact (List.mem_filter.1 this).1
    refine ⟨inv.nodup, inv.order_lt, inv.store_lt, ?_, ?_⟩
    · intro i hi
      rcases List.mem_cons.1 hi with h | h
      · subst h; exact inv.order_lt _ hmem
      · exact inv.dead_lt i h
    · intro sub hsub
      refine (inv.subs sub hsub).congr (fun _ _ => rfl) (fun i _ ha => ?_)
      simp only [Index.alive, List.contains_cons, Bool.not_or, Bool.and_eq_true] at ha
      exact ha.2
  · exact inv

theorem live_remove {idx : Index} (_inv : Inv idx) (id : Nat) :
    (remove idx id).live = idx.live.filter (· ≠ id) := by
  unfold remove
  split
  · simp only [Index.live, Index.order, List.filter_filter]
    apply List.filter_congr
    intro i _
    simp only [Index.alive, List.contains_cons, Bool.not_or]
    by_cases h : i = id <;> simp [h]
  · rename_i hc
    symm
    rw [List.filter_eq_self]
    intro i hi
    have : i ≠ id := fun e => hc (by simpa [e] using hi)
    simpa using this


/-! ### a clause compiled on its own -/

/-- the indexing code of an empty subsequence. -/
def emptySub (arg : Nat) : Sub := ⟨arg, [], .leaf .fail, .fail, .leaf .fail⟩

theorem emptySub_inv (hd : Nat → Head) (alive : Nat → Bool) (arg : Nat) :
    SubInv hd alive (emptySub arg) := by
  refine ⟨⟨fun k => ?_, fun i hi => ?_, fun p hp hpf => ?_⟩, ⟨fun k => ?_, fun i hi => ?_, fun p hp hpf => ?_⟩,
    ?_, fun i hi => ?_, fun i hi => ?_⟩
  all_goals first
    | (simp [emptySub] at hi; done)
    | (simp [emptySub] at hp; exact absurd hp.symm hpf)
    | simp [emptySub, PtrOK, Slot.look, Ptr.ids]

theorem standalone_var (id : Nat) (h : Head) (hv : argAt h ((firstInst h).getD 0) = .var) :
    standalone id h = .plain [id] := by
  simp [standalone, compileSeg, hv, indexTerm, Offsets.empty, Offsets.noIndices]

theorem standalone_nonvar (id : Nat) (h : Head) (hv : argAt h ((firstInst h).getD 0) ≠ .var) :
    standalone id h = .indexed ((emptySub ((firstInst h).getD 0)).merge .append none none
      (argAt h ((firstInst h).getD 0)) id) := by
  generalize hfa : argAt h ((firstInst h).getD 0) = fa at hv
  cases fa with
  | var => exact absurd rfl hv
  | list =>
    simp [standalone, compileSeg, hfa, indexTerm, Offsets.empty, Offsets.noIndices, Sub.merge,
      emptySub, Mode.extend, switchOn, secondLevel, switchOnList, indexList]
  | struct n a =>
    simp [standalone, compileSeg, hfa, indexTerm, Offsets.empty, Offsets.noIndices, Sub.merge,
      emptySub, Mode.extend, switchOn, secondLevel, switchOnList, indexKey, ginsert]
  | const l =>
    cases hak : l.altKey with
    | none =>
      simp [standalone, compileSeg, hfa, indexTerm, Offsets.empty, Offsets.noIndices, Sub.merge,
        emptySub, Mode.extend, switchOn, secondLevel, switchOnList, indexKey, ginsert, hak]
    | some k2 =>
      have hne : ¬ l.key = k2 := fun e => altKey_ne_key l k2 hak e.symm
      simp [standalone, compileSeg, hfa, indexTerm, Offsets.empty, Offsets.noIndices, Sub.merge,
        emptySub, Mode.extend, switchOn, secondLevel, switchOnList, indexKey, ginsert, hak,
        indexOverlap, tableIndex, tlookup, tinsert, hne]


theorem firstInstFrom_none (h : Head) (i : Nat) (hh : firstInstFrom h i = none) (p : Nat) :
    h.getD p .var = .var := by
  induction h generalizing i p with
  | nil => simp
  | cons x r ih =>
    simp only [firstInstFrom] at hh
    split at hh
    · rename_i hx
      cases p with
      | zero => simpa using hx
      | succ n => simpa using ih (i + 1) hh n
    · simp at hh

theorem firstInst_of_nonvar (h : Head) (hv : argAt h ((firstInst h).getD 0) ≠ .var) :
    firstInst h = some ((firstInst h).getD 0) := by
  cases hf : firstInst h with
  | some p => rfl
  | none => exact absurd (firstInstFrom_none h 0 hf _) hv

theorem merge_chain (m : Mode) (fc : Option CKey) (fs : Option (String × Nat)) (sub : Sub)
    (fa : FirstArg) (id : Nat) : (sub.merge m fc fs fa id).chain = m.extend sub.chain id := by
  cases fa with
  | const l => simp only [Sub.merge]; split <;> rfl
  | _ => rfl

theorem merge_arg (m : Mode) (fc : Option CKey) (fs : Option (String × Nat)) (sub : Sub)
    (fa : FirstArg) (id : Nat) : (sub.merge m fc fs fa id).arg = sub.arg := by
  cases fa with
  | const l => simp only [Sub.merge]; split <;> rfl
  | _ => rfl

theorem standalone_chain (id : Nat) (h : Head) : (standalone id h).chain = [id] := by
  by_cases hv : argAt h ((firstInst h).getD 0) = .var
  · rw [standalone_var id h hv]; rfl
  · rw [standalone_nonvar id h hv]; simp [Seg.chain, merge_chain, emptySub, Mode.extend]

theorem standalone_inv {hd : Nat → Head} {alive : Nat → Bool} (id : Nat) (h : Head)
    (hh : hd id = h) (sub : Sub) (hs : standalone id h = .indexed sub) : SubInv hd alive sub := by
  by_cases hv : argAt h ((firstInst h).getD 0) = .var
  · rw [standalone_var id h hv] at hs; cases hs
  · rw [standalone_nonvar id h hv] at hs
    injection hs with hs
    subst hs
    apply SubInv.merge (emptySub_inv hd alive _)
    · rw [hh]; rfl
    · rw [hh]; exact firstInst_of_nonvar h hv
    · rintro ⟨i, hi, _⟩; simp [emptySub] at hi
    · rintro ⟨i, hi, _⟩; simp [emptySub] at hi


/-! ### adding a clause: generic part -/

/-- the predicate after clause `idx.next` (head `h`) has been stored, with new code `segs`. -/
def Index.add (idx : Index) (h : Head) (segs : List Seg) : Index :=
  { segs := segs, store := (idx.next, h) :: idx.store, dead := idx.dead, next := idx.next + 1 }

/-- the heads after clause `idx.next` with head `h` has been stored. -/
def Index.hdAdd (idx : Index) (h : Head) : Nat → Head :=
  fun i => if i = idx.next then h else idx.hd i

theorem hd_add (idx : Index) (h : Head) (segs : List Seg) : (idx.add h segs).hd = idx.hdAdd h := by
  funext i
  simp only [Index.hd, Index.add, Index.hdAdd, headOf]
  by_cases e : i = idx.next
  · simp [e]
  · have : ¬ idx.next = i := fun e' => e e'.symm
    simp [e, this]

theorem hdAdd_next (idx : Index) (h : Head) : idx.hdAdd h idx.next = h := by simp [Index.hdAdd]

theorem mem_order {idx : Index} {seg : Seg} {i : Nat} (hs : seg ∈ idx.segs) (hi : i ∈ seg.chain) :
    i ∈ idx.order := List.mem_flatMap.2 ⟨seg, hs, hi⟩

theorem Inv.next_not_mem {idx : Index} (inv : Inv idx) : idx.next ∉ idx.order :=
  fun h => Nat.lt_irrefl _ (inv.order_lt _ h)

theorem Inv.alive_next {idx : Index} (inv : Inv idx) : idx.alive idx.next = true := by
  simp only [Index.alive, Bool.not_eq_true', List.contains_eq_mem, decide_eq_false_iff_not]
  exact fun h => Nat.lt_irrefl _ (inv.dead_lt _ h)

theorem Inv.sub_hdAdd {idx : Index} (inv : Inv idx) (h : Head) (sub : Sub)
    (hs : Seg.indexed sub ∈ idx.segs) : SubInv (idx.hdAdd h) idx.alive sub := by
  refine (inv.subs sub hs).congr (fun i hi => ?_) (fun _ _ ha => ha)
  have : i ≠ idx.next := fun e => inv.next_not_mem (e ▸ mem_order hs hi)
  simp [Index.hdAdd, this]

theorem Inv.add {idx : Index} (inv : Inv idx) (h : Head) (segs : List Seg)
    (nd : (segs.flatMap Seg.chain).Nodup)
    (hmem : ∀ i, i ∈ segs.flatMap Seg.chain → i ∈ idx.order ∨ i = idx.next)
    (hsub : ∀ sub, Seg.indexed sub ∈ segs →
      Seg.indexed sub ∈ idx.segs ∨ SubInv (idx.hdAdd h) idx.alive sub) :
    Inv (idx.add h segs) := by
  refine ⟨nd, fun i hi => ?_, fun p hp => ?_, fun i hi => ?_, fun sub hs => ?_⟩
  · show i < idx.next + 1
    rcases hmem i hi with h' | h'
    · exact Nat.lt_succ_of_lt (inv.order_lt i h')
    · omega
  · show p.1 < idx.next + 1
    rcases List.mem_cons.1 hp with h' | h'
    · subst h'; exact Nat.lt_succ_self _
    · exact Nat.lt_succ_of_lt (inv.store_lt p h')
  · exact Nat.lt_succ_of_lt (inv.dead_lt i hi)
  · rw [hd_add]
    show SubInv (idx.hdAdd h) idx.alive sub
    rcases hsub sub hs with h' | h'
    · exact inv.sub_hdAdd h sub h'
    · exact h'

theorem live_add (idx : Index) (h : Head) (segs : List Seg) :
    (idx.add h segs).live = (segs.flatMap Seg.chain).filter idx.alive := rfl

theorem next_add (idx : Index) (h : Head) (segs : List Seg) :
    (idx.add h segs).next = idx.next + 1 := rfl

/-! ### `modifySegOf` -/

theorem modifySegOf_some (t : Nat) (f : Seg → Option Seg) (segs segs' : List Seg)
    (hm : modifySegOf t f segs = some segs') :
    ∃ pre s post s', segs = pre ++ s :: post ∧ (∀ x, x ∈ pre → t ∉ x.chain) ∧ t ∈ s.chain ∧
      f s = some s' ∧ segs' = pre ++ s' :: post := by
  induction segs generalizing segs' with
  | nil => simp [modifySegOf] at hm
  | cons s r ih =>
    simp only [modifySegOf] at hm
    split at hm
    · rename_i hc
      cases hf : f s with
      | none => simp [hf] at hm
      | some s' =>
        simp [hf] at hm
        exact ⟨[], s, r, s', rfl, by simp, by simpa using hc, hf, by simp [hm]⟩
    · rename_i hc
      cases hr : modifySegOf t f r with
      | none => simp [hr] at hm
      | some r' =>
        simp [hr] at hm
        obtain ⟨pre, s0, post, s', e, hpre, ht, hf, e'⟩ := ih r' hr
        refine ⟨s :: pre, s0, post, s', by simp [e], ?_, ht, hf, by simp [← hm, e']⟩
        intro x hx
        rcases List.mem_cons.1 hx with h' | h'
        · subst h'; simpa using hc
        · exact hpre x h'

theorem segOf_split (t : Nat) (pre : List Seg) (s : Seg) (post : List Seg)
    (hpre : ∀ x, x ∈ pre → t ∉ x.chain) (ht : t ∈ s.chain) :
    segOf t (pre ++ s :: post) = some s := by
  induction pre with
  | nil => simp [segOf, ht]
  | cons x r ih =>
    have : t ∉ x.chain := hpre x (by simp)
    simp only [List.cons_append, segOf, List.contains_eq_mem, this, decide_false]
    exact ih (fun y hy => hpre y (by simp [hy]))


/-! ### `search_skeleton_for_first_key_type` -/

theorem searchLit_app (store : List (Nat × Head)) (l1 l2 : List Nat)
    (hex : ∃ i, i ∈ l1 ∧ ∃ p l, (headOf store i).bind optKey = some (p, .const l)) :
    ∃ i, i ∈ l1 ∧ ∃ p l, (headOf store i).bind optKey = some (p, .const l) ∧
      searchLit store (l1 ++ l2) = some l.key := by
  induction l1 with
  | nil => simp at hex
  | cons x r ih =>
    simp only [List.cons_append, searchLit]
    split
    · rename_i p l e; exact ⟨x, by simp, p, l, e, rfl⟩
    · rename_i hno
      obtain ⟨i, hi, p, l, e⟩ := hex
      rcases List.mem_cons.1 hi with h | h
      · subst h; exact absurd e (hno p l)
      · obtain ⟨i', hi', r⟩ := ih ⟨i, h, p, l, e⟩; exact ⟨i', by simp [hi'], r⟩

theorem searchStruct_app (store : List (Nat × Head)) (l1 l2 : List Nat)
    (hex : ∃ i, i ∈ l1 ∧ ∃ p n a, (headOf store i).bind optKey = some (p, .struct n a)) :
    ∃ i, i ∈ l1 ∧ ∃ p n a, (headOf store i).bind optKey = some (p, .struct n a) ∧
      searchStruct store (l1 ++ l2) = some (n, a) := by
  induction l1 with
  | nil => simp at hex
  | cons x r ih =>
    simp only [List.cons_append, searchStruct]
    split
    · rename_i p n a e; exact ⟨x, by simp, p, n, a, e, rfl⟩
    · rename_i hno
      obtain ⟨i, hi, p, n, a, e⟩ := hex
      rcases List.mem_cons.1 hi with h | h
      · subst h; exact absurd e (hno p n a)
      · obtain ⟨i', hi', r⟩ := ih ⟨i, h, p, n, a, e⟩; exact ⟨i', by simp [hi'], r⟩

theorem bind_optKey {idx : Index} {alive : Nat → Bool} {sub : Sub} (inv : SubInv idx.hd alive sub)
    (i : Nat) (hi : i ∈ sub.chain) :
    (headOf idx.store i).bind optKey = some (sub.arg, argAt (idx.hd i) sub.arg) := by
  have := inv.arg i hi
  unfold Index.hd at *
  cases hh : headOf idx.store i with
  | none => simp [hh, firstInst, firstInstFrom] at this
  | some h' =>
    simp only [hh, Option.getD_some] at this
    simp [optKey, this]

theorem foundOK_lit {idx : Index} {sub : Sub} (inv : SubInv idx.hd idx.alive sub) (hd' : Nat → Head)
    (hh : ∀ i, i ∈ sub.chain → hd' i = idx.hd i) (l1 l2 : List Nat)
    (hl1 : ∀ i, i ∈ l1 ↔ i ∈ sub.chain ∧ idx.alive i = true) :
    FoundOK sub.chain idx.alive (fun i => ckeys (argAt (hd' i) sub.arg))
      (searchLit idx.store (l1 ++ l2)) := by
  rintro ⟨i, hi, ha, hk⟩
  simp only [hh i hi] at hk
  have hex : ∃ l, argAt (idx.hd i) sub.arg = .const l := by
    generalize argAt (idx.hd i) sub.arg = fa at hk
    cases fa <;> simp [ckeys] at hk ⊢
  obtain ⟨l, hl⟩ := hex
  obtain ⟨i', hi', p, l', e, es⟩ := searchLit_app idx.store l1 l2
    ⟨i, (hl1 i).2 ⟨hi, ha⟩, sub.arg, l, by rw [bind_optKey inv i hi, hl]⟩
  have hi'' := (hl1 i').1 hi'
  rw [bind_optKey inv i' hi''.1] at e
  simp only [Option.some.injEq, Prod.mk.injEq] at e
  refine ⟨l'.key, es, i', hi''.1, hi''.2, ?_⟩
  simp only [hh i' hi''.1, e.2, ckeys]
  split <;> simp

theorem foundOK_struct {idx : Index} {sub : Sub} (inv : SubInv idx.hd idx.alive sub)
    (hd' : Nat → Head) (hh : ∀ i, i ∈ sub.chain → hd' i = idx.hd i) (l1 l2 : List Nat)
    (hl1 : ∀ i, i ∈ l1 ↔ i ∈ sub.chain ∧ idx.alive i = true) :
    FoundOK sub.chain idx.alive (fun i => skeys (argAt (hd' i) sub.arg))
      (searchStruct idx.store (l1 ++ l2)) := by
  rintro ⟨i, hi, ha, hk⟩
  simp only [hh i hi] at hk
  have hex : ∃ n a, argAt (idx.hd i) sub.arg = .struct n a := by
    generalize argAt (idx.hd i) sub.arg = fa at hk
    cases fa <;> simp [skeys] at hk ⊢
  obtain ⟨n, a, hl⟩ := hex
  obtain ⟨i', hi', p, n', a', e, es⟩ := searchStruct_app idx.store l1 l2
    ⟨i, (hl1 i).2 ⟨hi, ha⟩, sub.arg, n, a, by rw [bind_optKey inv i hi, hl]⟩
  have hi'' := (hl1 i').1 hi'
  rw [bind_optKey inv i' hi''.1] at e
  simp only [Option.some.injEq, Prod.mk.injEq] at e
  refine ⟨(n', a'), es, i', hi''.1, hi''.2, ?_⟩
  simp [hh i' hi''.1, e.2, skeys]


/-! ### adding a clause to the subsequence of an existing clause -/

/-- the function `addBack`/`addFront` hand to `modifySegOf`. -/
def mergeF (idx : Index) (h : Head) (m : Mode) (skel : List Nat) : Seg → Option Seg := fun seg =>
  match seg, optKey h with
  | .indexed sub, some (p, fa) =>
    if sub.arg = p then
      some (.indexed (sub.merge m (searchLit idx.store skel) (searchStruct idx.store skel) fa idx.next))
    else none
  | _, _ => none

theorem addBack_eq (idx : Index) (h : Head) : addBack idx h =
    match idx.live.getLast? with
    | none => idx.add h [standalone idx.next h]
    | some t =>
      match modifySegOf t (mergeF idx h .append
        (((((segOf t idx.segs).map Seg.chain).getD []).filter idx.alive).reverse ++ idx.dead))
        idx.segs with
      | some segs => idx.add h segs
      | none => idx.add h (idx.segs ++ [standalone idx.next h]) := by
  rfl

theorem addFront_eq (idx : Index) (h : Head) : addFront idx h =
    match idx.live.head? with
    | none => idx.add h [standalone idx.next h]
    | some t =>
      match modifySegOf t (mergeF idx h .prepend (idx.live ++ idx.dead)) idx.segs with
      | some segs => idx.add h segs
      | none => idx.add h (standalone idx.next h :: idx.segs) := by
  rfl

theorem mergeF_some {idx : Index} {h : Head} {m : Mode} {skel : List Nat} {s s' : Seg}
    (hf : mergeF idx h m skel s = some s') :
    ∃ sub, s = .indexed sub ∧ firstInst h = some sub.arg ∧
      s' = .indexed (sub.merge m (searchLit idx.store skel) (searchStruct idx.store skel)
        (argAt h sub.arg) idx.next) := by
  unfold mergeF at hf
  split at hf
  · rename_i sub p fa hk
    split at hf
    · rename_i hp
      simp only [Option.some.injEq] at hf
      unfold optKey at hk
      cases hfi : firstInst h with
      | none => simp [hfi] at hk
      | some q =>
        simp only [hfi, Option.some.injEq, Prod.mk.injEq] at hk
        obtain ⟨rfl, rfl⟩ := hk
        subst hp
        exact ⟨sub, rfl, rfl, hf.symm⟩
    · simp at hf
  · simp at hf


theorem nodup_extend (m : Mode) (a b c : List Nat) (x : Nat) (nd : (a ++ (b ++ c)).Nodup)
    (hx : x ∉ a ++ (b ++ c)) : (a ++ (m.extend b x ++ c)).Nodup := by
  simp only [List.mem_append, not_or] at hx
  cases m
  · simp only [Mode.extend]
    simp only [List.nodup_append, List.mem_append, List.nodup_cons, List.mem_cons] at nd ⊢
    grind
  · simp only [Mode.extend]
    simp only [List.nodup_append, List.mem_append, List.nodup_cons, List.mem_cons, List.cons_append] at nd ⊢
    grind

theorem order_split {idx : Index} {pre post : List Seg} {s : Seg}
    (hsegs : idx.segs = pre ++ s :: post) :
    idx.order = pre.flatMap Seg.chain ++ (s.chain ++ post.flatMap Seg.chain) := by
  simp [Index.order, hsegs]

theorem Inv.add_merge {idx : Index} (inv : Inv idx) (h : Head) (m : Mode) (pre : List Seg)
    (sub : Sub) (post : List Seg) (fc : Option CKey) (fs : Option (String × Nat))
    (hsegs : idx.segs = pre ++ Seg.indexed sub :: post)
    (harg : firstInst h = some sub.arg)
    (hC : FoundOK sub.chain idx.alive (fun i => ckeys (argAt (idx.hdAdd h i) sub.arg)) fc)
    (hS : FoundOK sub.chain idx.alive (fun i => skeys (argAt (idx.hdAdd h i) sub.arg)) fs) :
    Inv (idx.add h (pre ++ Seg.indexed (sub.merge m fc fs (argAt h sub.arg) idx.next) :: post)) := by
  have hord := order_split hsegs
  have hmemsub : Seg.indexed sub ∈ idx.segs := by simp [hsegs]
  apply inv.add
  · have nd := inv.nodup
    have hn := inv.next_not_mem
    rw [hord] at nd hn
    simpa [Seg.chain, merge_chain] using nodup_extend m _ _ _ _ nd hn
  · intro i hi
    rw [hord]
    simp only [List.flatMap_append, List.flatMap_cons, Seg.chain, merge_chain, List.mem_append,
      Mode.mem_extend] at hi ⊢
    grind
  · intro s hs
    simp only [List.mem_append, List.mem_cons] at hs
    rcases hs with hs | hs | hs
    · exact Or.inl (by simp [hsegs, hs])
    · right
      injection hs with hs
      subst hs
      apply SubInv.merge (inv.sub_hdAdd h sub hmemsub)
      · rw [hdAdd_next]
      · rw [hdAdd_next]; exact harg
      · exact hC
      · exact hS
    · exact Or.inl (by simp [hsegs, hs])

theorem live_add_merge (idx : Index) (h : Head) (m : Mode) (pre : List Seg)
    (sub : Sub) (post : List Seg) (fc : Option CKey) (fs : Option (String × Nat)) (fa : FirstArg) :
    (idx.add h (pre ++ Seg.indexed (sub.merge m fc fs fa idx.next) :: post)).live =
      (pre.flatMap Seg.chain).filter idx.alive ++
        ((m.extend sub.chain idx.next).filter idx.alive ++
          (post.flatMap Seg.chain).filter idx.alive) := by
  simp [live_add, Seg.chain, merge_chain]

theorem live_split {idx : Index} {pre post : List Seg} {s : Seg}
    (hsegs : idx.segs = pre ++ s :: post) :
    idx.live = (pre.flatMap Seg.chain).filter idx.alive ++
        (s.chain.filter idx.alive ++ (post.flatMap Seg.chain).filter idx.alive) := by
  simp [Index.live, order_split hsegs]

theorem last_in_mid {a b c : List Nat} {t : Nat} (nd : (a ++ (b ++ c)).Nodup)
    (hl : (a ++ (b ++ c)).getLast? = some t) (ht : t ∈ b) : c = [] := by
  cases c with
  | nil => rfl
  | cons x r =>
    exfalso
    have h1 : t ∈ x :: r := by
      have : (a ++ (b ++ x :: r)).getLast? = (x :: r).getLast? := by
        simp only [List.getLast?_append]
        cases h : (x :: r).getLast? with
        | none => simp at h
        | some y => simp
      rw [this] at hl
      exact List.mem_of_getLast? hl
    simp only [List.nodup_append] at nd
    exact nd.2.1.2.2 t ht t h1 rfl

theorem first_in_mid {a b c : List Nat} {t : Nat} (nd : (a ++ (b ++ c)).Nodup)
    (hl : (a ++ (b ++ c)).head? = some t) (ht : t ∈ b) : a = [] := by
  cases a with
  | nil => rfl
  | cons x r =>
    exfalso
    simp only [List.cons_append, List.head?_cons, Option.some.injEq] at hl
    subst hl
    simp only [List.cons_append, List.nodup_cons, List.mem_append, not_or] at nd
    exact nd.1.2.1 ht


theorem Inv.hdAdd_agree {idx : Index} (inv : Inv idx) (h : Head) (sub : Sub)
    (hs : Seg.indexed sub ∈ idx.segs) : ∀ i, i ∈ sub.chain → idx.hdAdd h i = idx.hd i := by
  intro i hi
  have : i ≠ idx.next := fun e => inv.next_not_mem (e ▸ mem_order hs hi)
  simp [Index.hdAdd, this]

/-! ### `assertz` -/

theorem addBack_spec {idx : Index} (inv : Inv idx) (h : Head) :
    Inv (addBack idx h) ∧ (addBack idx h).live = idx.live ++ [idx.next] := by
  rw [addBack_eq]
  split
  · rename_i hl
    have hlive : idx.live = [] := by simpa using hl
    refine ⟨?_, ?_⟩
    · apply inv.add
      · simp [standalone_chain]
      · intro i hi; simp [standalone_chain] at hi; exact Or.inr hi
      · intro sub hs
        simp only [List.mem_singleton] at hs
        exact Or.inr (standalone_inv idx.next h (hdAdd_next idx h) sub hs.symm)
    · simp [live_add, standalone_chain, hlive, inv.alive_next]
  · rename_i t hl
    have htl : t ∈ idx.live := List.mem_of_getLast? hl
    split
    · rename_i segs hm
      obtain ⟨pre, s, post, s', hsegs, hpre, ht, hf, rfl⟩ := modifySegOf_some _ _ _ _ hm
      obtain ⟨sub, rfl, harg, rfl⟩ := mergeF_some hf
      have hso : segOf t idx.segs = some (.indexed sub) := by
        rw [hsegs]; exact segOf_split t pre _ post hpre ht
      simp only [hso, Option.map_some, Option.getD_some, Seg.chain]
      have hsubmem : Seg.indexed sub ∈ idx.segs := by simp [hsegs]
      have hsi := inv.subs sub hsubmem
      have hagree := inv.hdAdd_agree h sub hsubmem
      have hl1 : ∀ i, i ∈ (sub.chain.filter idx.alive).reverse ↔ i ∈ sub.chain ∧ idx.alive i = true := by
        intro i; simp
      refine ⟨inv.add_merge h .append pre sub post _ _ hsegs harg
        (foundOK_lit hsi _ hagree _ _ hl1) (foundOK_struct hsi _ hagree _ _ hl1), ?_⟩
      rw [live_add_merge]
      have hls := live_split hsegs
      have hnd := inv.live_nodup
      rw [hls] at hnd hl
      have hC := last_in_mid hnd hl
        (List.mem_filter.2 ⟨ht, (List.mem_filter.1 htl).2⟩)
      rw [hls]
      simp [Seg.chain, Mode.extend, List.filter_append, inv.alive_next, hC]
    · refine ⟨?_, ?_⟩
      · apply inv.add
        · have := inv.nodup
          have hn := inv.next_not_mem
          unfold Index.order at this hn
          simp [List.nodup_append, standalone_chain, this]
          intro a s hs ha e
          exact hn (List.mem_flatMap.2 ⟨s, hs, e ▸ ha⟩)
        · intro i hi
          simp [standalone_chain] at hi
          rcases hi with ⟨s, hs, hi⟩ | hi
          · exact Or.inl (mem_order hs hi)
          · exact Or.inr hi
        · intro sub hs
          simp only [List.mem_append, List.mem_singleton] at hs
          rcases hs with hs | hs
          · exact Or.inl hs
          · exact Or.inr (standalone_inv idx.next h (hdAdd_next idx h) sub hs.symm)
      · rw [live_add]
        simp [standalone_chain, Index.live, Index.order, List.filter_append, inv.alive_next]


/-! ### `asserta` -/

theorem addFront_spec {idx : Index} (inv : Inv idx) (h : Head) :
    Inv (addFront idx h) ∧ (addFront idx h).live = idx.next :: idx.live := by
  rw [addFront_eq]
  split
  · rename_i hl
    have hlive : idx.live = [] := by simpa using hl
    refine ⟨?_, ?_⟩
    · apply inv.add
      · simp [standalone_chain]
      · intro i hi; simp [standalone_chain] at hi; exact Or.inr hi
      · intro sub hs
        simp only [List.mem_singleton] at hs
        exact Or.inr (standalone_inv idx.next h (hdAdd_next idx h) sub hs.symm)
    · simp [live_add, standalone_chain, hlive, inv.alive_next]
  · rename_i t hl
    have htl : t ∈ idx.live := List.mem_of_head? hl
    split
    · rename_i segs hm
      obtain ⟨pre, s, post, s', hsegs, hpre, ht, hf, rfl⟩ := modifySegOf_some _ _ _ _ hm
      obtain ⟨sub, rfl, harg, rfl⟩ := mergeF_some hf
      have hsubmem : Seg.indexed sub ∈ idx.segs := by simp [hsegs]
      have hsi := inv.subs sub hsubmem
      have hagree := inv.hdAdd_agree h sub hsubmem
      have hl1 : ∀ i, i ∈ sub.chain.filter idx.alive ↔ i ∈ sub.chain ∧ idx.alive i = true := by
        intro i; simp
      have hls := live_split hsegs
      have hnd := inv.live_nodup
      have hl' := hl
      rw [hls] at hnd hl'
      have hA := first_in_mid hnd hl' (List.mem_filter.2 ⟨ht, (List.mem_filter.1 htl).2⟩)
      have hskel : idx.live ++ idx.dead = sub.chain.filter idx.alive ++
          ((post.flatMap Seg.chain).filter idx.alive ++ idx.dead) := by
        rw [hls, hA]; simp [Seg.chain]
      rw [hskel]
      refine ⟨inv.add_merge h .prepend pre sub post _ _ hsegs harg
        (foundOK_lit hsi _ hagree _ _ hl1) (foundOK_struct hsi _ hagree _ _ hl1), ?_⟩
      rw [live_add_merge, hls, hA]
      simp [Seg.chain, Mode.extend, inv.alive_next]
    · refine ⟨?_, ?_⟩
      · apply inv.add
        · have := inv.nodup
          have hn := inv.next_not_mem
          unfold Index.order at this hn
          simp [standalone_chain, this]
          intro s hs e
          exact hn (List.mem_flatMap.2 ⟨s, hs, e⟩)
        · intro i hi
          simp [standalone_chain] at hi
          rcases hi with hi | ⟨s, hs, hi⟩
          · exact Or.inr hi
          · exact Or.inl (mem_order hs hi)
        · intro sub hs
          simp only [List.mem_cons] at hs
          rcases hs with hs | hs
          · exact Or.inr (standalone_inv idx.next h (hdAdd_next idx h) sub hs.symm)
          · exact Or.inl hs
      · rw [live_add]
        simp [standalone_chain, Index.live, Index.order, inv.alive_next]

/-! ### the theorems -/

theorem Inv.addBack {idx : Index} (inv : Inv idx) (h : Head) : Inv (addBack idx h) :=
  (addBack_spec inv h).1

theorem Inv.addFront {idx : Index} (inv : Inv idx) (h : Head) : Inv (addFront idx h) :=
  (addFront_spec inv h).1

theorem live_addBack {idx : Index} (inv : Inv idx) (h : Head) :
    (addBack idx h).live = idx.live ++ [idx.next] := (addBack_spec inv h).2

theorem live_addFront {idx : Index} (inv : Inv idx) (h : Head) :
    (addFront idx h).live = idx.next :: idx.live := (addFront_spec inv h).2

theorem addBack_is_add (idx : Index) (h : Head) : ∃ segs, addBack idx h = idx.add h segs := by
  rw [addBack_eq]
  split
  · exact ⟨_, rfl⟩
  · split <;> exact ⟨_, rfl⟩

theorem addFront_is_add (idx : Index) (h : Head) : ∃ segs, addFront idx h = idx.add h segs := by
  rw [addFront_eq]
  split
  · exact ⟨_, rfl⟩
  · split <;> exact ⟨_, rfl⟩

theorem hd_addBack' (idx : Index) (h : Head) (id : Nat) :
    (addBack idx h).hd id = if id = idx.next then h else idx.hd id := by
  obtain ⟨segs, e⟩ := addBack_is_add idx h
  rw [e, hd_add]; rfl

theorem hd_addFront' (idx : Index) (h : Head) (id : Nat) :
    (addFront idx h).hd id = if id = idx.next then h else idx.hd id := by
  obtain ⟨segs, e⟩ := addFront_is_add idx h
  rw [e, hd_add]; rfl

theorem hd_addBack {idx : Index} (_inv : Inv idx) (h : Head) (id : Nat) :
    (addBack idx h).hd id = if id = idx.next then h else idx.hd id := hd_addBack' idx h id

theorem hd_addFront {idx : Index} (_inv : Inv idx) (h : Head) (id : Nat) :
    (addFront idx h).hd id = if id = idx.next then h else idx.hd id := hd_addFront' idx h id

theorem next_addBack (idx : Index) (h : Head) : (addBack idx h).next = idx.next + 1 := by
  obtain ⟨segs, e⟩ := addBack_is_add idx h
  rw [e]; rfl

theorem next_addFront (idx : Index) (h : Head) : (addFront idx h).next = idx.next + 1 := by
  obtain ⟨segs, e⟩ := addFront_is_add idx h
  rw [e]; rfl

theorem inv_empty : Inv (build true []) := by
  refine ⟨?_, ?_, ?_, ?_, ?_⟩ <;> simp [build, split, splitGo, enumFrom', Index.order]

theorem live_empty : (build true []).live = [] := by
  simp [build, split, splitGo, Index.live, Index.order]


/-! ### histories -/

/-- an update of a dynamic predicate. -/
inductive Op where
  | assertz (h : Head)
  | asserta (h : Head)
  | retract (id : Nat)
  deriving Repr

def Op.apply (idx : Index) : Op → Index
  | .assertz h => addBack idx h
  | .asserta h => addFront idx h
  | .retract id => remove idx id

/-- the index of a dynamic predicate after a history of updates, starting from no clauses. -/
def run (ops : List Op) : Index := ops.foldl Op.apply (build true [])

theorem Inv.apply {idx : Index} (inv : Inv idx) (op : Op) : Inv (op.apply idx) := by
  cases op with
  | assertz h => exact inv.addBack h
  | asserta h => exact inv.addFront h
  | retract id => exact inv.remove id

theorem inv_foldl (ops : List Op) (idx : Index) (inv : Inv idx) : Inv (ops.foldl Op.apply idx) := by
  induction ops generalizing idx with
  | nil => exact inv
  | cons op r ih => exact ih _ (inv.apply op)

theorem inv_run (ops : List Op) : Inv (run ops) := inv_foldl ops _ inv_empty

/-- after any history of assertz/asserta/retract, what the index hands over, filtered by head
unification, is exactly the live clauses whose head unifies, in order. -/
theorem run_select_exact (ops : List Op) (call : Call) (wf : CallWF call) :
    (select (run ops) call).filter (fun id => compatHead ((run ops).hd id) call)
      = (run ops).live.filter (fun id => compatHead ((run ops).hd id) call) :=
  (inv_run ops).select_exact call wf

end Scryer.Index
