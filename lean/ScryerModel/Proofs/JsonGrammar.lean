import ScryerModel.Proofs.Json
/-! The declarative reading of the DCG of `json.pl` (one relation per nonterminal, mirroring the
    clauses) and the proof that the deterministic parser of `Model/Json.lean` accepts exactly this
    language with exactly these values. -/
namespace Scryer.Json

/-! ## the grammar -/

/-- `json_ws//0`: any run of space, newline, carriage return, tab -/
def Ws (w : List Char) : Prop := ∀ c ∈ w, isWs c = true

/-- `json_character//1` (three clauses), plus the UTF-16 surrogate pair of RFC 8259 §7 -/
def GChar (c : Char) (t : List Char) : Prop :=
  (∃ p, escapeOf c = some p ∧ t = ['\\', p]) ∨
  (c ≠ '\\' ∧ c ≠ '"' ∧ 32 ≤ c.toNat ∧ t = [c]) ∨
  (∃ a b x d n, hex4 a b x d = some n ∧ isHighSurr n = false ∧ isLowSurr n = false ∧
      c = Char.ofNat n ∧ t = ['\\', 'u', a, b, x, d]) ∨
  (∃ a b x d a' b' x' d' hi lo, hex4 a b x d = some hi ∧ isHighSurr hi = true ∧
      hex4 a' b' x' d' = some lo ∧ isLowSurr lo = true ∧
      c = Char.ofNat (surrPair hi lo) ∧ t = ['\\', 'u', a, b, x, d, '\\', 'u', a', b', x', d'])

/-- `json_characters//1` -/
def GChars : List Char → List Char → Prop
  | [], t => t = []
  | c :: cs, t => ∃ t1 t2, GChar c t1 ∧ GChars cs t2 ∧ t = t1 ++ t2

/-- `json_fraction//1` -/
def GFrac (frac : Option (List Char)) (t : List Char) : Prop :=
  (frac = none ∧ t = []) ∨ (∃ fds, frac = some fds ∧ allDigits fds ∧ fds ≠ [] ∧ t = '.' :: fds)

/-- `json_exponent//1` with `json_sign//1` -/
def GExp (ex : Int) (t : List Char) : Prop :=
  (ex = 0 ∧ t = []) ∨
  (∃ e sg eds, (e = 'e' ∨ e = 'E') ∧ allDigits eds ∧ eds ≠ [] ∧
    ((sg = [] ∧ ex = (digitsVal eds : Int)) ∨ (sg = ['+'] ∧ ex = (digitsVal eds : Int)) ∨
      (sg = ['-'] ∧ ex = -(digitsVal eds : Int))) ∧
    t = e :: (sg ++ eds))

/-- `json_number//1` (parsing branch): sign, integer part without leading zero, fraction,
    exponent; the value is the library's `Number is …` clause (`mkNum`). -/
def GNum (n : Num) (t : List Char) : Prop :=
  ∃ neg ids frac ft ex et, allDigits ids ∧ intOk ids = true ∧ GFrac frac ft ∧ GExp ex et ∧
    n = mkNum neg ids frac ex ∧ t = (if neg then ['-'] else []) ++ (ids ++ (ft ++ et))

mutual
  /-- `json_value//1` -/
  def GVal : J → List Char → Prop
    | .null, t => t = ['n', 'u', 'l', 'l']
    | .bool true, t => t = ['t', 'r', 'u', 'e']
    | .bool false, t => t = ['f', 'a', 'l', 's', 'e']
    | .num n, t => GNum n t
    | .str cs, t => ∃ b, GChars cs b ∧ t = '"' :: (b ++ ['"'])
    | .arr xs, t => (xs = .nil ∧ ∃ w, Ws w ∧ t = '[' :: (w ++ [']'])) ∨
        (∃ b, GL xs b ∧ t = '[' :: (b ++ [']']))
    | .obj ms, t => (ms = .nil ∧ ∃ w, Ws w ∧ t = '{' :: (w ++ ['}'])) ∨
        (∃ b, GM ms b ∧ t = '{' :: (b ++ ['}']))
  /-- `json_elements//2`: elements (`json_element//1` = ws value ws) separated by commas -/
  def GL : JL → List Char → Prop
    | .nil, _ => False
    | .cons x xs, t => ∃ w1 tv w2 tr, Ws w1 ∧ GVal x tv ∧ Ws w2 ∧
        ((xs = .nil ∧ tr = []) ∨ (∃ b, GL xs b ∧ tr = ',' :: b)) ∧
        t = w1 ++ (tv ++ (w2 ++ tr))
  /-- `json_members//2`: members (`json_member//2` = ws string ws ":" element) separated by commas -/
  def GM : JM → List Char → Prop
    | .nil, _ => False
    | .cons k v ms, t => ∃ w1 kb w2 w3 tv w4 tr, Ws w1 ∧ GChars k kb ∧ Ws w2 ∧ Ws w3 ∧ GVal v tv ∧ Ws w4 ∧
        ((ms = .nil ∧ tr = []) ∨ (∃ b, GM ms b ∧ tr = ',' :: b)) ∧
        t = w1 ++ ('"' :: (kb ++ ('"' :: (w2 ++ (':' :: (w3 ++ (tv ++ (w4 ++ tr))))))))
end

/-- `json_chars//1` = `json_element//1`: white space, a value, white space -/
def Doc (v : J) (s : List Char) : Prop := ∃ w1 t w2, Ws w1 ∧ GVal v t ∧ Ws w2 ∧ s = w1 ++ (t ++ w2)

/-! ## white space -/

theorem Ws.nil : Ws [] := fun _ h => by cases h

theorem Ws.tail {c : Char} {w : List Char} (h : Ws (c :: w)) : Ws w := fun d hd => h d (by simp [hd])

theorem skipWs_ws_append : ∀ (w r : List Char), Ws w → skipWs (w ++ r) = skipWs r
  | [], r, _ => rfl
  | c :: w, r, h => by
    have hc : isWs c = true := h c (by simp)
    simp only [List.cons_append, skipWs, hc, if_true]
    exact skipWs_ws_append w r h.tail

theorem skipWs_ws (w : List Char) (h : Ws w) : skipWs w = [] := by
  have := skipWs_ws_append w [] h
  simpa [skipWs] using this

/-- `skipWs` removes a run of white space -/
theorem skipWs_split : ∀ (s : List Char), ∃ w, Ws w ∧ s = w ++ skipWs s
  | [] => ⟨[], Ws.nil, rfl⟩
  | c :: r => by
    simp only [skipWs]
    split
    · rename_i hc
      obtain ⟨w, hw, hs⟩ := skipWs_split r
      refine ⟨c :: w, ?_, by rw [List.cons_append, ← hs]⟩
      intro d hd
      simp only [List.mem_cons] at hd
      rcases hd with hd | hd
      · subst hd; exact hc
      · exact hw d hd
    · exact ⟨[], Ws.nil, rfl⟩

/-- what may follow a value: the end, white space, a comma or a closing bracket -/
def valFollow : List Char → Prop
  | [] => True
  | c :: _ => isWs c = true ∨ c = ',' ∨ c = ']' ∨ c = '}'

theorem valFollow.num {r : List Char} (h : valFollow r) : numFollow r := by
  cases r with
  | nil => trivial
  | cons c r =>
    simp only [valFollow] at h
    simp only [numFollow]
    rcases h with h | h | h | h
    · simp only [isWs, Bool.or_eq_true, beq_iff_eq] at h
      rcases h with ((h | h) | h) | h <;> subst h <;> decide
    · subst h; decide
    · subst h; decide
    · subst h; decide

theorem valFollow_ws_append {w r : List Char} (hw : Ws w) (hr : valFollow r) : valFollow (w ++ r) := by
  cases w with
  | nil => exact hr
  | cons c w => exact Or.inl (hw c (by simp))


/-! ## strings: the parser accepts exactly `GChars` -/

theorem unescapeOf_some {p e : Char} (h : unescapeOf p = some e) : escapeOf e = some p := by
  unfold unescapeOf at h
  repeat' split at h
  all_goals cases h
  all_goals (subst_vars; decide)

theorem parseChars_gchar {c : Char} {t : List Char} (h : GChar c t) (r : List Char) :
    parseChars (t ++ r) = consRes c (parseChars r) := by
  rcases h with h | h | h | h
  · obtain ⟨p, hp, rfl⟩ := h
    obtain ⟨h1, h2⟩ := escapeOf_some hp
    exact parseChars_cons_esc h2 h1
  · obtain ⟨h1, h2, h3, rfl⟩ := h
    exact parseChars_cons_raw h2 h1 (by omega)
  · obtain ⟨a, b, x, d, n, hx, hh, hl, rfl, rfl⟩ := h
    exact parseChars_cons_u hx hl hh
  · obtain ⟨a, b, x, d, h⟩ := h
    obtain ⟨a', b', x', d', h⟩ := h
    obtain ⟨hi, h⟩ := h
    obtain ⟨lo, h⟩ := h
    obtain ⟨h1, hh, h2, hl, hc, ht⟩ := h
    rw [hc, ht]
    exact parseChars_pair h1 hh h2 hl

theorem parseChars_complete : ∀ (cs b rest : List Char), GChars cs b →
    parseChars (b ++ '"' :: rest) = some (cs, rest)
  | [], b, rest, h => by
    simp only [GChars] at h; subst h; exact parseChars_quote rest
  | c :: cs, b, rest, h => by
    obtain ⟨t1, t2, h1, h2, rfl⟩ := h
    rw [List.append_assoc, parseChars_gchar h1, parseChars_complete cs t2 rest h2]
    rfl

theorem parseChars_sound (s : List Char) : ∀ cs r, parseChars s = some (cs, r) →
    ∃ b, GChars cs b ∧ s = b ++ '"' :: r := by
  fun_induction parseChars s <;> intro cs r h <;> simp_all
  case case2 => simp [GChars]
  case case7 a b c2 d hi hx b1 u1 a' b' c' d' r3 lo cs' rest' hnl hh hbu hx' hl hp ih =>
    obtain ⟨bb, hb, hr⟩ := ih
    obtain ⟨rfl, rfl⟩ := h
    obtain ⟨rfl, rfl⟩ := hbu
    refine ⟨['\\', 'u', a, b, c2, d, '\\', 'u', a', b', c', d'] ++ bb, ⟨_, bb, ?_, hb, rfl⟩, by simp [hr]⟩
    exact Or.inr (Or.inr (Or.inr ⟨a, b, c2, d, a', b', c', d', hi, lo, hx, hh, hx', hl, rfl, rfl⟩))
  case case12 a b c2 d r2 n hx cs' rest' hl hh hp ih =>
    obtain ⟨bb, hb, hr⟩ := ih
    obtain ⟨rfl, rfl⟩ := h
    refine ⟨['\\', 'u', a, b, c2, d] ++ bb, ⟨_, bb, ?_, hb, rfl⟩, by simp [hr]⟩
    exact Or.inr (Or.inr (Or.inl ⟨a, b, c2, d, n, hx, hh, hl, rfl, rfl⟩))
  case case16 p r1 hp e he cs' rest' hpc ih =>
    obtain ⟨bb, hb, hr⟩ := ih
    obtain ⟨rfl, rfl⟩ := h
    refine ⟨['\\', p] ++ bb, ⟨_, bb, ?_, hb, rfl⟩, by simp [hr]⟩
    exact Or.inl ⟨p, unescapeOf_some he, rfl⟩
  case case19 c r1 h1 h2 cs' rest' h3 hpc ih =>
    obtain ⟨bb, hb, hr⟩ := ih
    obtain ⟨rfl, rfl⟩ := h
    refine ⟨[c] ++ bb, ⟨_, bb, ?_, hb, rfl⟩, by simp [hr]⟩
    exact Or.inr (Or.inl ⟨h2, h1, h3, rfl⟩)



/-! ## numbers: the parser accepts exactly `GNum` -/

theorem noDigitHead_of_ne {c : Char} {r : List Char} (h : isDigit c = false) : noDigitHead (c :: r) := h

theorem GExp.noDigit {ex : Int} {et rest : List Char} (h : GExp ex et) (hr : numFollow rest) :
    noDigitHead (et ++ rest) ∧ (∀ c r, et ++ rest = c :: r → c ≠ '.') := by
  rcases h with ⟨_, rfl⟩ | ⟨e, sg, eds, he, _, _, _, rfl⟩
  · refine ⟨hr.noDigit, ?_⟩
    intro c r h
    simp only [List.nil_append] at h
    subst h
    exact hr.2.1
  · constructor
    · rcases he with rfl | rfl <;> (simp only [List.cons_append, noDigitHead]; decide)
    · intro c r h
      simp only [List.cons_append, List.cons.injEq] at h
      rcases he with rfl | rfl <;> (rw [← h.1]; decide)

theorem parseExp_complete {ex : Int} {et rest : List Char} (h : GExp ex et) (hr : numFollow rest) :
    parseExp (et ++ rest) = some (ex, rest) := by
  rcases h with ⟨rfl, rfl⟩ | ⟨e, sg, eds, he, hd, hne, hv, rfl⟩
  · exact parseExp_follow hr
  · have hs : spanDigits (eds ++ rest) = (eds, rest) := spanDigits_append _ _ hd hr.noDigit
    have hee : (e = 'e' ∨ e = 'E') := he
    cases eds with
    | nil => exact absurd rfl hne
    | cons d ds =>
      have hdd : isDigit d = true := hd d (by simp)
      rcases hv with ⟨rfl, rfl⟩ | ⟨rfl, rfl⟩ | ⟨rfl, rfl⟩
      · have ho : optSign ((d :: ds) ++ rest) = (false, (d :: ds) ++ rest) := optSign_digits hdd
        simp only [List.cons_append, List.nil_append] at ho hs ⊢
        simp [parseExp, hee, ho, hs]
      · have ho : optSign ('+' :: ((d :: ds) ++ rest)) = (false, (d :: ds) ++ rest) := by
          simp [optSign]
        simp only [List.cons_append, List.nil_append] at ho hs ⊢
        simp [parseExp, hee, ho, hs]
      · have ho : optSign ('-' :: ((d :: ds) ++ rest)) = (true, (d :: ds) ++ rest) := by
          simp [optSign]
        simp only [List.cons_append, List.nil_append] at ho hs ⊢
        simp [parseExp, hee, ho, hs]

theorem parseFrac_complete {frac : Option (List Char)} {ft et rest : List Char} {ex : Int}
    (h : GFrac frac ft) (he : GExp ex et) (hr : numFollow rest) :
    parseFrac (ft ++ (et ++ rest)) = some (frac, et ++ rest) := by
  obtain ⟨hnd, hdot⟩ := he.noDigit hr
  rcases h with ⟨rfl, rfl⟩ | ⟨fds, rfl, hd, hne, rfl⟩
  · simp only [List.nil_append]
    cases hx : et ++ rest with
    | nil => rfl
    | cons c r => simp [parseFrac, hdot c r hx]
  · have hs : spanDigits (fds ++ (et ++ rest)) = (fds, et ++ rest) := spanDigits_append _ _ hd hnd
    simp [parseFrac, hs, hne]

theorem GFrac.noDigit {frac : Option (List Char)} {ft et rest : List Char} {ex : Int}
    (h : GFrac frac ft) (he : GExp ex et) (hr : numFollow rest) : noDigitHead (ft ++ (et ++ rest)) := by
  rcases h with ⟨_, rfl⟩ | ⟨fds, _, _, _, rfl⟩
  · exact (he.noDigit hr).1
  · simp only [List.cons_append, noDigitHead]; decide

theorem intOk_cons {ids : List Char} (h : intOk ids = true) (hd : allDigits ids) :
    ∃ c cs, ids = c :: cs ∧ isDigit c = true := by
  cases ids with
  | nil => simp [intOk] at h
  | cons c cs => exact ⟨c, cs, rfl, hd c (by simp)⟩

theorem parseNumber_complete {n : Num} {t rest : List Char} (h : GNum n t) (hr : numFollow rest) :
    parseNumber (t ++ rest) = some (n, rest) := by
  obtain ⟨neg, ids, frac, ft, ex, et, hd, hok, hf, he, rfl, rfl⟩ := h
  obtain ⟨c, cs, hc, hcd⟩ := intOk_cons hok hd
  have hs : spanDigits (ids ++ (ft ++ (et ++ rest))) = (ids, ft ++ (et ++ rest)) :=
    spanDigits_append _ _ hd (hf.noDigit he hr)
  have hm : optMinus (((if neg then ['-'] else []) ++ (ids ++ (ft ++ et))) ++ rest)
      = (neg, ids ++ (ft ++ (et ++ rest))) := by
    cases neg with
    | true => simp [optMinus]
    | false =>
      simp only [Bool.false_eq_true, if_false, List.nil_append, List.append_assoc]
      rw [hc]
      exact optMinus_digits hcd
  simp only [parseNumber, hm, hs, hok, if_true, parseFrac_complete hf he hr, parseExp_complete he hr]



theorem spanDigits_split : ∀ (s : List Char),
    s = (spanDigits s).1 ++ (spanDigits s).2 ∧ allDigits (spanDigits s).1
  | [] => ⟨rfl, fun _ h => by simp [spanDigits] at h⟩
  | c :: r => by
    obtain ⟨h1, h2⟩ := spanDigits_split r
    simp only [spanDigits]
    split
    · rename_i hc
      refine ⟨by simp only [List.cons_append]; rw [← h1], ?_⟩
      intro d hd
      simp only [List.mem_cons] at hd
      rcases hd with hd | hd
      · subst hd; exact hc
      · exact h2 d hd
    · exact ⟨rfl, fun _ h => by simp at h⟩

theorem optMinus_split (s : List Char) :
    s = (if (optMinus s).1 then ['-'] else []) ++ (optMinus s).2 := by
  cases s with
  | nil => simp [optMinus]
  | cons c r =>
    simp only [optMinus]
    split
    · rename_i h; subst h; simp
    · simp

theorem parseFrac_sound {s r : List Char} {frac : Option (List Char)} (h : parseFrac s = some (frac, r)) :
    ∃ ft, GFrac frac ft ∧ s = ft ++ r := by
  cases s with
  | nil =>
    simp [parseFrac] at h
    obtain ⟨rfl, rfl⟩ := h
    exact ⟨[], Or.inl ⟨rfl, rfl⟩, rfl⟩
  | cons c t =>
    simp only [parseFrac] at h
    obtain ⟨h1, h2⟩ := spanDigits_split t
    split at h
    · rename_i hc
      split at h
      · cases h
      · rename_i hne
        simp at h
        obtain ⟨rfl, rfl⟩ := h
        refine ⟨'.' :: (spanDigits t).1, Or.inr ⟨_, rfl, h2, hne, rfl⟩, ?_⟩
        rw [hc, List.cons_append, ← h1]
    · simp at h
      obtain ⟨rfl, rfl⟩ := h
      exact ⟨[], Or.inl ⟨rfl, rfl⟩, rfl⟩

theorem optSign_split (s : List Char) :
    ((optSign s).1 = false ∧ (s = (optSign s).2 ∨ s = '+' :: (optSign s).2)) ∨
    ((optSign s).1 = true ∧ s = '-' :: (optSign s).2) := by
  cases s with
  | nil => simp [optSign]
  | cons c r =>
    simp only [optSign]
    split
    · rename_i h; subst h; simp
    · split
      · rename_i h; subst h; simp
      · simp

theorem parseExp_sound {s r : List Char} {ex : Int} (h : parseExp s = some (ex, r)) :
    ∃ et, GExp ex et ∧ s = et ++ r := by
  cases s with
  | nil =>
    simp [parseExp] at h
    obtain ⟨rfl, rfl⟩ := h
    exact ⟨[], Or.inl ⟨rfl, rfl⟩, rfl⟩
  | cons c t =>
    simp only [parseExp] at h
    obtain ⟨h1, h2⟩ := spanDigits_split (optSign t).2
    split at h
    · rename_i hc
      split at h
      · cases h
      · rename_i hne
        simp only [Option.some.injEq, Prod.mk.injEq] at h
        obtain ⟨hex, rfl⟩ := h
        rcases optSign_split t with ⟨hs, ht | ht⟩ | ⟨hs, ht⟩
        · refine ⟨c :: ([] ++ (spanDigits (optSign t).2).1), Or.inr ⟨c, [], _, hc, h2, hne, Or.inl ⟨rfl, ?_⟩, rfl⟩, ?_⟩
          · rw [← hex, hs]; simp
          · simp only [List.nil_append, List.cons_append]; rw [← h1, ← ht]
        · refine ⟨c :: (['+'] ++ (spanDigits (optSign t).2).1), Or.inr ⟨c, ['+'], _, hc, h2, hne, Or.inr (Or.inl ⟨rfl, ?_⟩), rfl⟩, ?_⟩
          · rw [← hex, hs]; simp
          · simp only [List.cons_append, List.nil_append]; rw [← h1, ← ht]
        · refine ⟨c :: (['-'] ++ (spanDigits (optSign t).2).1), Or.inr ⟨c, ['-'], _, hc, h2, hne, Or.inr (Or.inr ⟨rfl, ?_⟩), rfl⟩, ?_⟩
          · rw [← hex, hs]; simp
          · simp only [List.cons_append, List.nil_append]; rw [← h1, ← ht]
    · simp at h
      obtain ⟨rfl, rfl⟩ := h
      exact ⟨[], Or.inl ⟨rfl, rfl⟩, rfl⟩

theorem parseNumber_sound {s r : List Char} {n : Num} (h : parseNumber s = some (n, r)) :
    ∃ t, GNum n t ∧ s = t ++ r := by
  simp only [parseNumber] at h
  obtain ⟨h1, h2⟩ := spanDigits_split (optMinus s).2
  have h0 := optMinus_split s
  split at h
  · rename_i hok
    split at h
    · cases h
    · rename_i frac s3 hfr
      split at h
      · cases h
      · rename_i ex s4 hex
        simp only [Option.some.injEq, Prod.mk.injEq] at h
        obtain ⟨rfl, rfl⟩ := h
        obtain ⟨ft, hft, hs3⟩ := parseFrac_sound hfr
        obtain ⟨et, het, hs4⟩ := parseExp_sound hex
        refine ⟨(if (optMinus s).1 then ['-'] else []) ++ ((spanDigits (optMinus s).2).1 ++ (ft ++ et)),
          ⟨_, _, frac, ft, ex, et, h2, hok, hft, het, rfl, rfl⟩, ?_⟩
        conv => lhs; rw [h0, h1, hs3, hs4]
        simp
  · cases h



/-! ## values: completeness (every derivation of the grammar is found by the parser) -/

theorem parseValue_arr_close {f : Nat} {r r1 : List Char} (h : skipWs r = ']' :: r1) :
    parseValue (f + 1) ('[' :: r) = some (.arr .nil, r1) := by
  rw [parseValue.eq_def]
  simp [h]

theorem parseValue_obj_close {f : Nat} {r r1 : List Char} (h : skipWs r = '}' :: r1) :
    parseValue (f + 1) ('{' :: r) = some (.obj .nil, r1) := by
  rw [parseValue.eq_def]
  simp [h]

theorem parseValue_arr_elems {f : Nat} {r r1 : List Char} {d : Char} (h : skipWs r = d :: r1)
    (hd : d ≠ ']') : parseValue (f + 1) ('[' :: r) = mapRes J.arr (parseElems f (d :: r1)) := by
  rw [parseValue.eq_def]
  simp [h, hd]
  cases parseElems f (d :: r1) <;> rfl

theorem parseValue_obj_members {f : Nat} {r r1 : List Char} {d : Char} (h : skipWs r = d :: r1)
    (hd : d ≠ '}') : parseValue (f + 1) ('{' :: r) = mapRes J.obj (parseMembers f (d :: r1)) := by
  rw [parseValue.eq_def]
  simp [h, hd]
  cases parseMembers f (d :: r1) <;> rfl

theorem GNum.head {n : Num} {t : List Char} (h : GNum n t) : ∃ c t', t = c :: t' ∧ numStart c := by
  obtain ⟨neg, ids, frac, ft, ex, et, hd, hok, _, _, _, rfl⟩ := h
  obtain ⟨c, cs, hc, hcd⟩ := intOk_cons hok hd
  cases neg with
  | true => exact ⟨'-', _, rfl, Or.inl rfl⟩
  | false => exact ⟨c, cs ++ (ft ++ et), by simp [hc], Or.inr hcd⟩

theorem GVal.head {v : J} {t : List Char} (h : GVal v t) : ∃ c t', t = c :: t' ∧ startOk c := by
  cases v with
  | null => simp only [GVal] at h; subst h; exact ⟨_, _, rfl, startOk_of_dec (by decide)⟩
  | bool b =>
    cases b <;> (simp only [GVal] at h; subst h; exact ⟨_, _, rfl, startOk_of_dec (by decide)⟩)
  | num n =>
    obtain ⟨c, t', hc, hs⟩ := GNum.head (by simpa [GVal] using h)
    have := numStart_ne hs
    exact ⟨c, t', hc, this.2.2.2.2.2.2.1, this.2.2.2.2.2.2.2.1, this.2.2.2.2.2.2.2.2.1, this.2.2.2.2.2.2.2.2.2⟩
  | str s =>
    simp only [GVal] at h
    obtain ⟨b, _, rfl⟩ := h
    exact ⟨_, _, rfl, startOk_of_dec (by decide)⟩
  | arr xs =>
    simp only [GVal] at h
    rcases h with ⟨_, w, _, rfl⟩ | ⟨b, _, rfl⟩ <;> exact ⟨_, _, rfl, startOk_of_dec (by decide)⟩
  | obj ms =>
    simp only [GVal] at h
    rcases h with ⟨_, w, _, rfl⟩ | ⟨b, _, rfl⟩ <;> exact ⟨_, _, rfl, startOk_of_dec (by decide)⟩

theorem skipWs_ws_val {w tv r : List Char} {v : J} (hw : Ws w) (hv : GVal v tv) :
    skipWs (w ++ (tv ++ r)) = tv ++ r := by
  obtain ⟨c, t', rfl, hs⟩ := hv.head
  rw [skipWs_ws_append w _ hw, List.cons_append]
  exact skipWs_nonws hs.1

theorem skipWs_ws_char {w r : List Char} {c : Char} (hw : Ws w) (hc : isWs c = false) :
    skipWs (w ++ c :: r) = c :: r := by
  rw [skipWs_ws_append w _ hw]
  exact skipWs_nonws hc

mutual
  theorem completeV : ∀ (v : J) (t : List Char), GVal v t → ∀ rest, valFollow rest →
      ∃ f0, ∀ f, f0 ≤ f → parseValue f (t ++ rest) = some (v, rest)
    | .null, t, h, rest, _ => by
      simp only [GVal] at h; subst h
      refine ⟨1, fun f hf => ?_⟩
      obtain ⟨g, rfl⟩ : ∃ g, f = g + 1 := ⟨f - 1, by omega⟩
      exact parseValue_null g rest
    | .bool true, t, h, rest, _ => by
      simp only [GVal] at h; subst h
      refine ⟨1, fun f hf => ?_⟩
      obtain ⟨g, rfl⟩ : ∃ g, f = g + 1 := ⟨f - 1, by omega⟩
      exact parseValue_true g rest
    | .bool false, t, h, rest, _ => by
      simp only [GVal] at h; subst h
      refine ⟨1, fun f hf => ?_⟩
      obtain ⟨g, rfl⟩ : ∃ g, f = g + 1 := ⟨f - 1, by omega⟩
      exact parseValue_false g rest
    | .num n, t, h, rest, hr => by
      simp only [GVal] at h
      refine ⟨1, fun f hf => ?_⟩
      obtain ⟨g, rfl⟩ : ∃ g, f = g + 1 := ⟨f - 1, by omega⟩
      obtain ⟨c, t', hc, hs⟩ := h.head
      have h1 : t ++ rest = c :: (t' ++ rest) := by rw [hc]; rfl
      rw [h1, parseValue_num g c _ hs, ← h1, parseNumber_complete h hr.num]
      rfl
    | .str s, t, h, rest, _ => by
      simp only [GVal] at h
      obtain ⟨b, hb, rfl⟩ := h
      refine ⟨1, fun f hf => ?_⟩
      obtain ⟨g, rfl⟩ : ∃ g, f = g + 1 := ⟨f - 1, by omega⟩
      have h1 : ('"' :: (b ++ ['"'])) ++ rest = '"' :: (b ++ '"' :: rest) := by simp
      rw [h1, parseValue_str, parseChars_complete s b rest hb]
      rfl
    | .arr xs, t, h, rest, _ => by
      simp only [GVal] at h
      rcases h with ⟨rfl, w, hw, rfl⟩ | ⟨b, hb, rfl⟩
      · refine ⟨1, fun f hf => ?_⟩
        obtain ⟨g, rfl⟩ : ∃ g, f = g + 1 := ⟨f - 1, by omega⟩
        have h1 : ('[' :: (w ++ [']'])) ++ rest = '[' :: (w ++ ']' :: rest) := by simp
        rw [h1]
        exact parseValue_arr_close (skipWs_ws_char hw (by decide))
      · obtain ⟨f1, hf1⟩ := completeL xs b hb rest
        refine ⟨f1 + 1, fun f hf => ?_⟩
        obtain ⟨g, rfl⟩ : ∃ g, f = g + 1 := ⟨f - 1, by omega⟩
        have h1 : ('[' :: (b ++ [']'])) ++ rest = '[' :: (b ++ ']' :: rest) := by simp
        have hp := hf1 g (by omega)
        obtain ⟨d, r1, hd, hne⟩ : ∃ d r1, skipWs (b ++ ']' :: rest) = d :: r1 ∧ d ≠ ']' := by
          cases xs with
          | nil => simp only [GL] at hb
          | cons x xs' =>
            simp only [GL] at hb
            obtain ⟨w1, tv, w2, tr, hw1, hv, _, _, rfl⟩ := hb
            obtain ⟨c, t', hc, hs⟩ := hv.head
            refine ⟨c, t' ++ (w2 ++ tr) ++ ']' :: rest, ?_, hs.2.1⟩
            have : w1 ++ (tv ++ (w2 ++ tr)) ++ ']' :: rest = w1 ++ (c :: (t' ++ (w2 ++ tr) ++ ']' :: rest)) := by
              rw [hc]; simp
            rw [this]
            exact skipWs_ws_char hw1 hs.1
        rw [h1, parseValue_arr_elems hd hne, ← hd, hp]
        rfl
    | .obj ms, t, h, rest, _ => by
      simp only [GVal] at h
      rcases h with ⟨rfl, w, hw, rfl⟩ | ⟨b, hb, rfl⟩
      · refine ⟨1, fun f hf => ?_⟩
        obtain ⟨g, rfl⟩ : ∃ g, f = g + 1 := ⟨f - 1, by omega⟩
        have h1 : ('{' :: (w ++ ['}'])) ++ rest = '{' :: (w ++ '}' :: rest) := by simp
        rw [h1]
        exact parseValue_obj_close (skipWs_ws_char hw (by decide))
      · obtain ⟨f1, hf1⟩ := completeM ms b hb rest
        refine ⟨f1 + 1, fun f hf => ?_⟩
        obtain ⟨g, rfl⟩ : ∃ g, f = g + 1 := ⟨f - 1, by omega⟩
        have h1 : ('{' :: (b ++ ['}'])) ++ rest = '{' :: (b ++ '}' :: rest) := by simp
        have hp := hf1 g (by omega)
        obtain ⟨d, r1, hd, hne⟩ : ∃ d r1, skipWs (b ++ '}' :: rest) = d :: r1 ∧ d ≠ '}' := by
          cases ms with
          | nil => simp only [GM] at hb
          | cons k v ms' =>
            simp only [GM] at hb
            obtain ⟨w1, kb, w2, w3, tv, w4, tr, hw1, _, _, _, _, _, _, rfl⟩ := hb
            refine ⟨'"', (kb ++ ('"' :: (w2 ++ (':' :: (w3 ++ (tv ++ (w4 ++ tr))))))) ++ '}' :: rest, ?_, by decide⟩
            rw [List.append_assoc]
            exact skipWs_ws_char hw1 (by decide)
        rw [h1, parseValue_obj_members hd hne, ← hd, hp]
        rfl
  theorem completeL : ∀ (l : JL) (b : List Char), GL l b → ∀ rest,
      ∃ f0, ∀ f, f0 ≤ f → parseElems f (skipWs (b ++ ']' :: rest)) = some (l, rest)
    | .nil, b, h, rest => by simp only [GL] at h
    | .cons x xs, b, h, rest => by
      simp only [GL] at h
      obtain ⟨w1, tv, w2, tr, hw1, hv, hw2, htr, rfl⟩ := h
      have hsk : skipWs (w1 ++ (tv ++ (w2 ++ tr)) ++ ']' :: rest) = tv ++ (w2 ++ (tr ++ ']' :: rest)) := by
        have : w1 ++ (tv ++ (w2 ++ tr)) ++ ']' :: rest = w1 ++ (tv ++ (w2 ++ (tr ++ ']' :: rest))) := by simp
        rw [this]
        exact skipWs_ws_val hw1 hv
      rw [hsk]
      rcases htr with ⟨rfl, rfl⟩ | ⟨b', hb', rfl⟩
      · rw [List.nil_append]
        obtain ⟨f1, hf1⟩ := completeV x tv hv (w2 ++ (']' :: rest))
          (valFollow_ws_append hw2 (show valFollow (']' :: rest) from Or.inr (Or.inr (Or.inl rfl))))
        refine ⟨f1 + 1, fun f hf => ?_⟩
        obtain ⟨g, rfl⟩ : ∃ g, f = g + 1 := ⟨f - 1, by omega⟩
        exact parseElems_last (hf1 g (by omega)) (skipWs_ws_char hw2 (by decide))
      · rw [List.cons_append]
        obtain ⟨f1, hf1⟩ := completeV x tv hv (w2 ++ (',' :: (b' ++ ']' :: rest)))
          (valFollow_ws_append hw2 (show valFollow (',' :: (b' ++ ']' :: rest)) from Or.inr (Or.inl rfl)))
        obtain ⟨f2, hf2⟩ := completeL xs b' hb' rest
        refine ⟨max f1 f2 + 1, fun f hf => ?_⟩
        obtain ⟨g, rfl⟩ : ∃ g, f = g + 1 := ⟨f - 1, by omega⟩
        rw [parseElems_more (hf1 g (by omega)) (skipWs_ws_char hw2 (by decide)), hf2 g (by omega)]
        rfl
  theorem completeM : ∀ (l : JM) (b : List Char), GM l b → ∀ rest,
      ∃ f0, ∀ f, f0 ≤ f → parseMembers f (skipWs (b ++ '}' :: rest)) = some (l, rest)
    | .nil, b, h, rest => by simp only [GM] at h
    | .cons k v ms, b, h, rest => by
      simp only [GM] at h
      obtain ⟨w1, kb, w2, w3, tv, w4, tr, hw1, hk, hw2, hw3, hv, hw4, htr, rfl⟩ := h
      have hsk : skipWs (w1 ++ ('"' :: (kb ++ ('"' :: (w2 ++ (':' :: (w3 ++ (tv ++ (w4 ++ tr)))))))) ++ '}' :: rest)
          = '"' :: (kb ++ '"' :: (w2 ++ (':' :: (w3 ++ (tv ++ (w4 ++ (tr ++ '}' :: rest))))))) := by
        have : w1 ++ ('"' :: (kb ++ ('"' :: (w2 ++ (':' :: (w3 ++ (tv ++ (w4 ++ tr)))))))) ++ '}' :: rest
            = w1 ++ ('"' :: (kb ++ '"' :: (w2 ++ (':' :: (w3 ++ (tv ++ (w4 ++ (tr ++ '}' :: rest)))))))) := by simp
        rw [this]
        exact skipWs_ws_char hw1 (by decide)
      rw [hsk]
      have hkk := parseChars_complete k kb (w2 ++ (':' :: (w3 ++ (tv ++ (w4 ++ (tr ++ '}' :: rest)))))) hk
      have hcol : skipWs (w2 ++ (':' :: (w3 ++ (tv ++ (w4 ++ (tr ++ '}' :: rest))))))
          = ':' :: (w3 ++ (tv ++ (w4 ++ (tr ++ '}' :: rest)))) := skipWs_ws_char hw2 (by decide)
      have hval : skipWs (w3 ++ (tv ++ (w4 ++ (tr ++ '}' :: rest)))) = tv ++ (w4 ++ (tr ++ '}' :: rest)) :=
        skipWs_ws_val hw3 hv
      rcases htr with ⟨rfl, rfl⟩ | ⟨b', hb', rfl⟩
      · simp only [List.nil_append] at hkk hcol hval ⊢
        obtain ⟨f1, hf1⟩ := completeV v tv hv (w4 ++ ('}' :: rest))
          (valFollow_ws_append hw4 (show valFollow ('}' :: rest) from Or.inr (Or.inr (Or.inr rfl))))
        refine ⟨f1 + 1, fun f hf => ?_⟩
        obtain ⟨g, rfl⟩ : ∃ g, f = g + 1 := ⟨f - 1, by omega⟩
        exact parseMembers_last hkk hcol (by rw [hval]; exact hf1 g (by omega))
          (skipWs_ws_char hw4 (by decide))
      · simp only [List.cons_append] at hkk hcol hval ⊢
        obtain ⟨f1, hf1⟩ := completeV v tv hv (w4 ++ (',' :: (b' ++ '}' :: rest)))
          (valFollow_ws_append hw4 (show valFollow (',' :: (b' ++ '}' :: rest)) from Or.inr (Or.inl rfl)))
        obtain ⟨f2, hf2⟩ := completeM ms b' hb' rest
        refine ⟨max f1 f2 + 1, fun f hf => ?_⟩
        obtain ⟨g, rfl⟩ : ∃ g, f = g + 1 := ⟨f - 1, by omega⟩
        rw [parseMembers_more hkk hcol (by rw [hval]; exact hf1 g (by omega))
          (skipWs_ws_char hw4 (by decide)), hf2 g (by omega)]
        rfl
end



/-! ## values: soundness (whatever the parser accepts is a derivation of the grammar) -/

theorem Ws.append {w1 w2 : List Char} (h1 : Ws w1) (h2 : Ws w2) : Ws (w1 ++ w2) := by
  intro c hc
  simp only [List.mem_append] at hc
  rcases hc with hc | hc
  · exact h1 c hc
  · exact h2 c hc

theorem GL.ws_prepend {l : JL} {b w : List Char} (hw : Ws w) (h : GL l b) : GL l (w ++ b) := by
  cases l with
  | nil => simp only [GL] at h
  | cons x xs =>
    simp only [GL] at h ⊢
    obtain ⟨w1, tv, w2, tr, hw1, hv, hw2, htr, rfl⟩ := h
    exact ⟨w ++ w1, tv, w2, tr, hw.append hw1, hv, hw2, htr, by simp⟩

theorem GM.ws_prepend {l : JM} {b w : List Char} (hw : Ws w) (h : GM l b) : GM l (w ++ b) := by
  cases l with
  | nil => simp only [GM] at h
  | cons k v ms =>
    simp only [GM] at h ⊢
    obtain ⟨w1, kb, w2, w3, tv, w4, tr, hw1, hk, hw2, hw3, hv, hw4, htr, rfl⟩ := h
    exact ⟨w ++ w1, kb, w2, w3, tv, w4, tr, hw.append hw1, hk, hw2, hw3, hv, hw4, htr, by simp⟩

theorem stripPrefix_sound : ∀ (p s r : List Char), stripPrefix p s = some r → s = p ++ r
  | [], s, r, h => by simp [stripPrefix] at h; subst h; rfl
  | _ :: _, [], r, h => by simp [stripPrefix] at h
  | p :: ps, c :: s, r, h => by
    simp only [stripPrefix] at h
    split at h
    · rename_i hpc
      rw [stripPrefix_sound ps s r h, hpc]; rfl
    · cases h

/-- the text skipped by `skipWs` in front of a known remainder -/
theorem skipWs_eq_split {s r : List Char} (h : skipWs s = r) : ∃ w, Ws w ∧ s = w ++ r := by
  obtain ⟨w, hw, hs⟩ := skipWs_split s
  exact ⟨w, hw, by rw [← h]; exact hs⟩

mutual
  theorem soundV : ∀ (f : Nat) (s : List Char) (v : J) (r : List Char),
      parseValue f s = some (v, r) → ∃ t, GVal v t ∧ s = t ++ r
    | 0, s, v, r, h => by simp [parseValue] at h
    | f + 1, [], v, r, h => by simp [parseValue] at h
    | f + 1, c :: t0, v, r, h => by
      rw [parseValue.eq_def] at h
      simp only at h
      repeat' split at h
      all_goals first | cases h | skip
      · rename_i hc _ d hd hsk
        subst hc hd
        obtain ⟨w, hw, rfl⟩ := skipWs_eq_split hsk
        exact ⟨'{' :: (w ++ ['}']), by simp only [GVal]; exact Or.inl ⟨trivial, w, hw, rfl⟩, by simp⟩
      · rename_i hc _ d r1 hsk hd _ ms hm
        subst hc
        obtain ⟨w, hw, rfl⟩ := skipWs_eq_split hsk
        obtain ⟨b, hb, he⟩ := soundM f _ _ _ hm
        refine ⟨'{' :: ((w ++ b) ++ ['}']), by simp only [GVal]; exact Or.inr ⟨w ++ b, hb.ws_prepend hw, rfl⟩, ?_⟩
        rw [he]; simp
      · rename_i _ hc _ d hd hsk
        subst hc hd
        obtain ⟨w, hw, rfl⟩ := skipWs_eq_split hsk
        exact ⟨'[' :: (w ++ [']']), by simp only [GVal]; exact Or.inl ⟨trivial, w, hw, rfl⟩, by simp⟩
      · rename_i _ hc _ d r1 hsk hd _ xs hm
        subst hc
        obtain ⟨w, hw, rfl⟩ := skipWs_eq_split hsk
        obtain ⟨b, hb, he⟩ := soundL f _ _ _ hm
        refine ⟨'[' :: ((w ++ b) ++ [']']), by simp only [GVal]; exact Or.inr ⟨w ++ b, hb.ws_prepend hw, rfl⟩, ?_⟩
        rw [he]; simp
      · rename_i _ _ hc _ cs hp
        subst hc
        obtain ⟨b, hb, rfl⟩ := parseChars_sound _ _ _ hp
        exact ⟨'"' :: (b ++ ['"']), by simp only [GVal]; exact ⟨b, hb, rfl⟩, by simp⟩
      · rename_i _ _ _ hc _ hp
        subst hc
        rw [stripPrefix_sound _ _ _ hp]
        exact ⟨['t', 'r', 'u', 'e'], by simp [GVal], rfl⟩
      · rename_i _ _ _ _ hc _ hp
        subst hc
        rw [stripPrefix_sound _ _ _ hp]
        exact ⟨['f', 'a', 'l', 's', 'e'], by simp [GVal], rfl⟩
      · rename_i _ _ _ _ _ hc _ hp
        subst hc
        rw [stripPrefix_sound _ _ _ hp]
        exact ⟨['n', 'u', 'l', 'l'], by simp [GVal], rfl⟩
      · rename_i _ _ _ _ _ _ _ n hp
        obtain ⟨t, ht, he⟩ := parseNumber_sound hp
        exact ⟨t, by simp only [GVal]; exact ht, he⟩
  theorem soundL : ∀ (f : Nat) (s : List Char) (l : JL) (r : List Char),
      parseElems f s = some (l, r) → ∃ b, GL l b ∧ s = b ++ ']' :: r
    | 0, s, v, r, h => by simp [parseElems] at h
    | f + 1, s, l, r, h => by
      rw [parseElems.eq_def] at h
      simp only at h
      repeat' split at h
      all_goals first | cases h | skip
      · rename_i _ v r0 hv _ d r1 hsk hd _ xs hm
        subst hd
        obtain ⟨tv, htv, rfl⟩ := soundV f _ _ _ hv
        obtain ⟨w2, hw2, rfl⟩ := skipWs_eq_split hsk
        obtain ⟨b', hb', he⟩ := soundL f _ _ _ hm
        obtain ⟨w', hw', rfl⟩ := skipWs_eq_split he
        refine ⟨[] ++ (tv ++ (w2 ++ (',' :: (w' ++ b')))), ?_, by simp⟩
        simp only [GL]
        exact ⟨[], tv, w2, ',' :: (w' ++ b'), Ws.nil, htv, hw2, Or.inr ⟨w' ++ b', hb'.ws_prepend hw', rfl⟩, rfl⟩
      · rename_i _ v r0 hv _ d hnc hd hsk
        subst hd
        obtain ⟨tv, htv, rfl⟩ := soundV f _ _ _ hv
        obtain ⟨w2, hw2, rfl⟩ := skipWs_eq_split hsk
        refine ⟨[] ++ (tv ++ (w2 ++ [])), ?_, by simp⟩
        simp only [GL]
        exact ⟨[], tv, w2, [], Ws.nil, htv, hw2, Or.inl ⟨trivial, rfl⟩, rfl⟩
  theorem soundM : ∀ (f : Nat) (s : List Char) (l : JM) (r : List Char),
      parseMembers f s = some (l, r) → ∃ b, GM l b ∧ s = b ++ '}' :: r
    | 0, s, v, r, h => by simp [parseMembers] at h
    | f + 1, [], l, r, h => by simp [parseMembers] at h
    | f + 1, q :: s, l, r, h => by
      rw [parseMembers.eq_def] at h
      simp only at h
      repeat' split at h
      all_goals first | cases h | skip
      · rename_i hq _ k r3 hk _ c1 r2 hc hcol _ v r1 hv _ c0 r0 hs hcomma _ ms hm
        subst hq hcol hcomma
        obtain ⟨kb, hkb, rfl⟩ := parseChars_sound _ _ _ hk
        obtain ⟨w2, hw2, rfl⟩ := skipWs_eq_split hc
        obtain ⟨tv, htv, he1⟩ := soundV f _ _ _ hv
        obtain ⟨w3, hw3, rfl⟩ := skipWs_eq_split he1
        obtain ⟨w4, hw4, rfl⟩ := skipWs_eq_split hs
        obtain ⟨b', hb', he2⟩ := soundM f _ _ _ hm
        obtain ⟨w', hw', rfl⟩ := skipWs_eq_split he2
        refine ⟨[] ++ ('"' :: (kb ++ ('"' :: (w2 ++ (':' :: (w3 ++ (tv ++ (w4 ++ (',' :: (w' ++ b')))))))))), ?_, by simp⟩
        simp only [GM]
        exact ⟨[], kb, w2, w3, tv, w4, ',' :: (w' ++ b'), Ws.nil, hkb, hw2, hw3, htv, hw4,
          Or.inr ⟨w' ++ b', hb'.ws_prepend hw', rfl⟩, rfl⟩
      · rename_i hq _ k r3 hk _ c1 r2 hc hcol _ v r1 hv _ c0 hcomma hclose hs
        subst hq hcol hclose
        obtain ⟨kb, hkb, rfl⟩ := parseChars_sound _ _ _ hk
        obtain ⟨w2, hw2, rfl⟩ := skipWs_eq_split hc
        obtain ⟨tv, htv, he1⟩ := soundV f _ _ _ hv
        obtain ⟨w3, hw3, rfl⟩ := skipWs_eq_split he1
        obtain ⟨w4, hw4, rfl⟩ := skipWs_eq_split hs
        refine ⟨[] ++ ('"' :: (kb ++ ('"' :: (w2 ++ (':' :: (w3 ++ (tv ++ (w4 ++ [])))))))), ?_, by simp⟩
        simp only [GM]
        exact ⟨[], kb, w2, w3, tv, w4, [], Ws.nil, hkb, hw2, hw3, htv, hw4, Or.inl ⟨trivial, rfl⟩, rfl⟩
end

/-! ## the parser accepts exactly the grammar -/

theorem parse_sound {s : List Char} {v : J} (h : parse s = some v) : Doc v s := by
  simp only [parse, parseWith] at h
  split at h
  · rename_i v' r hp
    split at h
    · rename_i hr
      cases h
      obtain ⟨t, ht, he⟩ := soundV _ _ _ _ hp
      obtain ⟨w1, hw1, hs⟩ := skipWs_eq_split he
      obtain ⟨w2, hw2, hr2⟩ := skipWs_eq_split hr
      refine ⟨w1, t, w2, hw1, ht, hw2, ?_⟩
      rw [hs, hr2]; simp
    · cases h
  · cases h

theorem parse_complete {s : List Char} {v : J} (h : Doc v s) : parse s = some v := by
  obtain ⟨w1, t, w2, hw1, ht, hw2, rfl⟩ := h
  have hfol : valFollow w2 := by
    have := valFollow_ws_append hw2 (show valFollow [] from trivial)
    simpa using this
  obtain ⟨f0, hf0⟩ := completeV v t ht w2 hfol
  let F := max f0 (2 * (w1 ++ (t ++ w2)).length + 2)
  have h1 : parseWith F (w1 ++ (t ++ w2)) = some v := by
    simp only [parseWith, skipWs_ws_val hw1 ht, hf0 F (Nat.le_max_left _ _), skipWs_ws w2 hw2, if_true]
  rw [← parseWith_stable _ F (Nat.le_max_right _ _)]
  exact h1

theorem parse_iff (s : List Char) (v : J) : parse s = some v ↔ Doc v s :=
  ⟨parse_sound, parse_complete⟩

/-- the grammar is unambiguous: a text denotes at most one value -/
theorem Doc.unique {s : List Char} {v v' : J} (h : Doc v s) (h' : Doc v' s) : v = v' := by
  have h1 := parse_complete h
  have h2 := parse_complete h'
  rw [h1] at h2
  exact Option.some.inj h2

theorem parse_none_iff (s : List Char) : parse s = none ↔ ¬ ∃ v, Doc v s := by
  constructor
  · intro h ⟨v, hv⟩
    rw [parse_complete hv] at h
    cases h
  · intro h
    cases hp : parse s with
    | none => rfl
    | some v => exact absurd ⟨v, parse_sound hp⟩ h

/-! ## today's behaviour (pinned tree) against the repaired one -/

/-- Everything today's string reader accepts, the repaired reader accepts with the same result. -/
theorem parseCharsPinned_sub (s : List Char) :
    ∀ x, parseCharsPinned s = some x → parseChars s = some x := by
  fun_induction parseCharsPinned s <;> intro x h
  all_goals try cases h
  all_goals try simp_all [parseChars]
  all_goals first
    | (rw [parseChars.eq_def]; simp [*]; done)
    | (have h4 := Nat.not_lt.mpr ‹32 ≤ _›; rw [parseChars.eq_def]; simp [*]; done)

/-- `parseNumber` is `mkNum` applied to the syntactic parts of the token. -/
theorem parseNumber_eq_parts (s : List Char) :
    parseNumber s = (numParts s).map fun p => (mkNum p.1.1 p.1.2.1 p.1.2.2.1 p.1.2.2.2, p.2) := by
  unfold parseNumber numParts
  simp only
  split
  · cases parseFrac (spanDigits (optMinus s).2).2 with
    | none => rfl
    | some fr =>
      obtain ⟨frac, s3⟩ := fr
      simp only
      cases parseExp s3 with
      | none => rfl
      | some er => rfl
  · rfl

end Scryer.Json
