import ScryerModel.Model.Index
/-!
Invariants of the first-argument index model (`Model/Index.lean`) shared by the static
(`Proofs/Index.lean`) and the dynamic (`Proofs/IndexDyn.lean`) proofs of property C06.
Only definitions and the lemmas that turn the invariant into statements about `select`.
-/
namespace Scryer.Index

/-- A call argument as the machine can hold it: a fixnum cell holds a 56-bit value. -/
def CallArg.WF : CallArg → Prop
  | .fix n => fitsFixnum n = true
  | _ => True

/-- every argument of the call is well formed. -/
def CallWF (call : Call) : Prop := ∀ a ∈ call, CallArg.WF a

/-- the keys under which a clause is filed in the constant table. -/
def ckeys : FirstArg → List CKey
  | .const l => match l.altKey with
    | some k => [l.key, k]
    | none => [l.key]
  | _ => []

/-- the keys under which a clause is filed in the structure table. -/
def skeys : FirstArg → List (String × Nat)
  | .struct n a => [(n, a)]
  | _ => []

/-- a second/third-level pointer lists clauses of the subsequence, in chain order. -/
def PtrOK (chain : List Nat) (p : Ptr) : Prop := p.ids.Sublist chain

/-- Invariant of one `c`/`s` operand of `SwitchOnTerm`. `keys id` are the keys clause `id` must
be found under. `leafKey`: a direct pointer is only used while all live keyed clauses share one
single key (this is what makes `internalize_constant/structure` correct). -/
structure SlotInv {κ : Type} [DecidableEq κ] (chain : List Nat) (alive : Nat → Bool)
    (keys : Nat → List κ) (slot : Slot κ) : Prop where
  ptrs : ∀ k, PtrOK chain (slot.look k)
  found : ∀ id, id ∈ chain → alive id = true → ∀ k, k ∈ keys id → id ∈ (slot.look k).ids
  leafKey : ∀ p, slot = .leaf p → p ≠ .fail →
    ∃ k, ∀ id, id ∈ chain → alive id = true → keys id = [] ∨ keys id = [k]

/-- Invariant of the indexing code of one subsequence. `hd id` is the head of clause `id`. -/
structure SubInv (hd : Nat → Head) (alive : Nat → Bool) (sub : Sub) : Prop where
  c : SlotInv sub.chain alive (fun id => ckeys (argAt (hd id) sub.arg)) sub.c
  s : SlotInv sub.chain alive (fun id => skeys (argAt (hd id) sub.arg)) sub.s
  l_ok : PtrOK sub.chain sub.l
  l_found : ∀ id, id ∈ sub.chain → alive id = true → argAt (hd id) sub.arg = .list → id ∈ sub.l.ids
  arg : ∀ id, id ∈ sub.chain → firstInst (hd id) = some sub.arg

/-- head of clause `id` as recorded in the store. -/
def Index.hd (idx : Index) (id : Nat) : Head := (headOf idx.store id).getD []

/-- Invariant of a predicate's code. -/
structure Inv (idx : Index) : Prop where
  nodup : idx.order.Nodup
  order_lt : ∀ id, id ∈ idx.order → id < idx.next
  store_lt : ∀ p, p ∈ idx.store → p.1 < idx.next
  dead_lt : ∀ id, id ∈ idx.dead → id < idx.next
  subs : ∀ sub, Seg.indexed sub ∈ idx.segs → SubInv idx.hd idx.alive sub

/-! ### from the invariant to `select` -/

theorem altKey_ne_key (l : Lit) (k : CKey) (h : l.altKey = some k) : k ≠ l.key := by
  cases l <;> simp [Lit.altKey, Lit.key] at h ⊢
  · obtain ⟨_, rfl⟩ := h; simp
  · obtain ⟨_, _, rfl⟩ := h; simp

theorem compat_argAt (h : Head) (call : Call) (arg : Nat) (hc : compatHead h call = true) :
    compat (argAt h arg) (call.getD arg .var) = true := by
  induction h generalizing call arg with
  | nil => simp [argAt, compat]
  | cons a r ih =>
    cases call with
    | nil =>
      simp [compatHead] at hc
      cases arg with
      | zero => simpa [argAt] using hc.1
      | succ n =>
        have := ih [] n hc.2
        simpa [argAt] using this
    | cons c cs =>
      simp [compatHead] at hc
      cases arg with
      | zero => simpa [argAt] using hc.1
      | succ n =>
        have := ih cs n hc.2
        simpa [argAt] using this

theorem callWF_getD (call : Call) (h : CallWF call) (arg : Nat) :
    CallArg.WF (call.getD arg .var) := by
  unfold CallWF at h
  by_cases hlt : arg < call.length
  · have : call.getD arg .var = call[arg] := by simp [List.getD, hlt]
    rw [this]; exact h _ (List.getElem_mem hlt)
  · have : call.getD arg .var = .var := by
      rw [List.getD_eq_getElem?_getD, List.getElem?_eq_none (by omega)]; rfl
    rw [this]; trivial

/-- the selection of a subsequence lists clauses of its chain, in chain order. -/
theorem SubInv.sel_sublist {hd alive sub} (inv : SubInv hd alive sub) (a : CallArg) :
    (sub.selectWith false a).Sublist sub.chain := by
  cases a <;> simp [Sub.selectWith]
  · exact inv.c.ptrs _
  · exact inv.c.ptrs _
  · exact inv.c.ptrs _
  · exact inv.l_ok
  · exact inv.s.ptrs _

/-- no live clause whose indexed argument could unify with the call argument is skipped. -/
theorem SubInv.sel_complete {hd alive sub} (inv : SubInv hd alive sub) (a : CallArg)
    (wf : CallArg.WF a) (id : Nat) (hm : id ∈ sub.chain) (hal : alive id = true)
    (hc : compat (argAt (hd id) sub.arg) a = true) : id ∈ sub.selectWith false a := by
  have harg := inv.arg id hm
  have hnv : argAt (hd id) sub.arg ≠ .var := by
    intro hv
    -- firstInst = some arg means the argument at `arg` is not a variable
    have : ∀ (h : Head) (i p : Nat), firstInstFrom h i = some p → i ≤ p ∧ h.getD (p - i) .var ≠ .var := by
      intro h
      induction h with
      | nil => intro i p hh; simp [firstInstFrom] at hh
      | cons x r ih =>
        intro i p hh
        simp only [firstInstFrom] at hh
        split at hh
        · have := ih (i + 1) p hh
          refine ⟨by omega, ?_⟩
          have h2 : p - i = (p - (i + 1)) + 1 := by omega
          rw [h2]; simpa using this.2
        · simp at hh; subst hh; simp; assumption
    have := (this (hd id) 0 sub.arg (by simpa [firstInst] using harg)).2
    simp [argAt] at hv
    simp at this
    exact this hv
  cases a with
  | var => simpa [Sub.selectWith] using hm
  | arenaNum addr n d => simpa [Sub.selectWith] using hm
  | list =>
    simp only [Sub.selectWith]
    apply inv.l_found id hm hal
    generalize argAt (hd id) sub.arg = fa at hc hnv
    cases fa <;> simp_all [compat]
  | struct n ar =>
    simp only [Sub.selectWith]
    apply inv.s.found id hm hal
    generalize argAt (hd id) sub.arg = fa at hc hnv
    cases fa <;> simp_all [compat, skeys]
  | atom s =>
    simp only [Sub.selectWith]
    apply inv.c.found id hm hal
    generalize argAt (hd id) sub.arg = fa at hc hnv
    cases fa <;> simp_all [compat, ckeys, Lit.altKey, Lit.key]
  | flt b =>
    simp only [Sub.selectWith]
    apply inv.c.found id hm hal
    generalize argAt (hd id) sub.arg = fa at hc hnv
    cases fa <;> simp_all [compat, ckeys, Lit.altKey, Lit.key]
  | fix n =>
    simp only [Sub.selectWith]
    apply inv.c.found id hm hal
    simp only [CallArg.WF] at wf
    generalize argAt (hd id) sub.arg = fa at hc hnv
    cases fa with
    | const l =>
      cases l <;> simp_all [compat, ckeys, Lit.altKey, Lit.key, Lit.val]
    | _ => simp_all [compat]

theorem flatMap_sublist {α β : Type} (l : List α) (f g : α → List β)
    (h : ∀ x, x ∈ l → (f x).Sublist (g x)) : (l.flatMap f).Sublist (l.flatMap g) := by
  induction l with
  | nil => simp
  | cons x r ih =>
    simp only [List.flatMap_cons]
    exact List.Sublist.append (h x (by simp)) (ih (fun y hy => h y (by simp [hy])))

/-- **order, no additions**: what the index hands over is a sublist of the live clauses. -/
theorem Inv.select_sublist {idx : Index} (inv : Inv idx) (call : Call) :
    (select idx call).Sublist idx.live := by
  unfold select Index.selectWith Index.live Index.order
  apply List.Sublist.filter
  apply flatMap_sublist
  intro seg hseg
  cases seg with
  | plain ch => simp [Seg.selectWith, Seg.chain]
  | indexed sub =>
    simp only [Seg.selectWith, Seg.chain]
    exact (inv.subs sub hseg).sel_sublist _

/-- **no drops**: every live clause whose head could unify with the call is handed over. -/
theorem Inv.select_complete {idx : Index} (inv : Inv idx) (call : Call) (wf : CallWF call)
    (id : Nat) (hl : id ∈ idx.live) (hc : compatHead (idx.hd id) call = true) :
    id ∈ select idx call := by
  unfold Index.live Index.order at hl
  rw [List.mem_filter, List.mem_flatMap] at hl
  obtain ⟨⟨seg, hseg, hid⟩, hal⟩ := hl
  unfold select Index.selectWith
  rw [List.mem_filter, List.mem_flatMap]
  refine ⟨⟨seg, hseg, ?_⟩, hal⟩
  cases seg with
  | plain ch => simpa [Seg.selectWith, Seg.chain] using hid
  | indexed sub =>
    simp only [Seg.selectWith]
    simp only [Seg.chain] at hid
    exact (inv.subs sub hseg).sel_complete _ (callWF_getD call wf _) id hid hal
      (compat_argAt _ _ _ hc)

theorem Inv.live_nodup {idx : Index} (inv : Inv idx) : idx.live.Nodup :=
  List.Pairwise.sublist List.filter_sublist inv.nodup

/-- generic: a sublist of a duplicate-free list that keeps every `P`-element has the same
`P`-elements, in the same order. -/
theorem filter_eq_of_sublist {α : Type} [DecidableEq α] (P : α → Bool) :
    ∀ (l₁ l₂ : List α), l₁.Sublist l₂ → l₂.Nodup →
      (∀ x, x ∈ l₂ → P x = true → x ∈ l₁) → l₁.filter P = l₂.filter P := by
  intro l₁ l₂ hs
  induction hs with
  | slnil => intros; rfl
  | @cons l₁ l₂ a hs ih =>
    intro nd hall
    rw [List.nodup_cons] at nd
    have ha : P a = false := by
      cases hp : P a with
      | false => rfl
      | true =>
        have := hall a (by simp) hp
        exact absurd (hs.subset this) nd.1
    rw [List.filter_cons_of_neg (by simp [ha])]
    exact ih nd.2 (fun x hx hp => hall x (by simp [hx]) hp)
  | @cons_cons l₁ l₂ a hs ih =>
    intro nd hall
    rw [List.nodup_cons] at nd
    have := ih nd.2 (fun x hx hp => by
      have := hall x (by simp [hx]) hp
      rcases List.mem_cons.1 this with h | h
      · subst h; exact absurd hx nd.1
      · exact h)
    simp [List.filter_cons, this]

/-- **the property on an index that satisfies the invariant**: the clauses handed over by the
index, filtered by head unification, are exactly the live clauses whose head unifies, in textual
order and without duplicates. -/
theorem Inv.select_exact {idx : Index} (inv : Inv idx) (call : Call) (wf : CallWF call) :
    (select idx call).filter (fun id => compatHead (idx.hd id) call)
      = idx.live.filter (fun id => compatHead (idx.hd id) call) :=
  filter_eq_of_sublist _ _ _ (inv.select_sublist call) inv.live_nodup
    (fun id hl hc => inv.select_complete call wf id hl hc)

end Scryer.Index
