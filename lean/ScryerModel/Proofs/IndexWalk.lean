import ScryerModel.Model.IndexWalk
/-! The repaired third-level walk delivers exactly the living entries, once each, in order. -/
namespace Scryer.Index

theorem findLivingFrom_none (alive : Nat → Bool) (l : List Nat) (pos : Nat)
    (h : findLivingFrom alive l pos = none) : l.filter alive = [] := by
  induction l generalizing pos with
  | nil => rfl
  | cons c r ih =>
    simp only [findLivingFrom] at h
    split at h
    · simp at h
    · rename_i hc
      simp [hc, ih _ h]

theorem findLivingFrom_some (alive : Nat → Bool) (l : List Nat) (pos ii c : Nat)
    (h : findLivingFrom alive l pos = some (ii, c)) :
    pos ≤ ii ∧ ii < pos + l.length ∧ l.filter alive = c :: (l.drop (ii - pos + 1)).filter alive := by
  induction l generalizing pos with
  | nil => simp [findLivingFrom] at h
  | cons x r ih =>
    simp only [findLivingFrom] at h
    split at h
    · rename_i hx
      simp at h
      obtain ⟨rfl, rfl⟩ := h
      simp [hx]
    · rename_i hx
      obtain ⟨h1, h2, h3⟩ := ih _ h
      refine ⟨by omega, by simp; omega, ?_⟩
      have e : ii - pos + 1 = (ii - (pos + 1) + 1) + 1 := by omega
      rw [e]
      simp [hx, h3]

theorem findLiving_none (alive : Nat → Bool) (line : List Nat) (b : Nat)
    (h : findLiving alive line b = none) : (line.drop b).filter alive = [] :=
  findLivingFrom_none alive _ _ h

theorem findLiving_some (alive : Nat → Bool) (line : List Nat) (b ii c : Nat)
    (h : findLiving alive line b = some (ii, c)) :
    b ≤ ii ∧ ii < line.length ∧ (line.drop b).filter alive = c :: (line.drop (ii + 1)).filter alive := by
  obtain ⟨h1, h2, h3⟩ := findLivingFrom_some alive _ _ _ _ h
  refine ⟨h1, ?_, ?_⟩
  · rw [List.length_drop] at h2; omega
  · rw [h3, List.drop_drop]
    have e1 : b + (ii - b + 1) = ii + 1 := by omega
    simp [e1]

/-- with the repaired `retry`, the backtracking loop resumed at position `b` runs exactly the living
entries from `b` on. -/
theorem walkNext_fixed (alive : Nat → Bool) (line : List Nat) :
    ∀ (fuel b : Nat), line.length - b < fuel →
      walkNext true alive line fuel b = (line.drop b).filter alive := by
  intro fuel
  induction fuel with
  | zero => intro b h; omega
  | succ fuel ih =>
    intro b hb
    simp only [walkNext]
    cases h1 : findLiving alive line b with
    | none => simp [findLiving_none alive line b h1]
    | some p =>
      obtain ⟨ii, c⟩ := p
      obtain ⟨hle, hlt, heq⟩ := findLiving_some alive line b ii c h1
      simp only []
      cases h2 : findLiving alive line (ii + 1) with
      | none => simp [heq, findLiving_none alive line _ h2]
      | some q =>
        simp only [if_true]
        rw [heq, ih (ii + 1) (by omega)]

/-- **the repaired walk is exact**: every living entry of the line, once, in order. -/
theorem walk_fixed (alive : Nat → Bool) (line : List Nat) (fuel : Nat) (h : line.length ≤ fuel) :
    walk true alive line fuel = line.filter alive := by
  unfold walk
  cases h1 : findLiving alive line 0 with
  | none => simpa using (findLiving_none alive line 0 h1).symm
  | some p =>
    obtain ⟨ii, c⟩ := p
    obtain ⟨_, hlt, heq⟩ := findLiving_some alive line 0 ii c h1
    simp only [List.drop_zero] at heq
    simp only []
    cases h2 : findLiving alive line (ii + 1) with
    | none => simp [heq, findLiving_none alive line _ h2]
    | some q =>
      simp only []
      rw [heq, walkNext_fixed alive line fuel (ii + 1) (by omega)]

end Scryer.Index
