import ScryerModel.Model.ReadVars
/-! Lemmas for C45 (`Model/ReadVars.lean`). Lean core only. -/
namespace Scryer.ReadVars
open List

/-! ## `dedupFirst` -/

theorem mem_dedupFirst {v : V} : ∀ {l : List V}, v ∈ dedupFirst l ↔ v ∈ l
  | [] => by simp [dedupFirst]
  | x :: l => by
    have ih := @mem_dedupFirst v l
    by_cases h : v = x
    · simp [dedupFirst, h]
    · simp [dedupFirst, ih, h]

theorem nodup_dedupFirst : ∀ (l : List V), (dedupFirst l).Nodup
  | [] => by simp [dedupFirst]
  | x :: l => by
    have ih := nodup_dedupFirst l
    simp only [dedupFirst, nodup_cons]
    refine ⟨by simp, ih.filter _⟩

theorem dedupFirst_sublist : ∀ (l : List V), (dedupFirst l).Sublist l
  | [] => by simp [dedupFirst]
  | x :: l => by
    simp only [dedupFirst]
    exact Sublist.cons_cons _ ((filter_sublist).trans (dedupFirst_sublist l))

theorem dedupFirst_filter (p : V → Bool) : ∀ (l : List V), dedupFirst (l.filter p) = (dedupFirst l).filter p
  | [] => by simp [dedupFirst]
  | x :: l => by
    have ih := dedupFirst_filter p l
    by_cases h : p x
    · simp only [filter_cons_of_pos h, dedupFirst, ih]
      congr 1
      simp only [filter_filter]
      apply filter_congr; intro a _; exact Bool.and_comm _ _
    · simp only [filter_cons_of_neg h, dedupFirst, ih]
      have : ∀ a ∈ dedupFirst l, p a = (p a && (a != x)) := by
        intro a _
        by_cases ha : a = x
        · subst ha; simp [h]
        · simp [ha]
      rw [filter_filter]
      exact filter_congr this

theorem idxOf_cons_ne' {a x : V} (l : List V) (h : x ≠ a) : (x :: l).idxOf a = l.idxOf a + 1 := by
  rw [idxOf_cons]
  have : (x == a) = false := by simpa using h
  rw [this]; rfl

/-- first-occurrence order: the first positions in `l` of the elements of `dedupFirst l` increase. -/
theorem dedupFirst_order : ∀ (l : List V), (dedupFirst l).Pairwise fun a b => l.idxOf a < l.idxOf b
  | [] => by simp [dedupFirst]
  | x :: l => by
    have ih := dedupFirst_order l
    simp only [dedupFirst, pairwise_cons]
    constructor
    · intro b hb
      have hbx : b ≠ x := by simpa using (mem_filter.mp hb).2
      rw [idxOf_cons_self, idxOf_cons_ne' _ (Ne.symm hbx)]
      exact Nat.succ_pos _
    · refine (ih.filter _).imp_of_mem ?_
      intro a b ha hb hab
      have hax : a ≠ x := by simpa using (mem_filter.mp ha).2
      have hbx : b ≠ x := by simpa using (mem_filter.mp hb).2
      rw [idxOf_cons_ne' _ (Ne.symm hax), idxOf_cons_ne' _ (Ne.symm hbx)]
      exact Nat.succ_lt_succ hab

/-! ## insert-if-absent folds -/

def insNew (acc : List V) (v : V) : List V := if v ∈ acc then acc else acc ++ [v]

theorem foldl_insNew (l : List V) : ∀ (acc : List V),
    l.foldl insNew acc = acc ++ dedupFirst (l.filter (fun v => !decide (v ∈ acc))) := by
  induction l with
  | nil => intro acc; simp [dedupFirst]
  | cons x l ih =>
    intro acc
    simp only [foldl_cons]
    by_cases h : x ∈ acc
    · rw [show insNew acc x = acc from by simp [insNew, h], ih, filter_cons_of_neg (by simp [h])]
    · rw [show insNew acc x = acc ++ [x] from by simp [insNew, h], ih,
        filter_cons_of_pos (by simp [h])]
      simp only [dedupFirst, append_assoc, singleton_append]
      congr 2
      rw [← dedupFirst_filter, filter_filter]
      congr 1
      apply filter_congr
      intro a _
      by_cases ha : a = x
      · subst ha; simp
      · simp [ha]

theorem foldl_insNew_nil (l : List V) : l.foldl insNew [] = dedupFirst l := by
  rw [foldl_insNew]
  have : l.filter (fun v => !decide (v ∈ ([] : List V))) = l := by simp
  rw [this]; rfl

/-! ## the dictionary -/

def keyOf (akey : Nat → Nat) : V → VarKey
  | .named n => .name n
  | .site i => .anonK (akey i)

def attach (akey : Nat → Nat) (D : List V) : Dict := D.map fun v => (keyOf akey v, v)

theorem keyOf_inj {akey : Nat → Nat} (hk : ∀ i j, akey i = akey j → i = j) {a b : V}
    (h : keyOf akey a = keyOf akey b) : a = b := by
  cases a <;> cases b <;> simp [keyOf] at h
  · exact congrArg _ h
  · exact congrArg _ (hk _ _ h)

theorem hasKey_attach {akey : Nat → Nat} (hk : ∀ i j, akey i = akey j → i = j) (D : List V) (v : V) :
    hasKey (attach akey D) (keyOf akey v) = decide (v ∈ D) := by
  simp only [hasKey, attach, any_map]
  rw [Bool.eq_iff_iff]
  simp only [any_eq_true, Function.comp, beq_iff_eq, decide_eq_true_eq]
  constructor
  · rintro ⟨x, hx, hxe⟩; rw [← keyOf_inj hk hxe]; exact hx
  · intro h; exact ⟨v, h, rfl⟩

theorem insertNew_attach {akey : Nat → Nat} (hk : ∀ i j, akey i = akey j → i = j) (D : List V) (v : V) :
    insertNew (attach akey D) (keyOf akey v) v = attach akey (insNew D v) := by
  simp only [insertNew, hasKey_attach hk, insNew]
  by_cases h : v ∈ D <;> simp [h, attach]

theorem imInsert_attach {akey : Nat → Nat} (hk : ∀ i j, akey i = akey j → i = j) (D : List V) (v : V) :
    imInsert (attach akey D) (keyOf akey v) v = attach akey (insNew D v) := by
  simp only [imInsert, hasKey_attach hk, insNew]
  by_cases h : v ∈ D
  · simp only [h, decide_true, if_true, attach, map_map]
    apply map_congr_left
    intro a _
    simp only [Function.comp]
    by_cases hka : keyOf akey a = keyOf akey v
    · simp [keyOf_inj hk hka]
    · simp [hka]
  · simp [h, attach]

theorem getElem?_varsOf (occs : List Occ) (i : Nat) : (varsOf occs)[i]? = (occs[i]?).map (toV i) := by
  simp [varsOf, getElem?_mapIdx]

theorem dictStep_attach {akey : Nat → Nat} (hk : ∀ i j, akey i = akey j → i = j) (occs : List Occ)
    (D : List V) (i : Nat) :
    dictStep akey occs (attach akey D) i =
      attach akey (match (varsOf occs)[i]? with | some v => insNew D v | none => D) := by
  rw [getElem?_varsOf]
  unfold dictStep
  cases h : occs[i]? with
  | none => simp
  | some o =>
    cases o with
    | named n => simpa [toV, keyOf] using insertNew_attach hk D (.named n)
    | anon => simpa [toV, keyOf] using imInsert_attach hk D (.site i)

theorem buildDict_attach {akey : Nat → Nat} (hk : ∀ i j, akey i = akey j → i = j) (occs : List Occ)
    (order : List Nat) : ∀ (D : List V),
    order.foldl (dictStep akey occs) (attach akey D) =
      attach akey ((order.filterMap fun i => (varsOf occs)[i]?).foldl insNew D) := by
  induction order with
  | nil => intro D; simp
  | cons i order ih =>
    intro D
    rw [foldl_cons, dictStep_attach hk]
    cases h : (varsOf occs)[i]? with
    | none => simp only [filterMap_cons, h]; exact ih D
    | some v => simp only [filterMap_cons, h, foldl_cons]; exact ih _

/-- With an injective key for anonymous variables the dictionary is the list of distinct variables
    in the order in which the heap writer met them, each under its own key. -/
theorem buildDict_eq {akey : Nat → Nat} (hk : ∀ i j, akey i = akey j → i = j) (occs : List Occ)
    (order : List Nat) :
    buildDict akey occs order = attach akey (dedupFirst (order.filterMap fun i => (varsOf occs)[i]?)) := by
  have := buildDict_attach hk occs order []
  simpa [buildDict, attach, foldl_insNew_nil] using this

theorem filterMap_range_take (l : List V) : ∀ n, (List.range n).filterMap (fun i => l[i]?) = l.take n
  | 0 => by simp
  | n + 1 => by
    rw [range_succ, filterMap_append, filterMap_range_take l n, take_add_one]
    cases h : l[n]? <;> simp [h]

theorem filterMap_getElem?_range (l : List V) : (List.range l.length).filterMap (fun i => l[i]?) = l := by
  rw [filterMap_range_take, take_length]

/-! ## the pre-order walk -/

theorem keys_seenInsert (m : Seen) (v : V) : (seenInsert m v).map (·.1) = insNew (m.map (·.1)) v := by
  unfold seenInsert insNew
  by_cases h : v ∈ m.map (·.1)
  · have : (m.any fun e => e.1 == v) = true := by
      simp only [any_eq_true, beq_iff_eq]
      obtain ⟨e, he, rfl⟩ := mem_map.mp h
      exact ⟨e, he, rfl⟩
    simp only [this, if_true, h, map_map]
    apply map_congr_left
    intro a _
    simp only [Function.comp]
    split <;> rfl
  · have : (m.any fun e => e.1 == v) = false := by
      rw [Bool.eq_false_iff]
      intro hc
      simp only [any_eq_true, beq_iff_eq] at hc
      obtain ⟨e, he, rfl⟩ := hc
      exact h (mem_map.mpr ⟨e, he, rfl⟩)
    simp [this, h]

theorem keys_foldl_seenInsert (l : List V) : ∀ (m : Seen),
    (l.foldl seenInsert m).map (·.1) = l.foldl insNew (m.map (·.1)) := by
  induction l with
  | nil => intro m; rfl
  | cons x l ih => intro m; simp only [foldl_cons]; rw [ih, keys_seenInsert]

theorem keys_seenOf (vs : List V) : (seenOf vs).map (·.1) = dedupFirst vs := by
  simp [seenOf, keys_foldl_seenInsert, foldl_insNew_nil]

theorem comp_flag (x v : V) :
    ((fun e : V × Bool => e.1 == v) ∘ fun e : V × Bool => if (e.1 == x) = true then (e.1, false) else e) =
      fun e => e.1 == v := by
  funext e; simp only [Function.comp]; split <;> rfl

theorem any_key_iff (m : Seen) (v : V) : (m.any fun e => e.1 == v) = decide (v ∈ m.map (·.1)) := by
  rw [Bool.eq_iff_iff]
  simp only [any_eq_true, beq_iff_eq, decide_eq_true_eq, mem_map]

theorem find_seenInsert_ne (m : Seen) {x v : V} (h : x ≠ v) :
    (seenInsert m x).find? (fun e => e.1 == v) = m.find? (fun e => e.1 == v) := by
  unfold seenInsert
  split
  · rw [find?_map, comp_flag]
    cases hf : m.find? (fun e => e.1 == v) with
    | none => rfl
    | some e =>
      have h1 : e.1 = v := by simpa using find?_some hf
      have hne : ¬ e.1 = x := fun h' => h (h'.symm.trans h1)
      simp [hne]
  · rw [find?_append]; simp [h]

theorem flagIn_seenInsert_ne (m : Seen) {x v : V} (h : x ≠ v) : flagIn (seenInsert m x) v = flagIn m v := by
  unfold flagIn; rw [find_seenInsert_ne m h]

theorem flagIn_seenInsert_self (m : Seen) (v : V) :
    flagIn (seenInsert m v) v = !decide (v ∈ m.map (·.1)) := by
  unfold seenInsert flagIn
  rw [any_key_iff]
  by_cases h : v ∈ m.map (·.1)
  · rw [if_pos (by simpa using h), find?_map, comp_flag]
    cases hf : m.find? (fun e => e.1 == v) with
    | none =>
      exfalso
      rw [find?_eq_none] at hf
      obtain ⟨e, he, rfl⟩ := mem_map.mp h
      exact hf e he (by simp)
    | some e =>
      have h1 : e.1 = v := by simpa using find?_some hf
      simp [h1, h]
  · have hfind : m.find? (fun e => e.1 == v) = none := by
      rw [find?_eq_none]
      intro e he hc
      exact h (mem_map.mpr ⟨e, he, by simpa using hc⟩)
    rw [if_neg (by simpa using h), find?_append, hfind]
    simp [h]

theorem mem_insNew {acc : List V} {x v : V} : v ∈ insNew acc x ↔ v ∈ acc ∨ v = x := by
  unfold insNew
  by_cases h : x ∈ acc
  · simp only [h, if_true]
    constructor
    · exact Or.inl
    · rintro (h' | rfl)
      · exact h'
      · exact h
  · simp [h]

theorem flagIn_foldl (v : V) (l : List V) : ∀ (m : Seen),
    flagIn (l.foldl seenInsert m) v =
      if v ∈ l then (!decide (v ∈ m.map (·.1)) && l.count v == 1) else flagIn m v := by
  induction l with
  | nil => intro m; simp
  | cons x l ih =>
    intro m
    rw [foldl_cons, ih]
    by_cases hx : x = v
    · subst hx
      have hk : x ∈ (seenInsert m x).map (·.1) := by rw [keys_seenInsert, mem_insNew]; exact Or.inr rfl
      rw [if_pos (mem_cons_self), count_cons_self]
      by_cases hl : x ∈ l
      · have hc : l.count x ≥ 1 := count_pos_iff.mpr hl
        have : (l.count x + 1 == 1) = false := by
          rw [Bool.eq_false_iff]; simp; omega
        rw [if_pos hl, this]
        simp [hk]
      · have hc : l.count x = 0 := count_eq_zero.mpr hl
        rw [if_neg hl, flagIn_seenInsert_self, hc]
        simp
    · have hvx : v ≠ x := fun h => hx h.symm
      have hmem : (v ∈ x :: l) ↔ v ∈ l := by simp [hvx]
      have hcnt : (x :: l).count v = l.count v := by
        rw [count_cons_of_ne]; exact fun h => hx h
      have hkeys : (v ∈ (seenInsert m x).map (·.1)) ↔ v ∈ m.map (·.1) := by
        rw [keys_seenInsert, mem_insNew]
        constructor
        · rintro (h | h)
          · exact h
          · exact absurd h hvx
        · exact Or.inl
      rw [flagIn_seenInsert_ne m hx, hcnt]
      simp only [hmem, hkeys]

theorem flagIn_seenOf (vs : List V) (v : V) : flagIn (seenOf vs) v = (vs.count v == 1) := by
  unfold seenOf
  rw [flagIn_foldl]
  by_cases h : v ∈ vs
  · simp [h]
  · have : vs.count v = 0 := count_eq_zero.mpr h
    simp [h, flagIn, this]

theorem idxIn_seenOf (vs : List V) (v : V) :
    idxIn (seenOf vs) v = if v ∈ vs then some ((dedupFirst vs).idxOf v) else none := by
  unfold idxIn
  rw [keys_seenOf]
  simp [mem_dedupFirst]

/-! ## sorting -/

def leIdx (a b : VarKey × V × Nat) : Prop := a.2.2 ≤ b.2.2

theorem insertByIdx_perm (x : VarKey × V × Nat) : ∀ (l : List (VarKey × V × Nat)), insertByIdx x l ~ x :: l
  | [] => Perm.refl _
  | y :: r => by
    unfold insertByIdx
    split
    · exact Perm.refl _
    · exact ((insertByIdx_perm x r).cons y).trans (Perm.swap x y r)

theorem sortByIdx_perm : ∀ (l : List (VarKey × V × Nat)), sortByIdx l ~ l
  | [] => Perm.refl _
  | x :: r => by
    unfold sortByIdx
    exact (insertByIdx_perm x _).trans ((sortByIdx_perm r).cons x)

theorem insertByIdx_sorted (x : VarKey × V × Nat) : ∀ (l : List (VarKey × V × Nat)),
    l.Pairwise leIdx → (insertByIdx x l).Pairwise leIdx
  | [], _ => by simp [insertByIdx]
  | y :: r, h => by
    unfold insertByIdx
    split
    · rename_i hlt
      refine pairwise_cons.mpr ⟨?_, h⟩
      intro z hz
      rcases mem_cons.mp hz with rfl | hz
      · exact Nat.le_of_lt hlt
      · exact Nat.le_trans (Nat.le_of_lt hlt) (rel_of_pairwise_cons h hz)
    · rename_i hlt
      refine pairwise_cons.mpr ⟨?_, insertByIdx_sorted x r h.tail⟩
      intro z hz
      rcases mem_cons.mp ((insertByIdx_perm x r).subset hz) with rfl | hz
      · exact Nat.le_of_not_lt hlt
      · exact rel_of_pairwise_cons h hz

theorem sortByIdx_sorted : ∀ (l : List (VarKey × V × Nat)), (sortByIdx l).Pairwise leIdx
  | [] => by simp [sortByIdx]
  | x :: r => by
    unfold sortByIdx
    exact insertByIdx_sorted x _ (sortByIdx_sorted r)

/-! ## mechanism = specification -/

theorem filterMap_congr' {α β} {f g : α → Option β} : ∀ {l : List α}, (∀ a ∈ l, f a = g a) →
    l.filterMap f = l.filterMap g
  | [], _ => rfl
  | a :: l, h => by
    have ih := filterMap_congr' (l := l) (fun b hb => h b (mem_cons_of_mem _ hb))
    simp only [filterMap_cons, h a mem_cons_self, ih]

theorem dedupFirst_perm {l₁ l₂ : List V} (h : l₁ ~ l₂) : dedupFirst l₁ ~ dedupFirst l₂ := by
  rw [perm_ext_iff_of_nodup (nodup_dedupFirst _) (nodup_dedupFirst _)]
  intro a; rw [mem_dedupFirst, mem_dedupFirst]; exact h.mem_iff

theorem length_varsOf (occs : List Occ) : (varsOf occs).length = occs.length := by simp [varsOf]

/-- the distinct variables met by the heap writer are the distinct variables of the term. -/
theorem dictVars_perm (occs : List Occ) {order : List Nat} (hp : order ~ List.range occs.length) :
    dedupFirst (order.filterMap fun i => (varsOf occs)[i]?) ~ dedupFirst (varsOf occs) := by
  apply dedupFirst_perm
  have := hp.filterMap (fun i => (varsOf occs)[i]?)
  rwa [← length_varsOf, filterMap_getElem?_range] at this

def entryOf (akey : Nat → Nat) (L : List V) (v : V) : VarKey × V × Nat := (keyOf akey v, v, L.idxOf v)

theorem nodup_pairwise_idxOf {L : List V} (h : L.Nodup) : L.Pairwise fun a b => L.idxOf a < L.idxOf b := by
  rw [pairwise_iff_getElem]
  intro i j hi hj hij
  rw [h.idxOf_getElem i hi, h.idxOf_getElem j hj]; exact hij

theorem idxOf_inj_of_mem {L : List V} {a b : V} (ha : a ∈ L) (hb : b ∈ L) (h : L.idxOf a = L.idxOf b) : a = b := by
  have h1 := getElem_idxOf (idxOf_lt_length_of_mem ha)
  have h2 := getElem_idxOf (idxOf_lt_length_of_mem hb)
  rw [← h1, ← h2]; simp [h]

/-- sorting any permutation of the distinct variables by their index gives them in index order. -/
theorem sort_entries (akey : Nat → Nat) {L D : List V} (hL : L.Nodup) (hD : D ~ L) :
    sortByIdx (D.map (entryOf akey L)) = L.map (entryOf akey L) := by
  have hperm : sortByIdx (D.map (entryOf akey L)) ~ L.map (entryOf akey L) :=
    (sortByIdx_perm _).trans (hD.map _)
  refine Perm.eq_of_pairwise (le := leIdx) ?_ (sortByIdx_sorted _) ?_ hperm
  · intro a b ha hb hab hba
    obtain ⟨va, hva, rfl⟩ := mem_map.mp (hperm.subset ha)
    obtain ⟨vb, hvb, rfl⟩ := mem_map.mp hb
    have : L.idxOf va = L.idxOf vb := Nat.le_antisymm hab hba
    rw [idxOf_inj_of_mem hva hvb this]
  · rw [pairwise_map]
    exact (nodup_pairwise_idxOf hL).imp (fun h => Nat.le_of_lt h)

theorem varList_eq (akey : Nat → Nat) (occs : List Occ) {D : List V} (hD : ∀ v ∈ D, v ∈ varsOf occs) :
    ((attach akey D).filterMap fun e => (idxIn (seenOf (varsOf occs)) e.2).map fun idx => (e.1, e.2, idx)) =
      D.map (entryOf akey (dedupFirst (varsOf occs))) := by
  unfold attach
  rw [filterMap_map, ← filterMap_eq_map]
  apply filterMap_congr'
  intro v hv
  simp [idxIn_seenOf, hD v hv, entryOf]

def singleFn (vs : List V) : V → Option (String × V)
  | .named n => if vs.count (.named n) == 1 then some (n, .named n) else none
  | .site _ => none

theorem singles_eq (akey : Nat → Nat) (occs : List Occ) (D : List V) :
    ((attach akey D).filterMap fun e =>
      match e.1 with
      | .name n => if flagIn (seenOf (varsOf occs)) e.2 then some (n, e.2) else none
      | .anonK _ => none) = D.filterMap (singleFn (varsOf occs)) := by
  unfold attach
  rw [filterMap_map]
  apply filterMap_congr'
  intro v _
  cases v <;> simp [keyOf, singleFn, flagIn_seenOf]

theorem specSingletons_eq (occs : List Occ) :
    specSingletons occs = (dedupFirst (varsOf occs)).filterMap (singleFn (varsOf occs)) := by
  unfold specSingletons specVariableNames specVariables
  rw [filter_filterMap]
  apply filterMap_congr'
  intro v _
  cases v with
  | named n =>
    simp only [nameEntry, singleFn, Option.filter]
  | site i => simp [nameEntry, singleFn]

theorem keyName_entryOf (akey : Nat → Nat) (L : List V) (v : V) : keyName (entryOf akey L v) = nameEntry v := by
  cases v <;> rfl

theorem mechanism_eq (akey : Nat → Nat) (hk : ∀ i j, akey i = akey j → i = j) (occs : List Occ)
    {order : List Nat} (hp : order ~ List.range occs.length) :
    (mechanism akey occs order).variables = specVariables occs ∧
    (mechanism akey occs order).variableNames = specVariableNames occs ∧
    (mechanism akey occs order).singletons =
      (dedupFirst (order.filterMap fun i => (varsOf occs)[i]?)).filterMap (singleFn (varsOf occs)) := by
  have hD := dictVars_perm occs hp
  have hmem : ∀ v ∈ dedupFirst (order.filterMap fun i => (varsOf occs)[i]?), v ∈ varsOf occs := by
    intro v hv; exact mem_dedupFirst.mp (hD.subset hv)
  have hsort := sort_entries akey (nodup_dedupFirst (varsOf occs)) hD
  unfold mechanism
  simp only [buildDict_eq hk, varList_eq akey occs hmem, hsort]
  refine ⟨?_, ?_, singles_eq akey occs _⟩
  · rw [map_map]
    show map (fun v => v) _ = _
    simp [specVariables]
  · rw [filterMap_map]
    simp only [specVariableNames, specVariables]
    apply filterMap_congr'
    intro v _
    exact keyName_entryOf akey _ v

end Scryer.ReadVars
