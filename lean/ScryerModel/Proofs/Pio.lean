import ScryerModel.Proofs.Stream
import ScryerModel.Model.Pio
/-! Lemmas for C47 (`Model/Pio.lean`). -/
namespace Scryer.Pio
open Scryer.Utf8 Scryer.Stream


/-! ### chunks -/
theorem flatten_chunksF : ∀ (fuel k : Nat) (s : List Nat), 1 ≤ k → s.length ≤ fuel →
    (chunksF fuel k s).flatten = s
  | 0, k, s, _, h => by
    have : s = [] := List.eq_nil_of_length_eq_zero (by omega)
    subst this; rfl
  | fuel+1, k, s, hk, h => by
    unfold chunksF
    split
    · rename_i hs; rw [hs]; rfl
    · rename_i hs
      have hpos : 0 < s.length := List.length_pos_iff.2 hs
      have ih := flatten_chunksF fuel k (s.drop k) hk (by simp; omega)
      simp only [List.flatten_cons, ih, List.take_append_drop]

theorem chunksF_bounds : ∀ (fuel k : Nat) (s : List Nat), 1 ≤ k →
    ∀ c ∈ chunksF fuel k s, c ≠ [] ∧ c.length ≤ k
  | 0, _, _, _ => by intro c hc; simp [chunksF] at hc
  | fuel+1, k, s, hk => by
    intro c hc
    unfold chunksF at hc
    split at hc
    · simp at hc
    · rename_i hs
      rcases List.mem_cons.1 hc with h | h
      · subst h
        constructor
        · intro h0
          rcases List.take_eq_nil_iff.1 h0 with h | h
          · omega
          · exact hs h
        · simp; omega
      · exact chunksF_bounds fuel k _ hk c h

/-! ### one block over an encoding -/
theorem takeChars_encodeAll : ∀ (k : Nat) (cps : List Nat), (∀ c ∈ cps, isScalar c = true) →
    takeChars k (encodeAll cps) = (cps.take k, (encodeAll (cps.take k)).length)
  | 0, cps, _ => by simp [takeChars, encodeAll]
  | k+1, [], _ => by simp [takeChars, encodeAll, decodeFirst]
  | k+1, c :: r, hs => by
    have hc : isScalar c = true := hs c List.mem_cons_self
    have ih := takeChars_encodeAll k r (fun x hx => hs x (List.mem_cons_of_mem _ hx))
    have hd : decodeFirst (encodeAll (c :: r)) = .ok c (lenUtf8 c) := decodeFirst_encode hc _
    unfold takeChars
    rw [hd]
    simp only
    have hdrop : (encodeAll (c :: r)).drop (lenUtf8 c) = encodeAll r := by
      show (encode c ++ encodeAll r).drop (lenUtf8 c) = _
      rw [← encode_length c, List.drop_left]
    rw [hdrop, ih]
    simp [encodeAll, encode_length]

theorem encodeAll_take_drop (cps : List Nat) (m : Nat) :
    encodeAll cps = encodeAll (cps.take m) ++ encodeAll (cps.drop m) := by
  rw [← encodeAll_append, List.take_append_drop]

theorem encodeAll_length_pos {cps : List Nat} (h : cps ≠ []) : 0 < (encodeAll cps).length := by
  cases cps with
  | nil => exact absurd rfl h
  | cons c r =>
    simp only [encodeAll, List.length_append, encode_length]
    have := (lenUtf8_le c).1
    omega

/-- `render_step` at the byte position that follows the first `m` characters. -/
theorem readBlock_at (k : Nat) (cps : List Nat) (hs : ∀ c ∈ cps, isScalar c = true) (m : Nat) :
    readBlock k (encodeAll cps) (encodeAll (cps.take m)).length =
      if cps.drop m = [] then none
      else some ((cps.drop m).take k, (encodeAll (cps.take (m + k))).length) := by
  unfold readBlock
  have hsplit := encodeAll_take_drop cps m
  have hlen : (encodeAll cps).length = (encodeAll (cps.take m)).length + (encodeAll (cps.drop m)).length := by
    have := congrArg List.length hsplit
    simpa only [List.length_append] using this
  by_cases hd : cps.drop m = []
  · rw [if_pos hd, if_pos]
    rw [hlen, hd]; simp [encodeAll]
  · rw [if_neg hd, if_neg]
    · have hdrop : (encodeAll cps).drop (encodeAll (cps.take m)).length = encodeAll (cps.drop m) := by
        conv => lhs; rw [hsplit]
        rw [List.drop_left]
      simp only
      rw [hdrop, takeChars_encodeAll k _ (fun x hx => hs x (List.mem_of_mem_drop hx))]
      simp only [Option.some.injEq, Prod.mk.injEq, true_and]
      have : cps.take (m + k) = cps.take m ++ (cps.drop m).take k := by
        rw [List.take_add]
      rw [this, encodeAll_append]
      simp
    · have := encodeAll_length_pos hd
      omega



theorem renderAll_eq_chunksF (k : Nat) (cps : List Nat) (hs : ∀ c ∈ cps, isScalar c = true) (hk : 1 ≤ k) :
    ∀ (fuel f2 m : Nat), (cps.drop m).length < fuel → (cps.drop m).length ≤ f2 →
      renderAll fuel k (encodeAll cps) (encodeAll (cps.take m)).length = chunksF f2 k (cps.drop m)
  | 0, _, _, h, _ => by omega
  | fuel+1, f2, m, h1, h2 => by
    unfold renderAll
    rw [readBlock_at k cps hs m]
    by_cases hd : cps.drop m = []
    · rw [if_pos hd, hd]
      cases f2 <;> simp [chunksF]
    · rw [if_neg hd]
      have hpos : 0 < (cps.drop m).length := List.length_pos_iff.2 hd
      obtain ⟨f2', rfl⟩ : ∃ f, f2 = f + 1 := ⟨f2 - 1, by omega⟩
      have hdd : (cps.drop m).drop k = cps.drop (m + k) := by rw [List.drop_drop]
      have hl : (cps.drop (m + k)).length = (cps.drop m).length - k := by rw [← hdd]; simp; omega
      simp only
      rw [renderAll_eq_chunksF k cps hs hk fuel f2' (m + k) (by omega) (by omega)]
      conv => rhs; unfold chunksF
      rw [if_neg hd, hdd]

/-- the invariant of the partially materialised list over the file `encodeAll cps`. -/
def LLInv (k : Nat) (cps : List Nat) (l : LL) : Prop :=
  l.have_ = cps.take (k * l.reads) ∧ l.off = (encodeAll (cps.take (k * l.reads))).length ∧
    (l.fin = true → cps.length ≤ k * l.reads) ∧ k * l.reads < cps.length + k

theorem LLInv_init (k : Nat) (cps : List Nat) (hk : 1 ≤ k) : LLInv k cps LL.init := by
  refine ⟨by simp [LL.init], by simp [LL.init, encodeAll], by simp [LL.init], by simp [LL.init]; omega⟩

theorem forceStep_inv (k : Nat) (cps : List Nat) (hs : ∀ c ∈ cps, isScalar c = true) {l : LL}
    (h : LLInv k cps l) :
    LLInv k cps (forceStep k (encodeAll cps) l) ∧ l.reads ≤ (forceStep k (encodeAll cps) l).reads ∧
      (forceStep k (encodeAll cps) l).reads ≤ l.reads + 1 ∧
      ((forceStep k (encodeAll cps) l).reads = l.reads + 1 → k * l.reads < cps.length) ∧
      (l.fin = false → (forceStep k (encodeAll cps) l).reads = l.reads → (forceStep k (encodeAll cps) l).fin = true) := by
  unfold forceStep
  split
  · rename_i hf
    exact ⟨h, Nat.le_refl _, Nat.le_succ _, fun e => by omega, fun e => by rw [hf] at e; cases e⟩
  · have hrb := readBlock_at k cps hs (k * l.reads)
    rw [← h.2.1] at hrb
    rw [hrb]
    by_cases hd : cps.drop (k * l.reads) = []
    · rw [if_pos hd]
      refine ⟨⟨h.1, h.2.1, fun _ => List.drop_eq_nil_iff.1 hd, h.2.2.2⟩, Nat.le_refl _, Nat.le_succ _, fun e => by simp at e, fun _ _ => rfl⟩
    · rw [if_neg hd]
      have hlt : k * l.reads < cps.length := by
        rcases Nat.lt_or_ge (k * l.reads) cps.length with h' | h'
        · exact h'
        · exact absurd (List.drop_eq_nil_iff.2 h') hd
      refine ⟨⟨?_, ?_, fun e => by simp at e, ?_⟩, Nat.le_succ _, Nat.le_refl _, fun _ => hlt, fun _ e => by simp at e⟩
      · show l.have_ ++ (cps.drop (k * l.reads)).take k = cps.take (k * (l.reads + 1))
        rw [h.1, Nat.mul_succ, List.take_add]
      · show (encodeAll (cps.take (k * l.reads + k))).length = (encodeAll (cps.take (k * (l.reads + 1)))).length
        rw [Nat.mul_succ]
      · show k * (l.reads + 1) < cps.length + k
        rw [Nat.mul_succ]; omega



theorem demand_fin : ∀ (fuel k : Nat) (bytes : List Nat) (n : Nat) (l : LL), l.fin = true →
    demand fuel k bytes n l = l
  | 0, _, _, _, _, _ => rfl
  | fuel+1, k, bytes, n, l, h => by unfold demand; simp [h]

/-- demanding cell `n`: the invariant is kept, blocks are only read while they are needed
    (at most `n / k + 1` in total), and with `n + 2` steps of fuel the cell exists or the list
    has ended. -/
theorem demand_spec (k : Nat) (cps : List Nat) (hs : ∀ c ∈ cps, isScalar c = true) (hk : 1 ≤ k) (n : Nat) :
    ∀ (fuel : Nat) (l : LL), LLInv k cps l →
      LLInv k cps (demand fuel k (encodeAll cps) n l) ∧
      l.reads ≤ (demand fuel k (encodeAll cps) n l).reads ∧
      (demand fuel k (encodeAll cps) n l).reads ≤ max l.reads (n / k + 1) ∧
      (n + 2 ≤ fuel + l.reads → ((demand fuel k (encodeAll cps) n l).fin = true ∨
          n < (demand fuel k (encodeAll cps) n l).have_.length))
  | 0, l, h => by
    refine ⟨h, Nat.le_refl _, Nat.le_max_left _ _, fun hf => ?_⟩
    right
    show n < l.have_.length
    have h4 := h.2.2.2
    have hr : n + 2 ≤ l.reads := by omega
    have hkr : l.reads ≤ k * l.reads := Nat.le_mul_of_pos_left _ (by omega)
    have hk1 : k * l.reads = k * (l.reads - 1) + k := by
      obtain ⟨r, hr'⟩ : ∃ r, l.reads = r + 1 := ⟨l.reads - 1, by omega⟩
      rw [hr', Nat.mul_succ]; simp
    have hkr1 : l.reads - 1 ≤ k * (l.reads - 1) := Nat.le_mul_of_pos_left _ (by omega)
    rw [h.1, List.length_take]
    omega
  | fuel+1, l, h => by
    unfold demand
    split
    · rename_i hc
      refine ⟨h, Nat.le_refl _, Nat.le_max_left _ _, fun _ => ?_⟩
      simp only [Bool.or_eq_true, decide_eq_true_eq] at hc
      exact hc
    · rename_i hc
      simp only [Bool.or_eq_true, decide_eq_true_eq, not_or, Bool.not_eq_true, Nat.not_lt] at hc
      obtain ⟨hfin, hlen⟩ := hc
      have fs := forceStep_inv k cps hs h
      obtain ⟨i1, i2, i3, i4, i5⟩ := fs
      have ih := demand_spec k cps hs hk n fuel (forceStep k (encodeAll cps) l) i1
      obtain ⟨j1, j2, j3, j4⟩ := ih
      refine ⟨j1, Nat.le_trans i2 j2, ?_, fun hf => ?_⟩
      · -- reads bound
        have hb : (forceStep k (encodeAll cps) l).reads ≤ max l.reads (n / k + 1) := by
          by_cases he : (forceStep k (encodeAll cps) l).reads = l.reads + 1
          · have hlt := i4 he
            have hhl : l.have_.length = k * l.reads := by
              rw [h.1, List.length_take]; omega
            have : l.reads ≤ n / k := (Nat.le_div_iff_mul_le (by omega)).2 (by rw [Nat.mul_comm]; omega)
            omega
          · have : (forceStep k (encodeAll cps) l).reads = l.reads := by omega
            omega
        omega
      · by_cases he : (forceStep k (encodeAll cps) l).reads = l.reads + 1
        · exact j4 (by omega)
        · have her : (forceStep k (encodeAll cps) l).reads = l.reads := by omega
          have hf1 := i5 hfin her
          rw [demand_fin fuel k _ n _ hf1]
          exact Or.inl hf1


end Scryer.Pio
