import ScryerModel.Model.Cleanup
/-
Lemmas for Props/C12.lean: unification only extends a substitution (so that the recovery goal of a
catch/3 sees the substitution of the catch entry plus the catcher unifier), counting of clean-up
markers, and the invariants of the clean-up bookkeeping machine `Scryer.Exc.Proto`.
-/
namespace Scryer.Exc
open Scryer Scryer.Solve

/-! ### unification extends the substitution -/

/-- `σ'` is `σ` with newer bindings in front (substitutions are association lists, newest first). -/
def Extends (σ' σ : Subst) : Prop := ∃ δ, σ' = δ ++ σ

theorem Extends.refl (σ : Subst) : Extends σ σ := ⟨[], rfl⟩

theorem Extends.trans {a b c : Subst} (h1 : Extends a b) (h2 : Extends b c) : Extends a c := by
  obtain ⟨d1, rfl⟩ := h1
  obtain ⟨d2, rfl⟩ := h2
  exact ⟨d1 ++ d2, by simp⟩

theorem Extends.cons (p : String × Term) (σ : Subst) : Extends (p :: σ) σ := ⟨[p], rfl⟩

theorem bindVar_extends (n : Nat) (σ : Subst) (v : String) (t : Term) (σ' : Subst)
    (h : bindVar n σ v t = some (some σ')) : Extends σ' σ := by
  unfold bindVar at h
  cases ho : occurs n σ v t with
  | none => simp [ho] at h
  | some b =>
    rw [ho] at h
    cases b with
    | true => simp at h
    | false =>
      simp at h
      subst h
      exact Extends.cons _ _

theorem unify_extends_aux : ∀ (n : Nat),
    (∀ (σ : Subst) (a b : Term) (σ' : Subst), unify n σ a b = some (some σ') → Extends σ' σ) ∧
    (∀ (σ : Subst) (as bs : List Term) (σ' : Subst), unifyList n σ as bs = some (some σ') →
        Extends σ' σ) := by
  intro n
  induction n with
  | zero => constructor <;> intro σ a b r h <;> simp [unify, unifyList] at h
  | succ n ih =>
    obtain ⟨ih1, ih2⟩ := ih
    constructor
    · intro σ a b r h
      simp only [unify] at h
      cases ha : walk n σ a with
      | none => simp [ha] at h
      | some a' =>
        rw [ha] at h
        cases hb : walk n σ b with
        | none => simp [hb] at h
        | some b' =>
          rw [hb] at h
          simp only at h
          split at h
          · split at h
            · simp at h; subst h; exact Extends.refl _
            · simp at h; subst h; exact Extends.cons _ _
          · exact bindVar_extends n σ _ _ r h
          · exact bindVar_extends n σ _ _ r h
          · split at h
            · exact ih2 σ _ _ r h
            · simp at h
          · split at h
            · simp at h; subst h; exact Extends.refl _
            · simp at h
    · intro σ as bs r h
      cases as with
      | nil =>
        cases bs with
        | nil => simp [unifyList] at h; subst h; exact Extends.refl _
        | cons b bs => simp [unifyList] at h
      | cons a as =>
        cases bs with
        | nil => simp [unifyList] at h
        | cons b bs =>
          simp only [unifyList] at h
          cases h1 : unify n σ a b with
          | none => simp [h1] at h
          | some o =>
            rw [h1] at h
            cases o with
            | none => simp at h
            | some σ1 =>
              simp only at h
              exact (ih2 σ1 as bs r h).trans (ih1 σ a b σ1 h1)

/-- a successful unification only adds bindings in front of the substitution it started from. -/
theorem unify_extends (n : Nat) (σ : Subst) (a b : Term) (σ' : Subst)
    (h : unify n σ a b = some (some σ')) : Extends σ' σ := (unify_extends_aux n).1 σ a b σ' h

/-- bindings of the older substitution are still there (unless shadowed by a newer binding of the
    same name, which unification never creates for a bound variable). -/
theorem lookup_append_of_none (δ σ : Subst) (v : String) (h : lookup δ v = none) :
    lookup (δ ++ σ) v = lookup σ v := by
  induction δ with
  | nil => rfl
  | cons p δ ih =>
    obtain ⟨w, t⟩ := p
    simp only [List.cons_append, lookup] at h ⊢
    split at h
    · simp at h
    · rename_i hw; simp only [hw]; exact ih h

/-! ### counting clean-up markers -/

/-- number of clean-up runs recorded in a trace -/
def cls : List Item → Nat
  | [] => 0
  | .cl _ :: rest => cls rest + 1
  | _ :: rest => cls rest

@[simp] theorem cls_nil : cls [] = 0 := rfl
@[simp] theorem cls_cl (k : CK) (r : List Item) : cls (.cl k :: r) = cls r + 1 := rfl
@[simp] theorem cls_ev (t : Term) (r : List Item) : cls (.ev t :: r) = cls r := rfl
@[simp] theorem cls_su (r : List Item) : cls (.su :: r) = cls r := rfl
@[simp] theorem cls_ans (a : XS) (r : List Item) : cls (.ans a :: r) = cls r := rfl

@[simp] theorem cls_append (a b : List Item) : cls (a ++ b) = cls a + cls b := by
  induction a with
  | nil => simp
  | cons x a ih =>
    cases x <;> simp [ih] <;> omega

/-- the handler goal `c` never records a clean-up marker itself (it contains no
    `setup_call_cleanup/3` that gets as far as running its own handler). -/
def Quiet (call : Call) (c : Term) : Prop :=
  ∀ σ ctr, cls (runClean call σ ctr c).items = 0

theorem fireCut_cls (call : Call) : ∀ (ps : List Pending) (σ : Subst) (c : Nat),
    (∀ p ∈ ps, Quiet call p.goal) → (fireCut call ps σ c).oof = false →
    cls (fireCut call ps σ c).items = ps.length := by
  intro ps
  induction ps with
  | nil => intro σ c _ _; simp [fireCut]
  | cons p ps ih =>
    intro σ c hq ho
    simp only [fireCut] at ho ⊢
    by_cases h1 : (runClean call σ c p.goal).oof = true
    · simp [h1] at ho
    · simp only [h1, if_false, Bool.false_eq_true] at ho ⊢
      by_cases h2 : (fireCut call ps ((runClean call σ c p.goal).st.getD (σ, c)).1
          ((runClean call σ c p.goal).st.getD (σ, c)).2).oof = true
      · simp [h2] at ho
      · simp only [h2, if_false, Bool.false_eq_true]
        have hp := hq p (by simp) σ c
        have := ih _ _ (fun q hq' => hq q (by simp [hq'])) (by simpa using h2)
        simp [hp, this]

theorem fireExc_cls (call : Call) : ∀ (ps : List Pending) (its : List Item),
    (∀ p ∈ ps, Quiet call p.goal) → fireExc call ps = some its → cls its = ps.length := by
  intro ps
  induction ps with
  | nil => intro its _ h; simp [fireExc] at h; subst h; rfl
  | cons p ps ih =>
    intro its hq h
    simp only [fireExc] at h
    split at h
    · simp at h
    · cases hr : fireExc call ps with
      | none => simp [hr] at h
      | some r =>
        rw [hr] at h
        simp at h
        subst h
        have hp := hq p (by simp) p.σ0 p.ctr0
        have := ih r (fun q hq' => hq q (by simp [hq'])) hr
        simp [hp, this]

/-! ### clean-up runs deliver no answers -/

theorem answersOf_append (a b : List Item) : answersOf (a ++ b) = answersOf a ++ answersOf b := by
  induction a with
  | nil => rfl
  | cons x a ih => cases x <;> simp [answersOf, ih]

theorem splitFirst_pre_no_answers : ∀ (l : List Item), answersOf (splitFirst l).1 = [] := by
  intro l
  induction l with
  | nil => rfl
  | cons x l ih => cases x <;> simp [splitFirst, answersOf, ih]

theorem runClean_no_answers (call : Call) (σ : Subst) (c : Nat) (g : Term) :
    answersOf (runClean call σ c g).items = [] := by
  simp only [runClean]
  split
  · rfl
  · have := splitFirst_pre_no_answers (call ⟨σ, c, true, []⟩ g).items
    split <;> rename_i heq <;> simp only [heq] at this <;> exact this

theorem fireCut_no_answers (call : Call) : ∀ (ps : List Pending) (σ : Subst) (c : Nat),
    answersOf (fireCut call ps σ c).items = [] := by
  intro ps
  induction ps with
  | nil => intro σ c; rfl
  | cons p ps ih =>
    intro σ c
    simp only [fireCut]
    split
    · rfl
    · split
      · rfl
      · simp [answersOf, answersOf_append, runClean_no_answers, ih]

/-! ### the bookkeeping machine -/
namespace Proto

def ids (c : List (Nat × Nat)) : List Nat := c.map Prod.fst

def installs : List Op → List Nat
  | [] => []
  | .install id :: os => id :: installs os
  | _ :: os => installs os

/-- the handlers that `runCleaners` runs and those it leaves are a split of `cont_pts`. -/
theorem runCleaners_split (b : Nat) : ∀ (c : List (Nat × Nat)),
    ids c = (runCleaners b c).2 ++ ids (runCleaners b c).1 := by
  intro c
  induction c with
  | nil => rfl
  | cons p c ih =>
    obtain ⟨id, cutoff⟩ := p
    simp only [runCleaners]
    split
    · simp only [ids, List.map_cons, List.cons_append] at ih ⊢
      rw [← ih]
    · simp [ids]

theorem mem_takeWhile_true {α : Type} (q : α → Bool) : ∀ (l : List α) (x : α), x ∈ l.takeWhile q → q x = true := by
  intro l
  induction l with
  | nil => intro x hx; simp at hx
  | cons a l ih =>
    intro x hx
    rw [List.takeWhile_cons] at hx
    split at hx
    · rename_i ha
      rcases List.mem_cons.mp hx with rfl | h
      · exact ha
      · exact ih x h
    · simp at hx

/-- the handlers run by the (repaired) loop are exactly the leading entries whose cut-off is above
    the new top of the choice point stack. -/
theorem runCleaners_ran (b : Nat) : ∀ (c : List (Nat × Nat)),
    (runCleaners b c).2 = (c.takeWhile (fun p => decide (b < p.2))).map Prod.fst
    ∧ (runCleaners b c).1 = c.dropWhile (fun p => decide (b < p.2)) := by
  intro c
  induction c with
  | nil => exact ⟨rfl, rfl⟩
  | cons p c ih =>
    obtain ⟨id, cutoff⟩ := p
    simp only [runCleaners]
    by_cases h : b < cutoff
    · simp [h, ih.1, ih.2]
    · simp [h]

/-- `cont_pts` is ordered by strictly decreasing cut-off, and every cut-off is a live choice point. -/
def Sorted (s : PS) : Prop :=
  s.cont.Pairwise (fun a b => b.2 < a.2) ∧ ∀ p ∈ s.cont, 1 ≤ p.2 ∧ p.2 ≤ s.b

theorem runCleaners_left (b : Nat) : ∀ (c : List (Nat × Nat)),
    c.Pairwise (fun a b => b.2 < a.2) →
    (runCleaners b c).1.Pairwise (fun a b => b.2 < a.2) ∧
    (∀ p ∈ (runCleaners b c).1, p ∈ c ∧ p.2 ≤ b) := by
  intro c
  induction c with
  | nil => intro _; simp [runCleaners]
  | cons p c ih =>
    intro hs
    obtain ⟨id, cutoff⟩ := p
    simp only [runCleaners]
    split
    · have := ih (List.Pairwise.of_cons hs)
      refine ⟨this.1, fun q hq => ⟨List.mem_cons_of_mem _ (this.2 q hq).1, (this.2 q hq).2⟩⟩
    · rename_i hlt
      refine ⟨hs, ?_⟩
      intro q hq
      refine ⟨hq, ?_⟩
      rcases List.mem_cons.mp hq with rfl | hq'
      · simpa using Nat.le_of_not_lt hlt
      · have := (List.pairwise_cons.mp hs).1 q hq'
        simp at this hlt
        omega

theorem step_sorted (s : PS) (o : Op) (h : Sorted s) : Sorted (step s o) := by
  obtain ⟨b, cont, ran⟩ := s
  obtain ⟨hp, hb⟩ := h
  simp only at hp hb
  cases o with
  | push =>
    refine ⟨hp, fun p hm => ?_⟩
    have := hb p hm
    simp only [step]; omega
  | pop =>
    cases cont with
    | nil => simp [step, Sorted]
    | cons p rest =>
      obtain ⟨id, cutoff⟩ := p
      simp only [step]
      split
      · rename_i hlt
        refine ⟨hp, fun q hq => ?_⟩
        have h1 := hb q hq
        refine ⟨h1.1, ?_⟩
        rcases List.mem_cons.mp hq with rfl | hr
        · simp only; omega
        · have := (List.pairwise_cons.mp hp).1 q hr
          simp only at this ⊢; omega
      · exact ⟨hp, hb⟩
  | install id =>
    simp only [step]
    refine ⟨?_, ?_⟩
    · refine List.pairwise_cons.mpr ⟨fun q hq => ?_, hp⟩
      have := hb q hq
      simp only; omega
    · intro q hq
      rcases List.mem_cons.mp hq with rfl | hr
      · simp only; omega
      · have := hb q hr
        simp only; omega
  | exit =>
    cases cont with
    | nil => exact ⟨hp, hb⟩
    | cons p rest =>
      obtain ⟨id, cutoff⟩ := p
      simp only [step]
      split
      · rename_i heq
        refine ⟨(List.pairwise_cons.mp hp).2, fun q hq => ?_⟩
        have h1 := hb q (List.mem_cons_of_mem _ hq)
        have h2 := (List.pairwise_cons.mp hp).1 q hq
        simp only at h2 heq ⊢
        omega
      · exact ⟨hp, hb⟩
  | failInto =>
    cases cont with
    | nil => exact ⟨hp, hb⟩
    | cons p rest =>
      obtain ⟨id, cutoff⟩ := p
      simp only [step]
      split
      · rename_i heq
        refine ⟨(List.pairwise_cons.mp hp).2, fun q hq => ?_⟩
        have h1 := hb q (List.mem_cons_of_mem _ hq)
        have h2 := (List.pairwise_cons.mp hp).1 q hq
        simp only at h2 heq ⊢
        omega
      · exact ⟨hp, hb⟩
  | cut k =>
    simp only [step]
    split
    · have := runCleaners_left k cont hp
      refine ⟨this.1, fun q hq => ?_⟩
      have h1 := this.2 q hq
      exact ⟨(hb q h1.1).1, h1.2⟩
    · exact ⟨hp, hb⟩
  | unwind k =>
    simp only [step]
    split
    · have := runCleaners_left k cont hp
      refine ⟨this.1, fun q hq => ?_⟩
      have h1 := this.2 q hq
      exact ⟨(hb q h1.1).1, h1.2⟩
    · exact ⟨hp, hb⟩

theorem run_sorted : ∀ (os : List Op) (s : PS), Sorted s → Sorted (run s os) := by
  intro os
  induction os with
  | nil => intro s h; exact h
  | cons o os ih => intro s h; exact ih _ (step_sorted s o h)

theorem step_count (x : Nat) (s : PS) (o : Op) :
    ((step s o).ran ++ ids (step s o).cont).count x
      = (s.ran ++ ids s.cont).count x + (installs [o]).count x := by
  obtain ⟨b, cont, ran⟩ := s
  cases o with
  | push => simp [step, installs]
  | pop =>
    cases cont with
    | nil => simp [step, installs]
    | cons p rest =>
      obtain ⟨id, cutoff⟩ := p
      simp only [step, installs]
      split <;> simp
  | install id =>
    simp only [step, installs, ids, List.map_cons, List.count_append, List.count_cons, List.count_nil]
    omega
  | exit =>
    cases cont with
    | nil => simp [step, installs]
    | cons p rest =>
      obtain ⟨id, cutoff⟩ := p
      simp only [step, installs]
      split
      · simp only [ids, List.map_cons, List.count_append, List.count_cons, List.count_nil]; omega
      · simp
  | failInto =>
    cases cont with
    | nil => simp [step, installs]
    | cons p rest =>
      obtain ⟨id, cutoff⟩ := p
      simp only [step, installs]
      split
      · simp only [ids, List.map_cons, List.count_append, List.count_cons, List.count_nil]; omega
      · simp
  | cut k =>
    simp only [step, installs]
    split
    · have := runCleaners_split k cont
      simp only [List.count_append, List.count_nil, Nat.add_zero]
      rw [this, List.count_append]; omega
    · simp
  | unwind k =>
    simp only [step, installs]
    split
    · have := runCleaners_split k cont
      simp only [List.count_append, List.count_nil, Nat.add_zero]
      rw [this, List.count_append]; omega
    · simp

theorem count_eq_one_of_nodup : ∀ (l : List Nat), l.Nodup → ∀ x ∈ l, l.count x = 1 := by
  intro l
  induction l with
  | nil => intro _ x hx; simp at hx
  | cons a l ih =>
    intro hn x hx
    have hn' := List.nodup_cons.mp hn
    rw [List.count_cons]
    rcases List.mem_cons.mp hx with rfl | hx'
    · simp [List.count_eq_zero_of_not_mem hn'.1]
    · have : a ≠ x := fun h => hn'.1 (h ▸ hx')
      simp [ih hn'.2 x hx', this]

theorem installs_cons (o : Op) (os : List Op) : installs (o :: os) = installs [o] ++ installs os := by
  cases o <;> simp [installs]

theorem run_count (x : Nat) : ∀ (os : List Op) (s : PS),
    ((run s os).ran ++ ids (run s os).cont).count x
      = (s.ran ++ ids s.cont).count x + (installs os).count x := by
  intro os
  induction os with
  | nil => intro s; simp [run, installs]
  | cons o os ih =>
    intro s
    simp only [run]
    rw [ih (step s o), step_count, installs_cons o os]
    simp only [List.count_append]
    omega

end Proto

end Scryer.Exc
