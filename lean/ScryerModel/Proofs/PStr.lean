import ScryerModel.Model.PStr
import ScryerModel.Proofs.Utf8
import ScryerModel.Proofs.Heap
/-! Lemmas for C20 (strings behave as the character lists they denote). -/
namespace Scryer.PStr
open Scryer.Heap (pstrSentinelLength cellIndex heapIndex nextMultipleOf8 pstrTailIdx)
open Scryer.Utf8 (encode decodeFirst lenUtf8 isScalar)

/-! ## representation level -/

theorem denote_foldr (l : List Nat) (t : Tail) : denote (l.foldr .lis (.tl t)) = (l, t) := by
  induction l with
  | nil => rfl
  | cons x l ih => simp only [List.foldr_cons, denote, ih]

theorem walk_eq_denote (r : Rep) : walk r = denote r := by
  induction r with
  | tl t => rfl
  | lis c r ih => simp only [walk, denote, ih]
  | seg cs k r ih => simp only [walk, denote, ih]

theorem copy_denote (r : Rep) : denote (copy r) = denote r := by
  induction r with
  | tl t => rfl
  | lis c r ih => simp only [copy, denote, ih]
  | seg cs k r ih => simp only [copy, denote, ih, List.drop_zero]

theorem copy_wf (r : Rep) (h : WF r) : WF (copy r) := by
  induction r with
  | tl t => trivial
  | lis c r ih => exact ih h
  | seg cs k r ih =>
    refine ⟨?_, ih h.2⟩
    have := h.1
    simp only [List.length_drop]; omega

/-- the decomposition is the head and tail of the denoted list. -/
theorem step_some {r : Rep} (h : WF r) {c : Nat} {s : Rep} (e : step r = some (c, s)) :
    denote r = (c :: (denote s).1, (denote s).2) ∧ WF s ∧ size s < size r := by
  cases r with
  | tl t => simp [step] at e
  | lis d r =>
    simp only [step, Option.some.injEq, Prod.mk.injEq] at e
    obtain ⟨rfl, rfl⟩ := e
    exact ⟨rfl, h, by simp only [size]; omega⟩
  | seg cs k r =>
    simp only [step] at e
    cases hd : cs.drop k with
    | nil => rw [hd] at e; simp at e
    | cons d rest =>
      rw [hd] at e
      simp only [Option.some.injEq, Prod.mk.injEq] at e
      obtain ⟨rfl, rfl⟩ := e
      by_cases hr : rest = []
      · subst hr
        rw [if_pos rfl]
        simp only [denote, hd, List.singleton_append, true_and]
        exact ⟨h.2, by have := h.1; simp only [size]; omega⟩
      · have hk : cs.drop (k + 1) = rest := by
          rw [← List.drop_drop, hd]; rfl
        simp only [if_neg hr, denote, hd, hk, List.cons_append, true_and]
        have : (cs.drop (k+1)).length ≠ 0 := by rw [hk]; exact fun h0 => hr (List.length_eq_zero_iff.mp h0)
        simp only [List.length_drop] at this
        exact ⟨⟨by omega, h.2⟩, by simp only [size]; omega⟩

theorem step_seg_some {cs : List Nat} {k : Nat} {r : Rep} (h : k < cs.length) :
    ∃ c s, step (.seg cs k r) = some (c, s) := by
  simp only [step]
  cases hd : cs.drop k with
  | nil =>
    have := congrArg List.length hd
    simp only [List.length_drop, List.length_nil] at this; omega
  | cons d rest => exact ⟨_, _, rfl⟩

theorem step_none_iff {r : Rep} (h : WF r) : step r = none ↔ ∃ t, r = .tl t := by
  cases r with
  | tl t => exact ⟨fun _ => ⟨t, rfl⟩, fun _ => rfl⟩
  | lis c r => simp [step]
  | seg cs k r =>
    obtain ⟨c, s, e⟩ := step_seg_some (r := r) h.1
    simp [e]

/-- non-tail well-formed representations denote non-empty lists. -/
theorem denote_ne_nil_of_step {r : Rep} (h : WF r) {c s} (e : step r = some (c, s)) :
    (denote r).1 ≠ [] := by
  rw [(step_some h e).1]; exact List.cons_ne_nil _ _

/-! ### compare_pstr_segments at character level -/

theorem cmpSeg_spec (a b : List Nat) (pos : Nat) :
    match cmpSeg a b pos with
    | .cont .tail .tail => a = b
    | .cont .tail (.off q) => ∃ b', b' ≠ [] ∧ b = a ++ b' ∧ q = pos + a.length
    | .cont (.off q) .tail => ∃ a', a' ≠ [] ∧ a = b ++ a' ∧ q = pos + b.length
    | .cont (.off _) (.off _) => False
    | .less => ∃ p x y a' b', a = p ++ x :: a' ∧ b = p ++ y :: b' ∧ x < y
    | .greater => ∃ p x y a' b', a = p ++ x :: a' ∧ b = p ++ y :: b' ∧ y < x := by
  induction a generalizing b pos with
  | nil =>
    cases b with
    | nil => simp [cmpSeg]
    | cons y b => simp [cmpSeg]
  | cons x a ih =>
    cases b with
    | nil => simp [cmpSeg]
    | cons y b =>
      simp only [cmpSeg]
      by_cases hxy : x = y
      · subst hxy
        rw [if_pos rfl]
        have := ih b (pos + 1)
        cases hc : cmpSeg a b (pos + 1) with
        | less =>
          rw [hc] at this; obtain ⟨p, x', y', a', b', h1, h2, h3⟩ := this
          exact ⟨x :: p, x', y', a', b', by rw [h1]; rfl, by rw [h2]; rfl, h3⟩
        | greater =>
          rw [hc] at this; obtain ⟨p, x', y', a', b', h1, h2, h3⟩ := this
          exact ⟨x :: p, x', y', a', b', by rw [h1]; rfl, by rw [h2]; rfl, h3⟩
        | cont v1 v2 =>
          rw [hc] at this
          cases v1 with
          | tail =>
            cases v2 with
            | tail => simp only at this ⊢; rw [this]
            | off q =>
              simp only at this ⊢
              obtain ⟨b', h1, h2, h3⟩ := this
              exact ⟨b', h1, by rw [h2]; rfl, by simp only [List.length_cons]; omega⟩
          | off q =>
            cases v2 with
            | tail =>
              simp only at this ⊢
              obtain ⟨a', h1, h2, h3⟩ := this
              exact ⟨a', h1, by rw [h2]; rfl, by simp only [List.length_cons]; omega⟩
            | off q' => exact this
      · rw [if_neg hxy]
        by_cases hlt : x < y
        · rw [if_pos hlt]; exact ⟨[], x, y, a, b, rfl, rfl, hlt⟩
        · rw [if_neg hlt]; exact ⟨[], x, y, a, b, rfl, rfl, by omega⟩

/-! ### unification -/

theorem bindTail_den_congr (t : Tail) {r r' : Rep} (h : WF r) (h' : WF r')
    (e : denote r = denote r') : (bindTail t r).den = (bindTail t r').den := by
  cases r with
  | tl a =>
    cases r' with
    | tl b => simp only [denote, Prod.mk.injEq, true_and] at e; rw [e]
    | lis c s => simp [denote] at e
    | seg cs k s =>
      obtain ⟨c, s', es⟩ := step_seg_some (r := s) h'.1
      have := denote_ne_nil_of_step h' es
      rw [← e] at this; simp [denote] at this
  | lis c s =>
    cases r' with
    | tl b => simp [denote] at e
    | lis c' s' => cases t <;> simp [bindTail, URes.den, e]
    | seg cs k s' => cases t <;> simp [bindTail, URes.den, e]
  | seg cs k s =>
    cases r' with
    | tl b =>
      obtain ⟨c, s', es⟩ := step_seg_some (r := s) h.1
      have := denote_ne_nil_of_step h es
      rw [e] at this; simp [denote] at this
    | lis c' s' => cases t <;> simp [bindTail, URes.den, e]
    | seg cs' k' s' => cases t <;> simp [bindTail, URes.den, e]

theorem bindTail_not_stuck (t : Tail) (r : Rep) : (bindTail t r).isStuck = false := by
  unfold bindTail
  split <;> (try split) <;> rfl

theorem unifyList_nil_left (t1 : Tail) (l2 : List Nat) (t2 : Tail) :
    unifyList [] t1 l2 t2 = bindTail t1 (l2.foldr .lis (.tl t2)) := by
  cases l2 <;> rfl

theorem unifyList_nil_right (x : Nat) (a : List Nat) (t1 t2 : Tail) :
    unifyList (x :: a) t1 [] t2 = bindTail t2 ((x :: a).foldr .lis (.tl t1)) := rfl

theorem wf_foldr (l : List Nat) (t : Tail) : WF (l.foldr .lis (.tl t)) := by
  induction l with
  | nil => trivial
  | cons x l ih => exact ih

/-- `unifyList` on lists with a common prefix. -/
theorem unifyList_append (p a : List Nat) (t1 : Tail) (b : List Nat) (t2 : Tail) :
    unifyList (p ++ a) t1 (p ++ b) t2 = unifyList a t1 b t2 := by
  induction p with
  | nil => rfl
  | cons x p ih => simp only [List.cons_append, unifyList, if_true, ih]

theorem unifyList_mismatch (p : List Nat) (x y : Nat) (a b : List Nat) (t1 t2 : Tail) (h : x ≠ y) :
    unifyList (p ++ x :: a) t1 (p ++ y :: b) t2 = .fail := by
  rw [unifyList_append]; simp only [unifyList, if_neg h]

theorem wf_contOf {cs : List Nat} {k : Nat} {r : Rep} (hr : WF r) :
    ∀ v : Cont, (match v with | .off q => k + q < cs.length | .tail => True) → WF (contOf cs k r v)
  | .off q, h => ⟨h, hr⟩
  | .tail, _ => hr

theorem size_contOf_le (cs : List Nat) (k : Nat) (r : Rep) (v : Cont) :
    size (contOf cs k r v) ≤ size (.seg cs k r) := by
  cases v <;> simp only [contOf, size] <;> omega

/-- **Unification commutes with `denote`.** -/
theorem unify_denote (fuel : Nat) : ∀ (r1 r2 : Rep), WF r1 → WF r2 → size r1 + size r2 ≤ fuel →
    (unify fuel r1 r2).den =
      (unifyList (denote r1).1 (denote r1).2 (denote r2).1 (denote r2).2).den ∧
    (unify fuel r1 r2).isStuck = false := by
  induction fuel with
  | zero =>
    intro r1 r2 _ _ hs
    cases r1 <;> simp only [size] at hs <;> omega
  | succ fuel ih =>
    intro r1 r2 h1 h2 hs
    cases r1 with
    | tl t =>
      have hu : unify (fuel + 1) (.tl t) r2 = bindTail t r2 := by cases r2 <;> rfl
      rw [hu]
      simp only [denote, unifyList_nil_left]
      refine ⟨bindTail_den_congr t h2 (wf_foldr _ _) (by rw [denote_foldr]), ?_⟩
      exact bindTail_not_stuck _ _
    | lis c a =>
      cases r2 with
      | tl t =>
        simp only [unify, denote, unifyList_nil_right]
        refine ⟨bindTail_den_congr t h1 (wf_foldr _ _) (by rw [denote_foldr]; rfl), ?_⟩
        exact bindTail_not_stuck _ _
      | lis d b =>
        simp only [unify, denote, unifyList]
        by_cases hcd : c = d
        · simp only [if_pos hcd]
          exact ih a b h1 h2 (by simp only [size] at hs; omega)
        · simp only [if_neg hcd, URes.isStuck, and_self]
      | seg cs k r =>
        obtain ⟨c', s, es⟩ := step_seg_some (r := r) h2.1
        have sp := step_some h2 es
        simp only [unify, es]
        rw [sp.1]
        simp only [denote, unifyList]
        by_cases hcd : c' = c
        · subst hcd
          simp only [if_true]
          exact ih a s h1 sp.2.1 (by simp only [size] at hs ⊢; have := sp.2.2; simp only [size] at this; omega)
        · have : ¬ c = c' := fun h => hcd h.symm
          simp only [if_neg hcd, if_neg this, URes.isStuck, and_self]
    | seg cs k r =>
      obtain ⟨c, s, es⟩ := step_seg_some (r := r) h1.1
      have sp := step_some h1 es
      cases r2 with
      | tl t =>
        simp only [unify]
        rw [sp.1]
        simp only [denote, unifyList_nil_right]
        exact ⟨bindTail_den_congr t h1 (wf_foldr _ _) (by rw [denote_foldr, sp.1]), bindTail_not_stuck _ _⟩
      | lis d b =>
        simp only [unify, es]
        rw [sp.1]
        simp only [denote, unifyList]
        by_cases hcd : c = d
        · subst hcd
          simp only [if_true]
          exact ih s b sp.2.1 h2 (by simp only [size] at hs ⊢; have := sp.2.2; simp only [size] at this; omega)
        · simp only [if_neg hcd, URes.isStuck, and_self]
      | seg cs2 k2 r2 =>
        simp only [unify, denote]
        have spec := cmpSeg_spec (cs.drop k) (cs2.drop k2) 0
        cases hc : cmpSeg (cs.drop k) (cs2.drop k2) 0 with
        | less =>
          rw [hc] at spec
          obtain ⟨p, x, y, a', b', e1, e2, hlt⟩ := spec
          simp only [e1, e2, List.append_assoc, List.cons_append]
          rw [unifyList_mismatch _ _ _ _ _ _ _ (by omega)]
          simp only [URes.isStuck, and_self]
        | greater =>
          rw [hc] at spec
          obtain ⟨p, x, y, a', b', e1, e2, hlt⟩ := spec
          simp only [e1, e2, List.append_assoc, List.cons_append]
          rw [unifyList_mismatch _ _ _ _ _ _ _ (by omega)]
          simp only [URes.isStuck, and_self]
        | cont v1 v2 =>
          rw [hc] at spec
          have hsz1 := size_contOf_le cs k r v1
          have hsz2 := size_contOf_le cs2 k2 r2 v2
          have hk1 := h1.1
          have hk2 := h2.1
          cases v1 with
          | tail =>
            cases v2 with
            | tail =>
              simp only at spec
              simp only [contOf]
              rw [spec, unifyList_append]
              exact ih r r2 h1.2 h2.2 (by simp only [size] at hs; omega)
            | off q =>
              simp only at spec
              obtain ⟨b', hb, e2, hq⟩ := spec
              simp only [contOf]
              have hlen : (cs.drop k).length + b'.length = (cs2.drop k2).length := by
                rw [e2, List.length_append]
              have hb' : b'.length ≠ 0 := fun h0 => hb (List.length_eq_zero_iff.mp h0)
              simp only [List.length_drop] at hlen
              have hq' : q = cs.length - k := by rw [hq, List.length_drop]; omega
              have hdrop : cs2.drop (k2 + q) = b' := by
                rw [← List.drop_drop, e2, hq, Nat.zero_add, List.drop_left]
              have key := ih r (.seg cs2 (k2 + q) r2) h1.2 ⟨by omega, h2.2⟩
                (by simp only [size] at hs ⊢; omega)
              simp only [denote, hdrop] at key
              rw [e2, List.append_assoc]
              rw [unifyList_append]
              exact key
          | off q =>
            cases v2 with
            | tail =>
              simp only at spec
              obtain ⟨a', ha, e1, hq⟩ := spec
              simp only [contOf]
              have hlen : (cs2.drop k2).length + a'.length = (cs.drop k).length := by
                rw [e1, List.length_append]
              have ha' : a'.length ≠ 0 := fun h0 => ha (List.length_eq_zero_iff.mp h0)
              simp only [List.length_drop] at hlen
              have hq' : q = cs2.length - k2 := by rw [hq, List.length_drop]; omega
              have hdrop : cs.drop (k + q) = a' := by
                rw [← List.drop_drop, e1, hq, Nat.zero_add, List.drop_left]
              have key := ih (.seg cs (k + q) r) r2 ⟨by omega, h1.2⟩ h2.2
                (by simp only [size] at hs ⊢; omega)
              simp only [denote, hdrop] at key
              rw [e1, List.append_assoc]
              rw [unifyList_append]
              exact key
            | off q' => exact spec.elim

/-! ### comparison -/

theorem compareList_append (p a : List Nat) (t1 : Tail) (b : List Nat) (t2 : Tail) :
    compareList (p ++ a) t1 (p ++ b) t2 = compareList a t1 b t2 := by
  induction p with
  | nil => rfl
  | cons x p ih => simp only [List.cons_append, compareList, if_true, ih]

theorem compareList_nil_cons (t1 : Tail) (y : Nat) (b : List Nat) (t2 : Tail) :
    compareList [] t1 (y :: b) t2 = .endL t1 := rfl

theorem compareList_cons_nil (x : Nat) (a : List Nat) (t1 t2 : Tail) :
    compareList (x :: a) t1 [] t2 = .endR t2 := rfl

/-- **Comparison commutes with `denote`.** -/
theorem compare_denote (fuel : Nat) : ∀ (r1 r2 : Rep), WF r1 → WF r2 → size r1 + size r2 ≤ fuel →
    compare fuel r1 r2 = compareList (denote r1).1 (denote r1).2 (denote r2).1 (denote r2).2 := by
  induction fuel with
  | zero =>
    intro r1 r2 _ _ hs
    cases r1 <;> simp only [size] at hs <;> omega
  | succ fuel ih =>
    intro r1 r2 h1 h2 hs
    cases r1 with
    | tl t =>
      cases r2 with
      | tl t2 => rfl
      | lis d b => rfl
      | seg cs2 k2 r2 =>
        obtain ⟨c, s, es⟩ := step_seg_some (r := r2) h2.1
        rw [(step_some h2 es).1]; rfl
    | lis c a =>
      cases r2 with
      | tl t => rfl
      | lis d b =>
        simp only [compare, denote, compareList]
        by_cases hcd : c = d
        · simp only [if_pos hcd]
          exact ih a b h1 h2 (by simp only [size] at hs; omega)
        · simp only [if_neg hcd]
      | seg cs k r =>
        obtain ⟨c', s, es⟩ := step_seg_some (r := r) h2.1
        have sp := step_some h2 es
        simp only [compare, es]
        rw [sp.1]
        simp only [denote, compareList]
        by_cases hcd : c = c'
        · subst hcd
          simp only [if_true]
          exact ih a s h1 sp.2.1 (by simp only [size] at hs ⊢; have := sp.2.2; simp only [size] at this; omega)
        · simp only [if_neg hcd]
    | seg cs k r =>
      obtain ⟨c, s, es⟩ := step_seg_some (r := r) h1.1
      have sp := step_some h1 es
      cases r2 with
      | tl t =>
        simp only [compare]
        rw [sp.1]; rfl
      | lis d b =>
        simp only [compare, es]
        rw [sp.1]
        simp only [denote, compareList]
        by_cases hcd : c = d
        · subst hcd
          simp only [if_true]
          exact ih s b sp.2.1 h2 (by simp only [size] at hs ⊢; have := sp.2.2; simp only [size] at this; omega)
        · simp only [if_neg hcd]
      | seg cs2 k2 r2 =>
        simp only [compare, denote]
        have spec := cmpSeg_spec (cs.drop k) (cs2.drop k2) 0
        have hk1 := h1.1
        have hk2 := h2.1
        cases hc : cmpSeg (cs.drop k) (cs2.drop k2) 0 with
        | less =>
          rw [hc] at spec
          obtain ⟨p, x, y, a', b', e1, e2, hlt⟩ := spec
          simp only [e1, e2, List.append_assoc, List.cons_append]
          rw [compareList_append]
          simp only [compareList, if_neg (show ¬ x = y by omega), if_pos hlt]
        | greater =>
          rw [hc] at spec
          obtain ⟨p, x, y, a', b', e1, e2, hlt⟩ := spec
          simp only [e1, e2, List.append_assoc, List.cons_append]
          rw [compareList_append]
          simp only [compareList, if_neg (show ¬ x = y by omega), if_neg (show ¬ x < y by omega)]
        | cont v1 v2 =>
          rw [hc] at spec
          cases v1 with
          | tail =>
            cases v2 with
            | tail =>
              simp only at spec
              simp only [contOf]
              rw [spec, compareList_append]
              exact ih r r2 h1.2 h2.2 (by simp only [size] at hs; omega)
            | off q =>
              simp only at spec
              obtain ⟨b', hb, e2, hq⟩ := spec
              simp only [contOf]
              have hlen : (cs.drop k).length + b'.length = (cs2.drop k2).length := by
                rw [e2, List.length_append]
              have hb' : b'.length ≠ 0 := fun h0 => hb (List.length_eq_zero_iff.mp h0)
              simp only [List.length_drop] at hlen
              have hq' : q = cs.length - k := by rw [hq, List.length_drop]; omega
              have hdrop : cs2.drop (k2 + q) = b' := by
                rw [← List.drop_drop, e2, hq, Nat.zero_add, List.drop_left]
              have key := ih r (.seg cs2 (k2 + q) r2) h1.2 ⟨by omega, h2.2⟩
                (by simp only [size] at hs ⊢; omega)
              simp only [denote, hdrop] at key
              rw [e2, List.append_assoc, compareList_append]
              exact key
          | off q =>
            cases v2 with
            | tail =>
              simp only at spec
              obtain ⟨a', ha, e1, hq⟩ := spec
              simp only [contOf]
              have hlen : (cs2.drop k2).length + a'.length = (cs.drop k).length := by
                rw [e1, List.length_append]
              have ha' : a'.length ≠ 0 := fun h0 => ha (List.length_eq_zero_iff.mp h0)
              simp only [List.length_drop] at hlen
              have hq' : q = cs2.length - k2 := by rw [hq, List.length_drop]; omega
              have hdrop : cs.drop (k + q) = a' := by
                rw [← List.drop_drop, e1, hq, Nat.zero_add, List.drop_left]
              have key := ih (.seg cs (k + q) r) r2 ⟨by omega, h1.2⟩ h2.2
                (by simp only [size] at hs ⊢; omega)
              simp only [denote, hdrop] at key
              rw [e1, List.append_assoc, compareList_append]
              exact key
            | off q' => exact spec.elim

/-! ## byte level -/

theorem encode_ne_zero {c : Nat} (hc : c ≠ 0) : ∀ b ∈ encode c, b ≠ 0 := by
  intro b hb
  unfold encode at hb
  split at hb
  · simp only [List.mem_singleton] at hb; omega
  · split at hb
    · simp only [List.mem_cons, List.mem_nil_iff, or_false] at hb; omega
    · split at hb
      · simp only [List.mem_cons, List.mem_nil_iff, or_false] at hb; omega
      · simp only [List.mem_cons, List.mem_nil_iff, or_false] at hb; omega

theorem encode_ne_nil (c : Nat) : encode c ≠ [] := by
  unfold encode; split
  · exact List.cons_ne_nil _ _
  · split
    · exact List.cons_ne_nil _ _
    · split <;> exact List.cons_ne_nil _ _

theorem utf8_ne_zero : ∀ (cs : List Nat), (∀ c ∈ cs, c ≠ 0) → ∀ b ∈ utf8 cs, b ≠ 0
  | [], _, b, hb => by simp [utf8] at hb
  | c :: cs, h, b, hb => by
    simp only [utf8, List.mem_append] at hb
    rcases hb with hb | hb
    · exact encode_ne_zero (h c (List.mem_cons_self)) b hb
    · exact utf8_ne_zero cs (fun d hd => h d (List.mem_cons_of_mem _ hd)) b hb

theorem utf8_append (a b : List Nat) : utf8 (a ++ b) = utf8 a ++ utf8 b := by
  induction a with
  | nil => rfl
  | cons x a ih => simp only [List.cons_append, utf8, ih, List.append_assoc]

theorem scanLen_append (bs r : List Nat) (h : ∀ b ∈ bs, b ≠ 0) : scanLen (bs ++ 0 :: r) = bs.length := by
  induction bs with
  | nil => simp [scanLen]
  | cons x bs ih =>
    have hx : x ≠ 0 := h x List.mem_cons_self
    simp only [List.cons_append, scanLen, if_neg hx, List.length_cons]
    rw [ih (fun b hb => h b (List.mem_cons_of_mem _ hb))]

/-- **tail cell arithmetic**: scanning from ANY byte offset `o` of a segment of `L` text bytes laid
out at cell `c` names the cell right behind the segment's cells. -/
theorem scanTailIdx_seg (c o L : Nat) (slice : List Nat) (ho : o ≤ L) (hs : scanLen slice = L - o) :
    scanTailIdx (8 * c + o) slice = c + segCells L := by
  unfold scanTailIdx
  simp only [hs]
  have e : 8 * c + o + (L - o) = 8 * c + L := by omega
  rw [e, Scryer.Heap.sentinel_eq, Scryer.Heap.nextMultipleOf8_eq]
  unfold segCells cellIndex heapIndex
  split <;> split <;> omega

/-- the cell index the scan computes is the one `pstr_tail_idx` gives for the zero byte. -/
theorem segCells_eq_pstrTailIdx (c L : Nat) : c + segCells L = pstrTailIdx (8 * c + L) := by
  unfold segCells pstrTailIdx cellIndex
  split <;> split <;> omega

theorem drop_encode (c : Nat) (q : List Nat) : (encode c ++ q).drop (lenUtf8 c) = q := by
  rw [← Scryer.Utf8.encode_length]; exact List.drop_left

theorem lastCharAndTail_cons (loc c : Nat) (post rest : List Nat) (hc : isScalar c = true)
    (hpost : ∀ d ∈ post, d ≠ 0) :
    lastCharAndTail loc (utf8 (c :: post) ++ 0 :: rest) =
      some (c, if post = [] then .tail (scanTailIdx loc (utf8 (c :: post) ++ 0 :: rest))
               else .pstr (loc + lenUtf8 c)) := by
  have e : utf8 (c :: post) ++ 0 :: rest = encode c ++ (utf8 post ++ 0 :: rest) := by
    simp only [utf8, List.append_assoc]
  unfold lastCharAndTail
  rw [e, Scryer.Utf8.decodeFirst_encode hc]
  simp only [drop_encode]
  cases post with
  | nil => simp [utf8]
  | cons d ps =>
    have hd : d ≠ 0 := hpost d List.mem_cons_self
    cases he : encode d with
    | nil => exact absurd he (encode_ne_nil d)
    | cons b t =>
      have hb : b ≠ 0 := encode_ne_zero hd b (by rw [he]; exact List.mem_cons_self)
      simp only [utf8, he, List.cons_append, if_neg hb]
      rw [if_neg (List.cons_ne_nil _ _)]

theorem decodeFirst_zero (rest : List Nat) : decodeFirst (0 :: rest) = .ok 0 1 := by
  have := Scryer.Utf8.decodeFirst_encode (cp := 0) (by decide) rest
  simpa [encode, lenUtf8] using this

theorem segChars_seg : ∀ (cs : List Nat) (fuel : Nat) (rest : List Nat),
    (∀ c ∈ cs, isScalar c = true ∧ c ≠ 0) → cs.length < fuel →
    segChars fuel (utf8 cs ++ 0 :: rest) = cs
  | [], fuel, rest, _, hf => by
    cases fuel with
    | zero => omega
    | succ f => simp [utf8, segChars, decodeFirst_zero]
  | c :: cs, fuel, rest, h, hf => by
    cases fuel with
    | zero => simp at hf
    | succ f =>
      have hc := h c List.mem_cons_self
      have e : utf8 (c :: cs) ++ 0 :: rest = encode c ++ (utf8 cs ++ 0 :: rest) := by
        simp only [utf8, List.append_assoc]
      rw [e]
      simp only [segChars, Scryer.Utf8.decodeFirst_encode hc.1, if_neg hc.2, drop_encode]
      rw [segChars_seg cs f rest (fun d hd => h d (List.mem_cons_of_mem _ hd))
        (by simp only [List.length_cons] at hf; omega)]

/-- on zero-free texts followed by a zero byte, `compare_pstr_slices` is prefix stripping. -/
theorem cmpBytes_eq_cmpSeg : ∀ (u v r1 r2 : List Nat) (pos : Nat),
    (∀ b ∈ u, b ≠ 0) → (∀ b ∈ v, b ≠ 0) →
    cmpBytes (u ++ 0 :: r1) (v ++ 0 :: r2) pos = cmpSeg u v pos
  | [], [], _, _, _, _, _ => by simp [cmpBytes, cmpSeg]
  | [], y :: b, _, _, _, _, hv => by
    have : y ≠ 0 := hv y List.mem_cons_self
    simp [cmpBytes, cmpSeg, this]
  | x :: a, [], _, _, _, hu, _ => by
    have : x ≠ 0 := hu x List.mem_cons_self
    simp [cmpBytes, cmpSeg, this]
  | x :: a, y :: b, r1, r2, pos, hu, hv => by
    have hx : x ≠ 0 := hu x List.mem_cons_self
    have hy : y ≠ 0 := hv y List.mem_cons_self
    simp only [List.cons_append, cmpBytes, cmpSeg, if_neg hx, if_neg hy]
    rw [cmpBytes_eq_cmpSeg a b r1 r2 (pos + 1) (fun b hb => hu b (List.mem_cons_of_mem _ hb))
      (fun b hb => hv b (List.mem_cons_of_mem _ hb))]

theorem cmpSeg_append (p u v : List Nat) (pos : Nat) :
    cmpSeg (p ++ u) (p ++ v) pos = cmpSeg u v (pos + p.length) := by
  induction p generalizing pos with
  | nil => rfl
  | cons x p ih =>
    simp only [List.cons_append, cmpSeg, if_true, ih, List.length_cons]
    congr 1; omega

/-- two different characters never make `compare_pstr_slices` answer `Continue` (UTF-8 is
prefix-free): unification of the segments fails exactly when the character lists differ. -/
theorem cmpSeg_encode_ne {x y : Nat} (hx : isScalar x = true) (hy : isScalar y = true) (hxy : x ≠ y)
    (s t : List Nat) (pos : Nat) :
    cmpSeg (encode x ++ s) (encode y ++ t) pos = .less ∨ cmpSeg (encode x ++ s) (encode y ++ t) pos = .greater := by
  have spec := cmpSeg_spec (encode x ++ s) (encode y ++ t) pos
  have dx := fun q => Scryer.Utf8.decodeFirst_encode hx q
  have dy := fun q => Scryer.Utf8.decodeFirst_encode hy q
  cases hc : cmpSeg (encode x ++ s) (encode y ++ t) pos with
  | less => exact Or.inl rfl
  | greater => exact Or.inr rfl
  | cont v1 v2 =>
    rw [hc] at spec
    exfalso
    cases v1 with
    | tail =>
      cases v2 with
      | tail =>
        simp only at spec
        have := dx s; rw [spec, dy t] at this
        simp only [Scryer.Utf8.Step.ok.injEq] at this; exact hxy this.1.symm
      | off q =>
        simp only at spec
        obtain ⟨b', _, e, _⟩ := spec
        have := dy t; rw [e, List.append_assoc, dx] at this
        simp only [Scryer.Utf8.Step.ok.injEq] at this; exact hxy this.1
    | off q =>
      cases v2 with
      | tail =>
        simp only at spec
        obtain ⟨a', _, e, _⟩ := spec
        have := dx s; rw [e, List.append_assoc, dy] at this
        simp only [Scryer.Utf8.Step.ok.injEq] at this; exact hxy this.1.symm
      | off q' => exact spec

end Scryer.PStr
