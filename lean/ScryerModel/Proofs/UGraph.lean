import ScryerModel.Model.UGraph
import Mathlib.Data.List.Sort
import Mathlib.Logic.Relation
/-!
# Lemmas about the `library(ugraphs)` model: ordered sets, `sort/2`, graph basics,
and the vertex/edge characterisation of every non-iterative operation.
(Closure, reachability and topological sorting are in `Proofs/UGraphClosure`, `Proofs/UGraphTopSort`.)
-/
set_option linter.unnecessarySeqFocus false
namespace Scryer.UGraph

/-! ## strictly ascending lists -/

theorem sorted_cons {a : Nat} {l : List Nat} : Sorted (a :: l) ↔ (∀ b ∈ l, a < b) ∧ Sorted l := by
  simp [Sorted]

@[simp] theorem sorted_nil : Sorted [] := by simp [Sorted]

theorem Sorted.nodup {l : List Nat} (h : Sorted l) : l.Nodup :=
  List.Pairwise.imp (fun h => Nat.ne_of_lt h) h

/-- a strictly ascending list is determined by its members. -/
theorem sorted_ext : ∀ {l1 l2 : List Nat}, Sorted l1 → Sorted l2 → (∀ x, x ∈ l1 ↔ x ∈ l2) → l1 = l2
  | [], [], _, _, _ => rfl
  | [], b :: _, _, _, h => by have := (h b).2 (by simp); simp at this
  | a :: _, [], _, _, h => by have := (h a).1 (by simp); simp at this
  | a :: as, b :: bs, h1, h2, h => by
    rw [sorted_cons] at h1 h2
    have hab : a = b := by
      have ha := (h a).1 (by simp)
      have hb := (h b).2 (by simp)
      simp at ha hb
      rcases ha with ha | ha
      · exact ha
      · rcases hb with hb | hb
        · exact hb.symm
        · have := h1.1 b hb; have := h2.1 a ha; omega
    subst hab
    congr 1
    apply sorted_ext h1.2 h2.2
    intro x
    constructor
    · intro hx
      have := (h x).1 (by simp [hx])
      simp at this
      rcases this with rfl | h'
      · have := h1.1 x hx; omega
      · exact h'
    · intro hx
      have := (h x).2 (by simp [hx])
      simp at this
      rcases this with rfl | h'
      · have := h2.1 x hx; omega
      · exact h'

/-! ## ordsets -/

@[simp] theorem ordUnion_nil_right (l : List Nat) : ordUnion l [] = l := by cases l <;> simp [ordUnion]
@[simp] theorem ordSubtract_nil_right (l : List Nat) : ordSubtract l [] = l := by cases l <;> simp [ordSubtract]

theorem mem_ordUnion {x : Nat} {l1 l2 : List Nat} : x ∈ ordUnion l1 l2 ↔ x ∈ l1 ∨ x ∈ l2 := by
  fun_induction ordUnion l1 l2 <;> simp_all <;> grind

theorem sorted_ordUnion {l1 l2 : List Nat} (h1 : Sorted l1) (h2 : Sorted l2) : Sorted (ordUnion l1 l2) := by
  fun_induction ordUnion l1 l2 <;> simp_all [sorted_cons, mem_ordUnion] <;> grind

theorem ordSubtract_sublist {l1 l2 : List Nat} : (ordSubtract l1 l2).Sublist l1 := by
  fun_induction ordSubtract l1 l2 <;> simp_all

theorem sorted_ordSubtract {l1 l2 : List Nat} (h1 : Sorted l1) : Sorted (ordSubtract l1 l2) :=
  List.Pairwise.sublist ordSubtract_sublist h1

theorem mem_ordSubtract {x : Nat} {l1 l2 : List Nat} (h1 : Sorted l1) (h2 : Sorted l2) :
    x ∈ ordSubtract l1 l2 ↔ x ∈ l1 ∧ x ∉ l2 := by
  fun_induction ordSubtract l1 l2 <;> simp_all [sorted_cons] <;> grind

theorem mem_ordAddElement {x e : Nat} {l : List Nat} : x ∈ ordAddElement l e ↔ x = e ∨ x ∈ l := by
  fun_induction ordAddElement l e <;> simp_all <;> grind

theorem sorted_ordAddElement {e : Nat} {l : List Nat} (h : Sorted l) : Sorted (ordAddElement l e) := by
  fun_induction ordAddElement l e <;> simp_all [sorted_cons, mem_ordAddElement] <;> grind

theorem ordUnionNew_fst (l1 l2 : List Nat) : (ordUnionNew l1 l2).1 = ordUnion l1 l2 := by
  fun_induction ordUnionNew l1 l2 <;> simp_all [ordUnion, consFst, consBoth]

theorem ordUnionNew_snd (l1 l2 : List Nat) : (ordUnionNew l1 l2).2 = ordSubtract l2 l1 := by
  fun_induction ordUnionNew l1 l2 <;> simp_all [ordSubtract, consFst, consBoth] <;> grind [ordSubtract]

theorem length_ordUnion (l1 l2 : List Nat) :
    (ordUnion l1 l2).length = l1.length + (ordSubtract l2 l1).length := by
  fun_induction ordUnion l1 l2 <;> simp_all [ordSubtract] <;> grind [ordSubtract]

/-! ## `sort/2` and `msort_/2` -/

/-- the laws `sortSet` needs from its comparison. -/
structure StrictOrder {α} (lt : α → α → Bool) : Prop where
  irrefl : ∀ a, lt a a = false
  trans : ∀ a b c, lt a b = true → lt b c = true → lt a c = true
  tri : ∀ a b, lt a b = false → lt b a = false → a = b

theorem natLt_strict : StrictOrder natLt where
  irrefl := by simp [natLt]
  trans := by simp [natLt]; omega
  tri := by simp [natLt]; omega

theorem edgeLt_strict : StrictOrder edgeLt where
  irrefl := by simp [edgeLt]
  trans := by
    rintro ⟨a1, a2⟩ ⟨b1, b2⟩ ⟨c1, c2⟩
    simp [edgeLt]; omega
  tri := by
    rintro ⟨a1, a2⟩ ⟨b1, b2⟩
    simp [edgeLt]; omega

variable {α : Type} {lt : α → α → Bool}

theorem mem_insertSet (h : StrictOrder lt) {x y : α} {l : List α} :
    y ∈ insertSet lt x l ↔ y = x ∨ y ∈ l := by
  fun_induction insertSet lt x l <;> simp_all
  · grind
  · rename_i y' ys h1 h2
    have := h.tri _ _ (by simpa using h1) (by simpa using h2)
    grind

theorem pairwise_insertSet (h : StrictOrder lt) {x : α} {l : List α}
    (hl : l.Pairwise (fun a b => lt a b = true)) : (insertSet lt x l).Pairwise (fun a b => lt a b = true) := by
  fun_induction insertSet lt x l <;> simp_all [mem_insertSet h]
  · rename_i y ys h1
    intro a ha
    exact h.trans _ _ _ h1 (hl.1 a ha)

theorem mem_sortSet (h : StrictOrder lt) {y : α} {l : List α} : y ∈ sortSet lt l ↔ y ∈ l := by
  induction l with
  | nil => simp [sortSet]
  | cons a l ih => simp only [sortSet, List.foldr_cons] at ih ⊢; simp [mem_insertSet h, ih]

theorem pairwise_sortSet (h : StrictOrder lt) (l : List α) : (sortSet lt l).Pairwise (fun a b => lt a b = true) := by
  induction l with
  | nil => simp [sortSet]
  | cons a l ih => simp only [sortSet, List.foldr_cons] at ih ⊢; exact pairwise_insertSet h ih

@[simp] theorem mem_sortNat {y : Nat} {l : List Nat} : y ∈ sortNat l ↔ y ∈ l := mem_sortSet natLt_strict

theorem sorted_sortNat (l : List Nat) : Sorted (sortNat l) := by
  have := pairwise_sortSet natLt_strict l
  simpa [natLt, Sorted, sortNat] using this

@[simp] theorem mem_sortEdges {y : Nat × Nat} {l : List (Nat × Nat)} : y ∈ sortEdges l ↔ y ∈ l :=
  mem_sortSet edgeLt_strict

/-- lexicographic strict order on edges. -/
def EdgeLt (a b : Nat × Nat) : Prop := a.1 < b.1 ∨ (a.1 = b.1 ∧ a.2 < b.2)

theorem edgeLt_iff {a b : Nat × Nat} : edgeLt a b = true ↔ EdgeLt a b := by
  simp [edgeLt, EdgeLt]

theorem sorted_sortEdges (l : List (Nat × Nat)) : (sortEdges l).Pairwise EdgeLt := by
  have := pairwise_sortSet edgeLt_strict l
  simpa [edgeLt_iff, sortEdges] using this

theorem mem_insertDup {x y : Nat} {l : List Nat} : y ∈ insertDup x l ↔ y = x ∨ y ∈ l := by
  fun_induction insertDup x l <;> simp_all <;> grind

@[simp] theorem mem_msortNat {y : Nat} {l : List Nat} : y ∈ msortNat l ↔ y ∈ l := by
  induction l with
  | nil => simp [msortNat]
  | cons a l ih => simp only [msortNat, List.foldr_cons] at ih ⊢; simp [mem_insertDup, ih]

theorem insertDup_eq_insertSet {x : Nat} {l : List Nat} (hx : x ∉ l) : insertDup x l = insertSet natLt x l := by
  fun_induction insertDup x l <;> simp_all [insertSet, natLt] <;> grind

/-- on a list without duplicates `msort_/2` and `sort/2` agree. -/
theorem msortNat_eq_sortNat {l : List Nat} (h : l.Nodup) : msortNat l = sortNat l := by
  induction l with
  | nil => rfl
  | cons a l ih =>
    rw [List.nodup_cons] at h
    simp only [msortNat, sortNat, sortSet, List.foldr_cons] at ih ⊢
    rw [ih h.2, insertDup_eq_insertSet]
    have : a ∉ sortNat l := by simp [h.1]
    exact this

theorem sortNat_eq_nil {l : List Nat} : sortNat l = [] ↔ l = [] := by
  constructor
  · intro h
    cases l with
    | nil => rfl
    | cons a l => have : a ∈ sortNat (a :: l) := by simp
                  rw [h] at this; simp at this
  · rintro rfl; rfl

/-! ## graph basics -/

@[simp] theorem edge_nil {x y : Nat} : Edge [] x y ↔ False := by simp [Edge]

@[simp] theorem edge_cons {v : Nat} {ns : List Nat} {g : Graph} {x y : Nat} :
    Edge ((v, ns) :: g) x y ↔ (x = v ∧ y ∈ ns) ∨ Edge g x y := by
  simp [Edge]; grind

theorem vertices_eq_map (g : Graph) : vertices g = g.map Prod.fst := by
  induction g with
  | nil => rfl
  | cons p g ih => obtain ⟨v, ns⟩ := p; simp [vertices, ih]

theorem mem_vertices {v : Nat} {g : Graph} : v ∈ vertices g ↔ ∃ ns, (v, ns) ∈ g := by
  simp [vertices_eq_map]

theorem mem_vertices_of_mem {v : Nat} {ns : List Nat} {g : Graph} (h : (v, ns) ∈ g) : v ∈ vertices g :=
  mem_vertices.2 ⟨ns, h⟩

theorem Edge.src {g : Graph} {x y : Nat} (h : Edge g x y) : x ∈ vertices g := by
  obtain ⟨ns, h1, _⟩ := h; exact mem_vertices_of_mem h1

@[simp] theorem vertices_nil : vertices [] = [] := rfl
@[simp] theorem vertices_cons {v : Nat} {ns : List Nat} {g : Graph} : vertices ((v, ns) :: g) = v :: vertices g := rfl

theorem WF.dst {g : Graph} (h : WF g) {x y : Nat} (e : Edge g x y) : y ∈ vertices g := by
  obtain ⟨ns, h1, h2⟩ := e; exact h.closed _ h1 _ h2

theorem wf_iff {g : Graph} : WF g ↔ Sorted (vertices g) ∧ (∀ p ∈ g, Sorted p.2) ∧ ∀ x y, Edge g x y → y ∈ vertices g := by
  constructor
  · intro h; exact ⟨h.keys, h.nbrs, fun x y e => h.dst e⟩
  · rintro ⟨h1, h2, h3⟩
    exact ⟨h1, h2, fun p hp y hy => h3 p.1 y ⟨p.2, hp, hy⟩⟩

theorem neighbours_some_mem {v : Nat} {g : Graph} {ns : List Nat} (h : neighbours v g = some ns) : (v, ns) ∈ g := by
  fun_induction neighbours v g <;> simp_all

theorem neighbours_eq_some {v : Nat} {g : Graph} {ns : List Nat} (hk : Sorted (vertices g)) :
    neighbours v g = some ns ↔ (v, ns) ∈ g := by
  fun_induction neighbours v g
  · simp
  · rename_i ns0 g
    simp [sorted_cons] at hk
    simp
    constructor
    · rintro rfl; simp
    · rintro (h1 | h1)
      · exact h1.symm
      · have := hk.1 _ (mem_vertices_of_mem h1); omega
  · rename_i v0 ns0 g h ih
    simp [sorted_cons] at hk
    simp [ih hk.2]
    grind

theorem neighbours_eq_none {v : Nat} {g : Graph} : neighbours v g = none ↔ v ∉ vertices g := by
  fun_induction neighbours v g <;> simp_all

theorem neighbours_isSome {v : Nat} {g : Graph} (h : v ∈ vertices g) : ∃ ns, neighbours v g = some ns := by
  cases h' : neighbours v g with
  | none => exact absurd h (neighbours_eq_none.1 h')
  | some ns => exact ⟨ns, rfl⟩

/-- with distinct keys, `x → y` iff `y` is in the neighbour list stored under `x`. -/
theorem edge_iff_neighbours {g : Graph} (hk : Sorted (vertices g)) {x y : Nat} :
    Edge g x y ↔ ∃ ns, neighbours x g = some ns ∧ y ∈ ns := by
  simp [Edge, neighbours_eq_some hk]

/-- Canonical form: two well-formed graphs with the same vertices and the same edges are equal. -/
theorem graph_ext : ∀ {g h : Graph}, Sorted (vertices g) → Sorted (vertices h) → (∀ p ∈ g, Sorted p.2) →
    (∀ p ∈ h, Sorted p.2) → (∀ v, v ∈ vertices g ↔ v ∈ vertices h) → (∀ x y, Edge g x y ↔ Edge h x y) → g = h := by
  intro g h kg kh ng nh hv he
  have hvs : vertices g = vertices h := sorted_ext kg kh hv
  clear hv
  induction g generalizing h with
  | nil => cases h with
    | nil => rfl
    | cons p h => obtain ⟨v, ns⟩ := p; simp at hvs
  | cons p g ih =>
    obtain ⟨v, ns⟩ := p
    cases h with
    | nil => simp at hvs
    | cons q h =>
      obtain ⟨w, ms⟩ := q
      simp at hvs
      obtain ⟨rfl, hvs⟩ := hvs
      simp [sorted_cons] at kg kh
      have hns : ns = ms := by
        apply sorted_ext (ng (v, ns) (by simp)) (nh (v, ms) (by simp))
        intro y
        have := he v y
        simp at this
        constructor
        · intro hy
          rcases this.1 (Or.inl hy) with h1 | h1
          · exact h1
          · have := kh.1 _ h1.src; omega
        · intro hy
          rcases this.2 (Or.inl hy) with h1 | h1
          · exact h1
          · have := kg.1 _ h1.src; omega
      subst hns
      congr 1
      apply ih kg.2 kh.2 (fun p hp => ng p (by simp [hp])) (fun p hp => nh p (by simp [hp])) _ hvs
      intro x y
      have := he x y
      simp at this
      constructor
      · intro e
        rcases this.1 (Or.inr e) with h1 | h1
        · have := kg.1 _ e.src; omega
        · exact h1
      · intro e
        rcases this.2 (Or.inr e) with h1 | h1
        · have := kh.1 _ e.src; omega
        · exact h1

end Scryer.UGraph
